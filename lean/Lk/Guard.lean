import Generated.FieldAccess
/-! Hand-written guard map for the fields of the mutex-owning structs of olareg and the executable lockset check over the
    regenerated access table (used by `Properties/C13.lean` through `decide`, and by `Drivers/LocksMain.lean`).
    Fields are looked up by name; a field the map does not know fails the check. -/
namespace Lk
open Generated

inductive Guard
  | immutable   -- written only while the object is under construction (and by Close/Shutdown, see `lifecycle`)
  | own         -- every access holds the mutex of the object the field belongs to
  deriving DecidableEq, Repr

def guardTable : List (String × Guard) := [
  -- internal/cache: the generic cache
  ("Cache.entries", .own), ("Cache.timer", .own),
  ("Cache.minAge", .immutable), ("Cache.maxAge", .immutable), ("Cache.minCount", .immutable), ("Cache.maxCount", .immutable),
  ("Cache.pruneFn", .immutable), ("Cache.prunePreFn", .immutable), ("Cache.prunePostFn", .immutable),
  -- olareg.Server
  ("Server.httpServer", .own), ("Server.stopped", .own),
  ("Server.conf", .immutable), ("Server.store", .immutable), ("Server.log", .immutable),
  ("Server.referrerCache", .immutable), ("Server.rateLimit", .immutable),
  -- directory store
  ("dir.root", .immutable), ("dir.repos", .immutable), ("dir.log", .immutable), ("dir.conf", .immutable), ("dir.stop", .immutable),
  ("dirRepo.timeCheck", .own), ("dirRepo.timeMod", .own), ("dirRepo.exists", .own), ("dirRepo.index", .own),
  ("dirRepo.wgBlock", .immutable), ("dirRepo.name", .immutable), ("dirRepo.path", .immutable), ("dirRepo.uploads", .immutable),
  ("dirRepo.log", .immutable), ("dirRepo.conf", .immutable),
  ("dirRepoUpload.fh", .own), ("dirRepoUpload.w", .own), ("dirRepoUpload.size", .own), ("dirRepoUpload.d", .own),
  ("dirRepoUpload.expect", .immutable), ("dirRepoUpload.path", .immutable), ("dirRepoUpload.filename", .immutable),
  ("dirRepoUpload.dr", .immutable), ("dirRepoUpload.sessionID", .immutable),
  -- memory store
  ("mem.repos", .own),
  ("mem.log", .immutable), ("mem.conf", .immutable), ("mem.stop", .immutable),
  ("memRepo.timeMod", .own), ("memRepo.index", .own), ("memRepo.blobs", .own),
  ("memRepo.wgBlock", .immutable), ("memRepo.uploads", .immutable), ("memRepo.log", .immutable), ("memRepo.path", .immutable),
  ("memRepo.conf", .immutable),
  ("memRepoUpload.buffer", .own), ("memRepoUpload.w", .own), ("memRepoUpload.d", .own),
  ("memRepoUpload.expect", .immutable), ("memRepoUpload.mr", .immutable), ("memRepoUpload.sessionID", .immutable)]

def guardOf (f : String) : Option Guard := (guardTable.find? (fun p => p.1 == f)).map (·.2)

/-- thread roots outside C13's quantifier ("concurrent requests and background jobs"): shutting the instance down -/
def lifecycleRoots : List String := ["Server.Close", "Server.Shutdown", "dir.Close", "mem.Close"]

def lifecycle (root : String) : Bool := root != "" && lifecycleRoots.contains root

def accessOk (a : FieldKey) : Bool :=
  a.ctor || lifecycle a.root ||
  match guardOf a.field with
  | some .immutable => !a.write
  | some .own => a.held.contains a.own
  | none => false

def accessesOk : Bool := fieldAccessKeys.all accessOk

def keyOf (a : FieldAcc) : Option FieldKey := fieldAccessKeys[a.key]?

def badAccesses : List (FieldAcc × FieldKey) :=
  fieldAccess.filterMap (fun a => match keyOf a with
    | some k => if accessOk k then none else some (a, k)
    | none => some (a, { field := "?", write := false, ctor := false, held := [], own := "?", root := "" }))
end Lk
