import Generated.LockFacts
/-! Hand-written rank function on the lock classes of olareg and the executable checks over the regenerated lock facts
    (used by `Properties/C12.lean` through `decide`, and by `Drivers/LocksMain.lean` to print the failing entries).
    Classes are looked up by name, so the table applies to whatever tree the facts were regenerated from; a class the
    table does not know has no rank and every edge that touches it fails. -/
namespace Lk
open Generated

/-- The global acquisition order (smaller = taken first).  Reading of the order:
    `Shutdown` takes `Server.mu` and then waits for the in-flight handlers; a handler (and the ticker goroutine, counted by the
    store's wait group) works its way down: rate-limit mutex / store mutex → cache of repositories → repository token →
    repository wait group → index lock of the server (manifest put/delete, index reads) → (memory store: upload mutex →) repository mutex → cache of upload sessions →
    (directory store: upload mutex, taken by the session cleanup under the cache mutex). -/
def rankTable : List (String × Nat) := [
  ("Server.mu", 0),
  ("Server.listener", 0),
  ("Server.handlers", 10),
  ("dir.wg", 10),
  ("mem.wg", 10),
  ("Server.rateMu", 20),
  ("dir.mu", 20),
  ("mem.mu", 20),
  ("Server.rateLimit/Cache.mu", 30),
  ("dir.repos/Cache.mu", 30),
  ("dirRepo.wgBlock", 40),
  ("memRepo.wgBlock", 40),
  ("dirRepo.wg", 50),
  ("memRepo.wg", 50),
  ("Server.indexMu", 55),
  ("memRepoUpload.mu", 60),
  ("dirRepo.mu", 70),
  ("memRepo.mu", 70),
  ("Server.referrerCache/Cache.mu", 80),
  ("dirRepo.uploads/Cache.mu", 80),
  ("memRepo.uploads/Cache.mu", 80),
  ("dirRepoUpload.mu", 90)]

def rank (c : String) : Option Nat := (rankTable.find? (fun p => p.1 == c)).map (·.2)

/-- `held` is ranked strictly below `acq`; false when either class is unknown to the table -/
def Ranked (held acq : String) : Prop := ∃ a b, rank held = some a ∧ rank acq = some b ∧ a < b

def edgeOk (e : String × String) : Bool :=
  match rank e.1, rank e.2 with
  | some a, some b => decide (a < b)
  | _, _ => false

theorem edgeOk_ranked {e : String × String} (h : edgeOk e = true) : Ranked e.1 e.2 := by
  unfold edgeOk at h
  split at h
  · next a b ha hb => exact ⟨a, b, ha, hb, by simpa using h⟩
  · cases h

def edgesOk : Bool := lockEdges.all edgeOk

/-- the edges that violate the order, with their witnesses -/
def badEdges : List LockEdge := lockEdgeWitnesses.filter (fun e => !edgeOk (e.held, e.acq))

/-- a call that claims `locked = true` is made with the object's mutex held, or on an object still under construction -/
def lockedCallOk (c : String × Bool × Bool × Bool × String) : Bool := !c.2.1 || c.2.2.1 || c.2.2.2.1

def lockedCallsOk : Bool := lockedCalls.all lockedCallOk

/-- the count of a wait group that is protected by a token is only raised while holding the token, or before the object
    is published (the protocol model `PxT` has no other `add` step) -/
def wgAddOk (a : String × String × Bool × Bool × Bool × String) : Bool := !a.2.2.2.2.1 || a.2.2.1 || a.2.2.2.1

def wgAddsOk : Bool := wgAdds.all wgAddOk

/-- thread roots that shut the instance down: they stop the whole store on purpose -/
def shutdownRoots : List String := ["Server.Close", "Server.Shutdown", "dir.Close", "mem.Close"]

/-- (thread root, mutex) pairs that are known to be held across a wait of the repository protocol in the tree as it is:
    the cleanup of an aged-out entry of the directory store's cache of repositories runs `dirRepo.gc` — which takes the token
    and waits for the in-flight requests — under the cache mutex (see notes/design-C12-C13.md, finding "prune timer") -/
def waitExceptions : List (String × String) := [("timer:Cache.pruneAge@dir.repos", "dir.repos/Cache.mu")]

/-- a blocking wait of the repository protocol (taking the token, `wg.Wait` of the collector) holds no mutex: the protocol
    model `PxT` lets a waiting thread block nobody but through the token and the count -/
def repoWaitOk (w : String × String × List String × String × String × String) : Bool :=
  shutdownRoots.contains w.2.2.2.1 || w.2.2.1.all (fun m => waitExceptions.contains (w.2.2.2.1, m))

def repoWaitsOk : Bool := repoWaits.all repoWaitOk
end Lk
