import Upd.C01
import Upd.Frame
import Upd.RefIx
/-! C07 on the handler model: what `referrerAdd` / `referrerDelete` / `storeResp` do to the response registered for a
    subject, and the invariant over histories.

    Two facts about `String` functions are *hypotheses* wherever they are needed, because the kernel cannot compute
    `String.splitOn` and core has no lemmas about it:
    * `DigRT dg` — the digest string of `dg` parses back to `dg` (`DigArg.parse dg.str = .ok dg`);
    * `RespFits s ds` — the table of response documents does not already hold a *different* list under the canonical
      name of `ds` (content names are symbolic; the real server stores the bytes themselves). -/
namespace Upd.Rf

/-- digest of the response document that lists `ds` -/
def respDig (ds : List Desc) : Dig := ⟨.sha256, respName ds⟩

/-- the index entry that registers the response `ds` for subject `S` -/
def respDesc (S : String) (ds : List Desc) : Desc :=
  { mt := "ocii", dig := (respDig ds).str, size := respSize ds, ann := { isNil := false, subj := S } }

/-- the digest string parses back to the digest -/
def DigRT (d : Dig) : Prop := DigArg.parse d.str = .ok d

/-- the response table decodes the canonical name of `ds` to `ds`, or not at all -/
def RespFits (s : State) (ds : List Desc) : Prop := ∀ ds', s.resp (respName ds) = some ds' → ds' = ds

/-- subject `S` has the response `ds` registered in repository `r`: the index entry found for `S` carries the digest
    of the document, the document is stored, and it decodes to `ds` -/
def Registered (s : State) (r S : String) (ds : List Desc) : Prop :=
  (∃ e, getBySubj (s.repo r).index S = some e ∧ e.dig = (respDig ds).str) ∧
  (s.repo r).blob (respDig ds) = some (respName ds) ∧ s.resp (respName ds) = some ds

/-- the handlers can read the list `l` for subject `S` through the entry `e` -/
def Readable (s : State) (r S : String) (e : Desc) (l : List Desc) : Prop :=
  getBySubj (s.repo r).index S = some e ∧
  ∃ dg c, DigArg.parse e.dig = .ok dg ∧ (s.repo r).blob dg = some c ∧ s.resp c = some l

/-- the list the handlers read for a subject (`[]` if nothing is registered) -/
def respList (s : State) (r S : String) : List Desc :=
  match currentResp s r S with | some (_, ds) => ds | none => []

theorem Readable.read {s : State} {r S : String} {e : Desc} {l : List Desc} (h : Readable s r S e l) :
    currentResp s r S = some (e, l) := by
  obtain ⟨h1, dg, c, h2, h3, h4⟩ := h
  unfold currentResp
  simp [h1, h2, h3, h4]

theorem Registered.readable {s : State} {r S : String} {ds : List Desc} (h : Registered s r S ds)
    (hrt : DigRT (respDig ds)) : ∃ e, Readable s r S e ds ∧ e.dig = (respDig ds).str := by
  obtain ⟨⟨e, h1, h2⟩, h3, h4⟩ := h
  refine ⟨e, ⟨h1, respDig ds, respName ds, ?_, h3, h4⟩, h2⟩
  rw [h2]; exact hrt

theorem Registered.read {s : State} {r S : String} {ds : List Desc} (h : Registered s r S ds)
    (hrt : DigRT (respDig ds)) : ∃ e, currentResp s r S = some (e, ds) ∧ e.dig = (respDig ds).str := by
  obtain ⟨e, h1, h2⟩ := h.readable hrt
  exact ⟨e, h1.read, h2⟩

theorem currentResp_none (s : State) (r S : String) : currentResp s r S = none ↔ getBySubj (s.repo r).index S = none := by
  unfold currentResp
  constructor
  · intro h
    cases hg : getBySubj (s.repo r).index S with
    | none => rfl
    | some e =>
      rw [hg] at h
      simp only [] at h
      repeat' split at h
      all_goals cases h
  · intro h; simp [h]

/-! ### state plumbing: which parts of the state `storeResp` writes -/

theorem setRepo_resps (s : State) (rp : Repo) : (s.setRepo rp).resps = s.resps := by
  unfold State.setRepo; split <;> rfl

theorem putContent_resps (s : State) (r : String) (d : Dig) (c : String) : (putContent s r d c).resps = s.resps := by
  unfold putContent; simp only []; split <;> exact setRepo_resps _ _

theorem indexInsert_resps (s : State) (r : String) (d : Desc) (cs : List Desc) : (indexInsert s r d cs).resps = s.resps := by
  unfold indexInsert; exact setRepo_resps _ _

theorem repo_setRepo_same' (s : State) (rp : Repo) (r : String) (h : rp.name = r) : (s.setRepo rp).repo r = rp := by
  subst h; exact repo_setRepo_same s rp

theorem indexInsert_repo (s : State) (r : String) (d : Desc) (cs : List Desc) :
    (indexInsert s r d cs).repo r = { s.repo r with index := addDesc (s.repo r).index d cs } := by
  unfold indexInsert
  exact repo_setRepo_same' _ _ _ (repo_name s r)

theorem putContent_repo (s : State) (r : String) (d : Dig) (c : String) :
    (putContent s r d c).repo r = if ((s.repo r).blob d).isSome then s.repo r else (s.repo r).putBlob d c := by
  unfold putContent
  simp only []
  split
  · have := repo_setRepo_same s (s.repo r)
    rwa [repo_name] at this
  · have := repo_setRepo_same s ((s.repo r).putBlob d c)
    rwa [putBlob_name, repo_name] at this

theorem putBlob_index (rp : Repo) (d : Dig) (c : String) : (rp.putBlob d c).index = rp.index := by
  unfold Repo.putBlob; split <;> rfl

theorem putContent_index (s : State) (r : String) (d : Dig) (c : String) :
    ((putContent s r d c).repo r).index = (s.repo r).index := by
  rw [putContent_repo]; split
  · rfl
  · exact putBlob_index _ _ _

theorem blob_isSome_any (rp : Repo) (d : Dig) : (rp.blob d).isSome = rp.blobs.any (·.1 = d) := by
  unfold Repo.blob
  rw [Option.isSome_map, Bool.eq_iff_iff, List.find?_isSome, List.any_eq_true]

/-- a stored blob stays, with its content -/
theorem putContent_blob_mono (s : State) (r : String) (d : Dig) (c : String) (g : Dig) (x : String)
    (h : (s.repo r).blob g = some x) : ((putContent s r d c).repo r).blob g = some x := by
  rw [putContent_repo]
  split
  · exact h
  · rename_i hnone
    have hany : (s.repo r).blobs.any (·.1 = d) = false := by
      rw [← blob_isSome_any]; simpa using hnone
    unfold Repo.putBlob
    simp only [hany, Bool.false_eq_true, if_false]
    unfold Repo.blob at h ⊢
    simp only [List.find?_append]
    cases hf : (s.repo r).blobs.find? (fun x => x.1 = g) with
    | none => rw [hf] at h; cases h
    | some p => rw [hf] at h; simpa using h

/-- … and the blob asked for is there afterwards; under content addressing it holds the content asked for -/
theorem putContent_blob_self (s : State) (r : String) (d : Dig) (c : String)
    (hcas : ∀ c', (s.repo r).blob d = some c' → c' = c) : ((putContent s r d c).repo r).blob d = some c := by
  rw [putContent_repo]
  split
  · rename_i hsome
    cases hb : (s.repo r).blob d with
    | none => rw [hb] at hsome; cases hsome
    | some c' => rw [hcas c' hb]
  · rename_i hnone
    have hany : (s.repo r).blobs.any (·.1 = d) = false := by
      rw [← blob_isSome_any]; simpa using hnone
    have hfind : (s.repo r).blobs.find? (fun x => x.1 = d) = none := by
      apply List.find?_eq_none.mpr
      intro x hx hxe
      have := List.any_eq_false.mp hany x hx
      exact this hxe
    unfold Repo.putBlob
    simp only [hany, Bool.false_eq_true, if_false]
    unfold Repo.blob
    simp [List.find?_append, hfind]

theorem cas_blob (rp : Repo) (h : RepoCAS rp) (d : Dig) (c : String) (hb : rp.blob d = some c) : d.content = c := by
  unfold Repo.blob at hb
  cases hf : rp.blobs.find? (fun x => x.1 = d) with
  | none => rw [hf] at hb; cases hb
  | some p =>
    rw [hf] at hb
    simp only [Option.map_some, Option.some.injEq] at hb
    have hm := List.mem_of_find?_eq_some hf
    have hp := List.find?_some hf
    simp only [decide_eq_true_eq] at hp
    rw [← hb, ← h p hm, hp]

/-- `storeResp`, step by step -/
theorem storeResp_eq (s : State) (r S : String) (ds : List Desc) :
    storeResp s r S ds =
      indexInsert (putContent { s with resps := if s.resps.any (·.1 = respName ds) then s.resps else s.resps ++ [(respName ds, ds)] }
        r (respDig ds) (respName ds)) r (respDesc S ds) ds := rfl

theorem storeResp_index (s : State) (r S : String) (ds : List Desc) :
    ((storeResp s r S ds).repo r).index = addDesc (s.repo r).index (respDesc S ds) ds := by
  rw [storeResp_eq, indexInsert_repo]
  simp only []
  rw [putContent_index]
  rfl

theorem storeResp_blob_of (s : State) (r S : String) (ds : List Desc) (g : Dig) :
    ((storeResp s r S ds).repo r).blob g =
      ((putContent s r (respDig ds) (respName ds)).repo r).blob g := by
  rw [storeResp_eq, indexInsert_repo]
  show (_ : Repo).blob g = _
  rw [putContent_repo, putContent_repo]
  rfl

theorem storeResp_resps (s : State) (r S : String) (ds : List Desc) :
    (storeResp s r S ds).resps = if s.resps.any (·.1 = respName ds) then s.resps else s.resps ++ [(respName ds, ds)] := by
  rw [storeResp_eq, indexInsert_resps, putContent_resps]

/-- the response table only grows: every name keeps its decoding -/
theorem storeResp_resp_mono (s : State) (r S : String) (ds : List Desc) (n : String) (l : List Desc)
    (h : s.resp n = some l) : (storeResp s r S ds).resp n = some l := by
  unfold State.resp at h ⊢
  rw [storeResp_resps]
  split
  · exact h
  · rw [List.find?_append]
    cases hf : s.resps.find? (fun x => x.1 = n) with
    | none => rw [hf] at h; cases h
    | some p => rw [hf] at h; simpa using h

/-- … and the name of `ds` decodes to `ds` afterwards unless it was taken by another list -/
theorem storeResp_resp_self (s : State) (r S : String) (ds : List Desc) (hfit : RespFits s ds) :
    (storeResp s r S ds).resp (respName ds) = some ds := by
  cases hr : s.resp (respName ds) with
  | some l =>
    have := hfit l hr
    subst this
    exact storeResp_resp_mono s r S _ _ _ hr
  | none =>
    unfold State.resp at hr ⊢
    rw [storeResp_resps]
    have hfind : s.resps.find? (fun x => x.1 = respName ds) = none := by
      cases hf : s.resps.find? (fun x => x.1 = respName ds) with
      | none => rfl
      | some p => rw [hf] at hr; cases hr
    have hany : s.resps.any (·.1 = respName ds) = false := by
      apply List.any_eq_false.mpr
      intro x hx
      have := List.find?_eq_none.mp hfind x hx
      simpa using this
    simp [hany, List.find?_append, hfind]

/-! ### 1. what is registered after `storeResp`, `referrerAdd`, `referrerDelete` -/

/-- after `storeResp s r S ds` the subject `S` has exactly `ds` registered -/
theorem storeResp_registered (s : State) (r S : String) (ds : List Desc) (hS : S ≠ "")
    (hcas : RepoCAS (s.repo r)) (hfit : RespFits s ds) : Registered (storeResp s r S ds) r S ds := by
  refine ⟨?_, ?_, storeResp_resp_self s r S ds hfit⟩
  · rw [storeResp_index]
    exact getBySubj_addDesc (s.repo r).index (respDesc S ds) ds S rfl rfl rfl hS
  · rw [storeResp_blob_of]
    apply putContent_blob_self
    intro c' hc'
    exact (cas_blob _ hcas _ _ hc').symm

/-- "append unless the digest is listed" — `Index.AddDesc` on a response document -/
def addTo (old : List Desc) (d : Desc) : List Desc := if old.any (·.dig = d.dig) then old else old ++ [d]

theorem referrerAdd_eq (s : State) (r S : String) (d : Desc) :
    referrerAdd s r S d = storeResp s r S (addTo (respList s r S) d) := by
  unfold referrerAdd respList addTo
  cases currentResp s r S with
  | none => rfl
  | some p => rfl

theorem mem_addTo_of_mem (old : List Desc) (d x : Desc) (h : x ∈ old) : x ∈ addTo old d := by
  unfold addTo; split
  · exact h
  · simp [h]

theorem addTo_lists (old : List Desc) (d : Desc) : ∃ x ∈ addTo old d, x.dig = d.dig := by
  unfold addTo; split
  · rename_i h
    obtain ⟨x, hx, hxd⟩ := List.any_eq_true.mp h
    exact ⟨x, hx, by simpa using hxd⟩
  · exact ⟨d, by simp, rfl⟩

theorem mem_addTo (old : List Desc) (d x : Desc) (h : x ∈ addTo old d) : x ∈ old ∨ x = d := by
  unfold addTo at h; split at h
  · exact Or.inl h
  · simpa using h

theorem addTo_nodup (old : List Desc) (d : Desc) (h : (old.map (·.dig)).Nodup) : ((addTo old d).map (·.dig)).Nodup := by
  unfold addTo; split
  · exact h
  · rename_i hany
    rw [List.map_append, List.map_singleton]
    apply List.nodup_append.mpr
    refine ⟨h, by simp, ?_⟩
    intro a ha b hb
    simp only [List.mem_singleton] at hb
    subst hb
    intro hab; subst hab
    apply hany
    obtain ⟨x, hx, hxd⟩ := List.mem_map.mp ha
    exact List.any_eq_true.mpr ⟨x, hx, by simpa using hxd⟩

/-- after `referrerAdd s r S d` the subject has registered: the list read before, with `d` appended unless its digest
    was listed -/
theorem referrerAdd_registered (s : State) (r S : String) (d : Desc) (hS : S ≠ "")
    (hcas : RepoCAS (s.repo r)) (hfit : RespFits s (addTo (respList s r S) d)) :
    Registered (referrerAdd s r S d) r S (addTo (respList s r S) d) := by
  rw [referrerAdd_eq]; exact storeResp_registered s r S _ hS hcas hfit

/-- the list `referrerDelete` writes back: `Index.RmDesc` by digest on the response document -/
def rmFrom (old : List Desc) (g : String) : List Desc := (rmDesc { manifests := old } { dig := g }).manifests

theorem rmFrom_perm (old : List Desc) (g : String) (hg : g ≠ "") : (rmFrom old g).Perm (old.filter (fun e => e.dig ≠ g)) :=
  rmDesc_dig_perm old g hg

theorem rmFrom_empty (old : List Desc) : (rmFrom old "").Perm old := rmDesc_dig_empty old

theorem referrerDelete_eq (s : State) (r S : String) (d : Desc) :
    referrerDelete s r S d =
      if currentResp s r S = none then s else storeResp s r S (rmFrom (respList s r S) d.dig) := by
  unfold referrerDelete respList rmFrom
  cases currentResp s r S with
  | none => rfl
  | some p => rfl

/-- after `referrerDelete s r S d`, when something was registered, the subject has registered: the list read before
    without the entries of digest `d.dig` (up to order: `rmFrom_perm`) -/
theorem referrerDelete_registered (s : State) (r S : String) (d : Desc) (hS : S ≠ "")
    (hcas : RepoCAS (s.repo r)) (hsome : currentResp s r S ≠ none)
    (hfit : RespFits s (rmFrom (respList s r S) d.dig)) :
    Registered (referrerDelete s r S d) r S (rmFrom (respList s r S) d.dig) := by
  rw [referrerDelete_eq, if_neg hsome]; exact storeResp_registered s r S _ hS hcas hfit

theorem referrerDelete_nothing (s : State) (r S : String) (d : Desc) (h : currentResp s r S = none) :
    referrerDelete s r S d = s := by
  rw [referrerDelete_eq, if_pos h]
end Upd.Rf

namespace Upd.Rf
/-! ### 3. other subjects are untouched -/

/-- `storeResp` for `S` leaves the index entries annotated with any other subject exactly as they were -/
theorem storeResp_other_entries (s : State) (r S : String) (ds : List Desc) (hS : S ≠ "") (e : Desc)
    (hsub : Sub e) (hne : e.ann.subj ≠ S) :
    e ∈ ((storeResp s r S ds).repo r).index.manifests ↔ e ∈ (s.repo r).index.manifests := by
  rw [storeResp_index]
  obtain ⟨_, hall, hkeep⟩ := addDesc_subj (s.repo r).index (respDesc S ds) ds S rfl rfl rfl hS
  constructor
  · intro h
    rcases hall e h with h | h
    · exfalso; apply hne; rw [h]; rfl
    · exact h.1
  · intro h; exact hkeep e h hsub hne

/-- a stored blob stays through `storeResp` -/
theorem storeResp_blob_mono (s : State) (r S : String) (ds : List Desc) (g : Dig) (x : String)
    (h : (s.repo r).blob g = some x) : ((storeResp s r S ds).repo r).blob g = some x := by
  rw [storeResp_blob_of]; exact putContent_blob_mono s r _ _ g x h

/-- `storeResp` for `S`: whatever could be read for another subject `S'` is read afterwards, through an entry of the
    same digest; and a subject without a response still has none -/
theorem storeResp_other (s : State) (r S S' : String) (ds : List Desc) (hS : S ≠ "") (hS' : S' ≠ "") (hne : S' ≠ S)
    (hfun : SubjFun (s.repo r).index.manifests) :
    (currentResp s r S' = none → currentResp (storeResp s r S ds) r S' = none) ∧
    (∀ e l, Readable s r S' e l → ∃ e', Readable (storeResp s r S ds) r S' e' l ∧ e'.dig = e.dig) := by
  have hent : ∀ e, Sub e → e.ann.subj = S' →
      (e ∈ ((storeResp s r S ds).repo r).index.manifests ↔ e ∈ (s.repo r).index.manifests) :=
    fun e hsub hs => storeResp_other_entries s r S ds hS e hsub (by rw [hs]; exact hne)
  obtain ⟨h1, h2⟩ := getBySubj_subSame (s.repo r).index ((storeResp s r S ds).repo r).index S' hS' hent hfun
  constructor
  · intro h
    rw [currentResp_none] at h ⊢
    exact h1 h
  · intro e l ⟨hg, dg, c, hp, hb, hr⟩
    obtain ⟨e', hg', hd⟩ := h2 e hg
    refine ⟨e', ⟨hg', dg, c, ?_, storeResp_blob_mono s r S ds dg c hb, storeResp_resp_mono s r S ds c l hr⟩, hd⟩
    rw [hd]; exact hp

/-- `referrerAdd` for `S` does not change what is read for another subject -/
theorem referrerAdd_other (s : State) (r S S' : String) (d : Desc) (hS : S ≠ "") (hS' : S' ≠ "") (hne : S' ≠ S)
    (hfun : SubjFun (s.repo r).index.manifests) :
    (currentResp s r S' = none → currentResp (referrerAdd s r S d) r S' = none) ∧
    (∀ e l, Readable s r S' e l → ∃ e', Readable (referrerAdd s r S d) r S' e' l ∧ e'.dig = e.dig) := by
  rw [referrerAdd_eq]; exact storeResp_other s r S S' _ hS hS' hne hfun

/-- `referrerDelete` for `S` does not change what is read for another subject -/
theorem referrerDelete_other (s : State) (r S S' : String) (d : Desc) (hS : S ≠ "") (hS' : S' ≠ "") (hne : S' ≠ S)
    (hfun : SubjFun (s.repo r).index.manifests) :
    (currentResp s r S' = none → currentResp (referrerDelete s r S d) r S' = none) ∧
    (∀ e l, Readable s r S' e l → ∃ e', Readable (referrerDelete s r S d) r S' e' l ∧ e'.dig = e.dig) := by
  rw [referrerDelete_eq]
  split
  · exact ⟨id, fun e l h => ⟨e, h, rfl⟩⟩
  · exact storeResp_other s r S S' _ hS hS' hne hfun
end Upd.Rf

namespace Upd.Rf
/-! ### the three statements in terms of what the handlers read (`currentResp`) -/

/-- 1. after `referrerAdd s r S d` the response read for `S` is the list read before, with `d` appended unless an
    entry with `d.dig` was listed: every old entry is still listed, `d.dig` is listed, nothing else was added, and no
    digest is listed twice if none was before -/
theorem referrerAdd_lists (s : State) (r S : String) (d : Desc) (hS : S ≠ "") (hcas : RepoCAS (s.repo r))
    (hfit : RespFits s (addTo (respList s r S) d)) (hrt : DigRT (respDig (addTo (respList s r S) d))) :
    ∃ e ds, currentResp (referrerAdd s r S d) r S = some (e, ds) ∧
      ds = (if (respList s r S).any (·.dig = d.dig) then respList s r S else respList s r S ++ [d]) ∧
      (∀ x ∈ respList s r S, x ∈ ds) ∧ (∃ x ∈ ds, x.dig = d.dig) ∧ (∀ x ∈ ds, x ∈ respList s r S ∨ x = d) ∧
      (((respList s r S).map (·.dig)).Nodup → (ds.map (·.dig)).Nodup) := by
  obtain ⟨e, he, _⟩ := (referrerAdd_registered s r S d hS hcas hfit).read hrt
  exact ⟨e, _, he, rfl, fun x hx => mem_addTo_of_mem _ d x hx, addTo_lists _ d, fun x hx => mem_addTo _ d x hx,
    addTo_nodup _ d⟩

/-- 2. after `referrerDelete s r S d`, when a response was registered, the response read for `S` is the old list
    without the entries of digest `d.dig`, up to order (the removal swaps the last entry into the hole) -/
theorem referrerDelete_lists (s : State) (r S : String) (d : Desc) (hS : S ≠ "") (hcas : RepoCAS (s.repo r))
    (e0 : Desc) (old : List Desc) (hcur : currentResp s r S = some (e0, old)) (hd : d.dig ≠ "")
    (hfit : RespFits s (rmFrom old d.dig)) (hrt : DigRT (respDig (rmFrom old d.dig))) :
    ∃ e ds, currentResp (referrerDelete s r S d) r S = some (e, ds) ∧ ds.Perm (old.filter (fun x => x.dig ≠ d.dig)) := by
  have hl : respList s r S = old := by unfold respList; rw [hcur]
  have hsome : currentResp s r S ≠ none := by rw [hcur]; exact fun h => by cases h
  have hreg := referrerDelete_registered s r S d hS hcas hsome (by rw [hl]; exact hfit)
  rw [hl] at hreg
  obtain ⟨e, he, _⟩ := hreg.read hrt
  exact ⟨e, _, he, rmFrom_perm old d.dig hd⟩

/-- 3. `referrerAdd` and `referrerDelete` for `S` leave every other subject `S'` alone: the index entries annotated
    with `S'` are the same entries; a subject without a response still has none; whatever list could be read for `S'`
    is read afterwards (through an index entry with the same digest) -/
theorem referrers_other_subject_untouched (s : State) (r S S' : String) (d : Desc) (hS : S ≠ "") (hS' : S' ≠ "")
    (hne : S' ≠ S) (hfun : SubjFun (s.repo r).index.manifests) (s' : State)
    (hs' : s' = referrerAdd s r S d ∨ s' = referrerDelete s r S d) :
    (∀ e, Sub e → e.ann.subj = S' → (e ∈ (s'.repo r).index.manifests ↔ e ∈ (s.repo r).index.manifests)) ∧
    (currentResp s r S' = none → currentResp s' r S' = none) ∧
    (∀ e l, Readable s r S' e l → ∃ e', Readable s' r S' e' l ∧ e'.dig = e.dig) := by
  have hent : ∀ ds e, Sub e → e.ann.subj = S' →
      (e ∈ ((storeResp s r S ds).repo r).index.manifests ↔ e ∈ (s.repo r).index.manifests) :=
    fun ds e hsub hs => storeResp_other_entries s r S ds hS e hsub (by rw [hs]; exact hne)
  rcases hs' with h | h
  · subst h
    refine ⟨?_, referrerAdd_other s r S S' d hS hS' hne hfun⟩
    rw [referrerAdd_eq]; exact hent _
  · subst h
    refine ⟨?_, referrerDelete_other s r S S' d hS hS' hne hfun⟩
    rw [referrerDelete_eq]
    split
    · exact fun _ _ _ => Iff.rfl
    · exact hent _
end Upd.Rf
