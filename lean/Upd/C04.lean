import Upd.Reg
/-! scratch: "a refused manifest push changes nothing" on the pilot model (C04) -/
namespace Upd

theorem mCommit_status (s : State) (r b : String) (a : Accepted) : (mCommit s r b a).2.status = 201 := rfl

/-- a refused push (anything but 201) leaves the state as it was, except that the addressed
    repository entry exists afterwards (an empty entry if it did not exist) -/
theorem mPut_refused_unchanged (s : State) (r ref ct qd b : String)
    (h : (mPut s r ref ct qd b).2.status ≠ 201) :
    (mPut s r ref ct qd b).1 = s.setRepo (s.repo r) := by
  unfold mPut at h ⊢
  simp only [] at h ⊢
  cases hv : mValidate (s.setRepo (s.repo r)) r ref ct qd b with
  | error e => rfl
  | ok a =>
    rw [hv] at h
    exact absurd (mCommit_status _ r b a) h

/-- and an acknowledged push went through every check -/
theorem mPut_ack_validated (s : State) (r ref ct qd b : String)
    (h : (mPut s r ref ct qd b).2.status = 201) :
    ∃ a, mValidate (s.setRepo (s.repo r)) r ref ct qd b = .ok a := by
  unfold mPut at h
  simp only [] at h
  cases hv : mValidate (s.setRepo (s.repo r)) r ref ct qd b with
  | ok a => exact ⟨a, rfl⟩
  | error e =>
    rw [hv] at h
    -- every refusal carries a 4xx status: show it by running the checks
    exfalso
    have : e.status = 400 := by
      unfold mValidate refuse at hv
      simp only [bind, Except.bind, pure, Except.pure] at hv
      repeat' split at hv
      all_goals first
        | (cases hv; rfl)
        | (simp at hv)
    simp [this] at h
end Upd
