import Upd.Reg
/-! scratch: "a refused manifest push changes nothing" on the pilot model (C04) -/
namespace Upd

theorem mCommit_status (s : State) (r b : String) (a : Accepted) : (mCommit s r b a).2.status = 201 := rfl

/-- a refused push (anything but 201) leaves the state as it was, except that the addressed
    repository entry exists afterwards (an empty entry if it did not exist) -/
theorem mPut_refused_unchanged (s : State) (r ref ct qd b : String) (lk : Bool)
    (h : (mPut s r ref ct qd b lk).2.status ≠ 201) :
    (mPut s r ref ct qd b lk).1 = s.setRepo (s.repo r) := by
  unfold mPut at h ⊢
  simp only [] at h ⊢
  cases hv : mValidate (s.setRepo (s.repo r)) r ref ct qd b lk with
  | error e => rfl
  | ok a =>
    rw [hv] at h
    exact absurd (mCommit_status _ r b a) h

/-- every refusal of a check sequence carries status 400 or 413 -/
def All4xx {α : Type} (x : Except Resp α) : Prop := ∀ e, x = .error e → (e.status = 400 ∨ e.status = 413)

theorem all4xx_pure {α : Type} (a : α) : All4xx (pure a : Except Resp α) := by
  intro e h; cases h
theorem all4xx_ok {α : Type} (a : α) : All4xx (Except.ok a : Except Resp α) := by
  intro e h; cases h
theorem all4xx_refuse400 {α : Type} (c : String) : All4xx (refuse 400 c : Except Resp α) := by
  intro e h; unfold refuse at h; cases h; simp
theorem all4xx_refuse413 {α : Type} (c : String) : All4xx (refuse 413 c : Except Resp α) := by
  intro e h; unfold refuse at h; cases h; simp
theorem all4xx_bind {α β : Type} (x : Except Resp α) (f : α → Except Resp β) (hx : All4xx x) (hf : ∀ a, All4xx (f a)) :
    All4xx (x >>= f) := by
  intro e h
  cases x with
  | error e' => simp [bind, Except.bind] at h; subst h; exact hx e' rfl
  | ok a => simp [bind, Except.bind] at h; exact hf a e h
theorem all4xx_ite {α : Type} (c : Prop) [Decidable c] (x y : Except Resp α) (hx : All4xx x) (hy : All4xx y) :
    All4xx (if c then x else y) := by
  split <;> assumption

theorem checkCt_4xx (ct : String) : All4xx (checkCt ct) := by
  unfold checkCt; split
  · exact all4xx_refuse400 _
  · exact all4xx_pure _
theorem checkLen_4xx (limit len : Nat) (a : Bool) : All4xx (checkLen limit len a) := by
  unfold checkLen; split
  · exact all4xx_refuse413 _
  · exact all4xx_pure _
theorem parseQd_4xx (qd : String) : All4xx (parseQd qd) := by
  unfold parseQd; split
  · exact all4xx_pure _
  · split
    · exact all4xx_pure _
    · exact all4xx_refuse400 _
theorem parseRef_4xx (ref : String) (q : Option Dig) : All4xx (parseRef ref q) := by
  unfold parseRef; split
  · exact all4xx_pure _
  · split
    · exact all4xx_pure _
    · exact all4xx_refuse400 _
theorem checkDigest_4xx (e : Option Dig) (d : Dig) : All4xx (checkDigest e d) := by
  unfold checkDigest; split
  · exact all4xx_refuse400 _
  · exact all4xx_pure _
theorem validateImage_4xx (ro : Bool) (rp : Repo) (b : Body) (mt tag : String) (d : Dig) : All4xx (validateImage ro rp b mt tag d) := by
  unfold validateImage; split
  · exact all4xx_refuse400 _
  · split
    · exact all4xx_refuse400 _
    · split
      · exact all4xx_refuse400 _
      · exact all4xx_pure _
theorem validateIndex_4xx (ro : Bool) (rp : Repo) (b : Body) (mt tag : String) (d : Dig) : All4xx (validateIndex ro rp b mt tag d) := by
  unfold validateIndex; split
  · exact all4xx_refuse400 _
  · split
    · exact all4xx_refuse400 _
    · split
      · exact all4xx_refuse400 _
      · exact all4xx_pure _
theorem validateBody_4xx (ro : Bool) (rp : Repo) (b : Body) (mt tag : String) (d : Dig) : All4xx (validateBody ro rp b mt tag d) := by
  unfold validateBody; split
  · exact validateImage_4xx _ _ _ _ _ _
  · split
    · exact validateIndex_4xx _ _ _ _ _ _
    · exact all4xx_refuse400 _

/-- every refusal of the validation carries a 4xx status -/
theorem mValidate_all4xx (s : State) (r ref ct qd b : String) (lk : Bool) : All4xx (mValidate s r ref ct qd b lk) := by
  unfold mValidate
  apply all4xx_bind _ _ (checkCt_4xx _); intro _
  apply all4xx_bind _ _ (checkLen_4xx _ _ _); intro _
  apply all4xx_bind _ _ (parseQd_4xx _); intro _
  apply all4xx_bind _ _ (parseRef_4xx _ _); intro _
  apply all4xx_bind _ _ (checkLen_4xx _ _ _); intro _
  apply all4xx_bind _ _ (checkDigest_4xx _ _); intro _
  exact validateBody_4xx _ _ _ _ _ _

theorem mValidate_refusal_4xx (s : State) (r ref ct qd b : String) (lk : Bool) (e : Resp)
    (hv : mValidate s r ref ct qd b lk = .error e) : e.status = 400 ∨ e.status = 413 :=
  mValidate_all4xx s r ref ct qd b lk e hv

/-- and an acknowledged push went through every check -/
theorem mPut_ack_validated (s : State) (r ref ct qd b : String) (lk : Bool)
    (h : (mPut s r ref ct qd b lk).2.status = 201) :
    ∃ a, mValidate (s.setRepo (s.repo r)) r ref ct qd b lk = .ok a := by
  unfold mPut at h
  simp only [] at h
  cases hv : mValidate (s.setRepo (s.repo r)) r ref ct qd b lk with
  | ok a => exact ⟨a, rfl⟩
  | error e =>
    rw [hv] at h
    exfalso
    rcases mValidate_refusal_4xx _ r ref ct qd b lk e hv with h4 | h4 <;> simp [h4] at h
end Upd
