import Upd.Index
import Ixd.RmProofs
/-! Index-level lemmas for the referrers property (C07): what `addDesc`/`rmDesc` of the string-typed index do to the
    entries that carry a subject annotation.  The descending loops are re-expressed through the generic
    `Ixd.descLoop`, so that `Ixd.descLoop_perm` applies. -/
namespace Upd.Rf

theorem swapRemove_eq (l : List Desc) (i : Nat) : swapRemove l i = Ixd.swapRemove l i := by
  unfold swapRemove Ixd.swapRemove; cases l.getLast? <;> rfl

/-- swap-removing position `i` removes exactly the entry at `i` (up to order) -/
theorem swapRemove_split (l : List Desc) (i : Nat) (x : Desc) (h : l[i]? = some x) :
    ∃ pre suf, l = pre ++ x :: suf ∧ pre.length = i ∧ (swapRemove l i).Perm (pre ++ suf) := by
  have hlt : i < l.length := (List.getElem?_eq_some_iff.mp h).1
  have hx : l[i] = x := (List.getElem?_eq_some_iff.mp h).2
  refine ⟨l.take i, l.drop (i+1), ?_, ?_, ?_⟩
  · rw [← hx]; simp
  · simp [List.length_take, Nat.min_eq_left (Nat.le_of_lt hlt)]
  · have hl : l = l.take i ++ x :: l.drop (i+1) := by rw [← hx]; simp
    have hlen : (l.take i).length = i := by simp [List.length_take, Nat.min_eq_left (Nat.le_of_lt hlt)]
    have := Ixd.swapRemove_append (l.take i) x (l.drop (i+1))
    rw [hlen, ← hl] at this
    rw [swapRemove_eq, this]
    exact List.Perm.append_left _ (Ixd.swapTail_perm _)

theorem mem_swapRemove (l : List Desc) (i : Nat) (x : Desc) (h : l[i]? = some x) (e : Desc) :
    e ∈ swapRemove l i → e ∈ l := by
  obtain ⟨pre, suf, hl, _, hp⟩ := swapRemove_split l i x h
  intro he
  have := hp.mem_iff.mp he
  rw [hl]
  simp only [List.mem_append, List.mem_cons] at this ⊢
  rcases this with h | h
  · exact Or.inl h
  · exact Or.inr (Or.inr h)

theorem mem_swapRemove_of_ne (l : List Desc) (i : Nat) (x : Desc) (h : l[i]? = some x) (e : Desc)
    (he : e ∈ l) (hne : e ≠ x) : e ∈ swapRemove l i := by
  obtain ⟨pre, suf, hl, _, hp⟩ := swapRemove_split l i x h
  apply hp.mem_iff.mpr
  rw [hl] at he
  simp only [List.mem_append, List.mem_cons] at he ⊢
  rcases he with h | h | h
  · exact Or.inl h
  · exact absurd h hne
  · exact Or.inr h

/-! ### `findIdx` -/
theorem findIdx_spec (p : Desc → Bool) : ∀ (l : List Desc) (i k : Nat), findIdx p l i = some k →
    i ≤ k ∧ ∃ x, l[k - i]? = some x ∧ p x = true := by
  intro l
  induction l with
  | nil => intro i k h; simp [findIdx] at h
  | cons x xs ih =>
    intro i k h
    unfold findIdx at h
    split at h
    · cases h
      rename_i hp
      exact ⟨Nat.le_refl _, x, by simp, hp⟩
    · obtain ⟨h1, y, hy, hpy⟩ := ih (i+1) k h
      refine ⟨by omega, y, ?_, hpy⟩
      have : k - i = (k - (i+1)) + 1 := by omega
      rw [this]; simpa using hy

theorem findIdx_zero (p : Desc → Bool) (l : List Desc) (k : Nat) (h : findIdx p l 0 = some k) :
    ∃ x, l[k]? = some x ∧ p x = true := by
  obtain ⟨_, x, hx, hp⟩ := findIdx_spec p l 0 k h
  exact ⟨x, by simpa using hx, hp⟩

theorem findIdx_none (p : Desc → Bool) : ∀ (l : List Desc) (i : Nat), findIdx p l i = none → ∀ x ∈ l, p x = false := by
  intro l
  induction l with
  | nil => intro i _ x hx; simp at hx
  | cons y ys ih =>
    intro i h x hx
    unfold findIdx at h
    split at h
    · cases h
    · rename_i hp
      rcases List.mem_cons.mp hx with rfl | hx'
      · simpa using hp
      · exact ih (i+1) h x hx'

/-! ### overwriting one position -/
theorem mem_set_of_ne (l : List Desc) (i : Nat) (x y e : Desc) (h : l[i]? = some x) (he : e ∈ l) (hne : e ≠ x) :
    e ∈ l.set i y := by
  obtain ⟨j, hj⟩ := List.getElem?_of_mem he
  have hji : i ≠ j := by
    intro hij; subst hij; rw [h] at hj; cases hj; exact hne rfl
  apply List.mem_of_getElem? (i := j)
  rw [List.getElem?_set_ne hji]; exact hj

/-! ### `placeDesc` -/
theorem placeDesc_shape (l : List Desc) (d : Desc) (t s : String) :
    (∃ mi x, l[mi]? = some x ∧ x.dig = d.dig ∧
        ((x.ann.isNil = false ∧ x.ann.tag = t ∧ x.ann.subj = s) ∨ compatible x t s = true) ∧
        placeDesc l d t s = l.set mi d) ∨ placeDesc l d t s = l ++ [d] := by
  unfold placeDesc
  split
  · rename_i mi hfi
    obtain ⟨x, hx, hp⟩ := findIdx_zero _ _ _ hfi
    left
    refine ⟨mi, x, hx, ?_, Or.inl ?_, rfl⟩
    · simp only [decide_eq_true_eq, Bool.and_eq_true, Bool.decide_and] at hp
      simp_all
    · simp only [decide_eq_true_eq, Bool.and_eq_true, Bool.decide_and] at hp
      simp_all
  · split
    · rename_i mi hfi
      obtain ⟨x, hx, hp⟩ := findIdx_zero _ _ _ hfi
      left
      refine ⟨mi, x, hx, ?_, Or.inr ?_, rfl⟩
      · simp only [decide_eq_true_eq, Bool.and_eq_true, Bool.decide_and] at hp
        exact hp.1
      · simp only [decide_eq_true_eq, Bool.and_eq_true, Bool.decide_and] at hp
        exact hp.2
    · exact Or.inr rfl

theorem placeDesc_self (l : List Desc) (d : Desc) (t s : String) : d ∈ placeDesc l d t s := by
  rcases placeDesc_shape l d t s with ⟨mi, x, hx, _, _, heq⟩ | heq
  · rw [heq]; exact List.mem_set (List.getElem?_eq_some_iff.mp hx).1 d
  · rw [heq]; simp

theorem placeDesc_mem (l : List Desc) (d : Desc) (t s : String) (e : Desc) (he : e ∈ placeDesc l d t s) :
    e = d ∨ e ∈ l := by
  rcases placeDesc_shape l d t s with ⟨mi, x, hx, _, _, heq⟩ | heq
  · rw [heq] at he
    rcases List.mem_or_eq_of_mem_set he with h | h
    · exact Or.inr h
    · exact Or.inl h
  · rw [heq] at he
    simp only [List.mem_append, List.mem_singleton] at he
    rcases he with h | h
    · exact Or.inr h
    · exact Or.inl h

/-- an entry that `placeDesc` cannot choose for overwriting stays -/
theorem placeDesc_keep (l : List Desc) (d : Desc) (t s : String) (e : Desc) (he : e ∈ l)
    (h1 : ¬ (e.ann.isNil = false ∧ e.ann.tag = t ∧ e.ann.subj = s)) (h2 : compatible e t s = false) :
    e ∈ placeDesc l d t s := by
  rcases placeDesc_shape l d t s with ⟨mi, x, hx, _, hor, heq⟩ | heq
  · rw [heq]
    apply mem_set_of_ne l mi x d e hx he
    intro hex; subst hex
    rcases hor with h | h
    · exact h1 h
    · rw [h2] at h; cases h
  · rw [heq]; simp [he]
end Upd.Rf

namespace Upd.Rf
/-! ### the loops of `rmDesc` and `addDesc` as instances of the generic descending loop -/

def rmStep (d : Desc) (tag subj : String) (found : Bool) (e : Desc) : Bool × Ixd.Act Desc :=
  if d.dig ≠ "" ∧ e.dig = d.dig then
    if tag ≠ "" then
      if found ∧ (e.ann.len = 0 ∨ e.ann.tag = tag) then (true, .drop)
      else if ¬ e.ann.isNil ∧ e.ann.tag = tag then (true, .set { e with ann := { e.ann with tag := "" } })
      else (true, .keep)
    else (found, .drop)
  else if d.dig = "" ∧ ¬ e.ann.isNil ∧ ((tag ≠ "" ∧ e.ann.tag = tag) ∨ (subj ≠ "" ∧ e.ann.subj = subj)) then (found, .drop)
  else (found, .keep)

theorem rmMainLoop_eq (d : Desc) (tag subj : String) :
    ∀ (n : Nat) (found : Bool) (l : List Desc),
      rmMainLoop d tag subj n found l = (Ixd.descLoop (rmStep d tag subj) n found l).2 := by
  intro n
  induction n with
  | zero => intro found l; simp [rmMainLoop, Ixd.descLoop]
  | succ n ih =>
    intro found l
    unfold rmMainLoop Ixd.descLoop
    cases hg : l[n]? with
    | none => simp only []; exact ih found l
    | some e =>
      simp only []
      unfold rmStep
      by_cases h1 : d.dig ≠ "" ∧ e.dig = d.dig
      · rw [if_pos h1, if_pos h1]
        by_cases h2 : tag ≠ ""
        · rw [if_pos h2, if_pos h2]
          by_cases h3 : found = true ∧ (e.ann.len = 0 ∨ e.ann.tag = tag)
          · rw [if_pos h3, if_pos h3]; simp only []; rw [swapRemove_eq]; exact ih _ _
          · rw [if_neg h3, if_neg h3]
            by_cases h4 : ¬ e.ann.isNil = true ∧ e.ann.tag = tag
            · rw [if_pos h4, if_pos h4]; exact ih _ _
            · rw [if_neg h4, if_neg h4]; exact ih _ _
        · rw [if_neg h2, if_neg h2]; simp only []; rw [swapRemove_eq]; exact ih _ _
      · rw [if_neg h1, if_neg h1]
        by_cases h5 : d.dig = "" ∧ ¬ e.ann.isNil = true ∧ ((tag ≠ "" ∧ e.ann.tag = tag) ∨ (subj ≠ "" ∧ e.ann.subj = subj))
        · rw [if_pos h5, if_pos h5]; simp only []; rw [swapRemove_eq]; exact ih _ _
        · rw [if_neg h5, if_neg h5]; exact ih _ _

/-- first loop of `addDesc` for a descriptor that carries a subject and no tag -/
def subjStep (d : Desc) (S : String) (_ : Unit) (e : Desc) : Unit × Ixd.Act Desc :=
  ((), if decide (e.dig ≠ d.dig ∧ e.ann.isNil = false ∧ e.ann.subj = S) then .drop else .keep)

theorem subjStep_val (d : Desc) (S : String) (u : Unit) (e : Desc) : subjStep d S u e =
    ((), if decide (e.dig ≠ d.dig ∧ e.ann.isNil = false ∧ e.ann.subj = S) then .drop else .keep) := rfl

theorem addUntag_subj_eq (d : Desc) (S : String) (hS : S ≠ "") :
    ∀ (n : Nat) (ix : Index), addUntagLoop d "" S n ix =
      { ix with manifests := (Ixd.descLoop (subjStep d S) n () ix.manifests).2 } := by
  intro n
  induction n with
  | zero => intro ix; simp [addUntagLoop, Ixd.descLoop]
  | succ n ih =>
    intro ix
    unfold addUntagLoop Ixd.descLoop
    cases hg : ix.manifests[n]? with
    | none => simp only []; exact ih ix
    | some e =>
      simp only []
      rw [subjStep_val]
      by_cases h1 : e.dig ≠ d.dig ∧ ¬ e.ann.isNil = true
      · rw [if_pos h1]
        have h0 : ¬ (("" : String) ≠ "" ∧ e.ann.tag = "") := by simp
        rw [if_neg h0]
        by_cases h2 : S ≠ "" ∧ e.ann.subj = S
        · rw [if_pos h2]
          have : decide (e.dig ≠ d.dig ∧ e.ann.isNil = false ∧ e.ann.subj = S) = true := by
            simp only [decide_eq_true_eq]
            exact ⟨h1.1, by simpa using h1.2, h2.2⟩
          rw [this]; simp only [if_true]
          rw [ih]; simp only [swapRemove_eq]
        · rw [if_neg h2]
          have : decide (e.dig ≠ d.dig ∧ e.ann.isNil = false ∧ e.ann.subj = S) = false := by
            simp only [decide_eq_false_iff_not]
            intro h; exact h2 ⟨hS, h.2.2⟩
          rw [this]; simp only [Bool.false_eq_true, if_false]
          exact ih ix
      · rw [if_neg h1]
        have : decide (e.dig ≠ d.dig ∧ e.ann.isNil = false ∧ e.ann.subj = S) = false := by
          simp only [decide_eq_false_iff_not]
          intro h; exact h1 ⟨h.1, by simp [h.2.1]⟩
        rw [this]; simp only [Bool.false_eq_true, if_false]
        exact ih ix
end Upd.Rf

namespace Upd.Rf
/-! ### entries that carry a subject annotation -/

/-- the entry carries a subject annotation (it registers a referrers response) -/
def Sub (e : Desc) : Prop := e.ann.isNil = false ∧ e.ann.subj ≠ ""

/-- no entry carries both a tag and a subject annotation -/
def NoTagSubj (l : List Desc) : Prop := ∀ e ∈ l, Sub e → e.ann.tag = ""

/-- all entries annotated with one subject carry one digest -/
def SubjFun (l : List Desc) : Prop := ∀ e1 ∈ l, ∀ e2 ∈ l, Sub e1 → Sub e2 → e1.ann.subj = e2.ann.subj → e1.dig = e2.dig

/-- the two lists have the same subject-annotated entries -/
def SubSame (l l' : List Desc) : Prop := ∀ e, Sub e → (e ∈ l' ↔ e ∈ l)

theorem SubSame.refl (l : List Desc) : SubSame l l := fun _ _ => Iff.rfl
theorem SubSame.trans {l1 l2 l3 : List Desc} (h1 : SubSame l1 l2) (h2 : SubSame l2 l3) : SubSame l1 l3 :=
  fun e he => (h2 e he).trans (h1 e he)
theorem SubSame.noTagSubj {l l' : List Desc} (h : SubSame l l') (hn : NoTagSubj l) : NoTagSubj l' :=
  fun e he hs => hn e ((h e hs).mp he) hs
theorem SubSame.subjFun {l l' : List Desc} (h : SubSame l l') (hn : SubjFun l) : SubjFun l' :=
  fun e1 h1 e2 h2 s1 s2 => hn e1 ((h e1 s1).mp h1) e2 ((h e2 s2).mp h2) s1 s2
theorem SubSame.of_perm {l l' : List Desc} (h : l'.Perm l) : SubSame l l' := fun _ _ => h.mem_iff

theorem Sub.len_ne (e : Desc) (h : Sub e) : e.ann.len ≠ 0 := by
  unfold Ann.len
  have := h.2
  simp only [this, ne_eq, not_false_eq_true, if_true]
  omega

/-- a loop whose step keeps every `P`-entry and never writes one leaves the `P`-entries as they were -/
theorem revSpec_mem_iff {σ : Type} (f : σ → Desc → σ × Ixd.Act Desc) (P : Desc → Prop) :
    ∀ (l : List Desc),
      (∀ s, ∀ x ∈ l, P x → ∃ s', f s x = (s', Ixd.Act.keep)) →
      (∀ s, ∀ x ∈ l, ∀ s' y, f s x = (s', Ixd.Act.set y) → ¬ P y) →
      ∀ (s : σ) (e : Desc), P e → (e ∈ (Ixd.revSpec f l s).2 ↔ e ∈ l) := by
  intro l
  induction l with
  | nil => intro _ _ s e _; simp [Ixd.revSpec]
  | cons x xs ih =>
    intro hkeep hset s e he
    have hk' : ∀ s, ∀ x ∈ xs, P x → ∃ s', f s x = (s', Ixd.Act.keep) :=
      fun s y hy => hkeep s y (List.mem_cons_of_mem _ hy)
    have hs' : ∀ s, ∀ x ∈ xs, ∀ s' y, f s x = (s', Ixd.Act.set y) → ¬ P y :=
      fun s y hy => hset s y (List.mem_cons_of_mem _ hy)
    rcases hf : f s x with ⟨s', act⟩
    have hnx : act ≠ Ixd.Act.keep → e ≠ x := by
      intro hact hex
      subst hex
      obtain ⟨s'', hk⟩ := hkeep s e List.mem_cons_self he
      rw [hf] at hk
      cases hk
      exact hact rfl
    cases act with
    | keep =>
      rw [Ixd.revSpec_cons_keep f xs hf]
      simp only [List.mem_cons]
      rw [ih hk' hs' s' e he]
    | set y =>
      rw [Ixd.revSpec_cons_set f xs hf]
      simp only [List.mem_cons]
      have hey : e ≠ y := by
        intro h; subst h
        exact hset s x List.mem_cons_self s' e hf he
      have hex := hnx (by intro h; cases h)
      rw [ih hk' hs' s' e he]
      simp [hey, hex]
    | drop =>
      rw [Ixd.revSpec_cons_drop f xs hf]
      simp only [List.mem_cons]
      have hex := hnx (by intro h; cases h)
      rw [ih hk' hs' s' e he]
      simp [hex]

theorem descLoop_mem_iff {σ : Type} (f : σ → Desc → σ × Ixd.Act Desc) (P : Desc → Prop) (l : List Desc)
    (hkeep : ∀ s, ∀ x ∈ l, P x → ∃ s', f s x = (s', Ixd.Act.keep))
    (hset : ∀ s, ∀ x ∈ l, ∀ s' y, f s x = (s', Ixd.Act.set y) → ¬ P y)
    (s : σ) (e : Desc) (he : P e) : e ∈ (Ixd.descLoop f l.length s l).2 ↔ e ∈ l := by
  have hp := (Ixd.descLoop_perm f s l).2
  rw [hp.mem_iff]
  rw [revSpec_mem_iff f P l.reverse (fun s x hx => hkeep s x (by simpa using hx))
    (fun s x hx => hset s x (by simpa using hx)) s e he]
  simp

/-! ### `rmDesc` -/

/-- removing a tag (digest and tag given, or a tag alone) never touches a subject-annotated entry,
    provided no entry carries both kinds of annotation -/
theorem rmDesc_tag_subSame (ix : Index) (d : Desc) (hn : d.ann.isNil = false) (ht : d.ann.tag ≠ "")
    (hs : d.ann.subj = "") (hno : NoTagSubj ix.manifests) :
    SubSame ix.manifests (rmDesc ix d).manifests := by
  intro e he
  unfold rmDesc
  simp only [hn, Bool.false_eq_true, if_false, hs]
  rw [rmMainLoop_eq]
  apply descLoop_mem_iff (rmStep d d.ann.tag "") Sub ix.manifests _ _ false e he
  · intro s x hx hsx
    have htag : x.ann.tag = "" := hno x hx hsx
    have hne : ¬ x.ann.tag = d.ann.tag := by rw [htag]; exact fun h => ht h.symm
    have hlen := Sub.len_ne x hsx
    unfold rmStep
    by_cases h1 : d.dig ≠ "" ∧ x.dig = d.dig
    · rw [if_pos h1, if_pos ht]
      have h3 : ¬ (s = true ∧ (x.ann.len = 0 ∨ x.ann.tag = d.ann.tag)) := by
        intro ⟨_, h⟩; rcases h with h | h
        · exact hlen h
        · exact hne h
      have h4 : ¬ (¬ x.ann.isNil = true ∧ x.ann.tag = d.ann.tag) := fun h => hne h.2
      rw [if_neg h3, if_neg h4]
      exact ⟨true, rfl⟩
    · rw [if_neg h1]
      have h5 : ¬ (d.dig = "" ∧ ¬ x.ann.isNil = true ∧ ((d.ann.tag ≠ "" ∧ x.ann.tag = d.ann.tag) ∨ (("" : String) ≠ "" ∧ x.ann.subj = ""))) := by
        intro ⟨_, _, h⟩; rcases h with h | h
        · exact hne h.2
        · exact h.1 rfl
      rw [if_neg h5]
      exact ⟨s, rfl⟩
  · intro s x hx s' y hf
    unfold rmStep at hf
    -- the only write clears the tag of an entry that carries it; such an entry has no subject
    have key : y = { x with ann := { x.ann with tag := "" } } ∧ x.ann.tag = d.ann.tag := by
      repeat' split at hf
      all_goals first
        | (cases hf; done)
        | (simp only [Prod.mk.injEq, Ixd.Act.set.injEq] at hf
           rename_i h4
           exact ⟨hf.2.symm, h4.2⟩)
        | (simp only [Prod.mk.injEq, reduceCtorEq, and_false] at hf)
    obtain ⟨rfl, hxt⟩ := key
    intro hsy
    have hsx : Sub x := ⟨hsy.1, hsy.2⟩
    have := hno x hx hsx
    rw [this] at hxt
    exact ht hxt.symm

/-- removing a digest that no subject-annotated entry carries leaves those entries as they were -/
theorem rmDesc_dig_subSame (ix : Index) (d : Desc) (hn : d.ann.isNil = true)
    (hfree : ∀ e ∈ ix.manifests, Sub e → e.dig ≠ d.dig) :
    SubSame ix.manifests (rmDesc ix d).manifests := by
  intro e he
  unfold rmDesc
  simp only [hn, if_true]
  rw [rmMainLoop_eq]
  apply descLoop_mem_iff (rmStep d "" "") Sub ix.manifests _ _ false e he
  · intro s x hx hsx
    unfold rmStep
    have h1 : ¬ (d.dig ≠ "" ∧ x.dig = d.dig) := fun h => hfree x hx hsx h.2
    have h5 : ¬ (d.dig = "" ∧ ¬ x.ann.isNil = true ∧ ((("" : String) ≠ "" ∧ x.ann.tag = "") ∨ (("" : String) ≠ "" ∧ x.ann.subj = ""))) := by
      intro ⟨_, _, h⟩; rcases h with h | h <;> exact h.1 rfl
    rw [if_neg h1, if_neg h5]
    exact ⟨s, rfl⟩
  · intro s x hx s' y hf
    unfold rmStep at hf
    exfalso
    have h2 : ¬ (("" : String) ≠ "") := fun h => h rfl
    by_cases h1 : d.dig ≠ "" ∧ x.dig = d.dig
    · rw [if_pos h1, if_neg h2] at hf; cases hf
    · rw [if_neg h1] at hf
      split at hf <;> cases hf

/-- removal by digest alone: the list without the entries of that digest, up to order -/
theorem rmDesc_dig_perm (l : List Desc) (g : String) (hg : g ≠ "") :
    (rmDesc { manifests := l } { dig := g }).manifests.Perm (l.filter (fun e => e.dig ≠ g)) := by
  unfold rmDesc
  simp only [if_true]
  rw [rmMainLoop_eq]
  have hstep : ∀ (s : Bool) (e : Desc), rmStep { dig := g } "" "" s e = (s, if (decide (e.dig = g)) then Ixd.Act.drop else Ixd.Act.keep) := by
    intro s e
    unfold rmStep
    by_cases he : e.dig = g
    · simp [he, hg]
    · simp [he, hg]
  have h1 := (Ixd.descLoop_perm (rmStep { dig := g } "" "") false l).2
  rw [Ixd.revSpec_filter _ (fun e => decide (e.dig = g)) hstep] at h1
  refine h1.trans ?_
  have : (l.reverse.filter fun x => !decide (x.dig = g)) = (l.filter fun e => decide (e.dig ≠ g)).reverse := by
    rw [List.filter_reverse]; congr 1
    apply List.filter_congr; intro x _; simp
  rw [this]
  exact List.reverse_perm _

/-- removal with the empty digest and no annotation does nothing -/
theorem rmDesc_dig_empty (l : List Desc) :
    (rmDesc { manifests := l } { dig := "" }).manifests.Perm l := by
  unfold rmDesc
  simp only [if_true]
  rw [rmMainLoop_eq]
  have hstep : ∀ (s : Bool) (e : Desc), rmStep { dig := "" } "" "" s e = (s, if false then Ixd.Act.drop else Ixd.Act.keep) := by
    intro s e
    unfold rmStep
    simp
  have h1 := (Ixd.descLoop_perm (rmStep { dig := "" } "" "") false l).2
  rw [Ixd.revSpec_filter _ (fun _ => false) hstep] at h1
  rw [List.filter_eq_self.mpr (by intros; rfl)] at h1
  exact h1.trans (List.reverse_perm _)
end Upd.Rf

namespace Upd.Rf
/-! ### `moveChildren`, `addUntagLoop`, `addDesc` -/

theorem moveChildren_mem : ∀ (cs : List Desc) (ix : Index) (e : Desc),
    e ∈ (moveChildren cs ix).manifests → e ∈ ix.manifests := by
  intro cs
  induction cs with
  | nil => intro ix e h; simpa [moveChildren] using h
  | cons cd cs ih =>
    intro ix e h
    unfold moveChildren at h
    split at h
    · rename_i mi hfi
      obtain ⟨x, hx, _⟩ := findIdx_zero _ _ _ hfi
      exact mem_swapRemove _ _ x hx e (ih _ e h)
    · split at h
      · exact ih _ e h
      · have := ih _ e h
        exact this

/-- `moveChildren` only takes entries without any annotation out of the top level -/
theorem moveChildren_keep : ∀ (cs : List Desc) (ix : Index) (e : Desc),
    e ∈ ix.manifests → e.ann.len ≠ 0 → e ∈ (moveChildren cs ix).manifests := by
  intro cs
  induction cs with
  | nil => intro ix e h _; simpa [moveChildren] using h
  | cons cd cs ih =>
    intro ix e h hlen
    unfold moveChildren
    split
    · rename_i mi hfi
      obtain ⟨x, hx, hp⟩ := findIdx_zero _ _ _ hfi
      apply ih _ e _ hlen
      apply mem_swapRemove_of_ne _ _ x hx e h
      intro hex; subst hex
      simp only [Bool.decide_and, Bool.and_eq_true, decide_eq_true_eq] at hp
      exact hlen hp.2
    · split
      · exact ih _ e h hlen
      · exact ih _ e h hlen

theorem moveChildren_subSame (cs : List Desc) (ix : Index) : SubSame ix.manifests (moveChildren cs ix).manifests :=
  fun e he => ⟨moveChildren_mem cs ix e, fun h => moveChildren_keep cs ix e h (Sub.len_ne e he)⟩

/-- the first loop of `addDesc` for a tag: every step is a tag removal, which leaves subject entries alone -/
theorem addUntag_tag_subSame (d : Desc) (t : String) (ht : t ≠ "") :
    ∀ (n mi : Nat) (ix : Index), mi ≤ n → NoTagSubj ix.manifests →
      SubSame ix.manifests (addUntagLoop d t "" mi ix).manifests ∧
      (addUntagLoop d t "" mi ix).children = ix.children := by
  intro n
  induction n with
  | zero =>
    intro mi ix hmi _
    have : mi = 0 := by omega
    subst this
    simp [addUntagLoop, SubSame.refl]
  | succ n ih =>
    intro mi ix hmi hno
    cases mi with
    | zero => simp [addUntagLoop, SubSame.refl]
    | succ mi =>
      have hmi' : mi ≤ n := by omega
      unfold addUntagLoop
      cases hg : ix.manifests[mi]? with
      | none => simp only []; exact ih mi ix hmi' hno
      | some e =>
        simp only []
        by_cases h1 : e.dig ≠ d.dig ∧ ¬ e.ann.isNil = true
        · rw [if_pos h1]
          by_cases h2 : t ≠ "" ∧ e.ann.tag = t
          · rw [if_pos h2]
            have hss := rmDesc_tag_subSame ix
              { mt := e.mt, dig := e.dig, size := e.size, ann := { isNil := false, tag := t } } rfl ht rfl hno
            have hch : (rmDesc ix { mt := e.mt, dig := e.dig, size := e.size, ann := { isNil := false, tag := t } }).children
                = ix.children := by
              unfold rmDesc
              simp [ht]
            generalize rmDesc ix { mt := e.mt, dig := e.dig, size := e.size, ann := { isNil := false, tag := t } } = ix' at hss hch
            have hle : (if mi > ix'.manifests.length then ix'.manifests.length else mi) ≤ n := by
              split <;> omega
            obtain ⟨i1, i2⟩ := ih _ ix' hle (hss.noTagSubj hno)
            exact ⟨hss.trans i1, i2.trans hch⟩
          · rw [if_neg h2]
            have h3 : ¬ (("" : String) ≠ "" ∧ e.ann.subj = "") := fun h => h.1 rfl
            rw [if_neg h3]
            exact ih mi ix hmi' hno
        · rw [if_neg h1]
          exact ih mi ix hmi' hno

def dropChild (ix1 : Index) (g : String) : Index :=
  match findIdx (fun c => c.dig = g) ix1.children 0 with
  | some ci => { ix1 with children := swapRemove ix1.children ci }
  | none => ix1

theorem dropChild_manifests (ix1 : Index) (g : String) : (dropChild ix1 g).manifests = ix1.manifests := by
  unfold dropChild; split <;> rfl

/-- `addDesc` for a descriptor without tag and subject, spelled out on the top-level list -/
theorem addDesc_plain (ix : Index) (d : Desc) (cs : List Desc)
    (h : (if d.ann.isNil then "" else d.ann.tag) = "" ∧ (if d.ann.isNil then "" else d.ann.subj) = "") :
    (addDesc ix d cs).manifests =
      if (moveChildren cs (dropChild ix d.dig)).manifests.any (·.dig = d.dig) then (moveChildren cs (dropChild ix d.dig)).manifests
      else (moveChildren cs (dropChild ix d.dig)).manifests ++ [d] := by
  unfold addDesc dropChild
  simp only [h.1, h.2, ne_eq, not_true_eq_false, or_self, if_false, and_self, if_true]
  rw [apply_ite Index.manifests]
  cases findIdx (fun c => decide (c.dig = d.dig)) ix.children 0 <;> rfl

/-- `addDesc` for a descriptor with a tag or a subject, spelled out on the top-level list -/
theorem addDesc_ann (ix : Index) (d : Desc) (cs : List Desc) (t s : String)
    (ht : (if d.ann.isNil then "" else d.ann.tag) = t) (hs : (if d.ann.isNil then "" else d.ann.subj) = s)
    (h : t ≠ "" ∨ s ≠ "") :
    (addDesc ix d cs).manifests =
      placeDesc (moveChildren cs (dropChild (addUntagLoop d t s ix.manifests.length ix) d.dig)).manifests d t s := by
  unfold addDesc dropChild
  have hn : ¬ (t = "" ∧ s = "") := by
    intro ⟨h1, h2⟩; rcases h with h | h
    · exact h h1
    · exact h h2
  simp only [ht, hs, h, if_true, hn, if_false]
  cases findIdx (fun c => decide (c.dig = d.dig)) (addUntagLoop d t s ix.manifests.length ix).children 0 <;> rfl

/-- a push without a subject (tagged or not) leaves every subject-annotated entry of the index as it was -/
theorem addDesc_nosubj_subSame (ix : Index) (d : Desc) (cs : List Desc)
    (hd : d.ann.isNil = true ∨ d.ann.subj = "") (hno : NoTagSubj ix.manifests) :
    SubSame ix.manifests (addDesc ix d cs).manifests := by
  have hdsub : ¬ Sub d := by
    intro ⟨h1, h2⟩; rcases hd with h | h
    · rw [h] at h1; cases h1
    · exact h2 h
  have hs : (if d.ann.isNil then "" else d.ann.subj) = "" := by
    rcases hd with h | h
    · simp [h]
    · simp [h]
  by_cases ht : (if d.ann.isNil then "" else d.ann.tag) = ""
  · rw [addDesc_plain ix d cs ⟨ht, hs⟩]
    have h1 : SubSame ix.manifests (moveChildren cs (dropChild ix d.dig)).manifests := by
      have := moveChildren_subSame cs (dropChild ix d.dig)
      rwa [dropChild_manifests] at this
    split
    · exact h1
    · intro e he
      rw [List.mem_append, h1 e he]
      constructor
      · intro h; rcases h with h | h
        · exact h
        · simp only [List.mem_singleton] at h; subst h; exact absurd he hdsub
      · exact Or.inl
  · rw [addDesc_ann ix d cs _ "" rfl hs (Or.inl ht)]
    generalize htt : (if d.ann.isNil then "" else d.ann.tag) = t at ht
    obtain ⟨h1, _⟩ := addUntag_tag_subSame d t ht ix.manifests.length ix.manifests.length ix (Nat.le_refl _) hno
    have h2 : SubSame ix.manifests (moveChildren cs (dropChild (addUntagLoop d t "" ix.manifests.length ix) d.dig)).manifests := by
      have := moveChildren_subSame cs (dropChild (addUntagLoop d t "" ix.manifests.length ix) d.dig)
      rw [dropChild_manifests] at this
      exact h1.trans this
    generalize (moveChildren cs (dropChild (addUntagLoop d t "" ix.manifests.length ix) d.dig)).manifests = l at h2
    intro e he
    rw [← h2 e he]
    constructor
    · intro h
      rcases placeDesc_mem l d t "" e h with h | h
      · subst h; exact absurd he hdsub
      · exact h
    · intro h
      apply placeDesc_keep l d t "" e h
      · intro ⟨_, _, h3⟩; exact he.2 h3
      · unfold compatible
        have h1 : e.ann.isNil = false := he.1
        have h2 : ¬ e.ann.subj = "" := he.2
        simp [h1, h2]
end Upd.Rf

namespace Upd.Rf
/-! ### registering a response: `addDesc` of a descriptor that carries exactly a subject -/

/-- the entry would be displaced by a new response `d` for subject `S` -/
def Displaced (d : Desc) (S : String) (e : Desc) : Prop := e.dig ≠ d.dig ∧ e.ann.isNil = false ∧ e.ann.subj = S

theorem addUntag_subj_mem (d : Desc) (S : String) (hS : S ≠ "") (ix : Index) (e : Desc) :
    e ∈ (addUntagLoop d "" S ix.manifests.length ix).manifests ↔ e ∈ ix.manifests ∧ ¬ Displaced d S e := by
  rw [addUntag_subj_eq d S hS]
  simp only []
  have h1 := (Ixd.descLoop_perm (subjStep d S) () ix.manifests).2
  rw [Ixd.revSpec_filter (subjStep d S) (fun e => decide (e.dig ≠ d.dig ∧ e.ann.isNil = false ∧ e.ann.subj = S))
    (fun s x => subjStep_val d S s x)] at h1
  rw [h1.mem_iff]
  simp only [List.mem_filter, List.mem_reverse, Bool.not_eq_true', decide_eq_false_iff_not, Displaced]

theorem addDesc_subj (ix : Index) (d : Desc) (cs : List Desc) (S : String)
    (hn : d.ann.isNil = false) (ht : d.ann.tag = "") (hs : d.ann.subj = S) (hS : S ≠ "") :
    d ∈ (addDesc ix d cs).manifests ∧
    (∀ e ∈ (addDesc ix d cs).manifests, e = d ∨ (e ∈ ix.manifests ∧ ¬ Displaced d S e)) ∧
    (∀ e ∈ ix.manifests, Sub e → e.ann.subj ≠ S → e ∈ (addDesc ix d cs).manifests) := by
  have h1 : (if d.ann.isNil then "" else d.ann.tag) = "" := by simp [hn, ht]
  have h2 : (if d.ann.isNil then "" else d.ann.subj) = S := by simp [hn, hs]
  rw [addDesc_ann ix d cs "" S h1 h2 (Or.inr hS)]
  refine ⟨placeDesc_self _ _ _ _, ?_, ?_⟩
  · intro e he
    rcases placeDesc_mem _ _ _ _ e he with h | h
    · exact Or.inl h
    · right
      have := moveChildren_mem cs _ e h
      rw [dropChild_manifests] at this
      exact (addUntag_subj_mem d S hS ix e).mp this
  · intro e he hsub hne
    apply placeDesc_keep
    · apply moveChildren_keep cs _ e _ (Sub.len_ne e hsub)
      rw [dropChild_manifests]
      exact (addUntag_subj_mem d S hS ix e).mpr ⟨he, fun h => hne h.2.2⟩
    · intro ⟨_, _, h⟩; exact hne h
    · unfold compatible
      have h1 : e.ann.isNil = false := hsub.1
      have h2 : ¬ e.ann.subj = "" := hsub.2
      simp [h1, h2, hne]

/-- … so the lookup by subject finds an entry with the new digest -/
theorem getBySubj_addDesc (ix : Index) (d : Desc) (cs : List Desc) (S : String)
    (hn : d.ann.isNil = false) (ht : d.ann.tag = "") (hs : d.ann.subj = S) (hS : S ≠ "") :
    ∃ e, getBySubj (addDesc ix d cs) S = some e ∧ e.dig = d.dig := by
  obtain ⟨hself, hall, _⟩ := addDesc_subj ix d cs S hn ht hs hS
  unfold getBySubj
  cases hf : (addDesc ix d cs).manifests.find? (fun d => ¬ d.ann.isNil ∧ d.ann.subj = S) with
  | none =>
    exfalso
    have := List.find?_eq_none.mp hf d hself
    simp [hn, hs] at this
  | some e =>
    refine ⟨e, rfl, ?_⟩
    have hmem := List.mem_of_find?_eq_some hf
    have hp := List.find?_some hf
    simp only [Bool.not_eq_true, Bool.decide_and, Bool.and_eq_true, decide_eq_true_eq] at hp
    rcases hall e hmem with h | ⟨_, h⟩
    · rw [h]
    · apply Classical.byContradiction
      intro hne
      exact h ⟨hne, hp.1, hp.2⟩

/-- the lookup by subject depends only on the subject-annotated entries, and under `SubjFun` only through the digest -/
theorem getBySubj_subSame (ix ix' : Index) (S : String) (hS : S ≠ "")
    (h : ∀ e, Sub e → e.ann.subj = S → (e ∈ ix'.manifests ↔ e ∈ ix.manifests)) (hf : SubjFun ix.manifests) :
    (getBySubj ix S = none → getBySubj ix' S = none) ∧
    (∀ e, getBySubj ix S = some e → ∃ e', getBySubj ix' S = some e' ∧ e'.dig = e.dig) := by
  unfold getBySubj
  constructor
  · intro hnone
    apply List.find?_eq_none.mpr
    intro x hx hp
    simp only [Bool.not_eq_true, Bool.decide_and, Bool.and_eq_true, decide_eq_true_eq] at hp
    have hsub : Sub x := ⟨hp.1, by rw [hp.2]; exact hS⟩
    have := List.find?_eq_none.mp hnone x ((h x hsub hp.2).mp hx)
    simp [hp.1, hp.2] at this
  · intro e he
    have hmem := List.mem_of_find?_eq_some he
    have hp := List.find?_some he
    simp only [Bool.not_eq_true, Bool.decide_and, Bool.and_eq_true, decide_eq_true_eq] at hp
    have hsub : Sub e := ⟨hp.1, by rw [hp.2]; exact hS⟩
    cases hf' : ix'.manifests.find? (fun d => ¬ d.ann.isNil ∧ d.ann.subj = S) with
    | none =>
      exfalso
      have := List.find?_eq_none.mp hf' e ((h e hsub hp.2).mpr hmem)
      simp [hp.1, hp.2] at this
    | some e' =>
      refine ⟨e', rfl, ?_⟩
      have hmem' := List.mem_of_find?_eq_some hf'
      have hp' := List.find?_some hf'
      simp only [Bool.not_eq_true, Bool.decide_and, Bool.and_eq_true, decide_eq_true_eq] at hp'
      have hsub' : Sub e' := ⟨hp'.1, by rw [hp'.2]; exact hS⟩
      exact hf e' ((h e' hsub' hp'.2).mp hmem') e hmem hsub' hsub (hp'.2.trans hp.2.symm)
end Upd.Rf
