/-! scratch pilot: types.Index with string-valued digests, tags and subjects ("" = absent) -/
namespace Upd

structure Ann where
  isNil : Bool := true
  tag   : String := ""
  subj  : String := ""
  other : Nat := 0
  deriving DecidableEq, Repr

def Ann.len (a : Ann) : Nat := (if a.tag ≠ "" then 1 else 0) + (if a.subj ≠ "" then 1 else 0) + a.other

structure Desc where
  mt   : String := ""
  dig  : String := ""        -- digest token, "" = empty digest
  size : Nat := 0
  ann  : Ann := {}
  atype : String := ""       -- artifactType (referrer descriptors)
  rann : String := ""        -- manifest annotations pulled up into a referrer descriptor, canonical string
  deriving DecidableEq, Repr

structure Index where
  manifests : List Desc := []
  children  : List Desc := []
  deriving DecidableEq, Repr

def swapRemove (l : List Desc) (i : Nat) : List Desc :=
  match l.getLast? with
  | none => l
  | some x => (l.set i x).dropLast

def rmChildLoop (dig : String) : Nat → List Desc → List Desc
  | 0, l => l
  | mi+1, l =>
    let l' := match l[mi]? with
      | some c => if c.dig = dig then swapRemove l mi else l
      | none => l
    rmChildLoop dig mi l'

def rmMainLoop (d : Desc) (tag subj : String) : Nat → Bool → List Desc → List Desc
  | 0, _, l => l
  | mi+1, found, l =>
    match l[mi]? with
    | none => rmMainLoop d tag subj mi found l
    | some e =>
      if d.dig ≠ "" ∧ e.dig = d.dig then
        if tag ≠ "" then
          if found ∧ (e.ann.len = 0 ∨ e.ann.tag = tag) then
            rmMainLoop d tag subj mi true (swapRemove l mi)
          else if ¬ e.ann.isNil ∧ e.ann.tag = tag then
            rmMainLoop d tag subj mi true (l.set mi { e with ann := { e.ann with tag := "" } })
          else rmMainLoop d tag subj mi true l
        else rmMainLoop d tag subj mi found (swapRemove l mi)
      else if d.dig = "" ∧ ¬ e.ann.isNil ∧ ((tag ≠ "" ∧ e.ann.tag = tag) ∨ (subj ≠ "" ∧ e.ann.subj = subj)) then
        rmMainLoop d tag subj mi found (swapRemove l mi)
      else rmMainLoop d tag subj mi found l

def rmDesc (ix : Index) (d : Desc) : Index :=
  let tag := if d.ann.isNil then "" else d.ann.tag
  let subj := if d.ann.isNil then "" else d.ann.subj
  let ch := if tag = "" ∧ d.dig ≠ "" then rmChildLoop d.dig ix.children.length ix.children else ix.children
  { manifests := rmMainLoop d tag subj ix.manifests.length false ix.manifests, children := ch }

def addUntagLoop (d : Desc) (tag subj : String) : Nat → Index → Index
  | 0, ix => ix
  | mi+1, ix =>
    match ix.manifests[mi]? with
    | none => addUntagLoop d tag subj mi ix
    | some e =>
      if e.dig ≠ d.dig ∧ ¬ e.ann.isNil then
        if tag ≠ "" ∧ e.ann.tag = tag then
          let ix' := rmDesc ix { mt := e.mt, dig := e.dig, size := e.size, ann := { isNil := false, tag := tag } }
          let miGo := if mi > ix'.manifests.length then ix'.manifests.length else mi
          addUntagLoop d tag subj miGo ix'
        else if subj ≠ "" ∧ e.ann.subj = subj then
          addUntagLoop d tag subj mi { ix with manifests := swapRemove ix.manifests mi }
        else addUntagLoop d tag subj mi ix
      else addUntagLoop d tag subj mi ix
termination_by mi _ => mi
decreasing_by
  all_goals simp_wf
  all_goals (try split)
  all_goals omega

def findIdx (p : Desc → Bool) : List Desc → Nat → Option Nat
  | [], _ => none
  | x :: xs, i => if p x then some i else findIdx p xs (i+1)

def moveChildren : List Desc → Index → Index
  | [], ix => ix
  | cd :: cs, ix =>
    match findIdx (fun m => m.dig = cd.dig ∧ m.ann.len = 0) ix.manifests 0 with
    | some mi => moveChildren cs { manifests := swapRemove ix.manifests mi, children := ix.children ++ [cd] }
    | none =>
      -- children that were never top-level entries are recorded too (unless the digest is known already)
      if ix.manifests.any (·.dig = cd.dig) ∨ ix.children.any (·.dig = cd.dig) then moveChildren cs ix
      else moveChildren cs { ix with children := ix.children ++ [cd] }

def compatible (md : Desc) (tag subj : String) : Bool :=
  md.ann.isNil ∨ ((md.ann.tag = "" ∨ md.ann.tag = tag) ∧ (md.ann.subj = "" ∨ md.ann.subj = subj))

/-- last part of AddDesc for a descriptor with a tag or referrer annotation: an entry of the digest that already
    carries the same tag and referrer is overwritten, else the first compatible entry, else `d` is appended -/
def placeDesc (l : List Desc) (d : Desc) (tag subj : String) : List Desc :=
  match findIdx (fun md => md.dig = d.dig ∧ ¬ md.ann.isNil ∧ md.ann.tag = tag ∧ md.ann.subj = subj) l 0 with
  | some mi => l.set mi d
  | none =>
    match findIdx (fun md => md.dig = d.dig ∧ compatible md tag subj) l 0 with
    | some mi => l.set mi d
    | none => l ++ [d]

def addDesc (ix : Index) (d : Desc) (children : List Desc := []) : Index :=
  let tag := if d.ann.isNil then "" else d.ann.tag
  let subj := if d.ann.isNil then "" else d.ann.subj
  let ix1 := if tag ≠ "" ∨ subj ≠ "" then addUntagLoop d tag subj ix.manifests.length ix else ix
  let ix2 := match findIdx (fun c => c.dig = d.dig) ix1.children 0 with
    | some ci => { ix1 with children := swapRemove ix1.children ci }
    | none => ix1
  let ix3 := moveChildren children ix2
  if tag = "" ∧ subj = "" then
    if ix3.manifests.any (·.dig = d.dig) then ix3 else { ix3 with manifests := ix3.manifests ++ [d] }
  else
    { ix3 with manifests := placeDesc ix3.manifests d tag subj }

def getDescTag (ix : Index) (t : String) : Option Desc :=
  if ix.manifests.isEmpty then none else ix.manifests.find? (fun d => ¬ d.ann.isNil ∧ d.ann.tag = t)
def getDescDig (ix : Index) (g : String) : Option Desc :=
  if ix.manifests.isEmpty ∧ ix.children.isEmpty then none else
  match ix.manifests.find? (·.dig = g) with
  | some d => some { mt := d.mt, dig := d.dig, size := d.size }
  | none => (ix.children.find? (·.dig = g)).map fun d => { mt := d.mt, dig := d.dig, size := d.size }
def getBySubj (ix : Index) (s : String) : Option Desc :=
  ix.manifests.find? (fun d => ¬ d.ann.isNil ∧ d.ann.subj = s)
end Upd
