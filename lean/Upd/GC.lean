import Upd.Server
/-! `repoGarbageCollect` (internal/store/store.go) at the HTTP level: keep decisions per index entry, the walk over
    manifests with the descriptor-supplied media type, the sweep, index pruning; and what a restart of each store
    type does to the state (close = collect every open repository; reload = JSON round trip + child scan). -/
namespace Upd

/-- a content as the collector parses it: manifest bodies by definition, referrers responses by their list -/
def State.bodyX (s : State) (name : String) : Body :=
  match s.defs.find? (·.1 = name) with
  | some (_, b) => b
  | none => match s.resps.find? (·.1 = name) with
    | some (_, ds) => { kind := "index", mtField := "ocii", children := ds.map fun d => { mt := d.mt, dig := d.dig, size := d.size } }
    | none => {}

def Repo.hasDigStr (rp : Repo) (dstr : String) : Bool :=
  match DigArg.parse dstr with | .ok d => (rp.blob d).isSome | .bad => false

def Repo.recentStr (rp : Repo) (dstr : String) : Bool :=
  match DigArg.parse dstr with | .ok d => (rp.blob d).isSome ∧ !rp.old.contains d | .bad => false

/-- phase 1: which index entries start the walk, and the table of responses that live only through their subject -/
def gcPhase1 (c : Conf) (rp : Repo) : List Desc → List Desc → List (String × Desc) → List Desc × List (String × Desc)
  | [], keepL, subj => (keepL, subj)
  | d :: rest, keepL, subj =>
    let recent := c.grace ∧ rp.recentStr d.dig
    let keep1 := !c.untagged ∨ (!d.ann.isNil ∧ d.ann.tag ≠ "") ∨ recent
    let (keep, subj) :=
      if !d.ann.isNil ∧ d.ann.subj ≠ "" then
        let sj := d.ann.subj
        let subjExists := rp.hasDigStr sj
        if c.withsubj ∧ subjExists then (false, subj ++ [(sj, d)])
        else if !c.dangling then (true, subj)
        else if subjExists then (if recent then (true, subj) else (false, subj ++ [(sj, d)]))
        else (keep1, subj)
      else (keep1, subj)
    gcPhase1 c rp rest (if keep then keepL ++ [d] else keepL) subj

/-- the walk: `work` is a stack (last element popped first), `walked` the (digest, way of parsing) pairs opened, `seen` everything kept,
    `inIdx` the digests that count as index content.  Fuel bounds the number of pops by the number of descriptors
    that can ever be pushed (each blob is opened at most once). -/
def gcWalk (s : State) (rp : Repo) (subj : List (String × Desc)) : Nat → List Desc → List (String × Bool × Bool) → List String → List String → List String × List String
  | 0, _, _, seen, inIdx => (seen, inIdx)
  | fuel + 1, work, walked, seen, inIdx =>
    match work.getLast? with
    | none => (seen, inIdx)
    | some d =>
      let work := work.dropLast
      let inIdx := inIdx ++ [d.dig]
      -- a digest is opened once per way of parsing it (index, image, plain blob)
      let key := (d.dig, isIndexMT d.mt, isImageMT d.mt)
      if walked.contains key then gcWalk s rp subj fuel work walked seen inIdx
      else match DigArg.parse d.dig with
        | .bad => gcWalk s rp subj fuel work walked seen inIdx
        | .ok dg => match rp.blob dg with
          | none => gcWalk s rp subj fuel work walked seen inIdx
          | some content =>
            let walked := walked ++ [key]
            let seen := seen ++ [d.dig]
            let b := s.bodyX content
            let viaSubj := match subj.find? (·.1 = d.dig) with | some (_, r) => [r] | none => []
            if isIndexMT d.mt then
              match b.asIndex with
              | none => gcWalk s rp subj fuel work walked seen inIdx
              | some v => gcWalk s rp subj fuel (work ++ v.children ++ viaSubj) walked seen inIdx
            else if isImageMT d.mt then
              match b.asImage with
              | none => gcWalk s rp subj fuel work walked seen inIdx
              | some v => gcWalk s rp subj fuel (work ++ viaSubj) walked (seen ++ [v.cfg] ++ v.layers) inIdx
            else gcWalk s rp subj fuel (work ++ viaSubj) walked seen inIdx

/-- JSON round trip of index.json: an empty annotation map comes back nil, child records are not persisted -/
def roundTrip (ix : Index) : Index :=
  { manifests := ix.manifests.map fun d => if d.ann.len = 0 then { d with ann := {} } else d, children := [] }

/-- the child scan of `indexIngest`: every descendant (through index-typed descriptors) that is not a top-level entry -/
def scanChildren (s : State) (rp : Repo) : Nat → List Desc → List String → List Desc → List Desc
  | 0, _, _, acc => acc
  | fuel + 1, queue, seen, acc =>
    match queue with
    | [] => acc
    | q :: rest =>
      match DigArg.parse q.dig with
      | .bad => scanChildren s rp fuel rest seen acc
      | .ok dg => match rp.blob dg with
        | none => scanChildren s rp fuel rest seen acc
        | some content =>
          match (s.bodyX content).asIndex with
          | none => scanChildren s rp fuel rest seen acc
          | some v =>
            let fresh := v.children.foldl (fun (st : List Desc × List String) c =>
              if st.2.contains c.dig then st else (st.1 ++ [c], st.2 ++ [c.dig])) ([], seen)
            scanChildren s rp fuel (rest ++ fresh.1.filter (fun c => isIndexMT c.mt)) fresh.2 (acc ++ fresh.1)

/-- a (re)load of index.json: JSON round trip and child scan; upload sessions are not touched -/
def reindex (s : State) (rp : Repo) : Repo :=
  let ix := roundTrip rp.index
  let fuel := (rp.blobs.length + 2) * (rp.blobs.length + 2)
  let ch := scanChildren s rp fuel (ix.manifests.filter (fun d => isIndexMT d.mt)) (ix.manifests.map (·.dig)) []
  { rp with index := { ix with children := ch } }

def reloadRepo (s : State) (rp : Repo) : Repo := { reindex s rp with uploads := [] }

/-- one repository collection -/
def gcRepo (s : State) (r : String) : State :=
  -- the directory store starts a collection with a forced load of index.json (the harness makes the file look
  -- modified, so that the cached copy is always replaced and the model need not carry the clock)
  let rp := if s.conf.store = "dir" then reindex s (s.repo r) else s.repo r
  let c := s.conf
  let (keepL, subj) := gcPhase1 c rp rp.index.manifests [] []
  let fuel := 3 * (rp.blobs.length + 1) * (rp.blobs.length + rp.index.manifests.length + s.defs.length + s.resps.length + 2) + keepL.length + 1
  let (seen, inIdx0) := gcWalk s rp subj fuel keepL [] [] (rp.index.manifests.map (·.dig))
  -- sweep
  let swept := rp.blobs.filter fun (d, _) =>
    !seen.contains d.str ∧ !(c.grace ∧ !rp.old.contains d ∧ !inIdx0.contains d.str)
  let ix1 := swept.foldl (fun ix (d, _) =>
    match getDesc ix d.str with | some _ => rmDesc ix { dig := d.str } | none => ix) rp.index
  let blobs1 := rp.blobs.filter fun (d, _) => !swept.any (·.1 = d)
  let rp1 : Repo := { rp with blobs := blobs1, index := ix1, old := rp.old.filter fun d => blobs1.any (·.1 = d) }
  -- index entries without a backing blob
  let ix2 := inIdx0.foldl (fun ix g => if rp1.hasDigStr g then ix else rmDesc ix { dig := g }) ix1
  -- child records without a backing blob (their parent may not have been walked; repair F41)
  let ix3 := ix2.children.foldl (fun ix c => if rp1.hasDigStr c.dig then ix else rmDesc ix { dig := c.dig }) ix2
  s.setRepo { rp1 with index := ix3 }

/-! ### ages: what makes a blob recent again

`old` is only read by the collection.  The store refreshes the age of a blob whenever `blobCreate` is asked for it: a
session that completes (rename over the file), and - since the repair F38 - a monolithic upload, mount, manifest push or
referrers update that finds its content already present.  No handler theorem speaks about ages, so the refresh is a
wrapper around `step` used by the driver instead of a change of every store primitive. -/
def Req.repo : Req → String
  | .uPost r _ | .uPatch r _ _ | .uPut r _ _ | .uGet r _ | .uDel r _ | .bGet r _ _ _ | .bDel r _
  | .mPut r _ _ _ _ _ | .mGet r _ _ _ _ | .mDel r _ | .tags r _ _ | .refs r _ _ _ _ => r

def touchDig (rp : Repo) (d : String) : Repo :=
  match DigArg.parse d with
  | .ok dg => { rp with old := rp.old.filter (· ≠ dg) }
  | .bad => rp

def isRespEntry (d : Desc) : Bool := !d.ann.isNil ∧ d.ann.subj ≠ ""

/-- what an answer acknowledges as stored (`Docker-Content-Digest` of a manifest push, the digest in the `Location` of a blob) -/
def ackOf (r : String) (o : Resp) : List String :=
  let pre := "blob:" ++ r ++ ":"
  if o.status ≠ 201 then [] else
  if o.dcd ≠ "" then [o.dcd] else
  if o.loc.startsWith pre then [(o.loc.drop pre.length).toString] else []

/-- the referrers responses registered by a request: subject-annotated entries that were not there before -/
def newResps (before after : Repo) : List String :=
  let b := before.index.manifests.filter isRespEntry
  (after.index.manifests.filter (fun d => isRespEntry d ∧ !b.contains d)).map (·.dig)

def ageWith (s' : State) (r : String) (l : List String) (o : Resp) : State × Resp :=
  if l.isEmpty then (s', o) else (s'.setRepo (l.foldl touchDig (s'.repo r)), o)

def stepAged (s : State) (q : Req) : State × Resp :=
  let p := step s q
  ageWith p.1 q.repo (ackOf q.repo p.2 ++ newResps (s.repo q.repo) (p.1.repo q.repo)) p.2

/-- Close + New on the same directory, possibly with another configuration (`conf`).
    * directory store: Close collects every open repository (unless read-only), the new server reloads index.json;
    * memory store: everything is lost;
    * memory over a directory: the overlay is lost, the directory is what it was. -/
def restart (s : State) (conf : Conf) : State :=
  let base : State := { s with conf := conf, rcache := [] }
  let onDisk : List Repo :=
    match s.conf.store with
    | "dir" =>
      let s1 := if s.conf.ro then s else s.repos.foldl (fun st rp => gcRepo st rp.name) s
      s1.repos.map (reloadRepo s1)
    | "memdir" => s.disk
    | _ => []
  match conf.store with
  | "dir" => { base with repos := onDisk, disk := [] }
  | "memdir" => { base with repos := onDisk, disk := onDisk }
  | _ => { base with repos := [], disk := [] }
end Upd
