import Upd.Index
/-!
# indexIngest (internal/store/store.go) — fallback-tag conversion and child scan

Model of `indexIngest` (store.go:155-304), `indexValidReferrer` (306-358), `referrerListDedup` (372-389) and
`repoGetIndex` (530-542) over the string-typed `Upd.Index` (types/manifest.go), as called from
`memRepo.repoInit` (mem.go:495) and `dirRepo.indexLoad` (dir.go:547).  The referrers API is enabled (C17 is about
the conversion); schema version / media type normalisation is not modelled.

The code is mirrored **as repaired** (patches/F23-*, patches/F30-*, patches/F34-*, and the lock repair F21 which is
invisible here):
* F23: an adopted fallback index is remembered in `referrerResponse`, so that a later fallback index or a
  regenerated response for the same subject is merged with it instead of replacing it;
* F30: `BlobCreate` answering "exists" for the regenerated response is not an error;
* F34: the child scan starts from the manifests as listed *after* the conversion (what a later load of the saved
  index sees), not from the list as it was before.

Go iterates over `addResp` (a map) in an unspecified order: `ingest` takes the order as the parameter `order`.
Digests are tokens; an index-shaped document written by the conversion is named by its structure (`idxName`),
which is how "equal bytes ⇒ equal digest" appears in the model.
-/
namespace Upd

/-- what a blob is, as far as `indexIngest` can observe it -/
inductive INode
  /-- a JSON manifest: `subject.digest` ("" = none), `mediaType` field, `config.mediaType` (none = no config object),
      `artifactType`, annotations (canonical string), byte length, and — for an index — its `manifests` -/
  | man (subj mtField : String) (cfg : Option String) (atype rann : String) (len : Nat) (kids : Option (List Desc))
  /-- an index document without subject (a fallback index, a referrers response, an ordinary image index) -/
  | idx (ds : List Desc)
  /-- a JSON object without a `manifests` array -/
  | idxnil
  /-- not JSON -/
  | raw
  deriving Repr

structure IState where
  index : Index := {}
  /-- `index.Annotations["org.olareg.referrer.convert"] == "true"` -/
  converted : Bool := false
  blobs : List (String × INode) := []
  deriving Repr

def fmtD (d : Desc) : String := s!"{d.dig}/{d.mt}/{d.size}/{d.atype}/{d.rann}"
/-- structural name (= digest token) of an index-shaped document -/
def idxName (ds : List Desc) : String := "I(" ++ ",".intercalate (ds.map fmtD) ++ ")"

def lookup (bs : List (String × INode)) (dig : String) : Option INode := (bs.find? (·.1 = dig)).map (·.2)

/-- repoGetIndex: none = error; some none = decoded but `Manifests` is nil -/
def getIndex (bs : List (String × INode)) (dig : String) : Option (Option (List Desc)) :=
  match lookup bs dig with
  | some (.idx ds) => some (some ds)
  | some .idxnil => some none
  | some (.man _ _ _ _ _ _ kids) => some kids
  | _ => none

/-- referrerTagRe; the tokens of fallback tags start with "fb" (written so that the kernel can evaluate it) -/
def isFallbackTag (t : String) : Bool := t.toList.take 2 == ['f', 'b']
def isIndexMt (mt : String) : Bool := mt = "ocii" ∨ mt = "dockl"

/-! ## indexValidReferrer -/

structure VR where
  valid : Bool := true
  subject : String := ""
  /-- subject ↦ descriptors, keys in first-appearance order -/
  resp : List (String × List Desc) := []
  deriving Repr

def addTo (m : List (String × List Desc)) (k : String) (d : List Desc) : List (String × List Desc) :=
  if m.any (·.1 = k) then m.map fun kv => if kv.1 = k then (kv.1, kv.2 ++ d) else kv else m ++ [(k, d)]

/-- types.ManifestReferrerDescriptor: the descriptor a referrers response must list for manifest `d.dig` -/
def refDesc (d : Desc) (mtField : String) (cfg : Option String) (atype rann : String) (len : Nat) : Desc :=
  { d with mt := if mtField ≠ "" then mtField else d.mt, size := len,
           atype := if atype ≠ "" then atype else match cfg with | some c => c | none => d.atype,
           rann := rann }

def vrStep (bs : List (String × INode)) (acc : VR) (d : Desc) : VR :=
  match lookup bs d.dig with
  | some (.man subj mtField cfg atype rann len _) =>
    if subj = "" then { acc with valid := false } else
    let rd := refDesc d mtField cfg atype rann len
    let v1 := acc.valid && (acc.subject = "" || acc.subject = subj)
    let v2 := v1 && (d.mt = rd.mt && d.size = rd.size && d.atype = rd.atype && d.rann = rd.rann)
    { valid := v2, subject := if acc.subject = "" then subj else acc.subject, resp := addTo acc.resp subj [rd] }
  | _ => { acc with valid := false }     -- missing, not JSON, or no subject: dropped from the response

def validReferrer (bs : List (String × INode)) (ds : List Desc) : VR :=
  let r := ds.foldl (vrStep bs) {}
  if r.valid then r else { r with subject := "" }

/-! ## referrerListDedup: keep the first occurrence of a digest, swap-remove later ones -/

theorem swapRemove_length (l : List Desc) (i : Nat) (h : i < l.length) : (swapRemove l i).length = l.length - 1 := by
  unfold swapRemove
  cases hl : l.getLast? with
  | none =>
    have : l = [] := by simpa using hl
    subst this; simp at h
  | some x => simp

def dedupGo (rl : List Desc) (i : Nat) (seen : List String) : List Desc :=
  if h : i < rl.length then
    if seen.contains rl[i].dig then dedupGo (swapRemove rl i) i seen
    else dedupGo rl (i + 1) (rl[i].dig :: seen)
  else rl
termination_by rl.length - i
decreasing_by
  · rw [swapRemove_length rl i h]; omega
  · omega

def dedup (ds : List Desc) : List Desc := dedupGo ds 0 []

/-! ## first loop over the manifests -/

structure P1 where
  seen : List String := []
  scan : List Desc := []
  /-- referrerResponse, newest binding first -/
  respOf : List (String × Desc) := []
  digestTags : List Desc := []
  deriving Repr

def p1Step (a : P1) (desc : Desc) : P1 :=
  let a1 : P1 := { a with seen := desc.dig :: a.seen }
  let a2 : P1 := if desc.mt = "ocii" ∧ desc.ann.isNil = false then
      let a' : P1 := if isFallbackTag desc.ann.tag then { a1 with digestTags := a1.digestTags ++ [desc] } else a1
      if desc.ann.subj ≠ "" then { a' with respOf := (desc.ann.subj, desc) :: a'.respOf } else a'
    else a1
  if isIndexMt desc.mt then { a2 with scan := a2.scan ++ [desc] } else a2

def pass1 (ms : List Desc) : P1 := ms.foldl p1Step {}

def lookupResp (m : List (String × Desc)) (k : String) : Option Desc := (m.find? (·.1 = k)).map (·.2)

/-! ## the conversion -/

structure Conv where
  index : Index
  respOf : List (String × Desc)
  addResp : List (String × List Desc) := []
  rm : List Desc := []
  deriving Repr

/-- the descriptor of an adopted fallback index / of a regenerated response in index.json -/
def respEntry (mt dig : String) (size : Nat) (subj : String) : Desc :=
  { mt := mt, dig := dig, size := size, ann := { isNil := false, subj := subj } }

/-- one fallback tag: adopt its index as the response of its subject, or queue its content for regeneration -/
def convStep (bs : List (String × INode)) (c : Conv) (desc : Desc) : Conv :=
  match getIndex bs desc.dig with
  | some (some cur) =>
    let vr := validReferrer bs cur
    let agrees := match lookupResp c.respOf vr.subject with
      | some r => decide (r.dig = desc.dig)
      | none => true
    if vr.valid && agrees then
      let nd := respEntry desc.mt desc.dig desc.size vr.subject
      { c with index := addDesc c.index nd, respOf := (vr.subject, nd) :: c.respOf }
    else
      { c with addResp := vr.resp.foldl (fun m kv => addTo m kv.1 kv.2) c.addResp, rm := c.rm ++ [desc] }
  | _ => c

/-- the content of the response currently recorded for `subj` (nothing if there is none or it cannot be read) -/
def oldContent (bs : List (String × INode)) (respOf : List (String × Desc)) (subj : String) : List Desc :=
  match lookupResp respOf subj with
  | some r => match getIndex bs r.dig with
    | some (some o) => o
    | _ => []
  | none => []

/-- one regenerated response: merge with the recorded one, dedup, write the blob (unless it exists), record it.
    `nm` is the digest of the marshalled response (`idxName` in the driver). -/
def regenStep (nm : List Desc → String) (respOf : List (String × Desc)) (s : IState) (kv : String × List Desc) : IState :=
  let ds := dedup (kv.2 ++ oldContent s.blobs respOf kv.1)
  let name := nm ds
  { s with blobs := if (lookup s.blobs name).isSome then s.blobs else s.blobs ++ [(name, .idx ds)],
           index := addDesc s.index (respEntry "ocii" name 0 kv.1) }

/-! ## child scan (breadth first) -/

structure Scan where
  queue : List Desc := []
  seen : List String := []
  children : List Desc := []
  deriving Repr

def kidStep (a : Scan) (k : Desc) : Scan :=
  if a.seen.contains k.dig then a else
  { queue := if isIndexMt k.mt then a.queue ++ [k] else a.queue, seen := k.dig :: a.seen, children := a.children ++ [k] }

/-- one iteration of `for len(scanChildren) > 0`; none = the loop has ended -/
def scanIter (bs : List (String × INode)) (a : Scan) : Option Scan :=
  match a.queue with
  | [] => none
  | c :: rest =>
    match getIndex bs c.dig with
    | some (some kids) => some (kids.foldl kidStep { a with queue := rest })
    | _ => some { a with queue := rest }

/-- every digest that some index-shaped blob lists (with repetitions) -/
def listed (bs : List (String × INode)) : List String :=
  bs.flatMap fun kv => match kv.2 with
    | .idx ds => ds.map (·.dig)
    | .man _ _ _ _ _ _ (some ks) => ks.map (·.dig)
    | _ => []

def unseen (bs : List (String × INode)) (seen : List String) : Nat := (listed bs).countP (fun g => !seen.contains g)

/-- the measure that decreases with every iteration of the child scan:
    twice the listed digests not seen yet, plus the length of the queue -/
def scanMeasure (bs : List (String × INode)) (a : Scan) : Nat := 2 * unseen bs a.seen + a.queue.length

theorem countP_lt_of {α : Type} (p q : α → Bool) (himp : ∀ y, q y = true → p y = true) (g : α)
    (hp : p g = true) (hq : q g = false) : ∀ (l : List α), g ∈ l → l.countP q < l.countP p := by
  intro l
  induction l with
  | nil => intro h; cases h
  | cons x xs ih =>
    intro hg
    have hmono : xs.countP q ≤ xs.countP p := List.countP_mono_left (fun y _ hy => himp y hy)
    rw [List.countP_cons, List.countP_cons]
    rcases List.mem_cons.mp hg with h | h
    · subst h
      rw [hp, hq]; simp; omega
    · have := ih h
      cases hqx : q x
      · cases hpx : p x <;> simp <;> omega
      · rw [himp x hqx]; simp; omega

theorem notin_cons_imp (seen : List String) (g y : String) (h : (!(g :: seen).contains y) = true) :
    (!seen.contains y) = true := by
  cases hc : seen.contains y
  · rfl
  · have : (g :: seen).contains y = true := by
      rw [List.contains_cons, hc]; simp
    rw [this] at h; cases h

theorem unseen_cons_lt (bs : List (String × INode)) (seen : List String) (g : String)
    (hg : g ∈ listed bs) (hs : seen.contains g = false) : unseen bs (g :: seen) < unseen bs seen := by
  unfold unseen
  apply countP_lt_of (fun y => !seen.contains y) (fun y => !(g :: seen).contains y) (notin_cons_imp seen g) g
  · simp only [hs]; rfl
  · have : (g :: seen).contains g = true := by rw [List.contains_cons]; simp
    simp only [this]; rfl
  · exact hg

theorem kidStep_measure (bs : List (String × INode)) (a : Scan) (k : Desc) (hk : k.dig ∈ listed bs) :
    scanMeasure bs (kidStep a k) ≤ scanMeasure bs a := by
  unfold kidStep
  cases hc : a.seen.contains k.dig
  · have hlt := unseen_cons_lt bs a.seen k.dig hk hc
    simp only [Bool.false_eq_true, if_false]
    unfold scanMeasure
    simp only
    split
    · simp only [List.length_append, List.length_singleton]; omega
    · omega
  · simp only [if_true]; exact Nat.le_refl _

theorem kids_measure (bs : List (String × INode)) : ∀ (kids : List Desc) (a : Scan), (∀ k ∈ kids, k.dig ∈ listed bs) →
    scanMeasure bs (kids.foldl kidStep a) ≤ scanMeasure bs a := by
  intro kids
  induction kids with
  | nil => intro a _; simp
  | cons k ks ih =>
    intro a h
    simp only [List.foldl_cons]
    exact Nat.le_trans (ih _ (fun k' hk' => h k' (List.mem_cons_of_mem _ hk')))
      (kidStep_measure bs a k (h k List.mem_cons_self))

theorem lookup_mem {bs : List (String × INode)} {g : String} {n : INode} (h : lookup bs g = some n) : (g, n) ∈ bs := by
  unfold lookup at h
  cases hf : bs.find? (·.1 = g) with
  | none => simp [hf] at h
  | some kv =>
    simp only [hf, Option.map_some, Option.some.injEq] at h
    have hm := List.mem_of_find?_eq_some hf
    have hp := List.find?_some hf
    simp only [decide_eq_true_eq] at hp
    cases kv with
    | mk k v => simp only at hp h; subst hp; subst h; exact hm

theorem getIndex_listed {bs : List (String × INode)} {g : String} {kids : List Desc}
    (h : getIndex bs g = some (some kids)) : ∀ k ∈ kids, k.dig ∈ listed bs := by
  intro k hk
  unfold getIndex at h
  cases hl : lookup bs g with
  | none => simp [hl] at h
  | some n =>
    have hm := lookup_mem hl
    unfold listed
    apply List.mem_flatMap.mpr
    refine ⟨(g, n), hm, ?_⟩
    cases n with
    | idx ds =>
      simp only [hl, Option.some.injEq] at h
      subst h
      exact List.mem_map.mpr ⟨k, hk, rfl⟩
    | idxnil => simp [hl] at h
    | raw => simp [hl] at h
    | man a b c d e f ks =>
      simp only [hl, Option.some.injEq] at h
      subst h
      exact List.mem_map.mpr ⟨k, hk, rfl⟩

/-- every iteration of the child scan decreases `scanMeasure` -/
theorem scanIter_decreases (bs : List (String × INode)) (a a' : Scan) (h : scanIter bs a = some a') :
    scanMeasure bs a' < scanMeasure bs a := by
  unfold scanIter at h
  cases hq : a.queue with
  | nil => simp [hq] at h
  | cons c rest =>
    simp only [hq] at h
    have hpop : scanMeasure bs { a with queue := rest } < scanMeasure bs a := by
      unfold scanMeasure; simp [hq]
    cases hg : getIndex bs c.dig with
    | none => simp only [hg, Option.some.injEq] at h; subst h; exact hpop
    | some o =>
      cases o with
      | none => simp only [hg, Option.some.injEq] at h; subst h; exact hpop
      | some kids =>
        simp only [hg, Option.some.injEq] at h
        subst h
        exact Nat.lt_of_le_of_lt (kids_measure bs kids _ (getIndex_listed hg)) hpop

/-- the loop `for len(scanChildren) > 0 { … }`, run to its end -/
def childScan (bs : List (String × INode)) (a : Scan) : Scan :=
  match h : scanIter bs a with
  | none => a
  | some a' => childScan bs a'
termination_by scanMeasure bs a
decreasing_by exact scanIter_decreases bs a a' h

/-! ## indexIngest -/

/-- state after the fallback tags have been examined -/
def phase1 (x : IState) : Conv :=
  let p := pass1 x.index.manifests
  p.digestTags.foldl (convStep x.blobs) { index := x.index, respOf := p.respOf }

/-- the conversion branch of `indexIngest` -/
def convert (nm : List Desc → String) (order : List (String × List Desc) → List (String × List Desc)) (x : IState) : IState :=
  let c := phase1 x
  let s2 := (order c.addResp).foldl (regenStep nm c.respOf) { x with index := c.index }
  { s2 with index := c.rm.foldl rmDesc s2.index, converted := true }

/-- `indexIngest` with the referrers API enabled; `nm` is the digest function for regenerated responses,
    `order` the iteration order of the Go map `addResp` -/
def ingest (nm : List Desc → String) (order : List (String × List Desc) → List (String × List Desc)) (x : IState) : IState :=
  let s1 := if x.converted then x else convert nm order x
  -- the child scan starts from the manifests as they are listed after the conversion (repair F34)
  let q := pass1 s1.index.manifests
  let sc := childScan s1.blobs { queue := q.scan, seen := q.seen, children := s1.index.children }
  { s1 with index := { s1.index with children := sc.children } }

/-- `indexIngest` reports a modification (and the directory store saves index.json) exactly when it converted -/
def ingestMod (x : IState) : Bool := !x.converted

/-- what survives `indexSave` + a later load: an emptied annotation map comes back nil, children are not stored -/
def persist (x : IState) : IState :=
  { x with index := { manifests := x.index.manifests.map fun d => if d.ann.len = 0 then { d with ann := {} } else d,
                      children := [] } }
end Upd
