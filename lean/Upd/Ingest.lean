import Upd.Index
/-! scratch pilot: indexIngest (internal/store/store.go:155-358): fallback-tag conversion and child scan, memory store -/
namespace Upd

inductive INode
  | man (subj mtField cfgMt atype rann : String) (len : Nat)
  | idx (ds : List Desc)
  | idxnil                      -- JSON object without a "manifests" array
  | raw
  deriving Repr

structure IState where
  index : Index := {}
  blobs : List (String × INode) := []
  newBlobs : List String := []
  deriving Repr

def fmtD (d : Desc) : String := s!"{d.dig}/{d.mt}/{d.size}/{d.atype}/{d.rann}"
/-- structural name (= digest token) of an index-shaped document -/
def idxName (ds : List Desc) : String := "I(" ++ ",".intercalate (ds.map fmtD) ++ ")"

def IState.blob (s : IState) (dig : String) : Option INode := (s.blobs.find? (·.1 = dig)).map (·.2)

/-- repoGetIndex: none = error; some none = decoded but Manifests is nil -/
def getIndex (s : IState) (dig : String) : Option (Option (List Desc)) :=
  match s.blob dig with
  | some (.idx ds) => some (some ds)
  | some .idxnil => some none
  | some (.man ..) => some none        -- an image manifest decodes as an index with nil Manifests
  | _ => none

def isFallbackTag (t : String) : Bool := t.startsWith "fb"
def annCount (rann : String) : Nat := if rann = "" then 0 else (rann.splitOn ";").length

structure VR where
  valid : Bool
  subject : String
  resp : List (String × List Desc)     -- subject ↦ descriptors, in first-appearance order of subjects

def addTo (m : List (String × List Desc)) (k : String) (d : List Desc) : List (String × List Desc) :=
  if m.any (·.1 = k) then m.map fun (k', v) => if k' = k then (k', v ++ d) else (k', v) else m ++ [(k, d)]

/-- indexValidReferrer -/
def validReferrer (s : IState) (ds : List Desc) : VR :=
  let r := ds.foldl (fun (acc : VR) d =>
    match s.blob d.dig with
    | some (.man subj mtField cfgMt atype rann len) =>
      if subj = "" then { acc with valid := false } else
      let rd : Desc := { d with mt := if mtField ≠ "" then mtField else d.mt, size := len,
                                atype := if atype ≠ "" then atype else cfgMt, rann := rann }
      let (subject, valid) :=
        if acc.subject = "" then (subj, acc.valid) else if acc.subject ≠ subj then (acc.subject, false) else (acc.subject, acc.valid)
      let valid := if valid then
          !(d.mt ≠ rd.mt ∨ d.size ≠ rd.size ∨ d.atype ≠ rd.atype ∨ annCount d.rann ≠ annCount rd.rann) ∧ d.rann = rd.rann
        else false
      { valid := valid, subject := subject, resp := addTo acc.resp subj [rd] }
    | some (.idx _) | some .idxnil => { acc with valid := false }   -- parses, but has no subject
    | _ => { acc with valid := false }) { valid := true, subject := "", resp := [] }
  if r.valid then r else { r with subject := "" }

def dedup (ds : List Desc) : List Desc :=
  -- referrerListDedup: keep first occurrence, swap-remove later ones (order changes!)
  let rec go (fuel : Nat) (i : Nat) (rl : List Desc) (seen : List String) : List Desc :=
    match fuel with
    | 0 => rl
    | fuel+1 =>
      match rl[i]? with
      | none => rl
      | some d =>
        if seen.contains d.dig then
          go fuel i (match rl.getLast? with | some x => (rl.set i x).dropLast | none => rl) seen
        else go fuel (i+1) rl (d.dig :: seen)
  go (ds.length * 2 + 2) 0 ds []

structure IOut where
  st : IState
  mod : Bool
  err : Bool

/-- the conversion branch and the child scan; `order` permutes the subjects whose responses are regenerated (Go map order) -/
def ingest (s : IState) : IOut := Id.run do
  let mut s := s
  -- first pass over the manifests
  let mut seen : List String := []
  let mut scan : List Desc := []
  let mut respOf : List (String × Desc) := []
  let mut digestTags : List Desc := []
  for desc in s.index.manifests do
    seen := desc.dig :: seen
    if desc.mt = "ocii" ∧ !desc.ann.isNil then
      if isFallbackTag desc.ann.tag then digestTags := digestTags ++ [desc]
      if desc.ann.subj ≠ "" then
        respOf := (respOf.filter (·.1 ≠ desc.ann.subj)) ++ [(desc.ann.subj, desc)]
    if desc.mt = "ocii" ∨ desc.mt = "dockl" then scan := scan ++ [desc]
  -- conversion
  let mut addResp : List (String × List Desc) := []
  let mut rm : List Desc := []
  for desc in digestTags do
    match getIndex s desc.dig with
    | none => continue
    | some none => continue
    | some (some cur) =>
      let vr := validReferrer s cur
      let mut valid := vr.valid
      if valid then
        match respOf.find? (·.1 = vr.subject) with
        | some (_, r) => if r.dig ≠ desc.dig then valid := false
        | none => pure ()
      if valid then
        s := { s with index := addDesc s.index { desc with ann := { isNil := false, subj := vr.subject } } }
      else
        for (k, v) in vr.resp do addResp := addTo addResp k v
        rm := rm ++ [desc]
  for (subj, list0) in addResp do
    let mut list := list0
    match respOf.find? (·.1 = subj) with
    | some (_, r) => match getIndex s r.dig with
      | some (some old) => list := list ++ old
      | _ => pure ()
    | none => pure ()
    let ds := dedup list
    let name := idxName ds
    if (s.blob name).isSome then return { st := s, mod := true, err := true }     -- BlobCreate: exists ⇒ error
    s := { s with blobs := s.blobs ++ [(name, .idx ds)], newBlobs := s.newBlobs ++ [name] }
    s := { s with index := addDesc s.index { mt := "ocii", dig := name, size := 0, ann := { isNil := false, subj := subj } } }
  for d in rm do
    s := { s with index := rmDesc s.index d }
  -- child scan (breadth first)
  let mut fuel := s.blobs.length * 4 + scan.length + 4
  while fuel > 0 ∧ !scan.isEmpty do
    fuel := fuel - 1
    match scan with
    | [] => break
    | c :: rest =>
      scan := rest
      match getIndex s c.dig with
      | some (some kids) =>
        for k in kids do
          if !seen.contains k.dig then
            s := { s with index := { s.index with children := s.index.children ++ [k] } }
            if k.mt = "ocii" ∨ k.mt = "dockl" then scan := scan ++ [k]
            seen := k.dig :: seen
      | _ => pure ()
  return { st := s, mod := true, err := false }
end Upd
