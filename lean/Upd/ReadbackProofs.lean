import Upd.C01
import Upd.C04
import Upd.Frame
import Upd.IngestIndex
import Upd.IngestLemmas
import Upd.StatusProofs
/-!
# Read-back of an acknowledged manifest push (C02): what `AddDesc` leaves in the index

(Everything here lives in `Upd.Rb`, so that helper names cannot collide with other `Upd` proof files.)
`Orig e' e`: entry `e'` of the new index stems from entry `e` of the old one — same media type, digest, size and
referrer annotation, the tag kept or cleared.  Every loop of `types.Index` only keeps, untags, removes or moves
entries, or inserts the new descriptor (`addDesc_orig`).
-/
namespace Upd.Rb
open Ixd (Act descLoop)

def Orig (e' e : Desc) : Prop :=
  e'.mt = e.mt ∧ e'.dig = e.dig ∧ e'.size = e.size ∧ e'.ann.isNil = e.ann.isNil ∧ e'.ann.subj = e.ann.subj ∧
    (e'.ann.tag = e.ann.tag ∨ e'.ann.tag = "")

theorem Orig.refl (e : Desc) : Orig e e := ⟨rfl, rfl, rfl, rfl, rfl, Or.inl rfl⟩
theorem Orig.trans {a b c : Desc} (h1 : Orig a b) (h2 : Orig b c) : Orig a c := by
  obtain ⟨a1, a2, a3, a4, a5, a6⟩ := h1
  obtain ⟨b1, b2, b3, b4, b5, b6⟩ := h2
  refine ⟨a1.trans b1, a2.trans b2, a3.trans b3, a4.trans b4, a5.trans b5, ?_⟩
  rcases a6 with h | h
  · rcases b6 with h' | h'
    · exact Or.inl (h.trans h')
    · exact Or.inr (h.trans h')
  · exact Or.inr h

theorem swapRemove_sub (l : List Desc) (i : Nat) : ∀ x ∈ swapRemove l i, x ∈ l := by
  intro x hx
  unfold swapRemove at hx
  cases hl : l.getLast? with
  | none => rw [hl] at hx; exact hx
  | some z =>
    rw [hl] at hx
    simp only [] at hx
    have h1 := List.dropLast_subset _ hx
    rcases List.mem_or_eq_of_mem_set h1 with h | h
    · exact h
    · subst h; exact List.mem_of_getLast? hl

/-- a descending loop whose overwrites are `R`-related to what they overwrite: every survivor is `R`-related to an
    original entry -/
theorem descLoop_origin {σ : Type} (f : σ → Desc → σ × Act Desc) (R : Desc → Desc → Prop)
    (hrefl : ∀ a, R a a) (htrans : ∀ a b c, R a b → R b c → R a c)
    (hset : ∀ s x s' y, f s x = (s', Act.set y) → R y x) :
    ∀ (n : Nat) (s : σ) (l : List Desc), ∀ e' ∈ (descLoop f n s l).2, ∃ e ∈ l, R e' e := by
  intro n
  induction n with
  | zero => intro s l e' he; exact ⟨e', by simpa [descLoop] using he, hrefl _⟩
  | succ n ih =>
    intro s l e' he
    rw [descLoop] at he
    cases hg : l[n]? with
    | none => rw [hg] at he; exact ih s l e' he
    | some x =>
      rw [hg] at he
      simp only [] at he
      rcases hf : f s x with ⟨s', act⟩
      rw [hf] at he
      cases act with
      | keep => exact ih s' l e' he
      | set y =>
        obtain ⟨e, hel, hr⟩ := ih s' _ e' he
        rcases List.mem_or_eq_of_mem_set hel with h | h
        · exact ⟨e, h, hr⟩
        · subst h
          exact ⟨x, List.mem_of_getElem? hg, htrans _ _ _ hr (hset s x s' _ hf)⟩
      | drop =>
        obtain ⟨e, hel, hr⟩ := ih s' _ e' he
        rw [← swapRemove_eq] at hel
        exact ⟨e, swapRemove_sub l n e hel, hr⟩

theorem rmStep_set (d : Desc) (tag subj : String) (found : Bool) (x : Desc) (s' : Bool) (y : Desc)
    (h : rmStep d tag subj found x = (s', Act.set y)) : Orig y x := by
  unfold rmStep at h
  repeat' split at h
  all_goals first
    | (cases h; done)
    | (simp only [Prod.mk.injEq, Act.set.injEq] at h
       obtain ⟨_, rfl⟩ := h
       exact ⟨rfl, rfl, rfl, rfl, rfl, Or.inr rfl⟩)

theorem rmMainLoop_orig (d : Desc) (tag subj : String) (n : Nat) (found : Bool) (l : List Desc) :
    ∀ e' ∈ rmMainLoop d tag subj n found l, ∃ e ∈ l, Orig e' e := by
  rw [rmMainLoop_eq]
  exact descLoop_origin _ Orig Orig.refl (fun _ _ _ => Orig.trans) (rmStep_set d tag subj) n found l

theorem rmChildLoop_sub (dig : String) : ∀ (n : Nat) (l : List Desc), ∀ x ∈ rmChildLoop dig n l, x ∈ l := by
  intro n
  induction n with
  | zero => intro l x hx; simpa [rmChildLoop] using hx
  | succ n ih =>
    intro l x hx
    rw [rmChildLoop] at hx
    have := ih _ x hx
    split at this
    · split at this
      · exact swapRemove_sub _ _ _ this
      · exact this
    · exact this

theorem rmDesc_orig (ix : Index) (d : Desc) :
    (∀ e' ∈ (rmDesc ix d).manifests, ∃ e ∈ ix.manifests, Orig e' e) ∧ (∀ c ∈ (rmDesc ix d).children, c ∈ ix.children) := by
  unfold rmDesc
  simp only []
  refine ⟨rmMainLoop_orig _ _ _ _ _ _, ?_⟩
  intro c hc
  split at hc
  · split at hc
    · exact rmChildLoop_sub _ _ _ c hc
    · exact hc
  · split at hc
    · exact rmChildLoop_sub _ _ _ c hc
    · exact hc

theorem addUntagLoop_orig (d : Desc) (tag subj : String) (n : Nat) (ix : Index) :
    (∀ e' ∈ (addUntagLoop d tag subj n ix).manifests, ∃ e ∈ ix.manifests, Orig e' e) ∧
    (∀ c ∈ (addUntagLoop d tag subj n ix).children, c ∈ ix.children) := by
  fun_induction addUntagLoop d tag subj n ix with
  | case1 ix => exact ⟨fun e he => ⟨e, he, Orig.refl e⟩, fun c hc => hc⟩
  | case2 mi ix hg ih => exact ih
  | case3 mi ix e hg hc ht ix' miGo ih =>
    obtain ⟨h1, h2⟩ := rmDesc_orig ix { mt := e.mt, dig := e.dig, size := e.size, ann := { isNil := false, tag := tag } }
    refine ⟨?_, fun c hc => h2 c (ih.2 c hc)⟩
    intro e' he'
    obtain ⟨e1, he1, hr1⟩ := ih.1 e' he'
    obtain ⟨e0, he0, hr0⟩ := h1 e1 he1
    exact ⟨e0, he0, hr1.trans hr0⟩
  | case4 mi ix e hg hc ht hs ih =>
    refine ⟨?_, ih.2⟩
    intro e' he'
    obtain ⟨e1, he1, hr1⟩ := ih.1 e' he'
    exact ⟨e1, swapRemove_sub _ _ _ he1, hr1⟩
  | case5 mi ix e hg hc ht hs ih => exact ih
  | case6 mi ix e hg hc ih => exact ih

/-- digest `g` is listed, at top level or as a child -/
def ListedAny (ix : Index) (g : String) : Prop := ∃ e ∈ ix.manifests ++ ix.children, e.dig = g

theorem findIdx_get (p : Desc → Bool) (l : List Desc) (k : Nat) (h : findIdx p l 0 = some k) :
    ∃ o, l[k]? = some o ∧ p o = true := by
  obtain ⟨o, _, h2, h3⟩ := findIdx_some p l 0 k h
  exact ⟨o, by simpa using h2, h3⟩

theorem moveChildren_orig : ∀ (cs : List Desc) (ix : Index),
    (∀ e ∈ (moveChildren cs ix).manifests, e ∈ ix.manifests) ∧
    (∀ c ∈ (moveChildren cs ix).children, c ∈ ix.children ∨ c ∈ cs) := by
  intro cs
  induction cs with
  | nil => intro ix; exact ⟨fun e he => he, fun c hc => Or.inl hc⟩
  | cons cd cs ih =>
    intro ix
    rw [moveChildren]
    split
    · obtain ⟨h1, h2⟩ := ih { manifests := swapRemove ix.manifests _, children := ix.children ++ [cd] }
      refine ⟨fun e he => swapRemove_sub _ _ _ (h1 e he), ?_⟩
      intro c hc
      rcases h2 c hc with h | h
      · simp only [List.mem_append, List.mem_singleton] at h
        rcases h with h | h
        · exact Or.inl h
        · exact Or.inr (by rw [h]; exact List.mem_cons_self)
      · exact Or.inr (List.mem_cons_of_mem _ h)
    · split
      · obtain ⟨h1, h2⟩ := ih ix
        exact ⟨h1, fun c hc => (h2 c hc).imp id (List.mem_cons_of_mem _)⟩
      · obtain ⟨h1, h2⟩ := ih { ix with children := ix.children ++ [cd] }
        refine ⟨h1, ?_⟩
        intro c hc
        rcases h2 c hc with h | h
        · simp only [List.mem_append, List.mem_singleton] at h
          rcases h with h | h
          · exact Or.inl h
          · exact Or.inr (by rw [h]; exact List.mem_cons_self)
        · exact Or.inr (List.mem_cons_of_mem _ h)

/-- moving children never makes a listed digest unlisted -/
theorem moveChildren_keeps (g : String) : ∀ (cs : List Desc) (ix : Index), ListedAny ix g → ListedAny (moveChildren cs ix) g := by
  intro cs
  induction cs with
  | nil => intro ix h; exact h
  | cons cd cs ih =>
    intro ix h
    rw [moveChildren]
    split
    · rename_i mi hf
      apply ih
      obtain ⟨o, ho, hp⟩ := findIdx_get _ _ _ hf
      simp only [Bool.decide_and, Bool.and_eq_true, decide_eq_true_eq] at hp
      obtain ⟨e, he, heg⟩ := h
      simp only [List.mem_append] at he
      rcases he with he | he
      · -- a top-level entry: either it survives the swap-remove or it is the moved one
        have hlt : mi < ix.manifests.length := by
          rcases Nat.lt_or_ge mi ix.manifests.length with h | h
          · exact h
          · rw [List.getElem?_eq_none h] at ho; cases ho
        by_cases hsurv : e ∈ swapRemove ix.manifests mi
        · exact ⟨e, by simp [hsurv], heg⟩
        · -- then e was at position mi (every other element survives)
          have : e.dig = cd.dig := by
            obtain ⟨j, hj⟩ := List.getElem?_of_mem he
            by_cases hji : j = mi
            · subst hji; rw [ho] at hj; cases hj; exact hp.1
            · exfalso; apply hsurv
              unfold swapRemove
              cases hl : ix.manifests.getLast? with
              | none =>
                have := List.getLast?_eq_none_iff.mp hl
                rw [this] at he; cases he
              | some z =>
                simp only []
                have hlen : ix.manifests.length ≠ 0 := by omega
                have hjlt : j < ix.manifests.length := by
                  rcases Nat.lt_or_ge j ix.manifests.length with h | h
                  · exact h
                  · rw [List.getElem?_eq_none h] at hj; cases hj
                by_cases hjl : j = ix.manifests.length - 1
                · -- e is the last element, which was copied to position mi
                  have hz : z = e := by
                    rw [List.getLast?_eq_getElem?] at hl
                    rw [← hjl, hj] at hl; cases hl; rfl
                  subst hz
                  have : ((ix.manifests.set mi z).dropLast)[mi]? = some z := by
                    rw [List.getElem?_dropLast]
                    have : mi < (ix.manifests.set mi z).length - 1 := by simp; omega
                    rw [if_pos this]
                    simp [hlt]
                  exact List.mem_of_getElem? this
                · have : ((ix.manifests.set mi z).dropLast)[j]? = some e := by
                    rw [List.getElem?_dropLast]
                    have : j < (ix.manifests.set mi z).length - 1 := by simp; omega
                    simp only [this, if_true]
                    rw [List.getElem?_set_ne (Ne.symm hji)]; exact hj
                  exact List.mem_of_getElem? this
          exact ⟨cd, by simp, by rw [← heg, this]⟩
      · exact ⟨e, by simp [he], heg⟩
    · split
      · exact ih ix h
      · apply ih
        obtain ⟨e, he, heg⟩ := h
        refine ⟨e, ?_, heg⟩
        simp only [List.mem_append] at he ⊢
        rcases he with he | he
        · exact Or.inl he
        · exact Or.inr (Or.inl he)

/-- after moving, every moved child's digest is listed -/
theorem moveChildren_lists : ∀ (cs : List Desc) (ix : Index), ∀ c ∈ cs, ListedAny (moveChildren cs ix) c.dig := by
  intro cs
  induction cs with
  | nil => intro ix c hc; cases hc
  | cons cd cs ih =>
    intro ix c hc
    rcases List.mem_cons.mp hc with rfl | hc'
    · rw [moveChildren]
      split
      · apply moveChildren_keeps
        exact ⟨c, by simp, rfl⟩
      · split
        · rename_i hany
          apply moveChildren_keeps
          rcases hany with hany | hany
          · obtain ⟨x, hx, hxe⟩ := List.any_eq_true.mp hany
            exact ⟨x, by simp [hx], by simpa using hxe⟩
          · obtain ⟨x, hx, hxe⟩ := List.any_eq_true.mp hany
            exact ⟨x, by simp [hx], by simpa using hxe⟩
        · apply moveChildren_keeps
          exact ⟨c, by simp, rfl⟩
    · rw [moveChildren]
      split
      · exact ih _ c hc'
      · split
        · exact ih _ c hc'
        · exact ih _ c hc'

theorem placeDesc_spec (l : List Desc) (d : Desc) (tag subj : String) :
    d ∈ placeDesc l d tag subj ∧ (∀ e ∈ placeDesc l d tag subj, e = d ∨ e ∈ l) ∧
    (∀ e ∈ l, e.dig ≠ d.dig → e ∈ placeDesc l d tag subj) := by
  have hset : ∀ (mi : Nat) (o : Desc), l[mi]? = some o → o.dig = d.dig →
      d ∈ l.set mi d ∧ (∀ e ∈ l.set mi d, e = d ∨ e ∈ l) ∧ (∀ e ∈ l, e.dig ≠ d.dig → e ∈ l.set mi d) := by
    intro mi o ho hod
    have hlt : mi < l.length := by
      rcases Nat.lt_or_ge mi l.length with h | h
      · exact h
      · rw [List.getElem?_eq_none h] at ho; cases ho
    refine ⟨List.mem_set hlt d, ?_, ?_⟩
    · intro e he
      rcases List.mem_or_eq_of_mem_set he with h | h
      · exact Or.inr h
      · exact Or.inl h
    · intro e he hne
      rcases mem_set_or l mi d e he with h | h
      · exact h
      · rw [ho] at h; cases h; exact absurd hod hne
  unfold placeDesc
  split
  · rename_i mi h1
    obtain ⟨o, ho, hp⟩ := findIdx_get _ _ _ h1
    simp only [Bool.decide_and, Bool.and_eq_true, decide_eq_true_eq] at hp
    exact hset mi o ho hp.1
  · split
    · rename_i mi h2
      obtain ⟨o, ho, hp⟩ := findIdx_get _ _ _ h2
      simp only [Bool.decide_and, Bool.and_eq_true, decide_eq_true_eq] at hp
      exact hset mi o ho hp.1
    · refine ⟨by simp, ?_, ?_⟩
      · intro e he
        simp only [List.mem_append, List.mem_singleton] at he
        exact he.symm
      · intro e he _
        exact List.mem_append_left _ he

/-- where the entries of the index come from after `AddDesc` -/
structure FromIx (ix : Index) (cs : List Desc) (r : Index) : Prop where
  man : ∀ e' ∈ r.manifests, ∃ e ∈ ix.manifests, Orig e' e
  chi : ∀ c ∈ r.children, c ∈ ix.children ∨ c ∈ cs

theorem FromIx.refl (ix : Index) (cs : List Desc) : FromIx ix cs ix :=
  ⟨fun e he => ⟨e, he, Orig.refl e⟩, fun _ hc => Or.inl hc⟩

/-- the steps of `AddDesc` before the final placement -/
def addPre (ix : Index) (d : Desc) (children : List Desc) : Index :=
  let tag := if d.ann.isNil then "" else d.ann.tag
  let subj := if d.ann.isNil then "" else d.ann.subj
  let ix1 := if tag ≠ "" ∨ subj ≠ "" then addUntagLoop d tag subj ix.manifests.length ix else ix
  let ix2 := match findIdx (fun c => c.dig = d.dig) ix1.children 0 with
    | some ci => { ix1 with children := swapRemove ix1.children ci }
    | none => ix1
  moveChildren children ix2

/-- the tag and referrer annotation `AddDesc` works with ("" when the annotation map is nil) -/
def dTag (d : Desc) : String := if d.ann.isNil then "" else d.ann.tag
def dSubj (d : Desc) : String := if d.ann.isNil then "" else d.ann.subj

/-- the last step of `AddDesc` -/
def addFin (p : Index) (d : Desc) : Index :=
  if dTag d = "" ∧ dSubj d = "" then
    if p.manifests.any (·.dig = d.dig) then p else { p with manifests := p.manifests ++ [d] }
  else { p with manifests := placeDesc p.manifests d (dTag d) (dSubj d) }

theorem addDesc_eq (ix : Index) (d : Desc) (cs : List Desc) : addDesc ix d cs = addFin (addPre ix d cs) d := rfl

theorem addFin_spec (p : Index) (d : Desc) :
    (addFin p d).children = p.children ∧
    (∃ e ∈ (addFin p d).manifests, e.dig = d.dig) ∧
    (∀ e ∈ (addFin p d).manifests, e = d ∨ e ∈ p.manifests) ∧
    (∀ e ∈ p.manifests, e.dig ≠ d.dig → e ∈ (addFin p d).manifests) := by
  unfold addFin
  by_cases h : dTag d = "" ∧ dSubj d = ""
  · rw [if_pos h]
    by_cases hany : p.manifests.any (·.dig = d.dig) = true
    · rw [if_pos hany]
      obtain ⟨x, hx, hxe⟩ := List.any_eq_true.mp hany
      exact ⟨rfl, ⟨x, hx, by simpa using hxe⟩, fun e he => Or.inr he, fun e he _ => he⟩
    · rw [if_neg hany]
      refine ⟨rfl, ⟨d, by simp, rfl⟩, ?_, fun e he _ => by simp [he]⟩
      intro e he
      simp only [List.mem_append, List.mem_singleton] at he
      exact he.symm
  · rw [if_neg h]
    obtain ⟨a, b, c⟩ := placeDesc_spec p.manifests d (dTag d) (dSubj d)
    exact ⟨rfl, ⟨d, a, rfl⟩, b, c⟩

theorem addPre_from (ix : Index) (d : Desc) (cs : List Desc) : FromIx ix cs (addPre ix d cs) := by
  unfold addPre
  simp only []
  generalize (if d.ann.isNil = true then "" else d.ann.tag) = tag
  generalize (if d.ann.isNil = true then "" else d.ann.subj) = subj
  have h1 : FromIx ix cs (if tag ≠ "" ∨ subj ≠ "" then addUntagLoop d tag subj ix.manifests.length ix else ix) := by
    split
    · obtain ⟨a, b⟩ := addUntagLoop_orig d tag subj ix.manifests.length ix
      exact ⟨a, fun c hc => Or.inl (b c hc)⟩
    · exact FromIx.refl ix cs
  generalize (if tag ≠ "" ∨ subj ≠ "" then addUntagLoop d tag subj ix.manifests.length ix else ix) = ix1 at h1
  have h2 : FromIx ix cs (match findIdx (fun c => decide (c.dig = d.dig)) ix1.children 0 with
      | some ci => { ix1 with children := swapRemove ix1.children ci }
      | none => ix1) := by
    split
    · exact ⟨h1.man, fun c hc => h1.chi c (swapRemove_sub _ _ _ hc)⟩
    · exact h1
  generalize (match findIdx (fun c => decide (c.dig = d.dig)) ix1.children 0 with
      | some ci => { ix1 with children := swapRemove ix1.children ci }
      | none => ix1) = ix2 at h2
  obtain ⟨m1, m2⟩ := moveChildren_orig cs ix2
  refine ⟨fun e he => h2.man e (m1 e he), ?_⟩
  intro c hc
  rcases m2 c hc with h | h
  · exact h2.chi c h
  · exact Or.inr h

/-- every top-level entry after `AddDesc` is the new descriptor or stems from an old one; every child is an old child
    or one of the children passed -/
theorem addDesc_orig (ix : Index) (d : Desc) (cs : List Desc) :
    (∀ e' ∈ (addDesc ix d cs).manifests, e' = d ∨ ∃ e ∈ ix.manifests, Orig e' e) ∧
    (∀ c ∈ (addDesc ix d cs).children, c ∈ ix.children ∨ c ∈ cs) := by
  have hp := addPre_from ix d cs
  obtain ⟨f1, _, f3, _⟩ := addFin_spec (addPre ix d cs) d
  rw [addDesc_eq]
  refine ⟨?_, fun c hc => hp.chi c (by rw [← f1]; exact hc)⟩
  intro e he
  rcases f3 e he with h | h
  · exact Or.inl h
  · exact Or.inr (hp.man e h)

/-- the descriptor's own digest is listed at top level afterwards -/
theorem addDesc_lists_self (ix : Index) (d : Desc) (cs : List Desc) : ∃ e ∈ (addDesc ix d cs).manifests, e.dig = d.dig := by
  rw [addDesc_eq]; exact (addFin_spec _ d).2.1

/-- … and so is the digest of every child passed -/
theorem addDesc_lists_child (ix : Index) (d : Desc) (cs : List Desc) (c : Desc) (hc : c ∈ cs) :
    ListedAny (addDesc ix d cs) c.dig := by
  by_cases hcd : c.dig = d.dig
  · obtain ⟨e, he, hed⟩ := addDesc_lists_self ix d cs
    exact ⟨e, List.mem_append_left _ he, by rw [hed, hcd]⟩
  · have hl : ListedAny (addPre ix d cs) c.dig := by
      unfold addPre
      exact moveChildren_lists cs _ c hc
    obtain ⟨e, he, heg⟩ := hl
    obtain ⟨f1, _, _, f4⟩ := addFin_spec (addPre ix d cs) d
    rw [addDesc_eq]
    refine ⟨e, ?_, heg⟩
    simp only [List.mem_append] at he ⊢
    rcases he with he | he
    · exact Or.inl (f4 e he (by rw [heg]; exact hcd))
    · exact Or.inr (by rw [f1]; exact he)

/-! ## what a digest lookup returns -/

/-- digest `D` is listed, and every entry of it — top-level or child — has media type `mt` and size `size` -/
def DigInfo (ix : Index) (D mt : String) (size : Nat) : Prop :=
  ListedAny ix D ∧ ∀ e ∈ ix.manifests ++ ix.children, e.dig = D → e.mt = mt ∧ e.size = size

theorem getDescDig_of_digInfo (ix : Index) (D mt : String) (size : Nat) (h : DigInfo ix D mt size) :
    getDescDig ix D = some { mt := mt, dig := D, size := size } := by
  obtain ⟨⟨e, he, heD⟩, hall⟩ := h
  unfold getDescDig
  have hne : ¬ (ix.manifests.isEmpty = true ∧ ix.children.isEmpty = true) := by
    intro ⟨h1, h2⟩
    rw [List.isEmpty_iff] at h1 h2
    rw [h1, h2] at he; cases he
  rw [if_neg hne]
  cases hf : ix.manifests.find? (fun x => x.dig = D) with
  | some d =>
    simp only []
    have hd : d.dig = D := by simpa using List.find?_some hf
    obtain ⟨h1, h2⟩ := hall d (List.mem_append_left _ (List.mem_of_find?_eq_some hf)) hd
    rw [h1, h2, hd]
  | none =>
    simp only []
    have hnm : e ∉ ix.manifests := by
      intro hm
      have := List.find?_eq_none.mp hf e hm
      simp [heD] at this
    have hc : e ∈ ix.children := by
      rcases List.mem_append.mp he with h | h
      · exact absurd h hnm
      · exact h
    cases hfc : ix.children.find? (fun x => x.dig = D) with
    | none =>
      have := List.find?_eq_none.mp hfc e hc
      simp [heD] at this
    | some c =>
      have hd : c.dig = D := by simpa using List.find?_some hfc
      obtain ⟨h1, h2⟩ := hall c (List.mem_append_right _ (List.mem_of_find?_eq_some hfc)) hd
      simp only [Option.map_some]
      rw [h1, h2, hd]

/-- `AddDesc` establishes (or keeps) the information of digest `D` when the new descriptor or one of the children
    passed has that digest, and nothing listed under `D` — old, new or child — disagrees on media type and size -/
theorem addDesc_digInfo (ix : Index) (d : Desc) (cs : List Desc) (D mt : String) (size : Nat)
    (hold : ∀ e ∈ ix.manifests ++ ix.children, e.dig = D → e.mt = mt ∧ e.size = size)
    (hd : d.dig = D → d.mt = mt ∧ d.size = size)
    (hcs : ∀ c ∈ cs, c.dig = D → c.mt = mt ∧ c.size = size)
    (hl : d.dig = D ∨ ∃ c ∈ cs, c.dig = D) : DigInfo (addDesc ix d cs) D mt size := by
  obtain ⟨o1, o2⟩ := addDesc_orig ix d cs
  constructor
  · rcases hl with h | ⟨c, hc, hcD⟩
    · obtain ⟨e, he, hed⟩ := addDesc_lists_self ix d cs
      exact ⟨e, List.mem_append_left _ he, by rw [hed, h]⟩
    · rw [← hcD]; exact addDesc_lists_child ix d cs c hc
  · intro e he heD
    rcases List.mem_append.mp he with he | he
    · rcases o1 e he with rfl | ⟨e0, he0, hr⟩
      · exact hd heD
      · obtain ⟨r1, r2, r3, _⟩ := hr
        rw [r1, r3]
        exact hold e0 (List.mem_append_left _ he0) (by rw [← r2]; exact heD)
    · rcases o2 e he with h | h
      · exact hold e (List.mem_append_right _ h) heD
      · exact hcs e h heD

/-! ## blobs -/

theorem find_map_repl (d : Dig) (b : String) (d' : Dig) : ∀ l : List (Dig × String),
    (l.map fun x => if x.1 = d then (d, b) else x).find? (fun x => x.1 = d') =
      if d' = d then (if l.any (fun x => x.1 = d) then some (d, b) else none) else l.find? (fun x => x.1 = d') := by
  intro l
  induction l with
  | nil => simp
  | cons x xs ih =>
    simp only [List.map_cons, List.find?_cons, List.any_cons]
    by_cases hx : x.1 = d
    · by_cases hd : d' = d
      · subst hd; simp [hx]
      · have h2 : ¬ d = d' := fun h => hd h.symm
        simp [hx, hd, h2, ih]
    · by_cases hd : d' = d
      · subst hd
        simp only [hx, if_false, decide_false, Bool.false_or, if_true]
        rw [ih]; simp
      · by_cases hx' : x.1 = d'
        · simp [hd, hx']
        · simp [hx, hd, hx', ih]

theorem putBlob_blob (rp : Repo) (d : Dig) (b : String) (d' : Dig) :
    (rp.putBlob d b).blob d' = if d' = d then some b else rp.blob d' := by
  unfold Repo.putBlob Repo.blob
  by_cases hany : rp.blobs.any (fun x => x.1 = d) = true
  · rw [if_pos hany]
    simp only [find_map_repl, hany, if_true]
    by_cases hd : d' = d
    · simp [hd]
    · simp [hd]
  · rw [if_neg hany]
    simp only [List.find?_append]
    by_cases hd : d' = d
    · subst hd
      have hnone : rp.blobs.find? (fun x => x.1 = d') = none := by
        apply List.find?_eq_none.mpr
        intro x hx hxe
        exact hany (List.any_eq_true.mpr ⟨x, hx, hxe⟩)
      simp [hnone]
    · have : ¬ d = d' := fun h => hd h.symm
      simp [hd, this]

theorem repo_setRepo_at (s : State) (r : String) (rp : Repo) (h : rp.name = r) : (s.setRepo rp).repo r = rp := by
  subst h; exact repo_setRepo_same s rp

theorem putContent_repo (s : State) (r : String) (d : Dig) (c : String) :
    (putContent s r d c).repo r = if ((s.repo r).blob d).isSome then s.repo r else (s.repo r).putBlob d c := by
  unfold putContent
  simp only []
  split
  · exact repo_setRepo_at _ _ _ (repo_name s r)
  · exact repo_setRepo_at _ _ _ (by rw [putBlob_name, repo_name])

theorem putBlob_index (rp : Repo) (d : Dig) (b : String) : (rp.putBlob d b).index = rp.index := by
  unfold Repo.putBlob; split <;> rfl

theorem putContent_index (s : State) (r : String) (d : Dig) (c : String) :
    ((putContent s r d c).repo r).index = (s.repo r).index := by
  rw [putContent_repo]; split
  · rfl
  · exact putBlob_index _ _ _

/-- `putContent` never replaces a blob: what was stored stays, and the digest holds the content afterwards unless it
    held something before -/
theorem putContent_blob (s : State) (r : String) (d : Dig) (c : String) (d' : Dig) :
    ((putContent s r d c).repo r).blob d' =
      if d' = d ∧ ((s.repo r).blob d).isSome = false then some c else (s.repo r).blob d' := by
  rw [putContent_repo]
  by_cases h : ((s.repo r).blob d).isSome = true
  · rw [if_pos h]; simp [h]
  · rw [if_neg h, putBlob_blob]
    by_cases hd : d' = d
    · simp [hd, h]
    · simp [hd]

theorem indexInsert_repo (s : State) (r : String) (d : Desc) (cs : List Desc) :
    (indexInsert s r d cs).repo r = { s.repo r with index := addDesc (s.repo r).index d cs } := by
  unfold indexInsert
  exact repo_setRepo_at _ _ _ (repo_name s r)

theorem setRepo_resps (s : State) (rp : Repo) : (s.setRepo rp).resps = s.resps := by
  unfold State.setRepo; split <;> rfl
theorem putContent_resps (s : State) (r : String) (d : Dig) (c : String) : (putContent s r d c).resps = s.resps := by
  unfold putContent; simp only []; split <;> exact setRepo_resps _ _
theorem indexInsert_resps (s : State) (r : String) (d : Desc) (cs : List Desc) : (indexInsert s r d cs).resps = s.resps := by
  unfold indexInsert; exact setRepo_resps _ _

/-! ## what validation fixes about an accepted push -/

theorem validateImage_facts (ro : Bool) (rp : Repo) (b : Body) (mt tag : String) (d : Dig) (a : Accepted)
    (h : validateImage ro rp b mt tag d = .ok a) :
    a.d = d ∧ a.mt = mt ∧ a.tag = tag ∧ a.len = b.len ∧ a.refd.mt = mt ∧ a.refd.dig = d.str ∧ a.refd.size = b.len ∧
    a.children = [] := by
  unfold validateImage refuse at h
  repeat' split at h
  all_goals first
    | (simp only [pure, Except.pure, Except.ok.injEq] at h; subst h; exact ⟨rfl, rfl, rfl, rfl, rfl, rfl, rfl, rfl⟩)
    | (cases h)

theorem validateIndex_facts (ro : Bool) (rp : Repo) (b : Body) (mt tag : String) (d : Dig) (a : Accepted)
    (h : validateIndex ro rp b mt tag d = .ok a) :
    a.d = d ∧ a.mt = mt ∧ a.tag = tag ∧ a.len = b.len ∧ a.refd.mt = mt ∧ a.refd.dig = d.str ∧ a.refd.size = b.len ∧
    (∀ c ∈ a.children, hasBlob rp c.dig = true) := by
  unfold validateIndex refuse at h
  split at h
  · cases h
  · rename_i v hv
    split at h
    · cases h
    · split at h
      · cases h
      · rename_i hall
        simp only [pure, Except.pure, Except.ok.injEq] at h
        subst h
        refine ⟨rfl, rfl, rfl, rfl, rfl, rfl, rfl, ?_⟩
        intro c hc
        simp only [Bool.not_eq_true, Bool.not_eq_false'] at hall
        exact List.all_eq_true.mp hall c hc

theorem validateBody_facts (ro : Bool) (rp : Repo) (b : Body) (mt tag : String) (d : Dig) (a : Accepted)
    (h : validateBody ro rp b mt tag d = .ok a) :
    a.d = d ∧ a.mt = mt ∧ a.tag = tag ∧ a.len = b.len ∧ a.refd.mt = mt ∧ a.refd.dig = d.str ∧ a.refd.size = b.len ∧
    (∀ c ∈ a.children, hasBlob rp c.dig = true) := by
  unfold validateBody at h
  split at h
  · obtain ⟨h1, h2, h3, h4, h5, h6, h7, h8⟩ := validateImage_facts _ _ _ _ _ _ _ h
    exact ⟨h1, h2, h3, h4, h5, h6, h7, by rw [h8]; intro c hc; cases hc⟩
  · split at h
    · exact validateIndex_facts _ _ _ _ _ _ _ h
    · simp [refuse] at h

/-- an accepted push: the referrer descriptor repeats digest, media type and size; the length is that of the body;
    the tag is the reference when that is a tag -/
theorem mValidate_facts (s : State) (r ref ct qd b : String) (lk : Bool) (a : Accepted)
    (h : mValidate s r ref ct qd b lk = .ok a) :
    a.refd.mt = a.mt ∧ a.refd.dig = a.d.str ∧ a.refd.size = a.len ∧ a.len = (s.body b).len ∧
    a.tag = (if isTag ref then ref else "") ∧ (∀ c ∈ a.children, hasBlob (s.repo r) c.dig = true) := by
  unfold mValidate at h
  obtain ⟨_, _, h⟩ := bind_ok _ _ _ h
  obtain ⟨_, _, h⟩ := bind_ok _ _ _ h
  obtain ⟨qe, _, h⟩ := bind_ok _ _ _ h
  obtain ⟨te, ht, h⟩ := bind_ok _ _ _ h
  obtain ⟨_, _, h⟩ := bind_ok _ _ _ h
  obtain ⟨_, _, h⟩ := bind_ok _ _ _ h
  obtain ⟨h1, h2, h3, h4, h5, h6, h7, h8⟩ := validateBody_facts _ _ _ _ _ _ _ h
  refine ⟨by rw [h5, h2], by rw [h6, h1], by rw [h7, h4], h4, ?_, h8⟩
  rw [h3]
  unfold parseRef at ht
  by_cases htag : isTag ref = true
  · rw [if_pos htag] at ht ⊢
    simp only [pure, Except.pure, Except.ok.injEq] at ht; rw [← ht]
  · rw [if_neg htag] at ht ⊢
    split at ht
    · simp only [pure, Except.pure, Except.ok.injEq] at ht; rw [← ht]
    · simp [refuse] at ht

/-! ## the index after an accepted push -/

/-- nothing recorded for the pushed digest disagrees with the push: index entries and children of that digest, the
    children the manifest lists, and — when the manifest has a subject — the referrers responses; and the digest is
    not that of a referrers response -/
structure Consistent (s : State) (r : String) (a : Accepted) : Prop where
  idx : ∀ e ∈ (s.repo r).index.manifests ++ (s.repo r).index.children, e.dig = a.d.str → e.mt = a.mt ∧ e.size = a.len
  chi : ∀ c ∈ a.children, c.dig = a.d.str → c.mt = a.mt ∧ c.size = a.len
  notResp : a.subject ≠ "" → ∀ ds, Dig.str ⟨.sha256, respName ds⟩ ≠ a.d.str
  resps : a.subject ≠ "" → ∀ name ds, s.resp name = some ds → ∀ c ∈ ds, c.dig = a.d.str → c.mt = a.mt ∧ c.size = a.len

/-- the index entry `mCommit` inserts -/
def entryOf (a : Accepted) : Desc :=
  { mt := a.mt, dig := a.d.str, size := a.len, ann := if a.tag = "" then {} else { isNil := false, tag := a.tag } }

theorem currentResp_list (s : State) (r subject : String) (dOld : Desc) (ds : List Desc)
    (h : currentResp s r subject = some (dOld, ds)) : ds = [] ∨ ∃ name, s.resp name = some ds := by
  unfold currentResp at h
  split at h
  · cases h
  · split at h
    · simp only [Option.some.injEq, Prod.mk.injEq] at h; exact Or.inl h.2.symm
    · split at h
      · simp only [Option.some.injEq, Prod.mk.injEq] at h; exact Or.inl h.2.symm
      · rename_i content _
        simp only [Option.some.injEq, Prod.mk.injEq] at h
        cases hr : s.resp content with
        | none => rw [hr] at h; exact Or.inl h.2.symm
        | some l => rw [hr] at h; exact Or.inr ⟨content, by rw [hr]; exact congrArg some h.2⟩

/-- the index of the repository after `storeResp` -/
theorem storeResp_index (s : State) (r subject : String) (ds : List Desc) :
    ((storeResp s r subject ds).repo r).index =
      addDesc (s.repo r).index
        { mt := "ocii", dig := Dig.str ⟨.sha256, respName ds⟩, size := respSize ds, ann := { isNil := false, subj := subject } } ds := by
  unfold storeResp
  simp only []
  rw [indexInsert_repo]
  simp only []
  rw [putContent_index]
  rfl

theorem putContent_blob_keep (s : State) (r : String) (d : Dig) (c : String) (d' : Dig) (x : String)
    (h : (s.repo r).blob d' = some x) : ((putContent s r d c).repo r).blob d' = some x := by
  rw [putContent_blob]
  by_cases hh : d' = d ∧ ((s.repo r).blob d).isSome = false
  · obtain ⟨h1, h2⟩ := hh
    subst h1
    rw [h] at h2; cases h2
  · rw [if_neg hh]; exact h

/-- blobs present before `storeResp` are still there, unchanged -/
theorem storeResp_blob (s : State) (r subject : String) (ds : List Desc) (d : Dig) (c : String)
    (h : (s.repo r).blob d = some c) : ((storeResp s r subject ds).repo r).blob d = some c := by
  unfold storeResp
  simp only []
  rw [indexInsert_repo]
  exact putContent_blob_keep _ r _ _ d c h

/-- recording a referrer of digest `D` in the response of a subject keeps the information of `D` -/
theorem storeResp_digInfo (s2 : State) (r subject : String) (old : List Desc) (refd : Desc) (D mt : String) (size : Nat)
    (h2 : DigInfo (s2.repo r).index D mt size)
    (hold : ∀ c ∈ old, c.dig = D → c.mt = mt ∧ c.size = size)
    (hrefd : refd.mt = mt ∧ refd.dig = D ∧ refd.size = size)
    (hnr : ∀ ds, Dig.str ⟨.sha256, respName ds⟩ ≠ D) :
    DigInfo ((storeResp s2 r subject (if old.any (·.dig = refd.dig) then old else old ++ [refd])).repo r).index D mt size := by
  rw [storeResp_index]
  apply addDesc_digInfo _ _ _ _ _ _ h2.2
  · intro h; exact absurd h (hnr _)
  · intro c hcm hcd
    by_cases hany : old.any (·.dig = refd.dig) = true
    · rw [if_pos hany] at hcm; exact hold c hcm hcd
    · rw [if_neg hany] at hcm
      rcases List.mem_append.mp hcm with h | h
      · exact hold c h hcd
      · simp only [List.mem_singleton] at h
        subst h; exact ⟨hrefd.1, hrefd.2.2⟩
  · right
    by_cases hany : old.any (·.dig = refd.dig) = true
    · rw [if_pos hany]
      obtain ⟨x, hx, hxe⟩ := List.any_eq_true.mp hany
      exact ⟨x, hx, by simpa [hrefd.2.1] using hxe⟩
    · rw [if_neg hany]
      exact ⟨refd, by simp, hrefd.2.1⟩

theorem mCommit_digInfo (s : State) (r b : String) (a : Accepted)
    (hrefd : a.refd.mt = a.mt ∧ a.refd.dig = a.d.str ∧ a.refd.size = a.len) (hc : Consistent s r a) :
    DigInfo ((mCommit s r b a).1.repo r).index a.d.str a.mt a.len := by
  unfold mCommit
  simp only []
  have hix2 : ((indexInsert (putContent s r a.d b) r (entryOf a) a.children).repo r).index =
      addDesc (s.repo r).index (entryOf a) a.children := by
    rw [indexInsert_repo]; simp only []; rw [putContent_index]
  have h2 : DigInfo ((indexInsert (putContent s r a.d b) r (entryOf a) a.children).repo r).index a.d.str a.mt a.len := by
    rw [hix2]
    exact addDesc_digInfo _ _ _ _ _ _ hc.idx (fun _ => ⟨rfl, rfl⟩) hc.chi (Or.inl rfl)
  show DigInfo ((if a.subject ≠ "" then referrerAdd (indexInsert (putContent s r a.d b) r (entryOf a) a.children) r a.subject a.refd
      else indexInsert (putContent s r a.d b) r (entryOf a) a.children).repo r).index a.d.str a.mt a.len
  split
  · rename_i hsub
    generalize hs2 : indexInsert (putContent s r a.d b) r (entryOf a) a.children = s2 at h2
    have hresps : s2.resps = s.resps := by rw [← hs2, indexInsert_resps, putContent_resps]
    unfold referrerAdd
    simp only []
    apply storeResp_digInfo _ _ _ _ _ _ _ _ h2 _ hrefd (hc.notResp hsub)
    intro c hcm hcd
    cases hcr : currentResp s2 r a.subject with
    | none => rw [hcr] at hcm; cases hcm
    | some p =>
      obtain ⟨dOld, ds0⟩ := p
      rw [hcr] at hcm
      simp only [] at hcm
      rcases currentResp_list s2 r a.subject dOld ds0 hcr with h | ⟨name, hn⟩
      · rw [h] at hcm; cases hcm
      · have : s.resp name = some ds0 := by
          unfold State.resp at hn ⊢; rw [hresps] at hn; exact hn
        exact hc.resps hsub name ds0 this c hcm hcd
  · exact h2

/-! ## a tag push makes the tag name the pushed digest (the `Ixd.addDesc_tag` argument on the string-valued index) -/

/-- entry `e` carries tag `t` -/
def hasTagS (t : String) (e : Desc) : Prop := e.ann.isNil = false ∧ e.ann.tag = t
/-- every tag names at most one digest -/
def TagFunS (l : List Desc) : Prop := ∀ t, t ≠ "" → ∀ e1 ∈ l, ∀ e2 ∈ l, hasTagS t e1 → hasTagS t e2 → e1.dig = e2.dig
def NoEmptyDigS (l : List Desc) : Prop := ∀ e ∈ l, e.dig ≠ ""
/-- `e` makes the first loop of AddDesc(d with tag t) act -/
def trigS (d : Desc) (t : String) (e : Desc) : Prop := e.dig ≠ d.dig ∧ hasTagS t e

def untagArgS (e : Desc) (t : String) : Desc := { mt := e.mt, dig := e.dig, size := e.size, ann := { isNil := false, tag := t } }

theorem no_trig_afterS (ix : Index) (d e : Desc) (t : String) (hJ : TagFunS ix.manifests) (he : e ∈ ix.manifests)
    (hte : hasTagS t e) (hd : e.dig ≠ "") (ht : t ≠ "") :
    ∀ e' ∈ (rmDesc ix (untagArgS e t)).manifests, ¬ trigS d t e' := by
  intro e' he' ⟨_, htag⟩
  have spec := rmDesc_tag ix (untagArgS e t) hd rfl ht
  obtain ⟨o, ho, h⟩ := spec.origin e' he'
  rcases h with rfl | ⟨rfl, _⟩
  · have hdig : e'.dig = e.dig := hJ t ht e' ho e he htag hte
    exact spec.gone e' he' ⟨hdig, htag.1, htag.2⟩
  · exact ht htag.2.symm

theorem addUntagLoop_idS (d : Desc) (t subj : String) (hsub : subj = "") (n : Nat) (ix : Index)
    (h : ∀ e ∈ ix.manifests, ¬ trigS d t e) : addUntagLoop d t subj n ix = ix := by
  fun_induction addUntagLoop d t subj n ix with
  | case1 ix => rfl
  | case2 mi ix hg ih => exact ih h
  | case3 mi ix e hg hc ht ix' miGo ih =>
    exfalso
    exact h e (List.mem_of_getElem? hg) ⟨hc.1, by simpa using hc.2, ht.2⟩
  | case4 mi ix e hg hc ht hs ih => exact absurd hsub hs.1
  | case5 mi ix e hg hc ht hs ih => exact ih h
  | case6 mi ix e hg hc ih => exact ih h

theorem addUntagLoop_clearsS (d : Desc) (t subj : String) (hsub : subj = "") (ht0 : t ≠ "") (n : Nat) (ix : Index)
    (hJ : TagFunS ix.manifests) (hD : NoEmptyDigS ix.manifests)
    (h : ∀ j e, n ≤ j → ix.manifests[j]? = some e → ¬ trigS d t e) :
    ∀ e ∈ (addUntagLoop d t subj n ix).manifests, ¬ trigS d t e := by
  fun_induction addUntagLoop d t subj n ix with
  | case1 ix =>
    intro e he
    obtain ⟨j, hj⟩ := List.getElem?_of_mem he
    exact h j e (Nat.zero_le _) hj
  | case2 mi ix hg ih =>
    apply ih hJ hD
    intro j e hj hje
    rcases Nat.lt_or_ge mi j with hlt | hge
    · exact h j e hlt hje
    · have : j = mi := by omega
      subst this; rw [hg] at hje; cases hje
  | case3 mi ix e hg hc ht ix' miGo ih =>
    have hmem : e ∈ ix.manifests := List.mem_of_getElem? hg
    have hx : hasTagS t e := ⟨by simpa using hc.2, ht.2⟩
    have hnone := no_trig_afterS ix d e t hJ hmem hx (hD e hmem) ht0
    have hid := addUntagLoop_idS d t subj hsub miGo ix' hnone
    rw [hid]
    exact hnone
  | case4 mi ix e hg hc ht hs ih => exact absurd hsub hs.1
  | case5 mi ix e hg hc ht hs ih =>
    apply ih hJ hD
    intro j e' hj hje
    rcases Nat.lt_or_ge mi j with hlt | hge
    · exact h j e' hlt hje
    · have : j = mi := by omega
      subst this; rw [hg] at hje; cases hje
      intro ⟨_, hh⟩
      exact ht ⟨ht0, hh.2⟩
  | case6 mi ix e hg hc ih =>
    apply ih hJ hD
    intro j e' hj hje
    rcases Nat.lt_or_ge mi j with hlt | hge
    · exact h j e' hlt hje
    · have : j = mi := by omega
      subst this; rw [hg] at hje; cases hje
      intro ⟨h1, hh⟩
      exact hc ⟨h1, by simp [hh.1]⟩

theorem addUntagLoop_no_trigS (d : Desc) (t : String) (ht : t ≠ "") (ix : Index)
    (hJ : TagFunS ix.manifests) (hD : NoEmptyDigS ix.manifests) :
    ∀ e ∈ (addUntagLoop d t "" ix.manifests.length ix).manifests, ¬ trigS d t e := by
  apply addUntagLoop_clearsS d t "" rfl ht _ ix hJ hD
  intro j e hj hje
  have := List.getElem?_eq_none (l := ix.manifests) (i := j) hj
  rw [this] at hje; cases hje

/-- pushing `d` under tag `t`: afterwards `d` is listed, and every entry that carries `t` has `d`'s digest -/
theorem addDesc_tagS (ix : Index) (d : Desc) (cs : List Desc) (t : String) (ht : t ≠ "")
    (hd : d.ann = { isNil := false, tag := t })
    (hJ : TagFunS ix.manifests) (hD : NoEmptyDigS ix.manifests) :
    d ∈ (addDesc ix d cs).manifests ∧ ∀ e ∈ (addDesc ix d cs).manifests, hasTagS t e → e.dig = d.dig := by
  have htag : dTag d = t := by simp [dTag, hd]
  have hsubj : dSubj d = "" := by simp [dSubj, hd]
  have hnt := addUntagLoop_no_trigS d t ht ix hJ hD
  -- no entry before the final placement triggers
  have hpre : ∀ e ∈ (addPre ix d cs).manifests, ¬ trigS d t e := by
    intro e he
    unfold addPre at he
    simp only [] at he
    have h1 := (moveChildren_orig cs _).1 e he
    have htag' : (if d.ann.isNil = true then "" else d.ann.tag) = t := htag
    have hsubj' : (if d.ann.isNil = true then "" else d.ann.subj) = "" := hsubj
    rw [htag', hsubj'] at h1
    rw [if_pos (Or.inl ht)] at h1
    apply hnt e
    split at h1 <;> exact h1
  rw [addDesc_eq]
  have hfin : (addFin (addPre ix d cs) d).manifests = placeDesc (addPre ix d cs).manifests d t "" := by
    unfold addFin
    rw [htag, hsubj, if_neg (fun h => ht h.1)]
  rw [hfin]
  obtain ⟨p1, p2, _⟩ := placeDesc_spec (addPre ix d cs).manifests d t ""
  refine ⟨p1, ?_⟩
  intro e he hte
  rcases p2 e he with rfl | h
  · rfl
  · apply Decidable.byContradiction
    intro hne
    exact hpre e h ⟨hne, hte⟩

theorem swapRemove_keeps (l : List Desc) (mi : Nat) (o e : Desc) (ho : l[mi]? = some o) (he : e ∈ l) (hne : e ≠ o) :
    e ∈ swapRemove l mi := by
  have hlt : mi < l.length := by
    rcases Nat.lt_or_ge mi l.length with h | h
    · exact h
    · rw [List.getElem?_eq_none h] at ho; cases ho
  rw [swapRemove_mem l mi hlt]
  have hs := split_at l mi hlt
  rw [hs] at he
  rcases List.mem_append.mp he with h | h
  · exact Or.inl h
  · rcases List.mem_cons.mp h with h | h
    · exfalso; apply hne
      rw [h]
      have : l[mi]? = some l[mi] := List.getElem?_eq_getElem hlt
      rw [this] at ho; cases ho; rfl
    · exact Or.inr h

/-- moving children only ever takes entries without annotations out of the top level -/
theorem moveChildren_keeps_annotated : ∀ (cs : List Desc) (ix : Index) (e : Desc), e ∈ ix.manifests → e.ann.len ≠ 0 →
    e ∈ (moveChildren cs ix).manifests := by
  intro cs
  induction cs with
  | nil => intro ix e he _; exact he
  | cons cd cs ih =>
    intro ix e he hlen
    rw [moveChildren]
    split
    · rename_i mi hf
      obtain ⟨o, ho, hp⟩ := findIdx_get _ _ _ hf
      simp only [Bool.decide_and, Bool.and_eq_true, decide_eq_true_eq] at hp
      apply ih _ e _ hlen
      apply swapRemove_keeps _ mi o e ho he
      intro heo; subst heo; exact hlen hp.2
    · split
      · exact ih ix e he hlen
      · exact ih _ e he hlen

/-- recording a referrers response (annotation: subject only) for another digest leaves a tag where it is -/
theorem addDesc_resp_keeps_tag (ix : Index) (dr : Desc) (cs : List Desc) (S t D : String) (hS : S ≠ "") (ht : t ≠ "")
    (hdr : dr.ann = { isNil := false, subj := S }) (hne : dr.dig ≠ D)
    (hall : ∀ e ∈ ix.manifests, hasTagS t e → e.dig = D)
    (hex : ∃ e ∈ ix.manifests, hasTagS t e ∧ e.ann.subj = "" ∧ e.dig = D) :
    (∀ e ∈ (addDesc ix dr cs).manifests, hasTagS t e → e.dig = D) ∧ (∃ e ∈ (addDesc ix dr cs).manifests, hasTagS t e) := by
  constructor
  · intro e he hte
    rcases (addDesc_orig ix dr cs).1 e he with rfl | ⟨e0, he0, hr⟩
    · exfalso
      have := hte.2
      rw [hdr] at this
      exact ht this.symm
    · obtain ⟨_, r2, _, r4, _, r6⟩ := hr
      rw [r2]
      apply hall e0 he0
      refine ⟨by rw [← r4]; exact hte.1, ?_⟩
      rcases r6 with h | h
      · rw [← h]; exact hte.2
      · exfalso; rw [hte.2] at h; exact ht h
  · obtain ⟨e, he, hte, hes, heD⟩ := hex
    refine ⟨e, ?_, hte⟩
    have htag : dTag dr = "" := by simp [dTag, hdr]
    have hsubj : dSubj dr = S := by simp [dSubj, hdr]
    have hlen : e.ann.len ≠ 0 := len_ne_zero_of_tag e (by rw [hte.2]; exact ht)
    -- through the first loop
    have h1 : e ∈ (addUntagLoop dr "" S ix.manifests.length ix).manifests := by
      rw [addUntagLoop_subj_mem dr S hS ix e]
      refine ⟨he, ?_⟩
      unfold dropS
      simp only [decide_eq_false_iff_not]
      intro ⟨_, _, h3⟩
      rw [hes] at h3; exact hS h3.symm
    have hpre : e ∈ (addPre ix dr cs).manifests := by
      unfold addPre
      simp only []
      have htag' : (if dr.ann.isNil = true then "" else dr.ann.tag) = "" := htag
      have hsubj' : (if dr.ann.isNil = true then "" else dr.ann.subj) = S := hsubj
      rw [htag', hsubj', if_pos (Or.inr hS)]
      apply moveChildren_keeps_annotated _ _ e _ hlen
      split <;> exact h1
    rw [addDesc_eq]
    exact (addFin_spec _ dr).2.2.2 e hpre (by rw [heD]; exact fun h => hne h.symm)

/-! ## the state after an acknowledged push, and reading it back -/

theorem blob_cas (rp : Repo) (d : Dig) (x : String) (h : RepoCAS rp) (hb : rp.blob d = some x) : d.content = x := by
  unfold Repo.blob at hb
  cases hf : rp.blobs.find? (fun p => p.1 = d) with
  | none => rw [hf] at hb; cases hb
  | some p =>
    rw [hf] at hb
    simp only [Option.map_some, Option.some.injEq] at hb
    have hp := List.mem_of_find?_eq_some hf
    have hk : p.1 = d := by simpa using List.find?_some hf
    have := h p hp
    rw [hk, hb] at this
    exact this

theorem indexInsert_blob (s : State) (r : String) (d : Desc) (cs : List Desc) (dg : Dig) :
    ((indexInsert s r d cs).repo r).blob dg = (s.repo r).blob dg := by
  rw [indexInsert_repo]; rfl

/-- after the commit of an accepted push the blob of its digest holds the bytes received -/
theorem mCommit_blob (s : State) (r b : String) (a : Accepted) (hinv : Inv s) (hd : a.d.content = b) :
    ((mCommit s r b a).1.repo r).blob a.d = some b := by
  have h1 : ((putContent s r a.d b).repo r).blob a.d = some b := by
    rw [putContent_blob]
    cases hb : (s.repo r).blob a.d with
    | none => simp
    | some x =>
      have := blob_cas _ _ _ (repo_ok s r hinv).1 hb
      simp [← this, hd]
  have h2 : ((indexInsert (putContent s r a.d b) r (entryOf a) a.children).repo r).blob a.d = some b := by
    rw [indexInsert_blob]; exact h1
  show ((if a.subject ≠ "" then referrerAdd (indexInsert (putContent s r a.d b) r (entryOf a) a.children) r a.subject a.refd
      else indexInsert (putContent s r a.d b) r (entryOf a) a.children).repo r).blob a.d = some b
  split
  · unfold referrerAdd; exact storeResp_blob _ _ _ _ _ _ h2
  · exact h2

theorem Dig.str_ne_empty (d : Dig) : d.str ≠ "" := by
  intro h
  have := congrArg String.length h
  unfold Dig.str at this
  simp [String.length_append] at this

/-- after the commit of an accepted tag push, the tag names the pushed digest and nothing else -/
theorem mCommit_tag (s : State) (r b : String) (a : Accepted) (ht : a.tag ≠ "")
    (hJ : TagFunS (s.repo r).index.manifests) (hD : NoEmptyDigS (s.repo r).index.manifests)
    (hnr : a.subject ≠ "" → ∀ ds, Dig.str ⟨.sha256, respName ds⟩ ≠ a.d.str) :
    (∀ e ∈ ((mCommit s r b a).1.repo r).index.manifests, hasTagS a.tag e → e.dig = a.d.str) ∧
    (∃ e ∈ ((mCommit s r b a).1.repo r).index.manifests, hasTagS a.tag e) := by
  have hent : (entryOf a).ann = { isNil := false, tag := a.tag } := by simp [entryOf, ht]
  have hix2 : ((indexInsert (putContent s r a.d b) r (entryOf a) a.children).repo r).index =
      addDesc (s.repo r).index (entryOf a) a.children := by
    rw [indexInsert_repo]; simp only []; rw [putContent_index]
  obtain ⟨t1, t2⟩ := addDesc_tagS (s.repo r).index (entryOf a) a.children a.tag ht hent hJ hD
  have hE : hasTagS a.tag (entryOf a) := by simp [hasTagS, hent]
  show (∀ e ∈ ((if a.subject ≠ "" then referrerAdd (indexInsert (putContent s r a.d b) r (entryOf a) a.children) r a.subject a.refd
      else indexInsert (putContent s r a.d b) r (entryOf a) a.children).repo r).index.manifests, hasTagS a.tag e → e.dig = a.d.str) ∧
    (∃ e ∈ ((if a.subject ≠ "" then referrerAdd (indexInsert (putContent s r a.d b) r (entryOf a) a.children) r a.subject a.refd
      else indexInsert (putContent s r a.d b) r (entryOf a) a.children).repo r).index.manifests, hasTagS a.tag e)
  split
  · rename_i hsub
    unfold referrerAdd
    simp only []
    rw [storeResp_index, hix2]
    exact addDesc_resp_keeps_tag _ _ _ a.subject a.tag a.d.str hsub ht rfl (hnr hsub _) t2
      ⟨entryOf a, t1, hE, by rw [hent], rfl⟩
  · rw [hix2]
    exact ⟨t2, entryOf a, t1, hE⟩

theorem getDescTag_of (ix : Index) (t : String) (h : ∃ e ∈ ix.manifests, hasTagS t e) :
    ∃ e, getDescTag ix t = some e ∧ e ∈ ix.manifests ∧ hasTagS t e := by
  obtain ⟨e0, he0, ht0⟩ := h
  unfold getDescTag
  have hne : ¬ ix.manifests.isEmpty = true := by
    rw [List.isEmpty_iff]; intro h; rw [h] at he0; cases he0
  rw [if_neg hne]
  cases hf : ix.manifests.find? (fun d => decide (¬ d.ann.isNil = true ∧ d.ann.tag = t)) with
  | none =>
    have := List.find?_eq_none.mp hf e0 he0
    simp [ht0.1, ht0.2] at this
  | some e =>
    have h2 := List.find?_some hf
    simp only [Bool.not_eq_true, decide_eq_true_eq] at h2
    exact ⟨e, rfl, List.mem_of_find?_eq_some hf, h2.1, h2.2⟩

theorem serve_full' (s : State) (c dcd ct : String) (head : Bool) :
    serve s c "" head dcd ct =
      { status := 200, dcd := dcd, ct := ct, cl := toString (contentLen s c), body := if head then "-" else "=" ++ cname c } := by
  simp [serve, parseRange]

theorem contentLen_setRepo (s : State) (rp : Repo) (c : String) : contentLen (s.setRepo rp) c = contentLen s c := by
  unfold contentLen; rw [setRepo_defs, setRepo_resps]

/-- a manifest GET whose lookup finds an acceptable descriptor with a present blob serves that blob -/
theorem mGet_serves (s : State) (r arg : String) (accept : List String) (head : Bool) (desc : Desc) (dg : Dig) (content : String)
    (hg : getDesc (s.repo r).index arg = some desc) (hacc : accept.contains desc.mt = true)
    (hp : DigArg.parse desc.dig = .ok dg) (hb : (s.repo r).blob dg = some content) :
    (mGet s r arg accept head).2 =
      { status := 200, dcd := dg.str, ct := desc.mt, cl := toString (contentLen s content),
        body := if head then "-" else "=" ++ cname content } := by
  rw [mGet_eq]
  simp only [repo_touch, hg]
  have : pickOf (s.setRepo (s.repo r)) (s.repo r) arg accept desc = .found desc := by
    unfold pickOf; rw [if_pos hacc]
  rw [this]
  simp only [hp, hb]
  rw [serve_full', contentLen_setRepo]

theorem Consistent.touch {s : State} {r : String} {a : Accepted} (h : Consistent s r a) :
    Consistent (s.setRepo (s.repo r)) r a := by
  obtain ⟨h1, h2, h3, h4⟩ := h
  refine ⟨by rw [repo_touch]; exact h1, h2, h3, ?_⟩
  intro hs name ds hn
  apply h4 hs name ds
  unfold State.resp at hn ⊢
  rw [setRepo_resps] at hn; exact hn

/-- an acknowledged push is the commit of what validation accepted -/
theorem mPut_eq_commit (s : State) (r ref ct qd b : String) (lk : Bool) (a : Accepted)
    (hv : mValidate (s.setRepo (s.repo r)) r ref ct qd b lk = .ok a) :
    mPut s r ref ct qd b lk = mCommit (s.setRepo (s.repo r)) r b a := by
  unfold mPut; simp only [hv]

/-- the blob of an acknowledged push holds the bytes received -/
theorem readback_blob (s : State) (r ref ct qd b : String) (lk : Bool) (a : Accepted) (hinv : Inv s)
    (hv : mValidate (s.setRepo (s.repo r)) r ref ct qd b lk = .ok a) :
    ((mPut s r ref ct qd b lk).1.repo r).blob a.d = some b := by
  rw [mPut_eq_commit s r ref ct qd b lk a hv]
  exact mCommit_blob _ r b a (setRepo_inv s _ hinv (repo_ok s r hinv)) (mValidate_digest _ r ref ct qd b lk a hv)

/-- … and a lookup by digest returns the pushed media type and size -/
theorem readback_digest (s : State) (r ref ct qd b : String) (lk : Bool) (a : Accepted)
    (hv : mValidate (s.setRepo (s.repo r)) r ref ct qd b lk = .ok a) (hc : Consistent s r a)
    (arg : String) (harg : isTag arg = false) (hp : DigArg.parse arg = .ok a.d) :
    getDesc ((mPut s r ref ct qd b lk).1.repo r).index arg = some { mt := a.mt, dig := a.d.str, size := a.len } := by
  rw [mPut_eq_commit s r ref ct qd b lk a hv]
  obtain ⟨f1, f2, f3, _⟩ := mValidate_facts _ r ref ct qd b lk a hv
  have hdi := mCommit_digInfo (s.setRepo (s.repo r)) r b a ⟨f1, f2, f3⟩ hc.touch
  have hg := getDescDig_of_digInfo _ _ _ _ hdi
  unfold getDesc
  have hne : ¬ (((mCommit (s.setRepo (s.repo r)) r b a).1.repo r).index.manifests.isEmpty = true ∧
      ((mCommit (s.setRepo (s.repo r)) r b a).1.repo r).index.children.isEmpty = true) := by
    intro ⟨h1, h2⟩
    obtain ⟨e, he, _⟩ := hdi.1
    rw [List.isEmpty_iff] at h1 h2
    rw [h1, h2] at he; cases he
  rw [if_neg hne, if_neg (by simp [harg])]
  simp only [hp]
  exact hg

/-- … and a lookup by the pushed tag returns an entry of the pushed digest, media type and size -/
theorem readback_tag (s : State) (r ref ct qd b : String) (lk : Bool) (a : Accepted)
    (hv : mValidate (s.setRepo (s.repo r)) r ref ct qd b lk = .ok a) (hc : Consistent s r a)
    (htag : isTag ref = true)
    (hJ : TagFunS (s.repo r).index.manifests) (hD : NoEmptyDigS (s.repo r).index.manifests) :
    ∃ e, getDesc ((mPut s r ref ct qd b lk).1.repo r).index ref = some e ∧
      e.mt = a.mt ∧ e.dig = a.d.str ∧ e.size = a.len := by
  rw [mPut_eq_commit s r ref ct qd b lk a hv]
  obtain ⟨f1, f2, f3, _, f5, _⟩ := mValidate_facts _ r ref ct qd b lk a hv
  rw [if_pos htag] at f5
  have ht : a.tag ≠ "" := by rw [f5]; exact isTag_ne_empty _ htag
  have hdi := mCommit_digInfo (s.setRepo (s.repo r)) r b a ⟨f1, f2, f3⟩ hc.touch
  obtain ⟨t1, t2⟩ := mCommit_tag (s.setRepo (s.repo r)) r b a ht (by rw [repo_touch]; exact hJ)
    (by rw [repo_touch]; exact hD) hc.notResp
  rw [f5] at t1 t2
  obtain ⟨e, hge, hem, hte⟩ := getDescTag_of _ ref t2
  have hed := t1 e hem hte
  obtain ⟨m1, m2⟩ := hdi.2 e (List.mem_append_left _ hem) hed
  refine ⟨e, ?_, m1, hed, m2⟩
  unfold getDesc
  have hne : ¬ (((mCommit (s.setRepo (s.repo r)) r b a).1.repo r).index.manifests.isEmpty = true ∧
      ((mCommit (s.setRepo (s.repo r)) r b a).1.repo r).index.children.isEmpty = true) := by
    intro ⟨h1, _⟩
    rw [List.isEmpty_iff] at h1
    rw [h1] at hem; cases hem
  rw [if_neg hne, if_pos htag]
  exact hge

/-! ## Content-Length of a manifest that was accepted -/

theorem validateBody_parses (ro : Bool) (rp : Repo) (b : Body) (mt tag : String) (d : Dig) (a : Accepted)
    (h : validateBody ro rp b mt tag d = .ok a) : b.asImage.isSome = true ∨ b.asIndex.isSome = true := by
  unfold validateBody at h
  split at h
  · left
    unfold validateImage at h
    split at h
    · simp [refuse] at h
    · rename_i v hv; rw [hv]; rfl
  · split at h
    · right
      unfold validateIndex at h
      split at h
      · simp [refuse] at h
      · rename_i v hv; rw [hv]; rfl
    · simp [refuse] at h

theorem default_body_junk : (({} : Body).asImage.isSome = true ∨ ({} : Body).asIndex.isSome = true) → False := by
  intro h
  rcases h with h | h
  · simp [Body.asImage] at h
  · simp [Body.asIndex] at h

/-- the body of an accepted push is a defined one -/
theorem mValidate_defined (s : State) (r ref ct qd b : String) (lk : Bool) (a : Accepted)
    (h : mValidate s r ref ct qd b lk = .ok a) : ∃ p, s.defs.find? (·.1 = b) = some p ∧ a.len = p.2.len := by
  obtain ⟨_, _, _, f4, _, _⟩ := mValidate_facts s r ref ct qd b lk a h
  unfold mValidate at h
  obtain ⟨_, _, h⟩ := bind_ok _ _ _ h
  obtain ⟨_, _, h⟩ := bind_ok _ _ _ h
  obtain ⟨_, _, h⟩ := bind_ok _ _ _ h
  obtain ⟨_, _, h⟩ := bind_ok _ _ _ h
  obtain ⟨_, _, h⟩ := bind_ok _ _ _ h
  obtain ⟨_, _, h⟩ := bind_ok _ _ _ h
  have hp := validateBody_parses _ _ _ _ _ _ _ h
  cases hf : s.defs.find? (·.1 = b) with
  | none =>
    exfalso
    have : s.body b = {} := by unfold State.body; rw [hf]; rfl
    rw [this] at hp
    exact default_body_junk hp
  | some p =>
    refine ⟨p, rfl, ?_⟩
    rw [f4]; unfold State.body; rw [hf]; rfl

/-- for a manifest body (a content named `@…`) the Content-Length served afterwards is the length that was pushed -/
theorem contentLen_accepted (s : State) (r ref ct qd b : String) (lk : Bool) (a : Accepted)
    (hv : mValidate (s.setRepo (s.repo r)) r ref ct qd b lk = .ok a) (hb : b.startsWith "@" = true) :
    contentLen (mPut s r ref ct qd b lk).1 b = a.len := by
  obtain ⟨p, hf, hl⟩ := mValidate_defined _ r ref ct qd b lk a hv
  rw [setRepo_defs] at hf
  have hdefs : (mPut s r ref ct qd b lk).1.defs = s.defs := (frame_mPut s r ref ct qd b lk).2.2
  unfold contentLen
  rw [if_pos hb, hdefs, hf, hl]
end Upd.Rb
