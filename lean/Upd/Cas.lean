import Upd.Basic
/-! scratch: the content-addressing invariant (C01) for the upload pilot model -/
namespace Upd

def RepoCAS (rp : Repo) : Prop := ∀ p ∈ rp.blobs, p.1.content = p.2
def RepoUp (rp : Repo) : Prop := ∀ u ∈ rp.uploads, u.hashed = u.buf
def Inv (s : State) : Prop := ∀ rp ∈ s.repos, RepoCAS rp ∧ RepoUp rp

theorem write_hashed (u : Upload) (p : String) (h : u.hashed = u.buf) : (u.write p).hashed = (u.write p).buf := by
  simp [Upload.write, h]

theorem changeAlg_hashed (u : Upload) (a : Alg) (h : u.hashed = u.buf) : (u.changeAlg a).hashed = (u.changeAlg a).buf := by
  unfold Upload.changeAlg
  split
  · exact h
  · split
    · exact h
    · rename_i hlen
      have : u.buf = "" := by
        have : u.buf.length = 0 := by omega
        exact String.length_eq_zero_iff.mp this
      simp [this]

theorem verify_hashed (u : Upload) (d : Dig) (h : u.hashed = u.buf) : (u.verify d).1.hashed = (u.verify d).1.buf := by
  unfold Upload.verify
  split
  · exact h
  · split
    · exact h
    · split <;> simp [h]

theorem verify_ok_digest (u : Upload) (d : Dig) (hok : (u.verify d).2 = true) : (u.verify d).1.digest = d := by
  unfold Upload.verify at *
  by_cases h0 : u.expect.isSome = true ∧ u.expect ≠ some d
  · simp [h0] at hok
  · by_cases h1 : u.digest = d
    · simp [h0, h1]
    · by_cases h2 : u.alg = d.alg
      · simp [h0, h1, h2] at hok
      · simp only [h0, h1, h2, if_false, ne_eq, not_false_eq_true, if_true] at hok ⊢
        simpa using hok

/-- a session created for a digest only verifies against that digest (F11 repaired) -/
theorem verify_ok_expect (u : Upload) (d e : Dig) (he : u.expect = some e) (hok : (u.verify d).2 = true) : d = e := by
  unfold Upload.verify at hok
  by_cases h0 : u.expect.isSome = true ∧ u.expect ≠ some d
  · simp [h0] at hok
  · simp only [he, Option.isSome_some, ne_eq, Option.some.injEq, true_and, Decidable.not_not] at h0
    exact h0.symm

theorem putBlob_cas (rp : Repo) (d : Dig) (b : String) (h : RepoCAS rp) (hd : d.content = b) : RepoCAS (rp.putBlob d b) := by
  unfold Repo.putBlob
  split
  · intro p hp
    simp only [List.mem_map] at hp
    obtain ⟨x, hx, rfl⟩ := hp
    split
    · exact hd
    · exact h x hx
  · intro p hp
    simp only [List.mem_append, List.mem_singleton] at hp
    rcases hp with hp | rfl
    · exact h p hp
    · exact hd

theorem digest_content (u : Upload) (h : u.hashed = u.buf) : u.digest.content = u.buf := by
  simp [Upload.digest, H, h]

theorem dropUpload_up (rp : Repo) (k : Nat) (h : RepoUp rp) : RepoUp (rp.dropUpload k) := by
  intro u hu
  simp only [Repo.dropUpload, List.mem_filter] at hu
  exact h u hu.1

theorem setUpload_up (rp : Repo) (u : Upload) (h : RepoUp rp) (hu : u.hashed = u.buf) : RepoUp (rp.setUpload u) := by
  intro x hx
  simp only [Repo.setUpload, List.mem_map] at hx
  obtain ⟨y, hy, rfl⟩ := hx
  split
  · exact hu
  · exact h y hy

/-- committing a session whose digester saw exactly what was written keeps the repository content-addressed -/
theorem commit_repo (rp : Repo) (u : Upload) (hc : RepoCAS rp) (hu : RepoUp rp) (hh : u.hashed = u.buf) :
    RepoCAS ((rp.putBlob u.digest u.buf).dropUpload u.key) ∧ RepoUp ((rp.putBlob u.digest u.buf).dropUpload u.key) := by
  constructor
  · have := putBlob_cas rp u.digest u.buf hc (digest_content u hh)
    intro p hp
    exact this p (by simpa [Repo.dropUpload] using hp)
  · apply dropUpload_up
    intro x hx
    have : x ∈ rp.uploads := by
      unfold Repo.putBlob at hx
      split at hx <;> simpa using hx
    exact hu x this
end Upd

namespace Upd
def RepoOK (rp : Repo) : Prop := RepoCAS rp ∧ RepoUp rp

theorem setUpload_cas (rp : Repo) (u : Upload) (h : RepoCAS rp) : RepoCAS (rp.setUpload u) := fun p hp => h p hp
theorem dropUpload_cas (rp : Repo) (k : Nat) (h : RepoCAS rp) : RepoCAS (rp.dropUpload k) := fun p hp => h p hp

theorem repo_ok (s : State) (r : String) (h : Inv s) : RepoOK (s.repo r) := by
  unfold State.repo
  cases hf : s.repos.find? (fun x => x.name = r) with
  | none => simp [RepoOK, RepoCAS, RepoUp]
  | some rp => exact h rp (List.mem_of_find?_eq_some hf)

theorem setRepo_inv (s : State) (rp : Repo) (h : Inv s) (hr : RepoOK rp) : Inv (s.setRepo rp) := by
  unfold State.setRepo
  split
  · intro x hx
    simp only [List.mem_map] at hx
    obtain ⟨y, hy, rfl⟩ := hx
    split
    · exact hr
    · exact h y hy
  · intro x hx
    simp only [List.mem_append, List.mem_singleton] at hx
    rcases hx with hx | rfl
    · exact h x hx
    · exact hr

theorem names_inv (s : State) (k : Nat) (h : Inv s) : Inv (s.publicName k).1 := by
  unfold State.publicName
  split
  · exact h
  · exact h

theorem upload_mem (rp : Repo) (k : Nat) (u : Upload) (h : rp.upload k = some u) : u ∈ rp.uploads ∧ u.key = k := by
  unfold Repo.upload at h
  exact ⟨List.mem_of_find?_eq_some h, by simpa using List.find?_some h⟩

theorem closeUpload_inv (s : State) (r : String) (u : Upload) (h : Inv s) (hu : u.hashed = u.buf) :
    Inv (closeUpload s r u).1 := by
  unfold closeUpload
  have hr := repo_ok s r h
  split
  · split
    · exact h
    · exact setRepo_inv s _ h (commit_repo _ u hr.1 hr.2 hu)
  · exact setRepo_inv s _ h (commit_repo _ u hr.1 hr.2 hu)

theorem withSession_inv (s : State) (r : String) (pub : Nat) (k : State → Repo → Upload → State × Resp)
    (h : Inv s)
    (hk : ∀ s' rp u, Inv s' → rp = s'.repo r → u ∈ rp.uploads → Inv (k s' rp u).1) :
    Inv (withSession s r pub k).1 := by
  unfold withSession
  have h1 : Inv (s.setRepo (s.repo r)) := setRepo_inv s _ h (repo_ok s r h)
  simp only []
  split
  · exact h1
  · split
    · exact h1
    · rename_i key u hu
      exact hk _ _ u h1 rfl (upload_mem _ _ _ hu).1

theorem uPatch_inv (s : State) (r : String) (pub : Nat) (q : Q) (h : Inv s) : Inv (uPatch s r pub q).1 := by
  unfold uPatch
  apply withSession_inv s r pub _ h
  intro s' rp u hs hrp hu
  have hr := repo_ok s' r hs
  subst hrp
  simp only []
  split
  · exact hs
  · split
    · exact hs
    · apply setRepo_inv _ _ hs
      exact ⟨setUpload_cas _ _ hr.1, setUpload_up _ _ hr.2 (write_hashed u _ (hr.2 u hu))⟩

theorem uPut_inv (s : State) (r : String) (pub : Nat) (q : Q) (h : Inv s) : Inv (uPut s r pub q).1 := by
  unfold uPut
  apply withSession_inv s r pub _ h
  intro s' rp u hs hrp hu
  have hr := repo_ok s' r hs
  subst hrp
  have huh : u.hashed = u.buf := hr.2 u hu
  simp only []
  split
  · exact hs
  · split
    · exact hs
    · rename_i d _
      -- u0: possibly re-keyed to the algorithm of the declared digest
      generalize hu0 : (if u.buf.length = 0 ∧ d.alg ≠ u.digest.alg then u.changeAlg d.alg else u) = u0
      have hu0h : u0.hashed = u0.buf := by
        rw [← hu0]; split
        · exact changeAlg_hashed u _ huh
        · exact huh
      have hs0 : Inv (s'.setRepo ((s'.repo r).setUpload u0)) :=
        setRepo_inv _ _ hs ⟨setUpload_cas _ _ hr.1, setUpload_up _ _ hr.2 hu0h⟩
      split
      · exact hs0
      · have hw := write_hashed u0 q.body hu0h
        have hv := verify_hashed (u0.write q.body) d hw
        have hr0 := repo_ok _ r hs0
        split
        · apply setRepo_inv _ _ hs0
          exact ⟨dropUpload_cas _ _ hr0.1, dropUpload_up _ _ hr0.2⟩
        · have hs1 : Inv ((s'.setRepo ((s'.repo r).setUpload u0)).setRepo
              (((s'.setRepo ((s'.repo r).setUpload u0)).repo r).setUpload ((u0.write q.body).verify d).1)) :=
            setRepo_inv _ _ hs0 ⟨setUpload_cas _ _ hr0.1, setUpload_up _ _ hr0.2 hv⟩
          have := closeUpload_inv _ r ((u0.write q.body).verify d).1 hs1 hv
          split <;> exact this
end Upd
