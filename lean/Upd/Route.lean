/-! Repository-name grammar of `olareg.go` (`pathPart`, `rePath`) and the reserved names of the directory store
    (`dir.RepoGet`), as recognisers on strings.  The regular-expression sources the recognisers were written for
    are recorded here; the correspondence run compares them with the real `regexp`. -/
namespace Upd

/-- source of `pathPart` in olareg.go this recogniser was written for -/
def pathPartSrc : String := "[a-z0-9]+(?:(?:\\.|_|__|-+)[a-z0-9]+)*"

def isAlnumLower (c : Char) : Bool := ('a' ≤ c ∧ c ≤ 'z') ∨ ('0' ≤ c ∧ c ≤ '9')

/-- state machine for one path component: `alnum+ ((. | _ | __ | -+) alnum+)*`
    st = 0 start, 1 in alnum run, 2 after '.', 3 after one '_', 4 after "__", 5 in '-' run -/
def partStep (st : Nat) (c : Char) : Option Nat :=
  if isAlnumLower c then some 1
  else match st, c with
    | 1, '.' => some 2
    | 1, '_' => some 3
    | 3, '_' => some 4
    | 1, '-' => some 5
    | 5, '-' => some 5
    | _, _ => none

def partRun : Nat → List Char → Option Nat
  | st, [] => some st
  | st, c :: cs => match partStep st c with
    | some st' => partRun st' cs
    | none => none

def validPartL (p : List Char) : Bool := partRun 0 p = some 1

/-- split at '/' -/
def splitSlash : List Char → List (List Char)
  | [] => [[]]
  | c :: cs =>
    if c = '/' then [] :: splitSlash cs
    else match splitSlash cs with
      | [] => [[c]]
      | p :: ps => (c :: p) :: ps

/-- `rePath.MatchString` on the characters of the name -/
def validRepoL (r : List Char) : Bool := (splitSlash r).all validPartL

def reservedL (r : List Char) : Bool :=
  (splitSlash r).any fun p => p = ['i','n','d','e','x','.','j','s','o','n'] ∨ p = ['o','c','i','-','l','a','y','o','u','t'] ∨ p = ['b','l','o','b','s']

/-- `rePath.MatchString` -/
def validRepo (r : String) : Bool := validRepoL r.toList

/-- `stringsHasAny(strings.Split(repoStr, "/"), indexFile, layoutFile, blobsDir)` -/
def reservedRepo (r : String) : Bool := reservedL r.toList

example : validRepoL ['r','1','/','s','u','b'] = true ∧ validRepoL ['a','_','_','b','-','c','.','d'] = true ∧
    validRepoL ['a','/','/','b'] = false ∧ validRepoL ['.','.','/','x'] = false ∧ validRepoL ['A'] = false ∧
    validRepoL ['a','_','-','b'] = false ∧ validRepoL [] = false ∧ validRepoL ['a','/'] = false := by decide
example : reservedL ['a','/','b','l','o','b','s'] = true ∧ reservedL ['b','l','o','b','s','2'] = false := by decide

/-- a valid name has no empty, "." or ".." component: what path confinement (C16) rests on -/
theorem validPartL_ne (p : List Char) (h : validPartL p = true) : p ≠ [] ∧ p ≠ ['.'] ∧ p ≠ ['.', '.'] := by
  refine ⟨?_, ?_, ?_⟩ <;> intro hp <;> subst hp <;> revert h <;> decide
end Upd
