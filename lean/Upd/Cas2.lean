import Upd.Cas
/-! scratch: the C01 invariant for the remaining blob / upload handlers, and the serving side -/
namespace Upd

theorem create_inv (s : State) (r : String) (alg : Alg) (expect : Option Dig) (h : Inv s) :
    Inv (create s r alg expect).1 ∧ (∀ u, (create s r alg expect).2 = CreateRes.session u → u.hashed = u.buf) := by
  have hr := repo_ok s r h
  have newRepo : ∀ (u : Upload), u.hashed = u.buf → RepoOK { s.repo r with uploads := (s.repo r).uploads ++ [u] } := by
    intro u hu
    refine ⟨fun p hp => hr.1 p hp, ?_⟩
    intro x hx
    simp only [List.mem_append, List.mem_singleton] at hx
    rcases hx with hx | rfl
    · exact hr.2 x hx
    · exact hu
  unfold create
  simp only []
  cases expect with
  | none =>
    simp only []
    exact ⟨setRepo_inv _ _ h (newRepo _ rfl), by intro u hu; cases hu; rfl⟩
  | some d =>
    simp only []
    split
    · exact ⟨setRepo_inv _ _ h hr, by intro u hu; cases hu⟩
    · exact ⟨setRepo_inv _ _ h (newRepo _ rfl), by intro u hu; cases hu; rfl⟩

/-- dropping or replacing a session keeps a repository well-formed -/
theorem drop_ok (rp : Repo) (k : Nat) (h : RepoOK rp) : RepoOK (rp.dropUpload k) :=
  ⟨dropUpload_cas _ _ h.1, dropUpload_up _ _ h.2⟩
theorem set_ok (rp : Repo) (u : Upload) (h : RepoOK rp) (hu : u.hashed = u.buf) : RepoOK (rp.setUpload u) :=
  ⟨setUpload_cas _ _ h.1, setUpload_up _ _ h.2 hu⟩

theorem mount_inv (s : State) (src tgt dstr : String) (h : Inv s) : Inv (mount s src tgt dstr).1 := by
  unfold mount
  split
  · exact h
  · rename_i d _
    obtain ⟨h1, hu⟩ := create_inv s tgt d.alg (some d) h
    cases hc : (create s tgt d.alg (some d)).2 with
    | exists_ => simp only [hc]; exact h1
    | session u =>
      simp only [hc]
      have huh := hu u hc
      have h2 : Inv ((create s tgt d.alg (some d)).1.setRepo ((create s tgt d.alg (some d)).1.repo src)) :=
        setRepo_inv _ _ h1 (repo_ok _ src h1)
      split
      · exact setRepo_inv _ _ h2 (drop_ok _ _ (repo_ok _ tgt h2))
      · rename_i bytes _
        have hw := write_hashed u bytes huh
        have h3 := setRepo_inv _ _ h2 (set_ok _ (u.write bytes) (repo_ok _ tgt h2) hw)
        have h4 := closeUpload_inv _ tgt (u.write bytes) h3 hw
        split <;> exact h4

theorem uPost_inv (s : State) (r : String) (q : Q) (h : Inv s) : Inv (uPost s r q).1 := by
  unfold uPost
  simp only []
  -- the optional mount attempt
  have hm : Inv (if q.mount ≠ "" ∧ q.fromR ≠ "" ∧ validRepo q.fromR then mount s q.fromR r q.mount else (s, none)).1 := by
    split
    · exact mount_inv s q.fromR r q.mount h
    · exact h
  generalize (if q.mount ≠ "" ∧ q.fromR ≠ "" ∧ validRepo q.fromR then mount s q.fromR r q.mount else (s, none)) = m at hm
  obtain ⟨s1, handled⟩ := m
  simp only [] at hm ⊢
  cases handled with
  | some resp => exact hm
  | none =>
    simp only []
    split
    · exact hm
    · split
      · exact hm
      · generalize hcr : create s1 r _ _ = cr
        have hci : Inv cr.1 ∧ ∀ u, cr.2 = CreateRes.session u → u.hashed = u.buf := by
          rw [← hcr]; exact create_inv _ _ _ _ hm
        obtain ⟨h1, hu⟩ := hci
        obtain ⟨s2, res⟩ := cr
        simp only [] at h1 hu ⊢
        cases res with
        | exists_ => cases ‹Option Dig› <;> exact h1
        | session u =>
          have huh := hu u rfl
          cases ‹Option Dig› with
          | none =>
            simp only []
            split
            · exact h1
            · exact names_inv _ _ h1
          | some d =>
            simp only []
            split
            · have hw := write_hashed u q.body huh
              have hv := verify_hashed (u.write q.body) d hw
              split
              · exact setRepo_inv _ _ h1 (drop_ok _ _ (repo_ok _ r h1))
              · have h3 := setRepo_inv _ _ h1 (set_ok _ ((u.write q.body).verify d).1 (repo_ok _ r h1) hv)
                have h4 := closeUpload_inv _ r ((u.write q.body).verify d).1 h3 hv
                split <;> exact h4
            · exact names_inv _ _ h1

theorem uDel_inv (s : State) (r : String) (pub : Nat) (h : Inv s) : Inv (uDel s r pub).1 := by
  unfold uDel
  apply withSession_inv s r pub _ h
  intro s' rp u hs hrp _
  subst hrp
  exact setRepo_inv _ _ hs (drop_ok _ _ (repo_ok _ r hs))

theorem uGet_inv (s : State) (r : String) (pub : Nat) (h : Inv s) : Inv (uGet s r pub).1 := by
  unfold uGet
  apply withSession_inv s r pub _ h
  intro s' rp u hs _ _
  exact hs

theorem bDel_inv (s : State) (r arg : String) (h : Inv s) : Inv (bDel s r arg).1 := by
  unfold bDel
  split
  · exact h
  · have h1 := setRepo_inv s _ h (repo_ok s r h)
    simp only []
    split
    · exact h1
    · apply setRepo_inv _ _ h1
      have hr := repo_ok _ r h1
      exact ⟨fun p hp => hr.1 p (List.mem_filter.mp hp).1, hr.2⟩

theorem bGet_inv (s : State) (r arg : String) (head : Bool) (rng : String) (h : Inv s) : Inv (bGet s r arg head rng).1 := by
  unfold bGet
  split
  · exact h
  · have h1 := setRepo_inv s _ h (repo_ok s r h)
    simp only []
    split <;> exact h1

theorem serve_full (s : State) (c dcd ct : String) :
    (serve s c "" false dcd ct).status = 200 ∧ (serve s c "" false dcd ct).dcd = dcd ∧
    (serve s c "" false dcd ct).body = "=" ++ cname c := by
  simp [serve, parseRange]

/-- the serving side of C01: a 200 answer to a blob GET carries bytes that hash to the digest in its header -/
theorem bGet_served (s : State) (r arg : String) (h : Inv s) (d : Dig) (bytes : String)
    (hd : DigArg.parse arg = .ok d)
    (hb : ((s.setRepo (s.repo r)).repo r).blob d = some bytes) :
    (bGet s r arg false).2.status = 200 ∧ (bGet s r arg false).2.dcd = d.str ∧
    (bGet s r arg false).2.body = "=" ++ cname bytes ∧ d = H d.alg bytes := by
  have h1 := setRepo_inv s _ h (repo_ok s r h)
  have hr := repo_ok _ r h1
  have hcas : d.content = bytes := by
    unfold Repo.blob at hb
    cases hf : ((s.setRepo (s.repo r)).repo r).blobs.find? (fun x => x.1 = d) with
    | none => simp [hf] at hb
    | some p =>
      simp [hf] at hb
      have hp := List.mem_of_find?_eq_some hf
      have hk := List.find?_some hf
      simp at hk
      have := hr.1 p hp
      rw [hk, hb] at this
      exact this
  have hs := serve_full (s.setRepo (s.repo r)) bytes d.str "octet"
  unfold bGet
  simp only [hd, hb]
  refine ⟨hs.1, hs.2.1, hs.2.2, ?_⟩
  cases d; simp_all [H]
end Upd
