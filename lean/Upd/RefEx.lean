import Upd.RefNames
/-! Concrete instances of the two facts about `String` functions that the general theorems take as hypotheses
    (used only by the non-vacuity examples in `Properties/C07b.lean`): the loops of `String.splitOn` are unrolled by
    rewriting, no kernel computation on well-founded recursion is needed. -/
namespace Upd.Rf

/-- a small referrer descriptor -/
def dG : Desc := { dig := "g" }

theorem respName_nil : respName [] = "R()" := by
  simp [respName]

theorem respName_g : respName [dG] = "R(g//0//)" := by
  simp [respName, dG]
  decide

theorem respName_g_ne_nil : respName [dG] ≠ respName [] := by
  rw [respName_g, respName_nil]; decide

theorem str_nil : (respDig []).str = "sha256:R()" := by
  unfold respDig Dig.str
  rw [respName_nil]
  simp [Alg.name]

theorem str_g : (respDig [dG]).str = "sha256:R(g//0//)" := by
  unfold respDig Dig.str
  rw [respName_g]
  simp [Alg.name]

set_option maxRecDepth 8000 in
theorem split_nil : ("sha256:R()").splitOn ":" = ["sha256", "R()"] := by
  simp [String.splitOn]
  repeat (rw [String.splitOnAux]; simp (config := {decide := true}))

set_option maxRecDepth 8000 in
theorem split_g : ("sha256:R(g//0//)").splitOn ":" = ["sha256", "R(g//0//)"] := by
  simp [String.splitOn]
  repeat (rw [String.splitOnAux]; simp (config := {decide := true}))

theorem expand_nil : expand "R()" = "R()" := by
  unfold expand
  simp (config := {decide := true})

theorem expand_g : expand "R(g//0//)" = "R(g//0//)" := by
  unfold expand
  simp (config := {decide := true})

/-- the digest of the empty response document parses back -/
theorem digRT_nil : DigRT (respDig []) := by
  unfold DigRT
  rw [str_nil]
  unfold DigArg.parse
  rw [split_nil]
  simp [Alg.parse?, expand_nil]
  unfold respDig
  rw [respName_nil]

/-- the digest of the response document listing `dG` parses back -/
theorem digRT_g : DigRT (respDig [dG]) := by
  unfold DigRT
  rw [str_g]
  unfold DigArg.parse
  rw [split_g]
  simp [Alg.parse?, expand_g]
  unfold respDig
  rw [respName_g]

/-- the hypotheses about content names are satisfiable (trivially: for the class of no descriptors) -/
theorem names_empty : Names (fun _ => False) := by
  refine ⟨?_, ?_⟩
  · intro ds ds' h1 h2 _
    cases ds with
    | cons x _ => exact absurd (h1 x List.mem_cons_self) id
    | nil => cases ds' with
      | cons y _ => exact absurd (h2 y List.mem_cons_self) id
      | nil => rfl
  · intro ds h
    cases ds with
    | cons x _ => exact absurd (h x List.mem_cons_self) id
    | nil => exact digRT_nil

/-! concrete runs -/

/-- the first referrer of a subject in an empty registry: the response lists exactly it -/
theorem example_add : ∃ e, currentResp (referrerAdd {} "r" "s" dG) "r" "s" = some (e, [dG]) := by
  obtain ⟨e, ds, h1, h2, _⟩ := referrerAdd_lists {} "r" "s" dG (by decide) (by intro p hp; simp [State.repo] at hp)
    (by intro ds' h; simp [State.resp] at h) (by rw [respList_init]; simpa [addTo] using digRT_g)
  rw [respList_init] at h2
  simp at h2
  subst h2
  exact ⟨e, h1⟩

/-- add a referrer, delete it again: the subject keeps a response, and it is empty -/
theorem example_add_delete :
    ∃ e, currentResp (referrerDelete (referrerAdd {} "r" "s" dG) "r" "s" dG) "r" "s" = some (e, []) := by
  obtain ⟨e0, he0⟩ := example_add
  have hinv : Inv (referrerAdd {} "r" "s" dG) := referrerAdd_inv _ _ _ _ (by intro rp hrp; simp at hrp)
  have hrm : rmFrom [dG] dG.dig = [] := by
    have := rmFrom_perm [dG] dG.dig (by decide)
    simpa using this
  have hresps : (referrerAdd {} "r" "s" dG).resp (respName []) = none := by
    rw [referrerAdd_eq, respList_init]
    unfold State.resp
    rw [storeResp_resps]
    simp [addTo, respName_g_ne_nil]
  obtain ⟨e, ds, h1, h2⟩ := referrerDelete_lists (referrerAdd {} "r" "s" dG) "r" "s" dG (by decide)
    (repo_ok _ "r" hinv).1 e0 [dG] he0 (by decide)
    (by rw [hrm]; intro ds' h; rw [hresps] at h; cases h) (by rw [hrm]; exact digRT_nil)
  have : ds = [] := by simpa using h2
  subst this
  exact ⟨e, h1⟩

theorem s1_manifests : ((referrerAdd {} "r" "s" dG).repo "r").index.manifests = [respDesc "s" [dG]] := by
  rw [referrerAdd_eq, respList_init, storeResp_index]
  have h0 : (({} : State).repo "r").index = {} := by simp [State.repo]
  rw [h0]
  simp [addTo, addDesc, addUntagLoop, moveChildren, findIdx, placeDesc, respDesc]

/-- register a response, then try to delete the response document by its digest through the manifest API: refused
    with 404, and the response is still read -/
theorem example_delete_response :
    (mDel (referrerAdd {} "r" "s" dG) "r" "sha256:R(g//0//)").2.status = 404 ∧
    ∃ e, currentResp (mDel (referrerAdd {} "r" "s" dG) "r" "sha256:R(g//0//)").1 "r" "s" = some (e, [dG]) := by
  have hm := s1_manifests
  have hp : DigArg.parse "sha256:R(g//0//)" = .ok (respDig [dG]) := by
    have := digRT_g; unfold DigRT at this; rwa [str_g] at this
  have htag : isTag "sha256:R(g//0//)" = false := by decide
  have hg : getDesc ((referrerAdd {} "r" "s" dG).repo "r").index "sha256:R(g//0//)" =
      some { mt := "ocii", dig := (respDesc "s" [dG]).dig, size := respSize [dG] } := by
    unfold getDesc
    rw [if_neg (by rw [hm]; simp), if_neg (by simp [htag]), hp]
    simp only []
    unfold getDescDig
    rw [if_neg (by rw [hm]; simp), hm]
    simp [str_g, respDesc]
  have hsub : Sub (respDesc "s" [dG]) := ⟨rfl, by show ("s" : String) ≠ ""; decide⟩
  have hnt : ¬ Twinned ((referrerAdd {} "r" "s" dG).repo "r").index (respDesc "s" [dG]).dig := by
    rintro ⟨e1, _, e2, h2, _, hns, _, _⟩
    rw [hm] at h2
    simp only [List.mem_singleton] at h2
    rw [h2] at hns
    exact hns hsub
  have h := mDel_response_refused (referrerAdd {} "r" "s" dG) "r" "sha256:R(g//0//)" _ (respDesc "s" [dG]) htag hg
    (by rw [hm]; simp) hsub rfl hnt
  rw [h]
  refine ⟨rfl, ?_⟩
  obtain ⟨e, he⟩ := example_add
  refine ⟨e, ?_⟩
  unfold currentResp at he ⊢
  rw [repo_touch]
  have hr : ∀ c, ((referrerAdd {} "r" "s" dG).setRepo ((referrerAdd {} "r" "s" dG).repo "r")).resp c
      = (referrerAdd {} "r" "s" dG).resp c := by
    intro c; unfold State.resp; rw [resps_setRepo]
  simpa [hr] using he

/-- a small history: a body definition, a tag listing, a blob delete and a manifest delete in another repository -/
def hist0 : List Ev := [Ev.defBody "@m" {}, .req (.tags "r" "" ""), .req (.bDel "q" "x"), .req (.mDel "q" "t")]

theorem hist0_adm : AdmHist (fun _ => False) "r" { conf := {} } hist0 := by
  refine And.intro (fun _ _ => subjOf_default) (And.intro trivial (And.intro ?_ (And.intro ?_ trivial)))
  · show "q" ≠ "r"; decide
  · intro h; exact absurd h (by decide)
end Upd.Rf
