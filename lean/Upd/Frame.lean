import Upd.Server
/-! Frame lemmas: which repository entries a handler can change (C16, C04, C14). -/
namespace Upd

theorem find_name (l : List Repo) (r : String) (rp : Repo) (h : l.find? (fun x => x.name = r) = some rp) : rp.name = r := by
  simpa using List.find?_some h

theorem repo_name (s : State) (r : String) : (s.repo r).name = r := by
  unfold State.repo
  cases hf : s.repos.find? (fun x => x.name = r) with
  | none => rfl
  | some rp => simpa using find_name _ _ _ hf

theorem find_map_other (l : List Repo) (rp : Repo) (r' : String) (hne : r' ≠ rp.name) :
    (l.map fun x => if x.name = rp.name then rp else x).find? (fun x => x.name = r') = l.find? (fun x => x.name = r') := by
  induction l with
  | nil => rfl
  | cons x xs ih =>
    simp only [List.map_cons, List.find?_cons]
    by_cases hx : x.name = rp.name
    · have h1 : ¬ rp.name = r' := fun h => hne h.symm
      have h2 : ¬ x.name = r' := by rw [hx]; exact h1
      simp [hx, h1, ih]
    · simp only [hx, if_false]
      by_cases hx' : x.name = r'
      · simp [hx']
      · simp [hx', ih]

/-- writing the entry of one repository does not change what any other name resolves to -/
theorem repo_setRepo_other (s : State) (rp : Repo) (r' : String) (hne : r' ≠ rp.name) :
    (s.setRepo rp).repo r' = s.repo r' := by
  unfold State.setRepo State.repo
  split
  · simp only [find_map_other _ _ _ hne]
  · have : ¬ rp.name = r' := fun h => hne h.symm
    simp [List.find?_append, this]

theorem find_map_same (l : List Repo) (rp : Repo) (h : l.any (fun x => x.name = rp.name) = true) :
    (l.map fun x => if x.name = rp.name then rp else x).find? (fun x => x.name = rp.name) = some rp := by
  induction l with
  | nil => simp at h
  | cons x xs ih =>
    simp only [List.map_cons, List.find?_cons]
    by_cases hx : x.name = rp.name
    · simp [hx]
    · simp only [hx, if_false, decide_false]
      apply ih
      simpa [hx] using h

/-- … and the written entry is what its own name resolves to -/
theorem repo_setRepo_same (s : State) (rp : Repo) : (s.setRepo rp).repo rp.name = rp := by
  unfold State.setRepo State.repo
  split
  · rename_i h
    rw [find_map_same _ _ h]; rfl
  · rename_i h
    have hnone : s.repos.find? (fun x => x.name = rp.name) = none := by
      apply List.find?_eq_none.mpr
      intro x hx hxe
      apply h
      exact List.any_eq_true.mpr ⟨x, hx, hxe⟩
    simp [List.find?_append, hnone]

/-- touching a repository (`RepoGet` creates the entry) is not observable -/
theorem repo_touch (s : State) (r r' : String) : (s.setRepo (s.repo r)).repo r' = s.repo r' := by
  by_cases h : r' = r
  · subst h
    have := repo_setRepo_same s (s.repo r')
    rwa [repo_name] at this
  · exact repo_setRepo_other s _ r' (by rw [repo_name]; exact h)

/-- `Frame r s s'`: every repository other than `r` resolves as before, the configuration and the body and
    response definitions are untouched -/
def Frame (r : String) (s s' : State) : Prop :=
  (∀ r', r' ≠ r → s'.repo r' = s.repo r') ∧ s'.conf = s.conf ∧ s'.defs = s.defs

theorem Frame.refl (r : String) (s : State) : Frame r s s := ⟨fun _ _ => rfl, rfl, rfl⟩
theorem Frame.trans {r : String} {s1 s2 s3 : State} (h1 : Frame r s1 s2) (h2 : Frame r s2 s3) : Frame r s1 s3 :=
  ⟨fun r' hr => (h2.1 r' hr).trans (h1.1 r' hr), h2.2.1.trans h1.2.1, h2.2.2.trans h1.2.2⟩

theorem frame_setRepo (s : State) (rp : Repo) : Frame rp.name s (s.setRepo rp) :=
  ⟨fun r' hr => repo_setRepo_other s rp r' hr, by unfold State.setRepo; split <;> rfl, by unfold State.setRepo; split <;> rfl⟩

theorem frame_setRepo' (s : State) (r : String) (rp : Repo) (h : rp.name = r) : Frame r s (s.setRepo rp) := by
  subst h; exact frame_setRepo s rp
end Upd

namespace Upd
/-! primitives -/
theorem names_repo (s : State) (k : Nat) (r' : String) : (s.publicName k).1.repo r' = s.repo r' := by
  unfold State.publicName; split <;> rfl

theorem frame_names (r : String) (s : State) (k : Nat) : Frame r s (s.publicName k).1 :=
  ⟨fun r' _ => names_repo s k r', by unfold State.publicName; split <;> rfl, by unfold State.publicName; split <;> rfl⟩

theorem frame_fields (r : String) (s : State) (nk : Nat) (rs : List (String × List Desc))
    (rc : List ((String × String × String × String) × List (List Desc))) :
    Frame r s { s with nextKey := nk, resps := rs, rcache := rc } := ⟨fun _ _ => rfl, rfl, rfl⟩

theorem frame_create (s : State) (r : String) (alg : Alg) (e : Option Dig) : Frame r s (create s r alg e).1 := by
  unfold create
  have hn : ∀ (u : List Upload), ({ s.repo r with uploads := u } : Repo).name = r := fun _ => repo_name s r
  cases e with
  | none =>
    simp only []
    exact Frame.trans (frame_fields r s (s.nextKey + 1) s.resps s.rcache) (frame_setRepo' _ r _ (hn _))
  | some d =>
    simp only []
    split
    · exact frame_setRepo' _ r _ (repo_name s r)
    · exact Frame.trans (frame_fields r s (s.nextKey + 1) s.resps s.rcache) (frame_setRepo' _ r _ (hn _))

theorem putBlob_name (rp : Repo) (d : Dig) (b : String) : (rp.putBlob d b).name = rp.name := by
  unfold Repo.putBlob; split <;> rfl

theorem frame_close (s : State) (r : String) (u : Upload) : Frame r s (closeUpload s r u).1 := by
  have hn : (((s.repo r).putBlob u.digest u.buf).dropUpload u.key).name = r := by
    simp [Repo.dropUpload, putBlob_name, repo_name]
  unfold closeUpload
  cases u.expect with
  | none => exact frame_setRepo' _ r _ hn
  | some e =>
    simp only []
    split
    · exact Frame.refl r s
    · exact frame_setRepo' _ r _ hn

theorem frame_putContent (s : State) (r : String) (d : Dig) (c : String) : Frame r s (putContent s r d c) := by
  unfold putContent
  simp only []
  split
  · exact frame_setRepo' _ r _ (repo_name s r)
  · exact frame_setRepo' _ r _ (by rw [putBlob_name, repo_name])

theorem frame_indexInsert (s : State) (r : String) (d : Desc) (cs : List Desc) : Frame r s (indexInsert s r d cs) := by
  unfold indexInsert; exact frame_setRepo' _ r _ (repo_name s r)
theorem frame_indexRemove (s : State) (r : String) (d : Desc) : Frame r s (indexRemove s r d) := by
  unfold indexRemove; exact frame_setRepo' _ r _ (repo_name s r)

theorem frame_storeResp (s : State) (r subj : String) (ds : List Desc) : Frame r s (storeResp s r subj ds) := by
  unfold storeResp
  simp only []
  exact Frame.trans (Frame.trans (frame_fields r s s.nextKey _ s.rcache) (frame_putContent _ r _ _)) (frame_indexInsert _ r _ _)

theorem frame_referrerAdd (s : State) (r subj : String) (d : Desc) : Frame r s (referrerAdd s r subj d) := by
  unfold referrerAdd; exact frame_storeResp _ _ _ _
theorem frame_referrerDelete (s : State) (r subj : String) (d : Desc) : Frame r s (referrerDelete s r subj d) := by
  unfold referrerDelete; split
  · exact Frame.refl r s
  · exact frame_storeResp _ _ _ _

theorem frame_mCommit (s : State) (r b : String) (a : Accepted) : Frame r s (mCommit s r b a).1 := by
  unfold mCommit
  simp only []
  have h12 := Frame.trans (frame_putContent s r a.d b) (frame_indexInsert _ r
    { mt := a.mt, dig := a.d.str, size := a.len, ann := if a.tag = "" then {} else { isNil := false, tag := a.tag } } a.children)
  split
  · exact Frame.trans h12 (frame_referrerAdd _ r _ _)
  · exact h12

theorem frame_touch (s : State) (r : String) : Frame r s (s.setRepo (s.repo r)) := frame_setRepo' _ r _ (repo_name s r)

/-! manifest, tag and referrers handlers only write the addressed repository -/
theorem frame_mPut (s : State) (r ref ct qd b : String) (lk : Bool) : Frame r s (mPut s r ref ct qd b lk).1 := by
  unfold mPut
  simp only []
  cases mValidate (s.setRepo (s.repo r)) r ref ct qd b lk with
  | error e => exact frame_touch s r
  | ok a => exact Frame.trans (frame_touch s r) (frame_mCommit _ r b a)

theorem frame_mDel (s : State) (r arg : String) : Frame r s (mDel s r arg).1 := by
  unfold mDel
  simp only []
  split
  · exact frame_touch s r
  · split
    · exact frame_touch s r
    · refine Frame.trans (Frame.trans (frame_touch s r) ?_) (frame_indexRemove _ r _)
      repeat' split
      all_goals first
        | exact Frame.refl r _
        | exact frame_referrerDelete _ r _ _

theorem frame_mGet (s : State) (r arg : String) (acc : List String) (hd : Bool) (rng : String) : Frame r s (mGet s r arg acc hd rng).1 := by
  unfold mGet
  simp only []
  repeat' split
  all_goals exact frame_touch s r

theorem frame_tags (s : State) (r n last : String) : Frame r s (tags s r n last).1 := by
  unfold tags
  simp only []
  repeat' split
  all_goals exact frame_touch s r

theorem frame_refs (s : State) (r arg f c p : String) : Frame r s (refs s r arg f c p).1 := by
  unfold refs
  simp only []
  split
  · exact frame_touch s r
  · unfold refsMain
    simp only []
    repeat' split
    all_goals first
      | exact frame_touch s r
      | exact Frame.trans (frame_touch s r) (frame_fields r _ _ _ _)

theorem frame_bGet (s : State) (r arg : String) (hd : Bool) (rng : String) : Frame r s (bGet s r arg hd rng).1 := by
  unfold bGet
  split
  · exact Frame.refl r s
  · simp only []
    split <;> exact frame_touch s r

theorem frame_bDel (s : State) (r arg : String) : Frame r s (bDel s r arg).1 := by
  unfold bDel
  split
  · exact Frame.refl r s
  · simp only []
    split
    · exact frame_touch s r
    · exact Frame.trans (frame_touch s r) (frame_setRepo' _ r _ (repo_name _ r))
end Upd

namespace Upd
/-- opening another repository (the mount source) changes nothing anywhere -/
theorem frame_touch_any (r src : String) (s : State) : Frame r s (s.setRepo (s.repo src)) :=
  ⟨fun r' _ => repo_touch s src r', by unfold State.setRepo; split <;> rfl, by unfold State.setRepo; split <;> rfl⟩

theorem setUpload_name (rp : Repo) (u : Upload) : (rp.setUpload u).name = rp.name := rfl
theorem dropUpload_name (rp : Repo) (k : Nat) : (rp.dropUpload k).name = rp.name := rfl

theorem frame_mount (s : State) (src tgt dstr : String) : Frame tgt s (mount s src tgt dstr).1 := by
  unfold mount
  split
  · exact Frame.refl tgt s
  · rename_i d _
    have h1 := frame_create s tgt d.alg (some d)
    cases hc : (create s tgt d.alg (some d)).2 with
    | exists_ => simp only [hc]; exact h1
    | session u =>
      simp only [hc]
      have h2 := Frame.trans h1 (frame_touch_any tgt src _)
      split
      · exact Frame.trans h2 (frame_setRepo' _ tgt _ (by rw [dropUpload_name, repo_name]))
      · rename_i bytes _
        have h3 := Frame.trans h2 (frame_setRepo' _ tgt ((((create s tgt d.alg (some d)).1.setRepo ((create s tgt d.alg (some d)).1.repo src)).repo tgt).setUpload (u.write bytes))
          (by rw [setUpload_name, repo_name]))
        have h4 := Frame.trans h3 (frame_close _ tgt (u.write bytes))
        split <;> exact h4

theorem frame_withSession (s : State) (r : String) (pub : Nat) (k : State → Repo → Upload → State × Resp)
    (hk : ∀ s' rp u, rp = s'.repo r → Frame r s' (k s' rp u).1) : Frame r s (withSession s r pub k).1 := by
  unfold withSession
  simp only []
  split
  · exact frame_touch s r
  · split
    · exact frame_touch s r
    · exact Frame.trans (frame_touch s r) (hk _ _ _ rfl)

theorem frame_uPatch (s : State) (r : String) (pub : Nat) (q : Q) : Frame r s (uPatch s r pub q).1 := by
  unfold uPatch
  apply frame_withSession
  intro s' rp u hrp
  simp only []
  split
  · exact Frame.refl r s'
  · split
    · exact Frame.refl r s'
    · exact frame_setRepo' _ r _ (by rw [setUpload_name, hrp, repo_name])

theorem frame_uGet (s : State) (r : String) (pub : Nat) : Frame r s (uGet s r pub).1 := by
  unfold uGet
  apply frame_withSession
  intro s' rp u _
  exact Frame.refl r s'

theorem frame_uDel (s : State) (r : String) (pub : Nat) : Frame r s (uDel s r pub).1 := by
  unfold uDel
  apply frame_withSession
  intro s' rp u hrp
  exact frame_setRepo' _ r _ (by rw [dropUpload_name, hrp, repo_name])

theorem frame_uPut (s : State) (r : String) (pub : Nat) (q : Q) : Frame r s (uPut s r pub q).1 := by
  unfold uPut
  apply frame_withSession
  intro s' rp u hrp
  simp only []
  split
  · exact Frame.refl r s'
  · split
    · exact Frame.refl r s'
    · rename_i d _
      generalize (if u.buf.length = 0 ∧ d.alg ≠ u.digest.alg then u.changeAlg d.alg else u) = u0
      have h0 : Frame r s' (s'.setRepo (rp.setUpload u0)) :=
        frame_setRepo' _ r _ (by rw [setUpload_name, hrp, repo_name])
      split
      · exact h0
      · split
        · exact Frame.trans h0 (frame_setRepo' _ r _ (by rw [dropUpload_name, repo_name]))
        · have h1 := Frame.trans h0 (frame_setRepo' _ r (((s'.setRepo (rp.setUpload u0)).repo r).setUpload ((u0.write q.body).verify d).1)
            (by rw [setUpload_name, repo_name]))
          have h2 := Frame.trans h1 (frame_close _ r ((u0.write q.body).verify d).1)
          split <;> exact h2
end Upd

namespace Upd
theorem frame_uPost (s : State) (r : String) (q : Q) : Frame r s (uPost s r q).1 := by
  unfold uPost
  simp only []
  have hm : Frame r s (if q.mount ≠ "" ∧ q.fromR ≠ "" ∧ validRepo q.fromR then mount s q.fromR r q.mount else (s, none)).1 := by
    split
    · exact frame_mount s q.fromR r q.mount
    · exact Frame.refl r s
  generalize (if q.mount ≠ "" ∧ q.fromR ≠ "" ∧ validRepo q.fromR then mount s q.fromR r q.mount else (s, none)) = m at hm
  obtain ⟨s1, handled⟩ := m
  simp only [] at hm ⊢
  cases handled with
  | some resp => exact hm
  | none =>
    simp only []
    split
    · exact hm
    · split
      · exact hm
      · generalize hcr : create s1 r _ _ = cr
        have hc : Frame r s1 cr.1 := by rw [← hcr]; exact frame_create _ _ _ _
        obtain ⟨s2, res⟩ := cr
        simp only [] at hc ⊢
        have h2 := Frame.trans hm hc
        cases res with
        | exists_ => cases ‹Option Dig› <;> exact h2
        | session u =>
          cases ‹Option Dig› with
          | none =>
            simp only []
            split
            · exact h2
            · exact Frame.trans h2 (frame_names r _ _)
          | some d =>
            simp only []
            split
            · split
              · exact Frame.trans h2 (frame_setRepo' _ r _ (by rw [dropUpload_name, repo_name]))
              · have h3 := Frame.trans h2 (frame_setRepo' _ r ((s2.repo r).setUpload ((u.write q.body).verify d).1) (by rw [setUpload_name, repo_name]))
                have h4 := Frame.trans h3 (frame_close _ r ((u.write q.body).verify d).1)
                split <;> exact h4
            · exact Frame.trans h2 (frame_names r _ _)

/-- the repository a request addresses -/
def Req.target : Req → String
  | .uPost r _ | .uPatch r _ _ | .uPut r _ _ | .uGet r _ | .uDel r _ | .bGet r _ _ _ | .bDel r _
  | .mPut r _ _ _ _ _ | .mGet r _ _ _ _ | .mDel r _ | .tags r _ _ | .refs r _ _ _ _ => r

/-- C16 frame: whatever the request, only the addressed repository can change — a mount source included -/
theorem step_frame (s : State) (q : Req) : Frame q.target s (step s q).1 := by
  cases q with
  | uPost r q => simp only [step, Req.target]; repeat' split
                 all_goals first | exact Frame.refl _ s | exact frame_uPost _ _ _
  | uPatch r i q => simp only [step, Req.target]; repeat' split
                    all_goals first | exact Frame.refl _ s | exact frame_uPatch _ _ _ _
  | uPut r i q => simp only [step, Req.target]; repeat' split
                  all_goals first | exact Frame.refl _ s | exact frame_uPut _ _ _ _
  | uGet r i => simp only [step, Req.target]; repeat' split
                all_goals first | exact Frame.refl _ s | exact frame_uGet _ _ _
  | uDel r i => simp only [step, Req.target]; repeat' split
                all_goals first | exact Frame.refl _ s | exact frame_uDel _ _ _
  | bGet r a hd rng => simp only [step, Req.target]; repeat' split
                       all_goals first | exact Frame.refl _ s | exact frame_bGet _ _ _ _ _
  | bDel r a => simp only [step, Req.target]; repeat' split
                all_goals first | exact Frame.refl _ s | exact frame_bDel _ _ _
  | mPut r ref ct qd b lk => simp only [step, Req.target]; repeat' split
                             all_goals first | exact Frame.refl _ s | exact frame_mPut _ _ _ _ _ _ _
  | mGet r ref acc hd rng => simp only [step, Req.target]; repeat' split
                             all_goals first | exact Frame.refl _ s | exact frame_mGet _ _ _ _ _ _
  | mDel r ref => simp only [step, Req.target]; repeat' split
                  all_goals first | exact Frame.refl _ s | exact frame_mDel _ _ _
  | tags r n l => simp only [step, Req.target]; repeat' split
                  all_goals first | exact Frame.refl _ s | exact frame_tags _ _ _ _
  | refs r a f c p => simp only [step, Req.target]; repeat' split
                      all_goals first | exact Frame.refl _ s | exact frame_refs _ _ _ _ _ _
end Upd
