import Upd.Reg
/-! The request alphabet and the dispatch of `Server.ServeHTTP`: repository grammar, switches (push, delete,
    blob delete, referrers), read-only storage, names the directory store refuses — then the handler. -/
namespace Upd

inductive Req
  | uPost (r : String) (q : Q)
  | uPatch (r : String) (pub : Nat) (q : Q)
  | uPut (r : String) (pub : Nat) (q : Q)
  | uGet (r : String) (pub : Nat)
  | uDel (r : String) (pub : Nat)
  | bGet (r arg : String) (head : Bool) (rng : String)
  | bDel (r arg : String)
  | mPut (r ref ct qd body : String) (lenKnown : Bool)
  | mGet (r ref : String) (accept : List String) (head : Bool) (rng : String)
  | mDel (r ref : String)
  | tags (r n last : String)
  | refs (r arg filter cache page : String)

def notFound : Resp := { status := 404 }
def notAllowed : Resp := { status := 405 }
def denied : Resp := { status := 403, code := "DENIED" }
def nameInvalid : Resp := { status := 400, code := "NAME_INVALID" }
def digestInvalid : Resp := { status := 400, code := "DIGEST_INVALID" }

/-- `RepoGet` of the directory store refuses names with a reserved component -/
def nameRefused (s : State) (r : String) : Bool := s.conf.store = "dir" ∧ reservedRepo r

def parses (arg : String) : Bool := match DigArg.parse arg with | .ok _ => true | .bad => false

def step (s : State) : Req → State × Resp
  | .uPost r q =>
    if !validRepo r then (s, notFound) else
    if !s.conf.push then (s, notAllowed) else
    if s.conf.ro then (s, denied) else
    if nameRefused s r then
      -- the parameter checks of blobUploadPost come before the repository is opened
      if q.algo ≠ "" ∧ (Alg.parse? q.algo).isNone then (s, digestInvalid)
      else if (if q.digest ≠ "" then q.digest else q.mount) ≠ "" ∧ !parses (if q.digest ≠ "" then q.digest else q.mount) then (s, digestInvalid)
      else (s, nameInvalid)
    else uPost s r q
  | .uPatch r pub q =>
    if !validRepo r ∨ !s.conf.push then (s, notFound) else
    if nameRefused s r then (s, nameInvalid) else uPatch s r pub q
  | .uPut r pub q =>
    if !validRepo r ∨ !s.conf.push then (s, notFound) else
    if nameRefused s r then (s, nameInvalid) else uPut s r pub q
  | .uGet r pub =>
    if !validRepo r ∨ !s.conf.push then (s, notFound) else
    if nameRefused s r then (s, nameInvalid) else uGet s r pub
  | .uDel r pub =>
    if !validRepo r ∨ !s.conf.push then (s, notFound) else
    if nameRefused s r then (s, nameInvalid) else uDel s r pub
  | .bGet r arg head rng =>
    if !validRepo r then (s, notFound) else
    if nameRefused s r then (if parses arg then (s, nameInvalid) else (s, digestInvalid)) else bGet s r arg head rng
  | .bDel r arg =>
    if !validRepo r then (s, notFound) else
    if !(s.conf.del ∧ s.conf.bdel) then (s, notAllowed) else
    if s.conf.ro then (s, denied) else
    if nameRefused s r then (if parses arg then (s, nameInvalid) else (s, digestInvalid)) else bDel s r arg
  | .mPut r ref ct qd body lk =>
    if !validRepo r then (s, notFound) else
    if !s.conf.push then (s, notAllowed) else
    if s.conf.ro then (s, denied) else
    if nameRefused s r then (s, nameInvalid) else mPut s r ref ct qd body lk
  | .mGet r ref acc head rng =>
    if !validRepo r then (s, notFound) else
    if nameRefused s r then (s, nameInvalid) else mGet s r ref acc head rng
  | .mDel r ref =>
    if !validRepo r then (s, notFound) else
    if !s.conf.del then (s, notAllowed) else
    if s.conf.ro then (s, denied) else
    if nameRefused s r then (s, nameInvalid) else mDel s r ref
  | .tags r n last =>
    if !validRepo r then (s, notFound) else
    if nameRefused s r then (s, nameInvalid) else tags s r n last
  | .refs r arg filter cache page =>
    if !validRepo r ∨ !s.conf.ref then (s, notFound) else
    if nameRefused s r then (s, emptyRefs) else refs s r arg filter cache page

def run (s : State) (reqs : List Req) : State := reqs.foldl (fun st q => (step st q).1) s
end Upd
