import Upd.ReadbackProofs
import Upd.RefQuiet
/-!
# `ReadOK` over histories (C15, manifest GET never answers 500) — under explicit facts about content names

`RI s`: in every repository every listed digest parses and every tagged index entry names a defined body that parses
as an index with parsable child digests; every descriptor in a registered referrers response has a parsable digest.
`RI` is kept by every event, *provided* the digests that get written print to a string that parses back
(`RT d : DigArg.parse d.str = .ok d`).  That is a fact about `String.splitOn`/`intercalate` on the symbolic content
names of the model which the kernel cannot compute and core has no lemmas for; it is a hypothesis on the pushed body
names (`AdmEv`) and on the names of referrers responses (`hresp`).
-/
namespace Upd.Rb
open Upd

/-- the printed form of a digest parses back to it -/
def RT (d : Dig) : Prop := DigArg.parse d.str = .ok d

theorem RT.parses {d : Dig} (h : RT d) : parses d.str = true := by unfold Upd.parses; rw [h]

/-- content `c` is a defined body that parses as an index whose children all have parsable digests -/
def BodyOK (defs : List (String × Body)) (c : String) : Prop :=
  ∃ p v, defs.find? (·.1 = c) = some p ∧ p.2.asIndex = some v ∧ ∀ ch ∈ v.children, parses ch.dig = true

theorem BodyOK.append {defs : List (String × Body)} {c : String} (h : BodyOK defs c) (x : List (String × Body)) :
    BodyOK (defs ++ x) c := by
  obtain ⟨p, v, h1, h2, h3⟩ := h
  exact ⟨p, v, by rw [List.find?_append, h1]; rfl, h2, h3⟩

/-- a tagged index entry can be opened -/
def TagOK (defs : List (String × Body)) (e : Desc) : Prop :=
  e.ann.isNil = false → e.ann.tag ≠ "" → isIndexMT e.mt = true → ∀ dg, DigArg.parse e.dig = .ok dg → BodyOK defs dg.content

theorem TagOK.orig {defs : List (String × Body)} {e' e : Desc} (ho : Orig e' e) (h : TagOK defs e) : TagOK defs e' := by
  obtain ⟨r1, r2, _, r4, _, r6⟩ := ho
  intro h1 h2 h3 dg hd
  have ht : e'.ann.tag = e.ann.tag := by
    rcases r6 with h | h
    · exact h
    · exact absurd h h2
  exact h (by rw [← r4]; exact h1) (by rw [← ht]; exact h2) (by rw [← r1]; exact h3) dg (by rw [← r2]; exact hd)

theorem TagOK.append {defs : List (String × Body)} {e : Desc} (h : TagOK defs e) (x : List (String × Body)) : TagOK (defs ++ x) e :=
  fun h1 h2 h3 dg hd => (h h1 h2 h3 dg hd).append x

structure IxOK (defs : List (String × Body)) (ix : Index) : Prop where
  digs : ∀ e ∈ ix.manifests ++ ix.children, parses e.dig = true
  tags : ∀ e ∈ ix.manifests, TagOK defs e

theorem IxOK.append {defs : List (String × Body)} {ix : Index} (h : IxOK defs ix) (x : List (String × Body)) : IxOK (defs ++ x) ix :=
  ⟨h.digs, fun e he => (h.tags e he).append x⟩

theorem addDesc_ixOK (defs : List (String × Body)) (ix : Index) (d : Desc) (cs : List Desc) (h : IxOK defs ix)
    (hd : parses d.dig = true) (ht : TagOK defs d) (hcs : ∀ c ∈ cs, parses c.dig = true) : IxOK defs (addDesc ix d cs) := by
  obtain ⟨o1, o2⟩ := addDesc_orig ix d cs
  constructor
  · intro e he
    rcases List.mem_append.mp he with he | he
    · rcases o1 e he with rfl | ⟨e0, he0, hr⟩
      · exact hd
      · rw [hr.2.1]; exact h.digs e0 (List.mem_append_left _ he0)
    · rcases o2 e he with hh | hh
      · exact h.digs e (List.mem_append_right _ hh)
      · exact hcs e hh
  · intro e he
    rcases o1 e he with rfl | ⟨e0, he0, hr⟩
    · exact ht
    · exact (h.tags e0 he0).orig hr

theorem rmDesc_ixOK (defs : List (String × Body)) (ix : Index) (d : Desc) (h : IxOK defs ix) : IxOK defs (rmDesc ix d) := by
  obtain ⟨o1, o2⟩ := rmDesc_orig ix d
  constructor
  · intro e he
    rcases List.mem_append.mp he with he | he
    · obtain ⟨e0, he0, hr⟩ := o1 e he
      rw [hr.2.1]; exact h.digs e0 (List.mem_append_left _ he0)
    · exact h.digs e (List.mem_append_right _ (o2 e he))
  · intro e he
    obtain ⟨e0, he0, hr⟩ := o1 e he
    exact (h.tags e0 he0).orig hr

/-- the invariant -/
structure RI (s : State) : Prop where
  ix : ∀ r, IxOK s.defs (s.repo r).index
  resps : ∀ name ds, s.resp name = some ds → ∀ c ∈ ds, parses c.dig = true

/-- with the C01 invariant, `RI` gives what reads need -/
theorem RI.readOK {s : State} (h : RI s) (hinv : Inv s) (r : String) : ReadOK s (s.repo r) := by
  constructor
  · exact (h.ix r).digs
  · intro e he h1 h2 h3 dg content hd hb
    have hc : dg.content = content := blob_cas _ _ _ (repo_ok s r hinv).1 hb
    obtain ⟨p, v, hf, hv, hch⟩ := (h.ix r).tags e he h1 h2 h3 dg hd
    refine ⟨v, ?_, hch⟩
    unfold State.body
    rw [← hc, hf]; exact hv

/-- nothing the invariant looks at changed -/
theorem RI.still {s s' : State} (h : RI s) (hix : ∀ r, (s'.repo r).index = (s.repo r).index) (hd : s'.defs = s.defs)
    (hr : s'.resps = s.resps) : RI s' := by
  constructor
  · intro r; rw [hix r, hd]; exact h.ix r
  · intro name ds hn
    apply h.resps name ds
    unfold State.resp at hn ⊢; rw [hr] at hn; exact hn

theorem RI.quiet {s s' : State} (h : RI s) (hq : ∀ r, Rf.Quiet r s s') : RI s' :=
  h.still (fun r => (hq r).index) (hq "").defs (hq "").resps

/-- the index of one repository replaced, everything else the invariant looks at unchanged -/
theorem RI.setIndex {s s' : State} (h : RI s) (r : String) (hf : Frame r s s') (hr : s'.resps = s.resps)
    (hix : IxOK s.defs (s'.repo r).index) : RI s' := by
  constructor
  · intro r'
    by_cases hrr : r' = r
    · subst hrr; rw [hf.2.2]; exact hix
    · rw [hf.1 r' hrr, hf.2.2]; exact h.ix r'
  · intro name ds hn
    apply h.resps name ds
    unfold State.resp at hn ⊢; rw [hr] at hn; exact hn

theorem RI.touch {s : State} (h : RI s) (r : String) : RI (s.setRepo (s.repo r)) :=
  h.still (fun r' => by rw [repo_touch]) (setRepo_defs _ _) (setRepo_resps _ _)

theorem RI.putContent {s : State} (h : RI s) (r : String) (d : Dig) (c : String) : RI (putContent s r d c) :=
  h.setIndex r (frame_putContent s r d c) (putContent_resps s r d c) (by rw [putContent_index]; exact h.ix r)

theorem RI.indexInsert {s : State} (h : RI s) (r : String) (d : Desc) (cs : List Desc)
    (hd : parses d.dig = true) (ht : TagOK s.defs d) (hcs : ∀ c ∈ cs, parses c.dig = true) : RI (indexInsert s r d cs) :=
  h.setIndex r (frame_indexInsert s r d cs) (indexInsert_resps s r d cs)
    (by rw [indexInsert_repo]; exact addDesc_ixOK _ _ _ _ (h.ix r) hd ht hcs)

theorem indexRemove_repo (s : State) (r : String) (d : Desc) :
    (indexRemove s r d).repo r = { s.repo r with index := rmDesc (s.repo r).index d } := by
  unfold indexRemove
  exact repo_setRepo_at _ _ _ (repo_name s r)

theorem RI.indexRemove {s : State} (h : RI s) (r : String) (d : Desc) : RI (indexRemove s r d) :=
  h.setIndex r (frame_indexRemove s r d) (by unfold Upd.indexRemove; exact setRepo_resps _ _)
    (by rw [indexRemove_repo]; exact rmDesc_ixOK _ _ _ (h.ix r))

/-- registering a response whose descriptors have parsable digests -/
theorem RI.storeResp {s : State} (h : RI s) (r subject : String) (ds : List Desc)
    (hds : ∀ c ∈ ds, parses c.dig = true) (hrt : RT ⟨.sha256, respName ds⟩) : RI (storeResp s r subject ds) := by
  -- the table first
  have h1 : RI { s with resps := if s.resps.any (·.1 = respName ds) then s.resps else s.resps ++ [(respName ds, ds)] } := by
    constructor
    · exact h.ix
    · intro name l hn
      unfold State.resp at hn
      simp only [] at hn
      split at hn
      · exact h.resps name l hn
      · rw [List.find?_append] at hn
        cases hf : s.resps.find? (fun x => x.1 = name) with
        | some p =>
          rw [hf] at hn
          exact h.resps name l (by unfold State.resp; rw [hf]; exact hn)
        | none =>
          rw [hf] at hn
          simp only [Option.none_or, List.find?_cons] at hn
          split at hn
          · simp only [Option.map_some, Option.some.injEq] at hn
            rw [← hn]; exact hds
          · simp at hn
  unfold Upd.storeResp
  simp only []
  apply RI.indexInsert (RI.putContent h1 r _ _) r _ ds hrt.parses
  · intro _ h2; exact absurd rfl h2
  · exact hds

theorem RI.referrerAdd {s : State} (h : RI s) (r subject : String) (d : Desc) (hd : parses d.dig = true)
    (hresp : ∀ ds, RT ⟨.sha256, respName ds⟩) : RI (Upd.referrerAdd s r subject d) := by
  have key : ∀ old : List Desc, (∀ c ∈ old, parses c.dig = true) →
      RI (Upd.storeResp s r subject (if old.any (·.dig = d.dig) then old else old ++ [d])) := by
    intro old hold
    apply RI.storeResp h r subject _ _ (hresp _)
    intro c hc
    by_cases hany : old.any (·.dig = d.dig) = true
    · rw [if_pos hany] at hc; exact hold c hc
    · rw [if_neg hany] at hc
      rcases List.mem_append.mp hc with h1 | h1
      · exact hold c h1
      · simp only [List.mem_singleton] at h1; rw [h1]; exact hd
  unfold Upd.referrerAdd
  simp only []
  apply key
  intro c hc
  cases hcr : currentResp s r subject with
  | none => rw [hcr] at hc; cases hc
  | some p =>
    obtain ⟨dOld, ds0⟩ := p
    rw [hcr] at hc
    simp only [] at hc
    rcases currentResp_list s r subject dOld ds0 hcr with h0 | ⟨name, hn⟩
    · rw [h0] at hc; cases hc
    · exact h.resps name ds0 hn c hc

theorem RI.referrerDelete {s : State} (h : RI s) (r subject : String) (d : Desc)
    (hresp : ∀ ds, RT ⟨.sha256, respName ds⟩) : RI (Upd.referrerDelete s r subject d) := by
  unfold Upd.referrerDelete
  cases hcr : currentResp s r subject with
  | none => exact h
  | some p =>
    obtain ⟨dOld, old⟩ := p
    simp only []
    apply RI.storeResp h r subject _ _ (hresp _)
    intro c hc
    obtain ⟨e0, he0, hr⟩ := (rmDesc_orig { manifests := old } { dig := d.dig }).1 c hc
    rw [hr.2.1]
    rcases currentResp_list s r subject dOld old hcr with h0 | ⟨name, hn⟩
    · rw [h0] at he0; cases he0
    · exact h.resps name old hn e0 he0

/-! ## manifest push -/

theorem not_image_of_index (mt : String) (h : isIndexMT mt = true) : isImageMT mt = false := by
  unfold isIndexMT at h
  simp only [decide_eq_true_eq] at h
  rcases h with rfl | rfl <;> decide

theorem hasBlob_parses (rp : Repo) (g : String) (h : hasBlob rp g = true) : parses g = true := by
  unfold hasBlob at h
  unfold Upd.parses
  split at h
  · rename_i d hd; rw [hd]
  · cases h

theorem validateBody_index (ro : Bool) (rp : Repo) (b : Body) (mt tag : String) (d : Dig) (a : Accepted)
    (h : validateBody ro rp b mt tag d = .ok a) (hi : isIndexMT mt = true) :
    ∃ v, b.asIndex = some v ∧ ∀ c ∈ v.children, parses c.dig = true := by
  unfold validateBody at h
  rw [if_neg (by rw [not_image_of_index _ hi]; exact Bool.false_ne_true), if_pos hi] at h
  unfold validateIndex at h
  cases hv : b.asIndex with
  | none => rw [hv] at h; simp [refuse] at h
  | some v =>
    rw [hv] at h
    simp only [] at h
    by_cases h1 : v.mtField ≠ "" ∧ v.mtField ≠ mt
    · rw [if_pos h1] at h; simp [refuse] at h
    · rw [if_neg h1] at h
      by_cases h2 : (!(v.children.all fun c => hasBlob rp c.dig)) = true
      · rw [if_pos h2] at h; simp [refuse] at h
      · simp only [Bool.not_eq_true, Bool.not_eq_false'] at h2
        exact ⟨v, rfl, fun c hc => hasBlob_parses _ _ (List.all_eq_true.mp h2 c hc)⟩

/-- an accepted push under an index media type: the body is defined and opens as an index with parsable children -/
theorem mValidate_bodyOK (s : State) (r ref ct qd b : String) (lk : Bool) (a : Accepted)
    (h : mValidate s r ref ct qd b lk = .ok a) (hi : isIndexMT a.mt = true) : BodyOK s.defs b := by
  unfold mValidate at h
  obtain ⟨_, _, h⟩ := bind_ok _ _ _ h
  obtain ⟨_, _, h⟩ := bind_ok _ _ _ h
  obtain ⟨_, _, h⟩ := bind_ok _ _ _ h
  obtain ⟨_, _, h⟩ := bind_ok _ _ _ h
  obtain ⟨_, _, h⟩ := bind_ok _ _ _ h
  obtain ⟨_, _, h⟩ := bind_ok _ _ _ h
  have hmt := (validateBody_facts _ _ _ _ _ _ _ h).2.1
  rw [hmt] at hi
  obtain ⟨v, hv, hch⟩ := validateBody_index _ _ _ _ _ _ _ h hi
  cases hf : s.defs.find? (·.1 = b) with
  | none =>
    exfalso
    have : s.body b = {} := by unfold State.body; rw [hf]; rfl
    rw [this] at hv
    simp [Body.asIndex] at hv
  | some p =>
    refine ⟨p, v, hf, ?_, hch⟩
    have : s.body b = p.2 := by unfold State.body; rw [hf]; rfl
    rw [← this]; exact hv

theorem mCommit_defs (s : State) (r b : String) (a : Accepted) : (mCommit s r b a).1.defs = s.defs :=
  (frame_mCommit s r b a).2.2

/-- the commit of an accepted push keeps the invariant when the pushed digest prints to a string that parses back -/
theorem RI.mCommit {s : State} (h : RI s) (r ref ct qd b : String) (lk : Bool) (a : Accepted)
    (hv : mValidate s r ref ct qd b lk = .ok a) (hrt : RT a.d) (hresp : ∀ ds, RT ⟨.sha256, respName ds⟩) :
    RI (Upd.mCommit s r b a).1 := by
  obtain ⟨f1, f2, f3, _, _, f6⟩ := mValidate_facts s r ref ct qd b lk a hv
  have hcontent : a.d.content = b := mValidate_digest s r ref ct qd b lk a hv
  have h1 : RI (Upd.putContent s r a.d b) := h.putContent r a.d b
  have hdefs1 : (Upd.putContent s r a.d b).defs = s.defs := (frame_putContent s r a.d b).2.2
  have h2 : RI (Upd.indexInsert (Upd.putContent s r a.d b) r (entryOf a) a.children) := by
    apply h1.indexInsert r (entryOf a) a.children hrt.parses
    · intro _ _ hi dg hd
      have hdg : dg = a.d := by
        have : DigArg.parse a.d.str = .ok dg := hd
        rw [hrt] at this; cases this; rfl
      rw [hdg, hcontent, hdefs1]
      exact mValidate_bodyOK s r ref ct qd b lk a hv hi
    · intro c hc; exact hasBlob_parses _ _ (f6 c hc)
  show RI (if a.subject ≠ "" then Upd.referrerAdd (Upd.indexInsert (Upd.putContent s r a.d b) r (entryOf a) a.children) r a.subject a.refd
      else Upd.indexInsert (Upd.putContent s r a.d b) r (entryOf a) a.children)
  split
  · exact h2.referrerAdd r a.subject a.refd (by rw [f2]; exact hrt.parses) hresp
  · exact h2

theorem RI.mPut {s : State} (h : RI s) (r ref ct qd b : String) (lk : Bool)
    (hrt : ∀ alg, RT ⟨alg, b⟩) (hresp : ∀ ds, RT ⟨.sha256, respName ds⟩) : RI (Upd.mPut s r ref ct qd b lk).1 := by
  unfold Upd.mPut
  simp only []
  cases hv : mValidate (s.setRepo (s.repo r)) r ref ct qd b lk with
  | error e => exact h.touch r
  | ok a =>
    simp only []
    have hd : a.d = ⟨a.d.alg, b⟩ := by
      have := mValidate_digest _ r ref ct qd b lk a hv
      cases hh : a.d with
      | mk alg content => rw [hh] at this; simp only [] at this; rw [this]
    exact (h.touch r).mCommit r ref ct qd b lk a hv (by rw [hd]; exact hrt _) hresp

/-! ## manifest delete, blob delete -/

theorem RI.mDel {s : State} (h : RI s) (r arg : String) (hresp : ∀ ds, RT ⟨.sha256, respName ds⟩) :
    RI (Upd.mDel s r arg).1 := by
  unfold Upd.mDel
  simp only []
  have h0 := h.touch r
  split
  · exact h0
  · split
    · -- a referrers response addressed by digest is refused: nothing but the touch happened
      exact h0
    · apply RI.indexRemove
      repeat' split
      all_goals first
        | exact h0
        | exact h0.referrerDelete _ _ _ hresp

theorem RI.setBlobs {s : State} (h : RI s) (r : String) (bl : List (Dig × String)) (ol : List Dig) :
    RI (s.setRepo { s.repo r with blobs := bl, old := ol }) := by
  have hn : ({ s.repo r with blobs := bl, old := ol } : Repo).name = r := repo_name s r
  apply h.setIndex r (frame_setRepo' s r { s.repo r with blobs := bl, old := ol } hn) (setRepo_resps _ _)
  rw [repo_setRepo_at s r { s.repo r with blobs := bl, old := ol } hn]
  exact h.ix r

theorem RI.bDel {s : State} (h : RI s) (r arg : String) : RI (Upd.bDel s r arg).1 := by
  unfold Upd.bDel
  split
  · exact h
  · simp only []
    have h0 := h.touch r
    split
    · exact h0
    · exact h0.setBlobs r _ _

/-! ## every request, every history -/

/-- the request is admissible: a manifest push names a body whose digests print to strings that parse back -/
def AdmReq : Req → Prop
  | .mPut _ _ _ _ b _ => ∀ alg, RT ⟨alg, b⟩
  | _ => True

set_option linter.unusedSimpArgs false in
theorem RI.step {s : State} (h : RI s) (q : Req) (hq : AdmReq q) (hresp : ∀ ds, RT ⟨.sha256, respName ds⟩) :
    RI (Upd.step s q).1 := by
  cases q with
  | uPost r q => simp only [Upd.step]; repeat' split
                 all_goals first | exact h | exact h.quiet (fun r' => Rf.quiet_uPost r' _ _ _)
  | uPatch r i q => simp only [Upd.step]; repeat' split
                    all_goals first | exact h | exact h.quiet (fun r' => Rf.quiet_uPatch r' _ _ _ _)
  | uPut r i q => simp only [Upd.step]; repeat' split
                  all_goals first | exact h | exact h.quiet (fun r' => Rf.quiet_uPut r' _ _ _ _)
  | uGet r i => simp only [Upd.step]; repeat' split
                all_goals first | exact h | exact h.quiet (fun r' => Rf.quiet_uGet r' _ _ _)
  | uDel r i => simp only [Upd.step]; repeat' split
                all_goals first | exact h | exact h.quiet (fun r' => Rf.quiet_uDel r' _ _ _)
  | bGet r a hd rng => simp only [Upd.step]; repeat' split
                       all_goals first | exact h | exact h.quiet (fun r' => Rf.quiet_bGet r' _ _ _ _ _)
  | bDel r a => simp only [Upd.step]; repeat' split
                all_goals first | exact h | exact h.bDel _ _
  | mPut r ref ct qd b lk => simp only [Upd.step]; repeat' split
                             all_goals first | exact h | exact h.mPut _ _ _ _ _ _ hq hresp
  | mGet r ref acc hd rng => simp only [Upd.step]; repeat' split
                             all_goals first | exact h | exact h.quiet (fun r' => Rf.quiet_mGet r' _ _ _ _ _ _)
  | mDel r ref => simp only [Upd.step]; repeat' split
                  all_goals first | exact h | exact h.mDel _ _ hresp
  | tags r n l => simp only [Upd.step]; repeat' split
                  all_goals first | exact h | exact h.quiet (fun r' => Rf.quiet_tags r' _ _ _ _)
  | refs r a f c p => simp only [Upd.step]; repeat' split
                      all_goals first | exact h | exact h.quiet (fun r' => Rf.quiet_refs r' _ _ _ _ _ _)

def AdmEv : Ev → Prop
  | .req q => AdmReq q
  | .defBody _ _ => True

theorem RI.stepEv {s : State} (h : RI s) (e : Ev) (he : AdmEv e) (hresp : ∀ ds, RT ⟨.sha256, respName ds⟩) :
    RI (Upd.stepEv s e) := by
  cases e with
  | req q => exact h.step q he hresp
  | defBody name b =>
    constructor
    · intro r; exact (h.ix r).append _
    · exact h.resps

theorem RI.init (conf : Conf) : RI { conf := conf } := by
  constructor
  · intro r; exact IxOK.mk (fun e he => by cases he) (fun e he => by cases he)
  · intro name ds hn; cases hn

/-- in every state reachable by a history of admissible events the invariant holds -/
theorem reach_RI (conf : Conf) (hist : List Ev) (hadm : ∀ e ∈ hist, AdmEv e) (hresp : ∀ ds, RT ⟨.sha256, respName ds⟩) :
    RI (hist.foldl Upd.stepEv { conf := conf }) := by
  have : ∀ (l : List Ev) (s : State), RI s → (∀ e ∈ l, AdmEv e) → RI (l.foldl Upd.stepEv s) := by
    intro l
    induction l with
    | nil => intro s h _; exact h
    | cons q rest ih =>
      intro s h ha
      exact ih _ (h.stepEv q (ha q List.mem_cons_self) hresp) (fun e he => ha e (List.mem_cons_of_mem _ he))
  exact this hist _ (RI.init conf) hadm

/-- no manifest GET answers 500 in any state reachable by a history of admissible events -/
theorem mGet_no_5xx_reachable (conf : Conf) (hist : List Ev) (hadm : ∀ e ∈ hist, AdmEv e)
    (hresp : ∀ ds, RT ⟨.sha256, respName ds⟩) (r arg : String) (accept : List String) (head : Bool) (rng : String) :
    (mGet (hist.foldl Upd.stepEv { conf := conf }) r arg accept head rng).2.status ≠ 500 :=
  mGet_no_5xx_of_readOK _ r arg accept head rng ((reach_RI conf hist hadm hresp).readOK (reach_inv conf hist) r)
end Upd.Rb
