import Upd.Basic
/-! scratch pilot: manifest, tag and referrers handlers (manifest.go, tag.go, referrer.go) on the memory store -/
namespace Upd

def isImageMT (mt : String) : Bool := mt = "ocim" ∨ mt = "dockm"
def isIndexMT (mt : String) : Bool := mt = "ocii" ∨ mt = "dockl"
def dockerMT (mt : String) : Bool := mt = "dockm" ∨ mt = "dockl" ∨ mt = "dcfg"

/-- RefTagRE on the tokens the harness uses: tags are `t…`, everything with ':' or starting otherwise is not a tag -/
def isTag (s : String) : Bool :=
  let cs := s.toList
  match cs with
  | [] => false
  | c :: rest => (c.isAlphanum ∨ c = '_') ∧ rest.all (fun x => x.isAlphanum ∨ x = '_' ∨ x = '.' ∨ x = '-') ∧ cs.length ≤ 128

structure ImgView where
  mtField : String
  cfg : String
  cfgMt : String
  layers : List String
  subj : String
  atype : String
  rann : String
structure IdxView where
  mtField : String
  children : List Desc
  subj : String
  atype : String
  rann : String

def Body.asImage (b : Body) : Option ImgView :=
  match b.kind with
  | "image" => some ⟨b.mtField, b.cfg, b.cfgMt, b.layers, b.subj, b.atype, b.rann⟩
  | "index" => some ⟨b.mtField, "", "", [], b.subj, b.atype, b.rann⟩
  | "obj" => some ⟨"", "", "", [], "", "", ""⟩
  | _ => none
def Body.asIndex (b : Body) : Option IdxView :=
  match b.kind with
  | "index" => some ⟨b.mtField, b.children, b.subj, b.atype, b.rann⟩
  | "image" => some ⟨b.mtField, [], b.subj, b.atype, b.rann⟩
  | "obj" => some ⟨"", [], "", "", ""⟩
  | _ => none

def detect (b : Body) : String :=
  match b.kind with
  | "junk" => ""
  | _ =>
    if b.mtField ≠ "" then b.mtField
    else if b.kind = "index" ∧ !b.children.isEmpty then
      (match b.children.head? with | some c => if dockerMT c.mt then "dockl" else "ocii" | none => "ocii")
    else if b.kind ≠ "image" ∨ b.cfgMt = "" then ""
    else if dockerMT b.cfgMt then "dockm" else "ocim"

def hasBlob (rp : Repo) (dstr : String) : Bool :=
  match DigArg.parse dstr with
  | .ok d => (rp.blob d).isSome
  | .bad => false

def State.body (s : State) (name : String) : Body := ((s.defs.find? (·.1 = name)).map (·.2)).getD {}
def State.resp (s : State) (name : String) : Option (List Desc) := (s.resps.find? (·.1 = name)).map (·.2)

/-- canonical content name of a referrers response -/
def respName (ds : List Desc) : String := "R(" ++ ",".intercalate (ds.map fun d => s!"{d.dig}/{d.mt}/{d.size}/{d.atype}/{d.rann}") ++ ")"

/-- store a blob under the canonical algorithm unless it exists -/
def putContent (s : State) (r : String) (d : Dig) (content : String) : State :=
  let rp := s.repo r
  if (rp.blob d).isSome then s.setRepo rp else s.setRepo (rp.putBlob d content)

def indexInsert (s : State) (r : String) (d : Desc) (children : List Desc := []) : State :=
  let rp := s.repo r
  s.setRepo { rp with index := addDesc rp.index d children }
def indexRemove (s : State) (r : String) (d : Desc) : State :=
  let rp := s.repo r
  s.setRepo { rp with index := rmDesc rp.index d }

/-- read the referrers response currently registered for a subject -/
def currentResp (s : State) (r : String) (subject : String) : Option (Desc × List Desc) :=
  match getBySubj (s.repo r).index subject with
  | none => none
  | some dOld =>
    match DigArg.parse dOld.dig with
    | .bad => some (dOld, [])
    | .ok dg => match (s.repo r).blob dg with
      | none => some (dOld, [])
      | some content => some (dOld, (s.resp content).getD [])

def storeResp (s : State) (r : String) (subject : String) (ds : List Desc) : State :=
  let name := respName ds
  let dg : Dig := ⟨.sha256, name⟩
  let s := { s with resps := if s.resps.any (·.1 = name) then s.resps else s.resps ++ [(name, ds)] }
  let s := putContent s r dg name
  indexInsert s r { mt := "ocii", dig := dg.str, size := 0, ann := { isNil := false, subj := subject } } ds

def referrerAdd (s : State) (r : String) (subject : String) (d : Desc) : State :=
  let old := match currentResp s r subject with | some (_, ds) => ds | none => []
  -- refResp.AddDesc(desc): no tag / subject annotation, so this is "append unless the digest is listed"
  let ds := if old.any (·.dig = d.dig) then old else old ++ [d]
  storeResp s r subject ds

def referrerDelete (s : State) (r : String) (subject : String) (d : Desc) : State :=
  match currentResp s r subject with
  | none => s
  | some (_, old) =>
    -- RmDesc by digest with swap-remove, descending
    let ix := rmDesc { manifests := old } { dig := d.dig }
    storeResp s r subject ix.manifests

def manLoc (r : String) (d : Dig) : String := s!"manifest:{r}:{d.str}"

/-- what an accepted manifest push will do -/
structure Accepted where
  d : Dig
  mt : String
  tag : String
  children : List Desc
  subject : String
  refd : Desc
  len : Nat

def refuse (status : Nat) (code : String) : Except Resp α := .error { status := status, code := code }

/-- every check of manifestPut, in the handler's order; no state is touched -/
def mValidate (s : State) (r ref ct qd bodyName : String) : Except Resp Accepted := do
  if !(ct = "" ∨ isImageMT ct ∨ isIndexMT ct) then refuse 400 "MANIFEST_INVALID"
  let qExpect : Option Dig ←
    if qd = "" then pure none else match DigArg.parse qd with
      | .ok d => pure (some d)
      | .bad => refuse 400 "DIGEST_INVALID"
  let (tag, expect) : String × Option Dig ←
    if isTag ref then pure (ref, qExpect) else match DigArg.parse ref with
      | .ok d => pure ("", some d)
      | .bad => refuse 400 "DIGEST_INVALID"
  let alg := match expect with | some e => e.alg | none => Alg.sha256
  let d : Dig := ⟨alg, bodyName⟩
  if expect.isSome ∧ expect ≠ some d then refuse 400 "DIGEST_INVALID"
  let b := s.body bodyName
  let mt := if ct = "" then detect b else ct
  let rp := s.repo r
  if isImageMT mt then
    match b.asImage with
    | none => refuse 400 "MANIFEST_INVALID"
    | some v =>
      if !(hasBlob rp v.cfg ∧ v.layers.all (hasBlob rp)) then refuse 400 "MANIFEST_BLOB_UNKNOWN"
      pure { d := d, mt := mt, tag := tag, children := [], subject := v.subj, len := b.len,
             refd := { mt := mt, dig := d.str, size := b.len, atype := if v.atype = "" then v.cfgMt else v.atype, rann := v.rann } }
  else if isIndexMT mt then
    match b.asIndex with
    | none => refuse 400 "MANIFEST_INVALID"
    | some v =>
      if !(v.children.all fun c => hasBlob rp c.dig) then refuse 400 "MANIFEST_BLOB_UNKNOWN"
      pure { d := d, mt := mt, tag := tag, children := v.children, subject := v.subj, len := b.len,
             refd := { mt := mt, dig := d.str, size := b.len, atype := v.atype, rann := v.rann } }
  else refuse 400 "MANIFEST_INVALID"

/-- the effects of an accepted push: blob, index entry, referrers response -/
def mCommit (s : State) (r bodyName : String) (a : Accepted) : State × Resp :=
  let s1 := putContent s r a.d bodyName
  let entry : Desc := { mt := a.mt, dig := a.d.str, size := a.len, ann := if a.tag = "" then {} else { isNil := false, tag := a.tag } }
  let s2 := indexInsert s1 r entry a.children
  let s3 := if a.subject ≠ "" then referrerAdd s2 r a.subject a.refd else s2
  (s3, { status := 201, loc := manLoc r a.d, dcd := a.d.str, subj := a.subject })

/-- manifest PUT; `ct` is the cleaned Content-Type token ("" = absent), `qd` the ?digest= parameter -/
def mPut (s : State) (r : String) (ref : String) (ct : String) (qd : String) (bodyName : String) : State × Resp :=
  let s := s.setRepo (s.repo r)
  match mValidate s r ref ct qd bodyName with
  | .error e => (s, e)
  | .ok a => mCommit s r bodyName a

def getDesc (ix : Index) (arg : String) : Option Desc :=
  if ix.manifests.isEmpty ∧ ix.children.isEmpty then none
  else if isTag arg then getDescTag ix arg
  else match DigArg.parse arg with
    | .ok d => getDescDig ix d.str
    | .bad => none

def contentLen (s : State) (content : String) : Nat :=
  match s.defs.find? (·.1 = content) with
  | some (_, b) => b.len
  | none => content.length

inductive Pick | found (d : Desc) | notFound | serverError

def mGet (s : State) (r : String) (arg : String) (accept : List String) (head : Bool) : State × Resp :=
  let s := s.setRepo (s.repo r)
  let rp := s.repo r
  match getDesc rp.index arg with
  | none => (s, { status := 404, code := "MANIFEST_UNKNOWN" })
  | some desc =>
    let pick : Pick :=
      if accept.contains desc.mt then .found desc
      else if !accept.isEmpty ∧ isIndexMT desc.mt ∧ isTag arg then
        -- the tagged index is opened to look for an acceptable child; any error here is a 500 in the handler
        match DigArg.parse desc.dig with
        | .bad => .serverError
        | .ok dg => match rp.blob dg with
          | none => .serverError
          | some content => match (s.body content).asIndex with
            | none => .serverError
            | some v => match v.children.find? (fun c => accept.contains c.mt) with
              | some c => .found c
              | none => .notFound
      else .notFound
    match pick with
    | .serverError => (s, { status := 500 })
    | .notFound => (s, { status := 404, code := "MANIFEST_UNKNOWN" })
    | .found d =>
      match DigArg.parse d.dig with
      | .bad => (s, { status := 500 })
      | .ok dg => match rp.blob dg with
        | none => (s, { status := 404, code := "MANIFEST_BLOB_UNKNOWN" })
        | some content => (s, { status := 200, ct := d.mt, dcd := dg.str, body := if head then s!"len{contentLen s content}" else "=" ++ content })

def mDel (s : State) (r : String) (arg : String) : State × Resp :=
  let s := s.setRepo (s.repo r)
  let rp := s.repo r
  match getDesc rp.index arg with
  | none => (s, { status := 404, code := "MANIFEST_UNKNOWN" })
  | some desc =>
    -- referrers: drop the entry from the subject's response
    let s1 :=
      match DigArg.parse desc.dig with
      | .bad => s
      | .ok dg => match rp.blob dg with
        | none => s
        | some content =>
          let b := s.body content
          let subj := match b.kind with | "image" | "index" => b.subj | _ => ""
          if subj = "" then s else referrerDelete s r subj desc
    (indexRemove s1 r desc, { status := 202 })

def insertSorted (x : String) : List String → List String
  | [] => [x]
  | y :: ys => if x ≤ y then x :: y :: ys else y :: insertSorted x ys
def sortS (l : List String) : List String := l.foldl (fun acc x => insertSorted x acc) []

/-- tags/list; `n` is the raw query value ("" absent). Returns PANIC where the Go code indexes out of range -/
def tags (s : State) (r : String) (n : String) (last : String) : State × Resp :=
  let s := s.setRepo (s.repo r)
  let all := (s.repo r).index.manifests.filterMap fun d => if !d.ann.isNil ∧ d.ann.tag ≠ "" ∧ last < d.ann.tag then some d.ann.tag else none
  let sorted := sortS all
  let ok := fun (l : List String) (link : String) => (s, ({ status := 200, body := "[" ++ ",".intercalate l ++ "]", link := link } : Resp))
  if n = "" then ok sorted "" else
  match n.toInt? with
  | none => ok sorted ""
  | some ni =>
    if (sorted.length : Int) > ni then
      if ni < 0 then (s, { status := 999 })                       -- slice bounds out of range
      else
        let cut := sorted.take ni.toNat
        match cut.getLast? with
        | none => (s, { status := 999 })                          -- index out of range [-1]
        | some l => ok cut s!"next(last={l})"
    else ok sorted ""

def fmtRef (d : Desc) : String := s!"{d.dig}/{d.mt}/{d.size}/{d.atype}/{d.rann}"

def refs (s : State) (r : String) (arg : String) (filter : String) : State × Resp :=
  let s := s.setRepo (s.repo r)
  let empty : Resp := { status := 200, ct := "ocii", body := "[]" }
  match getBySubj (s.repo r).index arg with
  | none => (s, empty)
  | some d =>
    match s.rcache.find? (·.1 = (d.dig, filter)) with
    | some (_, served) => (s, { status := 200, ct := "ocii", body := "[" ++ ",".intercalate (served.map fmtRef) ++ "]" })   -- cache hit: no filter header
    | none =>
      match DigArg.parse d.dig with
      | .bad => (s, empty)
      | .ok dg => match (s.repo r).blob dg with
        | none => (s, empty)
        | some content =>
          let full := (s.resp content).getD []
          let out := if filter ≠ "" then full.filter (·.atype = filter) else full
          ({ s with rcache := s.rcache ++ [((d.dig, filter), out)] },
           { status := 200, ct := "ocii", filt := if filter ≠ "" then "artifactType" else "", body := "[" ++ ",".intercalate (out.map fmtRef) ++ "]" })
end Upd
