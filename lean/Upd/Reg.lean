import Upd.Basic
import Px.Split
/-! scratch pilot: manifest, tag and referrers handlers (manifest.go, tag.go, referrer.go) on the memory store -/
namespace Upd

def isImageMT (mt : String) : Bool := mt = "ocim" ∨ mt = "dockm"
def isIndexMT (mt : String) : Bool := mt = "ocii" ∨ mt = "dockl"
def dockerMT (mt : String) : Bool := mt = "dockm" ∨ mt = "dockl" ∨ mt = "dcfg"

/-- RefTagRE on the tokens the harness uses: tags are `t…`, everything with ':' or starting otherwise is not a tag -/
def isTag (s : String) : Bool :=
  let cs := s.toList
  match cs with
  | [] => false
  | c :: rest => (c.isAlphanum ∨ c = '_') ∧ rest.all (fun x => x.isAlphanum ∨ x = '_' ∨ x = '.' ∨ x = '-') ∧ cs.length ≤ 128

structure ImgView where
  mtField : String
  cfg : String
  cfgMt : String
  layers : List String
  subj : String
  atype : String
  rann : String
structure IdxView where
  mtField : String
  children : List Desc
  subj : String
  atype : String
  rann : String

def Body.asImage (b : Body) : Option ImgView :=
  match b.kind with
  | "image" => some ⟨b.mtField, b.cfg, b.cfgMt, b.layers, b.subj, b.atype, b.rann⟩
  | "index" => some ⟨b.mtField, "", "", [], b.subj, b.atype, b.rann⟩
  | "obj" => some ⟨"", "", "", [], "", "", ""⟩
  | _ => none
def Body.asIndex (b : Body) : Option IdxView :=
  match b.kind with
  | "index" => some ⟨b.mtField, b.children, b.subj, b.atype, b.rann⟩
  | "image" => some ⟨b.mtField, [], b.subj, b.atype, b.rann⟩
  | "obj" => some ⟨"", [], "", "", ""⟩
  | _ => none

def detect (b : Body) : String :=
  match b.kind with
  | "junk" => ""
  | _ =>
    if b.mtField ≠ "" then b.mtField
    else if b.kind = "index" ∧ !b.children.isEmpty then
      (match b.children.head? with | some c => if dockerMT c.mt then "dockl" else "ocii" | none => "ocii")
    else if b.kind ≠ "image" ∨ b.cfgMt = "" then ""
    else if dockerMT b.cfgMt then "dockm" else "ocim"

def hasBlob (rp : Repo) (dstr : String) : Bool :=
  match DigArg.parse dstr with
  | .ok d => (rp.blob d).isSome
  | .bad => false

def State.body (s : State) (name : String) : Body := ((s.defs.find? (·.1 = name)).map (·.2)).getD {}
def State.resp (s : State) (name : String) : Option (List Desc) := (s.resps.find? (·.1 = name)).map (·.2)

/-- canonical content name of a referrers response -/
def respName (ds : List Desc) : String := "R(" ++ ",".intercalate (ds.map fun d => s!"{d.dig}/{d.mt}/{d.size}/{d.atype}/{d.rann}") ++ ")"

/-- store a blob under the canonical algorithm unless it exists -/
def putContent (s : State) (r : String) (d : Dig) (content : String) : State :=
  let rp := s.repo r
  if (rp.blob d).isSome then s.setRepo rp else s.setRepo (rp.putBlob d content)

def indexInsert (s : State) (r : String) (d : Desc) (children : List Desc := []) : State :=
  let rp := s.repo r
  s.setRepo { rp with index := addDesc rp.index d children }
def indexRemove (s : State) (r : String) (d : Desc) : State :=
  let rp := s.repo r
  s.setRepo { rp with index := rmDesc rp.index d }

/-- read the referrers response currently registered for a subject -/
def currentResp (s : State) (r : String) (subject : String) : Option (Desc × List Desc) :=
  match getBySubj (s.repo r).index subject with
  | none => none
  | some dOld =>
    match DigArg.parse dOld.dig with
    | .bad => some (dOld, [])
    | .ok dg => match (s.repo r).blob dg with
      | none => some (dOld, [])
      | some content => some (dOld, (s.resp content).getD [])

def storeResp (s : State) (r : String) (subject : String) (ds : List Desc) : State :=
  let name := respName ds
  let dg : Dig := ⟨.sha256, name⟩
  let s := { s with resps := if s.resps.any (·.1 = name) then s.resps else s.resps ++ [(name, ds)] }
  let s := putContent s r dg name
  indexInsert s r { mt := "ocii", dig := dg.str, size := respSize ds, ann := { isNil := false, subj := subject } } ds

def referrerAdd (s : State) (r : String) (subject : String) (d : Desc) : State :=
  let old := match currentResp s r subject with | some (_, ds) => ds | none => []
  -- refResp.AddDesc(desc): no tag / subject annotation, so this is "append unless the digest is listed"
  let ds := if old.any (·.dig = d.dig) then old else old ++ [d]
  storeResp s r subject ds

def referrerDelete (s : State) (r : String) (subject : String) (d : Desc) : State :=
  match currentResp s r subject with
  | none => s
  | some (_, old) =>
    -- RmDesc by digest with swap-remove, descending
    let ix := rmDesc { manifests := old } { dig := d.dig }
    storeResp s r subject ix.manifests

def manLoc (r : String) (d : Dig) : String := s!"manifest:{r}:{d.str}"

/-- what an accepted manifest push will do -/
structure Accepted where
  d : Dig
  mt : String
  tag : String
  children : List Desc
  subject : String
  refd : Desc
  len : Nat

def refuse (status : Nat) (code : String) : Except Resp α := .error { status := status, code := code }

/-! every check of manifestPut, in the handler's order, as small steps; no state is touched -/

def checkCt (ct : String) : Except Resp Unit :=
  if !(ct = "" ∨ isImageMT ct ∨ isIndexMT ct) then refuse 400 "MANIFEST_INVALID" else pure ()

/-- size limit: on the Content-Length header when there is one, and on the bytes read -/
def checkLen (limit : Nat) (len : Nat) (applies : Bool) : Except Resp Unit :=
  if applies ∧ len > limit then refuse 413 "MANIFEST_INVALID" else pure ()

def parseQd (qd : String) : Except Resp (Option Dig) :=
  if qd = "" then pure none else match DigArg.parse qd with
    | .ok d => pure (some d)
    | .bad => refuse 400 "DIGEST_INVALID"

def parseRef (ref : String) (qExpect : Option Dig) : Except Resp (String × Option Dig) :=
  if isTag ref then pure (ref, qExpect) else match DigArg.parse ref with
    | .ok d => pure ("", some d)
    | .bad => refuse 400 "DIGEST_INVALID"

def checkDigest (expect : Option Dig) (d : Dig) : Except Resp Unit :=
  if expect.isSome ∧ expect ≠ some d then refuse 400 "DIGEST_INVALID" else pure ()

def validateImage (refOn : Bool) (rp : Repo) (b : Body) (mt tag : String) (d : Dig) : Except Resp Accepted :=
  match b.asImage with
  | none => refuse 400 "MANIFEST_INVALID"
  | some v =>
    if v.mtField ≠ "" ∧ v.mtField ≠ mt then refuse 400 "MANIFEST_INVALID"
    else if !(hasBlob rp v.cfg ∧ v.layers.all (hasBlob rp)) then refuse 400 "MANIFEST_BLOB_UNKNOWN"
    else pure { d := d, mt := mt, tag := tag, children := [], subject := if refOn then v.subj else "", len := b.len,
                refd := { mt := mt, dig := d.str, size := b.len, atype := if v.atype = "" then v.cfgMt else v.atype, rann := v.rann } }

def validateIndex (refOn : Bool) (rp : Repo) (b : Body) (mt tag : String) (d : Dig) : Except Resp Accepted :=
  match b.asIndex with
  | none => refuse 400 "MANIFEST_INVALID"
  | some v =>
    if v.mtField ≠ "" ∧ v.mtField ≠ mt then refuse 400 "MANIFEST_INVALID"
    else if !(v.children.all fun c => hasBlob rp c.dig) then refuse 400 "MANIFEST_BLOB_UNKNOWN"
    else pure { d := d, mt := mt, tag := tag, children := v.children, subject := if refOn then v.subj else "", len := b.len,
                refd := { mt := mt, dig := d.str, size := b.len, atype := v.atype, rann := v.rann } }

def validateBody (refOn : Bool) (rp : Repo) (b : Body) (mt tag : String) (d : Dig) : Except Resp Accepted :=
  if isImageMT mt then validateImage refOn rp b mt tag d
  else if isIndexMT mt then validateIndex refOn rp b mt tag d
  else refuse 400 "MANIFEST_INVALID"

/-- `lenKnown` = the request carried a Content-Length -/
def mValidate (s : State) (r ref ct qd bodyName : String) (lenKnown : Bool := true) : Except Resp Accepted :=
  let b := s.body bodyName
  checkCt ct >>= fun _ =>
  checkLen s.conf.mlimit b.len lenKnown >>= fun _ =>
  parseQd qd >>= fun qExpect =>
  parseRef ref qExpect >>= fun te =>
  -- the body is read through a reader limited to one byte more than the limit
  checkLen s.conf.mlimit b.len true >>= fun _ =>
  let d : Dig := ⟨match te.2 with | some e => e.alg | none => Alg.sha256, bodyName⟩
  checkDigest te.2 d >>= fun _ =>
  validateBody s.conf.ref (s.repo r) b (if ct = "" then detect b else ct) te.1 d

/-- the effects of an accepted push: blob, index entry, referrers response -/
def mCommit (s : State) (r bodyName : String) (a : Accepted) : State × Resp :=
  let s1 := putContent s r a.d bodyName
  let entry : Desc := { mt := a.mt, dig := a.d.str, size := a.len, ann := if a.tag = "" then {} else { isNil := false, tag := a.tag } }
  let s2 := indexInsert s1 r entry a.children
  let s3 := if a.subject ≠ "" then referrerAdd s2 r a.subject a.refd else s2
  (s3, { status := 201, loc := manLoc r a.d, dcd := a.d.str, subj := a.subject })

/-- manifest PUT; `ct` is the cleaned Content-Type token ("" = absent), `qd` the ?digest= parameter -/
def mPut (s : State) (r : String) (ref : String) (ct : String) (qd : String) (bodyName : String) (lenKnown : Bool := true) : State × Resp :=
  let s := s.setRepo (s.repo r)
  match mValidate s r ref ct qd bodyName lenKnown with
  | .error e => (s, e)
  | .ok a => mCommit s r bodyName a

def getDesc (ix : Index) (arg : String) : Option Desc :=
  if ix.manifests.isEmpty ∧ ix.children.isEmpty then none
  else if isTag arg then getDescTag ix arg
  else match DigArg.parse arg with
    | .ok d => getDescDig ix d.str
    | .bad => none

inductive Pick | found (d : Desc) | notFound | blobMissing | serverError

def mGet (s : State) (r : String) (arg : String) (accept : List String) (head : Bool) (rng : String := "") : State × Resp :=
  let s := s.setRepo (s.repo r)
  let rp := s.repo r
  match getDesc rp.index arg with
  | none => (s, { status := 404, code := "MANIFEST_UNKNOWN" })
  | some desc =>
    let pick : Pick :=
      if accept.contains desc.mt then .found desc
      else if !accept.isEmpty ∧ isIndexMT desc.mt ∧ isTag arg then
        -- the tagged index is opened to look for an acceptable child
        match DigArg.parse desc.dig with
        | .bad => .serverError
        | .ok dg => match rp.blob dg with
          | none => .blobMissing
          | some content => match (s.body content).asIndex with
            | none => .serverError
            | some v => match v.children.find? (fun c => accept.contains c.mt) with
              | some c => .found c
              | none => .notFound
      else .notFound
    match pick with
    | .serverError => (s, { status := 500 })
    | .blobMissing => (s, { status := 404, code := "MANIFEST_BLOB_UNKNOWN" })
    | .notFound => (s, { status := 404, code := "MANIFEST_UNKNOWN" })
    | .found d =>
      match DigArg.parse d.dig with
      | .bad => (s, { status := 500 })
      | .ok dg => match rp.blob dg with
        | none => (s, { status := 404, code := "MANIFEST_BLOB_UNKNOWN" })
        | some content => (s, serve s content rng head dg.str d.mt)

/-- `indexOnlyReferrerResponse`: every index entry with the digest is the referrers response of a subject -/
def onlyResponse (ix : Index) (dig : String) : Bool :=
  let es := ix.manifests.filter (·.dig = dig)
  !es.isEmpty ∧ es.all (fun d => !d.ann.isNil ∧ d.ann.subj ≠ "")

def mDel (s : State) (r : String) (arg : String) : State × Resp :=
  let s := s.setRepo (s.repo r)
  let rp := s.repo r
  match getDesc rp.index arg with
  | none => (s, { status := 404, code := "MANIFEST_UNKNOWN" })
  | some desc =>
    -- a referrers response is maintained by the registry, it is not deleted as a manifest
    if !isTag arg ∧ onlyResponse rp.index desc.dig then (s, { status := 404, code := "MANIFEST_UNKNOWN" }) else
    -- referrers: drop the entry from the subject's response
    let s1 :=
      if !s.conf.ref ∨ isTag arg then s else
      match DigArg.parse desc.dig with
      | .bad => s
      | .ok dg => match rp.blob dg with
        | none => s
        | some content =>
          let b := s.body content
          let subj := match b.kind with | "image" | "index" => b.subj | _ => ""
          if subj = "" then s else referrerDelete s r subj desc
    (indexRemove s1 r desc, { status := 202 })

/-- `strconv.Atoi` on a 64-bit platform: optional sign, decimal digits, range of int64 -/
def atoi? (t : String) : Option Int :=
  let body := if t.startsWith "+" ∨ t.startsWith "-" then (t.drop 1).toString else t
  if body.isEmpty ∨ !body.all Char.isDigit then none else
  match body.toNat? with
  | none => none
  | some k =>
    let v : Int := if t.startsWith "-" then - (k : Int) else (k : Int)
    if v < -9223372036854775808 ∨ v > 9223372036854775807 then none else some v

def insertSorted (x : String) : List String → List String
  | [] => [x]
  | y :: ys => if x ≤ y then x :: y :: ys else y :: insertSorted x ys
def sortS (l : List String) : List String := l.foldl (fun acc x => insertSorted x acc) []

/-- tags/list; `n` is the raw query value ("" absent) -/
def tags (s : State) (r : String) (n : String) (last : String) : State × Resp :=
  let s := s.setRepo (s.repo r)
  let all := (s.repo r).index.manifests.filterMap fun d => if !d.ann.isNil ∧ d.ann.tag ≠ "" ∧ last < d.ann.tag then some d.ann.tag else none
  let sorted := sortS all
  let ok := fun (l : List String) (link : String) => (s, ({ status := 200, body := "[" ++ ",".intercalate l ++ "]", link := link } : Resp))
  if n = "" then ok sorted "" else
  match atoi? n with
  | none => ok sorted ""
  | some ni =>
    if 0 ≤ ni ∧ (sorted.length : Int) > ni then
      let cut := sorted.take ni.toNat
      match cut.getLast? with
      | none => ok cut ""                                      -- n = 0: an empty page without a Link
      | some l => ok cut s!"next(last={l},n={n})"
    else ok sorted ""

def fmtRef (d : Desc) : String := s!"{d.dig}/{d.mt}/{d.size}/{d.atype}/{d.rann}"

/-- `referrerSplit`: pages of a descriptor list that each stay within the limit; an entry too big on its own is
    dropped.  The loop is `PxS.split` (the transcription of referrer.go:217-268) at the JSON size function. -/
def referrerSplit (limit : Nat) (ds : List Desc) : List (List Desc) := PxS.split respSize limit ds

/-- `page, _ := strconv.Atoi(…)` with the error dropped: a syntax error gives 0, a value out of the range of int64 gives the
    nearest bound (Atoi returns it together with its range error); negative values are then set to 0 by the handler -/
def pageOf (pageStr : String) : Nat :=
  let neg := pageStr.startsWith "-"
  let body := if pageStr.startsWith "+" ∨ neg then (pageStr.drop 1).toString else pageStr
  if body.isEmpty ∨ !body.all Char.isDigit then 0 else
  match body.toNat? with
  | none => 0
  | some k => if neg then 0 else min k 9223372036854775807
def refsBody (ds : List Desc) : String := "[" ++ ",".intercalate (ds.map fmtRef) ++ "]"
def emptyRefs : Resp := { status := 200, ct := "ocii", body := "[]" }
/-- the Link to the next page repeats the query of the request with `cache` and `page` set: the filter travels with it -/
def refsLink (page total : Nat) (cacheDig : String) (filter : String := "") : String :=
  if page + 1 < total then
    (if filter = "" then s!"next(cache={cacheDig},page={page + 1})" else s!"next(cache={cacheDig},page={page + 1},at={filter})")
  else ""

def filtHdr (filter : String) : String := if filter ≠ "" then "artifactType" else ""

/-- an answer from the page cache -/
def fromCache (filter : String) (pages : List (List Desc)) (pg : Nat) (cacheDig : String) : Resp :=
  { status := 200, ct := "ocii", filt := filtHdr filter, body := refsBody (pages.getD pg []), link := refsLink pg pages.length cacheDig filter }

/-- a paged request that names a cached response (`cache=<digest>&page=<n>`, n ≠ 0) -/
def refsPaged (s : State) (r arg filter cacheTok : String) (page : Nat) : Option Resp :=
  if cacheTok ≠ "" ∧ page ≠ 0 then
    match DigArg.parse cacheTok with
    | .bad => some { status := 400, code := "UNSUPPORTED" }
    | .ok cd =>
      match s.rcache.find? (·.1 = (r, arg, cd.str, filter)) with
      | some (_, pages) => if page < pages.length then some (fromCache filter pages page cd.str) else none
      | none => none
  else none

/-- the answer generated from the current state -/
def refsMain (s : State) (r arg filter cacheTok : String) (page : Nat) : State × Resp :=
  match getBySubj (s.repo r).index arg with
  | none => (s, emptyRefs)
  | some d =>
    match s.rcache.find? (·.1 = (r, arg, d.dig, filter)) with
    | some (_, pages) => (s, fromCache filter pages (if page ≥ pages.length then 0 else page) d.dig)
    | none =>
      match DigArg.parse d.dig with
      | .bad => (s, emptyRefs)
      | .ok dg => match (s.repo r).blob dg with
        | none => (s, emptyRefs)
        | some content =>
          let full := (s.resp content).getD []
          let out := if filter ≠ "" then full.filter (·.atype = filter) else full
          let outSize := if filter ≠ "" then respSize out else contentLen s content
          if outSize > s.conf.rlimit then
            let pages := referrerSplit s.conf.rlimit out
            if pages.isEmpty then (s, { emptyRefs with filt := filtHdr filter })   -- the header was set before the split
            else
              let cacheSame := match DigArg.parse cacheTok with | .ok cd => cd.str = d.dig | .bad => false
              let pg := if page > 0 ∧ (!cacheSame ∨ page ≥ pages.length) then 0 else page
              ({ s with rcache := s.rcache ++ [((r, arg, d.dig, filter), pages)] },
               { status := 200, ct := "ocii", filt := filtHdr filter, body := refsBody (pages.getD pg []), link := refsLink pg pages.length d.dig filter })
          else
            ({ s with rcache := s.rcache ++ [((r, arg, d.dig, filter), [out])] },
             { status := 200, ct := "ocii", filt := filtHdr filter, body := refsBody out })

/-- referrers GET: `filter` = artifactType parameter, `cacheTok`/`pageStr` = the cache and page parameters -/
def refs (s : State) (r : String) (arg : String) (filter : String) (cacheTok : String := "") (pageStr : String := "") : State × Resp :=
  let s := s.setRepo (s.repo r)
  match refsPaged s r arg filter cacheTok (pageOf pageStr) with
  | some resp => (s, resp)
  | none => refsMain s r arg filter cacheTok (pageOf pageStr)
end Upd
