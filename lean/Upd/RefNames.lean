import Upd.RefHist
/-! The canonical name of a referrers response is injective on lists of token-like descriptors: one of the two
    hypotheses about content names (`Names.inj`) discharged for a concrete class `Tok`. -/
namespace Upd.Rf

/-- token-like descriptor: no annotation, no `,` in any field, no `/` in digest, media type and artifact type -/
structure Tok (d : Desc) : Prop where
  ann : d.ann = {}
  dig : ',' ∉ d.dig.toList ∧ '/' ∉ d.dig.toList
  mt : ',' ∉ d.mt.toList ∧ '/' ∉ d.mt.toList
  atype : ',' ∉ d.atype.toList ∧ '/' ∉ d.atype.toList
  rann : ',' ∉ d.rann.toList

/-- the characters of one formatted entry -/
def fmtL (d : Desc) : List Char :=
  d.dig.toList ++ '/' :: (d.mt.toList ++ '/' :: (Nat.toDigits 10 d.size ++ '/' :: (d.atype.toList ++ '/' :: d.rann.toList)))

theorem respName_toList (ds : List Desc) :
    (respName ds).toList = ['R', '('] ++ ([','].intercalate (ds.map fmtL) ++ [')']) := by
  have h : (ds.map fun d => s!"{d.dig}/{d.mt}/{d.size}/{d.atype}/{d.rann}").map String.toList = ds.map fmtL := by
    rw [List.map_map]
    apply List.map_congr_left
    intro d _
    simp [fmtL, toString]
  simp only [respName, String.toList_append, String.toList_intercalate, h]
  simp

theorem append_cons_inj (c : Char) : ∀ (a a' b b' : List Char), c ∉ a → c ∉ a' → a ++ c :: b = a' ++ c :: b' → a = a' ∧ b = b' := by
  intro a
  induction a with
  | nil =>
    intro a' b b' _ h2 h
    cases a' with
    | nil => simp at h; exact ⟨rfl, h⟩
    | cons x xs =>
      simp only [List.nil_append, List.cons_append, List.cons.injEq] at h
      exfalso; apply h2; rw [← h.1]; simp
  | cons x xs ih =>
    intro a' b b' h1 h2 h
    cases a' with
    | nil =>
      simp only [List.nil_append, List.cons_append, List.cons.injEq] at h
      exfalso; apply h1; rw [h.1]; simp
    | cons y ys =>
      simp only [List.cons_append, List.cons.injEq] at h
      obtain ⟨hxy, hrest⟩ := h
      obtain ⟨h3, h4⟩ := ih ys b b' (fun hc => h1 (List.mem_cons_of_mem _ hc)) (fun hc => h2 (List.mem_cons_of_mem _ hc)) hrest
      exact ⟨by rw [hxy, h3], h4⟩

theorem slash_not_digit (n : Nat) : '/' ∉ Nat.toDigits 10 n := by
  intro h
  have := Nat.isDigit_of_mem_toDigits (by decide) (by decide) h
  revert this; decide

theorem comma_not_digit (n : Nat) : ',' ∉ Nat.toDigits 10 n := by
  intro h
  have := Nat.isDigit_of_mem_toDigits (by decide) (by decide) h
  revert this; decide

theorem toDigits_inj (n m : Nat) (h : Nat.toDigits 10 n = Nat.toDigits 10 m) : n = m := by
  have h1 := @Nat.ofDigitChars_ten_toDigits n
  rw [h, Nat.ofDigitChars_ten_toDigits] at h1
  exact h1.symm

theorem fmtL_inj (d d' : Desc) (hd : Tok d) (hd' : Tok d') (h : fmtL d = fmtL d') : d = d' := by
  unfold fmtL at h
  obtain ⟨h1, h⟩ := append_cons_inj '/' _ _ _ _ hd.dig.2 hd'.dig.2 h
  obtain ⟨h2, h⟩ := append_cons_inj '/' _ _ _ _ hd.mt.2 hd'.mt.2 h
  obtain ⟨h3, h⟩ := append_cons_inj '/' _ _ _ _ (slash_not_digit _) (slash_not_digit _) h
  obtain ⟨h4, h5⟩ := append_cons_inj '/' _ _ _ _ hd.atype.2 hd'.atype.2 h
  have e1 := String.toList_injective h1
  have e2 := String.toList_injective h2
  have e3 := toDigits_inj _ _ h3
  have e4 := String.toList_injective h4
  have e5 := String.toList_injective h5
  have e6 : d.ann = d'.ann := by rw [hd.ann, hd'.ann]
  cases d; cases d'
  simp only [Desc.mk.injEq]
  simp only [] at e1 e2 e3 e4 e5 e6
  exact ⟨e2, e1, e3, e6, e4, e5⟩

theorem fmtL_no_comma (d : Desc) (hd : Tok d) : ',' ∉ fmtL d := by
  unfold fmtL
  simp only [List.mem_append, List.mem_cons, not_or]
  have hc : ¬ (',' = '/') := by decide
  exact ⟨hd.dig.1, hc, hd.mt.1, hc, comma_not_digit _, hc, hd.atype.1, hc, hd.rann⟩

theorem fmtL_ne_nil (d : Desc) : fmtL d ≠ [] := by
  unfold fmtL; simp

theorem map_fmtL_inj : ∀ (ds ds' : List Desc), (∀ d ∈ ds, Tok d) → (∀ d ∈ ds', Tok d) → ds.map fmtL = ds'.map fmtL → ds = ds' := by
  intro ds
  induction ds with
  | nil => intro ds' _ _ h; cases ds' with
    | nil => rfl
    | cons _ _ => simp at h
  | cons x xs ih =>
    intro ds' h1 h2 h
    cases ds' with
    | nil => simp at h
    | cons y ys =>
      simp only [List.map_cons, List.cons.injEq] at h
      have hx := fmtL_inj x y (h1 x List.mem_cons_self) (h2 y List.mem_cons_self) h.1
      have hr := ih ys (fun d hd => h1 d (List.mem_cons_of_mem _ hd)) (fun d hd => h2 d (List.mem_cons_of_mem _ hd)) h.2
      rw [hx, hr]

/-- the canonical name determines the list, among lists of token-like descriptors -/
theorem respName_inj (ds ds' : List Desc) (h1 : ∀ d ∈ ds, Tok d) (h2 : ∀ d ∈ ds', Tok d)
    (h : respName ds = respName ds') : ds = ds' := by
  have hl : (respName ds).toList = (respName ds').toList := by rw [h]
  rw [respName_toList, respName_toList] at hl
  have hl := List.append_cancel_left hl
  have hl := List.append_cancel_right hl
  have hc : ∀ (l : List Desc), (∀ d ∈ l, Tok d) → ∀ x ∈ l.map fmtL, ',' ∉ x := by
    intro l hl x hx
    obtain ⟨d, hd, rfl⟩ := List.mem_map.mp hx
    exact fmtL_no_comma d (hl d hd)
  -- an empty list of entries cannot have the name of a non-empty one: entries are never empty
  have hempty : ∀ (l : List Desc), (∀ d ∈ l, Tok d) → [','].intercalate (l.map fmtL) = [] → l = [] := by
    intro l hT he
    cases l with
    | nil => rfl
    | cons x xs =>
      exfalso
      have hs := List.splitOn_intercalate ',' (hc _ hT) (by simp)
      rw [he] at hs
      simp only [List.splitOn_nil, List.map_cons, List.cons.injEq] at hs
      exact fmtL_ne_nil x hs.1.symm
  by_cases hn : ds = []
  · subst hn
    simp only [List.map_nil, List.intercalate_nil] at hl
    exact (hempty ds' h2 hl.symm).symm
  · by_cases hn' : ds' = []
    · subst hn'
      simp only [List.map_nil, List.intercalate_nil] at hl
      exact absurd (hempty ds h1 hl) hn
    · have s1 := List.splitOn_intercalate ',' (hc ds h1) (by simpa using hn)
      have s2 := List.splitOn_intercalate ',' (hc ds' h2) (by simpa using hn')
      rw [hl, s2] at s1
      exact map_fmtL_inj ds ds' h1 h2 s1.symm

/-- so the hypotheses about content names reduce to the round trip of response digests -/
theorem names_of_roundtrip (hrt : ∀ ds, (∀ d ∈ ds, Tok d) → DigRT (respDig ds)) : Names Tok :=
  ⟨respName_inj, hrt⟩
end Upd.Rf
