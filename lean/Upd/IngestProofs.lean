import Upd.IngestLemmas
/-!
# The conversion, phase by phase, on the observations of the index

`HasTag`, `HasResp`, `Listed` (Upd/IngestLemmas.lean) are what the registry API can see of an index: which digest a
tag names, which blob answers the referrers API for a subject, which digests are listed.  This file says what each
step of `indexIngest` does to them.
-/
namespace Upd

/-! ## one `AddDesc` of a response -/

theorem dropS_false_of_ordinary (D S : String) (hS : S ≠ "") (e : Desc) (h : e.ann.isNil = true ∨ e.ann.subj = "") :
    dropS D S e = false := by
  unfold dropS
  simp only [decide_eq_false_iff_not]
  rintro ⟨_, h2, h3⟩
  rcases h with h | h
  · rw [h] at h2; cases h2
  · rw [h] at h3; exact hS h3.symm

theorem not_overwritable_of_tagged (D S : String) (e : Desc) (h1 : e.ann.isNil = false) (h2 : e.ann.tag ≠ "") :
    ¬ overwritable D S e := by
  rintro ⟨_, h | ⟨h, _⟩⟩
  · rw [h] at h1; cases h1
  · exact h2 h

section addresp
variable (ix : Index) (mt D : String) (size : Nat) (S : String) (hS : S ≠ "") (hnb : NoBoth ix.manifests)
include hS hnb

theorem addResp_noBoth : NoBoth (addDesc ix (respDesc mt D size S)).manifests := by
  intro e he hn
  rcases (addDesc_resp ix mt D size S hS).origin e he with h | ⟨h, _⟩
  · subst h; left; rfl
  · exact hnb e h hn

/-- tagged entries are neither removed nor overwritten nor created -/
theorem addResp_tagged (e : Desc) (hn : e.ann.isNil = false) (ht : e.ann.tag ≠ "") :
    e ∈ (addDesc ix (respDesc mt D size S)).manifests ↔ e ∈ ix.manifests := by
  constructor
  · intro he
    rcases (addDesc_resp ix mt D size S hS).origin e he with h | ⟨h, _⟩
    · subst h; exact absurd rfl ht
    · exact h
  · intro he
    have hsub : e.ann.subj = "" := by
      rcases hnb e he hn with h | h
      · exact absurd h ht
      · exact h
    rcases (addDesc_resp ix mt D size S hS).frame e he (dropS_false_of_ordinary D S hS e (Or.inr hsub)) with h | h
    · exact h
    · exact absurd h (not_overwritable_of_tagged D S e hn ht)

theorem addResp_hasTag (t g : String) (ht : t ≠ "") :
    HasTag (addDesc ix (respDesc mt D size S)) t g ↔ HasTag ix t g := by
  unfold HasTag
  constructor
  · rintro ⟨e, he, hn, h1, h2⟩
    exact ⟨e, (addResp_tagged ix mt D size S hS hnb e hn (by rw [h1]; exact ht)).mp he, hn, h1, h2⟩
  · rintro ⟨e, he, hn, h1, h2⟩
    exact ⟨e, (addResp_tagged ix mt D size S hS hnb e hn (by rw [h1]; exact ht)).mpr he, hn, h1, h2⟩

theorem addResp_hasResp (S' g : String) (hS' : S' ≠ "") :
    HasResp (addDesc ix (respDesc mt D size S)) S' g ↔ (S' = S ∧ g = D) ∨ (S' ≠ S ∧ HasResp ix S' g) := by
  have spec := addDesc_resp ix mt D size S hS
  unfold HasResp
  constructor
  · rintro ⟨e, he, hn, h1, h2⟩
    rcases spec.origin e he with h | ⟨h, hd⟩
    · subst h; exact Or.inl ⟨h1.symm, h2.symm⟩
    · by_cases hSS : S' = S
      · left
        refine ⟨hSS, ?_⟩
        unfold dropS at hd
        simp only [decide_eq_false_iff_not, not_and] at hd
        have : ¬ e.dig ≠ D := fun hne => hd hne hn (by rw [h1, hSS])
        rw [← h2]; exact Classical.not_not.mp this
      · exact Or.inr ⟨hSS, e, h, hn, h1, h2⟩
  · rintro (⟨h1, h2⟩ | ⟨hne, e, he, hn, h1, h2⟩)
    · exact ⟨respDesc mt D size S, spec.mem, rfl, h1.symm, h2.symm⟩
    · have hd : dropS D S e = false := by
        unfold dropS
        simp only [decide_eq_false_iff_not]
        rintro ⟨_, _, h3⟩
        rw [h1] at h3; exact hne h3
      rcases spec.frame e he hd with h | ⟨_, h | ⟨_, h | h⟩⟩
      · exact ⟨e, h, hn, h1, h2⟩
      · rw [h] at hn; cases hn
      · rw [h1] at h; exact absurd h hS'
      · rw [h1] at h; exact absurd h hne

theorem addResp_listed (g : String) :
    Listed (addDesc ix (respDesc mt D size S)) g ↔ g = D ∨ ∃ e ∈ ix.manifests, e.dig = g ∧ dropS D S e = false := by
  have spec := addDesc_resp ix mt D size S hS
  unfold Listed
  constructor
  · rintro ⟨e, he, h2⟩
    rcases spec.origin e he with h | ⟨h, hd⟩
    · subst h; exact Or.inl h2.symm
    · exact Or.inr ⟨e, h, h2, hd⟩
  · rintro (h | ⟨e, he, h2, hd⟩)
    · exact ⟨respDesc mt D size S, spec.mem, h.symm⟩
    · rcases spec.frame e he hd with h | ⟨h, _⟩
      · exact ⟨e, h, h2⟩
      · exact ⟨respDesc mt D size S, spec.mem, by rw [← h2, h]; rfl⟩
end addresp

theorem findIdx_nil (p : Desc → Bool) (i : Nat) : findIdx p [] i = none := rfl

theorem addDesc_resp_children_nil (ix : Index) (mt D : String) (size : Nat) (S : String) (hS : S ≠ "")
    (h : ix.children = []) : (addDesc ix (respDesc mt D size S)).children = [] := by
  have hc : (addUntagLoop (respDesc mt D size S) "" S ix.manifests.length ix).children = [] := by
    rw [addUntagLoop_subj_children _ S hS]; exact h
  unfold addDesc
  simp only [moveChildren]
  have e1 : (if (respDesc mt D size S).ann.isNil = true then "" else (respDesc mt D size S).ann.tag) = "" := rfl
  have e2 : (if (respDesc mt D size S).ann.isNil = true then "" else (respDesc mt D size S).ann.subj) = S := rfl
  rw [e1, e2]
  have e3 : (("" : String) ≠ "" ∨ S ≠ "") := Or.inr hS
  have e4 : ¬ (("" : String) = "" ∧ S = "") := fun h => hS h.2
  rw [if_pos e3, if_neg e4]
  simp only
  split
  · rename_i ci heq
    rw [hc, findIdx_nil] at heq
    cases heq
  · exact hc

/-- `AddDesc` of a descriptor without tag and referrer annotation, on an index without recorded children -/
theorem addDesc_plain_eq (ms : List Desc) (d : Desc) (hd : d.ann.isNil = true ∨ (d.ann.tag = "" ∧ d.ann.subj = "")) :
    addDesc { manifests := ms, children := [] } d =
      if ms.any (fun x => decide (x.dig = d.dig)) then { manifests := ms, children := [] }
      else { manifests := ms ++ [d], children := [] } := by
  have ht : (if d.ann.isNil = true then "" else d.ann.tag) = "" := by
    rcases hd with h | h
    · simp [h]
    · simp [h.1]
  have hs : (if d.ann.isNil = true then "" else d.ann.subj) = "" := by
    rcases hd with h | h
    · simp [h]
    · simp [h.2]
  unfold addDesc
  simp [ht, hs, moveChildren, findIdx_nil]

theorem addDesc_plain_children_nil (ix : Index) (d : Desc) (hd : d.ann.isNil = true ∨ (d.ann.tag = "" ∧ d.ann.subj = ""))
    (h : ix.children = []) : (addDesc ix d).children = [] := by
  obtain ⟨ms, cs⟩ := ix
  simp only at h; subst h
  rw [addDesc_plain_eq ms d hd]
  split <;> rfl

/-- a descriptor without tag and referrer annotation whose digest is listed changes nothing -/
theorem addDesc_plain_listed (ix : Index) (d : Desc) (hd : d.ann.isNil = true ∨ (d.ann.tag = "" ∧ d.ann.subj = ""))
    (hl : Listed ix d.dig) (h : ix.children = []) : addDesc ix d = ix := by
  obtain ⟨ms, cs⟩ := ix
  simp only at h; subst h
  rw [addDesc_plain_eq ms d hd]
  have hany : ms.any (fun x => decide (x.dig = d.dig)) = true := by
    obtain ⟨e, he, hdg⟩ := hl
    simp only [List.any_eq_true, decide_eq_true_eq]
    exact ⟨e, he, hdg⟩
  rw [if_pos hany]

/-! ## one `RmDesc` of a processed fallback tag -/

section rmtag
variable (ix : Index) (T : Desc) (hd : T.dig ≠ "") (hn : T.ann.isNil = false) (ht : T.ann.tag ≠ "")

include hd hn ht in
theorem rmTag_noBoth (hnb : NoBoth ix.manifests) : NoBoth (rmDesc ix T).manifests := by
  intro e' he' hnil
  obtain ⟨e, he, h | ⟨h, _⟩⟩ := (rmDesc_tag ix T hd hn ht).origin e' he'
  · subst h; exact hnb e' he hnil
  · subst h; left; rfl

include hd hn ht in
/-- an entry that carries another tag stays as it is -/
theorem rmTag_mem_tagged (e : Desc) (he : e ∈ ix.manifests) (h2 : e.ann.tag ≠ "") (h3 : e.ann.tag ≠ T.ann.tag) :
    e ∈ (rmDesc ix T).manifests :=
  (rmDesc_tag ix T hd hn ht).frame e he (Or.inr ⟨len_ne_zero_of_tag e h2, h3⟩)

include hd hn ht in
theorem rmTag_hasTag_of (t g : String) (htne : t ≠ "") (h : HasTag (rmDesc ix T) t g) : HasTag ix t g := by
  obtain ⟨e', he', hnil, h1, h2⟩ := h
  obtain ⟨e, he, h | ⟨h, _⟩⟩ := (rmDesc_tag ix T hd hn ht).origin e' he'
  · subst h; exact ⟨e', he, hnil, h1, h2⟩
  · subst h
    exact absurd h1.symm htne

include hd hn ht in
theorem rmTag_hasTag (t g : String) (htne : t ≠ "") (hne : t ≠ T.ann.tag) :
    HasTag (rmDesc ix T) t g ↔ HasTag ix t g := by
  constructor
  · exact rmTag_hasTag_of ix T hd hn ht t g htne
  · rintro ⟨e, he, hnil, h1, h2⟩
    exact ⟨e, rmTag_mem_tagged ix T hd hn ht e he (by rw [h1]; exact htne) (by rw [h1]; exact hne), hnil, h1, h2⟩

include hd hn ht in
theorem rmTag_hasResp (hnb : NoBoth ix.manifests) (S g : String) (hS : S ≠ "") :
    HasResp (rmDesc ix T) S g ↔ HasResp ix S g := by
  constructor
  · rintro ⟨e', he', hnil, h1, h2⟩
    obtain ⟨e, he, h | ⟨h, _⟩⟩ := (rmDesc_tag ix T hd hn ht).origin e' he'
    · subst h; exact ⟨e', he, hnil, h1, h2⟩
    · subst h
      exact ⟨e, he, hnil, h1, h2⟩
  · rintro ⟨e, he, hnil, h1, h2⟩
    have hsub : e.ann.subj ≠ "" := by rw [h1]; exact hS
    have htag : e.ann.tag = "" := by
      rcases hnb e he hnil with h | h
      · exact h
      · exact absurd h hsub
    refine ⟨e, (rmDesc_tag ix T hd hn ht).frame e he (Or.inr ⟨len_ne_zero_of_subj e hsub, ?_⟩), hnil, h1, h2⟩
    rw [htag]; exact fun h => ht h.symm

include hd hn ht in
theorem rmTag_listed (g : String) : Listed (rmDesc ix T) g ↔ Listed ix g := by
  constructor
  · rintro ⟨e', he', h2⟩
    obtain ⟨e, he, h | ⟨h, _⟩⟩ := (rmDesc_tag ix T hd hn ht).origin e' he'
    · subst h; exact ⟨e', he, h2⟩
    · subst h; exact ⟨e, he, h2⟩
  · rintro ⟨e, he, h2⟩
    by_cases hg : e.dig = T.dig
    · obtain ⟨e', he', h'⟩ := (rmDesc_tag ix T hd hn ht).keeps ⟨e, he, hg⟩
      exact ⟨e', he', by rw [h', ← hg, h2]⟩
    · exact ⟨e, (rmDesc_tag ix T hd hn ht).frame e he (Or.inl hg), h2⟩
end rmtag

/-- what is known about every fallback tag that the conversion removes -/
def RmOk (T : Desc) : Prop := T.dig ≠ "" ∧ T.ann.isNil = false ∧ isFallbackTag T.ann.tag = true

/-- the clean-up of the processed fallback tags (`for _, d := range rmDesc { index.RmDesc(d) }`) -/
theorem rmFold_spec : ∀ (rm : List Desc) (ix : Index), (∀ T ∈ rm, RmOk T) → NoBoth ix.manifests →
    NoBoth (rm.foldl rmDesc ix).manifests ∧
    (∀ S g, S ≠ "" → (HasResp (rm.foldl rmDesc ix) S g ↔ HasResp ix S g)) ∧
    (∀ g, Listed (rm.foldl rmDesc ix) g ↔ Listed ix g) ∧
    (∀ t g, t ≠ "" → HasTag (rm.foldl rmDesc ix) t g → HasTag ix t g) ∧
    (∀ t g, t ≠ "" → isFallbackTag t = false → (HasTag (rm.foldl rmDesc ix) t g ↔ HasTag ix t g)) ∧
    (∀ e ∈ ix.manifests, e.ann.tag ≠ "" → isFallbackTag e.ann.tag = false → e ∈ (rm.foldl rmDesc ix).manifests) ∧
    (rm.foldl rmDesc ix).children = ix.children := by
  intro rm
  induction rm with
  | nil =>
    intro ix _ hnb
    exact ⟨hnb, fun _ _ _ => Iff.rfl, fun _ => Iff.rfl, fun _ _ _ h => h, fun _ _ _ _ => Iff.rfl, fun _ h _ _ => h, rfl⟩
  | cons T rest ih =>
    intro ix hok hnb
    simp only [List.foldl_cons]
    obtain ⟨hd, hn, hfb⟩ := hok T List.mem_cons_self
    have ht : T.ann.tag ≠ "" := isFallbackTag_ne_empty _ hfb
    have hnb' := rmTag_noBoth ix T hd hn ht hnb
    obtain ⟨i1, i2, i3, i4, i5, i6, i7⟩ := ih (rmDesc ix T) (fun T' h => hok T' (List.mem_cons_of_mem _ h)) hnb'
    refine ⟨i1, ?_, ?_, ?_, ?_, ?_, ?_⟩
    · intro S g hS; rw [i2 S g hS, rmTag_hasResp ix T hd hn ht hnb S g hS]
    · intro g; rw [i3 g, rmTag_listed ix T hd hn ht g]
    · intro t g htne h; exact rmTag_hasTag_of ix T hd hn ht t g htne (i4 t g htne h)
    · intro t g htne hnf
      have hne : t ≠ T.ann.tag := by intro h; rw [h, hfb] at hnf; cases hnf
      rw [i5 t g htne hnf, rmTag_hasTag ix T hd hn ht t g htne hne]
    · intro e he h2 h3
      have hne : e.ann.tag ≠ T.ann.tag := by intro h; rw [h, hfb] at h3; cases h3
      exact i6 e (rmTag_mem_tagged ix T hd hn ht e he h2 hne) h2 h3
    · rw [i7, (rmDesc_tag ix T hd hn ht).children]

theorem rmTag_hasTag_iff (ix : Index) (T : Desc) (hd : T.dig ≠ "") (hn : T.ann.isNil = false) (ht : T.ann.tag ≠ "")
    (t g : String) (htne : t ≠ "") :
    HasTag (rmDesc ix T) t g ↔ HasTag ix t g ∧ ¬ (T.ann.tag = t ∧ T.dig = g) := by
  constructor
  · intro h
    refine ⟨rmTag_hasTag_of ix T hd hn ht t g htne h, ?_⟩
    rintro ⟨h1, h2⟩
    obtain ⟨e, he, hnil, h3, h4⟩ := h
    exact (rmDesc_tag ix T hd hn ht).gone e he ⟨by rw [h4, h2], hnil, by rw [h3, h1]⟩
  · rintro ⟨⟨e, he, hnil, h1, h2⟩, hnot⟩
    refine ⟨e, (rmDesc_tag ix T hd hn ht).frame e he ?_, hnil, h1, h2⟩
    by_cases hdg : e.dig = T.dig
    · right
      refine ⟨len_ne_zero_of_tag e (by rw [h1]; exact htne), ?_⟩
      intro htag
      exact hnot ⟨by rw [← htag, h1], by rw [← hdg, h2]⟩
    · exact Or.inl hdg

/-- after the clean-up a tag names a digest iff it did before and it is not one of the removed fallback tags -/
theorem rmFold_tags : ∀ (rm : List Desc) (ix : Index), (∀ T ∈ rm, RmOk T) → ∀ t g, t ≠ "" →
    (HasTag (rm.foldl rmDesc ix) t g ↔ HasTag ix t g ∧ ∀ T ∈ rm, ¬ (T.ann.tag = t ∧ T.dig = g)) := by
  intro rm
  induction rm with
  | nil =>
    intro ix _ t g _
    constructor
    · intro h; exact ⟨h, fun T hT => by cases hT⟩
    · exact fun h => h.1
  | cons T rest ih =>
    intro ix hok t g htne
    simp only [List.foldl_cons]
    obtain ⟨hd, hn, hfb⟩ := hok T List.mem_cons_self
    have ht : T.ann.tag ≠ "" := isFallbackTag_ne_empty _ hfb
    rw [ih (rmDesc ix T) (fun T' h => hok T' (List.mem_cons_of_mem _ h)) t g htne,
      rmTag_hasTag_iff ix T hd hn ht t g htne]
    constructor
    · rintro ⟨⟨h1, h2⟩, h3⟩
      refine ⟨h1, ?_⟩
      intro T' hT'
      rcases List.mem_cons.mp hT' with e | e
      · subst e; exact h2
      · exact h3 T' e
    · rintro ⟨h1, h2⟩
      exact ⟨⟨h1, h2 T List.mem_cons_self⟩, fun T' hT' => h2 T' (List.mem_cons_of_mem _ hT')⟩

/-! ## the regenerated responses -/

/-- the blob of every recorded response is there -/
def RespPresent (bs : List (String × INode)) (respOf : List (String × Desc)) : Prop :=
  ∀ S r, lookupResp respOf S = some r → (lookup bs r.dig).isSome = true

/-- the list written for `kv`, and its digest -/
def regenList (bs : List (String × INode)) (respOf : List (String × Desc)) (kv : String × List Desc) : List Desc :=
  dedup (kv.2 ++ oldContent bs respOf kv.1)
def regenName (nm : List Desc → String) (bs : List (String × INode)) (respOf : List (String × Desc))
    (kv : String × List Desc) : String := nm (regenList bs respOf kv)

/-- writing a blob unless it exists -/
def putBlob (bs : List (String × INode)) (p : String × List Desc) : List (String × INode) :=
  if (lookup bs p.1).isSome then bs else bs ++ [(p.1, .idx p.2)]

theorem regenStep_eq (nm : List Desc → String) (respOf : List (String × Desc)) (s : IState) (kv : String × List Desc) :
    regenStep nm respOf s kv =
      { s with blobs := putBlob s.blobs (regenName nm s.blobs respOf kv, regenList s.blobs respOf kv),
               index := addDesc s.index (respDesc "ocii" (regenName nm s.blobs respOf kv) 0 kv.1) } := rfl

theorem putBlob_ext (bs : List (String × INode)) (p : String × List Desc) (g : String) (n : INode)
    (h : lookup bs g = some n) : lookup (putBlob bs p) g = some n := by
  unfold putBlob
  split
  · exact h
  · exact lookup_append_some _ _ _ _ h

theorem oldContent_stable (bs bs' : List (String × INode)) (respOf : List (String × Desc)) (hrp : RespPresent bs respOf)
    (hext : ∀ g n, lookup bs g = some n → lookup bs' g = some n) (S : String) :
    oldContent bs' respOf S = oldContent bs respOf S := by
  rw [oldContent_eq, oldContent_eq]
  cases hl : lookupResp respOf S with
  | none => rfl
  | some r =>
    simp only
    have := hrp S r hl
    cases hb : lookup bs r.dig with
    | none => rw [hb] at this; cases this
    | some n => exact content_congr (by rw [hext _ _ hb, hb])

theorem respPresent_ext (bs bs' : List (String × INode)) (respOf : List (String × Desc)) (hrp : RespPresent bs respOf)
    (hext : ∀ g n, lookup bs g = some n → lookup bs' g = some n) : RespPresent bs' respOf := by
  intro S r hl
  have := hrp S r hl
  cases hb : lookup bs r.dig with
  | none => rw [hb] at this; cases this
  | some n => rw [hext _ _ hb]; rfl

/-- the index part of the loop over `addResp`, with the digests computed beforehand -/
def ixFold (ps : List (String × String)) (ix : Index) : Index :=
  ps.foldl (fun ix p => addDesc ix (respDesc "ocii" p.2 0 p.1)) ix

/-- the blob part -/
def blobFold (ps : List (String × List Desc)) (bs : List (String × INode)) : List (String × INode) := ps.foldl putBlob bs

theorem regenFold_decomp (nm : List Desc → String) (respOf : List (String × Desc)) :
    ∀ (L : List (String × List Desc)) (s0 : IState), RespPresent s0.blobs respOf →
      (L.foldl (regenStep nm respOf) s0).index = ixFold (L.map fun kv => (kv.1, regenName nm s0.blobs respOf kv)) s0.index ∧
      (L.foldl (regenStep nm respOf) s0).blobs =
        blobFold (L.map fun kv => (regenName nm s0.blobs respOf kv, regenList s0.blobs respOf kv)) s0.blobs ∧
      (L.foldl (regenStep nm respOf) s0).converted = s0.converted := by
  intro L
  induction L with
  | nil => intro s0 _; exact ⟨rfl, rfl, rfl⟩
  | cons kv rest ih =>
    intro s0 hrp
    simp only [List.foldl_cons, List.map_cons]
    have hext : ∀ g n, lookup s0.blobs g = some n → lookup (regenStep nm respOf s0 kv).blobs g = some n := by
      intro g n h; rw [regenStep_eq]; exact putBlob_ext _ _ g n h
    have hrp' := respPresent_ext _ _ respOf hrp hext
    obtain ⟨i1, i2, i3⟩ := ih (regenStep nm respOf s0 kv) hrp'
    have hstab : ∀ kv', regenList (regenStep nm respOf s0 kv).blobs respOf kv' = regenList s0.blobs respOf kv' := by
      intro kv'; unfold regenList; rw [oldContent_stable _ _ respOf hrp hext]
    have hstabN : ∀ kv', regenName nm (regenStep nm respOf s0 kv).blobs respOf kv' = regenName nm s0.blobs respOf kv' := by
      intro kv'; unfold regenName; rw [hstab]
    refine ⟨?_, ?_, ?_⟩
    · rw [i1]; simp only [hstabN]; rfl
    · rw [i2]; simp only [hstabN, hstab]; rfl
    · rw [i3]; rfl

theorem blobFold_spec : ∀ (ps : List (String × List Desc)) (bs : List (String × INode)),
    (∀ g n, lookup bs g = some n → lookup (blobFold ps bs) g = some n) ∧
    (∀ g n, lookup (blobFold ps bs) g = some n → lookup bs g = some n ∨ ∃ p ∈ ps, g = p.1 ∧ n = .idx p.2) ∧
    (∀ p ∈ ps, (lookup (blobFold ps bs) p.1).isSome = true) := by
  intro ps
  induction ps with
  | nil =>
    intro bs
    exact ⟨fun _ _ h => h, fun _ _ h => Or.inl h, fun p hp => by cases hp⟩
  | cons p rest ih =>
    intro bs
    unfold blobFold
    simp only [List.foldl_cons]
    obtain ⟨i1, i2, i3⟩ := ih (putBlob bs p)
    unfold blobFold at i1 i2 i3
    refine ⟨?_, ?_, ?_⟩
    · intro g n h; exact i1 g n (putBlob_ext bs p g n h)
    · intro g n h
      rcases i2 g n h with h' | ⟨p', hp', h1, h2⟩
      · unfold putBlob at h'
        split at h'
        · exact Or.inl h'
        · cases hb : lookup bs g with
          | some n' => rw [lookup_append_some _ _ _ _ hb] at h'; cases h'; exact Or.inl rfl
          | none =>
            rw [lookup_append_none _ _ _ hb, lookup_singleton] at h'
            split at h'
            · rename_i hk
              cases h'
              exact Or.inr ⟨p, List.mem_cons_self, hk.symm, rfl⟩
            · cases h'
      · exact Or.inr ⟨p', List.mem_cons_of_mem _ hp', h1, h2⟩
    · intro p' hp'
      rcases List.mem_cons.mp hp' with e | e
      · subst e
        have : (lookup (putBlob bs p') p'.1).isSome = true := by
          unfold putBlob
          split
          · assumption
          · rename_i hnone
            have hb : lookup bs p'.1 = none := by
              cases hl : lookup bs p'.1 with
              | none => rfl
              | some n => rw [hl] at hnone; simp at hnone
            rw [lookup_append_none _ _ _ hb, lookup_singleton]; simp
        cases hl : lookup (putBlob bs p') p'.1 with
        | none => rw [hl] at this; cases this
        | some n => rw [i1 _ _ hl]; rfl
      · exact i3 p' e

/-- the loop over `addResp`, on the observations of the index: closed form, independent of the order of `ps` -/
theorem ixFold_spec : ∀ (ps : List (String × String)) (ix : Index),
    (ps.map (·.1)).Nodup → (∀ p ∈ ps, p.1 ≠ "") → NoBoth ix.manifests → ix.children = [] →
    NoBoth (ixFold ps ix).manifests ∧ (ixFold ps ix).children = [] ∧
    (∀ e, e.ann.isNil = false → e.ann.tag ≠ "" → (e ∈ (ixFold ps ix).manifests ↔ e ∈ ix.manifests)) ∧
    (∀ S g, S ≠ "" → (HasResp (ixFold ps ix) S g ↔
        (∃ p ∈ ps, p.1 = S ∧ g = p.2) ∨ ((∀ p ∈ ps, p.1 ≠ S) ∧ HasResp ix S g))) ∧
    (∀ g, Listed (ixFold ps ix) g ↔
        (∃ p ∈ ps, g = p.2) ∨ (∃ e ∈ ix.manifests, e.dig = g ∧ ∀ p ∈ ps, dropS p.2 p.1 e = false)) := by
  intro ps
  induction ps with
  | nil =>
    intro ix _ _ hnb hch
    refine ⟨hnb, hch, fun _ _ _ => Iff.rfl, ?_, ?_⟩
    · intro S g _
      constructor
      · intro h; exact Or.inr ⟨fun p hp => (by cases hp), h⟩
      · rintro (⟨p, hp, _⟩ | ⟨_, h⟩)
        · cases hp
        · exact h
    · intro g
      constructor
      · rintro ⟨e, he, h⟩; exact Or.inr ⟨e, he, h, fun p hp => (by cases hp)⟩
      · rintro (⟨p, hp, _⟩ | ⟨e, he, h, _⟩)
        · cases hp
        · exact ⟨e, he, h⟩
  | cons p rest ih =>
    intro ix hnd hne hnb hch
    simp only [List.map_cons, List.nodup_cons] at hnd
    have hS : p.1 ≠ "" := hne p List.mem_cons_self
    have hnb1 := addResp_noBoth ix "ocii" p.2 0 p.1 hS hnb
    have hch1 := addDesc_resp_children_nil ix "ocii" p.2 0 p.1 hS hch
    obtain ⟨i1, i2, i3, i4, i5⟩ := ih (addDesc ix (respDesc "ocii" p.2 0 p.1)) hnd.2
      (fun q hq => hne q (List.mem_cons_of_mem _ hq)) hnb1 hch1
    have hfold : ixFold (p :: rest) ix = ixFold rest (addDesc ix (respDesc "ocii" p.2 0 p.1)) := rfl
    rw [hfold]
    have hnotin : ∀ q ∈ rest, q.1 ≠ p.1 := by
      intro q hq h
      exact hnd.1 (List.mem_map.mpr ⟨q, hq, h⟩)
    refine ⟨i1, i2, ?_, ?_, ?_⟩
    · intro e hn ht
      rw [i3 e hn ht, addResp_tagged ix "ocii" p.2 0 p.1 hS hnb e hn ht]
    · intro S g hSne
      rw [i4 S g hSne, addResp_hasResp ix "ocii" p.2 0 p.1 hS hnb S g hSne]
      constructor
      · rintro (⟨q, hq, h1, h2⟩ | ⟨hall, ⟨h1, h2⟩ | ⟨h1, h2⟩⟩)
        · exact Or.inl ⟨q, List.mem_cons_of_mem _ hq, h1, h2⟩
        · exact Or.inl ⟨p, List.mem_cons_self, h1.symm, h2⟩
        · right
          refine ⟨?_, h2⟩
          intro q hq
          rcases List.mem_cons.mp hq with e | e
          · subst e; exact fun h => h1 h.symm
          · exact hall q e
      · rintro (⟨q, hq, h1, h2⟩ | ⟨hall, h⟩)
        · rcases List.mem_cons.mp hq with e | e
          · subst e
            right
            refine ⟨?_, Or.inl ⟨h1.symm, h2⟩⟩
            intro q' hq' h
            exact hnotin q' hq' (by rw [h, h1])
          · exact Or.inl ⟨q, e, h1, h2⟩
        · right
          refine ⟨fun q hq => hall q (List.mem_cons_of_mem _ hq), Or.inr ⟨?_, h⟩⟩
          exact fun h => hall p List.mem_cons_self h.symm
    · intro g
      rw [i5 g]
      constructor
      · rintro (⟨q, hq, h⟩ | ⟨e, he, h1, h2⟩)
        · exact Or.inl ⟨q, List.mem_cons_of_mem _ hq, h⟩
        · rcases (addDesc_resp ix "ocii" p.2 0 p.1 hS).origin e he with h | ⟨h, hd⟩
          · subst h
            exact Or.inl ⟨p, List.mem_cons_self, h1.symm⟩
          · right
            refine ⟨e, h, h1, ?_⟩
            intro q hq
            rcases List.mem_cons.mp hq with e' | e'
            · subst e'; exact hd
            · exact h2 q e'
      · rintro (⟨q, hq, h⟩ | ⟨e, he, h1, h2⟩)
        · rcases List.mem_cons.mp hq with e | e
          · subst e
            right
            refine ⟨respDesc "ocii" q.2 0 q.1, (addDesc_resp ix "ocii" q.2 0 q.1 hS).mem, h.symm, ?_⟩
            intro q' hq'
            unfold dropS
            simp only [decide_eq_false_iff_not]
            rintro ⟨_, _, h3⟩
            exact hnotin q' hq' h3.symm
          · exact Or.inl ⟨q, e, h⟩
        · have hd := h2 p List.mem_cons_self
          rcases (addDesc_resp ix "ocii" p.2 0 p.1 hS).frame e he hd with h | ⟨h, _⟩
          · exact Or.inr ⟨e, h, h1, fun q hq => h2 q (List.mem_cons_of_mem _ hq)⟩
          · -- overwritten by the new entry, which has the same digest and is not dropped later
            right
            refine ⟨respDesc "ocii" p.2 0 p.1, (addDesc_resp ix "ocii" p.2 0 p.1 hS).mem, by rw [← h1, h]; rfl, ?_⟩
            intro q' hq'
            unfold dropS
            simp only [decide_eq_false_iff_not]
            rintro ⟨_, _, h3⟩
            exact hnotin q' hq' h3.symm

/-! ## the loop over the fallback tags -/

/-- the three outcomes of examining one fallback tag -/
theorem convStep_cases (bs : List (String × INode)) (c : Conv) (T : Desc) :
    (convStep bs c T = c ∧ content bs T.dig = [] ∧ ∀ cur, getIndex bs T.dig ≠ some (some cur)) ∨
    (∃ cur, getIndex bs T.dig = some (some cur) ∧
      (((validReferrer bs cur).valid = true ∧
        (∀ r, lookupResp c.respOf (validReferrer bs cur).subject = some r → r.dig = T.dig) ∧
        convStep bs c T = { c with
          index := addDesc c.index (respDesc T.mt T.dig T.size (validReferrer bs cur).subject),
          respOf := ((validReferrer bs cur).subject, respDesc T.mt T.dig T.size (validReferrer bs cur).subject) :: c.respOf }) ∨
       (convStep bs c T = { c with addResp := mergeResp c.addResp (validReferrer bs cur).resp, rm := c.rm ++ [T] }))) := by
  unfold convStep
  cases hg : getIndex bs T.dig with
  | none =>
    left
    refine ⟨rfl, by unfold content; rw [hg], ?_⟩
    intro cur h; cases h
  | some o =>
    cases o with
    | none =>
      left
      refine ⟨rfl, by unfold content; rw [hg], ?_⟩
      intro cur h; cases h
    | some cur =>
      right
      refine ⟨cur, rfl, ?_⟩
      simp only
      cases hl : lookupResp c.respOf (validReferrer bs cur).subject with
      | none =>
        simp only [Bool.and_true]
        by_cases hv : (validReferrer bs cur).valid = true
        · left
          refine ⟨hv, fun r h => (by cases h), ?_⟩
          rw [if_pos hv]; rfl
        · right
          rw [if_neg hv]; rfl
      | some r =>
        simp only
        by_cases hv : ((validReferrer bs cur).valid && decide (r.dig = T.dig)) = true
        · left
          simp only [Bool.and_eq_true, decide_eq_true_eq] at hv
          refine ⟨hv.1, ?_, ?_⟩
          · intro r' h; cases h; exact hv.2
          · rw [if_pos (by simp [hv.1, hv.2])]; rfl
        · right
          rw [if_neg hv]; rfl

/-- what holds of the conversion state while the fallback tags of layout `x` are examined (no assumption on `x`
    beyond "an entry is a tag or a response, not both") -/
structure InvA (x : IState) (c : Conv) : Prop where
  nb : NoBoth c.index.manifests
  ch : c.index.children = []
  tg : ∀ e, e.ann.isNil = false → e.ann.tag ≠ "" → (e ∈ c.index.manifests ↔ e ∈ x.index.manifests)
  rm : ∀ T ∈ c.rm, T.ann.isNil = false ∧ isFallbackTag T.ann.tag = true ∧ (lookup x.blobs T.dig).isSome = true
  ks : (keys c.addResp).Nodup ∧ ∀ k ∈ keys c.addResp, k ≠ ""
  ls : ∀ e0 ∈ x.index.manifests, (e0.ann.isNil = true ∨ e0.ann.subj = "") →
        ∃ e ∈ c.index.manifests, e.dig = e0.dig ∧ (e.ann.isNil = true ∨ e.ann.subj = "")

theorem getIndex_isSome {bs : List (String × INode)} {g : String} {cur : List Desc}
    (h : getIndex bs g = some (some cur)) : (lookup bs g).isSome = true := by
  unfold getIndex at h
  cases hl : lookup bs g with
  | none => rw [hl] at h; cases h
  | some n => rfl

theorem convStep_invA (x : IState) (c : Conv) (T : Desc) (hT : T ∈ (pass1 x.index.manifests).digestTags)
    (inv : InvA x c) : InvA x (convStep x.blobs c T) := by
  obtain ⟨hTm, _, hTn, hTf⟩ := (pass1_digestTags _ T).mp hT
  have hTt : T.ann.tag ≠ "" := isFallbackTag_ne_empty _ hTf
  have hTin : T ∈ c.index.manifests := (inv.tg T hTn hTt).mpr hTm
  have hTs : T.ann.subj = "" := by
    rcases inv.nb T hTin hTn with h | h
    · exact absurd h hTt
    · exact h
  rcases convStep_cases x.blobs c T with ⟨h, _, _⟩ | ⟨cur, hg, ⟨hv, _, h⟩ | h⟩
  · rw [h]; exact inv
  · -- adopted
    rw [h]
    by_cases hS : (validReferrer x.blobs cur).subject = ""
    · -- an empty index: nothing is recorded
      have hplain : (respDesc T.mt T.dig T.size (validReferrer x.blobs cur).subject).ann.isNil = true ∨
          ((respDesc T.mt T.dig T.size (validReferrer x.blobs cur).subject).ann.tag = "" ∧
           (respDesc T.mt T.dig T.size (validReferrer x.blobs cur).subject).ann.subj = "") := Or.inr ⟨rfl, hS⟩
      have : addDesc c.index (respDesc T.mt T.dig T.size (validReferrer x.blobs cur).subject) = c.index :=
        addDesc_plain_listed c.index _ hplain ⟨T, hTin, rfl⟩ inv.ch
      simp only [this]
      exact ⟨inv.nb, inv.ch, inv.tg, inv.rm, inv.ks, inv.ls⟩
    · refine ⟨?_, ?_, ?_, inv.rm, inv.ks, ?_⟩
      · exact addResp_noBoth c.index T.mt T.dig T.size _ hS inv.nb
      · exact addDesc_resp_children_nil c.index T.mt T.dig T.size _ hS inv.ch
      · intro e hn ht
        simp only
        rw [addResp_tagged c.index T.mt T.dig T.size _ hS inv.nb e hn ht]
        exact inv.tg e hn ht
      · intro e0 he0 hord
        obtain ⟨e, he, hdg, hord'⟩ := inv.ls e0 he0 hord
        simp only
        have hd := dropS_false_of_ordinary T.dig _ hS e hord'
        rcases (addDesc_resp c.index T.mt T.dig T.size _ hS).frame e he hd with h' | ⟨h', _⟩
        · exact ⟨e, h', hdg, hord'⟩
        · -- the witness was overwritten: the fallback-tag entry itself has this digest and stays
          refine ⟨T, (addResp_tagged c.index T.mt T.dig T.size _ hS inv.nb T hTn hTt).mpr hTin, ?_, Or.inr hTs⟩
          rw [← hdg, h']
  · -- queued for regeneration
    rw [h]
    obtain ⟨hk1, hk2⟩ := validReferrer_keys x.blobs cur
    refine ⟨inv.nb, inv.ch, inv.tg, ?_, ⟨mergeResp_nodup _ _ inv.ks.1, ?_⟩, inv.ls⟩
    · intro T' hT'
      simp only at hT'
      rcases List.mem_append.mp hT' with h' | h'
      · exact inv.rm T' h'
      · simp only [List.mem_singleton] at h'
        subst h'
        exact ⟨hTn, hTf, getIndex_isSome hg⟩
    · intro k hk
      simp only at hk
      rcases (mergeResp_keys_mem _ _ _).mp hk with h' | h'
      · exact inv.ks.2 k h'
      · exact hk2 k h'

theorem phase1_fold_invA (x : IState) : ∀ (ts : List Desc) (c : Conv),
    (∀ T ∈ ts, T ∈ (pass1 x.index.manifests).digestTags) → InvA x c → InvA x (ts.foldl (convStep x.blobs) c) := by
  intro ts
  induction ts with
  | nil => intro c _ h; exact h
  | cons T rest ih =>
    intro c hts inv
    simp only [List.foldl_cons]
    exact ih _ (fun T' h => hts T' (List.mem_cons_of_mem _ h)) (convStep_invA x c T (hts T List.mem_cons_self) inv)

theorem phase1_invA (x : IState) (hnb : NoBoth x.index.manifests) (hch : x.index.children = []) : InvA x (phase1 x) := by
  unfold phase1
  apply phase1_fold_invA x _ _ (fun T h => h)
  refine ⟨hnb, hch, fun _ _ _ => Iff.rfl, fun T h => (by cases h), ⟨(by simp [keys]), fun k h => (by simp [keys] at h)⟩, ?_⟩
  intro e0 he0 hord
  exact ⟨e0, he0, rfl, hord⟩

/-! ## nothing else is lost (no assumption on the blobs) -/

theorem regenFold_keeps (nm : List Desc → String) (respOf : List (String × Desc)) :
    ∀ (L : List (String × List Desc)) (s0 : IState), (L.map (·.1)).Nodup → (∀ kv ∈ L, kv.1 ≠ "") →
      NoBoth s0.index.manifests → s0.index.children = [] →
      NoBoth (L.foldl (regenStep nm respOf) s0).index.manifests ∧
      (L.foldl (regenStep nm respOf) s0).index.children = [] ∧
      (L.foldl (regenStep nm respOf) s0).converted = s0.converted ∧
      (∀ e, e.ann.isNil = false → e.ann.tag ≠ "" →
        (e ∈ (L.foldl (regenStep nm respOf) s0).index.manifests ↔ e ∈ s0.index.manifests)) ∧
      (∀ g n, lookup s0.blobs g = some n → lookup (L.foldl (regenStep nm respOf) s0).blobs g = some n) ∧
      (∀ g, (∃ e ∈ s0.index.manifests, e.dig = g ∧ ((e.ann.isNil = true ∨ e.ann.subj = "") ∨
              (e.ann.isNil = false ∧ ∀ kv ∈ L, kv.1 ≠ e.ann.subj))) →
        Listed (L.foldl (regenStep nm respOf) s0).index g) := by
  intro L
  induction L with
  | nil =>
    intro s0 _ _ hnb hch
    refine ⟨hnb, hch, rfl, fun _ _ _ => Iff.rfl, fun _ _ h => h, ?_⟩
    rintro g ⟨e, he, hg, _⟩
    exact ⟨e, he, hg⟩
  | cons kv rest ih =>
    intro s0 hnd hne hnb hch
    simp only [List.map_cons, List.nodup_cons] at hnd
    simp only [List.foldl_cons]
    have hS : kv.1 ≠ "" := hne kv List.mem_cons_self
    have hnotin : ∀ q ∈ rest, q.1 ≠ kv.1 := by
      intro q hq h
      exact hnd.1 (List.mem_map.mpr ⟨q, hq, h⟩)
    have hstep := regenStep_eq nm respOf s0 kv
    generalize hD : regenName nm s0.blobs respOf kv = D at hstep
    have hnb1 : NoBoth (regenStep nm respOf s0 kv).index.manifests := by
      rw [hstep]; exact addResp_noBoth s0.index "ocii" D 0 kv.1 hS hnb
    have hch1 : (regenStep nm respOf s0 kv).index.children = [] := by
      rw [hstep]; exact addDesc_resp_children_nil s0.index "ocii" D 0 kv.1 hS hch
    obtain ⟨i1, i2, i3, i4, i5, i6⟩ := ih (regenStep nm respOf s0 kv) hnd.2
      (fun q hq => hne q (List.mem_cons_of_mem _ hq)) hnb1 hch1
    refine ⟨i1, i2, ?_, ?_, ?_, ?_⟩
    · rw [i3, hstep]
    · intro e hn ht
      rw [i4 e hn ht, hstep]
      exact addResp_tagged s0.index "ocii" D 0 kv.1 hS hnb e hn ht
    · intro g n h
      apply i5
      rw [hstep]
      exact putBlob_ext _ _ g n h
    · rintro g ⟨e, he, hg, hkind⟩
      apply i6
      have spec := addDesc_resp s0.index "ocii" D 0 kv.1 hS
      have hnew : ∃ e' ∈ (regenStep nm respOf s0 kv).index.manifests, e'.dig = D ∧
          ((e'.ann.isNil = true ∨ e'.ann.subj = "") ∨ (e'.ann.isNil = false ∧ ∀ q ∈ rest, q.1 ≠ e'.ann.subj)) := by
        refine ⟨respDesc "ocii" D 0 kv.1, by rw [hstep]; exact spec.mem, rfl, Or.inr ⟨rfl, ?_⟩⟩
        intro q hq; exact hnotin q hq
      rcases hkind with hord | ⟨hn, hsub⟩
      · have hd := dropS_false_of_ordinary D kv.1 hS e hord
        rcases spec.frame e he hd with h | ⟨h, _⟩
        · exact ⟨e, by rw [hstep]; exact h, hg, Or.inl hord⟩
        · obtain ⟨e', he', hg', hk'⟩ := hnew
          exact ⟨e', he', by rw [hg', ← h, hg], hk'⟩
      · have hne1 : kv.1 ≠ e.ann.subj := hsub kv List.mem_cons_self
        have hd : dropS D kv.1 e = false := by
          unfold dropS
          simp only [decide_eq_false_iff_not]
          rintro ⟨_, _, h3⟩
          exact hne1 h3.symm
        rcases spec.frame e he hd with h | ⟨h1, h2⟩
        · exact ⟨e, by rw [hstep]; exact h, hg, Or.inr ⟨hn, fun q hq => hsub q (List.mem_cons_of_mem _ hq)⟩⟩
        · obtain ⟨e', he', hg', hk'⟩ := hnew
          exact ⟨e', he', by rw [hg', ← h1, hg], hk'⟩

/-! ## `ingest`, unfolded -/

theorem ingest_manifests (nm : List Desc → String) (order : List (String × List Desc) → List (String × List Desc)) (x : IState) :
    (ingest nm order x).index.manifests = (if x.converted then x else convert nm order x).index.manifests := rfl
theorem ingest_blobs (nm : List Desc → String) (order : List (String × List Desc) → List (String × List Desc)) (x : IState) :
    (ingest nm order x).blobs = (if x.converted then x else convert nm order x).blobs := rfl
theorem ingest_converted (nm : List Desc → String) (order : List (String × List Desc) → List (String × List Desc)) (x : IState) :
    (ingest nm order x).converted = (if x.converted then x else convert nm order x).converted := rfl

/-- the state after the loop over `addResp` -/
def convState (nm : List Desc → String) (order : List (String × List Desc) → List (String × List Desc)) (x : IState) : IState :=
  (order (phase1 x).addResp).foldl (regenStep nm (phase1 x).respOf) { x with index := (phase1 x).index }

theorem convert_eq (nm : List Desc → String) (order : List (String × List Desc) → List (String × List Desc)) (x : IState) :
    convert nm order x = { convState nm order x with
      index := (phase1 x).rm.foldl rmDesc (convState nm order x).index, converted := true } := rfl

theorem ingest_manifests_nc (nm : List Desc → String) (order : List (String × List Desc) → List (String × List Desc))
    (x : IState) (h : x.converted = false) :
    (ingest nm order x).index.manifests = ((phase1 x).rm.foldl rmDesc (convState nm order x).index).manifests := by
  rw [ingest_manifests]; simp only [h]; rfl
theorem ingest_blobs_nc (nm : List Desc → String) (order : List (String × List Desc) → List (String × List Desc))
    (x : IState) (h : x.converted = false) : (ingest nm order x).blobs = (convState nm order x).blobs := by
  rw [ingest_blobs]; simp only [h]; rfl

theorem ingest_converted_true (nm : List Desc → String) (order : List (String × List Desc) → List (String × List Desc))
    (x : IState) : (ingest nm order x).converted = true := by
  rw [ingest_converted]
  cases h : x.converted
  · rfl
  · simp [h]

theorem perm_keys {order : List (String × List Desc) → List (String × List Desc)} (horder : ∀ l, (order l).Perm l)
    (l : List (String × List Desc)) (h : (keys l).Nodup ∧ ∀ k ∈ keys l, k ≠ "") :
    ((order l).map (·.1)).Nodup ∧ ∀ kv ∈ order l, kv.1 ≠ "" := by
  constructor
  · have h1 : (l.map (·.1)).Nodup := h.1
    exact ((horder l).map (·.1)).nodup_iff.mpr h1
  · intro kv hkv
    exact h.2 kv.1 (List.mem_map.mpr ⟨kv, (horder l).mem_iff.mp hkv, rfl⟩)

theorem rmOk_of_invA {x : IState} {c : Conv} (inv : InvA x c) (hne : lookup x.blobs "" = none) : ∀ T ∈ c.rm, RmOk T := by
  intro T hT
  obtain ⟨h1, h2, h3⟩ := inv.rm T hT
  refine ⟨?_, h1, h2⟩
  intro h0
  rw [h0, hne] at h3
  cases h3

/-- C17, "keeps every other tag, manifest and blob, and marks the layout as converted" -/
theorem convert_keeps_main (nm : List Desc → String) (order : List (String × List Desc) → List (String × List Desc))
    (horder : ∀ l, (order l).Perm l) (x : IState) (hc : x.converted = false)
    (hnb : NoBoth x.index.manifests) (hch : x.index.children = []) (hne : lookup x.blobs "" = none) :
    (ingest nm order x).converted = true ∧
    (∀ e ∈ x.index.manifests, e.ann.isNil = false → e.ann.tag ≠ "" → isFallbackTag e.ann.tag = false →
        e ∈ (ingest nm order x).index.manifests) ∧
    (∀ e ∈ x.index.manifests, (e.ann.isNil = true ∨ e.ann.subj = "") → Listed (ingest nm order x).index e.dig) ∧
    (∀ g n, lookup x.blobs g = some n → lookup (ingest nm order x).blobs g = some n) := by
  have inv := phase1_invA x hnb hch
  obtain ⟨hk1, hk2⟩ := perm_keys horder (phase1 x).addResp inv.ks
  have r := regenFold_keeps nm (phase1 x).respOf (order (phase1 x).addResp)
    { x with index := (phase1 x).index } hk1 hk2 inv.nb inv.ch
  change _ ∧ _ ∧ _ ∧ _ ∧ _ ∧ _ at r
  have hfold : (order (phase1 x).addResp).foldl (regenStep nm (phase1 x).respOf) { x with index := (phase1 x).index } =
      convState nm order x := rfl
  rw [hfold] at r
  obtain ⟨r1, r2, r3, r4, r5, r6⟩ := r
  obtain ⟨m1, m2, m3, m4, m5, m6, m7⟩ := rmFold_spec (phase1 x).rm _ (rmOk_of_invA inv hne) r1
  have hman := ingest_manifests_nc nm order x hc
  have hbl := ingest_blobs_nc nm order x hc
  refine ⟨ingest_converted_true nm order x, ?_, ?_, ?_⟩
  · intro e he hn ht hf
    rw [hman]
    apply m6 e _ ht hf
    exact (r4 e hn ht).mpr ((inv.tg e hn ht).mpr he)
  · intro e he hord
    unfold Listed
    rw [hman]
    apply (m3 e.dig).mpr
    obtain ⟨e', he', hg', hord'⟩ := inv.ls e he hord
    exact r6 e.dig ⟨e', he', hg', Or.inl hord'⟩
  · intro g n h
    rw [hbl]
    exact r5 g n h

/-! ## repeating the conversion -/

/-- what the registry API can observe of a repository: the converted flag, which digest each tag names, which blob
    answers the referrers API for each subject, which digests are listed, and the blobs -/
structure ObsEq (a b : IState) : Prop where
  conv : a.converted = b.converted
  tags : ∀ t g, t ≠ "" → (HasTag a.index t g ↔ HasTag b.index t g)
  resp : ∀ S g, S ≠ "" → (HasResp a.index S g ↔ HasResp b.index S g)
  listed : ∀ g, Listed a.index g ↔ Listed b.index g
  blobs : ∀ g, lookup a.blobs g = lookup b.blobs g

theorem ObsEq.refl (a : IState) : ObsEq a a :=
  ⟨rfl, fun _ _ _ => Iff.rfl, fun _ _ _ => Iff.rfl, fun _ => Iff.rfl, fun _ => rfl⟩
theorem ObsEq.symm {a b : IState} (h : ObsEq a b) : ObsEq b a :=
  ⟨h.conv.symm, fun t g ht => (h.tags t g ht).symm, fun S g hS => (h.resp S g hS).symm, fun g => (h.listed g).symm,
   fun g => (h.blobs g).symm⟩
theorem ObsEq.trans {a b c : IState} (h1 : ObsEq a b) (h2 : ObsEq b c) : ObsEq a c :=
  ⟨h1.conv.trans h2.conv, fun t g ht => (h1.tags t g ht).trans (h2.tags t g ht),
   fun S g hS => (h1.resp S g hS).trans (h2.resp S g hS), fun g => (h1.listed g).trans (h2.listed g),
   fun g => (h1.blobs g).trans (h2.blobs g)⟩

/-- the JSON round trip of `indexSave` / load -/
def persistDesc (d : Desc) : Desc := if d.ann.len = 0 then { d with ann := {} } else d

theorem persist_manifests (x : IState) : (persist x).index.manifests = x.index.manifests.map persistDesc := rfl

theorem persistDesc_dig (d : Desc) : (persistDesc d).dig = d.dig := by
  unfold persistDesc; split <;> rfl

theorem persist_obsEq (x : IState) : ObsEq (persist x) x := by
  refine ⟨rfl, ?_, ?_, ?_, fun _ => rfl⟩
  · intro t g ht
    unfold HasTag
    rw [persist_manifests]
    constructor
    · rintro ⟨e', he', hn, h1, h2⟩
      obtain ⟨e, he, rfl⟩ := List.mem_map.mp he'
      unfold persistDesc at hn h1 h2
      by_cases hl : e.ann.len = 0
      · rw [if_pos hl] at hn; cases hn
      · rw [if_neg hl] at hn h1 h2; exact ⟨e, he, hn, h1, h2⟩
    · rintro ⟨e, he, hn, h1, h2⟩
      refine ⟨e, List.mem_map.mpr ⟨e, he, ?_⟩, hn, h1, h2⟩
      unfold persistDesc
      rw [if_neg (len_ne_zero_of_tag e (by rw [h1]; exact ht))]
  · intro S g hS
    unfold HasResp
    rw [persist_manifests]
    constructor
    · rintro ⟨e', he', hn, h1, h2⟩
      obtain ⟨e, he, rfl⟩ := List.mem_map.mp he'
      unfold persistDesc at hn h1 h2
      by_cases hl : e.ann.len = 0
      · rw [if_pos hl] at hn; cases hn
      · rw [if_neg hl] at hn h1 h2; exact ⟨e, he, hn, h1, h2⟩
    · rintro ⟨e, he, hn, h1, h2⟩
      refine ⟨e, List.mem_map.mpr ⟨e, he, ?_⟩, hn, h1, h2⟩
      unfold persistDesc
      rw [if_neg (len_ne_zero_of_subj e (by rw [h1]; exact hS))]
  · intro g
    unfold Listed
    rw [persist_manifests]
    constructor
    · rintro ⟨e', he', h2⟩
      obtain ⟨e, he, rfl⟩ := List.mem_map.mp he'
      exact ⟨e, he, by rw [← h2, persistDesc_dig]⟩
    · rintro ⟨e, he, h2⟩
      exact ⟨persistDesc e, List.mem_map.mpr ⟨e, he, rfl⟩, by rw [persistDesc_dig, h2]⟩

/-- on a layout that is marked as converted `indexIngest` only records children -/
theorem ingest_converted_obsEq (nm : List Desc → String) (order : List (String × List Desc) → List (String × List Desc))
    (x : IState) (h : x.converted = true) : ObsEq (ingest nm order x) x := by
  have hm : (ingest nm order x).index.manifests = x.index.manifests := by rw [ingest_manifests]; simp only [h]; rfl
  have hb : (ingest nm order x).blobs = x.blobs := by rw [ingest_blobs]; simp only [h]; rfl
  have hc : (ingest nm order x).converted = x.converted := by rw [ingest_converted_true, h]
  refine ⟨hc, ?_, ?_, ?_, fun g => by rw [hb]⟩
  · intro t g _; unfold HasTag; rw [hm]
  · intro S g _; unfold HasResp; rw [hm]
  · intro g; unfold Listed; rw [hm]

/-- C17, "repeating the conversion gives the same result": saving the converted index, loading it and running
    `indexIngest` again (with any digest function and map order) changes nothing observable -/
theorem convert_idem_main (nm nm' : List Desc → String) (order order' : List (String × List Desc) → List (String × List Desc))
    (x : IState) : ObsEq (ingest nm' order' (persist (ingest nm order x))) (ingest nm order x) := by
  have h1 : (persist (ingest nm order x)).converted = true := ingest_converted_true nm order x
  exact (ingest_converted_obsEq nm' order' _ h1).trans (persist_obsEq _)

/-! ## the order in which Go iterates over `addResp` does not matter -/

theorem convStep_respPresent (bs : List (String × INode)) (c : Conv) (T : Desc) (h : RespPresent bs c.respOf) :
    RespPresent bs (convStep bs c T).respOf := by
  rcases convStep_cases bs c T with ⟨h', _, _⟩ | ⟨cur, hg, ⟨_, _, h'⟩ | h'⟩
  · rw [h']; exact h
  · rw [h']
    intro S r hl
    simp only at hl
    rw [lookupResp_cons] at hl
    split at hl
    · cases hl; exact getIndex_isSome hg
    · exact h S r hl
  · rw [h']; exact h

theorem phase1_respPresent (x : IState) (h : RespPresent x.blobs (pass1 x.index.manifests).respOf) :
    RespPresent x.blobs (phase1 x).respOf := by
  unfold phase1
  have : ∀ (ts : List Desc) (c : Conv), RespPresent x.blobs c.respOf → RespPresent x.blobs (ts.foldl (convStep x.blobs) c).respOf := by
    intro ts
    induction ts with
    | nil => intro c h; exact h
    | cons T rest ih => intro c h; simp only [List.foldl_cons]; exact ih _ (convStep_respPresent _ c T h)
  exact this (pass1 x.index.manifests).digestTags { index := x.index, respOf := (pass1 x.index.manifests).respOf } h

theorem scanIter_congr {bs bs' : List (String × INode)} (h : ∀ g, lookup bs g = lookup bs' g) (a : Scan) :
    scanIter bs a = scanIter bs' a := by
  unfold scanIter
  cases a.queue with
  | nil => rfl
  | cons c rest => simp only; rw [getIndex_congr (h c.dig)]

/-- the child scan reads the blobs only through look-ups -/
theorem childScan_congr {bs bs' : List (String × INode)} (h : ∀ g, lookup bs g = lookup bs' g) (a : Scan) :
    childScan bs a = childScan bs' a := by
  fun_induction childScan bs a with
  | case1 a hnone =>
    rw [childScan]
    split
    · rfl
    · rename_i a' h'
      rw [← scanIter_congr h, hnone] at h'; cases h'
  | case2 a a' hsome ih =>
    rw [ih]
    conv => rhs; rw [childScan]
    split
    · rename_i h'
      rw [← scanIter_congr h, hsome] at h'; cases h'
    · rename_i a'' h'
      rw [← scanIter_congr h, hsome] at h'; cases h'; rfl

/-- the pairs (subject, digest) and (digest, list) of the responses that are regenerated for layout `x` -/
def regenPairs (nm : List Desc → String) (x : IState) (L : List (String × List Desc)) : List (String × String) :=
  L.map fun kv => (kv.1, regenName nm x.blobs (phase1 x).respOf kv)
def regenBlobs (nm : List Desc → String) (x : IState) (L : List (String × List Desc)) : List (String × List Desc) :=
  L.map fun kv => (regenName nm x.blobs (phase1 x).respOf kv, regenList x.blobs (phase1 x).respOf kv)

theorem convState_decomp (nm : List Desc → String) (order : List (String × List Desc) → List (String × List Desc))
    (x : IState) (hrp : RespPresent x.blobs (phase1 x).respOf) :
    (convState nm order x).index = ixFold (regenPairs nm x (order (phase1 x).addResp)) (phase1 x).index ∧
    (convState nm order x).blobs = blobFold (regenBlobs nm x (order (phase1 x).addResp)) x.blobs ∧
    (convState nm order x).converted = x.converted :=
  regenFold_decomp nm (phase1 x).respOf (order (phase1 x).addResp) { x with index := (phase1 x).index } hrp

/-- `l` is a response that the conversion of `x` regenerates -/
def Written (x : IState) (l : List Desc) : Prop :=
  ∃ kv ∈ (phase1 x).addResp, l = regenList x.blobs (phase1 x).respOf kv

/-- the digest function does not collide on the (at most one per subject) documents the conversion of `x` writes;
    implied by `Function.Injective nm` -/
def NoCollision (nm : List Desc → String) (x : IState) : Prop :=
  ∀ l l', Written x l → Written x l' → nm l = nm l' → l = l'

theorem noCollision_of_injective (nm : List Desc → String) (h : Function.Injective nm) (x : IState) : NoCollision nm x :=
  fun _ _ _ _ e => h e

theorem regenBlobs_inj (nm : List Desc → String) (x : IState) (hnm : NoCollision nm x) (L : List (String × List Desc))
    (hL : ∀ kv ∈ L, kv ∈ (phase1 x).addResp) :
    ∀ p ∈ regenBlobs nm x L, ∀ p2 ∈ regenBlobs nm x L, p.1 = p2.1 → p.2 = p2.2 := by
  intro p hp p2 hp2 h
  unfold regenBlobs at hp hp2
  obtain ⟨kv, hkv, rfl⟩ := List.mem_map.mp hp
  obtain ⟨kv2, hkv2, rfl⟩ := List.mem_map.mp hp2
  exact hnm _ _ ⟨kv, hL kv hkv, rfl⟩ ⟨kv2, hL kv2 hkv2, rfl⟩ h

/-- the blobs after the loop over `addResp`, looked up -/
theorem blobFold_lookup_perm (bs : List (String × INode))
    (qs qs' : List (String × List Desc)) (hp : qs.Perm qs') (hq : ∀ p ∈ qs, ∀ p2 ∈ qs, p.1 = p2.1 → p.2 = p2.2) (g : String) :
    lookup (blobFold qs bs) g = lookup (blobFold qs' bs) g := by
  have key : ∀ (qs qs' : List (String × List Desc)), qs.Perm qs' → (∀ p ∈ qs, ∀ p2 ∈ qs, p.1 = p2.1 → p.2 = p2.2) →
      ∀ n, lookup (blobFold qs bs) g = some n → lookup (blobFold qs' bs) g = some n := by
    intro qs qs' hp hq n hl
    obtain ⟨a1, a2, _⟩ := blobFold_spec qs bs
    obtain ⟨b1, b2, b3⟩ := blobFold_spec qs' bs
    rcases a2 g n hl with h | ⟨p, hp', hg, hn⟩
    · exact b1 g n h
    · have hp'' : p ∈ qs' := hp.mem_iff.mp hp'
      have hs := b3 p hp''
      cases hl' : lookup (blobFold qs' bs) p.1 with
      | none => rw [hl'] at hs; cases hs
      | some n' =>
        rw [hg, hl']
        rcases b2 p.1 n' hl' with h | ⟨p2, hp2, hg2, hn2⟩
        · -- it was there from the start, so the first run found it too
          have := a1 p.1 n' h
          rw [← hg, hl] at this
          cases this; rfl
        · have : p.2 = p2.2 := hq p hp' p2 (hp.mem_iff.mpr hp2) hg2
          rw [hn, hn2, this]
  cases hl : lookup (blobFold qs bs) g with
  | some n => exact (key qs qs' hp hq n hl).symm
  | none =>
    cases hl' : lookup (blobFold qs' bs) g with
    | none => rfl
    | some n' =>
      have hq' : ∀ p ∈ qs', ∀ p2 ∈ qs', p.1 = p2.1 → p.2 = p2.2 :=
        fun p h p2 h2 => hq p (hp.mem_iff.mpr h) p2 (hp.mem_iff.mpr h2)
      have := key qs' qs hp.symm hq' n' hl'
      rw [hl] at this; cases this

theorem regenPairs_keys (nm : List Desc → String) (x : IState) (L : List (String × List Desc)) :
    (regenPairs nm x L).map (·.1) = L.map (·.1) := by
  unfold regenPairs; rw [List.map_map]; rfl

/-- everything that is known about the state before the clean-up, in closed form -/
theorem convState_spec (nm : List Desc → String) (order : List (String × List Desc) → List (String × List Desc))
    (horder : ∀ l, (order l).Perm l) (x : IState) (hnb : NoBoth x.index.manifests) (hch : x.index.children = [])
    (hrp : RespPresent x.blobs (pass1 x.index.manifests).respOf) :
    NoBoth (convState nm order x).index.manifests ∧ (convState nm order x).index.children = [] ∧
    (∀ e, e.ann.isNil = false → e.ann.tag ≠ "" →
        (e ∈ (convState nm order x).index.manifests ↔ e ∈ (phase1 x).index.manifests)) ∧
    (∀ S g, S ≠ "" → (HasResp (convState nm order x).index S g ↔
        (∃ p ∈ regenPairs nm x (phase1 x).addResp, p.1 = S ∧ g = p.2) ∨
        ((∀ p ∈ regenPairs nm x (phase1 x).addResp, p.1 ≠ S) ∧ HasResp (phase1 x).index S g))) ∧
    (∀ g, Listed (convState nm order x).index g ↔
        (∃ p ∈ regenPairs nm x (phase1 x).addResp, g = p.2) ∨
        (∃ e ∈ (phase1 x).index.manifests, e.dig = g ∧ ∀ p ∈ regenPairs nm x (phase1 x).addResp, dropS p.2 p.1 e = false)) ∧
    (∀ g, lookup (convState nm order x).blobs g = lookup (blobFold (regenBlobs nm x (order (phase1 x).addResp)) x.blobs) g) := by
  have inv := phase1_invA x hnb hch
  have hrp' := phase1_respPresent x hrp
  obtain ⟨d1, d2, _⟩ := convState_decomp nm order x hrp'
  obtain ⟨hk1, hk2⟩ := perm_keys horder (phase1 x).addResp inv.ks
  have hperm : (regenPairs nm x (order (phase1 x).addResp)).Perm (regenPairs nm x (phase1 x).addResp) := by
    unfold regenPairs; exact (horder _).map _
  have hnd : ((regenPairs nm x (order (phase1 x).addResp)).map (·.1)).Nodup := by rw [regenPairs_keys]; exact hk1
  have hne : ∀ p ∈ regenPairs nm x (order (phase1 x).addResp), p.1 ≠ "" := by
    intro p hp
    unfold regenPairs at hp
    obtain ⟨kv, hkv, rfl⟩ := List.mem_map.mp hp
    exact hk2 kv hkv
  obtain ⟨s1, s2, s3, s4, s5⟩ := ixFold_spec _ (phase1 x).index hnd hne inv.nb inv.ch
  rw [← d1] at s1 s2 s3 s4 s5
  refine ⟨s1, s2, s3, ?_, ?_, fun g => by rw [d2]⟩
  · intro S g hS
    rw [s4 S g hS]
    constructor
    · rintro (⟨p, hp, h⟩ | ⟨h1, h2⟩)
      · exact Or.inl ⟨p, hperm.mem_iff.mp hp, h⟩
      · exact Or.inr ⟨fun p hp => h1 p (hperm.mem_iff.mpr hp), h2⟩
    · rintro (⟨p, hp, h⟩ | ⟨h1, h2⟩)
      · exact Or.inl ⟨p, hperm.mem_iff.mpr hp, h⟩
      · exact Or.inr ⟨fun p hp => h1 p (hperm.mem_iff.mp hp), h2⟩
  · intro g
    rw [s5 g]
    constructor
    · rintro (⟨p, hp, h⟩ | ⟨e, he, h1, h2⟩)
      · exact Or.inl ⟨p, hperm.mem_iff.mp hp, h⟩
      · exact Or.inr ⟨e, he, h1, fun p hp => h2 p (hperm.mem_iff.mpr hp)⟩
    · rintro (⟨p, hp, h⟩ | ⟨e, he, h1, h2⟩)
      · exact Or.inl ⟨p, hperm.mem_iff.mpr hp, h⟩
      · exact Or.inr ⟨e, he, h1, fun p hp => h2 p (hperm.mem_iff.mp hp)⟩

/-- C17 under every iteration order of the Go map: the observations agree -/
theorem convert_order_indep_main (nm : List Desc → String)
    (order order' : List (String × List Desc) → List (String × List Desc))
    (horder : ∀ l, (order l).Perm l) (horder' : ∀ l, (order' l).Perm l) (x : IState)
    (hnb : NoBoth x.index.manifests) (hch : x.index.children = []) (hne : lookup x.blobs "" = none)
    (hrp : RespPresent x.blobs (pass1 x.index.manifests).respOf) (hnm : NoCollision nm x) :
    ObsEq (ingest nm order x) (ingest nm order' x) := by
  cases hc : x.converted with
  | true =>
    have : ingest nm order x = ingest nm order' x := by unfold ingest; simp only [hc, if_true]
    rw [this]; exact ObsEq.refl _
  | false =>
    have inv := phase1_invA x hnb hch
    obtain ⟨a1, a2, a3, a4, a5, a6⟩ := convState_spec nm order horder x hnb hch hrp
    obtain ⟨b1, b2, b3, b4, b5, b6⟩ := convState_spec nm order' horder' x hnb hch hrp
    have hok := rmOk_of_invA inv hne
    obtain ⟨m1, m2, m3, _, _, _, _⟩ := rmFold_spec (phase1 x).rm _ hok a1
    obtain ⟨n1, n2, n3, _, _, _, _⟩ := rmFold_spec (phase1 x).rm _ hok b1
    have hblobs : ∀ g, lookup (convState nm order x).blobs g = lookup (convState nm order' x).blobs g := by
      intro g
      rw [a6 g, b6 g]
      apply blobFold_lookup_perm
      · unfold regenBlobs
        exact ((horder _).trans (horder' _).symm).map _
      · exact regenBlobs_inj nm x hnm _ (fun kv h => (horder _).mem_iff.mp h)
    have htagpre : ∀ t g, t ≠ "" → (HasTag (convState nm order x).index t g ↔ HasTag (convState nm order' x).index t g) := by
      intro t g ht
      unfold HasTag
      constructor
      · rintro ⟨e, he, hn, h1, h2⟩
        have htag : e.ann.tag ≠ "" := by rw [h1]; exact ht
        exact ⟨e, (b3 e hn htag).mpr ((a3 e hn htag).mp he), hn, h1, h2⟩
      · rintro ⟨e, he, hn, h1, h2⟩
        have htag : e.ann.tag ≠ "" := by rw [h1]; exact ht
        exact ⟨e, (a3 e hn htag).mpr ((b3 e hn htag).mp he), hn, h1, h2⟩
    · refine ⟨by rw [ingest_converted_true, ingest_converted_true], ?_, ?_, ?_, ?_⟩
      · intro t g ht
        unfold HasTag
        rw [ingest_manifests_nc nm order x hc, ingest_manifests_nc nm order' x hc]
        have e1 := rmFold_tags (phase1 x).rm (convState nm order x).index hok t g ht
        have e2 := rmFold_tags (phase1 x).rm (convState nm order' x).index hok t g ht
        unfold HasTag at e1 e2 htagpre
        rw [e1, e2, htagpre t g ht]
      · intro S g hS
        have e1 := m2 S g hS
        have e2 := n2 S g hS
        unfold HasResp at e1 e2 ⊢
        rw [ingest_manifests_nc nm order x hc, ingest_manifests_nc nm order' x hc, e1, e2]
        have := (a4 S g hS).trans (b4 S g hS).symm
        unfold HasResp at this
        exact this
      · intro g
        have e1 := m3 g
        have e2 := n3 g
        unfold Listed at e1 e2 ⊢
        rw [ingest_manifests_nc nm order x hc, ingest_manifests_nc nm order' x hc, e1, e2]
        have := (a5 g).trans (b5 g).symm
        unfold Listed at this
        exact this
      · intro g
        rw [ingest_blobs_nc nm order x hc, ingest_blobs_nc nm order' x hc]
        exact hblobs g

/-! ## exactly the referrers of the fallback indexes and of the old response -/

/-- manifest `m` names subject `S` and is listed by one of the fallback indexes `done` -/
def Contrib (bs : List (String × INode)) (done : List Desc) (S m : String) : Prop :=
  ∃ T ∈ done, ∃ d ∈ content bs T.dig, d.dig = m ∧ subjOf bs m = some S

theorem contrib_append (bs : List (String × INode)) (done : List Desc) (T : Desc) (S m : String) :
    Contrib bs (done ++ [T]) S m ↔ Contrib bs done S m ∨ (∃ d ∈ content bs T.dig, d.dig = m ∧ subjOf bs m = some S) := by
  unfold Contrib
  constructor
  · rintro ⟨T', hT', h⟩
    rcases List.mem_append.mp hT' with h' | h'
    · exact Or.inl ⟨T', h', h⟩
    · simp only [List.mem_singleton] at h'; subst h'; exact Or.inr h
  · rintro (⟨T', hT', h⟩ | h)
    · exact ⟨T', List.mem_append_left _ hT', h⟩
    · exact ⟨T, List.mem_append_right _ (by simp), h⟩

/-- while the fallback tags are examined: what has been queued or recorded for a subject is what the old response
    and the fallback indexes seen so far list for it; the index names exactly the recorded responses -/
structure InvB (x : IState) (done : List Desc) (c : Conv) : Prop where
  i1 : ∀ S m, S ≠ "" →
    (((∃ rd, InResp c.addResp S rd ∧ rd.dig = m) ∨ (∃ d ∈ oldContent x.blobs c.respOf S, d.dig = m)) ↔
     ((∃ d ∈ oldContent x.blobs (pass1 x.index.manifests).respOf S, d.dig = m) ∨ Contrib x.blobs done S m))
  i2 : ∀ S g, S ≠ "" → (HasResp c.index S g ↔ ∃ r, lookupResp c.respOf S = some r ∧ r.dig = g)

theorem oldContent_cons_ne (bs : List (String × INode)) (respOf : List (String × Desc)) (k : String) (d : Desc) (S : String)
    (h : k ≠ S) : oldContent bs ((k, d) :: respOf) S = oldContent bs respOf S := by
  rw [oldContent_eq, oldContent_eq, lookupResp_cons, if_neg h]

theorem oldContent_cons_eq (bs : List (String × INode)) (respOf : List (String × Desc)) (k : String) (d : Desc) :
    oldContent bs ((k, d) :: respOf) k = content bs d.dig := by
  rw [oldContent_eq, lookupResp_cons, if_pos rfl]

theorem convStep_invB (x : IState) (done : List Desc) (c : Conv) (T : Desc)
    (hT : T ∈ (pass1 x.index.manifests).digestTags) (invA : InvA x c) (invB : InvB x done c) :
    InvB x (done ++ [T]) (convStep x.blobs c T) := by
  obtain ⟨hTm, _, hTn, hTf⟩ := (pass1_digestTags _ T).mp hT
  have hTt : T.ann.tag ≠ "" := isFallbackTag_ne_empty _ hTf
  have hTin : T ∈ c.index.manifests := (invA.tg T hTn hTt).mpr hTm
  rcases convStep_cases x.blobs c T with ⟨h, hcont, _⟩ | ⟨cur, hg, ⟨hv, hagree, h⟩ | h⟩
  · -- not an index: nothing changes, nothing is contributed
    rw [h]
    refine ⟨?_, invB.i2⟩
    intro S m hS
    rw [invB.i1 S m hS, contrib_append, hcont]
    simp
  · -- adopted
    rw [h]
    have hcont : content x.blobs T.dig = cur := content_of_getIndex hg
    have hall := validReferrer_valid x.blobs cur hv
    generalize hS0 : (validReferrer x.blobs cur).subject = S0 at hagree hall
    by_cases hS : S0 = ""
    · -- an empty index
      have hcur : cur = [] := by
        cases cur with
        | nil => rfl
        | cons d ds =>
          have := hall d List.mem_cons_self
          rw [hS] at this
          exact absurd rfl (subjOf_ne_empty this)
      have hplain : (respDesc T.mt T.dig T.size S0).ann.isNil = true ∨
          ((respDesc T.mt T.dig T.size S0).ann.tag = "" ∧ (respDesc T.mt T.dig T.size S0).ann.subj = "") := Or.inr ⟨rfl, hS⟩
      have hix : addDesc c.index (respDesc T.mt T.dig T.size S0) = c.index :=
        addDesc_plain_listed c.index _ hplain ⟨T, hTin, rfl⟩ invA.ch
      simp only [hix]
      refine ⟨?_, ?_⟩
      · intro S m hSne
        have hk : S0 ≠ S := by rw [hS]; exact fun h => hSne h.symm
        rw [oldContent_cons_ne _ _ _ _ _ hk, invB.i1 S m hSne, contrib_append, hcont, hcur]
        simp
      · intro S g hSne
        have hk : S0 ≠ S := by rw [hS]; exact fun h => hSne h.symm
        rw [invB.i2 S g hSne, lookupResp_cons, if_neg hk]
    · refine ⟨?_, ?_⟩
      · intro S m hSne
        simp only
        rw [contrib_append, hcont]
        by_cases hk : S0 = S
        · subst hk
          rw [oldContent_cons_eq]
          have hnd : (respDesc T.mt T.dig T.size S0).dig = T.dig := rfl
          rw [hnd, hcont]
          have hC : (∃ d ∈ cur, d.dig = m ∧ subjOf x.blobs m = some S0) ↔ (∃ d ∈ cur, d.dig = m) := by
            constructor
            · rintro ⟨d, hd, h1, _⟩; exact ⟨d, hd, h1⟩
            · rintro ⟨d, hd, h1⟩; exact ⟨d, hd, h1, by rw [← h1]; exact hall d hd⟩
          rw [hC]
          have ih := invB.i1 S0 m hSne
          cases hl : lookupResp c.respOf S0 with
          | none =>
            have hold : oldContent x.blobs c.respOf S0 = [] := by rw [oldContent_eq, hl]
            rw [hold] at ih
            simp only [List.not_mem_nil, false_and, exists_false, or_false] at ih
            rw [ih]
            exact or_assoc
          | some r =>
            have hold : oldContent x.blobs c.respOf S0 = cur := by
              rw [oldContent_eq, hl]; simp only; rw [hagree r hl, hcont]
            rw [hold] at ih
            rw [ih]
            constructor
            · rintro (h' | h')
              · exact Or.inl h'
              · exact Or.inr (Or.inl h')
            · rintro (h' | h' | h')
              · exact Or.inl h'
              · exact Or.inr h'
              · exact ih.mp (Or.inr h')
        · rw [oldContent_cons_ne _ _ _ _ _ hk, invB.i1 S m hSne]
          have : ¬ (∃ d ∈ cur, d.dig = m ∧ subjOf x.blobs m = some S) := by
            rintro ⟨d, hd, h1, h2⟩
            have := hall d hd
            rw [h1, h2] at this
            cases this; exact hk rfl
          simp [this]
      · intro S g hSne
        simp only
        rw [addResp_hasResp c.index T.mt T.dig T.size S0 hS invA.nb S g hSne, lookupResp_cons]
        by_cases hk : S0 = S
        · subst hk
          rw [if_pos rfl]
          constructor
          · rintro (⟨_, h2⟩ | ⟨h1, _⟩)
            · exact ⟨_, rfl, h2.symm⟩
            · exact absurd rfl h1
          · rintro ⟨r, hr, h2⟩
            cases hr
            exact Or.inl ⟨rfl, h2.symm⟩
        · rw [if_neg hk, ← invB.i2 S g hSne]
          constructor
          · rintro (⟨h1, _⟩ | ⟨_, h2⟩)
            · exact absurd h1.symm hk
            · exact h2
          · intro h'; exact Or.inr ⟨fun h'' => hk h''.symm, h'⟩
  · -- queued for regeneration
    rw [h]
    have hcont : content x.blobs T.dig = cur := content_of_getIndex hg
    refine ⟨?_, invB.i2⟩
    intro S m hSne
    simp only
    rw [contrib_append, hcont, ← validReferrer_inResp x.blobs cur S m, ← or_assoc, ← invB.i1 S m hSne]
    have hm := mergeResp_inResp (validReferrer x.blobs cur).resp (validReferrer_keys x.blobs cur).1 c.addResp S
    constructor
    · rintro (⟨rd, h1, h2⟩ | h')
      · rcases (hm rd).mp h1 with h'' | h''
        · exact Or.inl (Or.inl ⟨rd, h'', h2⟩)
        · exact Or.inr ⟨rd, h'', h2⟩
      · exact Or.inl (Or.inr h')
    · rintro ((⟨rd, h1, h2⟩ | h') | ⟨rd, h1, h2⟩)
      · exact Or.inl ⟨rd, (hm rd).mpr (Or.inl h1), h2⟩
      · exact Or.inr h'
      · exact Or.inl ⟨rd, (hm rd).mpr (Or.inr h1), h2⟩

theorem phase1_fold_invB (x : IState) : ∀ (ts done : List Desc) (c : Conv),
    (∀ T ∈ ts, T ∈ (pass1 x.index.manifests).digestTags) → InvA x c → InvB x done c →
      InvB x (done ++ ts) (ts.foldl (convStep x.blobs) c) := by
  intro ts
  induction ts with
  | nil => intro done c _ _ h; simpa using h
  | cons T rest ih =>
    intro done c hts invA invB
    simp only [List.foldl_cons]
    have hT := hts T List.mem_cons_self
    have := ih (done ++ [T]) _ (fun T' h => hts T' (List.mem_cons_of_mem _ h)) (convStep_invA x c T hT invA)
      (convStep_invB x done c T hT invA invB)
    simpa using this

/-- every referrers response of the index is an OCI index, and a subject has at most one response digest -/
def RespWF (ms : List Desc) : Prop :=
  (∀ e ∈ ms, e.ann.isNil = false → e.ann.subj ≠ "" → e.mt = "ocii") ∧
  (∀ e1 ∈ ms, ∀ e2 ∈ ms, e1.ann.isNil = false → e2.ann.isNil = false → e1.ann.subj ≠ "" → e1.ann.subj = e2.ann.subj →
    e1.dig = e2.dig)

theorem phase1_invB (x : IState) (hnb : NoBoth x.index.manifests) (hch : x.index.children = [])
    (hwf : RespWF x.index.manifests) : InvB x (pass1 x.index.manifests).digestTags (phase1 x) := by
  have h0 : InvB x [] { index := x.index, respOf := (pass1 x.index.manifests).respOf } := by
    refine ⟨?_, ?_⟩
    · intro S m _
      unfold Contrib InResp
      simp
    · intro S g hS
      obtain ⟨p1, p2⟩ := pass1_respOf x.index.manifests S
      constructor
      · rintro ⟨e, he, hn, h1, h2⟩
        have hresp : isResp e S := ⟨hwf.1 e he hn (by rw [h1]; exact hS), hn, h1, hS⟩
        obtain ⟨r, hr⟩ := p2 ⟨e, he, hresp⟩
        obtain ⟨hrm, _, hrn, hrs, _⟩ := p1 r hr
        refine ⟨r, hr, ?_⟩
        rw [← h2]
        exact hwf.2 r hrm e he hrn hn (by rw [hrs]; exact hS) (by rw [hrs, h1])
      · rintro ⟨r, hr, h2⟩
        obtain ⟨hrm, _, hrn, hrs, _⟩ := p1 r hr
        exact ⟨r, hrm, hrn, hrs, h2⟩
  have inv0 : InvA x { index := x.index, respOf := (pass1 x.index.manifests).respOf } := by
    refine ⟨hnb, hch, fun _ _ _ => Iff.rfl, fun T h => (by cases h), ⟨(by simp [keys]), fun k h => (by simp [keys] at h)⟩, ?_⟩
    intro e0 he0 hord
    exact ⟨e0, he0, rfl, hord⟩
  have := phase1_fold_invB x (pass1 x.index.manifests).digestTags [] _ (fun T h => h) inv0 h0
  simp only [List.nil_append] at this
  exact this

theorem content_of_lookup_idx {bs : List (String × INode)} {g : String} {ds : List Desc}
    (h : lookup bs g = some (.idx ds)) : content bs g = ds := by
  unfold content getIndex; rw [h]

/-- C17, "makes exactly those referrers, grouped by the subject each manifest actually names, available":
    after the conversion the response of subject `S` lists `m` iff the response recorded before listed it or some
    fallback index lists `m` and `m` is a present manifest whose subject is `S` -/
theorem convert_exact_main (nm : List Desc → String) 
    (order : List (String × List Desc) → List (String × List Desc)) (horder : ∀ l, (order l).Perm l)
    (x : IState) (hc : x.converted = false)
    (hnb : NoBoth x.index.manifests) (hch : x.index.children = []) (hne : lookup x.blobs "" = none)
    (hrp : RespPresent x.blobs (pass1 x.index.manifests).respOf) (hwf : RespWF x.index.manifests)
    (hcas : ∀ ds n, lookup x.blobs (nm ds) = some n → n = .idx ds) (hnm : NoCollision nm x)
    (S m : String) (hS : S ≠ "") :
    (∃ g, HasResp (ingest nm order x).index S g ∧ ∃ d ∈ content (ingest nm order x).blobs g, d.dig = m) ↔
      ((∃ d ∈ oldContent x.blobs (pass1 x.index.manifests).respOf S, d.dig = m) ∨
       Contrib x.blobs (pass1 x.index.manifests).digestTags S m) := by
  have inv := phase1_invA x hnb hch
  have invB := phase1_invB x hnb hch hwf
  have hrp' := phase1_respPresent x hrp
  obtain ⟨a1, _, _, a4, _, a6⟩ := convState_spec nm order horder x hnb hch hrp
  obtain ⟨_, m2, _, _, _, _, _⟩ := rmFold_spec (phase1 x).rm _ (rmOk_of_invA inv hne) a1
  -- the response entries and the blobs of the result
  have hresp : ∀ g, HasResp (ingest nm order x).index S g ↔ HasResp (convState nm order x).index S g := by
    intro g
    have := m2 S g hS
    unfold HasResp at this ⊢
    rw [ingest_manifests_nc nm order x hc]; exact this
  have hblob : ∀ g, lookup (ingest nm order x).blobs g =
      lookup (blobFold (regenBlobs nm x (order (phase1 x).addResp)) x.blobs) g := by
    intro g; rw [ingest_blobs_nc nm order x hc]; exact a6 g
  obtain ⟨b1, b2, b3⟩ := blobFold_spec (regenBlobs nm x (order (phase1 x).addResp)) x.blobs
  rw [← invB.i1 S m hS]
  by_cases hk : ∃ kv ∈ (phase1 x).addResp, kv.1 = S
  · -- the response of S was regenerated
    obtain ⟨kv, hkv, hkS⟩ := hk
    have huniq : ∀ l, (S, l) ∈ (phase1 x).addResp → l = kv.2 := by
      intro l hl
      have : (S, kv.2) ∈ (phase1 x).addResp := by rw [← hkS]; exact hkv
      exact nodup_keys_unique _ inv.ks.1 S l kv.2 hl this
    have hname : ∀ g, HasResp (convState nm order x).index S g ↔ g = regenName nm x.blobs (phase1 x).respOf kv := by
      intro g
      rw [a4 S g hS]
      constructor
      · rintro (⟨p, hp, h1, h2⟩ | ⟨h1, _⟩)
        · unfold regenPairs at hp
          obtain ⟨kv', hkv', rfl⟩ := List.mem_map.mp hp
          simp only at h1 h2
          have : kv' = kv := by
            have e1 := huniq kv'.2 (by rw [← h1]; exact hkv')
            cases kv' with
            | mk a b => cases kv with
              | mk a' b' => simp only at e1 h1 hkS; rw [e1, h1, ← hkS]
          rw [h2, this]
        · exfalso
          exact h1 (kv.1, regenName nm x.blobs (phase1 x).respOf kv)
            (by unfold regenPairs; exact List.mem_map.mpr ⟨kv, hkv, rfl⟩) hkS
      · intro h
        exact Or.inl ⟨(kv.1, regenName nm x.blobs (phase1 x).respOf kv),
          by unfold regenPairs; exact List.mem_map.mpr ⟨kv, hkv, rfl⟩, hkS, h⟩
    have hcontent : content (ingest nm order x).blobs (regenName nm x.blobs (phase1 x).respOf kv) =
        regenList x.blobs (phase1 x).respOf kv := by
      apply content_of_lookup_idx
      rw [hblob]
      have hmem : (regenName nm x.blobs (phase1 x).respOf kv, regenList x.blobs (phase1 x).respOf kv) ∈
          regenBlobs nm x (order (phase1 x).addResp) := by
        unfold regenBlobs
        exact List.mem_map.mpr ⟨kv, (horder _).mem_iff.mpr hkv, rfl⟩
      have hs := b3 _ hmem
      simp only at hs
      cases hl : lookup (blobFold (regenBlobs nm x (order (phase1 x).addResp)) x.blobs)
          (regenName nm x.blobs (phase1 x).respOf kv) with
      | none => rw [hl] at hs; cases hs
      | some n =>
        rcases b2 _ n hl with h | ⟨p', hp', h1, h2⟩
        · rw [hcas _ n h]
        · unfold regenBlobs at hp'
          obtain ⟨kv', hkv', rfl⟩ := List.mem_map.mp hp'
          simp only at h1 h2
          have : regenList x.blobs (phase1 x).respOf kv = regenList x.blobs (phase1 x).respOf kv' :=
            hnm _ _ ⟨kv, hkv, rfl⟩ ⟨kv', (horder _).mem_iff.mp hkv', rfl⟩ h1
          rw [h2, this]
    constructor
    · rintro ⟨g, hg, d, hd, hm⟩
      rw [(hname g).mp ((hresp g).mp hg), hcontent] at hd
      unfold regenList at hd
      obtain ⟨d', hd', hm'⟩ := (dedup_digs _ m).mp ⟨d, hd, hm⟩
      rcases List.mem_append.mp hd' with h | h
      · exact Or.inl ⟨d', ⟨kv.2, by rw [← hkS]; exact hkv, h⟩, hm'⟩
      · rw [hkS] at h; exact Or.inr ⟨d', h, hm'⟩
    · intro h
      refine ⟨regenName nm x.blobs (phase1 x).respOf kv, (hresp _).mpr ((hname _).mpr rfl), ?_⟩
      rw [hcontent]
      unfold regenList
      apply (dedup_digs _ m).mpr
      rcases h with ⟨rd, ⟨l, hl, hrd⟩, hm⟩ | ⟨d, hd, hm⟩
      · rw [huniq l hl] at hrd
        exact ⟨rd, List.mem_append_left _ hrd, hm⟩
      · exact ⟨d, List.mem_append_right _ (by rw [hkS]; exact hd), hm⟩
  · -- the response of S is the recorded one
    have hnokey : ∀ p ∈ regenPairs nm x (phase1 x).addResp, p.1 ≠ S := by
      intro p hp h
      unfold regenPairs at hp
      obtain ⟨kv, hkv, rfl⟩ := List.mem_map.mp hp
      exact hk ⟨kv, hkv, h⟩
    have hnoin : ¬ ∃ rd, InResp (phase1 x).addResp S rd ∧ rd.dig = m := by
      rintro ⟨rd, ⟨l, hl, _⟩, _⟩
      exact hk ⟨(S, l), hl, rfl⟩
    have hname : ∀ g, HasResp (convState nm order x).index S g ↔
        ∃ r, lookupResp (phase1 x).respOf S = some r ∧ r.dig = g := by
      intro g
      rw [a4 S g hS, ← invB.i2 S g hS]
      constructor
      · rintro (⟨p, hp, h1, _⟩ | ⟨_, h⟩)
        · exact absurd h1 (hnokey p hp)
        · exact h
      · intro h; exact Or.inr ⟨hnokey, h⟩
    have hcontent : ∀ r, lookupResp (phase1 x).respOf S = some r →
        content (ingest nm order x).blobs r.dig = content x.blobs r.dig := by
      intro r hr
      apply content_congr
      have := hrp' S r hr
      cases hl : lookup x.blobs r.dig with
      | none => rw [hl] at this; cases this
      | some n => rw [hblob, b1 _ _ hl]
    constructor
    · rintro ⟨g, hg, d, hd, hm⟩
      obtain ⟨r, hr, hrg⟩ := (hname g).mp ((hresp g).mp hg)
      right
      rw [oldContent_eq, hr]
      simp only
      rw [← hrg, hcontent r hr] at hd
      exact ⟨d, hd, hm⟩
    · rintro (h | ⟨d, hd, hm⟩)
      · exact absurd h hnoin
      · rw [oldContent_eq] at hd
        cases hr : lookupResp (phase1 x).respOf S with
        | none => rw [hr] at hd; cases hd
        | some r =>
          rw [hr] at hd
          simp only at hd
          refine ⟨r.dig, (hresp _).mpr ((hname _).mpr ⟨r, hr, rfl⟩), d, ?_, hm⟩
          rw [hcontent r hr]; exact hd

/-! ## an interrupted conversion, repeated -/

theorem vrStep_congr {bs bs' : List (String × INode)} (acc : VR) (d : Desc) (h : lookup bs d.dig = lookup bs' d.dig) :
    vrStep bs acc d = vrStep bs' acc d := by
  unfold vrStep; rw [h]

theorem validReferrer_congr {bs bs' : List (String × INode)} (cur : List Desc)
    (h : ∀ d ∈ cur, lookup bs d.dig = lookup bs' d.dig) : validReferrer bs cur = validReferrer bs' cur := by
  have : ∀ (cur : List Desc) (acc : VR), (∀ d ∈ cur, lookup bs d.dig = lookup bs' d.dig) →
      cur.foldl (vrStep bs) acc = cur.foldl (vrStep bs') acc := by
    intro cur
    induction cur with
    | nil => intro acc _; rfl
    | cons d ds ih =>
      intro acc h
      simp only [List.foldl_cons]
      rw [vrStep_congr acc d (h d List.mem_cons_self)]
      exact ih _ (fun d' hd' => h d' (List.mem_cons_of_mem _ hd'))
  unfold validReferrer
  rw [this cur {} h]

/-- the blobs that examining the fallback tags reads: the top-level digests and what index blobs list -/
def Mentioned (x : IState) (g : String) : Prop := Listed x.index g ∨ g ∈ listed x.blobs

theorem convStep_congr (x : IState) (bs' : List (String × INode))
    (h : ∀ g, Mentioned x g → lookup bs' g = lookup x.blobs g) (c : Conv) (T : Desc) (hT : T ∈ x.index.manifests) :
    convStep bs' c T = convStep x.blobs c T := by
  have hg : getIndex bs' T.dig = getIndex x.blobs T.dig := getIndex_congr (h T.dig (Or.inl ⟨T, hT, rfl⟩))
  unfold convStep
  rw [hg]
  cases hgi : getIndex x.blobs T.dig with
  | none => rfl
  | some o =>
    cases o with
    | none => rfl
    | some cur =>
      simp only
      have hv : validReferrer bs' cur = validReferrer x.blobs cur := by
        apply validReferrer_congr
        intro d hd
        exact h d.dig (Or.inr (getIndex_listed hgi d hd))
      rw [hv]

theorem phase1_congr (x : IState) (bs' : List (String × INode))
    (h : ∀ g, Mentioned x g → lookup bs' g = lookup x.blobs g) :
    phase1 { x with blobs := bs' } = phase1 x := by
  unfold phase1
  simp only
  have : ∀ (ts : List Desc) (c : Conv), (∀ T ∈ ts, T ∈ x.index.manifests) →
      ts.foldl (convStep bs') c = ts.foldl (convStep x.blobs) c := by
    intro ts
    induction ts with
    | nil => intro c _; rfl
    | cons T rest ih =>
      intro c hts
      simp only [List.foldl_cons]
      rw [convStep_congr x bs' h c T (hts T List.mem_cons_self)]
      exact ih _ (fun T' hT' => hts T' (List.mem_cons_of_mem _ hT'))
  exact this _ _ (fun T hT => ((pass1_digestTags _ T).mp hT).1)

/-- two indexes with the same observations still have the same observations after the same clean-up -/
theorem obs_after_cleanup (ixa ixb : Index) (rm : List Desc) (hok : ∀ T ∈ rm, RmOk T)
    (ha : NoBoth ixa.manifests) (hb : NoBoth ixb.manifests)
    (htag : ∀ e, e.ann.isNil = false → e.ann.tag ≠ "" → (e ∈ ixa.manifests ↔ e ∈ ixb.manifests))
    (hresp : ∀ S g, S ≠ "" → (HasResp ixa S g ↔ HasResp ixb S g))
    (hlisted : ∀ g, Listed ixa g ↔ Listed ixb g) :
    (∀ t g, t ≠ "" → (HasTag (rm.foldl rmDesc ixa) t g ↔ HasTag (rm.foldl rmDesc ixb) t g)) ∧
    (∀ S g, S ≠ "" → (HasResp (rm.foldl rmDesc ixa) S g ↔ HasResp (rm.foldl rmDesc ixb) S g)) ∧
    (∀ g, Listed (rm.foldl rmDesc ixa) g ↔ Listed (rm.foldl rmDesc ixb) g) := by
  obtain ⟨_, m2, m3, _, _, _, _⟩ := rmFold_spec rm ixa hok ha
  obtain ⟨_, n2, n3, _, _, _, _⟩ := rmFold_spec rm ixb hok hb
  refine ⟨?_, ?_, ?_⟩
  · intro t g ht
    rw [rmFold_tags rm ixa hok t g ht, rmFold_tags rm ixb hok t g ht]
    have : HasTag ixa t g ↔ HasTag ixb t g := by
      unfold HasTag
      constructor
      · rintro ⟨e, he, hn, h1, h2⟩
        exact ⟨e, (htag e hn (by rw [h1]; exact ht)).mp he, hn, h1, h2⟩
      · rintro ⟨e, he, hn, h1, h2⟩
        exact ⟨e, (htag e hn (by rw [h1]; exact ht)).mpr he, hn, h1, h2⟩
    rw [this]
  · intro S g hS; rw [m2 S g hS, n2 S g hS, hresp S g hS]
  · intro g; rw [m3 g, n3 g, hlisted g]

/-- C17, "interrupting it at any point and repeating it gives the same result": a conversion that died after
    writing some of its blobs `pre` and before saving index.json left the old index.json and the blobs
    `x.blobs ++ pre`; converting that gives what the uninterrupted conversion of `x` gives -/
theorem convert_interrupted_main (nm : List Desc → String)
    (order order' : List (String × List Desc) → List (String × List Desc))
    (horder : ∀ l, (order l).Perm l) (horder' : ∀ l, (order' l).Perm l) (x : IState) (hc : x.converted = false)
    (hnb : NoBoth x.index.manifests) (hch : x.index.children = []) (hne : lookup x.blobs "" = none)
    (hrp : RespPresent x.blobs (pass1 x.index.manifests).respOf) (hnm : NoCollision nm x)
    (hcas : ∀ ds n, lookup x.blobs (nm ds) = some n → n = .idx ds)
    (pre : List (String × INode))
    (hpre : ∀ kv ∈ pre, ∃ l, Written x l ∧ kv = (nm l, INode.idx l))
    (hfresh : ∀ kv ∈ pre, Mentioned x kv.1 → (lookup x.blobs kv.1).isSome = true) :
    ObsEq (ingest nm order' { x with blobs := x.blobs ++ pre }) (ingest nm order x) := by
  have hread : ∀ g, Mentioned x g → lookup (x.blobs ++ pre) g = lookup x.blobs g := by
    intro g hg
    cases hl : lookup x.blobs g with
    | some n => exact lookup_append_some _ _ _ _ hl
    | none =>
      rw [lookup_append_none _ _ _ hl]
      cases hp : lookup pre g with
      | none => rfl
      | some n =>
        have := hfresh (g, n) (lookup_mem hp) hg
        simp only at this
        rw [hl] at this; cases this
  have hph : phase1 { x with blobs := x.blobs ++ pre } = phase1 x := phase1_congr x _ hread
  have hext : ∀ g n, lookup x.blobs g = some n → lookup (x.blobs ++ pre) g = some n :=
    fun g n h => lookup_append_some _ _ _ _ h
  have hrpc : RespPresent x.blobs (phase1 x).respOf := phase1_respPresent x hrp
  have hrp' : RespPresent (x.blobs ++ pre) (pass1 x.index.manifests).respOf := respPresent_ext _ _ _ hrp hext
  have inv := phase1_invA x hnb hch
  have hok := rmOk_of_invA inv hne
  -- the digests and lists of the regenerated responses are the same in both runs
  have hlist : ∀ kv, regenList (x.blobs ++ pre) (phase1 x).respOf kv = regenList x.blobs (phase1 x).respOf kv := by
    intro kv; unfold regenList; rw [oldContent_stable _ _ _ hrpc hext]
  have hpairs : ∀ L, regenPairs nm { x with blobs := x.blobs ++ pre } L = regenPairs nm x L := by
    intro L
    unfold regenPairs
    rw [hph]
    apply List.map_congr_left
    intro kv _
    show (kv.1, nm (regenList (x.blobs ++ pre) (phase1 x).respOf kv)) = (kv.1, nm (regenList x.blobs (phase1 x).respOf kv))
    rw [hlist]
  have hblobsL : ∀ L, regenBlobs nm { x with blobs := x.blobs ++ pre } L = regenBlobs nm x L := by
    intro L
    unfold regenBlobs
    rw [hph]
    apply List.map_congr_left
    intro kv _
    show (nm (regenList (x.blobs ++ pre) (phase1 x).respOf kv), regenList (x.blobs ++ pre) (phase1 x).respOf kv) =
      (nm (regenList x.blobs (phase1 x).respOf kv), regenList x.blobs (phase1 x).respOf kv)
    rw [hlist]
  obtain ⟨a1, _, a3, a4, a5, a6⟩ := convState_spec nm order horder x hnb hch hrp
  obtain ⟨b1, _, b3, b4, b5, b6⟩ := convState_spec nm order' horder' { x with blobs := x.blobs ++ pre } hnb hch hrp'
  rw [hph] at b3 b4 b5 b6
  rw [hpairs] at b4 b5
  rw [hblobsL] at b6
  have hc' : ({ x with blobs := x.blobs ++ pre } : IState).converted = false := hc
  obtain ⟨o1, o2, o3⟩ := obs_after_cleanup (convState nm order' { x with blobs := x.blobs ++ pre }).index
    (convState nm order x).index (phase1 x).rm hok b1 a1
    (fun e hn ht => (b3 e hn ht).trans (a3 e hn ht).symm)
    (fun S g hS => (b4 S g hS).trans (a4 S g hS).symm)
    (fun g => (b5 g).trans (a5 g).symm)
  have hm' := ingest_manifests_nc nm order' { x with blobs := x.blobs ++ pre } hc'
  rw [hph] at hm'
  have hm := ingest_manifests_nc nm order x hc
  refine ⟨by rw [ingest_converted_true, ingest_converted_true], ?_, ?_, ?_, ?_⟩
  · intro t g ht
    have := o1 t g ht
    unfold HasTag at this ⊢
    rw [hm', hm]; exact this
  · intro S g hS
    have := o2 S g hS
    unfold HasResp at this ⊢
    rw [hm', hm]; exact this
  · intro g
    have := o3 g
    unfold Listed at this ⊢
    rw [hm', hm]; exact this
  · -- the blobs: what was written before the interruption is what the conversion writes
    intro g
    rw [ingest_blobs_nc nm order' _ hc', ingest_blobs_nc nm order x hc, b6 g, a6 g]
    obtain ⟨p1, p2, p3⟩ := blobFold_spec (regenBlobs nm x (order' (phase1 x).addResp)) (x.blobs ++ pre)
    obtain ⟨q1, q2, q3⟩ := blobFold_spec (regenBlobs nm x (order (phase1 x).addResp)) x.blobs
    have hqs : ∀ p, p ∈ regenBlobs nm x (order' (phase1 x).addResp) ↔ p ∈ regenBlobs nm x (order (phase1 x).addResp) := by
      intro p
      unfold regenBlobs
      exact (((horder' _).trans (horder _).symm).map _).mem_iff
    have hinj := regenBlobs_inj nm x hnm (order (phase1 x).addResp) (fun kv h => (horder _).mem_iff.mp h)
    -- a regenerated blob looked up in the uninterrupted run
    have hwritten : ∀ l, Written x l → lookup (blobFold (regenBlobs nm x (order (phase1 x).addResp)) x.blobs) (nm l) = some (.idx l) := by
      rintro l ⟨kv, hkv, rfl⟩
      have hmem : (nm (regenList x.blobs (phase1 x).respOf kv), regenList x.blobs (phase1 x).respOf kv) ∈
          regenBlobs nm x (order (phase1 x).addResp) := by
        unfold regenBlobs
        exact List.mem_map.mpr ⟨kv, (horder _).mem_iff.mpr hkv, rfl⟩
      have hs := q3 _ hmem
      simp only at hs
      cases hl : lookup (blobFold (regenBlobs nm x (order (phase1 x).addResp)) x.blobs)
          (nm (regenList x.blobs (phase1 x).respOf kv)) with
      | none => rw [hl] at hs; cases hs
      | some n =>
        rcases q2 _ n hl with h | ⟨p', hp', h1, h2⟩
        · rw [hcas _ n h]
        · have := hinj _ hmem p' hp' h1
          simp only at this
          rw [h2, ← this]
    have key1 : ∀ n, lookup (blobFold (regenBlobs nm x (order' (phase1 x).addResp)) (x.blobs ++ pre)) g = some n →
        lookup (blobFold (regenBlobs nm x (order (phase1 x).addResp)) x.blobs) g = some n := by
      intro n hl
      rcases p2 g n hl with h | ⟨p, hp, hg, hn⟩
      · cases hx : lookup x.blobs g with
        | some n' =>
          rw [lookup_append_some _ _ _ _ hx] at h
          rw [← h]
          exact q1 g n' hx
        | none =>
          rw [lookup_append_none _ _ _ hx] at h
          obtain ⟨l, hw, hkv⟩ := hpre (g, n) (lookup_mem h)
          cases hkv
          exact hwritten l hw
      · have hp' := (hqs p).mp hp
        unfold regenBlobs at hp'
        obtain ⟨kv, hkv, rfl⟩ := List.mem_map.mp hp'
        simp only at hg hn
        rw [hg, hn]
        exact hwritten _ ⟨kv, (horder _).mem_iff.mp hkv, rfl⟩
    have key2 : ∀ n, lookup (blobFold (regenBlobs nm x (order (phase1 x).addResp)) x.blobs) g = some n →
        lookup (blobFold (regenBlobs nm x (order' (phase1 x).addResp)) (x.blobs ++ pre)) g = some n := by
      intro n hl
      rcases q2 g n hl with h | ⟨p, hp, hg, hn⟩
      · exact p1 g n (hext g n h)
      · have hs := p3 p ((hqs p).mpr hp)
        rw [← hg] at hs
        cases hl' : lookup (blobFold (regenBlobs nm x (order' (phase1 x).addResp)) (x.blobs ++ pre)) g with
        | none => rw [hl'] at hs; cases hs
        | some n' =>
          have := key1 n' hl'
          rw [hl] at this
          cases this; rfl
    cases hl : lookup (blobFold (regenBlobs nm x (order' (phase1 x).addResp)) (x.blobs ++ pre)) g with
    | some n => exact (key1 n hl).symm
    | none =>
      cases hl2 : lookup (blobFold (regenBlobs nm x (order (phase1 x).addResp)) x.blobs) g with
      | none => rfl
      | some n =>
        have := key2 n hl2
        rw [hl] at this; cases this

/-! ## the recorded children after a conversion are those a reload computes (repair F34) -/

/-- two states of the child scan that differ in the annotations of the queued descriptors and in a prefix `c0` of
    the children recorded so far -/
def ScanRel (c0 : List Desc) (a a' : Scan) : Prop :=
  a'.seen = a.seen ∧ a'.queue.map (·.dig) = a.queue.map (·.dig) ∧ a.children = c0 ++ a'.children

theorem kidStep_rel (c0 : List Desc) (a a' : Scan) (h : ScanRel c0 a a') (k : Desc) :
    ScanRel c0 (kidStep a k) (kidStep a' k) := by
  obtain ⟨h1, h2, h3⟩ := h
  unfold kidStep
  rw [h1]
  cases hc : a.seen.contains k.dig
  · simp only [Bool.false_eq_true, if_false]
    refine ⟨rfl, ?_, by simp only; rw [h3, List.append_assoc]⟩
    cases hm : isIndexMt k.mt
    · simp only [Bool.false_eq_true, if_false]; exact h2
    · simp only [if_true, List.map_append, h2]
  · simp only [if_true]; exact ⟨h1, h2, h3⟩

theorem kids_rel (c0 : List Desc) : ∀ (kids : List Desc) (a a' : Scan), ScanRel c0 a a' →
    ScanRel c0 (kids.foldl kidStep a) (kids.foldl kidStep a') := by
  intro kids
  induction kids with
  | nil => intro a a' h; exact h
  | cons k ks ih => intro a a' h; simp only [List.foldl_cons]; exact ih _ _ (kidStep_rel c0 a a' h k)

theorem scanIter_rel (bs : List (String × INode)) (c0 : List Desc) (a a' : Scan) (h : ScanRel c0 a a') :
    (scanIter bs a = none ∧ scanIter bs a' = none ∧ a'.queue = []) ∨
    (∃ a1 a1', scanIter bs a = some a1 ∧ scanIter bs a' = some a1' ∧ ScanRel c0 a1 a1') := by
  obtain ⟨h1, h2, h3⟩ := h
  unfold scanIter
  cases hq : a.queue with
  | nil =>
    rw [hq] at h2
    have hq' : a'.queue = [] := by simpa using h2
    left; rw [hq']; exact ⟨rfl, rfl, rfl⟩
  | cons c rest =>
    rw [hq] at h2
    cases hq' : a'.queue with
    | nil => rw [hq'] at h2; simp at h2
    | cons c' rest' =>
      rw [hq'] at h2
      simp only [List.map_cons, List.cons.injEq] at h2
      right
      simp only
      rw [h2.1]
      have hrel : ScanRel c0 { a with queue := rest } { a' with queue := rest' } := ⟨h1, h2.2, h3⟩
      cases hg : getIndex bs c.dig with
      | none => exact ⟨_, _, rfl, rfl, hrel⟩
      | some o =>
        cases o with
        | none => exact ⟨_, _, rfl, rfl, hrel⟩
        | some kids => exact ⟨_, _, rfl, rfl, kids_rel c0 kids _ _ hrel⟩

theorem childScan_rel (bs : List (String × INode)) (c0 : List Desc) (a a' : Scan) (h : ScanRel c0 a a') :
    (childScan bs a).children = c0 ++ (childScan bs a').children := by
  fun_induction childScan bs a generalizing a' with
  | case1 a hnone =>
    rcases scanIter_rel bs c0 a a' h with ⟨_, h2, _⟩ | ⟨a1, _, h1, _, _⟩
    · have : childScan bs a' = a' := by rw [childScan]; split <;> simp_all
      rw [this]; exact h.2.2
    · rw [hnone] at h1; cases h1
  | case2 a a1 hsome ih =>
    rcases scanIter_rel bs c0 a a' h with ⟨h1, _, _⟩ | ⟨a2, a2', h1, h2, hrel⟩
    · rw [hsome] at h1; cases h1
    · rw [hsome] at h1; cases h1
      rw [ih a2' hrel]
      congr 1
      conv => rhs; rw [childScan]
      split
      · rename_i h'; rw [h2] at h'; cases h'
      · rename_i a3 h'; rw [h2] at h'; cases h'; rfl

theorem p1Step_seen (a : P1) (e : Desc) : (p1Step a e).seen = e.dig :: a.seen := by
  unfold p1Step
  split <;> split <;> (try split) <;> (try split) <;> rfl

theorem p1Step_scan (a : P1) (e : Desc) : (p1Step a e).scan = if isIndexMt e.mt = true then a.scan ++ [e] else a.scan := by
  unfold p1Step
  cases hm : isIndexMt e.mt
  · simp only [Bool.false_eq_true, if_false]
    split <;> (try split) <;> (try split) <;> rfl
  · simp only [if_true]
    split <;> (try split) <;> (try split) <;> rfl

theorem pass1_persist : ∀ (ms : List Desc) (a a' : P1), a'.seen = a.seen → a'.scan.map (·.dig) = a.scan.map (·.dig) →
    ((ms.map persistDesc).foldl p1Step a').seen = (ms.foldl p1Step a).seen ∧
    ((ms.map persistDesc).foldl p1Step a').scan.map (·.dig) = (ms.foldl p1Step a).scan.map (·.dig) := by
  intro ms
  induction ms with
  | nil => intro a a' h1 h2; exact ⟨h1, h2⟩
  | cons e es ih =>
    intro a a' h1 h2
    simp only [List.map_cons, List.foldl_cons]
    have hmt : (persistDesc e).mt = e.mt := by unfold persistDesc; split <;> rfl
    apply ih
    · rw [p1Step_seen, p1Step_seen, persistDesc_dig, h1]
    · rw [p1Step_scan, p1Step_scan, hmt]
      cases hm : isIndexMt e.mt
      · simp only [Bool.false_eq_true, if_false]; exact h2
      · simp only [if_true, List.map_append, List.map_cons, List.map_nil, persistDesc_dig, h2]

/-- the state on which the child scan runs -/
def scanBase (nm : List Desc → String) (order : List (String × List Desc) → List (String × List Desc)) (x : IState) : IState :=
  if x.converted then x else convert nm order x

theorem ingest_children (nm : List Desc → String) (order : List (String × List Desc) → List (String × List Desc)) (x : IState) :
    (ingest nm order x).index.children =
      (childScan (scanBase nm order x).blobs
        { queue := (pass1 (scanBase nm order x).index.manifests).scan,
          seen := (pass1 (scanBase nm order x).index.manifests).seen,
          children := (scanBase nm order x).index.children }).children := rfl

theorem scanBase_children_nil (nm : List Desc → String) (order : List (String × List Desc) → List (String × List Desc))
    (horder : ∀ l, (order l).Perm l) (x : IState) (hnb : NoBoth x.index.manifests) (hch : x.index.children = [])
    (hne : lookup x.blobs "" = none) : (scanBase nm order x).index.children = [] := by
  unfold scanBase
  cases hc : x.converted with
  | true => simp only [if_true]; exact hch
  | false =>
    simp only [Bool.false_eq_true, if_false]
    rw [convert_eq]
    simp only
    have inv := phase1_invA x hnb hch
    obtain ⟨hk1, hk2⟩ := perm_keys horder (phase1 x).addResp inv.ks
    have r := regenFold_keeps nm (phase1 x).respOf (order (phase1 x).addResp)
      { x with index := (phase1 x).index } hk1 hk2 inv.nb inv.ch
    change _ ∧ _ ∧ _ ∧ _ ∧ _ ∧ _ at r
    have hfold : (order (phase1 x).addResp).foldl (regenStep nm (phase1 x).respOf) { x with index := (phase1 x).index } =
        convState nm order x := rfl
    rw [hfold] at r
    obtain ⟨r1, r2, _⟩ := r
    obtain ⟨_, _, _, _, _, _, m7⟩ := rmFold_spec (phase1 x).rm _ (rmOk_of_invA inv hne) r1
    rw [m7, r2]

/-- C17, "repeating the conversion gives the same result", for the child records: what is recorded right after the
    conversion is what a load of the saved index records -/
theorem convert_idem_children_main (nm nm' : List Desc → String)
    (order order' : List (String × List Desc) → List (String × List Desc)) (horder : ∀ l, (order l).Perm l)
    (x : IState) (hnb : NoBoth x.index.manifests) (hch : x.index.children = []) (hne : lookup x.blobs "" = none) :
    (ingest nm' order' (persist (ingest nm order x))).index.children = (ingest nm order x).index.children := by
  have hconv : (persist (ingest nm order x)).converted = true := ingest_converted_true nm order x
  have hbase : scanBase nm' order' (persist (ingest nm order x)) = persist (ingest nm order x) := by
    unfold scanBase; rw [hconv]; rfl
  rw [ingest_children nm' order', hbase, ingest_children nm order x]
  have hnil := scanBase_children_nil nm order horder x hnb hch hne
  have hman : (persist (ingest nm order x)).index.manifests = (scanBase nm order x).index.manifests.map persistDesc := by
    rw [persist_manifests]; rfl
  have hbl : (persist (ingest nm order x)).blobs = (scanBase nm order x).blobs := rfl
  have hchl : (persist (ingest nm order x)).index.children = [] := rfl
  rw [hman, hbl, hchl, hnil]
  obtain ⟨p1, p2⟩ := pass1_persist (scanBase nm order x).index.manifests {} {} rfl rfl
  have := childScan_rel (scanBase nm order x).blobs []
    { queue := (pass1 (scanBase nm order x).index.manifests).scan,
      seen := (pass1 (scanBase nm order x).index.manifests).seen, children := [] }
    { queue := (pass1 ((scanBase nm order x).index.manifests.map persistDesc)).scan,
      seen := (pass1 ((scanBase nm order x).index.manifests.map persistDesc)).seen, children := [] }
    ⟨p1, p2, rfl⟩
  rw [this]; rfl
end Upd
