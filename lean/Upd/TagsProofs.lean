import Upd.Frame
import Px.Paging
/-!
# The tag listing (`Upd.tags`, tag.go) — sorting, exactness, pages, and following `last` (C03)

1. `sortS` (the insertion sort of the model) returns a sorted permutation of its input (String `≤` is a linear order
   in core: `String.le_total`, `String.le_trans`, `String.le_antisymm`).
2. The answer of `Upd.tags` is, for every `n` and `last`, the rendering of a page of `listing ix last`
   (`tags_eq`), and `listing` is exactly the tags of the index beyond `last`, sorted.
3. Pagination over a strictly increasing list, generically for any irreflexive asymmetric decidable relation
   (`pagingG`), instantiated at `Nat` (it is `PxP.pages`) and at `String` (`followTags`, the iteration of the page
   function of `Upd.tags`).
-/
namespace Upd

/-! ## 1. insertion sort -/

theorem insertSorted_perm (x : String) : ∀ l : List String, (insertSorted x l).Perm (x :: l)
  | [] => by simp [insertSorted]
  | y :: ys => by
    unfold insertSorted
    split
    · exact List.Perm.refl _
    · exact ((insertSorted_perm x ys).cons y).trans (List.Perm.swap x y ys)

theorem foldl_insertSorted_perm (l : List String) : ∀ acc : List String,
    (l.foldl (fun acc x => insertSorted x acc) acc).Perm (acc ++ l) := by
  induction l with
  | nil => intro acc; simp
  | cons x xs ih =>
    intro acc
    rw [List.foldl_cons]
    refine (ih (insertSorted x acc)).trans ?_
    refine ((insertSorted_perm x acc).append_right xs).trans ?_
    exact (List.perm_middle (a := x) (l₁ := acc) (l₂ := xs)).symm

/-- `sortS l` is a permutation of `l`: nothing lost, nothing invented, multiplicities kept -/
theorem sortS_perm (l : List String) : (sortS l).Perm l := by
  have := foldl_insertSorted_perm l []
  simpa [sortS] using this

theorem mem_insertSorted (a x : String) (l : List String) : a ∈ insertSorted x l ↔ a = x ∨ a ∈ l := by
  rw [(insertSorted_perm x l).mem_iff]; simp

theorem mem_sortS (a : String) (l : List String) : a ∈ sortS l ↔ a ∈ l := (sortS_perm l).mem_iff

theorem insertSorted_sorted (x : String) : ∀ l : List String, l.Pairwise (· ≤ ·) → (insertSorted x l).Pairwise (· ≤ ·)
  | [], _ => by simp [insertSorted]
  | y :: ys, h => by
    unfold insertSorted
    split
    · rename_i hxy
      refine List.pairwise_cons.mpr ⟨?_, h⟩
      intro a ha
      rcases List.mem_cons.mp ha with rfl | ha
      · exact hxy
      · exact String.le_trans hxy (List.rel_of_pairwise_cons h ha)
    · rename_i hxy
      have hyx : y ≤ x := by
        rcases String.le_total x y with h1 | h1
        · exact absurd h1 hxy
        · exact h1
      refine List.pairwise_cons.mpr ⟨?_, insertSorted_sorted x ys (List.pairwise_cons.mp h).2⟩
      intro a ha
      rcases (mem_insertSorted a x ys).mp ha with rfl | ha
      · exact hyx
      · exact List.rel_of_pairwise_cons h ha

theorem foldl_insertSorted_sorted (l : List String) : ∀ acc : List String, acc.Pairwise (· ≤ ·) →
    (l.foldl (fun acc x => insertSorted x acc) acc).Pairwise (· ≤ ·) := by
  induction l with
  | nil => intro acc h; exact h
  | cons x xs ih => intro acc h; exact ih _ (insertSorted_sorted x acc h)

/-- `sortS l` is sorted -/
theorem sortS_sorted (l : List String) : (sortS l).Pairwise (· ≤ ·) :=
  foldl_insertSorted_sorted l [] List.Pairwise.nil

theorem String.lt_of_le_of_ne' {a b : String} (h : a ≤ b) (hne : a ≠ b) : a < b := by
  apply Decidable.byContradiction
  intro hlt
  exact hne (String.le_antisymm h (String.not_lt.mp hlt))

/-- a sorted list without repetitions is strictly increasing -/
theorem strict_of_sorted_nodup (l : List String) (hs : l.Pairwise (· ≤ ·)) (hn : l.Nodup) : l.Pairwise (· < ·) := by
  have := List.Pairwise.and hs hn
  exact this.imp (fun ⟨h1, h2⟩ => String.lt_of_le_of_ne' h1 h2)

/-- `sortS` of a list without repetitions is strictly increasing -/
theorem sortS_strict (l : List String) (hn : l.Nodup) : (sortS l).Pairwise (· < ·) :=
  strict_of_sorted_nodup _ (sortS_sorted l) ((sortS_perm l).nodup_iff.mpr hn)

/-- a sorted permutation is unique -/
theorem sorted_perm_unique (l1 l2 : List String) (h1 : l1.Pairwise (· ≤ ·)) (h2 : l2.Pairwise (· ≤ ·)) (hp : l1.Perm l2) :
    l1 = l2 :=
  List.Perm.eq_of_pairwise (le := (· ≤ ·)) (fun _ _ _ _ hab hba => String.le_antisymm hab hba) h1 h2 hp

/-- sorting commutes with filtering -/
theorem sortS_filter (p : String → Bool) (l : List String) : sortS (l.filter p) = (sortS l).filter p :=
  sorted_perm_unique _ _ (sortS_sorted _) ((sortS_sorted l).filter p)
    ((sortS_perm _).trans ((sortS_perm l).symm.filter p))

/-! ## 2. what the handler lists -/

/-- the tags of an index that lie strictly beyond `last` (the `filterMap` of `Upd.tags`) -/
def tagsAfter (ix : Index) (last : String) : List String :=
  ix.manifests.filterMap fun d => if !d.ann.isNil ∧ d.ann.tag ≠ "" ∧ last < d.ann.tag then some d.ann.tag else none

/-- every tag of the index, one per tagged entry, in index order -/
def allTags (ix : Index) : List String :=
  ix.manifests.filterMap fun d => if !d.ann.isNil ∧ d.ann.tag ≠ "" then some d.ann.tag else none

/-- the sorted listing beyond `last` -/
def listing (ix : Index) (last : String) : List String := sortS (tagsAfter ix last)

/-- rendering of a page: status 200, the JSON list, the `Link` header ("" = none) -/
def renderTags (l : List String) (link : String) : Resp :=
  { status := 200, body := "[" ++ ",".intercalate l ++ "]", link := link }

theorem mem_tagsAfter (ix : Index) (last t : String) :
    t ∈ tagsAfter ix last ↔ ∃ d ∈ ix.manifests, d.ann.isNil = false ∧ d.ann.tag = t ∧ t ≠ "" ∧ last < t := by
  unfold tagsAfter
  rw [List.mem_filterMap]
  constructor
  · rintro ⟨d, hd, h⟩
    split at h
    · rename_i hc
      simp only [Option.some.injEq] at h
      subst h
      exact ⟨d, hd, by simpa using hc.1, rfl, hc.2.1, hc.2.2⟩
    · cases h
  · rintro ⟨d, hd, h1, h2, h3, h4⟩
    subst h2
    refine ⟨d, hd, ?_⟩
    rw [if_pos ⟨by simp [h1], h3, h4⟩]

theorem mem_allTags (ix : Index) (t : String) :
    t ∈ allTags ix ↔ ∃ d ∈ ix.manifests, d.ann.isNil = false ∧ d.ann.tag = t ∧ t ≠ "" := by
  unfold allTags
  rw [List.mem_filterMap]
  constructor
  · rintro ⟨d, hd, h⟩
    split at h
    · rename_i hc
      simp only [Option.some.injEq] at h
      subst h
      exact ⟨d, hd, by simpa using hc.1, rfl, hc.2⟩
    · cases h
  · rintro ⟨d, hd, h1, h2, h3⟩
    subst h2
    refine ⟨d, hd, ?_⟩
    rw [if_pos ⟨by simp [h1], h3⟩]

theorem String.empty_lt_of_ne {t : String} (h : t ≠ "") : "" < t := by
  have hne : t.toList ≠ [] := fun h0 => h (String.toList_eq_nil_iff.mp h0)
  show "".toList < t.toList
  cases ht : t.toList with
  | nil => exact absurd ht hne
  | cons c cs => simp

theorem filterMap_tags_eq (last : String) : ∀ l : List Desc,
    (l.filterMap fun d => if !d.ann.isNil ∧ d.ann.tag ≠ "" ∧ last < d.ann.tag then some d.ann.tag else none) =
    (l.filterMap fun d => if !d.ann.isNil ∧ d.ann.tag ≠ "" then some d.ann.tag else none).filter (fun t => decide (last < t)) := by
  intro l
  induction l with
  | nil => rfl
  | cons d ds ih =>
    simp only [List.filterMap_cons]
    by_cases h1 : (!d.ann.isNil) = true ∧ d.ann.tag ≠ ""
    · by_cases h2 : last < d.ann.tag
      · rw [if_pos ⟨h1.1, h1.2, h2⟩, if_pos h1]
        simp only [List.filter_cons, h2, decide_true, if_true]
        rw [ih]
      · rw [if_neg (fun h => h2 h.2.2), if_pos h1]
        simp only [List.filter_cons, h2, decide_false, Bool.false_eq_true, if_false]
        exact ih
    · rw [if_neg (fun h => h1 ⟨h.1, h.2.1⟩), if_neg h1]
      exact ih

/-- the tags beyond `last` are the tags, filtered -/
theorem tagsAfter_eq_filter (ix : Index) (last : String) :
    tagsAfter ix last = (allTags ix).filter (fun t => decide (last < t)) := filterMap_tags_eq last ix.manifests

/-- without `last` (the empty string) nothing is filtered: tags are never empty -/
theorem tagsAfter_empty (ix : Index) : tagsAfter ix "" = allTags ix := by
  rw [tagsAfter_eq_filter]
  apply List.filter_eq_self.mpr
  intro t ht
  obtain ⟨_, _, _, _, hne⟩ := (mem_allTags ix t).mp ht
  simp [String.empty_lt_of_ne hne]

/-- the listing beyond `last` is the full listing, filtered -/
theorem listing_eq_filter (ix : Index) (last : String) :
    listing ix last = (listing ix "").filter (fun t => decide (last < t)) := by
  unfold listing
  rw [tagsAfter_empty, tagsAfter_eq_filter, sortS_filter]

/-- the listing is a permutation of the tags beyond `last` — each as often as entries carry it — and sorted -/
theorem listing_perm_sorted (ix : Index) (last : String) :
    (listing ix last).Perm (tagsAfter ix last) ∧ (listing ix last).Pairwise (· ≤ ·) :=
  ⟨sortS_perm _, sortS_sorted _⟩

theorem mem_listing (ix : Index) (last t : String) :
    t ∈ listing ix last ↔ ∃ d ∈ ix.manifests, d.ann.isNil = false ∧ d.ann.tag = t ∧ t ≠ "" ∧ last < t := by
  unfold listing; rw [mem_sortS, mem_tagsAfter]

/-- no two entries of the index carry the same tag (the C18 shape of a tag map) -/
def TagsUnique (ix : Index) : Prop :=
  ix.manifests.Pairwise fun a b => ¬ (a.ann.isNil = false ∧ b.ann.isNil = false ∧ a.ann.tag ≠ "" ∧ a.ann.tag = b.ann.tag)

theorem tagsAfter_nodup (ix : Index) (last : String) (hU : TagsUnique ix) : (tagsAfter ix last).Nodup := by
  unfold tagsAfter List.Nodup
  rw [List.pairwise_filterMap]
  refine hU.imp ?_
  intro a b hab t ha t' hb
  split at ha
  · rename_i hca
    split at hb
    · rename_i hcb
      simp only [Option.some.injEq] at ha hb
      subst ha; subst hb
      intro heq
      exact hab ⟨by simpa using hca.1, by simpa using hcb.1, hca.2.1, heq⟩
    · cases hb
  · cases ha

/-- with unique tags the listing is strictly increasing: every tag once -/
theorem listing_strict (ix : Index) (last : String) (hU : TagsUnique ix) : (listing ix last).Pairwise (· < ·) :=
  sortS_strict _ (tagsAfter_nodup ix last hU)

/-- the answer of the handler for every `n` and `last`, in terms of the listing -/
theorem tags_eq (s : State) (r n last : String) :
    (tags s r n last).2 =
      if n = "" then renderTags (listing (s.repo r).index last) "" else
      match atoi? n with
      | none => renderTags (listing (s.repo r).index last) ""
      | some ni =>
        if 0 ≤ ni ∧ ((listing (s.repo r).index last).length : Int) > ni then
          match ((listing (s.repo r).index last).take ni.toNat).getLast? with
          | none => renderTags ((listing (s.repo r).index last).take ni.toNat) ""
          | some l => renderTags ((listing (s.repo r).index last).take ni.toNat) s!"next(last={l},n={n})"
        else renderTags (listing (s.repo r).index last) "" := by
  unfold tags listing tagsAfter
  simp only [repo_touch]
  by_cases hn : n = ""
  · rw [if_pos hn, if_pos hn]; rfl
  · rw [if_neg hn, if_neg hn]
    cases atoi? n with
    | none => rfl
    | some ni =>
      simp only []
      generalize sortS (List.filterMap _ _) = L
      by_cases hc : 0 ≤ ni ∧ (L.length : Int) > ni
      · rw [if_pos hc, if_pos hc]
        generalize (L.take ni.toNat).getLast? = g
        cases g <;> rfl
      · rw [if_neg hc, if_neg hc]; rfl

/-! ## 3. pagination, generically -/

section generic
variable {α : Type} (lt : α → α → Prop) [DecidableRel lt]

/-- one page of at most `n` of the candidates, with the `last` to continue from if there are more -/
def pageG (c : List α) (n : Nat) : List α × Option α :=
  if c.length > n then (c.take n, (c.take n).getLast?) else (c, none)

/-- the candidates beyond `last` -/
def afterG (ts : List α) (last : Option α) : List α :=
  ts.filter (fun t => match last with | none => true | some l => decide (lt l t))

/-- follow the `last` of each page; `fuel` only makes the definition structurally recursive -/
def pagesG (ts : List α) (n : Nat) : Nat → Option α → List (List α)
  | 0, _ => []
  | f+1, last =>
    match pageG (afterG lt ts last) n with
    | (p, none) => [p]
    | (p, some l) => p :: pagesG ts n f (some l)

variable (hirr : ∀ a, ¬ lt a a) (hasym : ∀ a b, lt a b → ¬ lt b a)
include hirr hasym

theorem filter_suffixG (pre suf : List α) (x : α) (hs : (pre ++ [x] ++ suf).Pairwise lt) :
    afterG lt (pre ++ [x] ++ suf) (some x) = suf := by
  obtain ⟨hpx, _, hcross⟩ := List.pairwise_append.mp hs
  obtain ⟨_, _, hpre⟩ := List.pairwise_append.mp hpx
  unfold afterG
  rw [List.filter_append, List.filter_append]
  have e1 : pre.filter (fun t => decide (lt x t)) = [] := by
    apply List.filter_eq_nil_iff.mpr
    intro a ha
    simpa using hasym a x (hpre a ha x (by simp))
  have e2 : [x].filter (fun t => decide (lt x t)) = [] := by simp [hirr x]
  have e3 : suf.filter (fun t => decide (lt x t)) = suf := by
    apply List.filter_eq_self.mpr
    intro b hb
    simpa using hcross x (by simp) b hb
  rw [e1, e2, e3]; simp

omit hirr hasym in
theorem take_concat' (l : List α) (n : Nat) (hn : 1 ≤ n) (hl : l.length > n) :
    ∃ q y, l.take n = q ++ [y] := by
  have hne : l.take n ≠ [] := by
    intro h0
    have h1 := List.length_take (i := n) (l := l)
    rw [h0] at h1
    simp only [List.length_nil] at h1; omega
  rcases List.eq_nil_or_concat (l.take n) with h | ⟨q, y, h⟩
  · exact absurd h hne
  · exact ⟨q, y, by simpa using h⟩

theorem pages_suffixG (n : Nat) (hn : 1 ≤ n) :
    ∀ (f : Nat) (pre suf : List α) (x : α), (pre ++ [x] ++ suf).Pairwise lt → suf.length < f →
      (pagesG lt (pre ++ [x] ++ suf) n f (some x)).flatten = suf := by
  intro f
  induction f with
  | zero => intro pre suf x _ h; omega
  | succ f ih =>
    intro pre suf x hs hf
    unfold pagesG pageG
    simp only [filter_suffixG lt hirr hasym pre suf x hs]
    by_cases hlen : suf.length > n
    · simp only [hlen, if_true]
      obtain ⟨q, y, hq⟩ := take_concat' suf n hn hlen
      have hlast : (suf.take n).getLast? = some y := by rw [hq]; simp
      simp only [hlast]
      have hsplit : suf = q ++ [y] ++ suf.drop n := by rw [← hq]; simp
      have hts : pre ++ [x] ++ suf = (pre ++ [x] ++ q) ++ [y] ++ suf.drop n := by
        conv => lhs; rw [hsplit]
        simp
      have hrec := ih (pre ++ [x] ++ q) (suf.drop n) y (by rw [← hts]; exact hs) (by simp; omega)
      rw [← hts] at hrec
      simp only [List.flatten_cons, hrec]
      simp
    · simp only [hlen, if_false]
      simp

/-- pagination over a strictly increasing list: for every page size ≥ 1, following the `last` of each page
    returns the whole list — every element once, in order -/
theorem pagingG (ts : List α) (hs : ts.Pairwise lt) (n : Nat) (hn : 1 ≤ n) :
    (pagesG lt ts n (ts.length + 1) none).flatten = ts := by
  have hnone : afterG lt ts none = ts := by
    unfold afterG
    exact List.filter_eq_self.mpr (by intro a _; rfl)
  unfold pagesG pageG
  rw [hnone]
  by_cases hlen : ts.length > n
  · simp only [hlen, if_true]
    obtain ⟨q, y, hq⟩ := take_concat' ts n hn hlen
    have hlast : (ts.take n).getLast? = some y := by rw [hq]; simp
    simp only [hlast]
    have hsplit : ts = q ++ [y] ++ ts.drop n := by rw [← hq]; simp
    have hrec := pages_suffixG lt hirr hasym n hn ts.length q (ts.drop n) y (by rw [← hsplit]; exact hs) (by simp; omega)
    rw [← hsplit] at hrec
    simp only [List.flatten_cons, hrec]
    simp
  · simp only [hlen, if_false]
    simp
end generic

/-- instance at `Nat`: the generic iteration is `PxP.pages` -/
theorem pagesG_nat (ts : List Nat) (n : Nat) : ∀ (f : Nat) (last : Option Nat),
    PxP.pages ts n f last = pagesG (· < ·) ts n f last := by
  intro f
  induction f with
  | zero => intro last; rfl
  | succ f ih =>
    intro last
    unfold PxP.pages pagesG
    have : PxP.tagPage ts last n = pageG (afterG (· < ·) ts last) n := by
      unfold PxP.tagPage pageG afterG
      cases last <;> rfl
    rw [this]
    rcases pageG (afterG (· < ·) ts last) n with ⟨p, _ | l⟩
    · rfl
    · simp only [ih]

/-- `PxP.paging` as an instance of the generic statement -/
theorem paging_nat (ts : List Nat) (hs : ts.Pairwise (· < ·)) (n : Nat) (hn : 1 ≤ n) :
    (PxP.pages ts n (ts.length + 1) none).flatten = ts := by
  rw [pagesG_nat]
  exact pagingG (· < ·) (fun a => Nat.lt_irrefl a) (fun a b h => Nat.lt_asymm h) ts hs n hn

/-- instance at `String` -/
theorem paging_string (ts : List String) (hs : ts.Pairwise (· < ·)) (n : Nat) (hn : 1 ≤ n) :
    (pagesG (· < ·) ts n (ts.length + 1) none).flatten = ts :=
  pagingG (· < ·) (fun a => String.lt_irrefl a) (fun _ _ h => String.lt_asymm h) ts hs n hn

/-! ## 4. the pages of `Upd.tags` -/

/-- rendering of a page with its continuation -/
def renderPage (n : String) (p : List String × Option String) : Resp :=
  match p.2 with
  | none => renderTags p.1 ""
  | some l => renderTags p.1 s!"next(last={l},n={n})"

/-- the page `Upd.tags` serves for page size `k` beyond `last`, as data -/
def tagsPage (s : State) (r : String) (k : Nat) (last : String) : List String × Option String :=
  pageG (listing (s.repo r).index last) k

/-- for a page size that parses to a natural number the answer is the rendering of `tagsPage` -/
theorem tags_eq_page (s : State) (r n last : String) (k : Nat) (hn : n ≠ "") (hk : atoi? n = some (k : Int)) :
    (tags s r n last).2 = renderPage n (tagsPage s r k last) := by
  rw [tags_eq, if_neg hn, hk]
  simp only [tagsPage, pageG, renderPage]
  have h0 : (0 : Int) ≤ (k : Int) := Int.natCast_nonneg k
  by_cases hlen : (listing (s.repo r).index last).length > k
  · have : (0 : Int) ≤ (k : Int) ∧ ((listing (s.repo r).index last).length : Int) > (k : Int) := ⟨h0, by omega⟩
    rw [if_pos this, if_pos hlen]
    simp only [Int.toNat_natCast]
  · have : ¬ ((0 : Int) ≤ (k : Int) ∧ ((listing (s.repo r).index last).length : Int) > (k : Int)) := by omega
    rw [if_neg this, if_neg hlen]

/-- absent, unparsable, beyond int64 or negative `n`: the whole listing, no Link -/
theorem tags_eq_all (s : State) (r n last : String)
    (h : n = "" ∨ atoi? n = none ∨ ∃ ni, atoi? n = some ni ∧ ni < 0) :
    (tags s r n last).2 = renderTags (listing (s.repo r).index last) "" := by
  rw [tags_eq]
  split
  · rfl
  · rcases h with h | h | ⟨ni, h, hneg⟩
    · contradiction
    · rw [h]
    · rw [h]
      have : ¬ ((0 : Int) ≤ ni ∧ ((listing (s.repo r).index last).length : Int) > ni) := by omega
      simp only [this, if_false]

theorem next_ne_empty (l n : String) : s!"next(last={l},n={n})" ≠ "" := by
  intro h
  have := congrArg String.length h
  simp [String.length_append, toString] at this

/-- a page of size `k ≥ 1` is the first `k` elements of the listing, and carries a Link — with `last` = the last
    element served — exactly when the listing is longer than `k` -/
theorem tagsPage_spec (s : State) (r : String) (k : Nat) (last : String) (hk : 1 ≤ k) :
    (tagsPage s r k last).1 = (listing (s.repo r).index last).take k ∧
    ((listing (s.repo r).index last).length ≤ k → (tagsPage s r k last).2 = none) ∧
    ((listing (s.repo r).index last).length > k →
      ∃ l, (tagsPage s r k last).2 = some l ∧ (tagsPage s r k last).1.getLast? = some l) := by
  unfold tagsPage pageG
  generalize listing (s.repo r).index last = L
  by_cases hlen : L.length > k
  · rw [if_pos hlen]
    refine ⟨rfl, fun h => by omega, fun _ => ?_⟩
    obtain ⟨q, y, hq⟩ := take_concat' L k hk hlen
    exact ⟨y, by simp [hq], by simp [hq]⟩
  · rw [if_neg hlen]
    refine ⟨?_, fun _ => rfl, fun h => absurd h hlen⟩
    simp only []
    rw [List.take_of_length_le (by omega)]

/-- page size 0: an empty page without a Link, whatever the listing -/
theorem tagsPage_zero (s : State) (r last : String) : tagsPage s r 0 last = ([], none) := by
  unfold tagsPage pageG
  generalize listing (s.repo r).index last = L
  cases L <;> simp

/-- every page is a prefix of the listing -/
theorem tagsPage_prefix (s : State) (r : String) (k : Nat) (last : String) :
    (tagsPage s r k last).1 = (listing (s.repo r).index last).take k := by
  unfold tagsPage pageG
  generalize listing (s.repo r).index last = L
  by_cases hlen : L.length > k
  · rw [if_pos hlen]
  · rw [if_neg hlen]
    simp only []
    rw [List.take_of_length_le (by omega)]

/-- follow the Link header of `Upd.tags` with page size `k`, starting beyond `last` -/
def followTags (s : State) (r : String) (k : Nat) : Nat → String → List (List String)
  | 0, _ => []
  | f+1, last =>
    match tagsPage s r k last with
    | (p, none) => [p]
    | (p, some l) => p :: followTags s r k f l

theorem followTags_eq (s : State) (r : String) (k : Nat) : ∀ (f : Nat) (last : String),
    followTags s r k f last = pagesG (· < ·) (listing (s.repo r).index "") k f (some last) := by
  intro f
  induction f with
  | zero => intro last; rfl
  | succ f ih =>
    intro last
    unfold followTags pagesG
    have : tagsPage s r k last = pageG (afterG (· < ·) (listing (s.repo r).index "") (some last)) k := by
      unfold tagsPage afterG
      rw [listing_eq_filter]
    rw [this]
    rcases pageG (afterG (· < ·) (listing (s.repo r).index "") (some last)) k with ⟨p, _ | l⟩
    · rfl
    · simp only [ih]

theorem followTags_start (s : State) (r : String) (k f : Nat) :
    followTags s r k (f+1) "" = pagesG (· < ·) (listing (s.repo r).index "") k (f+1) none := by
  unfold followTags pagesG
  have : tagsPage s r k "" = pageG (afterG (· < ·) (listing (s.repo r).index "") none) k := by
    unfold tagsPage afterG
    congr 1
    exact (List.filter_eq_self.mpr (by intro a _; rfl)).symm
  rw [this]
  rcases pageG (afterG (· < ·) (listing (s.repo r).index "") none) k with ⟨p, _ | l⟩
  · rfl
  · simp only [followTags_eq]

/-- with unique tags, following `last` page by page with any page size ≥ 1 returns the whole listing -/
theorem followTags_all (s : State) (r : String) (k : Nat) (hk : 1 ≤ k) (hU : TagsUnique (s.repo r).index) :
    (followTags s r k ((listing (s.repo r).index "").length + 1) "").flatten = listing (s.repo r).index "" := by
  rw [followTags_start]
  exact paging_string _ (listing_strict _ "" hU) k hk
end Upd
