import Upd.Index
import Ixd.Loop
/-!
# What `RmDesc` (digest + tag) and `AddDesc` (referrer annotation only) do to the entries of an index

Lemmas about `Upd.rmDesc` / `Upd.addDesc` for the two shapes of call that `indexIngest` makes.  The loops of
`Upd.Index` are explicit recursions; they are connected here to the generic descending loop `Ixd.descLoop`, whose
result is, up to permutation, a plain recursion over the reversed list (`Ixd.descLoop_perm`).
-/
namespace Upd
open Ixd (Act descLoop revSpec descLoop_perm)

theorem swapRemove_eq (l : List Desc) (i : Nat) : Upd.swapRemove l i = Ixd.swapRemove l i := by
  unfold Upd.swapRemove Ixd.swapRemove
  cases l.getLast? <;> rfl

/-! ## RmDesc, main loop -/

/-- body of the main loop of RmDesc; the threaded state is Go's `found` -/
def rmStep (d : Desc) (tag subj : String) (found : Bool) (e : Desc) : Bool × Act Desc :=
  if d.dig ≠ "" ∧ e.dig = d.dig then
    if tag ≠ "" then
      if found ∧ (e.ann.len = 0 ∨ e.ann.tag = tag) then (true, .drop)
      else if ¬ e.ann.isNil ∧ e.ann.tag = tag then (true, .set { e with ann := { e.ann with tag := "" } })
      else (true, .keep)
    else (found, .drop)
  else if d.dig = "" ∧ ¬ e.ann.isNil ∧ ((tag ≠ "" ∧ e.ann.tag = tag) ∨ (subj ≠ "" ∧ e.ann.subj = subj)) then (found, .drop)
  else (found, .keep)

theorem rmMainLoop_succ (d : Desc) (tag subj : String) (n : Nat) (found : Bool) (l : List Desc) :
    rmMainLoop d tag subj (n+1) found l =
      match l[n]? with
      | none => rmMainLoop d tag subj n found l
      | some e =>
        match rmStep d tag subj found e with
        | (s', .keep)  => rmMainLoop d tag subj n s' l
        | (s', .set y) => rmMainLoop d tag subj n s' (l.set n y)
        | (s', .drop)  => rmMainLoop d tag subj n s' (swapRemove l n) := by
  rw [rmMainLoop]
  cases hg : l[n]? with
  | none => rfl
  | some e =>
    simp only []
    unfold rmStep
    by_cases h1 : d.dig ≠ "" ∧ e.dig = d.dig
    · rw [if_pos h1, if_pos h1]
      by_cases h2 : tag ≠ ""
      · rw [if_pos h2, if_pos h2]
        by_cases h3 : found = true ∧ (e.ann.len = 0 ∨ e.ann.tag = tag)
        · rw [if_pos h3, if_pos h3]
        · rw [if_neg h3, if_neg h3]
          by_cases h4 : ¬ e.ann.isNil = true ∧ e.ann.tag = tag
          · rw [if_pos h4, if_pos h4]
          · rw [if_neg h4, if_neg h4]
      · rw [if_neg h2, if_neg h2]
    · rw [if_neg h1, if_neg h1]
      by_cases h5 : d.dig = "" ∧ ¬ e.ann.isNil = true ∧ ((tag ≠ "" ∧ e.ann.tag = tag) ∨ (subj ≠ "" ∧ e.ann.subj = subj))
      · rw [if_pos h5, if_pos h5]
      · rw [if_neg h5, if_neg h5]

theorem rmMainLoop_eq (d : Desc) (tag subj : String) :
    ∀ (n : Nat) (found : Bool) (l : List Desc),
      rmMainLoop d tag subj n found l = (descLoop (rmStep d tag subj) n found l).2 := by
  intro n
  induction n with
  | zero => intro found l; simp [rmMainLoop, descLoop]
  | succ n ih =>
    intro found l
    rw [rmMainLoop_succ, descLoop]
    cases hg : l[n]? with
    | none => simp only []; exact ih found l
    | some e =>
      simp only []
      rcases hs : rmStep d tag subj found e with ⟨s', act⟩
      cases act with
      | keep => simp only []; exact ih s' l
      | set y => simp only []; exact ih s' _
      | drop => simp only []; rw [swapRemove_eq]; exact ih s' _

section conslemmas
variable {α σ : Type} (f : σ → α → σ × Act α)
theorem revSpec_cons_keep {s s' : σ} {x : α} (xs : List α) (h : f s x = (s', Act.keep)) :
    revSpec f (x :: xs) s = ((revSpec f xs s').1, x :: (revSpec f xs s').2) := by simp only [revSpec, h]
theorem revSpec_cons_set {s s' : σ} {x y : α} (xs : List α) (h : f s x = (s', Act.set y)) :
    revSpec f (x :: xs) s = ((revSpec f xs s').1, y :: (revSpec f xs s').2) := by simp only [revSpec, h]
theorem revSpec_cons_drop {s s' : σ} {x : α} (xs : List α) (h : f s x = (s', Act.drop)) :
    revSpec f (x :: xs) s = revSpec f xs s' := by simp only [revSpec, h]

/-- a stateless dropping step is a filter -/
theorem revSpec_filter (p : α → Bool)
    (hf : ∀ s x, f s x = (s, if p x then Act.drop else Act.keep)) :
    ∀ (l : List α) (s : σ), (revSpec f l s).2 = l.filter (fun x => !p x) := by
  intro l
  induction l with
  | nil => intro s; simp [revSpec]
  | cons x xs ih =>
    intro s
    unfold revSpec
    rw [hf s x]
    by_cases hp : p x
    · simp [hp, ih]
    · simp [hp, ih]
end conslemmas

/-- the entry with tag `t` cleared -/
def clearTag (e : Desc) : Desc := { e with ann := { e.ann with tag := "" } }

section tagdelete
variable (d : Desc) (t subj : String)

theorem step_other (hd : d.dig ≠ "") (found : Bool) (x : Desc) (hx : x.dig ≠ d.dig) :
    rmStep d t subj found x = (found, Act.keep) := by
  unfold rmStep; simp [hx, hd]

theorem step_drop (hd : d.dig ≠ "") (ht : t ≠ "") (x : Desc) (hx : x.dig = d.dig)
    (h : x.ann.len = 0 ∨ x.ann.tag = t) : rmStep d t subj true x = (true, Act.drop) := by
  unfold rmStep; simp [hx, hd, ht, h]

theorem step_set (hd : d.dig ≠ "") (ht : t ≠ "") (found : Bool) (x : Desc) (hx : x.dig = d.dig)
    (h1 : ¬ (found = true ∧ (x.ann.len = 0 ∨ x.ann.tag = t))) (h2 : ¬ x.ann.isNil = true ∧ x.ann.tag = t) :
    rmStep d t subj found x = (true, Act.set (clearTag x)) := by
  unfold rmStep clearTag
  rw [if_pos ⟨hd, hx⟩, if_pos ht, if_neg h1, if_pos h2]

theorem step_keep (hd : d.dig ≠ "") (ht : t ≠ "") (found : Bool) (x : Desc) (hx : x.dig = d.dig)
    (h1 : ¬ (found = true ∧ (x.ann.len = 0 ∨ x.ann.tag = t))) (h2 : ¬ (¬ x.ann.isNil = true ∧ x.ann.tag = t)) :
    rmStep d t subj found x = (true, Act.keep) := by
  unfold rmStep
  rw [if_pos ⟨hd, hx⟩, if_pos ht, if_neg h1, if_neg h2]

/-- every survivor is an original entry, or an original entry of the digest that held the tag, with the tag cleared -/
theorem revSpec_origin (hd : d.dig ≠ "") (ht : t ≠ "") :
    ∀ (l : List Desc) (found : Bool), ∀ e' ∈ (revSpec (rmStep d t subj) l found).2,
      ∃ e ∈ l, e' = e ∨ (e' = clearTag e ∧ e.dig = d.dig ∧ e.ann.isNil = false ∧ e.ann.tag = t) := by
  intro l
  induction l with
  | nil => intro found e he; simp [revSpec] at he
  | cons x xs ih =>
    intro found e' he
    have lift : (∃ e ∈ xs, e' = e ∨ (e' = clearTag e ∧ e.dig = d.dig ∧ e.ann.isNil = false ∧ e.ann.tag = t)) →
        ∃ e ∈ x :: xs, e' = e ∨ (e' = clearTag e ∧ e.dig = d.dig ∧ e.ann.isNil = false ∧ e.ann.tag = t) :=
      fun ⟨e, h1, h2⟩ => ⟨e, List.mem_cons_of_mem _ h1, h2⟩
    by_cases hx : x.dig = d.dig
    · by_cases h1 : found = true ∧ (x.ann.len = 0 ∨ x.ann.tag = t)
      · obtain ⟨hf, h1'⟩ := h1
        subst hf
        rw [revSpec_cons_drop _ xs (step_drop d t subj hd ht x hx h1')] at he
        exact lift (ih _ e' he)
      · by_cases h2 : ¬ x.ann.isNil = true ∧ x.ann.tag = t
        · rw [revSpec_cons_set _ xs (step_set d t subj hd ht found x hx h1 h2)] at he
          rcases List.mem_cons.mp he with rfl | he'
          · exact ⟨x, List.mem_cons_self, Or.inr ⟨rfl, hx, by simpa using h2.1, h2.2⟩⟩
          · exact lift (ih _ e' he')
        · rw [revSpec_cons_keep _ xs (step_keep d t subj hd ht found x hx h1 h2)] at he
          rcases List.mem_cons.mp he with rfl | he'
          · exact ⟨e', List.mem_cons_self, Or.inl rfl⟩
          · exact lift (ih _ e' he')
    · rw [revSpec_cons_keep _ xs (step_other d t subj hd found x hx)] at he
      rcases List.mem_cons.mp he with rfl | he'
      · exact ⟨e', List.mem_cons_self, Or.inl rfl⟩
      · exact lift (ih _ e' he')

/-- entries of other digests, and entries of the digest that carry something else than the tag, are untouched -/
theorem revSpec_frame (hd : d.dig ≠ "") (ht : t ≠ "") :
    ∀ (l : List Desc) (found : Bool) (e : Desc), e ∈ l → (e.dig ≠ d.dig ∨ (e.ann.len ≠ 0 ∧ e.ann.tag ≠ t)) →
      e ∈ (revSpec (rmStep d t subj) l found).2 := by
  intro l
  induction l with
  | nil => intro _ e he; simp at he
  | cons x xs ih =>
    intro found e he hne
    by_cases hx : x.dig = d.dig
    · by_cases h1 : found = true ∧ (x.ann.len = 0 ∨ x.ann.tag = t)
      · obtain ⟨hf, h1'⟩ := h1
        subst hf
        rw [revSpec_cons_drop _ xs (step_drop d t subj hd ht x hx h1')]
        rcases List.mem_cons.mp he with h | h
        · subst h
          rcases hne with h | ⟨ha, hb⟩
          · exact absurd hx h
          · rcases h1' with h | h
            · exact absurd h ha
            · exact absurd h hb
        · exact ih _ e h hne
      · by_cases h2 : ¬ x.ann.isNil = true ∧ x.ann.tag = t
        · rw [revSpec_cons_set _ xs (step_set d t subj hd ht found x hx h1 h2)]
          rcases List.mem_cons.mp he with h | h
          · subst h
            rcases hne with h | ⟨_, hb⟩
            · exact absurd hx h
            · exact absurd h2.2 hb
          · exact List.mem_cons_of_mem _ (ih _ e h hne)
        · rw [revSpec_cons_keep _ xs (step_keep d t subj hd ht found x hx h1 h2)]
          rcases List.mem_cons.mp he with h | h
          · subst h; exact List.mem_cons_self
          · exact List.mem_cons_of_mem _ (ih _ e h hne)
    · rw [revSpec_cons_keep _ xs (step_other d t subj hd found x hx)]
      rcases List.mem_cons.mp he with h | h
      · subst h; exact List.mem_cons_self
      · exact List.mem_cons_of_mem _ (ih _ e h hne)

/-- no surviving entry carries tag `t` on digest `d.dig` -/
theorem revSpec_gone (hd : d.dig ≠ "") (ht : t ≠ "") :
    ∀ (l : List Desc) (found : Bool), ∀ e ∈ (revSpec (rmStep d t subj) l found).2,
      ¬ (e.dig = d.dig ∧ e.ann.isNil = false ∧ e.ann.tag = t) := by
  intro l
  induction l with
  | nil => intro found e he; simp [revSpec] at he
  | cons x xs ih =>
    intro found e he
    by_cases hx : x.dig = d.dig
    · by_cases h1 : found = true ∧ (x.ann.len = 0 ∨ x.ann.tag = t)
      · obtain ⟨hf, h1'⟩ := h1
        subst hf
        rw [revSpec_cons_drop _ xs (step_drop d t subj hd ht x hx h1')] at he
        exact ih _ e he
      · by_cases h2 : ¬ x.ann.isNil = true ∧ x.ann.tag = t
        · rw [revSpec_cons_set _ xs (step_set d t subj hd ht found x hx h1 h2)] at he
          rcases List.mem_cons.mp he with rfl | he'
          · intro ⟨_, _, htag⟩; exact ht htag.symm
          · exact ih _ e he'
        · rw [revSpec_cons_keep _ xs (step_keep d t subj hd ht found x hx h1 h2)] at he
          rcases List.mem_cons.mp he with rfl | he'
          · intro ⟨_, hn, htag⟩
            exact h2 ⟨by simp [hn], htag⟩
          · exact ih _ e he'
    · rw [revSpec_cons_keep _ xs (step_other d t subj hd found x hx)] at he
      rcases List.mem_cons.mp he with rfl | he'
      · intro ⟨h, _⟩; exact hx h
      · exact ih _ e he'

/-- starting with `found = false`, the first entry of the digest that is visited survives (possibly untagged) -/
theorem revSpec_keeps (hd : d.dig ≠ "") (ht : t ≠ "") :
    ∀ (l : List Desc), (∃ x ∈ l, x.dig = d.dig) → ∃ e ∈ (revSpec (rmStep d t subj) l false).2, e.dig = d.dig := by
  intro l
  induction l with
  | nil => intro ⟨x, hx, _⟩; simp at hx
  | cons x xs ih =>
    intro hex
    by_cases hx : x.dig = d.dig
    · have h1 : ¬ (false = true ∧ (x.ann.len = 0 ∨ x.ann.tag = t)) := by simp
      by_cases h2 : ¬ x.ann.isNil = true ∧ x.ann.tag = t
      · rw [revSpec_cons_set _ xs (step_set d t subj hd ht false x hx h1 h2)]
        exact ⟨_, List.mem_cons_self, hx⟩
      · rw [revSpec_cons_keep _ xs (step_keep d t subj hd ht false x hx h1 h2)]
        exact ⟨x, List.mem_cons_self, hx⟩
    · rw [revSpec_cons_keep _ xs (step_other d t subj hd false x hx)]
      obtain ⟨y, hy, hyd⟩ := hex
      have hy' : y ∈ xs := by
        rcases List.mem_cons.mp hy with h | h
        · rw [h] at hyd; exact absurd hyd hx
        · exact h
      obtain ⟨e, he, hed⟩ := ih ⟨y, hy', hyd⟩
      exact ⟨e, List.mem_cons_of_mem _ he, hed⟩
end tagdelete

/-- `RmDesc` with a digest and a tag (how `indexIngest` removes a processed fallback tag) -/
structure RmTagSpec (ix : Index) (d : Desc) (r : Index) : Prop where
  origin : ∀ e' ∈ r.manifests, ∃ e ∈ ix.manifests,
      e' = e ∨ (e' = clearTag e ∧ e.dig = d.dig ∧ e.ann.isNil = false ∧ e.ann.tag = d.ann.tag)
  frame : ∀ e ∈ ix.manifests, (e.dig ≠ d.dig ∨ (e.ann.len ≠ 0 ∧ e.ann.tag ≠ d.ann.tag)) → e ∈ r.manifests
  keeps : (∃ x ∈ ix.manifests, x.dig = d.dig) → ∃ e ∈ r.manifests, e.dig = d.dig
  gone : ∀ e ∈ r.manifests, ¬ (e.dig = d.dig ∧ e.ann.isNil = false ∧ e.ann.tag = d.ann.tag)
  children : r.children = ix.children

theorem rmDesc_tag (ix : Index) (d : Desc) (hd : d.dig ≠ "") (hn : d.ann.isNil = false) (ht : d.ann.tag ≠ "") :
    RmTagSpec ix d (rmDesc ix d) := by
  have hperm : (rmDesc ix d).manifests.Perm (revSpec (rmStep d d.ann.tag d.ann.subj) ix.manifests.reverse false).2 := by
    unfold rmDesc
    simp only [hn, Bool.false_eq_true, if_false]
    rw [rmMainLoop_eq]
    exact (descLoop_perm _ false ix.manifests).2
  refine ⟨?_, ?_, ?_, ?_, ?_⟩
  rotate_left 3
  · intro e he
    exact revSpec_gone d d.ann.tag d.ann.subj hd ht _ false e (hperm.mem_iff.mp he)
  rotate_left 1
  · intro e' he'
    obtain ⟨e, he, h⟩ := revSpec_origin d d.ann.tag d.ann.subj hd ht _ false e' (hperm.mem_iff.mp he')
    exact ⟨e, by simpa using he, h⟩
  · intro e he hne
    exact hperm.mem_iff.mpr (revSpec_frame d d.ann.tag d.ann.subj hd ht _ false e (by simpa using he) hne)
  · intro ⟨x, hx, hxd⟩
    obtain ⟨e, he, hed⟩ := revSpec_keeps d d.ann.tag d.ann.subj hd ht ix.manifests.reverse ⟨x, by simpa using hx, hxd⟩
    exact ⟨e, hperm.mem_iff.mpr he, hed⟩
  · unfold rmDesc
    simp [hn, ht]

/-! ## AddDesc with a referrer annotation only (how `indexIngest` records a response) -/

/-- an entry that `AddDesc` of a response for subject `S` with digest `D` removes: another response of `S` -/
def dropS (D S : String) (e : Desc) : Bool := decide (e.dig ≠ D ∧ e.ann.isNil = false ∧ e.ann.subj = S)

def untagStep (D S : String) (u : Unit) (e : Desc) : Unit × Act Desc := (u, if dropS D S e then .drop else .keep)

theorem addUntagLoop_subj_succ (d : Desc) (S : String) (hS : S ≠ "") (n : Nat) (ix : Index) :
    addUntagLoop d "" S (n+1) ix =
      match ix.manifests[n]? with
      | none => addUntagLoop d "" S n ix
      | some e => if dropS d.dig S e then addUntagLoop d "" S n { ix with manifests := swapRemove ix.manifests n }
                  else addUntagLoop d "" S n ix := by
  rw [addUntagLoop]
  cases hg : ix.manifests[n]? with
  | none => rfl
  | some e =>
    simp only []
    unfold dropS
    by_cases hc : e.dig ≠ d.dig ∧ ¬ e.ann.isNil = true
    · rw [if_pos hc]
      have h0 : ¬ (("" : String) ≠ "" ∧ e.ann.tag = "") := by simp
      rw [if_neg h0]
      by_cases hs : e.ann.subj = S
      · have hd : (e.dig ≠ d.dig ∧ e.ann.isNil = false ∧ e.ann.subj = S) := ⟨hc.1, by simpa using hc.2, hs⟩
        rw [if_pos ⟨hS, hs⟩, if_pos (by simpa using hd)]
      · have hd : ¬ (e.dig ≠ d.dig ∧ e.ann.isNil = false ∧ e.ann.subj = S) := fun h => hs h.2.2
        rw [if_neg (fun h => hs h.2), if_neg (by simpa using hd)]
    · rw [if_neg hc]
      have hd : ¬ (e.dig ≠ d.dig ∧ e.ann.isNil = false ∧ e.ann.subj = S) := by
        intro h; exact hc ⟨h.1, by simp [h.2.1]⟩
      rw [if_neg (by simpa using hd)]

theorem addUntagLoop_subj (d : Desc) (S : String) (hS : S ≠ "") :
    ∀ (n : Nat) (ix : Index), addUntagLoop d "" S n ix =
      { ix with manifests := (descLoop (untagStep d.dig S) n () ix.manifests).2 } := by
  intro n
  induction n with
  | zero => intro ix; simp [addUntagLoop, descLoop]
  | succ n ih =>
    intro ix
    rw [addUntagLoop_subj_succ d S hS, descLoop]
    cases hg : ix.manifests[n]? with
    | none => simp only []; exact ih ix
    | some e =>
      simp only []
      cases hds : dropS d.dig S e with
      | true =>
        have : untagStep d.dig S () e = ((), Act.drop) := by simp [untagStep, hds]
        rw [this]
        simp only [if_true]
        rw [ih, swapRemove_eq]
      | false =>
        have : untagStep d.dig S () e = ((), Act.keep) := by simp [untagStep, hds]
        rw [this]
        simp only [Bool.false_eq_true, if_false]
        exact ih ix

/-- after the first loop of `AddDesc` for a response of `S`: the other responses of `S` are gone, nothing else changed -/
theorem addUntagLoop_subj_mem (d : Desc) (S : String) (hS : S ≠ "") (ix : Index) (e : Desc) :
    e ∈ (addUntagLoop d "" S ix.manifests.length ix).manifests ↔ e ∈ ix.manifests ∧ dropS d.dig S e = false := by
  rw [addUntagLoop_subj d S hS]
  simp only
  have hperm := (descLoop_perm (untagStep d.dig S) () ix.manifests).2
  rw [hperm.mem_iff, revSpec_filter (untagStep d.dig S) (dropS d.dig S) (fun _ _ => rfl)]
  simp [List.mem_filter]

theorem addUntagLoop_subj_children (d : Desc) (S : String) (hS : S ≠ "") (ix : Index) :
    (addUntagLoop d "" S ix.manifests.length ix).children = ix.children := by
  rw [addUntagLoop_subj d S hS]

theorem findIdx_some (p : Desc → Bool) : ∀ (l : List Desc) (i k : Nat), findIdx p l i = some k →
    ∃ o, i ≤ k ∧ l[k - i]? = some o ∧ p o = true := by
  intro l
  induction l with
  | nil => intro i k h; simp [findIdx] at h
  | cons x xs ih =>
    intro i k h
    unfold findIdx at h
    by_cases hp : p x = true
    · simp only [hp, if_true, Option.some.injEq] at h
      subst h
      exact ⟨x, Nat.le_refl _, by simp, hp⟩
    · simp only [hp, if_false, Bool.false_eq_true] at h
      obtain ⟨o, h1, h2, h3⟩ := ih (i+1) k h
      refine ⟨o, by omega, ?_, h3⟩
      have : k - i = (k - (i+1)) + 1 := by omega
      rw [this]; simpa using h2

theorem mem_set_or (l : List Desc) (i : Nat) (d e : Desc) (he : e ∈ l) : e ∈ l.set i d ∨ l[i]? = some e := by
  obtain ⟨j, hj⟩ := List.getElem?_of_mem he
  by_cases hij : i = j
  · subst hij; exact Or.inr hj
  · left
    have : (l.set i d)[j]? = some e := by rw [List.getElem?_set_ne hij]; exact hj
    exact List.mem_of_getElem? this

/-- the entry that `placeDesc` may overwrite when it records a response of `S` with digest `D` -/
def overwritable (D S : String) (o : Desc) : Prop :=
  o.dig = D ∧ (o.ann.isNil = true ∨ (o.ann.tag = "" ∧ (o.ann.subj = "" ∨ o.ann.subj = S)))

theorem placeDesc_subj (l : List Desc) (d : Desc) (S : String) :
    d ∈ placeDesc l d "" S ∧
    (∀ e ∈ placeDesc l d "" S, e = d ∨ e ∈ l) ∧
    (∀ e ∈ l, e ∈ placeDesc l d "" S ∨ overwritable d.dig S e) := by
  have hset : ∀ (mi : Nat) (o : Desc), l[mi]? = some o → overwritable d.dig S o →
      d ∈ l.set mi d ∧ (∀ e ∈ l.set mi d, e = d ∨ e ∈ l) ∧ (∀ e ∈ l, e ∈ l.set mi d ∨ overwritable d.dig S e) := by
    intro mi o ho hov
    have hlt : mi < l.length := by
      rcases Nat.lt_or_ge mi l.length with h | h
      · exact h
      · rw [List.getElem?_eq_none h] at ho; cases ho
    refine ⟨List.mem_set hlt d, ?_, ?_⟩
    · intro e he
      rcases List.mem_or_eq_of_mem_set he with h | h
      · exact Or.inr h
      · exact Or.inl h
    · intro e he
      rcases mem_set_or l mi d e he with h | h
      · exact Or.inl h
      · right
        rw [ho] at h; cases h
        exact hov
  unfold placeDesc
  split
  · rename_i mi h1
    obtain ⟨o, _, ho, hp⟩ := findIdx_some _ l 0 mi h1
    simp only [Nat.sub_zero, decide_eq_true_eq] at ho hp
    exact hset mi o ho ⟨hp.1, Or.inr ⟨hp.2.2.1, Or.inr hp.2.2.2⟩⟩
  · split
    · rename_i mi h2
      obtain ⟨o, _, ho, hp⟩ := findIdx_some _ l 0 mi h2
      simp only [Nat.sub_zero, decide_eq_true_eq] at ho hp
      refine hset mi o ho ⟨hp.1, ?_⟩
      have hc := hp.2
      unfold compatible at hc
      simp only [Bool.or_eq_true, Bool.and_eq_true, decide_eq_true_eq, or_self] at hc
      rcases hc with h | ⟨h3, h4⟩
      · exact Or.inl h
      · exact Or.inr ⟨h3, h4⟩
    · refine ⟨by simp, ?_, ?_⟩
      · intro e he
        simp only [List.mem_append, List.mem_singleton] at he
        rcases he with h | h
        · exact Or.inr h
        · exact Or.inl h
      · intro e he
        exact Or.inl (List.mem_append_left _ he)

/-- the index entry of a response: no tag, referrer annotation `S` -/
def respDesc (mt D : String) (size : Nat) (S : String) : Desc :=
  { mt := mt, dig := D, size := size, ann := { isNil := false, subj := S } }

theorem addDesc_resp_manifests (ix : Index) (mt D : String) (size : Nat) (S : String) (hS : S ≠ "") :
    (addDesc ix (respDesc mt D size S)).manifests =
      placeDesc (addUntagLoop (respDesc mt D size S) "" S ix.manifests.length ix).manifests (respDesc mt D size S) "" S := by
  unfold addDesc respDesc
  simp only [Bool.false_eq_true, if_false, ne_eq, not_true_eq_false, hS, not_false_eq_true, or_true, if_true, moveChildren,
    and_false, false_and]
  split <;> rfl

/-- `AddDesc` of a response for `S`, spelled out on the entries -/
structure AddRespSpec (ix : Index) (D S : String) (d : Desc) (r : Index) : Prop where
  mem : d ∈ r.manifests
  origin : ∀ e ∈ r.manifests, e = d ∨ (e ∈ ix.manifests ∧ dropS D S e = false)
  frame : ∀ e ∈ ix.manifests, dropS D S e = false → e ∈ r.manifests ∨ overwritable D S e

theorem addDesc_resp (ix : Index) (mt D : String) (size : Nat) (S : String) (hS : S ≠ "") :
    AddRespSpec ix D S (respDesc mt D size S) (addDesc ix (respDesc mt D size S)) := by
  have hm := addDesc_resp_manifests ix mt D size S hS
  obtain ⟨p1, p2, p3⟩ := placeDesc_subj (addUntagLoop (respDesc mt D size S) "" S ix.manifests.length ix).manifests
    (respDesc mt D size S) S
  have hmem := addUntagLoop_subj_mem (respDesc mt D size S) S hS ix
  refine ⟨?_, ?_, ?_⟩
  · rw [hm]; exact p1
  · intro e he
    rw [hm] at he
    rcases p2 e he with h | h
    · exact Or.inl h
    · exact Or.inr ((hmem e).mp h)
  · intro e he hd
    rw [hm]
    exact p3 e ((hmem e).mpr ⟨he, hd⟩)

/-- `AddDesc` of a descriptor whose annotation map holds neither a tag nor a referrer: appended unless listed -/
theorem addDesc_plain_manifests (ix : Index) (d : Desc) (h : d.ann.isNil = true ∨ (d.ann.tag = "" ∧ d.ann.subj = "")) :
    (addDesc ix d).manifests = ix.manifests ∨ (addDesc ix d).manifests = ix.manifests ++ [d] := by
  unfold addDesc
  have ht : (if d.ann.isNil = true then "" else d.ann.tag) = "" := by
    rcases h with h | h
    · simp [h]
    · simp [h.1]
  have hs : (if d.ann.isNil = true then "" else d.ann.subj) = "" := by
    rcases h with h | h
    · simp [h]
    · simp [h.2]
  simp only [ht, hs, ne_eq, not_true_eq_false, or_self, if_false, moveChildren, and_self, if_true]
  split <;> split <;> simp
end Upd
