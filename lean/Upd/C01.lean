import Upd.Cas2
import Upd.Reg
/-! scratch: C01 on the pilot model — every blob is keyed by the hash of its bytes, in every reachable state,
    for every history of blob, upload, manifest, tag and referrers requests -/
namespace Upd

theorem putContent_inv (s : State) (r : String) (d : Dig) (content : String) (h : Inv s) (hd : d.content = content) :
    Inv (putContent s r d content) := by
  unfold putContent
  have hr := repo_ok s r h
  simp only []
  split
  · exact setRepo_inv _ _ h hr
  · exact setRepo_inv _ _ h ⟨putBlob_cas _ d content hr.1 hd, by
      intro u hu
      have : u ∈ (s.repo r).uploads := by
        unfold Repo.putBlob at hu
        split at hu <;> simpa using hu
      exact hr.2 u this⟩

/-- changing only the index (or the tables of bodies, responses, cache) does not touch the invariant -/
theorem index_only (s : State) (r : String) (ix : Index) (h : Inv s) : Inv (s.setRepo { s.repo r with index := ix }) :=
  setRepo_inv _ _ h ⟨fun p hp => (repo_ok s r h).1 p hp, fun u hu => (repo_ok s r h).2 u hu⟩

theorem indexInsert_inv (s : State) (r : String) (d : Desc) (cs : List Desc) (h : Inv s) : Inv (indexInsert s r d cs) := by
  unfold indexInsert; exact index_only s r _ h
theorem indexRemove_inv (s : State) (r : String) (d : Desc) (h : Inv s) : Inv (indexRemove s r d) := by
  unfold indexRemove; exact index_only s r _ h

theorem resps_only (s : State) (x : List (String × List Desc)) (h : Inv s) : Inv { s with resps := x } := h
theorem rcache_only (s : State) (x : List ((String × String) × List Desc)) (h : Inv s) : Inv { s with rcache := x } := h

theorem storeResp_inv (s : State) (r subject : String) (ds : List Desc) (h : Inv s) : Inv (storeResp s r subject ds) := by
  unfold storeResp
  simp only []
  apply indexInsert_inv
  apply putContent_inv _ _ _ _ _ rfl
  exact resps_only s _ h

theorem referrerAdd_inv (s : State) (r subject : String) (d : Desc) (h : Inv s) : Inv (referrerAdd s r subject d) := by
  unfold referrerAdd; exact storeResp_inv _ _ _ _ h
theorem referrerDelete_inv (s : State) (r subject : String) (d : Desc) (h : Inv s) : Inv (referrerDelete s r subject d) := by
  unfold referrerDelete
  split
  · exact h
  · exact storeResp_inv _ _ _ _ h

theorem mCommit_inv (s : State) (r b : String) (a : Accepted) (h : Inv s) (hd : a.d.content = b) : Inv (mCommit s r b a).1 := by
  unfold mCommit
  simp only []
  have h1 := putContent_inv s r a.d b h hd
  have h2 := indexInsert_inv _ r { mt := a.mt, dig := a.d.str, size := a.len, ann := if a.tag = "" then {} else { isNil := false, tag := a.tag } } a.children h1
  split
  · exact referrerAdd_inv _ _ _ _ h2
  · exact h2

/-- an accepted manifest is stored under the digest of exactly the bytes that were received -/
theorem mValidate_digest (s : State) (r ref ct qd b : String) (a : Accepted) (h : mValidate s r ref ct qd b = .ok a) :
    a.d.content = b := by
  unfold mValidate refuse at h
  simp only [bind, Except.bind, pure, Except.pure] at h
  repeat' split at h
  all_goals first
    | (cases h; rfl)
    | (simp at h)

theorem mPut_inv (s : State) (r ref ct qd b : String) (h : Inv s) : Inv (mPut s r ref ct qd b).1 := by
  unfold mPut
  simp only []
  have h1 := setRepo_inv s _ h (repo_ok s r h)
  cases hv : mValidate (s.setRepo (s.repo r)) r ref ct qd b with
  | error e => exact h1
  | ok a => exact mCommit_inv _ r b a h1 (mValidate_digest _ r ref ct qd b a hv)

theorem mDel_inv (s : State) (r arg : String) (h : Inv s) : Inv (mDel s r arg).1 := by
  unfold mDel
  simp only []
  have h1 := setRepo_inv s _ h (repo_ok s r h)
  split
  · exact h1
  · apply indexRemove_inv
    repeat' split
    all_goals first
      | exact h1
      | exact referrerDelete_inv _ _ _ _ h1

theorem mGet_inv (s : State) (r arg : String) (acc : List String) (head : Bool) (h : Inv s) : Inv (mGet s r arg acc head).1 := by
  unfold mGet
  simp only []
  have h1 := setRepo_inv s _ h (repo_ok s r h)
  repeat' split
  all_goals exact h1

theorem tags_inv (s : State) (r n last : String) (h : Inv s) : Inv (tags s r n last).1 := by
  unfold tags
  simp only []
  have h1 := setRepo_inv s _ h (repo_ok s r h)
  repeat' split
  all_goals exact h1

theorem refs_inv (s : State) (r arg filter : String) (h : Inv s) : Inv (refs s r arg filter).1 := by
  unfold refs
  simp only []
  have h1 := setRepo_inv s _ h (repo_ok s r h)
  repeat' split
  all_goals first
    | exact h1
    | exact rcache_only _ _ h1

/-- the request alphabet of the pilot -/
inductive Req
  | uPost (r : String) (q : Q) | uPatch (r : String) (sid : Nat) (q : Q) | uPut (r : String) (sid : Nat) (q : Q)
  | uGet (r : String) (sid : Nat) | uDel (r : String) (sid : Nat)
  | bGet (r arg : String) (head : Bool) | bDel (r arg : String)
  | mPut (r ref ct qd body : String) | mGet (r ref : String) (accept : List String) (head : Bool) | mDel (r ref : String)
  | tags (r n last : String) | refs (r arg filter : String)
  | defBody (name : String) (b : Body)

def step (s : State) : Req → State
  | .uPost r q => (Upd.uPost s r q).1 | .uPatch r i q => (Upd.uPatch s r i q).1 | .uPut r i q => (Upd.uPut s r i q).1
  | .uGet r i => (Upd.uGet s r i).1 | .uDel r i => (Upd.uDel s r i).1
  | .bGet r a hd => (Upd.bGet s r a hd).1 | .bDel r a => (Upd.bDel s r a).1
  | .mPut r ref ct qd b => (Upd.mPut s r ref ct qd b).1 | .mGet r ref acc hd => (Upd.mGet s r ref acc hd).1 | .mDel r ref => (Upd.mDel s r ref).1
  | .tags r n l => (Upd.tags s r n l).1 | .refs r a f => (Upd.refs s r a f).1
  | .defBody name b => { s with defs := s.defs ++ [(name, b)] }

theorem step_inv (s : State) (q : Req) (h : Inv s) : Inv (step s q) := by
  cases q with
  | uPost r q => exact uPost_inv s r q h
  | uPatch r i q => exact uPatch_inv s r i q h
  | uPut r i q => exact uPut_inv s r i q h
  | uGet r i => exact uGet_inv s r i h
  | uDel r i => exact uDel_inv s r i h
  | bGet r a hd => exact bGet_inv s r a hd h
  | bDel r a => exact bDel_inv s r a h
  | mPut r ref ct qd b => exact mPut_inv s r ref ct qd b h
  | mGet r ref acc hd => exact mGet_inv s r ref acc hd h
  | mDel r ref => exact mDel_inv s r ref h
  | tags r n l => exact tags_inv s r n l h
  | refs r a f => exact refs_inv s r a f h
  | defBody name b => exact h

/-- C01 on the pilot model: in every state reachable by any history, every blob of every repository is stored under the
    hash of its bytes and every open session's digester has seen exactly the bytes written -/
theorem reach_inv (hist : List Req) : Inv (hist.foldl step {}) := by
  have : ∀ (l : List Req) (s : State), Inv s → Inv (l.foldl step s) := by
    intro l
    induction l with
    | nil => intro s h; exact h
    | cons q rest ih => intro s h; exact ih _ (step_inv s q h)
  exact this hist {} (by intro rp hrp; simp at hrp)

-- Non-vacuity is checked by running the driver (the two-chunk upload `UPOST r ; UPATCH r s1 state=0 body=ab ;
-- UPUT r s1 state=2 digest=sha256:abc body=c ; BGET r sha256:abc` answers 200 with body abc, on the model and on
-- the real server). A kernel-checked `example … := by decide` is not possible on this pilot model because it
-- computes with `String` (splitOn, toNat?), which the kernel does not reduce: the real model keeps strings in the
-- driver only and computes with structured ids, so that `decide` works on witnesses and examples.
end Upd
