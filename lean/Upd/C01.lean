import Upd.Cas2
import Upd.Reg
import Upd.Server
/-! scratch: C01 on the pilot model — every blob is keyed by the hash of its bytes, in every reachable state,
    for every history of blob, upload, manifest, tag and referrers requests -/
namespace Upd

theorem putContent_inv (s : State) (r : String) (d : Dig) (content : String) (h : Inv s) (hd : d.content = content) :
    Inv (putContent s r d content) := by
  unfold putContent
  have hr := repo_ok s r h
  simp only []
  split
  · exact setRepo_inv _ _ h hr
  · exact setRepo_inv _ _ h ⟨putBlob_cas _ d content hr.1 hd, by
      intro u hu
      have : u ∈ (s.repo r).uploads := by
        unfold Repo.putBlob at hu
        split at hu <;> simpa using hu
      exact hr.2 u this⟩

/-- changing only the index (or the tables of bodies, responses, cache) does not touch the invariant -/
theorem index_only (s : State) (r : String) (ix : Index) (h : Inv s) : Inv (s.setRepo { s.repo r with index := ix }) :=
  setRepo_inv _ _ h ⟨fun p hp => (repo_ok s r h).1 p hp, fun u hu => (repo_ok s r h).2 u hu⟩

theorem indexInsert_inv (s : State) (r : String) (d : Desc) (cs : List Desc) (h : Inv s) : Inv (indexInsert s r d cs) := by
  unfold indexInsert; exact index_only s r _ h
theorem indexRemove_inv (s : State) (r : String) (d : Desc) (h : Inv s) : Inv (indexRemove s r d) := by
  unfold indexRemove; exact index_only s r _ h

theorem resps_only (s : State) (x : List (String × List Desc)) (h : Inv s) : Inv { s with resps := x } := h
theorem rcache_only (s : State) (x : List ((String × String × String × String) × List (List Desc))) (h : Inv s) : Inv { s with rcache := x } := h

theorem storeResp_inv (s : State) (r subject : String) (ds : List Desc) (h : Inv s) : Inv (storeResp s r subject ds) := by
  unfold storeResp
  simp only []
  apply indexInsert_inv
  apply putContent_inv _ _ _ _ _ rfl
  exact resps_only s _ h

theorem referrerAdd_inv (s : State) (r subject : String) (d : Desc) (h : Inv s) : Inv (referrerAdd s r subject d) := by
  unfold referrerAdd; exact storeResp_inv _ _ _ _ h
theorem referrerDelete_inv (s : State) (r subject : String) (d : Desc) (h : Inv s) : Inv (referrerDelete s r subject d) := by
  unfold referrerDelete
  split
  · exact h
  · exact storeResp_inv _ _ _ _ h

theorem mCommit_inv (s : State) (r b : String) (a : Accepted) (h : Inv s) (hd : a.d.content = b) : Inv (mCommit s r b a).1 := by
  unfold mCommit
  simp only []
  have h1 := putContent_inv s r a.d b h hd
  have h2 := indexInsert_inv _ r { mt := a.mt, dig := a.d.str, size := a.len, ann := if a.tag = "" then {} else { isNil := false, tag := a.tag } } a.children h1
  split
  · exact referrerAdd_inv _ _ _ _ h2
  · exact h2

theorem bind_ok {α β : Type} (x : Except Resp α) (f : α → Except Resp β) (b : β) (h : (x >>= f) = .ok b) :
    ∃ v, x = .ok v ∧ f v = .ok b := by
  cases x with
  | error e => simp [bind, Except.bind] at h
  | ok v => exact ⟨v, rfl, by simpa [bind, Except.bind] using h⟩

theorem validateImage_d (ro : Bool) (rp : Repo) (b : Body) (mt tag : String) (d : Dig) (a : Accepted)
    (h : validateImage ro rp b mt tag d = .ok a) : a.d = d := by
  unfold validateImage refuse at h
  repeat' split at h
  all_goals first
    | (simp [pure, Except.pure] at h; rw [← h])
    | (simp at h)
theorem validateIndex_d (ro : Bool) (rp : Repo) (b : Body) (mt tag : String) (d : Dig) (a : Accepted)
    (h : validateIndex ro rp b mt tag d = .ok a) : a.d = d := by
  unfold validateIndex refuse at h
  repeat' split at h
  all_goals first
    | (simp [pure, Except.pure] at h; rw [← h])
    | (simp at h)
theorem validateBody_d (ro : Bool) (rp : Repo) (b : Body) (mt tag : String) (d : Dig) (a : Accepted)
    (h : validateBody ro rp b mt tag d = .ok a) : a.d = d := by
  unfold validateBody at h
  split at h
  · exact validateImage_d _ _ _ _ _ _ _ h
  · split at h
    · exact validateIndex_d _ _ _ _ _ _ _ h
    · simp [refuse] at h

theorem checkDigest_ok (e : Option Dig) (d : Dig) (u : Unit) (h : checkDigest e d = .ok u) : ∀ x, e = some x → x = d := by
  intro x hx
  subst hx
  unfold checkDigest at h
  split at h
  · simp [refuse] at h
  · rename_i hne
    simp only [Option.isSome_some, ne_eq, Option.some.injEq, true_and, Decidable.not_not] at hne
    exact hne

/-- an accepted manifest is stored under the digest of exactly the bytes that were received -/
theorem mValidate_digest (s : State) (r ref ct qd b : String) (lk : Bool) (a : Accepted) (h : mValidate s r ref ct qd b lk = .ok a) :
    a.d.content = b := by
  unfold mValidate at h
  obtain ⟨_, _, h⟩ := bind_ok _ _ _ h
  obtain ⟨_, _, h⟩ := bind_ok _ _ _ h
  obtain ⟨_, _, h⟩ := bind_ok _ _ _ h
  obtain ⟨_, _, h⟩ := bind_ok _ _ _ h
  obtain ⟨_, _, h⟩ := bind_ok _ _ _ h
  obtain ⟨_, _, h⟩ := bind_ok _ _ _ h
  rw [validateBody_d _ _ _ _ _ _ _ h]

/-- the declared digest (reference or ?digest=) of an accepted manifest is the digest of the bytes received -/
theorem mValidate_declared (s : State) (r ref ct qd b : String) (lk : Bool) (a : Accepted) (h : mValidate s r ref ct qd b lk = .ok a) :
    (∀ d, DigArg.parse ref = .ok d → isTag ref = false → d = a.d) ∧
    (∀ d, isTag ref = true → qd ≠ "" → DigArg.parse qd = .ok d → d = a.d) := by
  unfold mValidate at h
  obtain ⟨_, _, h⟩ := bind_ok _ _ _ h
  obtain ⟨_, _, h⟩ := bind_ok _ _ _ h
  obtain ⟨qe, hq, h⟩ := bind_ok _ _ _ h
  obtain ⟨te, ht, h⟩ := bind_ok _ _ _ h
  obtain ⟨_, _, h⟩ := bind_ok _ _ _ h
  obtain ⟨_, hc, h⟩ := bind_ok _ _ _ h
  have had := validateBody_d _ _ _ _ _ _ _ h
  have hexp : ∀ e, te.2 = some e → e = a.d := by
    intro e he
    rw [had]
    exact checkDigest_ok _ _ _ hc e he
  constructor
  · intro d hd hnt
    unfold parseRef at ht
    simp only [hnt, Bool.false_eq_true, if_false, hd] at ht
    simp only [pure, Except.pure, Except.ok.injEq] at ht
    exact hexp d (by rw [← ht])
  · intro d htag hqd hd
    unfold parseRef at ht
    simp only [htag, if_true, pure, Except.pure, Except.ok.injEq] at ht
    unfold parseQd at hq
    simp only [hqd, if_false, hd, pure, Except.pure, Except.ok.injEq] at hq
    exact hexp d (by rw [← ht, ← hq])

theorem mPut_inv (s : State) (r ref ct qd b : String) (lk : Bool) (h : Inv s) : Inv (mPut s r ref ct qd b lk).1 := by
  unfold mPut
  simp only []
  have h1 := setRepo_inv s _ h (repo_ok s r h)
  cases hv : mValidate (s.setRepo (s.repo r)) r ref ct qd b lk with
  | error e => exact h1
  | ok a => exact mCommit_inv _ r b a h1 (mValidate_digest _ r ref ct qd b lk a hv)

theorem mDel_inv (s : State) (r arg : String) (h : Inv s) : Inv (mDel s r arg).1 := by
  unfold mDel
  simp only []
  have h1 := setRepo_inv s _ h (repo_ok s r h)
  split
  · exact h1
  · split
    · exact h1
    · apply indexRemove_inv
      repeat' split
      all_goals first
        | exact h1
        | exact referrerDelete_inv _ _ _ _ h1

theorem mGet_inv (s : State) (r arg : String) (acc : List String) (head : Bool) (rng : String) (h : Inv s) : Inv (mGet s r arg acc head rng).1 := by
  unfold mGet
  simp only []
  have h1 := setRepo_inv s _ h (repo_ok s r h)
  repeat' split
  all_goals exact h1

theorem tags_inv (s : State) (r n last : String) (h : Inv s) : Inv (tags s r n last).1 := by
  unfold tags
  simp only []
  have h1 := setRepo_inv s _ h (repo_ok s r h)
  repeat' split
  all_goals exact h1

theorem refs_inv (s : State) (r arg filter cache page : String) (h : Inv s) : Inv (refs s r arg filter cache page).1 := by
  unfold refs
  simp only []
  have h1 := setRepo_inv s _ h (repo_ok s r h)
  split
  · exact h1
  · unfold refsMain
    simp only []
    repeat' split
    all_goals first
      | exact h1
      | exact rcache_only _ _ h1

/-- the dispatch of `ServeHTTP` (switches, read-only, name checks) keeps the invariant -/
theorem step_inv (s : State) (q : Req) (h : Inv s) : Inv (Upd.step s q).1 := by
  cases q <;> simp only [Upd.step] <;> repeat' split
  all_goals first
    | exact h
    | exact uPost_inv _ _ _ h
    | exact uPatch_inv _ _ _ _ h
    | exact uPut_inv _ _ _ _ h
    | exact uGet_inv _ _ _ h
    | exact uDel_inv _ _ _ h
    | exact bGet_inv _ _ _ _ _ h
    | exact bDel_inv _ _ _ h
    | exact mPut_inv _ _ _ _ _ _ _ h
    | exact mGet_inv _ _ _ _ _ _ h
    | exact mDel_inv _ _ _ h
    | exact tags_inv _ _ _ _ h
    | exact refs_inv _ _ _ _ _ _ h

/-- events of a history: requests, body definitions (the harness' `DEF`), and nothing else changes the state -/
inductive Ev
  | req (q : Req)
  | defBody (name : String) (b : Body)

def stepEv (s : State) : Ev → State
  | .req q => (Upd.step s q).1
  | .defBody name b => { s with defs := s.defs ++ [(name, b)] }

theorem stepEv_inv (s : State) (e : Ev) (h : Inv s) : Inv (stepEv s e) := by
  cases e with
  | req q => exact step_inv s q h
  | defBody name b => exact h

/-- C01: in every state reachable by any history under any configuration, every blob of every repository is stored
    under the hash of its bytes and every open session's digester has seen exactly the bytes written -/
theorem reach_inv (conf : Conf) (hist : List Ev) : Inv (hist.foldl stepEv { conf := conf }) := by
  have : ∀ (l : List Ev) (s : State), Inv s → Inv (l.foldl stepEv s) := by
    intro l
    induction l with
    | nil => intro s h; exact h
    | cons q rest ih => intro s h; exact ih _ (stepEv_inv s q h)
  exact this hist { conf := conf } (by intro rp hrp; simp at hrp)
end Upd
