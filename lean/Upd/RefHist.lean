import Upd.RefOK
import Upd.RefQuiet
import Upd.C04
/-! C07 over histories: the structural invariant `RK` of a repository's referrers bookkeeping, how every request
    changes the list read for a subject, and the theorem `refok_reach_partial`. -/
namespace Upd

/-- subject field of a manifest body as the handlers see it -/
def subjOf (b : Body) : String := match b.kind with | "image" | "index" => b.subj | _ => ""

theorem asImage_subj (b : Body) (v : ImgView) (h : b.asImage = some v) : v.subj = subjOf b := by
  unfold Body.asImage at h
  unfold subjOf
  split at h
  all_goals first
    | (cases h; done)
    | (simp only [Option.some.injEq] at h; subst h; simp_all)
theorem asIndex_subj (b : Body) (v : IdxView) (h : b.asIndex = some v) : v.subj = subjOf b := by
  unfold Body.asIndex at h
  unfold subjOf
  split at h
  all_goals first
    | (cases h; done)
    | (simp only [Option.some.injEq] at h; subst h; simp_all)

theorem subjOf_default : subjOf {} = "" := by
  unfold subjOf
  simp

theorem isTag_empty : isTag "" = false := by
  unfold isTag
  simp

theorem Dig.str_ne_empty (d : Dig) : d.str ≠ "" := by
  unfold Dig.str
  cases d.alg <;> simp [Alg.name]

/-- the subject the delete handler reads for the manifest with digest string `g` ("" = none) -/
def subjRead (s : State) (r g : String) : String :=
  match DigArg.parse g with
  | .bad => ""
  | .ok dg => match (s.repo r).blob dg with
    | none => ""
    | some c => subjOf (s.body c)

/-! ### what validation tells about an accepted push -/

theorem validateImage_facts (ro : Bool) (rp : Repo) (b : Body) (mt tag : String) (d : Dig) (a : Accepted)
    (h : validateImage ro rp b mt tag d = .ok a) :
    a.refd.dig = a.d.str ∧ a.subject = (if ro then subjOf b else "") := by
  unfold validateImage refuse at h
  split at h
  · cases h
  · rename_i v hv
    have hs := asImage_subj b v hv
    split at h
    · cases h
    · split at h
      · cases h
      · simp only [pure, Except.pure, Except.ok.injEq] at h
        subst h
        exact ⟨rfl, by simp only [hs]⟩

theorem validateIndex_facts (ro : Bool) (rp : Repo) (b : Body) (mt tag : String) (d : Dig) (a : Accepted)
    (h : validateIndex ro rp b mt tag d = .ok a) :
    a.refd.dig = a.d.str ∧ a.subject = (if ro then subjOf b else "") := by
  unfold validateIndex refuse at h
  split at h
  · cases h
  · rename_i v hv
    have hs := asIndex_subj b v hv
    split at h
    · cases h
    · split at h
      · cases h
      · simp only [pure, Except.pure, Except.ok.injEq] at h
        subst h
        exact ⟨rfl, by simp only [hs]⟩

theorem validateBody_facts (ro : Bool) (rp : Repo) (b : Body) (mt tag : String) (d : Dig) (a : Accepted)
    (h : validateBody ro rp b mt tag d = .ok a) :
    a.refd.dig = a.d.str ∧ a.subject = (if ro then subjOf b else "") := by
  unfold validateBody at h
  split at h
  · exact validateImage_facts _ _ _ _ _ _ _ h
  · split at h
    · exact validateIndex_facts _ _ _ _ _ _ _ h
    · simp [refuse] at h

theorem mValidate_facts (s : State) (r ref ct qd b : String) (lk : Bool) (a : Accepted)
    (h : mValidate s r ref ct qd b lk = .ok a) :
    a.refd.dig = a.d.str ∧ a.subject = (if s.conf.ref then subjOf (s.body b) else "") := by
  unfold mValidate at h
  obtain ⟨_, _, h⟩ := bind_ok _ _ _ h
  obtain ⟨_, _, h⟩ := bind_ok _ _ _ h
  obtain ⟨_, _, h⟩ := bind_ok _ _ _ h
  obtain ⟨_, _, h⟩ := bind_ok _ _ _ h
  obtain ⟨_, _, h⟩ := bind_ok _ _ _ h
  obtain ⟨_, _, h⟩ := bind_ok _ _ _ h
  exact validateBody_facts _ _ _ _ _ _ _ h

/-! ### the structural invariant -/

/-- the bookkeeping of referrers responses in repository `r` is well formed.  `T` is the class of descriptors that
    occur in responses (see `refok_reach_partial`). -/
structure RK (T : Desc → Prop) (r : String) (s : State) : Prop where
  inv : Inv s
  ref : s.conf.ref = true
  table : ∀ n l, s.resp n = some l → n = respName l ∧ ∀ d ∈ l, T d
  noTagSubj : NoTagSubj (s.repo r).index.manifests
  subjFun : SubjFun (s.repo r).index.manifests
  reg : ∀ e ∈ (s.repo r).index.manifests, Sub e →
    ∃ ds, e.dig = (respDig ds).str ∧ ((s.repo r).blob (respDig ds)).isSome ∧ s.resp (respName ds) = some ds

/-- the global hypotheses about content names -/
structure Names (T : Desc → Prop) : Prop where
  inj : ∀ ds ds', (∀ d ∈ ds, T d) → (∀ d ∈ ds', T d) → respName ds = respName ds' → ds = ds'
  rt : ∀ ds, (∀ d ∈ ds, T d) → DigRT (respDig ds)

section
variable {T : Desc → Prop} {r : String}

theorem RK.cas {s : State} (h : RK T r s) : RepoCAS (s.repo r) := (repo_ok s r h.inv).1

theorem RK.fits {s : State} (h : RK T r s) (hN : Names T) (ds : List Desc) (hT : ∀ d ∈ ds, T d) : RespFits s ds := by
  intro ds' hds'
  obtain ⟨hn, hT'⟩ := h.table _ _ hds'
  exact hN.inj ds' ds hT' hT hn.symm

theorem getBySubj_mem (ix : Index) (S : String) (e : Desc) (h : getBySubj ix S = some e) :
    e ∈ ix.manifests ∧ e.ann.isNil = false ∧ e.ann.subj = S := by
  unfold getBySubj at h
  have hm := List.mem_of_find?_eq_some h
  have hp := List.find?_some h
  simp only [Bool.not_eq_true, Bool.decide_and, Bool.and_eq_true, decide_eq_true_eq] at hp
  exact ⟨hm, hp.1, hp.2⟩

theorem blob_some_of_isSome (rp : Repo) (hc : RepoCAS rp) (d : Dig) (h : (rp.blob d).isSome) : rp.blob d = some d.content := by
  cases hb : rp.blob d with
  | none => rw [hb] at h; cases h
  | some c => rw [cas_blob rp hc d c hb]

/-- under the invariant, what the index registers for a subject is a readable, well-formed response -/
theorem RK.registered {s : State} (h : RK T r s) (S : String) (hS : S ≠ "") (e : Desc)
    (hg : getBySubj (s.repo r).index S = some e) : ∃ ds, Registered s r S ds ∧ (∀ d ∈ ds, T d) := by
  obtain ⟨hm, hn, hs⟩ := getBySubj_mem _ _ _ hg
  obtain ⟨ds, hd, hb, hr⟩ := h.reg e hm ⟨hn, by rw [hs]; exact hS⟩
  exact ⟨ds, ⟨⟨e, hg, hd⟩, blob_some_of_isSome _ h.cas _ hb, hr⟩, (h.table _ _ hr).2⟩

theorem respList_of_registered {s : State} {S : String} {ds : List Desc} (h : Registered s r S ds)
    (hrt : DigRT (respDig ds)) : respList s r S = ds := by
  obtain ⟨e, he, _⟩ := h.read hrt
  unfold respList; rw [he]

theorem respList_of_none {s : State} {S : String} (h : getBySubj (s.repo r).index S = none) : respList s r S = [] := by
  unfold respList; rw [(currentResp_none s r S).mpr h]

theorem respList_cases (s : State) (r0 S : String) :
    respList s r0 S = [] ∨ ∃ c, respList s r0 S = (s.resp c).getD [] := by
  unfold respList currentResp
  cases getBySubj (s.repo r0).index S with
  | none => left; rfl
  | some e =>
    simp only []
    cases DigArg.parse e.dig with
    | bad => left; rfl
    | ok dg =>
      simp only []
      cases (s.repo r0).blob dg with
      | none => left; rfl
      | some c => right; exact ⟨c, rfl⟩

/-- whatever is read for a subject, in any repository, comes out of the response table -/
theorem respList_tok {s : State} (htable : ∀ n l, s.resp n = some l → n = respName l ∧ ∀ d ∈ l, T d)
    (r0 S : String) : ∀ d ∈ respList s r0 S, T d := by
  intro d hd
  rcases respList_cases s r0 S with h | ⟨c, h⟩
  · rw [h] at hd; simp at hd
  · rw [h] at hd
    cases hr : s.resp c with
    | none => rw [hr] at hd; simp at hd
    | some l => rw [hr] at hd; exact (htable _ _ hr).2 d (by simpa using hd)

/-- the list read for `S` is the same in two states that agree on the entries annotated `S`, where no blob was lost
    and the response table only grew -/
theorem respList_transfer {s : State} (hK : RK T r s) (hN : Names T) (s' : State) (S : String) (hS : S ≠ "")
    (hent : ∀ e, Sub e → e.ann.subj = S → (e ∈ (s'.repo r).index.manifests ↔ e ∈ (s.repo r).index.manifests))
    (hblob : ∀ g, ((s.repo r).blob g).isSome → ((s'.repo r).blob g).isSome)
    (hresp : ∀ n l, s.resp n = some l → s'.resp n = some l)
    (hcas' : RepoCAS (s'.repo r)) : respList s' r S = respList s r S := by
  obtain ⟨h1, h2⟩ := getBySubj_subSame (s.repo r).index (s'.repo r).index S hS hent hK.subjFun
  cases hg : getBySubj (s.repo r).index S with
  | none => rw [respList_of_none hg, respList_of_none (h1 hg)]
  | some e =>
    obtain ⟨ds, hreg, hT⟩ := hK.registered S hS e hg
    obtain ⟨e', hg', hd'⟩ := h2 e hg
    obtain ⟨⟨e0, he0, hd0⟩, hb, hr⟩ := hreg
    have he : e0 = e := by rw [hg] at he0; cases he0; rfl
    subst he
    have hreg' : Registered s' r S ds :=
      ⟨⟨e', hg', hd'.trans hd0⟩, blob_some_of_isSome _ hcas' _ (hblob _ (by rw [hb]; rfl)), hresp _ _ hr⟩
    rw [respList_of_registered hreg' (hN.rt ds hT), respList_of_registered ⟨⟨e0, hg, hd0⟩, hb, hr⟩ (hN.rt ds hT)]

/-- the invariant moves along any change that keeps the subject entries, the blobs and the table -/
theorem RK.transfer {s : State} (hK : RK T r s) (s' : State) (hinv : Inv s') (hconf : s'.conf = s.conf)
    (htable : ∀ n l, s'.resp n = some l → n = respName l ∧ ∀ d ∈ l, T d)
    (hsame : SubSame (s.repo r).index.manifests (s'.repo r).index.manifests)
    (hblob : ∀ g, ((s.repo r).blob g).isSome → ((s'.repo r).blob g).isSome)
    (hresp : ∀ n l, s.resp n = some l → s'.resp n = some l) : RK T r s' := by
  refine ⟨hinv, by rw [hconf]; exact hK.ref, htable, hsame.noTagSubj hK.noTagSubj, hsame.subjFun hK.subjFun, ?_⟩
  intro e he hsub
  obtain ⟨ds, hd, hb, hr⟩ := hK.reg e ((hsame e hsub).mp he) hsub
  exact ⟨ds, hd, hblob _ hb, hresp _ _ hr⟩

theorem RK.quiet {s s' : State} (hK : RK T r s) (hq : Quiet r s s') (hinv : Inv s') : RK T r s' := by
  have hresp : ∀ n l, s.resp n = some l → s'.resp n = some l := by
    intro n l h; unfold State.resp at h ⊢; rw [hq.resps]; exact h
  apply hK.transfer s' hinv hq.conf _ (by rw [hq.index]; exact SubSame.refl _) hq.blob hresp
  intro n l h
  apply hK.table n l
  unfold State.resp at h ⊢; rw [← hq.resps]; exact h
end
end Upd

namespace Upd
section
variable {T : Desc → Prop} {r : String}

/-- every name in the response table is the canonical name of the list it decodes to, a list over `T` -/
def TableOK (T : Desc → Prop) (s : State) : Prop := ∀ n l, s.resp n = some l → n = respName l ∧ ∀ d ∈ l, T d

theorem table_storeResp {s : State} (htable : TableOK T s) (r0 S : String) (ds : List Desc) (hT : ∀ d ∈ ds, T d) :
    TableOK T (storeResp s r0 S ds) := by
  intro n l h
  cases hs : s.resp n with
  | some l0 =>
    have := storeResp_resp_mono s r0 S ds n l0 hs
    rw [this] at h; cases h
    exact htable n _ hs
  | none =>
    unfold State.resp at h hs
    rw [storeResp_resps] at h
    have hfind : s.resps.find? (fun x => x.1 = n) = none := by
      cases hf : s.resps.find? (fun x => x.1 = n) with
      | none => rfl
      | some p => rw [hf] at hs; cases hs
    split at h
    · rw [hfind] at h; cases h
    · rw [List.find?_append, hfind] at h
      simp only [Option.none_or, List.find?_cons, List.find?_nil] at h
      split at h
      · rename_i heq
        simp only [Option.map_some, Option.some.injEq] at h
        simp only [decide_eq_true_eq] at heq
        subst h
        exact ⟨heq.symm, hT⟩
      · cases h

theorem storeResp_blob_isSome (s : State) (r0 S : String) (ds : List Desc) (g : Dig)
    (h : ((s.repo r0).blob g).isSome) : (((storeResp s r0 S ds).repo r0).blob g).isSome := by
  cases hb : (s.repo r0).blob g with
  | none => rw [hb] at h; cases h
  | some c => rw [storeResp_blob_mono s r0 S ds g c hb]; rfl

theorem storeResp_conf (s : State) (r0 S : String) (ds : List Desc) : (storeResp s r0 S ds).conf = s.conf :=
  (frame_storeResp s r0 S ds).2.1

/-- registering a response keeps the invariant -/
theorem RK.storeResp {s : State} (hK : RK T r s) (hN : Names T) (S : String) (hS : S ≠ "") (ds : List Desc)
    (hT : ∀ d ∈ ds, T d) : RK T r (storeResp s r S ds) := by
  have hreg := storeResp_registered s r S ds hS hK.cas (hK.fits hN ds hT)
  obtain ⟨hself, hall, _⟩ := addDesc_subj (s.repo r).index (respDesc S ds) ds S rfl rfl rfl hS
  have hdig : ∀ e ∈ (addDesc (s.repo r).index (respDesc S ds) ds).manifests, e.ann.isNil = false → e.ann.subj = S →
      e.dig = (respDesc S ds).dig := by
    intro e he hn hs
    rcases hall e he with h | ⟨_, h⟩
    · rw [h]
    · apply Classical.byContradiction
      intro hne; exact h ⟨hne, hn, hs⟩
  have hold : ∀ e ∈ (addDesc (s.repo r).index (respDesc S ds) ds).manifests, e.ann.subj ≠ S → e ∈ (s.repo r).index.manifests := by
    intro e he hne
    rcases hall e he with h | ⟨h, _⟩
    · exfalso; apply hne; rw [h]; rfl
    · exact h
  refine ⟨storeResp_inv s r S ds hK.inv, by rw [storeResp_conf]; exact hK.ref, table_storeResp hK.table r S ds hT, ?_, ?_, ?_⟩
  · rw [storeResp_index]
    intro e he hsub
    rcases hall e he with h | ⟨h, _⟩
    · rw [h]; rfl
    · exact hK.noTagSubj e h hsub
  · rw [storeResp_index]
    intro e1 h1 e2 h2 s1 s2 heq
    by_cases hs : e1.ann.subj = S
    · rw [hdig e1 h1 s1.1 hs, hdig e2 h2 s2.1 (heq ▸ hs)]
    · exact hK.subjFun e1 (hold e1 h1 hs) e2 (hold e2 h2 (heq ▸ hs)) s1 s2 heq
  · rw [storeResp_index]
    intro e he hsub
    rcases hall e he with h | ⟨h, _⟩
    · refine ⟨ds, by rw [h]; rfl, ?_, hreg.2.2⟩
      rw [hreg.2.1]; rfl
    · obtain ⟨ds0, hd, hb, hr⟩ := hK.reg e h hsub
      exact ⟨ds0, hd, storeResp_blob_isSome s r S ds _ hb, storeResp_resp_mono s r S ds _ _ hr⟩

theorem respList_storeResp_self {s : State} (hK : RK T r s) (hN : Names T) (S : String) (hS : S ≠ "") (ds : List Desc)
    (hT : ∀ d ∈ ds, T d) : respList (storeResp s r S ds) r S = ds :=
  respList_of_registered (storeResp_registered s r S ds hS hK.cas (hK.fits hN ds hT)) (hN.rt ds hT)

theorem respList_storeResp_other {s : State} (hK : RK T r s) (hN : Names T) (S : String) (hS : S ≠ "") (ds : List Desc)
    (hT : ∀ d ∈ ds, T d) (S' : String) (hS' : S' ≠ "") (hne : S' ≠ S) :
    respList (storeResp s r S ds) r S' = respList s r S' :=
  respList_transfer hK hN _ S' hS'
    (fun e hsub hs => storeResp_other_entries s r S ds hS e hsub (by rw [hs]; exact hne))
    (fun g hg => storeResp_blob_isSome s r S ds g hg)
    (fun n l h => storeResp_resp_mono s r S ds n l h)
    (hK.storeResp hN S hS ds hT).cas
end
end Upd

namespace Upd
section
variable {T : Desc → Prop} {r : String}

/-! ### steps that only rewrite the index of `r` -/

def withIndex (s : State) (r : String) (ix : Index) : State := s.setRepo { s.repo r with index := ix }

theorem indexInsert_eq (s : State) (r : String) (d : Desc) (cs : List Desc) :
    indexInsert s r d cs = withIndex s r (addDesc (s.repo r).index d cs) := rfl
theorem indexRemove_eq (s : State) (r : String) (d : Desc) :
    indexRemove s r d = withIndex s r (rmDesc (s.repo r).index d) := rfl

theorem withIndex_repo (s : State) (r : String) (ix : Index) : (withIndex s r ix).repo r = { s.repo r with index := ix } := by
  unfold withIndex; exact repo_setRepo_same' _ _ _ (repo_name s r)
theorem withIndex_frame (s : State) (r : String) (ix : Index) : Frame r s (withIndex s r ix) := by
  unfold withIndex; exact frame_setRepo' _ r _ (repo_name s r)
theorem withIndex_resps (s : State) (r : String) (ix : Index) : (withIndex s r ix).resps = s.resps := by
  unfold withIndex; exact resps_setRepo _ _
theorem withIndex_resp (s : State) (r : String) (ix : Index) (n : String) : (withIndex s r ix).resp n = s.resp n := by
  unfold State.resp; rw [withIndex_resps]
theorem withIndex_blob (s : State) (r : String) (ix : Index) (g : Dig) : ((withIndex s r ix).repo r).blob g = (s.repo r).blob g := by
  rw [withIndex_repo]; rfl

theorem RK.withIndex {s : State} (hK : RK T r s) (ix : Index) (hsame : SubSame (s.repo r).index.manifests ix.manifests) :
    RK T r (withIndex s r ix) := by
  apply hK.transfer (Upd.withIndex s r ix) (index_only s r ix hK.inv) (withIndex_frame s r ix).2.1
  · intro n l h; rw [withIndex_resp] at h; exact hK.table n l h
  · rw [withIndex_repo]; exact hsame
  · intro g hg; rw [withIndex_blob]; exact hg
  · intro n l h; rw [withIndex_resp]; exact h

theorem respList_withIndex {s : State} (hK : RK T r s) (hN : Names T) (ix : Index)
    (hsame : SubSame (s.repo r).index.manifests ix.manifests) (S : String) (hS : S ≠ "") :
    respList (withIndex s r ix) r S = respList s r S := by
  apply respList_transfer hK hN _ S hS
  · intro e hsub _; rw [withIndex_repo]; exact hsame e hsub
  · intro g hg; rw [withIndex_blob]; exact hg
  · intro n l h; rw [withIndex_resp]; exact h
  · exact (hK.withIndex ix hsame).cas

/-! ### quiet steps -/

theorem respList_quiet {s s' : State} (hK : RK T r s) (hN : Names T) (hq : Quiet r s s') (hinv : Inv s')
    (S : String) (hS : S ≠ "") : respList s' r S = respList s r S := by
  apply respList_transfer hK hN _ S hS
  · intro e _ _; rw [hq.index]
  · exact hq.blob
  · intro n l h; unfold State.resp at h ⊢; rw [hq.resps]; exact h
  · exact (hK.quiet hq hinv).cas

theorem quiet_putContent (r : String) (s : State) (r0 : String) (d : Dig) (c : String) : Quiet r s (putContent s r0 d c) := by
  unfold putContent
  simp only []
  split
  · exact quiet_touch r s r0
  · exact quiet_set r s r0 _ (RQ.putBlob _ _ _)

theorem putContent_blob_isSome (s : State) (r : String) (d : Dig) (c : String) :
    (((putContent s r d c).repo r).blob d).isSome := by
  rw [putContent_repo]
  split
  · assumption
  · rw [blob_isSome_iff]
    unfold Repo.putBlob
    split
    · rename_i h
      obtain ⟨p, hp, hpd⟩ := List.any_eq_true.mp h
      have hpd' : p.1 = d := by simpa using hpd
      exact ⟨(d, c), List.mem_map.mpr ⟨p, hp, by simp [hpd']⟩, rfl⟩
    · exact ⟨(d, c), by simp, rfl⟩

/-! ### an accepted manifest push into `r` -/

/-- what a step did to the blobs and body definitions of `r` -/
structure Mono (r : String) (s s' : State) : Prop where
  blob : ∀ g, ((s.repo r).blob g).isSome → ((s'.repo r).blob g).isSome
  defs : s'.defs = s.defs

theorem Mono.refl (r : String) (s : State) : Mono r s s := ⟨fun _ h => h, rfl⟩
theorem Mono.trans {s1 s2 s3 : State} (h1 : Mono r s1 s2) (h2 : Mono r s2 s3) : Mono r s1 s3 :=
  ⟨fun g h => h2.blob g (h1.blob g h), h2.defs.trans h1.defs⟩
theorem Quiet.mono {s s' : State} (h : Quiet r s s') : Mono r s s' := ⟨h.blob, h.defs⟩

/-- stages 1 and 2 of a commit: the blob and the index entry (which carries no subject annotation) -/
theorem commit_entry {s : State} (hK : RK T r s) (hN : Names T) (d : Dig) (b : String) (hd : d.content = b)
    (entry : Desc) (cs : List Desc) (hent : entry.ann.isNil = true ∨ entry.ann.subj = "") :
    RK T r (indexInsert (putContent s r d b) r entry cs) ∧ Mono r s (indexInsert (putContent s r d b) r entry cs) ∧
    (((indexInsert (putContent s r d b) r entry cs).repo r).blob d).isSome ∧
    ∀ S, S ≠ "" → respList (indexInsert (putContent s r d b) r entry cs) r S = respList s r S := by
  have hq1 := quiet_putContent r s r d b
  have hi1 := putContent_inv s r d b hK.inv hd
  have hK1 := hK.quiet hq1 hi1
  have hb1 := putContent_blob_isSome s r d b
  have hl1 := respList_quiet hK hN hq1 hi1
  generalize putContent s r d b = s1 at hq1 hi1 hK1 hb1 hl1 ⊢
  have hsame := addDesc_nosubj_subSame (s1.repo r).index entry cs hent hK1.noTagSubj
  rw [indexInsert_eq]
  have hm2 : Mono r s1 (withIndex s1 r (addDesc (s1.repo r).index entry cs)) :=
    ⟨fun g hg => by rw [withIndex_blob]; exact hg, (withIndex_frame s1 r _).2.2⟩
  refine ⟨hK1.withIndex _ hsame, Mono.trans hq1.mono hm2, hm2.blob _ hb1, fun S hS => ?_⟩
  rw [respList_withIndex hK1 hN _ hsame S hS, hl1 S hS]

/-- stage 3 of a commit: the referrers response of the subject -/
theorem referrerAdd_lists' {s : State} (hK : RK T r s) (hN : Names T) (S0 : String) (hS0 : S0 ≠ "") (d : Desc) (hT : T d) :
    RK T r (referrerAdd s r S0 d) ∧ Mono r s (referrerAdd s r S0 d) ∧
    respList (referrerAdd s r S0 d) r S0 = addTo (respList s r S0) d ∧
    ∀ S, S ≠ "" → S ≠ S0 → respList (referrerAdd s r S0 d) r S = respList s r S := by
  rw [referrerAdd_eq]
  have hTl : ∀ x ∈ addTo (respList s r S0) d, T x := by
    intro x hx
    rcases mem_addTo _ _ _ hx with h | h
    · exact respList_tok hK.table r S0 x h
    · rw [h]; exact hT
  exact ⟨hK.storeResp hN S0 hS0 _ hTl,
    ⟨fun g hg => storeResp_blob_isSome s r _ _ g hg, (frame_storeResp s r _ _).2.2⟩,
    respList_storeResp_self hK hN S0 hS0 _ hTl,
    fun S hS hne => respList_storeResp_other hK hN S0 hS0 _ hTl S hS hne⟩

theorem mCommit_state (s : State) (r b : String) (a : Accepted) :
    (mCommit s r b a).1 =
      if a.subject ≠ "" then
        referrerAdd (indexInsert (putContent s r a.d b) r
          { mt := a.mt, dig := a.d.str, size := a.len, ann := if a.tag = "" then {} else { isNil := false, tag := a.tag } } a.children)
          r a.subject a.refd
      else indexInsert (putContent s r a.d b) r
          { mt := a.mt, dig := a.d.str, size := a.len, ann := if a.tag = "" then {} else { isNil := false, tag := a.tag } } a.children := rfl

theorem mCommit_lists {s : State} (hK : RK T r s) (hN : Names T) (b : String) (a : Accepted)
    (hd : a.d.content = b) (hT : T a.refd) :
    RK T r (mCommit s r b a).1 ∧ Mono r s (mCommit s r b a).1 ∧
    (((mCommit s r b a).1.repo r).blob a.d).isSome ∧
    (a.subject = "" → ∀ S, S ≠ "" → respList (mCommit s r b a).1 r S = respList s r S) ∧
    (a.subject ≠ "" → respList (mCommit s r b a).1 r a.subject = addTo (respList s r a.subject) a.refd ∧
       ∀ S, S ≠ "" → S ≠ a.subject → respList (mCommit s r b a).1 r S = respList s r S) := by
  rw [mCommit_state]
  have hent : ({ mt := a.mt, dig := a.d.str, size := a.len, ann := if a.tag = "" then {} else { isNil := false, tag := a.tag } } : Desc).ann.isNil = true ∨
      ({ mt := a.mt, dig := a.d.str, size := a.len, ann := if a.tag = "" then {} else { isNil := false, tag := a.tag } } : Desc).ann.subj = "" := by
    right; simp only []; split <;> rfl
  obtain ⟨hK2, hm2, hb2, hl2⟩ := commit_entry hK hN a.d b hd _ a.children hent
  generalize indexInsert (putContent s r a.d b) r _ a.children = s2 at hK2 hm2 hb2 hl2 ⊢
  by_cases hsub : a.subject = ""
  · rw [if_neg (by simp [hsub])]
    exact ⟨hK2, hm2, hb2, fun _ => hl2, fun h => absurd hsub h⟩
  · rw [if_pos hsub]
    obtain ⟨hK3, hm3, hl3, hl3'⟩ := referrerAdd_lists' hK2 hN a.subject hsub a.refd hT
    refine ⟨hK3, Mono.trans hm2 hm3, hm3.blob _ hb2, fun h => absurd h hsub, fun _ => ⟨?_, ?_⟩⟩
    · rw [hl3, hl2 a.subject hsub]
    · intro S hS hne
      rw [hl3' S hS hne, hl2 S hS]
end
end Upd

namespace Upd
section
variable {T : Desc → Prop} {r : String}

/-! ### a manifest delete in `r` -/

/-- the referrers stage of a manifest delete (the middle of `mDel`, verbatim) -/
def delStage (s : State) (r arg : String) (desc : Desc) : State :=
  if !s.conf.ref ∨ isTag arg then s else
  match DigArg.parse desc.dig with
  | .bad => s
  | .ok dg => match (s.repo r).blob dg with
    | none => s
    | some content =>
      let b := s.body content
      let subj := match b.kind with | "image" | "index" => b.subj | _ => ""
      if subj = "" then s else referrerDelete s r subj desc

theorem mDel_eq (s : State) (r arg : String) : mDel s r arg =
    match getDesc ((s.setRepo (s.repo r)).repo r).index arg with
    | none => (s.setRepo (s.repo r), { status := 404, code := "MANIFEST_UNKNOWN" })
    | some desc => (indexRemove (delStage (s.setRepo (s.repo r)) r arg desc) r desc, { status := 202 }) := rfl

theorem delStage_tag (s : State) (r arg : String) (desc : Desc) (ht : isTag arg = true) : delStage s r arg desc = s := by
  unfold delStage; simp [ht]

theorem delStage_dig (s : State) (r arg : String) (desc : Desc) (href : s.conf.ref = true) (ht : isTag arg = false) :
    delStage s r arg desc =
      if subjRead s r desc.dig = "" then s else referrerDelete s r (subjRead s r desc.dig) desc := by
  unfold delStage subjRead
  have h0 : ¬ ((!s.conf.ref) = true ∨ isTag arg = true) := by simp [href, ht]
  rw [if_neg h0]
  cases DigArg.parse desc.dig with
  | bad => simp
  | ok dg =>
    simp only []
    cases (s.repo r).blob dg with
    | none => simp
    | some c => rfl

theorem getDesc_tag (ix : Index) (arg : String) (desc : Desc) (ht : isTag arg = true) (h : getDesc ix arg = some desc) :
    desc ∈ ix.manifests ∧ desc.ann.isNil = false ∧ desc.ann.tag = arg := by
  unfold getDesc at h
  by_cases he : ix.manifests.isEmpty = true ∧ ix.children.isEmpty = true
  · rw [if_pos he] at h; cases h
  · rw [if_neg he, if_pos ht] at h
    unfold getDescTag at h
    split at h
    · cases h
    · have hm := List.mem_of_find?_eq_some h
      have hp := List.find?_some h
      simp only [Bool.not_eq_true, Bool.decide_and, Bool.and_eq_true, decide_eq_true_eq] at hp
      exact ⟨hm, hp.1, hp.2⟩

theorem getDesc_dig (ix : Index) (arg : String) (desc : Desc) (ht : isTag arg = false) (h : getDesc ix arg = some desc) :
    ∃ d, DigArg.parse arg = .ok d ∧ desc.dig = d.str ∧ desc.ann.isNil = true := by
  unfold getDesc at h
  by_cases he : ix.manifests.isEmpty = true ∧ ix.children.isEmpty = true
  · rw [if_pos he] at h; cases h
  · rw [if_neg he, if_neg (by simp [ht])] at h
    split at h
    · rename_i d hd
      refine ⟨d, hd, ?_⟩
      unfold getDescDig at h
      split at h
      · cases h
      · split at h
        · rename_i e he
          have hp := List.find?_some he
          simp only [decide_eq_true_eq] at hp
          simp only [Option.some.injEq] at h
          subst h
          exact ⟨hp, rfl⟩
        · cases hc : ix.children.find? (fun x => x.dig = d.str) with
          | none => rw [hc] at h; cases h
          | some e =>
            rw [hc] at h
            have hp := List.find?_some hc
            simp only [decide_eq_true_eq] at hp
            simp only [Option.map_some, Option.some.injEq] at h
            subst h
            exact ⟨hp, rfl⟩
    · cases h

/-- removing index entries in a way that keeps the subject-annotated ones -/
theorem remove_keeps {s : State} (hK : RK T r s) (hN : Names T) (desc : Desc)
    (hsame : SubSame (s.repo r).index.manifests (rmDesc (s.repo r).index desc).manifests) :
    RK T r (indexRemove s r desc) ∧ Mono r s (indexRemove s r desc) ∧
    ∀ S, S ≠ "" → respList (indexRemove s r desc) r S = respList s r S := by
  rw [indexRemove_eq]
  exact ⟨hK.withIndex _ hsame, ⟨fun g hg => by rw [withIndex_blob]; exact hg, (withIndex_frame s r _).2.2⟩,
    fun S hS => respList_withIndex hK hN _ hsame S hS⟩

/-- deleting a tag: no response changes -/
theorem mDel_tag_lists {s : State} (hK : RK T r s) (hN : Names T) (arg : String) (desc : Desc) (ht : isTag arg = true)
    (hg : getDesc (s.repo r).index arg = some desc) :
    RK T r (indexRemove (delStage s r arg desc) r desc) ∧ Mono r s (indexRemove (delStage s r arg desc) r desc) ∧
    ∀ S, S ≠ "" → respList (indexRemove (delStage s r arg desc) r desc) r S = respList s r S := by
  rw [delStage_tag s r arg desc ht]
  obtain ⟨hm, hn, htag⟩ := getDesc_tag _ _ _ ht hg
  have harg : arg ≠ "" := by
    intro h; rw [h, isTag_empty] at ht; cases ht
  have hsubj : desc.ann.subj = "" := by
    apply Classical.byContradiction
    intro hne
    have := hK.noTagSubj desc hm ⟨hn, hne⟩
    rw [htag] at this
    exact harg this
  exact remove_keeps hK hN desc (rmDesc_tag_subSame _ desc hn (by rw [htag]; exact harg) hsubj hK.noTagSubj)

theorem mem_rmFrom (old : List Desc) (g : String) (x : Desc) (h : x ∈ rmFrom old g) : x ∈ old := by
  by_cases hg : g = ""
  · subst hg; exact (rmFrom_empty old).mem_iff.mp h
  · exact (List.mem_filter.mp ((rmFrom_perm old g hg).mem_iff.mp h)).1

/-- deleting by digest a manifest that is not a response document: its entry leaves the response of the subject its
    body names (if that subject has a response), nothing else changes -/
theorem mDel_dig_lists {s : State} (hK : RK T r s) (hN : Names T) (arg : String) (desc : Desc) (ht : isTag arg = false)
    (hnil : desc.ann.isNil = true) (hfree : ∀ ds, desc.dig ≠ (respDig ds).str) :
    RK T r (indexRemove (delStage s r arg desc) r desc) ∧ Mono r s (indexRemove (delStage s r arg desc) r desc) ∧
    ∀ S, S ≠ "" →
      (S ≠ subjRead s r desc.dig → respList (indexRemove (delStage s r arg desc) r desc) r S = respList s r S) ∧
      (S = subjRead s r desc.dig →
        respList (indexRemove (delStage s r arg desc) r desc) r S = rmFrom (respList s r S) desc.dig ∨
        (respList (indexRemove (delStage s r arg desc) r desc) r S = respList s r S ∧ respList s r S = [])) := by
  have hrm : ∀ {s1 : State}, RK T r s1 →
      SubSame (s1.repo r).index.manifests (rmDesc (s1.repo r).index desc).manifests := by
    intro s1 hK1
    apply rmDesc_dig_subSame _ desc hnil
    intro e he hsub hed
    obtain ⟨ds, hd, _, _⟩ := hK1.reg e he hsub
    exact hfree ds (hed.symm.trans hd)
  rw [delStage_dig s r arg desc hK.ref ht]
  by_cases hsb : subjRead s r desc.dig = ""
  · rw [if_pos hsb]
    obtain ⟨h1, h2, h3⟩ := remove_keeps hK hN desc (hrm hK)
    refine ⟨h1, h2, fun S hS => ⟨fun _ => h3 S hS, fun h => ?_⟩⟩
    rw [hsb] at h; exact absurd h hS
  · rw [if_neg hsb, referrerDelete_eq]
    by_cases hcur : currentResp s r (subjRead s r desc.dig) = none
    · rw [if_pos hcur]
      obtain ⟨h1, h2, h3⟩ := remove_keeps hK hN desc (hrm hK)
      refine ⟨h1, h2, fun S hS => ⟨fun _ => h3 S hS, fun h => Or.inr ⟨h3 S hS, ?_⟩⟩⟩
      rw [h]; unfold respList; rw [hcur]
    · rw [if_neg hcur]
      have hTl : ∀ x ∈ rmFrom (respList s r (subjRead s r desc.dig)) desc.dig, T x :=
        fun x hx => respList_tok hK.table r _ x (mem_rmFrom _ _ x hx)
      have hK1 := hK.storeResp hN _ hsb _ hTl
      obtain ⟨h1, h2, h3⟩ := remove_keeps hK1 hN desc (hrm hK1)
      refine ⟨h1, Mono.trans ⟨fun g hg => storeResp_blob_isSome s r _ _ g hg, (frame_storeResp s r _ _).2.2⟩ h2,
        fun S hS => ⟨fun hne => ?_, fun h => Or.inl ?_⟩⟩
      · rw [h3 S hS, respList_storeResp_other hK hN _ hsb _ hTl S hS hne]
      · rw [h3 S hS, h, respList_storeResp_self hK hN _ hsb _ hTl]
end
end Upd
