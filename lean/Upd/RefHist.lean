import Upd.RefOK
import Upd.RefQuiet
import Upd.C04
/-! C07 over histories: the structural invariant `RK` of a repository's referrers bookkeeping, how every request
    changes the list read for a subject, and the theorem `refok_reach_partial`. -/
namespace Upd.Rf

/-- subject field of a manifest body as the handlers see it -/
def subjOf (b : Body) : String := match b.kind with | "image" | "index" => b.subj | _ => ""

theorem asImage_subj (b : Body) (v : ImgView) (h : b.asImage = some v) : v.subj = subjOf b := by
  unfold Body.asImage at h
  unfold subjOf
  split at h
  all_goals first
    | (cases h; done)
    | (simp only [Option.some.injEq] at h; subst h; simp_all)
theorem asIndex_subj (b : Body) (v : IdxView) (h : b.asIndex = some v) : v.subj = subjOf b := by
  unfold Body.asIndex at h
  unfold subjOf
  split at h
  all_goals first
    | (cases h; done)
    | (simp only [Option.some.injEq] at h; subst h; simp_all)

theorem subjOf_default : subjOf {} = "" := by
  unfold subjOf
  simp

theorem isTag_empty : isTag "" = false := by
  unfold isTag
  simp

theorem Dig.str_ne_empty (d : Dig) : d.str ≠ "" := by
  unfold Dig.str
  cases d.alg <;> simp [Alg.name]

/-- the subject the delete handler reads for the manifest with digest string `g` ("" = none) -/
def subjRead (s : State) (r g : String) : String :=
  match DigArg.parse g with
  | .bad => ""
  | .ok dg => match (s.repo r).blob dg with
    | none => ""
    | some c => subjOf (s.body c)

/-! ### what validation tells about an accepted push -/

theorem validateImage_facts (ro : Bool) (rp : Repo) (b : Body) (mt tag : String) (d : Dig) (a : Accepted)
    (h : validateImage ro rp b mt tag d = .ok a) :
    a.refd.dig = a.d.str ∧ a.subject = (if ro then subjOf b else "") := by
  unfold validateImage refuse at h
  split at h
  · cases h
  · rename_i v hv
    have hs := asImage_subj b v hv
    split at h
    · cases h
    · split at h
      · cases h
      · simp only [pure, Except.pure, Except.ok.injEq] at h
        subst h
        exact ⟨rfl, by simp only [hs]⟩

theorem validateIndex_facts (ro : Bool) (rp : Repo) (b : Body) (mt tag : String) (d : Dig) (a : Accepted)
    (h : validateIndex ro rp b mt tag d = .ok a) :
    a.refd.dig = a.d.str ∧ a.subject = (if ro then subjOf b else "") := by
  unfold validateIndex refuse at h
  split at h
  · cases h
  · rename_i v hv
    have hs := asIndex_subj b v hv
    split at h
    · cases h
    · split at h
      · cases h
      · simp only [pure, Except.pure, Except.ok.injEq] at h
        subst h
        exact ⟨rfl, by simp only [hs]⟩

theorem validateBody_facts (ro : Bool) (rp : Repo) (b : Body) (mt tag : String) (d : Dig) (a : Accepted)
    (h : validateBody ro rp b mt tag d = .ok a) :
    a.refd.dig = a.d.str ∧ a.subject = (if ro then subjOf b else "") := by
  unfold validateBody at h
  split at h
  · exact validateImage_facts _ _ _ _ _ _ _ h
  · split at h
    · exact validateIndex_facts _ _ _ _ _ _ _ h
    · simp [refuse] at h

theorem mValidate_facts (s : State) (r ref ct qd b : String) (lk : Bool) (a : Accepted)
    (h : mValidate s r ref ct qd b lk = .ok a) :
    a.refd.dig = a.d.str ∧ a.subject = (if s.conf.ref then subjOf (s.body b) else "") := by
  unfold mValidate at h
  obtain ⟨_, _, h⟩ := bind_ok _ _ _ h
  obtain ⟨_, _, h⟩ := bind_ok _ _ _ h
  obtain ⟨_, _, h⟩ := bind_ok _ _ _ h
  obtain ⟨_, _, h⟩ := bind_ok _ _ _ h
  obtain ⟨_, _, h⟩ := bind_ok _ _ _ h
  obtain ⟨_, _, h⟩ := bind_ok _ _ _ h
  exact validateBody_facts _ _ _ _ _ _ _ h

/-! ### the structural invariant -/

/-- the bookkeeping of referrers responses in repository `r` is well formed.  `T` is the class of descriptors that
    occur in responses (see `refok_reach_partial`). -/
structure RK (T : Desc → Prop) (r : String) (s : State) : Prop where
  inv : Inv s
  ref : s.conf.ref = true
  table : ∀ n l, s.resp n = some l → n = respName l ∧ ∀ d ∈ l, T d
  noTagSubj : NoTagSubj (s.repo r).index.manifests
  subjFun : SubjFun (s.repo r).index.manifests
  reg : ∀ e ∈ (s.repo r).index.manifests, Sub e →
    ∃ ds, e.dig = (respDig ds).str ∧ ((s.repo r).blob (respDig ds)).isSome ∧ s.resp (respName ds) = some ds

/-- the global hypotheses about content names -/
structure Names (T : Desc → Prop) : Prop where
  inj : ∀ ds ds', (∀ d ∈ ds, T d) → (∀ d ∈ ds', T d) → respName ds = respName ds' → ds = ds'
  rt : ∀ ds, (∀ d ∈ ds, T d) → DigRT (respDig ds)

section
variable {T : Desc → Prop} {r : String}

theorem RK.cas {s : State} (h : RK T r s) : RepoCAS (s.repo r) := (repo_ok s r h.inv).1

theorem RK.fits {s : State} (h : RK T r s) (hN : Names T) (ds : List Desc) (hT : ∀ d ∈ ds, T d) : RespFits s ds := by
  intro ds' hds'
  obtain ⟨hn, hT'⟩ := h.table _ _ hds'
  exact hN.inj ds' ds hT' hT hn.symm

theorem getBySubj_mem (ix : Index) (S : String) (e : Desc) (h : getBySubj ix S = some e) :
    e ∈ ix.manifests ∧ e.ann.isNil = false ∧ e.ann.subj = S := by
  unfold getBySubj at h
  have hm := List.mem_of_find?_eq_some h
  have hp := List.find?_some h
  simp only [Bool.not_eq_true, Bool.decide_and, Bool.and_eq_true, decide_eq_true_eq] at hp
  exact ⟨hm, hp.1, hp.2⟩

theorem blob_some_of_isSome (rp : Repo) (hc : RepoCAS rp) (d : Dig) (h : (rp.blob d).isSome) : rp.blob d = some d.content := by
  cases hb : rp.blob d with
  | none => rw [hb] at h; cases h
  | some c => rw [cas_blob rp hc d c hb]

/-- under the invariant, what the index registers for a subject is a readable, well-formed response -/
theorem RK.registered {s : State} (h : RK T r s) (S : String) (hS : S ≠ "") (e : Desc)
    (hg : getBySubj (s.repo r).index S = some e) : ∃ ds, Registered s r S ds ∧ (∀ d ∈ ds, T d) := by
  obtain ⟨hm, hn, hs⟩ := getBySubj_mem _ _ _ hg
  obtain ⟨ds, hd, hb, hr⟩ := h.reg e hm ⟨hn, by rw [hs]; exact hS⟩
  exact ⟨ds, ⟨⟨e, hg, hd⟩, blob_some_of_isSome _ h.cas _ hb, hr⟩, (h.table _ _ hr).2⟩

theorem respList_of_registered {s : State} {S : String} {ds : List Desc} (h : Registered s r S ds)
    (hrt : DigRT (respDig ds)) : respList s r S = ds := by
  obtain ⟨e, he, _⟩ := h.read hrt
  unfold respList; rw [he]

theorem respList_of_none {s : State} {S : String} (h : getBySubj (s.repo r).index S = none) : respList s r S = [] := by
  unfold respList; rw [(currentResp_none s r S).mpr h]

theorem respList_cases (s : State) (r0 S : String) :
    respList s r0 S = [] ∨ ∃ c, respList s r0 S = (s.resp c).getD [] := by
  unfold respList currentResp
  cases getBySubj (s.repo r0).index S with
  | none => left; rfl
  | some e =>
    simp only []
    cases DigArg.parse e.dig with
    | bad => left; rfl
    | ok dg =>
      simp only []
      cases (s.repo r0).blob dg with
      | none => left; rfl
      | some c => right; exact ⟨c, rfl⟩

/-- whatever is read for a subject, in any repository, comes out of the response table -/
theorem respList_tok {s : State} (htable : ∀ n l, s.resp n = some l → n = respName l ∧ ∀ d ∈ l, T d)
    (r0 S : String) : ∀ d ∈ respList s r0 S, T d := by
  intro d hd
  rcases respList_cases s r0 S with h | ⟨c, h⟩
  · rw [h] at hd; simp at hd
  · rw [h] at hd
    cases hr : s.resp c with
    | none => rw [hr] at hd; simp at hd
    | some l => rw [hr] at hd; exact (htable _ _ hr).2 d (by simpa using hd)

/-- the list read for `S` is the same in two states that agree on the entries annotated `S`, where no blob was lost
    and the response table only grew -/
theorem respList_transfer {s : State} (hK : RK T r s) (hN : Names T) (s' : State) (S : String) (hS : S ≠ "")
    (hent : ∀ e, Sub e → e.ann.subj = S → (e ∈ (s'.repo r).index.manifests ↔ e ∈ (s.repo r).index.manifests))
    (hblob : ∀ g, ((s.repo r).blob g).isSome → ((s'.repo r).blob g).isSome)
    (hresp : ∀ n l, s.resp n = some l → s'.resp n = some l)
    (hcas' : RepoCAS (s'.repo r)) : respList s' r S = respList s r S := by
  obtain ⟨h1, h2⟩ := getBySubj_subSame (s.repo r).index (s'.repo r).index S hS hent hK.subjFun
  cases hg : getBySubj (s.repo r).index S with
  | none => rw [respList_of_none hg, respList_of_none (h1 hg)]
  | some e =>
    obtain ⟨ds, hreg, hT⟩ := hK.registered S hS e hg
    obtain ⟨e', hg', hd'⟩ := h2 e hg
    obtain ⟨⟨e0, he0, hd0⟩, hb, hr⟩ := hreg
    have he : e0 = e := by rw [hg] at he0; cases he0; rfl
    subst he
    have hreg' : Registered s' r S ds :=
      ⟨⟨e', hg', hd'.trans hd0⟩, blob_some_of_isSome _ hcas' _ (hblob _ (by rw [hb]; rfl)), hresp _ _ hr⟩
    rw [respList_of_registered hreg' (hN.rt ds hT), respList_of_registered ⟨⟨e0, hg, hd0⟩, hb, hr⟩ (hN.rt ds hT)]

/-- the invariant moves along any change that keeps the subject entries, the blobs and the table -/
theorem RK.transfer {s : State} (hK : RK T r s) (s' : State) (hinv : Inv s') (hconf : s'.conf = s.conf)
    (htable : ∀ n l, s'.resp n = some l → n = respName l ∧ ∀ d ∈ l, T d)
    (hsame : SubSame (s.repo r).index.manifests (s'.repo r).index.manifests)
    (hblob : ∀ g, ((s.repo r).blob g).isSome → ((s'.repo r).blob g).isSome)
    (hresp : ∀ n l, s.resp n = some l → s'.resp n = some l) : RK T r s' := by
  refine ⟨hinv, by rw [hconf]; exact hK.ref, htable, hsame.noTagSubj hK.noTagSubj, hsame.subjFun hK.subjFun, ?_⟩
  intro e he hsub
  obtain ⟨ds, hd, hb, hr⟩ := hK.reg e ((hsame e hsub).mp he) hsub
  exact ⟨ds, hd, hblob _ hb, hresp _ _ hr⟩

theorem RK.quiet {s s' : State} (hK : RK T r s) (hq : Quiet r s s') (hinv : Inv s') : RK T r s' := by
  have hresp : ∀ n l, s.resp n = some l → s'.resp n = some l := by
    intro n l h; unfold State.resp at h ⊢; rw [hq.resps]; exact h
  apply hK.transfer s' hinv hq.conf _ (by rw [hq.index]; exact SubSame.refl _) hq.blob hresp
  intro n l h
  apply hK.table n l
  unfold State.resp at h ⊢; rw [← hq.resps]; exact h
end
end Upd.Rf

namespace Upd.Rf
section
variable {T : Desc → Prop} {r : String}

/-- every name in the response table is the canonical name of the list it decodes to, a list over `T` -/
def TableOK (T : Desc → Prop) (s : State) : Prop := ∀ n l, s.resp n = some l → n = respName l ∧ ∀ d ∈ l, T d

theorem table_storeResp {s : State} (htable : TableOK T s) (r0 S : String) (ds : List Desc) (hT : ∀ d ∈ ds, T d) :
    TableOK T (storeResp s r0 S ds) := by
  intro n l h
  cases hs : s.resp n with
  | some l0 =>
    have := storeResp_resp_mono s r0 S ds n l0 hs
    rw [this] at h; cases h
    exact htable n _ hs
  | none =>
    unfold State.resp at h hs
    rw [storeResp_resps] at h
    have hfind : s.resps.find? (fun x => x.1 = n) = none := by
      cases hf : s.resps.find? (fun x => x.1 = n) with
      | none => rfl
      | some p => rw [hf] at hs; cases hs
    split at h
    · rw [hfind] at h; cases h
    · rw [List.find?_append, hfind] at h
      simp only [Option.none_or, List.find?_cons, List.find?_nil] at h
      split at h
      · rename_i heq
        simp only [Option.map_some, Option.some.injEq] at h
        simp only [decide_eq_true_eq] at heq
        subst h
        exact ⟨heq.symm, hT⟩
      · cases h

theorem storeResp_blob_isSome (s : State) (r0 S : String) (ds : List Desc) (g : Dig)
    (h : ((s.repo r0).blob g).isSome) : (((storeResp s r0 S ds).repo r0).blob g).isSome := by
  cases hb : (s.repo r0).blob g with
  | none => rw [hb] at h; cases h
  | some c => rw [storeResp_blob_mono s r0 S ds g c hb]; rfl

theorem storeResp_conf (s : State) (r0 S : String) (ds : List Desc) : (storeResp s r0 S ds).conf = s.conf :=
  (frame_storeResp s r0 S ds).2.1

/-- registering a response keeps the invariant -/
theorem RK.storeResp {s : State} (hK : RK T r s) (hN : Names T) (S : String) (hS : S ≠ "") (ds : List Desc)
    (hT : ∀ d ∈ ds, T d) : RK T r (storeResp s r S ds) := by
  have hreg := storeResp_registered s r S ds hS hK.cas (hK.fits hN ds hT)
  obtain ⟨hself, hall, _⟩ := addDesc_subj (s.repo r).index (respDesc S ds) ds S rfl rfl rfl hS
  have hdig : ∀ e ∈ (addDesc (s.repo r).index (respDesc S ds) ds).manifests, e.ann.isNil = false → e.ann.subj = S →
      e.dig = (respDesc S ds).dig := by
    intro e he hn hs
    rcases hall e he with h | ⟨_, h⟩
    · rw [h]
    · apply Classical.byContradiction
      intro hne; exact h ⟨hne, hn, hs⟩
  have hold : ∀ e ∈ (addDesc (s.repo r).index (respDesc S ds) ds).manifests, e.ann.subj ≠ S → e ∈ (s.repo r).index.manifests := by
    intro e he hne
    rcases hall e he with h | ⟨h, _⟩
    · exfalso; apply hne; rw [h]; rfl
    · exact h
  refine ⟨storeResp_inv s r S ds hK.inv, by rw [storeResp_conf]; exact hK.ref, table_storeResp hK.table r S ds hT, ?_, ?_, ?_⟩
  · rw [storeResp_index]
    intro e he hsub
    rcases hall e he with h | ⟨h, _⟩
    · rw [h]; rfl
    · exact hK.noTagSubj e h hsub
  · rw [storeResp_index]
    intro e1 h1 e2 h2 s1 s2 heq
    by_cases hs : e1.ann.subj = S
    · rw [hdig e1 h1 s1.1 hs, hdig e2 h2 s2.1 (heq ▸ hs)]
    · exact hK.subjFun e1 (hold e1 h1 hs) e2 (hold e2 h2 (heq ▸ hs)) s1 s2 heq
  · rw [storeResp_index]
    intro e he hsub
    rcases hall e he with h | ⟨h, _⟩
    · refine ⟨ds, by rw [h]; rfl, ?_, hreg.2.2⟩
      rw [hreg.2.1]; rfl
    · obtain ⟨ds0, hd, hb, hr⟩ := hK.reg e h hsub
      exact ⟨ds0, hd, storeResp_blob_isSome s r S ds _ hb, storeResp_resp_mono s r S ds _ _ hr⟩

theorem respList_storeResp_self {s : State} (hK : RK T r s) (hN : Names T) (S : String) (hS : S ≠ "") (ds : List Desc)
    (hT : ∀ d ∈ ds, T d) : respList (storeResp s r S ds) r S = ds :=
  respList_of_registered (storeResp_registered s r S ds hS hK.cas (hK.fits hN ds hT)) (hN.rt ds hT)

theorem respList_storeResp_other {s : State} (hK : RK T r s) (hN : Names T) (S : String) (hS : S ≠ "") (ds : List Desc)
    (hT : ∀ d ∈ ds, T d) (S' : String) (hS' : S' ≠ "") (hne : S' ≠ S) :
    respList (storeResp s r S ds) r S' = respList s r S' :=
  respList_transfer hK hN _ S' hS'
    (fun e hsub hs => storeResp_other_entries s r S ds hS e hsub (by rw [hs]; exact hne))
    (fun g hg => storeResp_blob_isSome s r S ds g hg)
    (fun n l h => storeResp_resp_mono s r S ds n l h)
    (hK.storeResp hN S hS ds hT).cas
end
end Upd.Rf

namespace Upd.Rf
section
variable {T : Desc → Prop} {r : String}

/-! ### steps that only rewrite the index of `r` -/

def withIndex (s : State) (r : String) (ix : Index) : State := s.setRepo { s.repo r with index := ix }

theorem indexInsert_eq (s : State) (r : String) (d : Desc) (cs : List Desc) :
    indexInsert s r d cs = withIndex s r (addDesc (s.repo r).index d cs) := rfl
theorem indexRemove_eq (s : State) (r : String) (d : Desc) :
    indexRemove s r d = withIndex s r (rmDesc (s.repo r).index d) := rfl

theorem withIndex_repo (s : State) (r : String) (ix : Index) : (withIndex s r ix).repo r = { s.repo r with index := ix } := by
  unfold withIndex; exact repo_setRepo_same' _ _ _ (repo_name s r)
theorem withIndex_frame (s : State) (r : String) (ix : Index) : Frame r s (withIndex s r ix) := by
  unfold withIndex; exact frame_setRepo' _ r _ (repo_name s r)
theorem withIndex_resps (s : State) (r : String) (ix : Index) : (withIndex s r ix).resps = s.resps := by
  unfold withIndex; exact resps_setRepo _ _
theorem withIndex_resp (s : State) (r : String) (ix : Index) (n : String) : (withIndex s r ix).resp n = s.resp n := by
  unfold State.resp; rw [withIndex_resps]
theorem withIndex_blob (s : State) (r : String) (ix : Index) (g : Dig) : ((withIndex s r ix).repo r).blob g = (s.repo r).blob g := by
  rw [withIndex_repo]; rfl

theorem RK.withIndex {s : State} (hK : RK T r s) (ix : Index) (hsame : SubSame (s.repo r).index.manifests ix.manifests) :
    RK T r (withIndex s r ix) := by
  apply hK.transfer (Upd.Rf.withIndex s r ix) (index_only s r ix hK.inv) (withIndex_frame s r ix).2.1
  · intro n l h; rw [withIndex_resp] at h; exact hK.table n l h
  · rw [withIndex_repo]; exact hsame
  · intro g hg; rw [withIndex_blob]; exact hg
  · intro n l h; rw [withIndex_resp]; exact h

theorem respList_withIndex {s : State} (hK : RK T r s) (hN : Names T) (ix : Index)
    (hsame : SubSame (s.repo r).index.manifests ix.manifests) (S : String) (hS : S ≠ "") :
    respList (withIndex s r ix) r S = respList s r S := by
  apply respList_transfer hK hN _ S hS
  · intro e hsub _; rw [withIndex_repo]; exact hsame e hsub
  · intro g hg; rw [withIndex_blob]; exact hg
  · intro n l h; rw [withIndex_resp]; exact h
  · exact (hK.withIndex ix hsame).cas

/-! ### quiet steps -/

theorem respList_quiet {s s' : State} (hK : RK T r s) (hN : Names T) (hq : Quiet r s s') (hinv : Inv s')
    (S : String) (hS : S ≠ "") : respList s' r S = respList s r S := by
  apply respList_transfer hK hN _ S hS
  · intro e _ _; rw [hq.index]
  · exact hq.blob
  · intro n l h; unfold State.resp at h ⊢; rw [hq.resps]; exact h
  · exact (hK.quiet hq hinv).cas

theorem quiet_putContent (r : String) (s : State) (r0 : String) (d : Dig) (c : String) : Quiet r s (putContent s r0 d c) := by
  unfold putContent
  simp only []
  split
  · exact quiet_touch r s r0
  · exact quiet_set r s r0 _ (RQ.putBlob _ _ _)

theorem putContent_blob_isSome (s : State) (r : String) (d : Dig) (c : String) :
    (((putContent s r d c).repo r).blob d).isSome := by
  rw [putContent_repo]
  split
  · assumption
  · rw [blob_isSome_iff]
    unfold Repo.putBlob
    split
    · rename_i h
      obtain ⟨p, hp, hpd⟩ := List.any_eq_true.mp h
      have hpd' : p.1 = d := by simpa using hpd
      exact ⟨(d, c), List.mem_map.mpr ⟨p, hp, by simp [hpd']⟩, rfl⟩
    · exact ⟨(d, c), by simp, rfl⟩

/-! ### an accepted manifest push into `r` -/

/-- what a step did to the blobs and body definitions of `r` -/
structure Mono (r : String) (s s' : State) : Prop where
  blob : ∀ g, ((s.repo r).blob g).isSome → ((s'.repo r).blob g).isSome
  defs : s'.defs = s.defs

theorem Mono.refl (r : String) (s : State) : Mono r s s := ⟨fun _ h => h, rfl⟩
theorem Mono.trans {s1 s2 s3 : State} (h1 : Mono r s1 s2) (h2 : Mono r s2 s3) : Mono r s1 s3 :=
  ⟨fun g h => h2.blob g (h1.blob g h), h2.defs.trans h1.defs⟩
theorem Quiet.mono {s s' : State} (h : Quiet r s s') : Mono r s s' := ⟨h.blob, h.defs⟩

/-- stages 1 and 2 of a commit: the blob and the index entry (which carries no subject annotation) -/
theorem commit_entry {s : State} (hK : RK T r s) (hN : Names T) (d : Dig) (b : String) (hd : d.content = b)
    (entry : Desc) (cs : List Desc) (hent : entry.ann.isNil = true ∨ entry.ann.subj = "") :
    RK T r (indexInsert (putContent s r d b) r entry cs) ∧ Mono r s (indexInsert (putContent s r d b) r entry cs) ∧
    (((indexInsert (putContent s r d b) r entry cs).repo r).blob d).isSome ∧
    ∀ S, S ≠ "" → respList (indexInsert (putContent s r d b) r entry cs) r S = respList s r S := by
  have hq1 := quiet_putContent r s r d b
  have hi1 := putContent_inv s r d b hK.inv hd
  have hK1 := hK.quiet hq1 hi1
  have hb1 := putContent_blob_isSome s r d b
  have hl1 := respList_quiet hK hN hq1 hi1
  generalize putContent s r d b = s1 at hq1 hi1 hK1 hb1 hl1 ⊢
  have hsame := addDesc_nosubj_subSame (s1.repo r).index entry cs hent hK1.noTagSubj
  rw [indexInsert_eq]
  have hm2 : Mono r s1 (withIndex s1 r (addDesc (s1.repo r).index entry cs)) :=
    ⟨fun g hg => by rw [withIndex_blob]; exact hg, (withIndex_frame s1 r _).2.2⟩
  refine ⟨hK1.withIndex _ hsame, Mono.trans hq1.mono hm2, hm2.blob _ hb1, fun S hS => ?_⟩
  rw [respList_withIndex hK1 hN _ hsame S hS, hl1 S hS]

/-- stage 3 of a commit: the referrers response of the subject -/
theorem referrerAdd_lists' {s : State} (hK : RK T r s) (hN : Names T) (S0 : String) (hS0 : S0 ≠ "") (d : Desc) (hT : T d) :
    RK T r (referrerAdd s r S0 d) ∧ Mono r s (referrerAdd s r S0 d) ∧
    respList (referrerAdd s r S0 d) r S0 = addTo (respList s r S0) d ∧
    ∀ S, S ≠ "" → S ≠ S0 → respList (referrerAdd s r S0 d) r S = respList s r S := by
  rw [referrerAdd_eq]
  have hTl : ∀ x ∈ addTo (respList s r S0) d, T x := by
    intro x hx
    rcases mem_addTo _ _ _ hx with h | h
    · exact respList_tok hK.table r S0 x h
    · rw [h]; exact hT
  exact ⟨hK.storeResp hN S0 hS0 _ hTl,
    ⟨fun g hg => storeResp_blob_isSome s r _ _ g hg, (frame_storeResp s r _ _).2.2⟩,
    respList_storeResp_self hK hN S0 hS0 _ hTl,
    fun S hS hne => respList_storeResp_other hK hN S0 hS0 _ hTl S hS hne⟩

theorem mCommit_state (s : State) (r b : String) (a : Accepted) :
    (mCommit s r b a).1 =
      if a.subject ≠ "" then
        referrerAdd (indexInsert (putContent s r a.d b) r
          { mt := a.mt, dig := a.d.str, size := a.len, ann := if a.tag = "" then {} else { isNil := false, tag := a.tag } } a.children)
          r a.subject a.refd
      else indexInsert (putContent s r a.d b) r
          { mt := a.mt, dig := a.d.str, size := a.len, ann := if a.tag = "" then {} else { isNil := false, tag := a.tag } } a.children := rfl

theorem mCommit_lists {s : State} (hK : RK T r s) (hN : Names T) (b : String) (a : Accepted)
    (hd : a.d.content = b) (hT : T a.refd) :
    RK T r (mCommit s r b a).1 ∧ Mono r s (mCommit s r b a).1 ∧
    (((mCommit s r b a).1.repo r).blob a.d).isSome ∧
    (a.subject = "" → ∀ S, S ≠ "" → respList (mCommit s r b a).1 r S = respList s r S) ∧
    (a.subject ≠ "" → respList (mCommit s r b a).1 r a.subject = addTo (respList s r a.subject) a.refd ∧
       ∀ S, S ≠ "" → S ≠ a.subject → respList (mCommit s r b a).1 r S = respList s r S) := by
  rw [mCommit_state]
  have hent : ({ mt := a.mt, dig := a.d.str, size := a.len, ann := if a.tag = "" then {} else { isNil := false, tag := a.tag } } : Desc).ann.isNil = true ∨
      ({ mt := a.mt, dig := a.d.str, size := a.len, ann := if a.tag = "" then {} else { isNil := false, tag := a.tag } } : Desc).ann.subj = "" := by
    right; simp only []; split <;> rfl
  obtain ⟨hK2, hm2, hb2, hl2⟩ := commit_entry hK hN a.d b hd _ a.children hent
  generalize indexInsert (putContent s r a.d b) r _ a.children = s2 at hK2 hm2 hb2 hl2 ⊢
  by_cases hsub : a.subject = ""
  · rw [if_neg (by simp [hsub])]
    exact ⟨hK2, hm2, hb2, fun _ => hl2, fun h => absurd hsub h⟩
  · rw [if_pos hsub]
    obtain ⟨hK3, hm3, hl3, hl3'⟩ := referrerAdd_lists' hK2 hN a.subject hsub a.refd hT
    refine ⟨hK3, Mono.trans hm2 hm3, hm3.blob _ hb2, fun h => absurd h hsub, fun _ => ⟨?_, ?_⟩⟩
    · rw [hl3, hl2 a.subject hsub]
    · intro S hS hne
      rw [hl3' S hS hne, hl2 S hS]
end
end Upd.Rf

namespace Upd.Rf
section
variable {T : Desc → Prop} {r : String}

/-! ### a manifest delete in `r` -/

/-- the referrers stage of a manifest delete (the middle of `mDel`, verbatim) -/
def delStage (s : State) (r arg : String) (desc : Desc) : State :=
  if !s.conf.ref ∨ isTag arg then s else
  match DigArg.parse desc.dig with
  | .bad => s
  | .ok dg => match (s.repo r).blob dg with
    | none => s
    | some content =>
      let b := s.body content
      let subj := match b.kind with | "image" | "index" => b.subj | _ => ""
      if subj = "" then s else referrerDelete s r subj desc

theorem mDel_eq (s : State) (r arg : String) : mDel s r arg =
    match getDesc ((s.setRepo (s.repo r)).repo r).index arg with
    | none => (s.setRepo (s.repo r), { status := 404, code := "MANIFEST_UNKNOWN" })
    | some desc =>
      if !isTag arg ∧ onlyResponse ((s.setRepo (s.repo r)).repo r).index desc.dig then
        (s.setRepo (s.repo r), { status := 404, code := "MANIFEST_UNKNOWN" })
      else (indexRemove (delStage (s.setRepo (s.repo r)) r arg desc) r desc, { status := 202 }) := rfl

theorem delStage_tag (s : State) (r arg : String) (desc : Desc) (ht : isTag arg = true) : delStage s r arg desc = s := by
  unfold delStage; simp [ht]

theorem delStage_dig (s : State) (r arg : String) (desc : Desc) (href : s.conf.ref = true) (ht : isTag arg = false) :
    delStage s r arg desc =
      if subjRead s r desc.dig = "" then s else referrerDelete s r (subjRead s r desc.dig) desc := by
  unfold delStage subjRead
  have h0 : ¬ ((!s.conf.ref) = true ∨ isTag arg = true) := by simp [href, ht]
  rw [if_neg h0]
  cases DigArg.parse desc.dig with
  | bad => simp
  | ok dg =>
    simp only []
    cases (s.repo r).blob dg with
    | none => simp
    | some c => rfl

theorem getDesc_tag (ix : Index) (arg : String) (desc : Desc) (ht : isTag arg = true) (h : getDesc ix arg = some desc) :
    desc ∈ ix.manifests ∧ desc.ann.isNil = false ∧ desc.ann.tag = arg := by
  unfold getDesc at h
  by_cases he : ix.manifests.isEmpty = true ∧ ix.children.isEmpty = true
  · rw [if_pos he] at h; cases h
  · rw [if_neg he, if_pos ht] at h
    unfold getDescTag at h
    split at h
    · cases h
    · have hm := List.mem_of_find?_eq_some h
      have hp := List.find?_some h
      simp only [Bool.not_eq_true, Bool.decide_and, Bool.and_eq_true, decide_eq_true_eq] at hp
      exact ⟨hm, hp.1, hp.2⟩

theorem getDesc_dig (ix : Index) (arg : String) (desc : Desc) (ht : isTag arg = false) (h : getDesc ix arg = some desc) :
    ∃ d, DigArg.parse arg = .ok d ∧ desc.dig = d.str ∧ desc.ann.isNil = true := by
  unfold getDesc at h
  by_cases he : ix.manifests.isEmpty = true ∧ ix.children.isEmpty = true
  · rw [if_pos he] at h; cases h
  · rw [if_neg he, if_neg (by simp [ht])] at h
    split at h
    · rename_i d hd
      refine ⟨d, hd, ?_⟩
      unfold getDescDig at h
      split at h
      · cases h
      · split at h
        · rename_i e he
          have hp := List.find?_some he
          simp only [decide_eq_true_eq] at hp
          simp only [Option.some.injEq] at h
          subst h
          exact ⟨hp, rfl⟩
        · cases hc : ix.children.find? (fun x => x.dig = d.str) with
          | none => rw [hc] at h; cases h
          | some e =>
            rw [hc] at h
            have hp := List.find?_some hc
            simp only [decide_eq_true_eq] at hp
            simp only [Option.map_some, Option.some.injEq] at h
            subst h
            exact ⟨hp, rfl⟩
    · cases h

/-- removing index entries in a way that keeps the subject-annotated ones -/
theorem remove_keeps {s : State} (hK : RK T r s) (hN : Names T) (desc : Desc)
    (hsame : SubSame (s.repo r).index.manifests (rmDesc (s.repo r).index desc).manifests) :
    RK T r (indexRemove s r desc) ∧ Mono r s (indexRemove s r desc) ∧
    ∀ S, S ≠ "" → respList (indexRemove s r desc) r S = respList s r S := by
  rw [indexRemove_eq]
  exact ⟨hK.withIndex _ hsame, ⟨fun g hg => by rw [withIndex_blob]; exact hg, (withIndex_frame s r _).2.2⟩,
    fun S hS => respList_withIndex hK hN _ hsame S hS⟩

/-- deleting a tag: no response changes -/
theorem mDel_tag_lists {s : State} (hK : RK T r s) (hN : Names T) (arg : String) (desc : Desc) (ht : isTag arg = true)
    (hg : getDesc (s.repo r).index arg = some desc) :
    RK T r (indexRemove (delStage s r arg desc) r desc) ∧ Mono r s (indexRemove (delStage s r arg desc) r desc) ∧
    ∀ S, S ≠ "" → respList (indexRemove (delStage s r arg desc) r desc) r S = respList s r S := by
  rw [delStage_tag s r arg desc ht]
  obtain ⟨hm, hn, htag⟩ := getDesc_tag _ _ _ ht hg
  have harg : arg ≠ "" := by
    intro h; rw [h, isTag_empty] at ht; cases ht
  have hsubj : desc.ann.subj = "" := by
    apply Classical.byContradiction
    intro hne
    have := hK.noTagSubj desc hm ⟨hn, hne⟩
    rw [htag] at this
    exact harg this
  exact remove_keeps hK hN desc (rmDesc_tag_subSame _ desc hn (by rw [htag]; exact harg) hsubj hK.noTagSubj)

theorem mem_rmFrom (old : List Desc) (g : String) (x : Desc) (h : x ∈ rmFrom old g) : x ∈ old := by
  by_cases hg : g = ""
  · subst hg; exact (rmFrom_empty old).mem_iff.mp h
  · exact (List.mem_filter.mp ((rmFrom_perm old g hg).mem_iff.mp h)).1

/-- deleting by digest a manifest that is not a response document: its entry leaves the response of the subject its
    body names (if that subject has a response), nothing else changes -/
theorem mDel_dig_lists {s : State} (hK : RK T r s) (hN : Names T) (arg : String) (desc : Desc) (ht : isTag arg = false)
    (hnil : desc.ann.isNil = true)
    (hfree : ∀ e ∈ (s.repo r).index.manifests, Sub e → e.dig ≠ desc.dig)
    (hnew : subjRead s r desc.dig ≠ "" → ∀ ds, (∀ x ∈ ds, T x) → desc.dig ≠ (respDig ds).str) :
    RK T r (indexRemove (delStage s r arg desc) r desc) ∧ Mono r s (indexRemove (delStage s r arg desc) r desc) ∧
    ∀ S, S ≠ "" →
      (S ≠ subjRead s r desc.dig → respList (indexRemove (delStage s r arg desc) r desc) r S = respList s r S) ∧
      (S = subjRead s r desc.dig →
        respList (indexRemove (delStage s r arg desc) r desc) r S = rmFrom (respList s r S) desc.dig ∨
        (respList (indexRemove (delStage s r arg desc) r desc) r S = respList s r S ∧ respList s r S = [])) := by
  have hrm0 : SubSame (s.repo r).index.manifests (rmDesc (s.repo r).index desc).manifests :=
    rmDesc_dig_subSame _ desc hnil hfree
  rw [delStage_dig s r arg desc hK.ref ht]
  by_cases hsb : subjRead s r desc.dig = ""
  · rw [if_pos hsb]
    obtain ⟨h1, h2, h3⟩ := remove_keeps hK hN desc hrm0
    refine ⟨h1, h2, fun S hS => ⟨fun _ => h3 S hS, fun h => ?_⟩⟩
    rw [hsb] at h; exact absurd h hS
  · rw [if_neg hsb, referrerDelete_eq]
    by_cases hcur : currentResp s r (subjRead s r desc.dig) = none
    · rw [if_pos hcur]
      obtain ⟨h1, h2, h3⟩ := remove_keeps hK hN desc hrm0
      refine ⟨h1, h2, fun S hS => ⟨fun _ => h3 S hS, fun h => Or.inr ⟨h3 S hS, ?_⟩⟩⟩
      rw [h]; unfold respList; rw [hcur]
    · rw [if_neg hcur]
      have hTl : ∀ x ∈ rmFrom (respList s r (subjRead s r desc.dig)) desc.dig, T x :=
        fun x hx => respList_tok hK.table r _ x (mem_rmFrom _ _ x hx)
      have hK1 := hK.storeResp hN _ hsb _ hTl
      -- the subject entries after the rewrite: the new response (another digest) and old ones
      have hrm1 : SubSame ((storeResp s r (subjRead s r desc.dig) (rmFrom (respList s r (subjRead s r desc.dig)) desc.dig)).repo r).index.manifests
          (rmDesc ((storeResp s r (subjRead s r desc.dig) (rmFrom (respList s r (subjRead s r desc.dig)) desc.dig)).repo r).index desc).manifests := by
        apply rmDesc_dig_subSame _ desc hnil
        rw [storeResp_index]
        intro e he hsub hed
        obtain ⟨_, hall, _⟩ := addDesc_subj (s.repo r).index
          (respDesc (subjRead s r desc.dig) (rmFrom (respList s r (subjRead s r desc.dig)) desc.dig))
          (rmFrom (respList s r (subjRead s r desc.dig)) desc.dig) (subjRead s r desc.dig) rfl rfl rfl hsb
        rcases hall e he with h | ⟨h, _⟩
        · exact hnew hsb (rmFrom (respList s r (subjRead s r desc.dig)) desc.dig) hTl
            (hed.symm.trans (congrArg Desc.dig h))
        · exact hfree e h hsub hed
      obtain ⟨h1, h2, h3⟩ := remove_keeps hK1 hN desc hrm1
      refine ⟨h1, Mono.trans ⟨fun g hg => storeResp_blob_isSome s r _ _ g hg, (frame_storeResp s r _ _).2.2⟩ h2,
        fun S hS => ⟨fun hne => ?_, fun h => Or.inl ?_⟩⟩
      · rw [h3 S hS, respList_storeResp_other hK hN _ hsb _ hTl S hS hne]
      · rw [h3 S hS, h, respList_storeResp_self hK hN _ hsb _ hTl]
end
end Upd.Rf

namespace Upd.Rf
section
variable {T : Desc → Prop} {r : String}

/-! ### the response table under pushes and deletes in any repository -/

def RespsGrow (s s' : State) : Prop := ∀ n l, s.resp n = some l → s'.resp n = some l

theorem RespsGrow.of_eq {s s' : State} (h : s'.resps = s.resps) : RespsGrow s s' := by
  intro n l hl; unfold State.resp at hl ⊢; rw [h]; exact hl
theorem RespsGrow.trans {s1 s2 s3 : State} (h1 : RespsGrow s1 s2) (h2 : RespsGrow s2 s3) : RespsGrow s1 s3 :=
  fun n l h => h2 n l (h1 n l h)
theorem TableOK.of_eq {s s' : State} (h : s'.resps = s.resps) (ht : TableOK T s) : TableOK T s' := by
  intro n l hl; apply ht n l; unfold State.resp at hl ⊢; rw [← h]; exact hl

theorem tg_storeResp {s : State} (ht : TableOK T s) (r0 S : String) (ds : List Desc) (hT : ∀ d ∈ ds, T d) :
    TableOK T (storeResp s r0 S ds) ∧ RespsGrow s (storeResp s r0 S ds) :=
  ⟨table_storeResp ht r0 S ds hT, fun n l h => storeResp_resp_mono s r0 S ds n l h⟩

theorem tg_mCommit {s : State} (ht : TableOK T s) (r0 b : String) (a : Accepted) (hT : T a.refd) :
    TableOK T (mCommit s r0 b a).1 ∧ RespsGrow s (mCommit s r0 b a).1 := by
  rw [mCommit_state]
  have h2 : (indexInsert (putContent s r0 a.d b) r0
      { mt := a.mt, dig := a.d.str, size := a.len, ann := if a.tag = "" then {} else { isNil := false, tag := a.tag } } a.children).resps
      = s.resps := by rw [indexInsert_resps, putContent_resps]
  have ht2 := TableOK.of_eq h2 ht
  have hg2 := RespsGrow.of_eq h2
  generalize indexInsert (putContent s r0 a.d b) r0 _ a.children = s2 at h2 ht2 hg2 ⊢
  split
  · rw [referrerAdd_eq]
    have hTl : ∀ x ∈ addTo (respList s2 r0 a.subject) a.refd, T x := by
      intro x hx
      rcases mem_addTo _ _ _ hx with h | h
      · exact respList_tok ht2 r0 a.subject x h
      · rw [h]; exact hT
    obtain ⟨h3, h4⟩ := tg_storeResp ht2 r0 a.subject _ hTl
    exact ⟨h3, hg2.trans h4⟩
  · exact ⟨ht2, hg2⟩

theorem delStage_cases (s : State) (r0 arg : String) (desc : Desc) :
    delStage s r0 arg desc = s ∨ ∃ S, delStage s r0 arg desc = referrerDelete s r0 S desc := by
  unfold delStage
  by_cases h0 : (!s.conf.ref) = true ∨ isTag arg = true
  · rw [if_pos h0]; exact Or.inl rfl
  · rw [if_neg h0]
    cases DigArg.parse desc.dig with
    | bad => exact Or.inl rfl
    | ok dg =>
      simp only []
      cases (s.repo r0).blob dg with
      | none => exact Or.inl rfl
      | some c =>
        show (if subjOf (s.body c) = "" then s else referrerDelete s r0 (subjOf (s.body c)) desc) = s ∨
          ∃ S, (if subjOf (s.body c) = "" then s else referrerDelete s r0 (subjOf (s.body c)) desc) = referrerDelete s r0 S desc
        by_cases hs : subjOf (s.body c) = ""
        · rw [if_pos hs]; exact Or.inl rfl
        · rw [if_neg hs]; exact Or.inr ⟨_, rfl⟩

theorem indexRemove_resps (s : State) (r0 : String) (d : Desc) : (indexRemove s r0 d).resps = s.resps := by
  rw [indexRemove_eq, withIndex_resps]

theorem tg_mDel {s : State} (ht : TableOK T s) (r0 arg : String) :
    TableOK T (mDel s r0 arg).1 ∧ RespsGrow s (mDel s r0 arg).1 := by
  rw [mDel_eq]
  have h0 : (s.setRepo (s.repo r0)).resps = s.resps := resps_setRepo _ _
  have ht0 := TableOK.of_eq h0 ht
  have hg0 := RespsGrow.of_eq h0
  generalize s.setRepo (s.repo r0) = s0 at h0 ht0 hg0 ⊢
  split
  · exact ⟨ht0, hg0⟩
  · rename_i desc _
    split
    · exact ⟨ht0, hg0⟩
    have key : TableOK T (delStage s0 r0 arg desc) ∧ RespsGrow s0 (delStage s0 r0 arg desc) := by
      rcases delStage_cases s0 r0 arg desc with h | ⟨S, h⟩
      · rw [h]; exact ⟨ht0, fun _ _ h => h⟩
      · rw [h, referrerDelete_eq]
        split
        · exact ⟨ht0, fun _ _ h => h⟩
        · exact tg_storeResp ht0 r0 S _ (fun x hx => respList_tok ht0 r0 S x (mem_rmFrom _ _ x hx))
    exact ⟨TableOK.of_eq (indexRemove_resps _ _ _) key.1,
      hg0.trans (key.2.trans (RespsGrow.of_eq (indexRemove_resps _ _ _)))⟩

theorem tg_mPut {s : State} (ht : TableOK T s) (r0 ref ct qd b : String) (lk : Bool)
    (hadm : ∀ a, mValidate (s.setRepo (s.repo r0)) r0 ref ct qd b lk = .ok a → T a.refd) :
    TableOK T (mPut s r0 ref ct qd b lk).1 ∧ RespsGrow s (mPut s r0 ref ct qd b lk).1 := by
  unfold mPut
  simp only []
  have h0 : (s.setRepo (s.repo r0)).resps = s.resps := resps_setRepo _ _
  cases hv : mValidate (s.setRepo (s.repo r0)) r0 ref ct qd b lk with
  | error e => exact ⟨TableOK.of_eq h0 ht, RespsGrow.of_eq h0⟩
  | ok a =>
    obtain ⟨h1, h2⟩ := tg_mCommit (TableOK.of_eq h0 ht) r0 b a (hadm a hv)
    exact ⟨h1, (RespsGrow.of_eq h0).trans h2⟩

/-! ### dispatch -/

theorem step_mPut_shape (s : State) (r0 ref ct qd b : String) (lk : Bool) :
    ((step s (.mPut r0 ref ct qd b lk)).1 = s ∧ (step s (.mPut r0 ref ct qd b lk)).2.status ≠ 201) ∨
    step s (.mPut r0 ref ct qd b lk) = mPut s r0 ref ct qd b lk := by
  simp only [step]
  repeat' split
  all_goals first
    | (right; rfl)
    | (left; exact ⟨rfl, by simp [notFound, notAllowed, denied, nameInvalid]⟩)

theorem step_mDel_shape (s : State) (r0 arg : String) :
    ((step s (.mDel r0 arg)).1 = s ∧ (step s (.mDel r0 arg)).2.status ≠ 202) ∨
    step s (.mDel r0 arg) = mDel s r0 arg := by
  simp only [step]
  repeat' split
  all_goals first
    | (right; rfl)
    | (left; exact ⟨rfl, by simp [notFound, notAllowed, denied, nameInvalid]⟩)

/-- requests that are neither manifest pushes, manifest deletes nor blob deletes -/
def isQuietReq : Req → Bool
  | .mPut .. | .mDel .. | .bDel .. => false
  | _ => true

theorem quiet_step (r : String) (s : State) (q : Req) (hq : isQuietReq q = true) : Quiet r s (step s q).1 := by
  cases q with
  | uPost r0 q => simp only [step]; repeat' split
                  all_goals first | exact Quiet.refl _ s | exact quiet_uPost _ _ _ _
  | uPatch r0 i q => simp only [step]; repeat' split
                     all_goals first | exact Quiet.refl _ s | exact quiet_uPatch _ _ _ _ _
  | uPut r0 i q => simp only [step]; repeat' split
                   all_goals first | exact Quiet.refl _ s | exact quiet_uPut _ _ _ _ _
  | uGet r0 i => simp only [step]; repeat' split
                 all_goals first | exact Quiet.refl _ s | exact quiet_uGet _ _ _ _
  | uDel r0 i => simp only [step]; repeat' split
                 all_goals first | exact Quiet.refl _ s | exact quiet_uDel _ _ _ _
  | bGet r0 a hd rng => simp only [step]; repeat' split
                        all_goals first | exact Quiet.refl _ s | exact quiet_bGet _ _ _ _ _ _
  | bDel r0 a => cases hq
  | mPut r0 ref ct qd b lk => cases hq
  | mGet r0 ref acc hd rng => simp only [step]; repeat' split
                              all_goals first | exact Quiet.refl _ s | exact quiet_mGet _ _ _ _ _ _ _
  | mDel r0 ref => cases hq
  | tags r0 n l => simp only [step]; repeat' split
                   all_goals first | exact Quiet.refl _ s | exact quiet_tags _ _ _ _ _
  | refs r0 a f c p => simp only [step]; repeat' split
                       all_goals first | exact Quiet.refl _ s | exact quiet_refs _ _ _ _ _ _ _

theorem quiet_step_bDel_other (r : String) (s : State) (r0 arg : String) (h : r ≠ r0) : Quiet r s (step s (.bDel r0 arg)).1 := by
  simp only [step]; repeat' split
  all_goals first | exact Quiet.refl _ s | exact quiet_bDel_other _ _ _ _ h
end
end Upd.Rf

namespace Upd.Rf
section
variable {T : Desc → Prop} {r : String}

/-! ### the specification and the list-level invariant -/

/-- subject ↦ digest ↦ "should be listed" -/
abbrev Spec := String → String → Prop

/-- how an exchange with the server changes what should be listed in repository `r`: a push acknowledged with 201
    and an `OCI-Subject` header adds the pushed digest to that subject; a delete by digest acknowledged with 202
    removes the digest from every subject; nothing else changes anything -/
def specStep (r : String) (G : Spec) : Req → Resp → Spec
  | .mPut r0 _ _ _ _ _, resp =>
    if r0 = r ∧ resp.status = 201 ∧ resp.subj ≠ "" then fun S g => G S g ∨ (S = resp.subj ∧ g = resp.dcd) else G
  | .mDel r0 ref, resp =>
    if r0 = r ∧ resp.status = 202 ∧ isTag ref = false then
      match DigArg.parse ref with
      | .ok d => fun S g => G S g ∧ g ≠ d.str
      | .bad => G
    else G
  | _, _ => G

structure RJ (r : String) (s : State) (G : Spec) : Prop where
  nodup : ∀ S, S ≠ "" → ((respList s r S).map (·.dig)).Nodup
  sound : ∀ S, S ≠ "" → ∀ x ∈ respList s r S, subjRead s r x.dig = S
  spec : ∀ S, S ≠ "" → ∀ g, g ∈ (respList s r S).map (·.dig) ↔ G S g
  nodef : ∀ ds, subjOf (s.body (respName ds)) = ""

theorem body_of_defs {s s' : State} (h : s'.defs = s.defs) (c : String) : s'.body c = s.body c := by
  unfold State.body; rw [h]

/-- the subject read for a manifest does not change while its blob stays and its body stays defined -/
theorem subjRead_stable {s s' : State} (hcas : RepoCAS (s.repo r)) (hcas' : RepoCAS (s'.repo r))
    (hblob : ∀ g, ((s.repo r).blob g).isSome → ((s'.repo r).blob g).isSome)
    (hbody : ∀ c, subjOf (s.body c) ≠ "" → s'.body c = s.body c)
    (g S : String) (hS : S ≠ "") (h : subjRead s r g = S) : subjRead s' r g = S := by
  unfold subjRead at h ⊢
  cases hp : DigArg.parse g with
  | bad => rw [hp] at h; exact absurd h.symm hS
  | ok dg =>
    rw [hp] at h
    simp only [] at h ⊢
    cases hb : (s.repo r).blob dg with
    | none => rw [hb] at h; exact absurd h.symm hS
    | some c =>
      rw [hb] at h
      simp only [] at h
      have hc : dg.content = c := cas_blob _ hcas dg c hb
      have hb' := blob_some_of_isSome _ hcas' dg (hblob dg (by rw [hb]; rfl))
      rw [hb', hc]
      simp only []
      rw [hbody c (by rw [h]; exact hS)]
      exact h

theorem RJ.same {s s' : State} {G : Spec} (hJ : RJ r s G) (hcas : RepoCAS (s.repo r)) (hcas' : RepoCAS (s'.repo r))
    (hblob : ∀ g, ((s.repo r).blob g).isSome → ((s'.repo r).blob g).isSome)
    (hbody : ∀ c, subjOf (s.body c) ≠ "" → s'.body c = s.body c)
    (hl : ∀ S, S ≠ "" → respList s' r S = respList s r S)
    (hnd : ∀ ds, subjOf (s'.body (respName ds)) = "") : RJ r s' G := by
  refine ⟨fun S hS => by rw [hl S hS]; exact hJ.nodup S hS, fun S hS x hx => ?_,
    fun S hS g => by rw [hl S hS]; exact hJ.spec S hS g, hnd⟩
  rw [hl S hS] at hx
  exact subjRead_stable hcas hcas' hblob hbody _ S hS (hJ.sound S hS x hx)

theorem RJ.same_defs {s s' : State} {G : Spec} (hJ : RJ r s G) (hcas : RepoCAS (s.repo r)) (hcas' : RepoCAS (s'.repo r))
    (hblob : ∀ g, ((s.repo r).blob g).isSome → ((s'.repo r).blob g).isSome) (hdefs : s'.defs = s.defs)
    (hl : ∀ S, S ≠ "" → respList s' r S = respList s r S) : RJ r s' G :=
  hJ.same hcas hcas' hblob (fun c _ => body_of_defs hdefs c) hl (fun ds => by rw [body_of_defs hdefs]; exact hJ.nodef ds)

/-- a step that leaves index, blobs and tables of `r` alone keeps everything -/
theorem keep_all {s s' : State} {G : Spec} (hK : RK T r s) (hJ : RJ r s G) (hN : Names T) (hinv : Inv s')
    (hconf : s'.conf = s.conf) (hdefs : s'.defs = s.defs)
    (hidx : (s'.repo r).index = (s.repo r).index)
    (hblob : ∀ g, ((s.repo r).blob g).isSome → ((s'.repo r).blob g).isSome)
    (htable : TableOK T s') (hgrow : RespsGrow s s') : RK T r s' ∧ RJ r s' G := by
  have hK' : RK T r s' := hK.transfer s' hinv hconf htable (by rw [hidx]; exact SubSame.refl _) hblob hgrow
  refine ⟨hK', hJ.same_defs hK.cas hK'.cas hblob hdefs ?_⟩
  intro S hS
  exact respList_transfer hK hN s' S hS (fun e _ _ => by rw [hidx]) hblob hgrow hK'.cas

theorem keep_quiet {s s' : State} {G : Spec} (hK : RK T r s) (hJ : RJ r s G) (hN : Names T) (hinv : Inv s')
    (hq : Quiet r s s') : RK T r s' ∧ RJ r s' G :=
  keep_all hK hJ hN hinv hq.conf hq.defs hq.index hq.blob (TableOK.of_eq hq.resps hK.table) (RespsGrow.of_eq hq.resps)

theorem mem_addTo_dig (old : List Desc) (d : Desc) (g : String) :
    g ∈ (addTo old d).map (·.dig) ↔ g ∈ old.map (·.dig) ∨ g = d.dig := by
  unfold addTo
  split
  · rename_i h
    constructor
    · exact Or.inl
    · intro h'
      rcases h' with h' | h'
      · exact h'
      · obtain ⟨x, hx, hxd⟩ := List.any_eq_true.mp h
        rw [h']
        exact List.mem_map.mpr ⟨x, hx, by simpa using hxd⟩
  · simp [eq_comm]

theorem mem_rmFrom_dig (old : List Desc) (g0 : String) (hg0 : g0 ≠ "") (g : String) :
    g ∈ (rmFrom old g0).map (·.dig) ↔ g ∈ old.map (·.dig) ∧ g ≠ g0 := by
  have hp := (rmFrom_perm old g0 hg0).map (·.dig)
  rw [hp.mem_iff]
  simp only [List.mem_map, List.mem_filter, decide_eq_true_eq]
  constructor
  · rintro ⟨x, ⟨hx, hne⟩, rfl⟩
    exact ⟨⟨x, hx, rfl⟩, hne⟩
  · rintro ⟨⟨x, hx, rfl⟩, hne⟩
    exact ⟨x, ⟨hx, hne⟩, rfl⟩

theorem rmFrom_nodup (old : List Desc) (g0 : String) (hg0 : g0 ≠ "") (h : (old.map (·.dig)).Nodup) :
    ((rmFrom old g0).map (·.dig)).Nodup := by
  have hp := (rmFrom_perm old g0 hg0).map (·.dig)
  rw [hp.nodup_iff]
  exact h.sublist ((List.filter_sublist).map _)
end
end Upd.Rf

namespace Upd.Rf
section
variable {T : Desc → Prop} {r : String}

theorem specStep_mPut (r : String) (G : Spec) (r0 ref ct qd b : String) (lk : Bool) (resp : Resp) :
    specStep r G (.mPut r0 ref ct qd b lk) resp =
      if r0 = r ∧ resp.status = 201 ∧ resp.subj ≠ "" then fun S g => G S g ∨ (S = resp.subj ∧ g = resp.dcd) else G := rfl
theorem specStep_mDel (r : String) (G : Spec) (r0 ref : String) (resp : Resp) :
    specStep r G (.mDel r0 ref) resp =
      if r0 = r ∧ resp.status = 202 ∧ isTag ref = false then
        match DigArg.parse ref with
        | .ok d => fun S g => G S g ∧ g ≠ d.str
        | .bad => G
      else G := rfl
theorem specStep_mPut_no (r : String) (G : Spec) (r0 ref ct qd b : String) (lk : Bool) (resp : Resp)
    (h : ¬ (r0 = r ∧ resp.status = 201 ∧ resp.subj ≠ "")) : specStep r G (.mPut r0 ref ct qd b lk) resp = G := by
  rw [specStep_mPut, if_neg h]
theorem specStep_mPut_yes (r : String) (G : Spec) (ref ct qd b : String) (lk : Bool) (resp : Resp)
    (h1 : resp.status = 201) (h2 : resp.subj ≠ "") :
    specStep r G (.mPut r ref ct qd b lk) resp = fun S g => G S g ∨ (S = resp.subj ∧ g = resp.dcd) := by
  rw [specStep_mPut, if_pos ⟨rfl, h1, h2⟩]
theorem specStep_mDel_no (r : String) (G : Spec) (r0 ref : String) (resp : Resp)
    (h : ¬ (r0 = r ∧ resp.status = 202 ∧ isTag ref = false)) : specStep r G (.mDel r0 ref) resp = G := by
  rw [specStep_mDel, if_neg h]
theorem specStep_mDel_yes (r : String) (G : Spec) (ref : String) (resp : Resp) (d : Dig)
    (h1 : resp.status = 202) (h2 : isTag ref = false) (hp : DigArg.parse ref = .ok d) :
    specStep r G (.mDel r ref) resp = fun S g => G S g ∧ g ≠ d.str := by
  rw [specStep_mDel, if_pos ⟨rfl, h1, h2⟩, hp]

theorem touch_keeps {s : State} {G : Spec} (hK : RK T r s) (hJ : RJ r s G) (hN : Names T) :
    RK T r (s.setRepo (s.repo r)) ∧ RJ r (s.setRepo (s.repo r)) G :=
  keep_quiet hK hJ hN (setRepo_inv s _ hK.inv (repo_ok s r hK.inv)) (quiet_touch r s r)

/-- a manifest push into `r` -/
theorem mPut_r {s : State} {G : Spec} (hK : RK T r s) (hJ : RJ r s G) (hN : Names T) (ref ct qd b : String) (lk : Bool)
    (hadm : ∀ a, mValidate (s.setRepo (s.repo r)) r ref ct qd b lk = .ok a → T a.refd ∧ DigRT a.d) :
    RK T r (mPut s r ref ct qd b lk).1 ∧
    RJ r (mPut s r ref ct qd b lk).1 (specStep r G (.mPut r ref ct qd b lk) (mPut s r ref ct qd b lk).2) := by
  obtain ⟨hK0, hJ0⟩ := touch_keeps hK hJ hN
  unfold mPut
  simp only []
  generalize s.setRepo (s.repo r) = s0 at hK0 hJ0 hadm ⊢
  cases hv : mValidate s0 r ref ct qd b lk with
  | error e =>
    have hne : ¬ (r = r ∧ e.status = 201 ∧ e.subj ≠ "") := by
      intro ⟨_, h, _⟩
      rcases mValidate_refusal_4xx s0 r ref ct qd b lk e hv with h4 | h4 <;> rw [h4] at h <;> cases h
    rw [specStep_mPut_no r G r ref ct qd b lk e hne]
    exact ⟨hK0, hJ0⟩
  | ok a =>
    simp only []
    obtain ⟨hT, hrt⟩ := hadm a hv
    have hd := mValidate_digest s0 r ref ct qd b lk a hv
    obtain ⟨hrefd, hsubj⟩ := mValidate_facts s0 r ref ct qd b lk a hv
    rw [hK0.ref] at hsubj
    simp only [if_true] at hsubj
    obtain ⟨hK', hm, hb, hl0, hl1⟩ := mCommit_lists hK0 hN b a hd hT
    have hresp : (mCommit s0 r b a).2 = { status := 201, loc := manLoc r a.d, dcd := a.d.str, subj := a.subject } := rfl
    rw [hresp]
    generalize (mCommit s0 r b a).1 = s' at hK' hm hb hl0 hl1 ⊢
    refine ⟨hK', ?_⟩
    have hbody : ∀ c, subjOf (s0.body c) ≠ "" → s'.body c = s0.body c := fun c _ => body_of_defs hm.defs c
    by_cases hsub : a.subject = ""
    · rw [specStep_mPut_no r G r ref ct qd b lk _ (fun h => h.2.2 hsub)]
      exact hJ0.same_defs hK0.cas hK'.cas hm.blob hm.defs (hl0 hsub)
    · rw [specStep_mPut_yes r G ref ct qd b lk _ rfl hsub]
      simp only []
      obtain ⟨hself, hother⟩ := hl1 hsub
      refine ⟨fun S hS => ?_, fun S hS x hx => ?_, fun S hS g => ?_,
        fun ds => by rw [body_of_defs hm.defs]; exact hJ0.nodef ds⟩
      · by_cases hSS : S = a.subject
        · rw [hSS, hself]; exact addTo_nodup _ _ (hJ0.nodup _ hsub)
        · rw [hother S hS hSS]; exact hJ0.nodup S hS
      · by_cases hSS : S = a.subject
        · rw [hSS, hself] at hx
          rcases mem_addTo _ _ _ hx with h | h
          · rw [hSS]
            exact subjRead_stable hK0.cas hK'.cas hm.blob hbody _ _ hsub (hJ0.sound _ hsub x h)
          · -- the pushed manifest itself: its digest parses back, its blob is there, its body names the subject
            rw [h, hrefd, hSS]
            unfold subjRead
            rw [hrt]
            simp only []
            rw [blob_some_of_isSome _ hK'.cas a.d hb, hd]
            simp only []
            rw [body_of_defs hm.defs b]
            exact hsubj.symm
        · rw [hother S hS hSS] at hx
          exact subjRead_stable hK0.cas hK'.cas hm.blob hbody _ S hS (hJ0.sound S hS x hx)
      · by_cases hSS : S = a.subject
        · rw [hSS, hself, mem_addTo_dig, hJ0.spec _ hsub g, hrefd]
          simp
        · rw [hother S hS hSS, hJ0.spec S hS g]
          simp [hSS]

theorem mDel_none (s : State) (r arg : String) (h : getDesc ((s.setRepo (s.repo r)).repo r).index arg = none) :
    mDel s r arg = (s.setRepo (s.repo r), { status := 404, code := "MANIFEST_UNKNOWN" }) := by
  rw [mDel_eq, h]
theorem mDel_refused (s : State) (r arg : String) (desc : Desc)
    (h : getDesc ((s.setRepo (s.repo r)).repo r).index arg = some desc)
    (hc : (!isTag arg) = true ∧ onlyResponse ((s.setRepo (s.repo r)).repo r).index desc.dig = true) :
    mDel s r arg = (s.setRepo (s.repo r), { status := 404, code := "MANIFEST_UNKNOWN" }) := by
  rw [mDel_eq, h]; simp only []; rw [if_pos hc]
theorem mDel_some (s : State) (r arg : String) (desc : Desc)
    (h : getDesc ((s.setRepo (s.repo r)).repo r).index arg = some desc)
    (hc : ¬ ((!isTag arg) = true ∧ onlyResponse ((s.setRepo (s.repo r)).repo r).index desc.dig = true)) :
    mDel s r arg = (indexRemove (delStage (s.setRepo (s.repo r)) r arg desc) r desc, { status := 202 }) := by
  rw [mDel_eq, h]; simp only []; rw [if_neg hc]

/-- a response entry and an entry that is not a response entry share the digest `g` (a client pushed a manifest
    byte-identical to a referrers response document) -/
def Twinned (ix : Index) (g : String) : Prop :=
  ∃ e1 ∈ ix.manifests, ∃ e2 ∈ ix.manifests, Sub e1 ∧ ¬ Sub e2 ∧ e1.dig = g ∧ e2.dig = g

/-- a digest carried by a response entry and by no other kind of entry is refused by the delete handler -/
theorem onlyResponse_of_sub (ix : Index) (g : String) (hnt : ¬ Twinned ix g) (e : Desc) (he : e ∈ ix.manifests)
    (hsub : Sub e) (hed : e.dig = g) : onlyResponse ix g = true := by
  unfold onlyResponse
  simp only [Bool.decide_and, Bool.and_eq_true, List.isEmpty_eq_false_iff, ne_eq,
    List.all_eq_true, List.mem_filter, decide_eq_true_eq, decide_not, Bool.not_eq_eq_eq_not, Bool.not_true,
    decide_eq_false_iff_not, and_imp]
  constructor
  · intro hnil
    have : e ∈ ix.manifests.filter (fun x => decide (x.dig = g)) := List.mem_filter.mpr ⟨he, by simpa using hed⟩
    rw [hnil] at this; cases this
  · intro x hx hxg
    apply Classical.byContradiction
    intro hns
    apply hnt
    refine ⟨e, he, x, hx, hsub, ?_, hed, hxg⟩
    intro hsx
    exact hns ⟨hsx.1, hsx.2⟩

/-- the repaired handler: a delete by digest that resolves to a digest carried by a response entry, and by no entry of
    another kind, is refused with 404 and changes nothing (but for opening the repository) -/
theorem mDel_response_refused (s : State) (r arg : String) (desc e : Desc) (ht : isTag arg = false)
    (hg : getDesc (s.repo r).index arg = some desc) (he : e ∈ (s.repo r).index.manifests) (hsub : Sub e)
    (hed : e.dig = desc.dig) (hnt : ¬ Twinned (s.repo r).index desc.dig) :
    mDel s r arg = (s.setRepo (s.repo r), { status := 404, code := "MANIFEST_UNKNOWN" }) := by
  apply mDel_refused s r arg desc
  · rw [repo_touch]; exact hg
  · rw [repo_touch]
    exact ⟨by rw [ht]; rfl, onlyResponse_of_sub _ _ hnt e he hsub hed⟩

/-- a manifest delete in `r` -/
theorem mDel_r {s : State} {G : Spec} (hK : RK T r s) (hJ : RJ r s G) (hN : Names T) (arg : String)
    (hadm : isTag arg = false → ∀ d, DigArg.parse arg = .ok d → ¬ Twinned (s.repo r).index d.str) :
    RK T r (mDel s r arg).1 ∧ RJ r (mDel s r arg).1 (specStep r G (.mDel r arg) (mDel s r arg).2) := by
  obtain ⟨hK0, hJ0⟩ := touch_keeps hK hJ hN
  have hadm0 : isTag arg = false → ∀ d, DigArg.parse arg = .ok d →
      ¬ Twinned ((s.setRepo (s.repo r)).repo r).index d.str := by
    rw [repo_touch]; exact hadm
  cases hg : getDesc ((s.setRepo (s.repo r)).repo r).index arg with
  | none =>
    rw [mDel_none s r arg hg]
    rw [specStep_mDel_no r G r arg _ (by intro ⟨_, h, _⟩; cases h)]
    exact ⟨hK0, hJ0⟩
  | some desc =>
    by_cases hc : (!isTag arg) = true ∧ onlyResponse ((s.setRepo (s.repo r)).repo r).index desc.dig = true
    · -- the digest names a referrers response only: refused, nothing changes
      rw [mDel_refused s r arg desc hg hc]
      rw [specStep_mDel_no r G r arg _ (by intro ⟨_, h, _⟩; cases h)]
      exact ⟨hK0, hJ0⟩
    rw [mDel_some s r arg desc hg hc]
    generalize s.setRepo (s.repo r) = s0 at hK0 hJ0 hg hc hadm0 ⊢
    cases ht : isTag arg with
    | true =>
      rw [specStep_mDel_no r G r arg _ (by intro ⟨_, _, h⟩; rw [ht] at h; cases h)]
      obtain ⟨hK', hm, hl⟩ := mDel_tag_lists hK0 hN arg desc ht hg
      exact ⟨hK', hJ0.same_defs hK0.cas hK'.cas hm.blob hm.defs hl⟩
    | false =>
      obtain ⟨d, hp, hdesc, hnil⟩ := getDesc_dig _ _ _ ht hg
      rw [specStep_mDel_yes r G arg _ d rfl ht hp]
      have honly0 : onlyResponse (s0.repo r).index desc.dig ≠ true := by
        intro h; exact hc ⟨by rw [ht]; rfl, h⟩
      have hfree : ∀ e ∈ (s0.repo r).index.manifests, Sub e → e.dig ≠ desc.dig := by
        intro e he hsub hed
        apply honly0
        exact onlyResponse_of_sub _ _ (by rw [hdesc]; exact hadm0 ht d hp) e he hsub hed
      have hnew : subjRead s0 r desc.dig ≠ "" → ∀ ds, (∀ x ∈ ds, T x) → desc.dig ≠ (respDig ds).str := by
        intro hsb ds hT heq
        apply hsb
        unfold subjRead
        rw [heq, hN.rt ds hT]
        simp only []
        cases hb : (s0.repo r).blob (respDig ds) with
        | none => rfl
        | some c =>
          simp only []
          rw [← cas_blob _ hK0.cas _ _ hb]
          exact hJ0.nodef ds
      obtain ⟨hK', hm, hl⟩ := mDel_dig_lists hK0 hN arg desc ht hnil hfree hnew
      generalize indexRemove (delStage s0 r arg desc) r desc = s' at hK' hm hl ⊢
      rw [hdesc] at hl
      have hg0 : d.str ≠ "" := Dig.str_ne_empty d
      have hbody : ∀ c, subjOf (s0.body c) ≠ "" → s'.body c = s0.body c := fun c _ => body_of_defs hm.defs c
      -- the deleted digest is listed at most under the subject its body names
      have honly : ∀ S, S ≠ "" → S ≠ subjRead s0 r d.str → d.str ∉ (respList s0 r S).map (·.dig) := by
        intro S hS hne hmem
        obtain ⟨x, hx, hxd⟩ := List.mem_map.mp hmem
        have := hJ0.sound S hS x hx
        rw [hxd] at this
        exact hne this.symm
      refine ⟨hK', fun S hS => ?_, fun S hS x hx => ?_, fun S hS g => ?_,
        fun ds => by rw [body_of_defs hm.defs]; exact hJ0.nodef ds⟩
      · by_cases hSS : S = subjRead s0 r d.str
        · rcases (hl S hS).2 hSS with h | ⟨h, _⟩
          · rw [h]; exact rmFrom_nodup _ _ hg0 (hJ0.nodup S hS)
          · rw [h]; exact hJ0.nodup S hS
        · rw [(hl S hS).1 hSS]; exact hJ0.nodup S hS
      · have hx0 : x ∈ respList s0 r S := by
          by_cases hSS : S = subjRead s0 r d.str
          · rcases (hl S hS).2 hSS with h | ⟨h, _⟩
            · rw [h] at hx; exact mem_rmFrom _ _ x hx
            · rw [h] at hx; exact hx
          · rw [(hl S hS).1 hSS] at hx; exact hx
        exact subjRead_stable hK0.cas hK'.cas hm.blob hbody _ S hS (hJ0.sound S hS x hx0)
      · by_cases hSS : S = subjRead s0 r d.str
        · rcases (hl S hS).2 hSS with h | ⟨h, hnil'⟩
          · rw [h, mem_rmFrom_dig _ _ hg0, hJ0.spec S hS g]
          · rw [h, ← hJ0.spec S hS g, hnil']
            simp
        · rw [(hl S hS).1 hSS, ← hJ0.spec S hS g]
          constructor
          · intro h
            refine ⟨h, ?_⟩
            intro hgd; rw [hgd] at h
            exact honly S hS hSS h
          · exact fun h => h.1
end
end Upd.Rf

namespace Upd.Rf
section
variable {T : Desc → Prop} {r : String}

/-! ### histories -/

/-- what is required of an event, in the state in which it is executed:
    * no blob delete is addressed to `r`;
    * if a manifest push (into any repository) is accepted, its referrer descriptor is in `T`; a push into `r`
      moreover has a digest whose string parses back;
    * a manifest delete by digest in `r` does not name a digest that a response entry and an entry of another kind
      share (`Twinned`: a client pushed a manifest byte-identical to a response document; a digest that only
      response entries carry is refused by the handler itself);
    * no body with a subject is defined under the canonical name of a response document (a response document has no
      subject field, so its bytes cannot be such a body) -/
def Adm (T : Desc → Prop) (r : String) (s : State) : Ev → Prop
  | .req (.bDel r0 _) => r0 ≠ r
  | .req (.mPut r0 ref ct qd b lk) =>
      ∀ a, mValidate (s.setRepo (s.repo r0)) r0 ref ct qd b lk = .ok a → T a.refd ∧ (r0 = r → DigRT a.d)
  | .req (.mDel r0 ref) =>
      r0 = r → isTag ref = false → ∀ d, DigArg.parse ref = .ok d → ¬ Twinned (s.repo r).index d.str
  | .defBody n b => ∀ ds, n = respName ds → subjOf b = ""
  | _ => True

def AdmHist (T : Desc → Prop) (r : String) : State → List Ev → Prop
  | _, [] => True
  | s, e :: es => Adm T r s e ∧ AdmHist T r (stepEv s e) es

def specEv (r : String) (s : State) (G : Spec) : Ev → Spec
  | .req q => specStep r G q (step s q).2
  | .defBody _ _ => G

/-- the specification after a history -/
def specAfter (r : String) : State → Spec → List Ev → Spec
  | _, G, [] => G
  | s, G, e :: es => specAfter r (stepEv s e) (specEv r s G e) es

theorem body_append (s : State) (n : String) (b : Body) (c : String) (h : subjOf (s.body c) ≠ "") :
    ({ s with defs := s.defs ++ [(n, b)] } : State).body c = s.body c := by
  unfold State.body at h ⊢
  simp only [List.find?_append]
  cases hf : s.defs.find? (fun x => x.1 = c) with
  | some p => simp
  | none =>
    rw [hf] at h
    exact absurd subjOf_default h

theorem other_repo_keeps {s : State} {G : Spec} (hK : RK T r s) (hJ : RJ r s G) (hN : Names T) (q : Req)
    (hne : r ≠ q.target) (htable : TableOK T (step s q).1) (hgrow : RespsGrow s (step s q).1) :
    RK T r (step s q).1 ∧ RJ r (step s q).1 G := by
  have hf := step_frame s q
  have hrepo := hf.1 r hne
  exact keep_all hK hJ hN (step_inv s q hK.inv) hf.2.1 hf.2.2 (by rw [hrepo]) (fun g hg => by rw [hrepo]; exact hg) htable hgrow

theorem stepEv_keeps {s : State} {G : Spec} (hK : RK T r s) (hJ : RJ r s G) (hN : Names T) (e : Ev)
    (hadm : Adm T r s e) : RK T r (stepEv s e) ∧ RJ r (stepEv s e) (specEv r s G e) := by
  cases e with
  | defBody n b =>
    have hK' : RK T r (stepEv s (.defBody n b)) := ⟨hK.inv, hK.ref, hK.table, hK.noTagSubj, hK.subjFun, hK.reg⟩
    refine ⟨hK', hJ.same hK.cas hK'.cas (fun _ h => h) (fun c hc => body_append s n b c hc) (fun _ _ => rfl) ?_⟩
    intro ds
    show subjOf (({ s with defs := s.defs ++ [(n, b)] } : State).body (respName ds)) = ""
    have hold := hJ.nodef ds
    unfold State.body at hold ⊢
    simp only [List.find?_append]
    cases hf : s.defs.find? (fun x => x.1 = respName ds) with
    | some p => rw [hf] at hold; simpa using hold
    | none =>
      simp only [Option.none_or, List.find?_cons, List.find?_nil]
      by_cases hn : n = respName ds
      · simp only [hn, decide_true, Option.map_some, Option.getD_some]
        exact hadm ds hn
      · simp only [hn, decide_false, Option.map_none, Option.getD_none]
        exact subjOf_default
  | req q =>
    have hinv := step_inv s q hK.inv
    cases q with
    | uPost r0 q => exact keep_quiet hK hJ hN hinv (quiet_step r s _ rfl)
    | uPatch r0 i q => exact keep_quiet hK hJ hN hinv (quiet_step r s _ rfl)
    | uPut r0 i q => exact keep_quiet hK hJ hN hinv (quiet_step r s _ rfl)
    | uGet r0 i => exact keep_quiet hK hJ hN hinv (quiet_step r s _ rfl)
    | uDel r0 i => exact keep_quiet hK hJ hN hinv (quiet_step r s _ rfl)
    | bGet r0 a hd rng => exact keep_quiet hK hJ hN hinv (quiet_step r s _ rfl)
    | mGet r0 ref acc hd rng => exact keep_quiet hK hJ hN hinv (quiet_step r s _ rfl)
    | tags r0 n l => exact keep_quiet hK hJ hN hinv (quiet_step r s _ rfl)
    | refs r0 a f c p => exact keep_quiet hK hJ hN hinv (quiet_step r s _ rfl)
    | bDel r0 a =>
      have hne : r ≠ r0 := fun h => hadm h.symm
      exact keep_quiet hK hJ hN hinv (quiet_step_bDel_other r s r0 a hne)
    | mPut r0 ref ct qd b lk =>
      show RK T r (step s (.mPut r0 ref ct qd b lk)).1 ∧
        RJ r (step s (.mPut r0 ref ct qd b lk)).1 (specStep r G (.mPut r0 ref ct qd b lk) (step s (.mPut r0 ref ct qd b lk)).2)
      by_cases hr : r0 = r
      · subst hr
        rcases step_mPut_shape s r0 ref ct qd b lk with ⟨h1, h2⟩ | h
        · rw [specStep_mPut_no r0 G r0 ref ct qd b lk _ (fun h => h2 h.2.1), h1]
          exact ⟨hK, hJ⟩
        · rw [h]
          exact mPut_r hK hJ hN ref ct qd b lk (fun a ha => ⟨(hadm a ha).1, (hadm a ha).2 rfl⟩)
      · rw [specStep_mPut_no r G r0 ref ct qd b lk _ (fun h => hr h.1)]
        apply other_repo_keeps hK hJ hN (.mPut r0 ref ct qd b lk) (fun h => hr h.symm)
        · rcases step_mPut_shape s r0 ref ct qd b lk with ⟨h1, _⟩ | h
          · rw [h1]; exact hK.table
          · rw [h]; exact (tg_mPut hK.table r0 ref ct qd b lk (fun a ha => (hadm a ha).1)).1
        · rcases step_mPut_shape s r0 ref ct qd b lk with ⟨h1, _⟩ | h
          · rw [h1]; exact fun _ _ h => h
          · rw [h]; exact (tg_mPut hK.table r0 ref ct qd b lk (fun a ha => (hadm a ha).1)).2
    | mDel r0 ref =>
      show RK T r (step s (.mDel r0 ref)).1 ∧
        RJ r (step s (.mDel r0 ref)).1 (specStep r G (.mDel r0 ref) (step s (.mDel r0 ref)).2)
      by_cases hr : r0 = r
      · subst hr
        rcases step_mDel_shape s r0 ref with ⟨h1, h2⟩ | h
        · rw [specStep_mDel_no r0 G r0 ref _ (fun h => h2 h.2.1), h1]
          exact ⟨hK, hJ⟩
        · rw [h]
          exact mDel_r hK hJ hN ref (hadm rfl)
      · rw [specStep_mDel_no r G r0 ref _ (fun h => hr h.1)]
        apply other_repo_keeps hK hJ hN (.mDel r0 ref) (fun h => hr h.symm)
        · rcases step_mDel_shape s r0 ref with ⟨h1, _⟩ | h
          · rw [h1]; exact hK.table
          · rw [h]; exact (tg_mDel hK.table r0 ref).1
        · rcases step_mDel_shape s r0 ref with ⟨h1, _⟩ | h
          · rw [h1]; exact fun _ _ h => h
          · rw [h]; exact (tg_mDel hK.table r0 ref).2

theorem hist_keeps (hN : Names T) : ∀ (hist : List Ev) (s : State) (G : Spec), RK T r s → RJ r s G → AdmHist T r s hist →
    RK T r (hist.foldl stepEv s) ∧ RJ r (hist.foldl stepEv s) (specAfter r s G hist) := by
  intro hist
  induction hist with
  | nil => intro s G hK hJ _; exact ⟨hK, hJ⟩
  | cons e es ih =>
    intro s G hK hJ hadm
    obtain ⟨h1, h2⟩ := stepEv_keeps hK hJ hN e hadm.1
    exact ih _ _ h1 h2 hadm.2

theorem RK.init (conf : Conf) (href : conf.ref = true) : RK T r { conf := conf } := by
  refine ⟨by intro rp hrp; simp at hrp, href, ?_, ?_, ?_, ?_⟩
  · intro n l h; simp [State.resp] at h
  · intro e he; simp [State.repo] at he
  · intro e he; simp [State.repo] at he
  · intro e he; simp [State.repo] at he

theorem respList_init (conf : Conf) (r S : String) : respList ({ conf := conf } : State) r S = [] := by
  apply respList_of_none
  simp [State.repo, getBySubj]

theorem RJ.init (conf : Conf) : RJ r { conf := conf } (fun _ _ => False) := by
  have h : ∀ S, respList ({ conf := conf } : State) r S = [] := fun S => respList_init conf r S
  refine ⟨fun S _ => by rw [h S]; simp, fun S _ x hx => by rw [h S] at hx; simp at hx, fun S _ g => by rw [h S]; simp,
    fun ds => by simp [State.body, subjOf_default]⟩

/-- C07 over histories (partial): after every admissible history from the empty registry with the referrers API on,
    for every subject `S` the digests listed in the response registered for `S` in `r` are exactly those the
    specification `specAfter` has accumulated for `S` — pushed into `r` with that subject and not deleted by digest
    since — and no digest is listed twice. -/
theorem refok_reach_partial (hN : Names T) (conf : Conf) (href : conf.ref = true) (hist : List Ev)
    (hadm : AdmHist T r { conf := conf } hist) (S : String) (hS : S ≠ "") :
    (∀ g, g ∈ (respList (hist.foldl stepEv { conf := conf }) r S).map (·.dig) ↔
        specAfter r { conf := conf } (fun _ _ => False) hist S g) ∧
    ((respList (hist.foldl stepEv { conf := conf }) r S).map (·.dig)).Nodup := by
  obtain ⟨_, hJ⟩ := hist_keeps hN hist { conf := conf } (fun _ _ => False) (RK.init conf href) (RJ.init conf) hadm
  exact ⟨hJ.spec S hS, hJ.nodup S hS⟩
end
end Upd.Rf

namespace Upd.Rf
section
variable {T : Desc → Prop} {r : String}

/-! ### the invariant under one name -/

/-- `RefOK T r s G`: the referrers bookkeeping of `r` is well formed (`RK`) and, for every subject, the digests listed
    in its response are exactly those of the specification `G`, each once, each the digest of a stored manifest
    whose body names that subject (`RJ`) -/
def RefOK (T : Desc → Prop) (r : String) (s : State) (G : Spec) : Prop := RK T r s ∧ RJ r s G

theorem specStep_other (r : String) (G : Spec) (q : Req) (resp : Resp) (h : q.target ≠ r) : specStep r G q resp = G := by
  cases q with
  | mPut r0 ref ct qd b lk => exact specStep_mPut_no r G r0 ref ct qd b lk resp (fun h' => h h'.1)
  | mDel r0 ref => exact specStep_mDel_no r G r0 ref resp (fun h' => h h'.1)
  | _ => rfl

/-- preserved by a manifest push into `r` (with or without subject, accepted or refused) -/
theorem refok_push {s : State} {G : Spec} (h : RefOK T r s G) (hN : Names T) (ref ct qd b : String) (lk : Bool)
    (hadm : ∀ a, mValidate (s.setRepo (s.repo r)) r ref ct qd b lk = .ok a → T a.refd ∧ DigRT a.d) :
    RefOK T r (mPut s r ref ct qd b lk).1 (specStep r G (.mPut r ref ct qd b lk) (mPut s r ref ct qd b lk).2) :=
  mPut_r h.1 h.2 hN ref ct qd b lk hadm

/-- preserved by a manifest delete in `r`, by tag or by digest (a digest that only response entries carry is refused
    by the handler), unless a response entry and an entry of another kind share the digest -/
theorem refok_delete {s : State} {G : Spec} (h : RefOK T r s G) (hN : Names T) (arg : String)
    (hadm : isTag arg = false → ∀ d, DigArg.parse arg = .ok d → ¬ Twinned (s.repo r).index d.str) :
    RefOK T r (mDel s r arg).1 (specStep r G (.mDel r arg) (mDel s r arg).2) :=
  mDel_r h.1 h.2 hN arg hadm

/-- a delete by tag changes no response and no specification -/
theorem refok_delete_tag {s : State} {G : Spec} (h : RefOK T r s G) (hN : Names T) (arg : String) (ht : isTag arg = true) :
    RefOK T r (mDel s r arg).1 G ∧ ∀ S, S ≠ "" → respList (mDel s r arg).1 r S = respList s r S := by
  have h1 := mDel_r h.1 h.2 hN arg (fun hf => by rw [ht] at hf; cases hf)
  rw [specStep_mDel_no r G r arg _ (fun h' => by rw [ht] at h'; cases h'.2.2)] at h1
  refine ⟨h1, fun S hS => ?_⟩
  obtain ⟨hK0, _⟩ := touch_keeps h.1 h.2 hN
  have hl0 := respList_quiet h.1 hN (quiet_touch r s r) hK0.inv S hS
  cases hg : getDesc ((s.setRepo (s.repo r)).repo r).index arg with
  | none => rw [mDel_none s r arg hg]; exact hl0
  | some desc =>
    rw [mDel_some s r arg desc hg (fun hc => by rw [ht] at hc; cases hc.1)]
    exact ((mDel_tag_lists hK0 hN arg desc ht hg).2.2 S hS).trans hl0

/-- preserved by any request addressed to another repository (pushes there must still stay within `T`) -/
theorem refok_other_repo {s : State} {G : Spec} (h : RefOK T r s G) (hN : Names T) (q : Req) (hne : q.target ≠ r)
    (hadm : Adm T r s (.req q)) : RefOK T r (step s q).1 G := by
  have h1 : RK T r (step s q).1 ∧ RJ r (step s q).1 (specStep r G q (step s q).2) :=
    stepEv_keeps h.1 h.2 hN (.req q) hadm
  rw [specStep_other r G q _ hne] at h1
  exact h1

/-- preserved by every admissible event -/
theorem refok_step {s : State} {G : Spec} (h : RefOK T r s G) (hN : Names T) (e : Ev) (hadm : Adm T r s e) :
    RefOK T r (stepEv s e) (specEv r s G e) := stepEv_keeps h.1 h.2 hN e hadm
end
end Upd.Rf
