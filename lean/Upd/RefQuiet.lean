import Upd.Frame
/-! Requests that cannot disturb the referrers responses of a repository: everything except manifest pushes, manifest
    deletes and blob deletes.  `Quiet r s s'`: the index of `r` is the same, no blob of `r` disappeared, the response
    table, the body definitions and the configuration are the same.  (The walk mirrors `Upd/Frame.lean`.) -/
namespace Upd.Rf

structure Quiet (r : String) (s s' : State) : Prop where
  index : (s'.repo r).index = (s.repo r).index
  blob : ∀ g, ((s.repo r).blob g).isSome → ((s'.repo r).blob g).isSome
  resps : s'.resps = s.resps
  defs : s'.defs = s.defs
  conf : s'.conf = s.conf

theorem Quiet.refl (r : String) (s : State) : Quiet r s s := ⟨rfl, fun _ h => h, rfl, rfl, rfl⟩
theorem Quiet.trans {r : String} {s1 s2 s3 : State} (h1 : Quiet r s1 s2) (h2 : Quiet r s2 s3) : Quiet r s1 s3 :=
  ⟨h2.index.trans h1.index, fun g h => h2.blob g (h1.blob g h), h2.resps.trans h1.resps, h2.defs.trans h1.defs,
   h2.conf.trans h1.conf⟩

/-- a repository entry rewritten without touching its index and without losing a blob -/
structure RQ (rp rp' : Repo) : Prop where
  name : rp'.name = rp.name
  index : rp'.index = rp.index
  blob : ∀ g, (rp.blob g).isSome → (rp'.blob g).isSome

theorem RQ.refl (rp : Repo) : RQ rp rp := ⟨rfl, rfl, fun _ h => h⟩
theorem RQ.trans {a b c : Repo} (h1 : RQ a b) (h2 : RQ b c) : RQ a c :=
  ⟨h2.name.trans h1.name, h2.index.trans h1.index, fun g h => h2.blob g (h1.blob g h)⟩
theorem RQ.uploads (rp : Repo) (u : List Upload) : RQ rp { rp with uploads := u } := ⟨rfl, rfl, fun _ h => h⟩
theorem RQ.setUpload (rp : Repo) (u : Upload) : RQ rp (rp.setUpload u) := ⟨rfl, rfl, fun _ h => h⟩
theorem RQ.dropUpload (rp : Repo) (k : Nat) : RQ rp (rp.dropUpload k) := ⟨rfl, rfl, fun _ h => h⟩

theorem blob_isSome_iff (rp : Repo) (d : Dig) : (rp.blob d).isSome = true ↔ ∃ p ∈ rp.blobs, p.1 = d := by
  unfold Repo.blob
  rw [Option.isSome_map, List.find?_isSome]
  simp

theorem RQ.putBlob (rp : Repo) (d : Dig) (b : String) : RQ rp (rp.putBlob d b) := by
  refine ⟨putBlob_name rp d b, by unfold Repo.putBlob; split <;> rfl, ?_⟩
  intro g h
  rw [blob_isSome_iff] at h ⊢
  obtain ⟨p, hp, hpg⟩ := h
  unfold Repo.putBlob
  split
  · by_cases hpd : p.1 = d
    · exact ⟨(d, b), List.mem_map.mpr ⟨p, hp, by simp [hpd]⟩, by rw [← hpg, hpd]⟩
    · exact ⟨p, List.mem_map.mpr ⟨p, hp, by simp [hpd]⟩, hpg⟩
  · exact ⟨p, by simp [hp], hpg⟩

theorem resps_setRepo (s : State) (rp : Repo) : (s.setRepo rp).resps = s.resps := by
  unfold State.setRepo; split <;> rfl

theorem quiet_set (r : String) (s : State) (r0 : String) (rp : Repo) (h : RQ (s.repo r0) rp) :
    Quiet r s (s.setRepo rp) := by
  have hname : rp.name = r0 := by rw [h.name, repo_name]
  have hf := frame_setRepo' s r0 rp hname
  have hresps : (s.setRepo rp).resps = s.resps := by unfold State.setRepo; split <;> rfl
  by_cases hr : r = r0
  · subst hr
    have hsame : (s.setRepo rp).repo r = rp := by
      have := repo_setRepo_same s rp
      rwa [hname] at this
    exact ⟨by rw [hsame, h.index], fun g hg => by rw [hsame]; exact h.blob g hg, hresps, hf.2.2, hf.2.1⟩
  · have hother : (s.setRepo rp).repo r = s.repo r := hf.1 r hr
    exact ⟨by rw [hother], fun g hg => by rw [hother]; exact hg, hresps, hf.2.2, hf.2.1⟩

theorem quiet_touch (r : String) (s : State) (r0 : String) : Quiet r s (s.setRepo (s.repo r0)) :=
  quiet_set r s r0 _ (RQ.refl _)

theorem quiet_names (r : String) (s : State) (k : Nat) : Quiet r s (s.publicName k).1 := by
  unfold State.publicName; split <;> exact ⟨rfl, fun _ h => h, rfl, rfl, rfl⟩

theorem quiet_nextKey (r : String) (s : State) (nk : Nat) : Quiet r s { s with nextKey := nk } :=
  ⟨rfl, fun _ h => h, rfl, rfl, rfl⟩
theorem quiet_rcache (r : String) (s : State) (rc : List ((String × String × String × String) × List (List Desc))) :
    Quiet r s { s with rcache := rc } := ⟨rfl, fun _ h => h, rfl, rfl, rfl⟩

theorem quiet_create (r : String) (s : State) (r0 : String) (alg : Alg) (e : Option Dig) :
    Quiet r s (create s r0 alg e).1 := by
  unfold create
  cases e with
  | none =>
    simp only []
    exact Quiet.trans (quiet_nextKey r s (s.nextKey + 1)) (quiet_set r _ r0 _ (RQ.uploads _ _))
  | some d =>
    simp only []
    split
    · exact quiet_touch r s r0
    · exact Quiet.trans (quiet_nextKey r s (s.nextKey + 1)) (quiet_set r _ r0 _ (RQ.uploads _ _))

theorem quiet_close (r : String) (s : State) (r0 : String) (u : Upload) : Quiet r s (closeUpload s r0 u).1 := by
  have hq : RQ (s.repo r0) (((s.repo r0).putBlob u.digest u.buf).dropUpload u.key) :=
    RQ.trans (RQ.putBlob _ _ _) (RQ.dropUpload _ _)
  unfold closeUpload
  cases u.expect with
  | none => exact quiet_set r s r0 _ hq
  | some e =>
    simp only []
    split
    · exact Quiet.refl r s
    · exact quiet_set r s r0 _ hq

theorem quiet_mount (r : String) (s : State) (src tgt dstr : String) : Quiet r s (mount s src tgt dstr).1 := by
  unfold mount
  split
  · exact Quiet.refl r s
  · rename_i d _
    have h1 := quiet_create r s tgt d.alg (some d)
    cases hc : (create s tgt d.alg (some d)).2 with
    | exists_ => simp only [hc]; exact h1
    | session u =>
      simp only [hc]
      have h2 := Quiet.trans h1 (quiet_touch r _ src)
      split
      · exact Quiet.trans h2 (quiet_set r _ tgt _ (RQ.dropUpload _ _))
      · rename_i bytes _
        have h3 := Quiet.trans h2 (quiet_set r _ tgt
          ((((create s tgt d.alg (some d)).1.setRepo ((create s tgt d.alg (some d)).1.repo src)).repo tgt).setUpload (u.write bytes))
          (RQ.setUpload _ _))
        have h4 := Quiet.trans h3 (quiet_close r _ tgt (u.write bytes))
        split <;> exact h4

theorem quiet_withSession (r : String) (s : State) (r0 : String) (pub : Nat) (k : State → Repo → Upload → State × Resp)
    (hk : ∀ s' rp u, rp = s'.repo r0 → Quiet r s' (k s' rp u).1) : Quiet r s (withSession s r0 pub k).1 := by
  unfold withSession
  simp only []
  split
  · exact quiet_touch r s r0
  · split
    · exact quiet_touch r s r0
    · exact Quiet.trans (quiet_touch r s r0) (hk _ _ _ rfl)

theorem quiet_uPatch (r : String) (s : State) (r0 : String) (pub : Nat) (q : Q) : Quiet r s (uPatch s r0 pub q).1 := by
  unfold uPatch
  apply quiet_withSession
  intro s' rp u hrp
  simp only []
  split
  · exact Quiet.refl r s'
  · split
    · exact Quiet.refl r s'
    · subst hrp; exact quiet_set r _ r0 _ (RQ.setUpload _ _)

theorem quiet_uGet (r : String) (s : State) (r0 : String) (pub : Nat) : Quiet r s (uGet s r0 pub).1 := by
  unfold uGet
  apply quiet_withSession
  intro s' rp u _
  exact Quiet.refl r s'

theorem quiet_uDel (r : String) (s : State) (r0 : String) (pub : Nat) : Quiet r s (uDel s r0 pub).1 := by
  unfold uDel
  apply quiet_withSession
  intro s' rp u hrp
  subst hrp; exact quiet_set r _ r0 _ (RQ.dropUpload _ _)

theorem quiet_uPut (r : String) (s : State) (r0 : String) (pub : Nat) (q : Q) : Quiet r s (uPut s r0 pub q).1 := by
  unfold uPut
  apply quiet_withSession
  intro s' rp u hrp
  simp only []
  split
  · exact Quiet.refl r s'
  · split
    · exact Quiet.refl r s'
    · rename_i d _
      generalize (if u.buf.length = 0 ∧ d.alg ≠ u.digest.alg then u.changeAlg d.alg else u) = u0
      have h0 : Quiet r s' (s'.setRepo (rp.setUpload u0)) := by
        subst hrp; exact quiet_set r _ r0 _ (RQ.setUpload _ _)
      split
      · exact h0
      · split
        · exact Quiet.trans h0 (quiet_set r _ r0 _ (RQ.dropUpload _ _))
        · have h1 := Quiet.trans h0 (quiet_set r _ r0 (((s'.setRepo (rp.setUpload u0)).repo r0).setUpload ((u0.write q.body).verify d).1)
            (RQ.setUpload _ _))
          have h2 := Quiet.trans h1 (quiet_close r _ r0 ((u0.write q.body).verify d).1)
          split <;> exact h2

theorem quiet_uPost (r : String) (s : State) (r0 : String) (q : Q) : Quiet r s (uPost s r0 q).1 := by
  unfold uPost
  simp only []
  have hm : Quiet r s (if q.mount ≠ "" ∧ q.fromR ≠ "" ∧ validRepo q.fromR then mount s q.fromR r0 q.mount else (s, none)).1 := by
    split
    · exact quiet_mount r s q.fromR r0 q.mount
    · exact Quiet.refl r s
  generalize (if q.mount ≠ "" ∧ q.fromR ≠ "" ∧ validRepo q.fromR then mount s q.fromR r0 q.mount else (s, none)) = m at hm
  obtain ⟨s1, handled⟩ := m
  simp only [] at hm ⊢
  cases handled with
  | some resp => exact hm
  | none =>
    simp only []
    split
    · exact hm
    · split
      · exact hm
      · generalize hcr : create s1 r0 _ _ = cr
        have hc : Quiet r s1 cr.1 := by rw [← hcr]; exact quiet_create _ _ _ _ _
        obtain ⟨s2, res⟩ := cr
        simp only [] at hc ⊢
        have h2 := Quiet.trans hm hc
        cases res with
        | exists_ => cases ‹Option Dig› <;> exact h2
        | session u =>
          cases ‹Option Dig› with
          | none =>
            simp only []
            split
            · exact h2
            · exact Quiet.trans h2 (quiet_names r _ _)
          | some d =>
            simp only []
            split
            · split
              · exact Quiet.trans h2 (quiet_set r _ r0 _ (RQ.dropUpload _ _))
              · have h3 := Quiet.trans h2 (quiet_set r _ r0 ((s2.repo r0).setUpload ((u.write q.body).verify d).1) (RQ.setUpload _ _))
                have h4 := Quiet.trans h3 (quiet_close r _ r0 ((u.write q.body).verify d).1)
                split <;> exact h4
            · exact Quiet.trans h2 (quiet_names r _ _)

theorem quiet_mGet (r : String) (s : State) (r0 arg : String) (acc : List String) (hd : Bool) (rng : String) :
    Quiet r s (mGet s r0 arg acc hd rng).1 := by
  unfold mGet
  simp only []
  repeat' split
  all_goals exact quiet_touch r s r0

theorem quiet_tags (r : String) (s : State) (r0 n last : String) : Quiet r s (tags s r0 n last).1 := by
  unfold tags
  simp only []
  repeat' split
  all_goals exact quiet_touch r s r0

theorem quiet_refs (r : String) (s : State) (r0 arg f c p : String) : Quiet r s (refs s r0 arg f c p).1 := by
  unfold refs
  simp only []
  split
  · exact quiet_touch r s r0
  · unfold refsMain
    simp only []
    repeat' split
    all_goals first
      | exact quiet_touch r s r0
      | exact Quiet.trans (quiet_touch r s r0) (quiet_rcache r _ _)

theorem quiet_bGet (r : String) (s : State) (r0 arg : String) (hd : Bool) (rng : String) :
    Quiet r s (bGet s r0 arg hd rng).1 := by
  unfold bGet
  split
  · exact Quiet.refl r s
  · simp only []
    split <;> exact quiet_touch r s r0

/-- a blob delete in another repository -/
theorem quiet_bDel_other (r : String) (s : State) (r0 arg : String) (h : r ≠ r0) : Quiet r s (bDel s r0 arg).1 := by
  have hf := frame_bDel s r0 arg
  have hresps : (bDel s r0 arg).1.resps = s.resps := by
    unfold bDel
    split
    · rfl
    · simp only []
      split
      · exact resps_setRepo _ _
      · rw [resps_setRepo, resps_setRepo]
  have hother := hf.1 r h
  exact ⟨by rw [hother], fun g hg => by rw [hother]; exact hg, hresps, hf.2.2, hf.2.1⟩
end Upd.Rf
