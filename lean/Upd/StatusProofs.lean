import Upd.C01
import Upd.C04
import Upd.Router
import Upd.Frame
/-!
# Status codes of every handler (C15): closed tables, unreachable 500 branches, error codes only on errors
-/
namespace Upd

/-! ## B1. the 500 branches of the upload handlers are unreachable -/

/-- `Verify` never changes the digest a session was created for -/
theorem verify_expect (u : Upload) (d : Dig) : (u.verify d).1.expect = u.expect := by
  unfold Upload.verify
  repeat' split
  all_goals rfl

/-- after a successful `Verify`, `Close` cannot fail: the digest it compares is the verified one -/
theorem closeUpload_verified (s : State) (r : String) (u : Upload) (d : Dig) (hok : (u.verify d).2 = true) :
    (closeUpload s r (u.verify d).1).2 = true := by
  have hd := verify_ok_digest u d hok
  unfold closeUpload
  cases he : (u.verify d).1.expect with
  | none => rfl
  | some e =>
    have hu : u.expect = some e := by rw [← verify_expect u d]; exact he
    have hde := verify_ok_expect u d e hu hok
    subst hde
    simp [hd]

/-- `create` reports an existing blob only for a session with a declared digest -/
theorem create_exists_expect (s : State) (r : String) (alg : Alg) (e : Option Dig)
    (h : (create s r alg e).2 = CreateRes.exists_) : e.isSome = true := by
  unfold create at h
  cases e with
  | none => simp at h
  | some d => rfl

/-- a well-formed answer: the status is one of `allowed`, and an error code only comes with an error status -/
def Good (allowed : List Nat) (x : Resp) : Prop := x.status ∈ allowed ∧ (x.code ≠ "" → 400 ≤ x.status)

theorem Good.mono {l1 l2 : List Nat} {x : Resp} (h : Good l1 x) (hs : ∀ a ∈ l1, a ∈ l2) : Good l2 x :=
  ⟨hs _ h.1, h.2⟩

/-- final PUT of a session: 201, 400 or 416 — the 500 branch (a failing `Close`) is unreachable in every state -/
theorem uPut_good (s : State) (r : String) (pub : Nat) (q : Q) : Good [201, 400, 416] (uPut s r pub q).2 := by
  unfold uPut withSession
  simp only []
  split
  · simp [Good]
  · split
    · simp [Good]
    · rename_i key u hu
      split
      · simp [Good]
      · split
        · simp [Good]
        · rename_i d hd
          generalize (if u.buf.length = 0 ∧ d.alg ≠ u.digest.alg then u.changeAlg d.alg else u) = u0
          split
          · simp [Good]
          · split
            · simp [Good]
            · rename_i hok
              have hc := closeUpload_verified
                (((s.setRepo (s.repo r)).setRepo (((s.setRepo (s.repo r)).repo r).setUpload u0)).setRepo
                  ((((s.setRepo (s.repo r)).setRepo (((s.setRepo (s.repo r)).repo r).setUpload u0)).repo r).setUpload
                    ((u0.write q.body).verify d).fst)) r (u0.write q.body) d (by simpa using hok)
              rw [if_pos hc]
              simp [Good]

theorem uPut_no_5xx (s : State) (r : String) (pub : Nat) (q : Q) : (uPut s r pub q).2.status ≠ 500 := by
  have h := (uPut_good s r pub q).1
  simp only [List.mem_cons, List.mem_nil_iff, or_false] at h
  omega

/-- a handled mount answers 201 -/
theorem mount_good (s : State) (src tgt dstr : String) (resp : Resp) (h : (mount s src tgt dstr).2 = some resp) :
    Good [201] resp := by
  unfold mount at h
  split at h
  · cases h
  · rename_i d _
    cases hc : (create s tgt d.alg (some d)).2 with
    | exists_ =>
      simp only [hc, Option.some.injEq] at h
      subst h; simp [Good]
    | session u =>
      simp only [hc] at h
      split at h
      · cases h
      · split at h
        · simp only [Option.some.injEq] at h
          subst h; simp [Good]
        · cases h

theorem uPost_good (s : State) (r : String) (q : Q) : Good [201, 202, 400] (uPost s r q).2 := by
  unfold uPost
  simp only []
  have hm : ∀ resp, (if q.mount ≠ "" ∧ q.fromR ≠ "" ∧ validRepo q.fromR then mount s q.fromR r q.mount else (s, none)).2 = some resp →
      Good [201] resp := by
    intro resp h
    split at h
    · exact mount_good _ _ _ _ _ h
    · cases h
  generalize (if q.mount ≠ "" ∧ q.fromR ≠ "" ∧ validRepo q.fromR then mount s q.fromR r q.mount else (s, none)) = m at hm
  obtain ⟨s1, handled⟩ := m
  simp only [] at hm ⊢
  cases handled with
  | some resp => exact (hm resp rfl).mono (by simp)
  | none =>
    simp only []
    split
    · simp [Good]
    · split
      · simp [Good]
      · rename_i algoOpt _ _ dOpt hparsed
        cases dOpt with
        | none =>
          simp only []
          generalize hcr : create s1 r (algoOpt.getD Alg.sha256) none = cr
          obtain ⟨s2, res⟩ := cr
          cases res with
          | exists_ =>
            have := create_exists_expect s1 r (algoOpt.getD Alg.sha256) none (by rw [hcr])
            simp at this
          | session u =>
            simp only []
            split
            · rename_i hdig
              exfalso
              rw [if_pos hdig, if_neg hdig] at hparsed
              split at hparsed <;> simp at hparsed
            · simp [Good]
        | some d =>
          simp only []
          generalize hcr : create s1 r d.alg (some d) = cr
          obtain ⟨s2, res⟩ := cr
          cases res with
          | exists_ => simp [Good]
          | session u =>
            simp only []
            split
            · split
              · simp [Good]
              · rename_i hok
                have hc := closeUpload_verified (s2.setRepo ((s2.repo r).setUpload ((u.write q.body).verify d).fst)) r
                  (u.write q.body) d (by simpa using hok)
                rw [if_pos hc]
                simp [Good]
            · simp [Good]

theorem uPost_no_5xx (s : State) (r : String) (q : Q) : (uPost s r q).2.status ≠ 500 := by
  have h := (uPost_good s r q).1
  simp only [List.mem_cons, List.mem_nil_iff, or_false] at h
  omega

/-! ## B3. the table of every handler -/

theorem serve_good (s : State) (c rng : String) (head : Bool) (dcd ct : String) :
    Good [200, 206, 416] (serve s c rng head dcd ct) := by
  unfold serve
  simp only []
  repeat' split
  all_goals simp [Good]

theorem uPatch_good (s : State) (r : String) (pub : Nat) (q : Q) : Good [202, 400, 416] (uPatch s r pub q).2 := by
  unfold uPatch withSession; simp only []; repeat' split
  all_goals simp [Good]
theorem uGet_good (s : State) (r : String) (pub : Nat) : Good [204, 400] (uGet s r pub).2 := by
  unfold uGet withSession; simp only []; repeat' split
  all_goals simp [Good]
theorem uDel_good (s : State) (r : String) (pub : Nat) : Good [202, 400] (uDel s r pub).2 := by
  unfold uDel withSession; simp only []; repeat' split
  all_goals simp [Good]

theorem bGet_good (s : State) (r arg : String) (head : Bool) (rng : String) :
    Good [200, 206, 400, 404, 416] (bGet s r arg head rng).2 := by
  unfold bGet
  split
  · simp [Good]
  · simp only []
    split
    · simp [Good]
    · exact (serve_good _ _ _ _ _ _).mono (by simp)

theorem bDel_good (s : State) (r arg : String) : Good [202, 400, 404] (bDel s r arg).2 := by
  unfold bDel; simp only []; repeat' split
  all_goals simp [Good]

theorem mPut_good (s : State) (r ref ct qd b : String) (lk : Bool) : Good [201, 400, 413] (mPut s r ref ct qd b lk).2 := by
  unfold mPut
  simp only []
  cases hv : mValidate (s.setRepo (s.repo r)) r ref ct qd b lk with
  | ok a => simp [Good, mCommit]
  | error e =>
    rcases mValidate_refusal_4xx _ r ref ct qd b lk e hv with h | h
    · exact ⟨by simp [h], fun _ => by simp [h]⟩
    · exact ⟨by simp [h], fun _ => by simp [h]⟩

theorem mGet_good (s : State) (r arg : String) (acc : List String) (head : Bool) (rng : String) :
    Good [200, 206, 404, 416, 500] (mGet s r arg acc head rng).2 := by
  unfold mGet
  simp only []
  split
  · simp [Good]
  · split
    · simp [Good]
    · simp [Good]
    · simp [Good]
    · split
      · simp [Good]
      · split
        · simp [Good]
        · exact (serve_good _ _ _ _ _ _).mono (by simp)

theorem mDel_good (s : State) (r arg : String) : Good [202, 404] (mDel s r arg).2 := by
  unfold mDel; simp only []
  split
  · simp [Good]
  · split
    · simp [Good]
    · simp [Good]

theorem tags_good (s : State) (r n last : String) : Good [200] (tags s r n last).2 := by
  unfold tags; simp only []; repeat' split
  all_goals simp [Good]

theorem refs_good (s : State) (r arg f c p : String) : Good [200, 400] (refs s r arg f c p).2 := by
  unfold refs
  simp only []
  split
  · rename_i resp hp
    unfold refsPaged at hp
    repeat' split at hp
    all_goals first
      | (simp at hp; done)
      | (simp only [Option.some.injEq] at hp; subst hp; simp [Good, fromCache])
  · unfold refsMain; simp only []; repeat' split
    all_goals simp [Good, emptyRefs, fromCache]

/-- the closed set of status codes of the registry -/
def statusTable : List Nat := [200, 201, 202, 204, 206, 400, 403, 404, 405, 413, 416, 500]

set_option linter.unusedSimpArgs false in
theorem step_good (s : State) (q : Req) : Good statusTable (step s q).2 := by
  unfold statusTable
  cases q with
  | uPost r q => simp only [step]; repeat' split
                 all_goals first | (simp [Good, notFound, notAllowed, denied, nameInvalid, digestInvalid]; done) | exact (uPost_good _ _ _).mono (by simp)
  | uPatch r i q => simp only [step]; repeat' split
                    all_goals first | (simp [Good, notFound, notAllowed, denied, nameInvalid, digestInvalid]; done) | exact (uPatch_good _ _ _ _).mono (by simp)
  | uPut r i q => simp only [step]; repeat' split
                  all_goals first | (simp [Good, notFound, notAllowed, denied, nameInvalid, digestInvalid]; done) | exact (uPut_good _ _ _ _).mono (by simp)
  | uGet r i => simp only [step]; repeat' split
                all_goals first | (simp [Good, notFound, notAllowed, denied, nameInvalid, digestInvalid]; done) | exact (uGet_good _ _ _).mono (by simp)
  | uDel r i => simp only [step]; repeat' split
                all_goals first | (simp [Good, notFound, notAllowed, denied, nameInvalid, digestInvalid]; done) | exact (uDel_good _ _ _).mono (by simp)
  | bGet r a hd rng => simp only [step]; repeat' split
                       all_goals first | (simp [Good, notFound, notAllowed, denied, nameInvalid, digestInvalid]; done) | exact (bGet_good _ _ _ _ _).mono (by simp)
  | bDel r a => simp only [step]; repeat' split
                all_goals first | (simp [Good, notFound, notAllowed, denied, nameInvalid, digestInvalid]; done) | exact (bDel_good _ _ _).mono (by simp)
  | mPut r ref ct qd b lk => simp only [step]; repeat' split
                             all_goals first | (simp [Good, notFound, notAllowed, denied, nameInvalid, digestInvalid]; done) | exact (mPut_good _ _ _ _ _ _ _).mono (by simp)
  | mGet r ref acc hd rng => simp only [step]; repeat' split
                             all_goals first | (simp [Good, notFound, notAllowed, denied, nameInvalid, digestInvalid]; done) | exact (mGet_good _ _ _ _ _ _).mono (by simp)
  | mDel r ref => simp only [step]; repeat' split
                  all_goals first | (simp [Good, notFound, notAllowed, denied, nameInvalid, digestInvalid]; done) | exact (mDel_good _ _ _).mono (by simp)
  | tags r n l => simp only [step]; repeat' split
                  all_goals first | (simp [Good, notFound, notAllowed, denied, nameInvalid, digestInvalid]; done) | exact (tags_good _ _ _ _).mono (by simp)
  | refs r a f c p => simp only [step]; repeat' split
                      all_goals first | (simp [Good, notFound, notAllowed, denied, nameInvalid, digestInvalid, emptyRefs]; done) | exact (refs_good _ _ _ _ _ _).mono (by simp)

/-- the statuses the router answers itself -/
theorem routeRaw_status (conf : Conf) (m p : String) (st : Nat) (h : routeRaw conf m p = .inr st) :
    st = 200 ∨ st = 404 ∨ st = 405 := by
  unfold routeRaw at h
  simp only [] at h
  repeat' split at h
  all_goals first
    | (cases h; done)
    | (simp only [Sum.inr.injEq] at h; subst h; simp)

theorem stepRaw_good (s : State) (m p : String) : Good statusTable (stepRaw s m p).2 := by
  unfold stepRaw
  split
  · rename_i st h
    rcases routeRaw_status _ _ _ _ h with h | h | h <;> subst h <;> simp [Good, statusTable]
  · exact step_good _ _

/-! ## B2. exactly when a manifest GET answers 500 -/

/-- the choice `manifestGet` makes between the descriptor found and a child of a tagged index (the `pick` of `mGet`) -/
def pickOf (s : State) (rp : Repo) (arg : String) (accept : List String) (desc : Desc) : Pick :=
  if accept.contains desc.mt then .found desc
  else if !accept.isEmpty ∧ isIndexMT desc.mt ∧ isTag arg then
    match DigArg.parse desc.dig with
    | .bad => .serverError
    | .ok dg => match rp.blob dg with
      | none => .blobMissing
      | some content => match (s.body content).asIndex with
        | none => .serverError
        | some v => match v.children.find? (fun c => accept.contains c.mt) with
          | some c => .found c
          | none => .notFound
  else .notFound

theorem mGet_eq (s : State) (r arg : String) (accept : List String) (head : Bool) (rng : String) :
    mGet s r arg accept head rng =
      match getDesc ((s.setRepo (s.repo r)).repo r).index arg with
      | none => (s.setRepo (s.repo r), { status := 404, code := "MANIFEST_UNKNOWN" })
      | some desc =>
        match pickOf (s.setRepo (s.repo r)) ((s.setRepo (s.repo r)).repo r) arg accept desc with
        | .serverError => (s.setRepo (s.repo r), { status := 500 })
        | .blobMissing => (s.setRepo (s.repo r), { status := 404, code := "MANIFEST_BLOB_UNKNOWN" })
        | .notFound => (s.setRepo (s.repo r), { status := 404, code := "MANIFEST_UNKNOWN" })
        | .found d =>
          match DigArg.parse d.dig with
          | .bad => (s.setRepo (s.repo r), { status := 500 })
          | .ok dg => match ((s.setRepo (s.repo r)).repo r).blob dg with
            | none => (s.setRepo (s.repo r), { status := 404, code := "MANIFEST_BLOB_UNKNOWN" })
            | some content => (s.setRepo (s.repo r), serve (s.setRepo (s.repo r)) content rng head dg.str d.mt) := rfl

theorem serve_ne_500 (s : State) (c rng : String) (head : Bool) (dcd ct : String) : (serve s c rng head dcd ct).status ≠ 500 := by
  have h := (serve_good s c rng head dcd ct).1
  simp only [List.mem_cons, List.mem_nil_iff, or_false] at h
  omega

theorem setRepo_defs (s : State) (rp : Repo) : (s.setRepo rp).defs = s.defs := by
  unfold State.setRepo; split <;> rfl
theorem setRepo_body (s : State) (rp : Repo) (c : String) : (s.setRepo rp).body c = s.body c := by
  unfold State.body; rw [setRepo_defs]

/-- a manifest GET answers 500 exactly when the descriptor it settles on has a digest that does not parse, or the
    tagged index it has to open does not parse -/
theorem mGet_500_iff (s : State) (r arg : String) (accept : List String) (head : Bool) (rng : String) :
    (mGet s r arg accept head rng).2.status = 500 ↔
      ∃ desc, getDesc (s.repo r).index arg = some desc ∧
        (pickOf s (s.repo r) arg accept desc = .serverError ∨
         ∃ d, pickOf s (s.repo r) arg accept desc = .found d ∧ parses d.dig = false) := by
  rw [mGet_eq]
  have hp : ∀ desc, pickOf (s.setRepo (s.repo r)) (s.repo r) arg accept desc = pickOf s (s.repo r) arg accept desc := by
    intro desc
    unfold pickOf
    simp only [setRepo_body]
  simp only [repo_touch, hp]
  cases hg : getDesc (s.repo r).index arg with
  | none => simp
  | some desc =>
    simp only [Option.some.injEq, exists_eq_left']
    cases hpk : pickOf s (s.repo r) arg accept desc with
    | serverError => simp
    | blobMissing => simp
    | notFound => simp
    | found d =>
      simp only [Pick.found.injEq, exists_eq_left', reduceCtorEq, false_or]
      unfold parses
      cases hd : DigArg.parse d.dig with
      | bad => simp
      | ok dg =>
        simp only []
        cases (s.repo r).blob dg with
        | none => simp
        | some content => simpa using serve_ne_500 _ _ _ _ _ _

/-- when the choice is a server error: only for a tagged index that has to be opened -/
theorem pickOf_serverError_iff (s : State) (rp : Repo) (arg : String) (accept : List String) (desc : Desc) :
    pickOf s rp arg accept desc = .serverError ↔
      accept.contains desc.mt = false ∧ accept.isEmpty = false ∧ isIndexMT desc.mt = true ∧ isTag arg = true ∧
      (parses desc.dig = false ∨
       ∃ dg content, DigArg.parse desc.dig = .ok dg ∧ rp.blob dg = some content ∧ (s.body content).asIndex = none) := by
  constructor
  · intro h
    unfold pickOf at h
    split at h
    · cases h
    · rename_i h1
      split at h
      · rename_i h2
        refine ⟨by simpa using h1, by simpa using h2.1, h2.2.1, h2.2.2, ?_⟩
        unfold parses
        split at h
        · rename_i hd; left; rw [hd]
        · rename_i dg hd
          right
          split at h
          · cases h
          · rename_i content hb
            split at h
            · rename_i hv; exact ⟨dg, content, hd, hb, hv⟩
            · split at h <;> cases h
      · cases h
  · rintro ⟨h1, h2, h3, h4, h5⟩
    unfold pickOf
    rw [if_neg (by rw [h1]; exact Bool.false_ne_true), if_pos ⟨by simp [h2], h3, h4⟩]
    rcases h5 with h5 | ⟨dg, content, hd, hb, hv⟩
    · unfold parses at h5
      split at h5
      · cases h5
      · rename_i hd; rw [hd]
    · rw [hd]; simp only [hb, hv]

/-- the descriptor the choice settles on: the one found, or a child listed in the body of the tagged index -/
theorem pickOf_found (s : State) (rp : Repo) (arg : String) (accept : List String) (desc d : Desc)
    (h : pickOf s rp arg accept desc = .found d) :
    d = desc ∨
    (isIndexMT desc.mt = true ∧ isTag arg = true ∧ ∃ dg content v, DigArg.parse desc.dig = .ok dg ∧
      rp.blob dg = some content ∧ (s.body content).asIndex = some v ∧ d ∈ v.children) := by
  unfold pickOf at h
  split at h
  · simp only [Pick.found.injEq] at h; exact Or.inl h.symm
  · split at h
    · rename_i h2
      right
      refine ⟨h2.2.1, h2.2.2, ?_⟩
      split at h
      · cases h
      · rename_i dg hd
        split at h
        · cases h
        · rename_i content hb
          split at h
          · cases h
          · rename_i v hv
            split at h
            · rename_i c hc
              simp only [Pick.found.injEq] at h
              subst h
              exact ⟨dg, content, v, hd, hb, hv, List.mem_of_find?_eq_some hc⟩
            · cases h
    · cases h

/-! ### what a lookup returns -/

theorem isTag_ne_empty (t : String) (h : isTag t = true) : t ≠ "" := by
  intro h0; subst h0; simp [isTag] at h

theorem getDesc_tag_mem (ix : Index) (arg : String) (desc : Desc) (ht : isTag arg = true) (h : getDesc ix arg = some desc) :
    desc ∈ ix.manifests ∧ desc.ann.isNil = false ∧ desc.ann.tag = arg := by
  unfold getDesc at h
  split at h
  · cases h
  · try rw [if_pos ht] at h
    unfold getDescTag at h
    split at h
    · cases h
    · have h1 := List.mem_of_find?_eq_some h
      have h2 := List.find?_some h
      simp only [Bool.not_eq_true, Bool.decide_and, Bool.and_eq_true, decide_eq_true_eq] at h2
      exact ⟨h1, h2.1, h2.2⟩

theorem getDescDig_mem (ix : Index) (g : String) (desc : Desc) (h : getDescDig ix g = some desc) :
    ∃ e ∈ ix.manifests ++ ix.children, e.dig = g ∧ desc = { mt := e.mt, dig := e.dig, size := e.size } := by
  unfold getDescDig at h
  split at h
  · cases h
  · split at h
    · rename_i d hf
      simp only [Option.some.injEq] at h
      exact ⟨d, List.mem_append_left _ (List.mem_of_find?_eq_some hf), by simpa using List.find?_some hf, h.symm⟩
    · cases hc : ix.children.find? (fun x => x.dig = g) with
      | none => rw [hc] at h; cases h
      | some d =>
        rw [hc] at h
        simp only [Option.map_some, Option.some.injEq] at h
        exact ⟨d, List.mem_append_right _ (List.mem_of_find?_eq_some hc), by simpa using List.find?_some hc, h.symm⟩

theorem getDesc_dig_mem (ix : Index) (arg : String) (desc : Desc) (ht : isTag arg = false) (h : getDesc ix arg = some desc) :
    ∃ d, DigArg.parse arg = .ok d ∧ ∃ e ∈ ix.manifests ++ ix.children, e.dig = d.str ∧
      desc = { mt := e.mt, dig := e.dig, size := e.size } := by
  unfold getDesc at h
  split at h
  · cases h
  · try rw [if_neg (by simp [ht])] at h
    split at h
    · rename_i d hd
      exact ⟨d, hd, getDescDig_mem ix d.str desc h⟩
    · cases h

/-- what a repository must satisfy for reads not to fail: every listed digest parses, and every tagged index entry
    whose blob is present has a body that parses as an index with parsable child digests -/
structure ReadOK (s : State) (rp : Repo) : Prop where
  digs : ∀ e ∈ rp.index.manifests ++ rp.index.children, parses e.dig = true
  opens : ∀ e ∈ rp.index.manifests, e.ann.isNil = false → e.ann.tag ≠ "" → isIndexMT e.mt = true →
    ∀ dg content, DigArg.parse e.dig = .ok dg → rp.blob dg = some content →
      ∃ v, (s.body content).asIndex = some v ∧ ∀ c ∈ v.children, parses c.dig = true

/-- no 500 from a manifest GET on a repository that satisfies `ReadOK` -/
theorem mGet_no_5xx_of_readOK (s : State) (r arg : String) (accept : List String) (head : Bool) (rng : String)
    (hok : ReadOK s (s.repo r)) : (mGet s r arg accept head rng).2.status ≠ 500 := by
  intro h500
  obtain ⟨desc, hg, h⟩ := (mGet_500_iff s r arg accept head rng).mp h500
  -- the digest of whatever the lookup returned parses
  have hdesc : parses desc.dig = true := by
    cases ht : isTag arg with
    | true => exact hok.digs desc (List.mem_append_left _ (getDesc_tag_mem _ _ _ ht hg).1)
    | false =>
      obtain ⟨d, _, e, he, _, hde⟩ := getDesc_dig_mem _ _ _ ht hg
      rw [hde]; exact hok.digs e he
  -- opening a tagged index
  have hopen : isTag arg = true → isIndexMT desc.mt = true → ∀ dg content, DigArg.parse desc.dig = .ok dg →
      (s.repo r).blob dg = some content → ∃ v, (s.body content).asIndex = some v ∧ ∀ c ∈ v.children, parses c.dig = true := by
    intro ht hi dg content hd hb
    obtain ⟨hm, hn, htag⟩ := getDesc_tag_mem _ _ _ ht hg
    exact hok.opens desc hm hn (by rw [htag]; exact isTag_ne_empty _ ht) hi dg content hd hb
  rcases h with h | ⟨d, h, hbad⟩
  · obtain ⟨_, _, hi, ht, h5⟩ := (pickOf_serverError_iff _ _ _ _ _).mp h
    rcases h5 with h5 | ⟨dg, content, hd, hb, hv⟩
    · rw [hdesc] at h5; cases h5
    · obtain ⟨v, hv', _⟩ := hopen ht hi dg content hd hb
      rw [hv] at hv'; cases hv'
  · rcases pickOf_found _ _ _ _ _ _ h with rfl | ⟨hi, ht, dg, content, v, hd, hb, hv, hmem⟩
    · rw [hdesc] at hbad; cases hbad
    · obtain ⟨v', hv', hch⟩ := hopen ht hi dg content hd hb
      rw [hv] at hv'
      cases hv'
      rw [hch d hmem] at hbad; cases hbad
end Upd
