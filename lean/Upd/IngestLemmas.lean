import Upd.Ingest
import Upd.IngestIndex
/-!
# Lemmas about the pieces of `indexIngest`: the grouping map, `indexValidReferrer`, `referrerListDedup`, the first loop
-/
namespace Upd

/-! ## observations of an index -/

/-- tag `t` names digest `g` -/
def HasTag (ix : Index) (t g : String) : Prop := ∃ e ∈ ix.manifests, e.ann.isNil = false ∧ e.ann.tag = t ∧ e.dig = g
/-- the referrers response of subject `s` is the blob `g` -/
def HasResp (ix : Index) (s g : String) : Prop := ∃ e ∈ ix.manifests, e.ann.isNil = false ∧ e.ann.subj = s ∧ e.dig = g
/-- digest `g` is listed at top level -/
def Listed (ix : Index) (g : String) : Prop := ∃ e ∈ ix.manifests, e.dig = g
/-- no entry is a tag and a referrers response at once (an invariant of every index `types.Index.AddDesc` builds) -/
def NoBoth (l : List Desc) : Prop := ∀ e ∈ l, e.ann.isNil = false → e.ann.tag = "" ∨ e.ann.subj = ""

theorem respEntry_eq (mt dig : String) (size : Nat) (subj : String) : respEntry mt dig size subj = respDesc mt dig size subj := rfl

theorem len_ne_zero_of_tag (e : Desc) (h : e.ann.tag ≠ "") : e.ann.len ≠ 0 := by
  unfold Ann.len; simp [h]
theorem len_ne_zero_of_subj (e : Desc) (h : e.ann.subj ≠ "") : e.ann.len ≠ 0 := by
  unfold Ann.len; simp [h]

theorem isFallbackTag_ne_empty (t : String) (h : isFallbackTag t = true) : t ≠ "" := by
  intro h0; subst h0
  have : isFallbackTag "" = false := by decide
  rw [this] at h; cases h

/-! ## blob lookup -/

theorem lookup_append_some (bs cs : List (String × INode)) (g : String) (n : INode) (h : lookup bs g = some n) :
    lookup (bs ++ cs) g = some n := by
  unfold lookup at h ⊢
  cases hf : bs.find? (·.1 = g) with
  | none => simp [hf] at h
  | some kv => rw [List.find?_append, hf]; simpa [hf] using h

theorem lookup_append_none (bs cs : List (String × INode)) (g : String) (h : lookup bs g = none) :
    lookup (bs ++ cs) g = lookup cs g := by
  unfold lookup at h ⊢
  cases hf : bs.find? (·.1 = g) with
  | none => rw [List.find?_append, hf]; rfl
  | some kv => simp [hf] at h

theorem lookup_singleton (k g : String) (n : INode) : lookup [(k, n)] g = if k = g then some n else none := by
  unfold lookup
  by_cases h : k = g <;> simp [List.find?, h]

/-! ## the grouping map `addResp` / `responses` -/

/-- `d` is in the list recorded for key `S` -/
def InResp (m : List (String × List Desc)) (S : String) (d : Desc) : Prop := ∃ l, (S, l) ∈ m ∧ d ∈ l

def keys (m : List (String × List Desc)) : List String := m.map (·.1)

theorem addTo_keys (m : List (String × List Desc)) (k : String) (d : List Desc) :
    keys (addTo m k d) = if k ∈ keys m then keys m else keys m ++ [k] := by
  unfold addTo keys
  by_cases h : k ∈ m.map (·.1)
  · have hany : m.any (fun x => decide (x.1 = k)) = true := by
      simp only [List.any_eq_true, decide_eq_true_eq]
      obtain ⟨kv, hkv, hk⟩ := List.mem_map.mp h
      exact ⟨kv, hkv, hk⟩
    rw [if_pos hany, if_pos h, List.map_map]
    apply List.map_congr_left
    intro kv _
    simp only [Function.comp]
    split <;> rfl
  · have hany : ¬ m.any (fun x => decide (x.1 = k)) = true := by
      simp only [List.any_eq_true, decide_eq_true_eq, not_exists, not_and]
      intro kv hkv hk
      exact h (List.mem_map.mpr ⟨kv, hkv, hk⟩)
    rw [if_neg hany, if_neg h]
    simp

theorem addTo_keys_mem (m : List (String × List Desc)) (k : String) (d : List Desc) (k' : String) :
    k' ∈ keys (addTo m k d) ↔ k' ∈ keys m ∨ k' = k := by
  rw [addTo_keys]
  by_cases h : k ∈ keys m
  · rw [if_pos h]
    constructor
    · exact Or.inl
    · rintro (h' | h')
      · exact h'
      · subst h'; exact h
  · rw [if_neg h]; simp

theorem addTo_nodup (m : List (String × List Desc)) (k : String) (d : List Desc) (h : (keys m).Nodup) :
    (keys (addTo m k d)).Nodup := by
  rw [addTo_keys]
  by_cases hk : k ∈ keys m
  · rw [if_pos hk]; exact h
  · rw [if_neg hk]
    rw [List.nodup_append]
    refine ⟨h, by simp, ?_⟩
    intro a ha b hb
    simp only [List.mem_singleton] at hb
    subst hb
    intro hab; subst hab; exact hk ha

theorem addTo_inResp (m : List (String × List Desc)) (k : String) (ds : List Desc) (S : String) (d : Desc) :
    InResp (addTo m k ds) S d ↔ InResp m S d ∨ (S = k ∧ d ∈ ds) := by
  unfold InResp addTo
  by_cases hany : m.any (fun x => decide (x.1 = k)) = true
  · rw [if_pos hany]
    constructor
    · rintro ⟨l, hl, hd⟩
      obtain ⟨⟨a, b⟩, hkv, he⟩ := List.mem_map.mp hl
      by_cases hk : a = k
      · simp only [hk, if_true, Prod.mk.injEq] at he
        obtain ⟨h1, h2⟩ := he
        subst h1; subst h2
        rcases List.mem_append.mp hd with h | h
        · exact Or.inl ⟨b, by rw [← hk]; exact hkv, h⟩
        · exact Or.inr ⟨rfl, h⟩
      · simp only [hk, if_false, Prod.mk.injEq] at he
        obtain ⟨h1, h2⟩ := he
        subst h1; subst h2
        exact Or.inl ⟨b, hkv, hd⟩
    · rintro (⟨l, hl, hd⟩ | ⟨hS, hd⟩)
      · by_cases hk : S = k
        · refine ⟨l ++ ds, List.mem_map.mpr ⟨(S, l), hl, ?_⟩, List.mem_append_left _ hd⟩
          simp [hk]
        · refine ⟨l, List.mem_map.mpr ⟨(S, l), hl, ?_⟩, hd⟩
          simp [hk]
      · subst hS
        simp only [List.any_eq_true, decide_eq_true_eq] at hany
        obtain ⟨kv, hkv, hk⟩ := hany
        refine ⟨kv.2 ++ ds, List.mem_map.mpr ⟨kv, hkv, ?_⟩, List.mem_append_right _ hd⟩
        simp [hk]
  · rw [if_neg hany]
    constructor
    · rintro ⟨l, hl, hd⟩
      rcases List.mem_append.mp hl with h | h
      · exact Or.inl ⟨l, h, hd⟩
      · simp only [List.mem_singleton, Prod.mk.injEq] at h
        obtain ⟨h1, h2⟩ := h
        subst h1; subst h2
        exact Or.inr ⟨rfl, hd⟩
    · rintro (⟨l, hl, hd⟩ | ⟨hS, hd⟩)
      · exact ⟨l, List.mem_append_left _ hl, hd⟩
      · subst hS
        exact ⟨ds, List.mem_append_right _ (by simp), hd⟩

/-- with distinct keys the list of a key is unique -/
theorem nodup_keys_unique (m : List (String × List Desc)) (h : (keys m).Nodup) (S : String) (l l' : List Desc)
    (h1 : (S, l) ∈ m) (h2 : (S, l') ∈ m) : l = l' := by
  induction m with
  | nil => cases h1
  | cons kv rest ih =>
    unfold keys at h
    simp only [List.map_cons, List.nodup_cons] at h
    rcases List.mem_cons.mp h1 with e1 | e1 <;> rcases List.mem_cons.mp h2 with e2 | e2
    · rw [← e1] at e2; cases e2; rfl
    · exfalso; apply h.1; rw [← e1]; exact List.mem_map.mpr ⟨(S, l'), e2, rfl⟩
    · exfalso; apply h.1; rw [← e2]; exact List.mem_map.mpr ⟨(S, l), e1, rfl⟩
    · exact ih h.2 e1 e2

/-- merging one grouping map into another (`for refSubj := range refResp { addResp[…] = append(…) }`) -/
def mergeResp (m r : List (String × List Desc)) : List (String × List Desc) := r.foldl (fun m kv => addTo m kv.1 kv.2) m

theorem mergeResp_keys_mem (r : List (String × List Desc)) : ∀ (m : List (String × List Desc)) (k : String),
    k ∈ keys (mergeResp m r) ↔ k ∈ keys m ∨ k ∈ keys r := by
  induction r with
  | nil => intro m k; simp [mergeResp, keys]
  | cons kv rest ih =>
    intro m k
    unfold mergeResp
    simp only [List.foldl_cons]
    have := ih (addTo m kv.1 kv.2) k
    unfold mergeResp at this
    rw [this, addTo_keys_mem]
    unfold keys
    simp only [List.map_cons, List.mem_cons]
    constructor
    · rintro ((h | h) | h)
      · exact Or.inl h
      · exact Or.inr (Or.inl h)
      · exact Or.inr (Or.inr h)
    · rintro (h | h | h)
      · exact Or.inl (Or.inl h)
      · exact Or.inl (Or.inr h)
      · exact Or.inr h

theorem mergeResp_nodup (r : List (String × List Desc)) : ∀ (m : List (String × List Desc)), (keys m).Nodup →
    (keys (mergeResp m r)).Nodup := by
  induction r with
  | nil => intro m h; simpa [mergeResp] using h
  | cons kv rest ih =>
    intro m h
    unfold mergeResp
    simp only [List.foldl_cons]
    exact ih _ (addTo_nodup m kv.1 kv.2 h)

theorem mergeResp_inResp (r : List (String × List Desc)) (hr : (keys r).Nodup) :
    ∀ (m : List (String × List Desc)) (S : String) (d : Desc),
      InResp (mergeResp m r) S d ↔ InResp m S d ∨ InResp r S d := by
  induction r with
  | nil => intro m S d; simp [mergeResp, InResp]
  | cons kv rest ih =>
    intro m S d
    unfold keys at hr
    simp only [List.map_cons, List.nodup_cons] at hr
    unfold mergeResp
    simp only [List.foldl_cons]
    have := ih hr.2 (addTo m kv.1 kv.2) S d
    unfold mergeResp at this
    rw [this, addTo_inResp]
    unfold InResp
    constructor
    · rintro ((h | ⟨hS, hd⟩) | ⟨l, hl, hd⟩)
      · exact Or.inl h
      · exact Or.inr ⟨kv.2, by rw [hS]; exact List.mem_cons_self, hd⟩
      · exact Or.inr ⟨l, List.mem_cons_of_mem _ hl, hd⟩
    · rintro (h | ⟨l, hl, hd⟩)
      · exact Or.inl (Or.inl h)
      · rcases List.mem_cons.mp hl with e | e
        · left; right
          rw [← e]; exact ⟨rfl, hd⟩
        · exact Or.inr ⟨l, e, hd⟩

/-! ## indexValidReferrer -/

/-- the subject a present manifest names -/
def subjOf (bs : List (String × INode)) (g : String) : Option String :=
  match lookup bs g with
  | some (.man subj _ _ _ _ _ _) => if subj = "" then none else some subj
  | _ => none

theorem subjOf_ne_empty {bs : List (String × INode)} {g S : String} (h : subjOf bs g = some S) : S ≠ "" := by
  unfold subjOf at h
  split at h
  · split at h
    · cases h
    · cases h; assumption
  · cases h

theorem vrStep_none (bs : List (String × INode)) (acc : VR) (d : Desc) (h : subjOf bs d.dig = none) :
    vrStep bs acc d = { acc with valid := false } := by
  unfold vrStep
  unfold subjOf at h
  split
  · rename_i subj mtField cfg atype rann len kids hl
    rw [hl] at h
    simp only at h
    by_cases hs : subj = ""
    · simp [hs]
    · simp [hs] at h
  · rfl

theorem vrStep_some (bs : List (String × INode)) (acc : VR) (d : Desc) (S : String) (h : subjOf bs d.dig = some S) :
    ∃ rd : Desc, rd.dig = d.dig ∧ (vrStep bs acc d).resp = addTo acc.resp S [rd] ∧
      (vrStep bs acc d).subject = (if acc.subject = "" then S else acc.subject) ∧
      ((vrStep bs acc d).valid = true → acc.valid = true ∧ (acc.subject = "" ∨ acc.subject = S)) := by
  unfold vrStep
  unfold subjOf at h
  split
  · rename_i subj mtField cfg atype rann len kids hl
    rw [hl] at h
    simp only at h
    by_cases hs : subj = ""
    · simp [hs] at h
    · simp only [hs, if_false, Option.some.injEq] at h
      subst h
      simp only [hs, if_false]
      refine ⟨refDesc d mtField cfg atype rann len, rfl, by simp, by simp, ?_⟩
      intro hv
      simp only [Bool.and_eq_true, Bool.or_eq_true, decide_eq_true_eq] at hv
      exact ⟨hv.1.1, hv.1.2⟩
  · rename_i hl
    exfalso
    split at h
    · rename_i subj mtField cfg atype rann len kids hl'
      exact hl subj mtField cfg atype rann len kids hl'
    · cases h

theorem vr_fold_resp (bs : List (String × INode)) : ∀ (cur : List Desc) (acc : VR) (S m : String),
    (∃ rd, InResp (cur.foldl (vrStep bs) acc).resp S rd ∧ rd.dig = m) ↔
      (∃ rd, InResp acc.resp S rd ∧ rd.dig = m) ∨ (∃ d ∈ cur, d.dig = m ∧ subjOf bs m = some S) := by
  intro cur
  induction cur with
  | nil => intro acc S m; simp
  | cons d ds ih =>
    intro acc S m
    simp only [List.foldl_cons]
    rw [ih]
    cases hs : subjOf bs d.dig with
    | none =>
      rw [vrStep_none bs acc d hs]
      constructor
      · rintro (h | ⟨d', hd', h1, h2⟩)
        · exact Or.inl h
        · exact Or.inr ⟨d', List.mem_cons_of_mem _ hd', h1, h2⟩
      · rintro (h | ⟨d', hd', h1, h2⟩)
        · exact Or.inl h
        · rcases List.mem_cons.mp hd' with e | e
          · subst e; rw [h1] at hs; rw [hs] at h2; cases h2
          · exact Or.inr ⟨d', e, h1, h2⟩
    | some S' =>
      obtain ⟨rd0, hrd0, hresp, _, _⟩ := vrStep_some bs acc d S' hs
      rw [hresp]
      constructor
      · rintro (⟨rd, h, hm⟩ | ⟨d', hd', h1, h2⟩)
        · rcases (addTo_inResp _ _ _ _ _).mp h with h | ⟨hS, hd⟩
          · exact Or.inl ⟨rd, h, hm⟩
          · simp only [List.mem_singleton] at hd
            subst hd; subst hS
            exact Or.inr ⟨d, List.mem_cons_self, by rw [← hm, hrd0], by rw [← hm, hrd0]; exact hs⟩
        · exact Or.inr ⟨d', List.mem_cons_of_mem _ hd', h1, h2⟩
      · rintro (⟨rd, h, hm⟩ | ⟨d', hd', h1, h2⟩)
        · exact Or.inl ⟨rd, (addTo_inResp _ _ _ _ _).mpr (Or.inl h), hm⟩
        · rcases List.mem_cons.mp hd' with e | e
          · subst e
            rw [h1] at hs
            rw [hs] at h2; cases h2
            exact Or.inl ⟨rd0, (addTo_inResp _ _ _ _ _).mpr (Or.inr ⟨rfl, by simp⟩), by rw [hrd0, h1]⟩
          · exact Or.inr ⟨d', e, h1, h2⟩

theorem vr_fold_keys (bs : List (String × INode)) : ∀ (cur : List Desc) (acc : VR),
    ((keys acc.resp).Nodup → (keys (cur.foldl (vrStep bs) acc).resp).Nodup) ∧
    (∀ k ∈ keys (cur.foldl (vrStep bs) acc).resp, k ∈ keys acc.resp ∨ k ≠ "") := by
  intro cur
  induction cur with
  | nil => intro acc; exact ⟨id, fun k hk => Or.inl hk⟩
  | cons d ds ih =>
    intro acc
    simp only [List.foldl_cons]
    obtain ⟨ih1, ih2⟩ := ih (vrStep bs acc d)
    cases hs : subjOf bs d.dig with
    | none =>
      rw [vrStep_none bs acc d hs] at ih1 ih2 ⊢
      exact ⟨ih1, ih2⟩
    | some S' =>
      obtain ⟨rd0, _, hresp, _, _⟩ := vrStep_some bs acc d S' hs
      rw [hresp] at ih1 ih2
      refine ⟨fun h => ih1 (addTo_nodup _ _ _ h), ?_⟩
      intro k hk
      rcases ih2 k hk with h | h
      · rcases (addTo_keys_mem _ _ _ _).mp h with h' | h'
        · exact Or.inl h'
        · subst h'; exact Or.inr (subjOf_ne_empty hs)
      · exact Or.inr h

theorem vr_fold_valid (bs : List (String × INode)) : ∀ (cur : List Desc) (acc : VR),
    (cur.foldl (vrStep bs) acc).valid = true →
      acc.valid = true ∧ (∀ d ∈ cur, subjOf bs d.dig = some (cur.foldl (vrStep bs) acc).subject) ∧
      (acc.subject ≠ "" → (cur.foldl (vrStep bs) acc).subject = acc.subject) := by
  intro cur
  induction cur with
  | nil => intro acc h; exact ⟨h, by simp, fun _ => rfl⟩
  | cons d ds ih =>
    intro acc h
    simp only [List.foldl_cons] at h ⊢
    obtain ⟨hv, hall, hsub⟩ := ih (vrStep bs acc d) h
    cases hs : subjOf bs d.dig with
    | none =>
      rw [vrStep_none bs acc d hs] at hv
      cases hv
    | some S' =>
      obtain ⟨rd0, _, _, hsubj, hval⟩ := vrStep_some bs acc d S' hs
      obtain ⟨hacc, hor⟩ := hval hv
      have hS' : S' ≠ "" := subjOf_ne_empty hs
      have hstep : (vrStep bs acc d).subject = S' := by
        rw [hsubj]
        rcases hor with h0 | h0
        · simp [h0]
        · by_cases h1 : acc.subject = ""
          · simp [h1]
          · simp [h1, h0]
      have hfin : (ds.foldl (vrStep bs) (vrStep bs acc d)).subject = S' := by
        rw [hsub (by rw [hstep]; exact hS'), hstep]
      refine ⟨hacc, ?_, ?_⟩
      · intro d' hd'
        rcases List.mem_cons.mp hd' with e | e
        · subst e; rw [hfin]; exact hs
        · exact hall d' e
      · intro hne
        rw [hfin]
        rcases hor with h0 | h0
        · exact absurd h0 hne
        · exact h0.symm

theorem validReferrer_resp (bs : List (String × INode)) (cur : List Desc) :
    (validReferrer bs cur).resp = (cur.foldl (vrStep bs) {}).resp := by
  unfold validReferrer
  simp only
  split <;> rfl

/-- what `indexValidReferrer` returns as its map: per subject, the present manifests of the index that name it -/
theorem validReferrer_inResp (bs : List (String × INode)) (cur : List Desc) (S m : String) :
    (∃ rd, InResp (validReferrer bs cur).resp S rd ∧ rd.dig = m) ↔ (∃ d ∈ cur, d.dig = m ∧ subjOf bs m = some S) := by
  rw [validReferrer_resp, vr_fold_resp]
  constructor
  · rintro (⟨rd, ⟨l, hl, _⟩, _⟩ | h)
    · cases hl
    · exact h
  · exact Or.inr

theorem validReferrer_keys (bs : List (String × INode)) (cur : List Desc) :
    (keys (validReferrer bs cur).resp).Nodup ∧ ∀ k ∈ keys (validReferrer bs cur).resp, k ≠ "" := by
  rw [validReferrer_resp]
  obtain ⟨h1, h2⟩ := vr_fold_keys bs cur {}
  refine ⟨h1 (by simp [keys]), ?_⟩
  intro k hk
  rcases h2 k hk with h | h
  · simp [keys] at h
  · exact h

/-- a valid index lists only present manifests, all naming the returned subject -/
theorem validReferrer_valid (bs : List (String × INode)) (cur : List Desc) (h : (validReferrer bs cur).valid = true) :
    ∀ d ∈ cur, subjOf bs d.dig = some (validReferrer bs cur).subject := by
  unfold validReferrer at h ⊢
  simp only at h ⊢
  by_cases hv : (cur.foldl (vrStep bs) {}).valid = true
  · rw [if_pos hv] at h ⊢
    exact (vr_fold_valid bs cur {} hv).2.1
  · rw [if_neg hv] at h
    exact absurd h hv

/-! ## content of index blobs -/

/-- the manifests of an index blob (nothing if it is missing or not an index) -/
def content (bs : List (String × INode)) (g : String) : List Desc :=
  match getIndex bs g with
  | some (some o) => o
  | _ => []

theorem oldContent_eq (bs : List (String × INode)) (respOf : List (String × Desc)) (S : String) :
    oldContent bs respOf S = match lookupResp respOf S with
      | some r => content bs r.dig
      | none => [] := by
  unfold oldContent content
  cases lookupResp respOf S <;> rfl

theorem content_of_getIndex {bs : List (String × INode)} {g : String} {cur : List Desc}
    (h : getIndex bs g = some (some cur)) : content bs g = cur := by
  unfold content; rw [h]

theorem getIndex_congr {bs bs' : List (String × INode)} {g : String} (h : lookup bs g = lookup bs' g) :
    getIndex bs g = getIndex bs' g := by
  unfold getIndex; rw [h]

theorem content_congr {bs bs' : List (String × INode)} {g : String} (h : lookup bs g = lookup bs' g) :
    content bs g = content bs' g := by
  unfold content; rw [getIndex_congr h]

/-! ## referrerListDedup -/

theorem split_at (l : List Desc) (i : Nat) (h : i < l.length) : l = l.take i ++ l[i] :: l.drop (i + 1) := by
  rw [← List.drop_eq_getElem_cons h, List.take_append_drop]

theorem swapRemove_split (l : List Desc) (i : Nat) (h : i < l.length) :
    swapRemove l i = l.take i ++ Ixd.swapTail (l.drop (i + 1)) := by
  have hlen : (l.take i).length = i := by simp; omega
  have := Ixd.swapRemove_append (l.take i) l[i] (l.drop (i + 1))
  rw [hlen, ← split_at l i h] at this
  rw [swapRemove_eq]; exact this

theorem swapRemove_take (l : List Desc) (i : Nat) (h : i < l.length) : (swapRemove l i).take i = l.take i := by
  rw [swapRemove_split l i h]
  have hlen : (l.take i).length = i := by simp; omega
  rw [List.take_append_of_le_length (by omega)]
  rw [List.take_of_length_le (by omega)]

theorem swapRemove_mem (l : List Desc) (i : Nat) (h : i < l.length) (d : Desc) :
    d ∈ swapRemove l i ↔ d ∈ l.take i ∨ d ∈ l.drop (i + 1) := by
  rw [swapRemove_split l i h, List.mem_append, (Ixd.swapTail_perm _).mem_iff]

theorem dedupGo_digs (rl : List Desc) (i : Nat) (seen : List String) :
    (∀ g ∈ seen, ∃ d ∈ rl.take i, d.dig = g) →
    ∀ m, (∃ d ∈ dedupGo rl i seen, d.dig = m) ↔ (∃ d ∈ rl, d.dig = m) := by
  fun_induction dedupGo rl i seen with
  | case1 rl i seen h hc ih =>
    intro hinv m
    have hinv' : ∀ g ∈ seen, ∃ d ∈ (swapRemove rl i).take i, d.dig = g := by
      rw [swapRemove_take rl i h]; exact hinv
    rw [ih hinv']
    constructor
    · rintro ⟨d, hd, hm⟩
      rcases (swapRemove_mem rl i h d).mp hd with h' | h'
      · exact ⟨d, List.mem_of_mem_take h', hm⟩
      · exact ⟨d, List.mem_of_mem_drop h', hm⟩
    · rintro ⟨d, hd, hm⟩
      rw [split_at rl i h] at hd
      rcases List.mem_append.mp hd with h' | h'
      · exact ⟨d, (swapRemove_mem rl i h d).mpr (Or.inl h'), hm⟩
      · rcases List.mem_cons.mp h' with e | e
        · -- the removed element: its digest was seen, so it occurs in the untouched prefix
          have hs : rl[i].dig ∈ seen := by simpa using hc
          obtain ⟨d', hd', hg⟩ := hinv _ hs
          exact ⟨d', (swapRemove_mem rl i h d').mpr (Or.inl hd'), by rw [hg, ← e, hm]⟩
        · exact ⟨d, (swapRemove_mem rl i h d).mpr (Or.inr e), hm⟩
  | case2 rl i seen h hc ih =>
    intro hinv m
    apply ih
    intro g hg
    rw [List.take_succ_eq_append_getElem h]
    rcases List.mem_cons.mp hg with e | e
    · exact ⟨rl[i], List.mem_append_right _ (List.mem_singleton.mpr rfl), e.symm⟩
    · obtain ⟨d, hd, hdg⟩ := hinv g e
      exact ⟨d, List.mem_append_left _ hd, hdg⟩
  | case3 rl i seen h =>
    intro _ m; rfl

/-- `referrerListDedup` keeps exactly the digests of its argument -/
theorem dedup_digs (l : List Desc) (m : String) : (∃ d ∈ dedup l, d.dig = m) ↔ (∃ d ∈ l, d.dig = m) := by
  unfold dedup
  exact dedupGo_digs l 0 [] (by simp) m

/-! ## the first loop over the manifests -/

theorem pass1_fold_digestTags : ∀ (ms : List Desc) (a : P1) (T : Desc),
    T ∈ (ms.foldl p1Step a).digestTags ↔
      T ∈ a.digestTags ∨ (T ∈ ms ∧ T.mt = "ocii" ∧ T.ann.isNil = false ∧ isFallbackTag T.ann.tag = true) := by
  intro ms
  induction ms with
  | nil => intro a T; simp
  | cons e es ih =>
    intro a T
    simp only [List.foldl_cons]
    rw [ih]
    have hstep : T ∈ (p1Step a e).digestTags ↔
        T ∈ a.digestTags ∨ (T = e ∧ T.mt = "ocii" ∧ T.ann.isNil = false ∧ isFallbackTag T.ann.tag = true) := by
      unfold p1Step
      by_cases h1 : e.mt = "ocii" ∧ e.ann.isNil = false
      · by_cases h2 : isFallbackTag e.ann.tag = true
        · simp only [h1, h2, and_self, if_true]
          split <;> split <;>
          · simp only [List.mem_append, List.mem_singleton]
            constructor
            · rintro (h | h)
              · exact Or.inl h
              · subst h; exact Or.inr ⟨rfl, h1.1, h1.2, h2⟩
            · rintro (h | ⟨h, _⟩)
              · exact Or.inl h
              · exact Or.inr h
        · simp only [h1, h2, and_self, if_true, Bool.false_eq_true, if_false]
          split <;> split <;>
          · constructor
            · exact Or.inl
            · rintro (h | ⟨h, _, _, h3⟩)
              · exact h
              · subst h; exact absurd h3 h2
      · simp only [h1, if_false]
        split <;>
        · constructor
          · exact Or.inl
          · rintro (h | ⟨h, h3, h4, _⟩)
            · exact h
            · subst h; exact absurd ⟨h3, h4⟩ h1
    rw [hstep]
    simp only [List.mem_cons]
    constructor
    · rintro ((h | ⟨h, h'⟩) | ⟨h, h'⟩)
      · exact Or.inl h
      · exact Or.inr ⟨Or.inl h, h'⟩
      · exact Or.inr ⟨Or.inr h, h'⟩
    · rintro (h | ⟨h | h, h'⟩)
      · exact Or.inl (Or.inl h)
      · exact Or.inl (Or.inr ⟨h, h'⟩)
      · exact Or.inr ⟨h, h'⟩

theorem pass1_digestTags (ms : List Desc) (T : Desc) :
    T ∈ (pass1 ms).digestTags ↔ (T ∈ ms ∧ T.mt = "ocii" ∧ T.ann.isNil = false ∧ isFallbackTag T.ann.tag = true) := by
  unfold pass1
  rw [pass1_fold_digestTags]
  simp

/-- an entry that the first loop records as a referrers response -/
def isResp (e : Desc) (S : String) : Prop := e.mt = "ocii" ∧ e.ann.isNil = false ∧ e.ann.subj = S ∧ S ≠ ""

theorem p1Step_respOf (a : P1) (e : Desc) :
    (p1Step a e).respOf = if e.mt = "ocii" ∧ e.ann.isNil = false ∧ e.ann.subj ≠ "" then (e.ann.subj, e) :: a.respOf else a.respOf := by
  unfold p1Step
  by_cases h1 : e.mt = "ocii" ∧ e.ann.isNil = false
  · by_cases h3 : e.ann.subj ≠ ""
    · have : e.mt = "ocii" ∧ e.ann.isNil = false ∧ e.ann.subj ≠ "" := ⟨h1.1, h1.2, h3⟩
      simp only [h1, and_self, if_true, h3, ne_eq, not_false_eq_true, this]
      split <;> split <;> rfl
    · have : ¬ (e.mt = "ocii" ∧ e.ann.isNil = false ∧ e.ann.subj ≠ "") := fun h => h3 h.2.2
      simp only [h1, and_self, if_true, h3, if_false, this]
      split <;> split <;> rfl
  · have : ¬ (e.mt = "ocii" ∧ e.ann.isNil = false ∧ e.ann.subj ≠ "") := fun h => h1 ⟨h.1, h.2.1⟩
    simp only [h1, if_false, this]
    split <;> rfl

theorem lookupResp_cons (k : String) (d : Desc) (m : List (String × Desc)) (S : String) :
    lookupResp ((k, d) :: m) S = if k = S then some d else lookupResp m S := by
  unfold lookupResp
  by_cases h : k = S <;> simp [List.find?, h]

theorem pass1_fold_respOf : ∀ (ms : List Desc) (a : P1) (S : String),
    (∀ r, lookupResp (ms.foldl p1Step a).respOf S = some r → (r ∈ ms ∧ isResp r S) ∨ lookupResp a.respOf S = some r) ∧
    ((∃ e ∈ ms, isResp e S) → ∃ r, lookupResp (ms.foldl p1Step a).respOf S = some r) ∧
    (lookupResp a.respOf S ≠ none → lookupResp (ms.foldl p1Step a).respOf S ≠ none) := by
  intro ms
  induction ms with
  | nil =>
    intro a S
    refine ⟨fun r h => Or.inr h, ?_, fun h => h⟩
    rintro ⟨e, he, _⟩; cases he
  | cons e es ih =>
    intro a S
    simp only [List.foldl_cons]
    obtain ⟨ih1, ih2, ih3⟩ := ih (p1Step a e) S
    have hstep := p1Step_respOf a e
    refine ⟨?_, ?_, ?_⟩
    · intro r hr
      rcases ih1 r hr with ⟨h, h'⟩ | h
      · exact Or.inl ⟨List.mem_cons_of_mem _ h, h'⟩
      · rw [hstep] at h
        by_cases hc : e.mt = "ocii" ∧ e.ann.isNil = false ∧ e.ann.subj ≠ ""
        · rw [if_pos hc, lookupResp_cons] at h
          by_cases hk : e.ann.subj = S
          · rw [if_pos hk] at h
            cases h
            exact Or.inl ⟨List.mem_cons_self, hc.1, hc.2.1, hk, by rw [← hk]; exact hc.2.2⟩
          · rw [if_neg hk] at h; exact Or.inr h
        · rw [if_neg hc] at h; exact Or.inr h
    · rintro ⟨e', he', hresp⟩
      rcases List.mem_cons.mp he' with h | h
      · subst h
        have hne : lookupResp (p1Step a e').respOf S ≠ none := by
          rw [hstep]
          have hc : e'.mt = "ocii" ∧ e'.ann.isNil = false ∧ e'.ann.subj ≠ "" :=
            ⟨hresp.1, hresp.2.1, by rw [hresp.2.2.1]; exact hresp.2.2.2⟩
          rw [if_pos hc, lookupResp_cons, if_pos hresp.2.2.1]
          simp
        have := ih3 hne
        cases hl : lookupResp (es.foldl p1Step (p1Step a e')).respOf S with
        | none => exact absurd hl this
        | some r => exact ⟨r, rfl⟩
      · exact ih2 ⟨e', h, hresp⟩
    · intro hne
      apply ih3
      rw [hstep]
      split
      · rw [lookupResp_cons]
        split
        · simp
        · exact hne
      · exact hne

theorem pass1_respOf (ms : List Desc) (S : String) :
    (∀ r, lookupResp (pass1 ms).respOf S = some r → r ∈ ms ∧ isResp r S) ∧
    ((∃ e ∈ ms, isResp e S) → ∃ r, lookupResp (pass1 ms).respOf S = some r) := by
  unfold pass1
  obtain ⟨h1, h2, _⟩ := pass1_fold_respOf ms {} S
  refine ⟨?_, h2⟩
  intro r hr
  rcases h1 r hr with h | h
  · exact h
  · simp [lookupResp] at h
end Upd
