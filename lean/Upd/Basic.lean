import Upd.Index
import Upd.Route
/-! scratch pilot: blob + upload-session handlers (blob.go, mem.go) as a state machine over a line protocol -/
namespace Upd

inductive Alg | sha256 | sha384 | sha512 deriving DecidableEq, Repr, Inhabited
def Alg.name : Alg → String | .sha256 => "sha256" | .sha384 => "sha384" | .sha512 => "sha512"
def Alg.parse? : String → Option Alg
  | "sha256" => some .sha256 | "sha384" => some .sha384 | "sha512" => some .sha512 | _ => none

/-- a valid digest: algorithm + the content it is the hash of (symbolic, injective hash) -/
structure Dig where
  alg : Alg
  content : String
  deriving DecidableEq, Repr
def Dig.str (d : Dig) : String := d.alg.name ++ ":" ++ (if d.content.isEmpty then "~" else d.content)
def H (a : Alg) (bytes : String) : Dig := ⟨a, bytes⟩

/-- literal bytes of a content token: `x*40`, `~`; manifest bodies `@…` and responses `R(…)` stay symbolic -/
def expand (tok : String) : String :=
  if tok = "~" then ""
  else if tok.startsWith "@" ∨ tok.startsWith "R(" then tok
  else match tok.splitOn "*" with
    | [x, n] => match n.toNat? with
      | some k => String.join (List.replicate k x)
      | none => tok
    | _ => tok

/-- outcome of digest.Parse on a request string -/
inductive DigArg | ok (d : Dig) | bad deriving Repr
def DigArg.parse (s : String) : DigArg :=
  -- split at the FIRST ':' only (content names may contain ':')
  match s.splitOn ":" with
  | a :: c0 :: rest =>
    let c := ":".intercalate (c0 :: rest)
    match Alg.parse? a with
    | some alg => if c.isEmpty then .bad else .ok ⟨alg, expand c⟩
    | none => .bad
  | _ => .bad

structure Upload where
  key : Nat                 -- internal id (allocation order)
  alg : Alg
  expect : Option Dig
  buf : String              -- what was written
  hashed : String           -- what the running digester has seen
  deriving Repr

structure Repo where
  name : String
  blobs : List (Dig × String) := []
  uploads : List Upload := []
  index : Index := {}
  old : List Dig := []         -- blobs whose age was set beyond the grace period (everything else is recent)
  deriving Repr

/-- a manifest body as the handlers can see it after `json.Unmarshal` -/
structure Body where
  kind : String := "junk"      -- image | index | junk | obj
  mtField : String := ""
  cfg : String := ""
  cfgMt : String := ""
  layers : List String := []
  children : List Desc := []
  subj : String := ""
  atype : String := ""
  rann : String := ""
  len : Nat := 0
  deriving Repr

/-- the configuration as far as the handlers consult it (config.Config after SetDefaults) -/
structure Conf where
  store : String := "mem"        -- mem | dir | memdir
  ro : Bool := false
  push : Bool := true
  del : Bool := true
  bdel : Bool := true
  ref : Bool := true
  mlimit : Nat := 8388608
  rlimit : Nat := 4194304
  upmax : Nat := 0               -- 0 = unlimited
  -- collection policy (config.ConfigGC)
  untagged : Bool := false
  dangling : Bool := false
  withsubj : Bool := true
  emptyrepo : Bool := true
  grace : Bool := false          -- a grace period is configured (blob ages are `old` or recent)
  deriving Repr

structure State where
  conf : Conf := {}
  repos : List Repo := []
  nextKey : Nat := 1
  names : List (Nat × Nat) := []      -- internal key ↦ public session number, assigned at first appearance
  defs : List (String × Body) := []   -- manifest bodies by content name
  resps : List (String × List Desc) := []          -- referrers responses by content name
  disk : List Repo := []              -- content of the backing directory of a memory-over-directory store
  rcache : List ((String × String × String × String) × List (List Desc)) := []   -- page cache: (repo, subject, response digest, filter) ↦ pages
  deriving Repr

def State.repo (s : State) (r : String) : Repo := (s.repos.find? (·.name = r)).getD { name := r }
def State.setRepo (s : State) (rp : Repo) : State :=
  if s.repos.any (·.name = rp.name) then { s with repos := s.repos.map fun x => if x.name = rp.name then rp else x }
  else { s with repos := s.repos ++ [rp] }
def Repo.blob (rp : Repo) (d : Dig) : Option String := (rp.blobs.find? (·.1 = d)).map (·.2)
def Repo.putBlob (rp : Repo) (d : Dig) (b : String) : Repo :=
  if rp.blobs.any (·.1 = d) then { rp with blobs := rp.blobs.map fun x => if x.1 = d then (d, b) else x }
  else { rp with blobs := rp.blobs ++ [(d, b)] }
def Repo.upload (rp : Repo) (k : Nat) : Option Upload := rp.uploads.find? (·.key = k)
def Repo.setUpload (rp : Repo) (u : Upload) : Repo :=
  { rp with uploads := rp.uploads.map fun x => if x.key = u.key then u else x }
def Repo.dropUpload (rp : Repo) (k : Nat) : Repo := { rp with uploads := rp.uploads.filter (·.key ≠ k) }

/-- public name of a session, assigning the next number on first appearance -/
def State.publicName (s : State) (k : Nat) : State × Nat :=
  match s.names.find? (·.1 = k) with
  | some (_, n) => (s, n)
  | none => let n := s.names.length + 1; ({ s with names := s.names ++ [(k, n)] }, n)
def State.keyOf (s : State) (pub : Nat) : Option Nat := (s.names.find? (·.2 = pub)).map (·.1)

/-- store-level operations (mem.go) -/
def Upload.digest (u : Upload) : Dig := H u.alg u.hashed
def Upload.write (u : Upload) (p : String) : Upload := { u with buf := u.buf ++ p, hashed := u.hashed ++ p }
def Upload.changeAlg (u : Upload) (a : Alg) : Upload :=
  if a = u.alg then u else if u.buf.length > 0 then u else { u with alg := a, hashed := "" }
/-- Verify: returns the (possibly re-keyed) upload and whether it matched -/
def Upload.verify (u : Upload) (d : Dig) : Upload × Bool :=
  if u.expect.isSome ∧ u.expect ≠ some d then (u, false)      -- the session was created for another digest
  else if u.digest = d then (u, true)
  else if u.alg ≠ d.alg then
    let u' := { u with alg := d.alg, hashed := u.buf }      -- rescan
    (u', u'.digest = d)
  else (u, false)

inductive CreateRes | exists_ | session (u : Upload)

def create (s : State) (r : String) (alg : Alg) (expect : Option Dig) : State × CreateRes :=
  let rp := s.repo r
  match expect with
  | some d => if (rp.blob d).isSome then (s.setRepo rp, .exists_) else
      let u : Upload := { key := s.nextKey, alg := alg, expect := expect, buf := "", hashed := "" }
      ({ s with nextKey := s.nextKey + 1 }.setRepo { rp with uploads := rp.uploads ++ [u] }, .session u)
  | none =>
      let u : Upload := { key := s.nextKey, alg := alg, expect := none, buf := "", hashed := "" }
      ({ s with nextKey := s.nextKey + 1 }.setRepo { rp with uploads := rp.uploads ++ [u] }, .session u)

/-- Close: none = success -/
def closeUpload (s : State) (r : String) (u : Upload) : State × Bool :=
  match u.expect with
  | some e => if u.digest ≠ e then (s, false) else
      let rp := s.repo r
      (s.setRepo ((rp.putBlob u.digest u.buf).dropUpload u.key), true)
  | none =>
      let rp := s.repo r
      (s.setRepo ((rp.putBlob u.digest u.buf).dropUpload u.key), true)

structure Resp where
  status : Nat
  code : String := ""
  loc : String := ""
  range : String := ""
  dcd : String := ""
  body : String := "-"
  ct : String := ""
  subj : String := ""
  filt : String := ""
  link : String := ""
  cl : String := ""
  crange : String := ""

def Resp.line (r : Resp) : String :=
  s!"{r.status} code={r.code} loc={r.loc} range={r.range} dcd={r.dcd} body={r.body} ct={r.ct} subj={r.subj} filt={r.filt} link={r.link} cl={r.cl} crange={r.crange}"

def rangeHdr (size : Nat) : String := if size = 0 then "0--1" else s!"0-{size - 1}"

/-- request parameters; "" = absent -/
structure Q where
  mount : String := ""
  fromR : String := ""
  digest : String := ""
  algo : String := ""
  cr : String := ""        -- Content-Range: "" | "<start>-<end>" | junk
  state : String := ""     -- "" absent | "junk" | "<offset>"
  body : String := ""

def crValid (cr : String) (size : Nat) : Bool :=
  if cr.isEmpty then true else
  match cr.splitOn "-" with
  | a :: _ :: _ => if a.isEmpty then false else match a.toNat? with
      | some n => n = size
      | none => false
  | _ => false

def stateValid (st : String) (size : Nat) : Bool :=
  match st.toNat? with
  | some n => n = size
  | none => false

def sessLoc (r : String) (pub : Nat) (off : Nat) : String := s!"session:{r}:s{pub}?state={off}"
def blobLoc (r : String) (d : Dig) : String := s!"blob:{r}:{d.str}"

/-- blobUploadMount: some resp = handled; none = fall back to a normal push -/
def mount (s : State) (src tgt : String) (dstr : String) : State × Option Resp :=
  match DigArg.parse dstr with
  | .bad => (s, none)
  | .ok d =>
    let (s1, cr) := create s tgt d.alg (some d)
    match cr with
    | .exists_ => (s1, some { status := 201, loc := blobLoc tgt d })
    | .session u =>
      let s2 := s1.setRepo (s1.repo src)          -- RepoGet(src) creates the repository entry
      match (s2.repo src).blob d with
      | none => (s2.setRepo ((s2.repo tgt).dropUpload u.key), none)
      | some bytes =>
        let u' := u.write bytes
        let s3 := s2.setRepo ((s2.repo tgt).setUpload u')
        let (s4, ok) := closeUpload s3 tgt u'
        if ok then (s4, some { status := 201, loc := blobLoc tgt d }) else (s4, none)

def uPost (s : State) (r : String) (q : Q) : State × Resp :=
  let (s, handled) := if q.mount ≠ "" ∧ q.fromR ≠ "" ∧ validRepo q.fromR then mount s q.fromR r q.mount else (s, none)
  match handled with
  | some resp => (s, resp)
  | none =>
    let algo? : Option (Option Alg) := if q.algo = "" then some none else (Alg.parse? q.algo).map some
    match algo? with
    | none => (s, { status := 400, code := "DIGEST_INVALID" })
    | some algoOpt =>
      let dsrc := if q.digest ≠ "" then q.digest else q.mount
      let parsed : Option (Option Dig) :=
        if dsrc = "" then some none else match DigArg.parse dsrc with | .ok d => some (some d) | .bad => none
      match parsed with
      | none => (s, { status := 400, code := "DIGEST_INVALID" })
      | some dOpt =>
        let alg := match dOpt with | some d => d.alg | none => algoOpt.getD .sha256
        let (s1, cr) := create s r alg dOpt
        match cr, dOpt with
        | .exists_, some d => (s1, { status := 201, loc := blobLoc r d })
        | .exists_, none => (s1, { status := 500 })
        | .session u, _ =>
          if q.digest ≠ "" then
            match dOpt with
            | none => (s1, { status := 500 })
            | some d =>
              let u1 := u.write q.body
              let (u2, ok) := u1.verify d
              if !ok then (s1.setRepo ((s1.repo r).dropUpload u.key), { status := 400, code := "BLOB_UPLOAD_INVALID" })
              else
                let s2 := s1.setRepo ((s1.repo r).setUpload u2)
                let (s3, okc) := closeUpload s2 r u2
                if okc then (s3, { status := 201, loc := blobLoc r d }) else (s3, { status := 500 })
          else
            let (s2, pub) := s1.publicName u.key
            (s2, { status := 202, loc := sessLoc r pub 0 })

def withSession (s : State) (r : String) (pub : Nat) (k : State → Repo → Upload → State × Resp) : State × Resp :=
  let s := s.setRepo (s.repo r)
  match s.keyOf pub with
  | none => (s, { status := 400, code := "BLOB_UPLOAD_UNKNOWN" })
  | some key => match (s.repo r).upload key with
    | none => (s, { status := 400, code := "BLOB_UPLOAD_UNKNOWN" })
    | some u => k s (s.repo r) u

def uPatch (s : State) (r : String) (pub : Nat) (q : Q) : State × Resp :=
  withSession s r pub fun s rp u =>
    if !crValid q.cr u.buf.length then (s, { status := 416, code := "SIZE_INVALID", range := rangeHdr u.buf.length })
    else if !stateValid q.state u.buf.length then (s, { status := 400, code := "BLOB_UPLOAD_INVALID" })
    else
      let u' := u.write q.body
      (s.setRepo (rp.setUpload u'), { status := 202, loc := sessLoc r pub u'.buf.length, range := rangeHdr u'.buf.length })

def uPut (s : State) (r : String) (pub : Nat) (q : Q) : State × Resp :=
  withSession s r pub fun s rp u =>
    if !crValid q.cr u.buf.length then (s, { status := 416, code := "SIZE_INVALID", range := rangeHdr u.buf.length })
    else match DigArg.parse q.digest with
      | .bad => (s, { status := 400, code := "DIGEST_INVALID" })
      | .ok d =>
        let u0 := if u.buf.length = 0 ∧ d.alg ≠ u.digest.alg then u.changeAlg d.alg else u
        let s0 := s.setRepo (rp.setUpload u0)
        if !stateValid q.state u0.buf.length then (s0, { status := 400, code := "BLOB_UPLOAD_INVALID" })
        else
          let u1 := u0.write q.body
          let (u2, ok) := u1.verify d
          if !ok then (s0.setRepo ((s0.repo r).dropUpload u.key), { status := 400, code := "BLOB_UPLOAD_INVALID" })
          else
            let s1 := s0.setRepo ((s0.repo r).setUpload u2)
            let (s2, okc) := closeUpload s1 r u2
            if okc then (s2, { status := 201, loc := blobLoc r d }) else (s2, { status := 500 })

def uGet (s : State) (r : String) (pub : Nat) : State × Resp :=
  withSession s r pub fun s _ u => (s, { status := 204, loc := sessLoc r pub u.buf.length, range := rangeHdr u.buf.length })

def uDel (s : State) (r : String) (pub : Nat) : State × Resp :=
  withSession s r pub fun s rp u => (s.setRepo (rp.dropUpload u.key), { status := 202 })

/-! ### sizes: marshalled JSON lengths (inputs of referrers paging and of Content-Length) -/

/-- length of the real media type string behind a token (anything else is sent literally) -/
def mtLen (tok : String) : Nat :=
  match tok with
  | "ocim" => 42 | "ocii" => 39 | "dockm" => 52 | "dockl" => 57 | "cfg" => 40 | "dcfg" => 46
  | "empty" => 33 | "lay" => 38 | "other" => 19 | "octet" => 24 | "json" => 16
  | t => t.length

/-- length of a digest string, by the algorithm prefix of its token -/
def digLen (tok : String) : Nat :=
  if tok.startsWith "sha256:" then 71 else if tok.startsWith "sha384:" then 103 else if tok.startsWith "sha512:" then 135 else tok.length

def digits (n : Nat) : Nat := (toString n).length

/-- `{"k":"v",…}` for the canonical annotation string `k=v;k2=v2` -/
def annJsonLen (rann : String) : Nat :=
  let pairs := (rann.splitOn ";").filter (· ≠ "")
  2 + (pairs.map fun p => p.length + 4).sum + (pairs.length - 1)

/-- marshalled length of a descriptor of a referrers response: mediaType, digest, size, annotations?, artifactType? -/
def descLen (d : Desc) : Nat :=
  14 + mtLen d.mt + 12 + digLen d.dig + 9 + digits d.size
    + (if d.rann ≠ "" then 15 + annJsonLen d.rann else 0)
    + (if d.atype ≠ "" then 17 + mtLen d.atype + 1 else 0) + 1

/-- marshalled length of a referrers response (an OCI index with only schemaVersion, mediaType, manifests) -/
def respSize (ds : List Desc) : Nat := 88 + (ds.map descLen).sum + (ds.length - 1)

/-- name of a content on the wire protocol -/
def cname (c : String) : String := if c = "" then "~" else c

def contentLen (s : State) (c : String) : Nat :=
  if c.startsWith "@" then
    match s.defs.find? (·.1 = c) with
    | some (_, b) => b.len
    | none => c.length
  else if c.startsWith "R(" then
    match s.resps.find? (·.1 = c) with
    | some (_, ds) => respSize ds
    | none =>
      -- a document of this shape that only a client has pushed (a "twin" of a response the registry has not built here)
      match s.defs.find? (·.1 = c) with
      | some (_, b) => b.len
      | none => c.length
  else c.utf8ByteSize

/-! ### byte ranges (`http.ServeContent`, single range) -/
inductive RangeRes | full | part (lo hi : Nat) | unsat
  deriving Repr, DecidableEq

/-- `parseRange` of net/http for the forms `a-b`, `a-`, `-n` -/
def parseRange (spec : String) (size : Nat) : RangeRes :=
  if spec = "" then .full else
  match spec.splitOn "-" with
  | [a, b] =>
    if a = "" then
      match b.toNat? with
      | none => .unsat
      | some n => let n := min n size; if size = 0 then .part 0 0 else .part (size - n) (size - 1)
    else match a.toNat? with
      | none => .unsat
      | some lo =>
        if lo ≥ size then (if size = 0 then .full else .unsat)
        else if b = "" then .part lo (size - 1)
        else match b.toNat? with
          | none => .unsat
          | some hi => if hi < lo then .unsat else .part lo (min hi (size - 1))
  | _ => .unsat

/-- serve a content with status, Content-Length, Content-Range and body token -/
def serve (s : State) (content : String) (rng : String) (head : Bool) (dcd ct : String) : Resp :=
  let size := contentLen s content
  match parseRange rng size with
  | .full => { status := 200, dcd := dcd, ct := ct, cl := toString size, body := if head then "-" else "=" ++ cname content }
  | .unsat => { status := 416, dcd := dcd }
  | .part lo hi =>
    if size = 0 then { status := 206, dcd := dcd, ct := ct, cl := "0", crange := "bytes0--1/0", body := if head then "-" else "=" ++ cname content ++ "[0--1]" }
    else { status := 206, dcd := dcd, ct := ct, cl := toString (hi - lo + 1), crange := s!"bytes{lo}-{hi}/{size}",
           body := if head then "-" else "=" ++ cname content ++ s!"[{lo}-{hi}]" }

def bGet (s : State) (r : String) (arg : String) (head : Bool) (rng : String := "") : State × Resp :=
  match DigArg.parse arg with
  | .bad => (s, { status := 400, code := "DIGEST_INVALID" })
  | .ok d =>
    let s := s.setRepo (s.repo r)
    match (s.repo r).blob d with
    | none => (s, { status := 404, code := "BLOB_UNKNOWN" })
    | some b => (s, serve s b rng head d.str "octet")

def bDel (s : State) (r : String) (arg : String) : State × Resp :=
  match DigArg.parse arg with
  | .bad => (s, { status := 400, code := "DIGEST_INVALID" })
  | .ok d =>
    let s := s.setRepo (s.repo r)
    let rp := s.repo r
    match rp.blob d with
    | none => (s, { status := 404, code := "BLOB_UNKNOWN" })
    | some _ => (s.setRepo { rp with blobs := rp.blobs.filter (·.1 ≠ d), old := rp.old.filter (· ≠ d) }, { status := 202 })
end Upd
