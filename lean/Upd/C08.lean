import Upd.Basic
/-! scratch: upload sessions are strictly sequential (C08) on the pilot model: the five outcomes of a PATCH -/
namespace Upd

section patch
variable (s : State) (r : String) (pub : Nat) (q : Q)

theorem uPatch_unknown (hk : (s.setRepo (s.repo r)).keyOf pub = none) :
    uPatch s r pub q = (s.setRepo (s.repo r), { status := 400, code := "BLOB_UPLOAD_UNKNOWN" }) := by
  unfold uPatch withSession; simp [hk]

/-- a session id of another repository is unknown here, and nothing changes -/
theorem uPatch_other_repo (key : Nat) (hk : (s.setRepo (s.repo r)).keyOf pub = some key)
    (hu : ((s.setRepo (s.repo r)).repo r).upload key = none) :
    uPatch s r pub q = (s.setRepo (s.repo r), { status := 400, code := "BLOB_UPLOAD_UNKNOWN" }) := by
  unfold uPatch withSession; simp [hk, hu]

variable (key : Nat) (u : Upload)
  (hk : (s.setRepo (s.repo r)).keyOf pub = some key) (hu : ((s.setRepo (s.repo r)).repo r).upload key = some u)
include hk hu

/-- a chunk whose Content-Range start differs from the bytes received is refused and the session is not altered -/
theorem uPatch_bad_range (h1 : crValid q.cr u.buf.length = false) :
    uPatch s r pub q = (s.setRepo (s.repo r), { status := 416, code := "SIZE_INVALID", range := rangeHdr u.buf.length }) := by
  unfold uPatch withSession; simp [hk, hu, h1]

/-- … likewise a state token that differs -/
theorem uPatch_bad_state (h1 : crValid q.cr u.buf.length = true) (h2 : stateValid q.state u.buf.length = false) :
    uPatch s r pub q = (s.setRepo (s.repo r), { status := 400, code := "BLOB_UPLOAD_INVALID" }) := by
  unfold uPatch withSession; simp [hk, hu, h1, h2]

/-- an in-order chunk is appended, and the answer reports the new size -/
theorem uPatch_accept (h1 : crValid q.cr u.buf.length = true) (h2 : stateValid q.state u.buf.length = true) :
    uPatch s r pub q =
      ((s.setRepo (s.repo r)).setRepo (((s.setRepo (s.repo r)).repo r).setUpload (u.write q.body)),
       { status := 202, loc := sessLoc r pub (u.buf ++ q.body).length, range := rangeHdr (u.buf ++ q.body).length }) := by
  unfold uPatch withSession; simp [hk, hu, h1, h2, Upload.write]

/-- a status query reports exactly the number of bytes received -/
theorem uGet_reports :
    uGet s r pub = (s.setRepo (s.repo r), { status := 204, loc := sessLoc r pub u.buf.length, range := rangeHdr u.buf.length }) := by
  unfold uGet withSession; simp [hk, hu]
end patch

/-- the state token check is an equality with the received byte count -/
theorem stateValid_iff (st : String) (n : Nat) : stateValid st n = true ↔ st.toNat? = some n := by
  unfold stateValid
  cases st.toNat? with
  | none => simp
  | some m => simp
end Upd
