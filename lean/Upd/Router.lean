import Upd.Server
/-! `ServeHTTP` from the raw request line: `path.Clean`, `matchV2` and the if/else-if chain of olareg.go:188-243,
    for requests without query, headers or body (the `RAW` lines of the protocol). -/
namespace Upd

/-- `path.Clean("/" + p)`, trimmed of slashes and split: the path elements `ServeHTTP` works with.
    The root is the single empty element, as `strings.Split("", "/")` gives. -/
def cleanEls (path : String) : List String :=
  let segs := path.splitOn "/"
  let stack := segs.foldl (fun (st : List String) seg =>
    if seg = "" ∨ seg = "." then st
    else if seg = ".." then st.dropLast
    else st ++ [seg]) []
  if stack.isEmpty then [""] else stack

/-- `matchV2(pathEl, "...", fixed…)`: the repository is everything between `v2` and the last `fixed.length + stars`
    elements.  `tailPat` is the pattern after "...": `some p` a literal, `none` the wildcard `*`. -/
def matchV2 (els : List String) (tailPat : List (Option String)) : Option (String × List String) :=
  match els with
  | "v2" :: rest =>
    if rest.length < tailPat.length + 1 then none else
    let repoEls := rest.take (rest.length - tailPat.length)
    let tail := rest.drop (rest.length - tailPat.length)
    let okLit := (tail.zip tailPat).all fun (e, p) => match p with | some lit => e = lit | none => true
    let repo := "/".intercalate repoEls
    if okLit ∧ validRepo repo then some (repo, (tail.zip tailPat).filterMap fun (e, p) => match p with | none => some e | some _ => none)
    else none
  | _ => none

def isRead (m : String) : Bool := m = "GET" ∨ m = "HEAD"

/-- the request a raw line (method, path) stands for, or the status the router answers itself -/
def routeRaw (conf : Conf) (method path : String) : Req ⊕ Nat :=
  let els := cleanEls path
  if els = ["v2"] ∧ isRead method then .inr 200
  else match matchV2 els [some "manifests", none] with
  | some (repo, [ref]) =>
    if isRead method then .inl (.mGet repo ref [] (method = "HEAD") "")
    else if method = "PUT" ∧ conf.push then .inl (.mPut repo ref "" "" "" true)
    else if method = "DELETE" ∧ conf.del then .inl (.mDel repo ref)
    else .inr 405
  | _ =>
  match matchV2 els [some "blobs", none] with
  | some (repo, [arg]) =>
    if isRead method then .inl (.bGet repo arg (method = "HEAD") "")
    else if method = "DELETE" ∧ conf.del ∧ conf.bdel then .inl (.bDel repo arg)
    else if arg = "uploads" ∧ method = "POST" ∧ conf.push then .inl (.uPost repo {})
    else .inr 405
  | _ =>
  match (if conf.ref then matchV2 els [some "referrers", none] else none) with
  | some (repo, [arg]) =>
    if isRead method then .inl (.refs repo arg "" "" "") else .inr 405
  | _ =>
  match (if isRead method then matchV2 els [some "tags", some "list"] else none) with
  | some (repo, _) => .inl (.tags repo "" "")
  | none =>
  match (if conf.push then matchV2 els [some "blobs", some "uploads", none] else none) with
  | some (repo, [_]) =>
    -- the session id of a raw line is never a known one
    if method = "PATCH" then .inl (.uPatch repo 0 {})
    else if method = "PUT" then .inl (.uPut repo 0 {})
    else if method = "GET" then .inl (.uGet repo 0)
    else if method = "DELETE" then .inl (.uDel repo 0)
    else .inr 405
  | _ => .inr 404

/-- answer to a raw line: status and error code -/
def stepRaw (s : State) (method path : String) : State × Resp :=
  match routeRaw s.conf method path with
  | .inr st => (s, { status := st })
  | .inl q => step s q
end Upd
