import Fs.Basic
import Fs.Store
import Fs.Recover
import Fs.Request
import Fs.Proofs
