import Ixd.RmProofs
/-! scratch: AddDesc with a tag keeps "a tag names one digest" and makes the tag name the pushed digest (C03, LWW at digest level) -/
namespace Ixd

/-- entry `e` carries tag `t` -/
def hasTag (t : Nat) (e : Desc) : Prop := e.ann.isNil = false ∧ e.ann.tag = t

/-- J: every tag names at most one digest (true of the unchanged code; weaker than "listed once") -/
def TagFun (l : List Desc) : Prop := ∀ t, t ≠ 0 → ∀ e1 ∈ l, ∀ e2 ∈ l, hasTag t e1 → hasTag t e2 → e1.dig = e2.dig

/-- `e` makes the first loop of AddDesc(d with tag t) act -/
def trig (d : Desc) (t : Nat) (e : Desc) : Prop := e.dig ≠ d.dig ∧ hasTag t e

/-- every survivor of a tag removal is an original entry, possibly with tag `t` cleared: tags only disappear -/
theorem revSpec_origin (d : Desc) (t subj : Nat) (hd : d.dig ≠ 0) (ht : t ≠ 0) :
    ∀ (l : List Desc) (found : Bool), ∀ e' ∈ (revSpec (rmMainStep d t subj) l found).2,
      ∃ e ∈ l, e' = e ∨ (e' = { e with ann := { e.ann with tag := 0 } } ∧ e.ann.tag = t) := by
  intro l
  induction l with
  | nil => intro found e he; simp [revSpec] at he
  | cons x xs ih =>
    intro found e' he
    have lift : (∃ e ∈ xs, e' = e ∨ (e' = { e with ann := { e.ann with tag := 0 } } ∧ e.ann.tag = t)) →
        ∃ e ∈ x :: xs, e' = e ∨ (e' = { e with ann := { e.ann with tag := 0 } } ∧ e.ann.tag = t) :=
      fun ⟨e, h1, h2⟩ => ⟨e, List.mem_cons_of_mem _ h1, h2⟩
    by_cases hx : x.dig = d.dig
    · by_cases h1 : found = true ∧ (x.ann.len = 0 ∨ x.ann.tag = t)
      · obtain ⟨hf, h1'⟩ := h1
        subst hf
        rw [revSpec_cons_drop _ xs (step_drop d t subj hd ht x hx h1')] at he
        exact lift (ih _ e' he)
      · by_cases h2 : ¬ x.ann.isNil = true ∧ x.ann.tag = t
        · rw [revSpec_cons_set _ xs (step_set d t subj hd ht found x hx h1 h2)] at he
          rcases List.mem_cons.mp he with rfl | he'
          · exact ⟨x, List.mem_cons_self, Or.inr ⟨rfl, h2.2⟩⟩
          · exact lift (ih _ e' he')
        · rw [revSpec_cons_keep _ xs (step_keep d t subj hd ht found x hx h1 h2)] at he
          rcases List.mem_cons.mp he with rfl | he'
          · exact ⟨e', List.mem_cons_self, Or.inl rfl⟩
          · exact lift (ih _ e' he')
    · rw [revSpec_cons_keep _ xs (step_other d t subj hd found x hx)] at he
      rcases List.mem_cons.mp he with rfl | he'
      · exact ⟨e', List.mem_cons_self, Or.inl rfl⟩
      · exact lift (ih _ e' he')

/-- the descriptor AddDesc hands to RmDesc for an entry `e` that holds the tag -/
def untagArg (e : Desc) (t : Nat) : Desc := { mt := e.mt, dig := e.dig, size := e.size, ann := { isNil := false, tag := t } }

theorem rmDesc_origin (ix : Index) (e : Desc) (t : Nat) (hd : e.dig ≠ 0) (ht : t ≠ 0) :
    ∀ e' ∈ (rmDesc ix (untagArg e t)).manifests,
      ∃ o ∈ ix.manifests, e' = o ∨ (e' = { o with ann := { o.ann with tag := 0 } } ∧ o.ann.tag = t) := by
  intro e' he'
  have hperm : (rmDesc ix (untagArg e t)).manifests.Perm
      (revSpec (rmMainStep (untagArg e t) t 0) ix.manifests.reverse false).2 := by
    unfold rmDesc untagArg
    simp only [Bool.false_eq_true, if_false]
    exact (descLoop_perm _ false ix.manifests).2
  obtain ⟨o, ho, h⟩ := revSpec_origin (untagArg e t) t 0 hd ht _ false e' (hperm.mem_iff.mp he')
  exact ⟨o, by simpa using ho, h⟩

/-- after untagging the holder of `t`, nobody else can trigger: all holders of `t` had the holder's digest (J) -/
theorem no_trig_after (ix : Index) (d e : Desc) (t : Nat) (hJ : TagFun ix.manifests) (he : e ∈ ix.manifests)
    (hte : hasTag t e) (hd : e.dig ≠ 0) (ht : t ≠ 0) :
    ∀ e' ∈ (rmDesc ix (untagArg e t)).manifests, ¬ trig d t e' := by
  intro e' he' ⟨_, htag⟩
  -- e' holds t, so it is an unmodified original holder of t, hence has e's digest; but RmDesc left no holder of t on that digest
  obtain ⟨o, ho, h⟩ := rmDesc_origin ix e t hd ht e' he'
  rcases h with rfl | ⟨rfl, _⟩
  · have hdig : e'.dig = e.dig := hJ t ht e' ho e he htag hte
    have := (rm_tag ix (untagArg e t) hd rfl ht).1 e' he'
    exact this ⟨hdig, htag.1, htag.2⟩
  · exact ht htag.2.symm

/-- Lemma A: if nothing triggers, the first loop of AddDesc does nothing -/
theorem addUntagLoop_id (d : Desc) (t : Nat) :
    ∀ (mi : Nat) (ix : Index), (∀ e ∈ ix.manifests, ¬ trig d t e) → addUntagLoop d t 0 mi ix = ix := by
  intro mi
  induction mi with
  | zero => intro ix _; simp [addUntagLoop]
  | succ mi ih =>
    intro ix h
    unfold addUntagLoop
    cases hg : ix.manifests[mi]? with
    | none => simp only []; exact ih ix h
    | some e =>
      simp only []
      have hmem : e ∈ ix.manifests := List.mem_of_getElem? hg
      have hnt := h e hmem
      by_cases hc : e.dig ≠ d.dig ∧ ¬ e.ann.isNil = true
      · have : ¬ (t ≠ 0 ∧ e.ann.tag = t) := by
          intro ⟨_, htag⟩
          exact hnt ⟨hc.1, by simpa using hc.2, htag⟩
        simp only [hc, this, if_true, if_false, ne_eq, not_true_eq_false, false_and]
        exact ih ix h
      · simp only [hc, if_false]
        exact ih ix h
end Ixd

namespace Ixd

def NoEmptyDig (l : List Desc) : Prop := ∀ e ∈ l, e.dig ≠ 0

/-- Lemma B: run from any `mi` such that nothing at an index ≥ mi triggers, the loop ends with no trigger at all -/
theorem addUntagLoop_clears (d : Desc) (t : Nat) (ht : t ≠ 0) :
    ∀ (mi : Nat) (ix : Index), TagFun ix.manifests → NoEmptyDig ix.manifests →
      (∀ j e, mi ≤ j → ix.manifests[j]? = some e → ¬ trig d t e) →
      ∀ e ∈ (addUntagLoop d t 0 mi ix).manifests, ¬ trig d t e := by
  intro mi
  induction mi with
  | zero =>
    intro ix _ _ h e he
    simp only [addUntagLoop] at he
    obtain ⟨j, hj⟩ := List.getElem?_of_mem he
    exact h j e (Nat.zero_le _) hj
  | succ mi ih =>
    intro ix hJ hD h
    unfold addUntagLoop
    cases hg : ix.manifests[mi]? with
    | none =>
      simp only []
      apply ih ix hJ hD
      intro j e hj hje
      rcases Nat.lt_or_ge mi j with hlt | hge
      · exact h j e hlt hje
      · have : j = mi := by omega
        subst this; rw [hg] at hje; cases hje
    | some x =>
      simp only []
      have hmem : x ∈ ix.manifests := List.mem_of_getElem? hg
      by_cases hc : x.dig ≠ d.dig ∧ ¬ x.ann.isNil = true
      · by_cases htag : t ≠ 0 ∧ x.ann.tag = t
        · -- x triggers: untag its digest, then nothing triggers any more and the rest of the loop is the identity
          simp only [hc, htag, if_true, ne_eq, not_false_eq_true, and_self]
          have hx : hasTag t x := ⟨by simpa using hc.2, htag.2⟩
          have hnone := no_trig_after ix d x t hJ hmem hx (hD x hmem) ht
          have hid := addUntagLoop_id d t
            (if mi > (rmDesc ix (untagArg x t)).manifests.length then (rmDesc ix (untagArg x t)).manifests.length else mi)
            (rmDesc ix (untagArg x t)) hnone
          unfold untagArg at hid hnone
          rw [hid]
          exact hnone
        · simp only [hc, htag, if_true, if_false, ne_eq, not_true_eq_false, false_and]
          apply ih ix hJ hD
          intro j e hj hje
          rcases Nat.lt_or_ge mi j with hlt | hge
          · exact h j e hlt hje
          · have : j = mi := by omega
            subst this; rw [hg] at hje; cases hje
            intro ⟨_, hh⟩
            exact htag ⟨ht, hh.2⟩
      · simp only [hc, if_false]
        apply ih ix hJ hD
        intro j e hj hje
        rcases Nat.lt_or_ge mi j with hlt | hge
        · exact h j e hlt hje
        · have : j = mi := by omega
          subst this; rw [hg] at hje; cases hje
          intro ⟨h1, hh⟩
          exact hc ⟨h1, by simp [hh.1]⟩

/-- whole-list form -/
theorem addUntagLoop_no_trig (d : Desc) (t : Nat) (ht : t ≠ 0) (ix : Index)
    (hJ : TagFun ix.manifests) (hD : NoEmptyDig ix.manifests) :
    ∀ e ∈ (addUntagLoop d t 0 ix.manifests.length ix).manifests, ¬ trig d t e := by
  apply addUntagLoop_clears d t ht _ ix hJ hD
  intro j e hj hje
  have := List.getElem?_eq_none (l := ix.manifests) (i := j) hj
  rw [this] at hje; cases hje
end Ixd

namespace Ixd

/-- the first loop either does nothing or is exactly one tag removal -/
theorem addUntagLoop_cases (d : Desc) (t : Nat) (ht : t ≠ 0) :
    ∀ (mi : Nat) (ix : Index), TagFun ix.manifests → NoEmptyDig ix.manifests →
      addUntagLoop d t 0 mi ix = ix ∨
      ∃ x ∈ ix.manifests, hasTag t x ∧ x.dig ≠ d.dig ∧ addUntagLoop d t 0 mi ix = rmDesc ix (untagArg x t) := by
  intro mi
  induction mi with
  | zero => intro ix _ _; left; simp [addUntagLoop]
  | succ mi ih =>
    intro ix hJ hD
    unfold addUntagLoop
    cases hg : ix.manifests[mi]? with
    | none => simp only []; exact ih ix hJ hD
    | some x =>
      simp only []
      have hmem : x ∈ ix.manifests := List.mem_of_getElem? hg
      by_cases hc : x.dig ≠ d.dig ∧ ¬ x.ann.isNil = true
      · by_cases htag : t ≠ 0 ∧ x.ann.tag = t
        · right
          simp only [hc, htag, if_true, ne_eq, not_false_eq_true, and_self]
          have hx : hasTag t x := ⟨by simpa using hc.2, htag.2⟩
          have hnone := no_trig_after ix d x t hJ hmem hx (hD x hmem) ht
          have hid := addUntagLoop_id d t
            (if mi > (rmDesc ix (untagArg x t)).manifests.length then (rmDesc ix (untagArg x t)).manifests.length else mi)
            (rmDesc ix (untagArg x t)) hnone
          refine ⟨x, hmem, hx, hc.1, ?_⟩
          unfold untagArg at hid ⊢
          exact hid
        · simp only [hc, htag, if_true, if_false, ne_eq, not_true_eq_false, false_and]
          exact ih ix hJ hD
      · simp only [hc, if_false]
        exact ih ix hJ hD

/-- entries after the first loop are originals, possibly with tag `t` cleared -/
theorem addUntagLoop_origin (d : Desc) (t : Nat) (ht : t ≠ 0) (ix : Index)
    (hJ : TagFun ix.manifests) (hD : NoEmptyDig ix.manifests) :
    ∀ e' ∈ (addUntagLoop d t 0 ix.manifests.length ix).manifests,
      ∃ o ∈ ix.manifests, e' = o ∨ (e' = { o with ann := { o.ann with tag := 0 } } ∧ o.ann.tag = t) := by
  intro e' he'
  rcases addUntagLoop_cases d t ht ix.manifests.length ix hJ hD with h | ⟨x, hx, _, _, h⟩
  · rw [h] at he'; exact ⟨e', he', Or.inl rfl⟩
  · rw [h] at he'; exact rmDesc_origin ix x t (hD x hx) ht e' he'

theorem findIdx_spec (p : Desc → Bool) : ∀ (l : List Desc) (i k : Nat), findIdx p l i = some k → i ≤ k ∧ k - i < l.length := by
  intro l
  induction l with
  | nil => intro i k h; simp [findIdx] at h
  | cons x xs ih =>
    intro i k h
    unfold findIdx at h
    split at h
    · cases h; simp
    · obtain ⟨h1, h2⟩ := ih (i+1) k h
      constructor
      · omega
      · simp only [List.length_cons]; omega

def dropChild (ix1 : Index) (g : Nat) : Index :=
  match findIdx (fun c => c.dig = g) ix1.children 0 with
  | some ci => { ix1 with children := swapRemove ix1.children ci }
  | none => ix1

theorem dropChild_manifests (ix1 : Index) (g : Nat) : (dropChild ix1 g).manifests = ix1.manifests := by
  unfold dropChild; split <;> rfl

theorem placeDesc_shape (l : List Desc) (d : Desc) (t s : Nat) :
    (∃ mi, mi < l.length ∧ placeDesc l d t s = l.set mi d) ∨ placeDesc l d t s = l ++ [d] := by
  unfold placeDesc
  split
  · rename_i mi hfi
    exact Or.inl ⟨mi, by simpa using (findIdx_spec _ _ 0 mi hfi).2, rfl⟩
  · split
    · rename_i mi hfi
      exact Or.inl ⟨mi, by simpa using (findIdx_spec _ _ 0 mi hfi).2, rfl⟩
    · exact Or.inr rfl

/-- AddDesc for a descriptor that carries only a tag, without the children option, spelled out -/
theorem addDesc_tagged (ix : Index) (d : Desc) (t : Nat) (ht : t ≠ 0) (hd : d.ann = { isNil := false, tag := t }) :
    addDesc ix d = { (dropChild (addUntagLoop d t 0 ix.manifests.length ix) d.dig) with
      manifests := placeDesc (dropChild (addUntagLoop d t 0 ix.manifests.length ix) d.dig).manifests d t 0 } := by
  unfold addDesc dropChild
  simp [hd, ht, moveChildren]
  split <;> simp_all
end Ixd

namespace Ixd
/-- C03 at digest level, for the unchanged code: pushing `d` under tag `t` makes `t` name `d.dig` and nothing else,
    and keeps "every tag names one digest". (`d` carries only the tag; no children option.) -/
theorem addDesc_tag (ix : Index) (d : Desc) (t : Nat) (ht : t ≠ 0)
    (hd : d.ann = { isNil := false, tag := t }) (hd0 : d.dig ≠ 0)
    (hJ : TagFun ix.manifests) (hD : NoEmptyDig ix.manifests) :
    (∀ e ∈ (addDesc ix d).manifests, hasTag t e → e.dig = d.dig) ∧
    (∃ e ∈ (addDesc ix d).manifests, hasTag t e ∧ e.dig = d.dig) ∧
    TagFun (addDesc ix d).manifests ∧ NoEmptyDig (addDesc ix d).manifests := by
  have hnt := addUntagLoop_no_trig d t ht ix hJ hD
  have hor := addUntagLoop_origin d t ht ix hJ hD
  have hdt : hasTag t d := by simp [hasTag, hd]
  -- shape of the result: the list after the first loop with one entry replaced by d, or d appended
  have hshape : d ∈ (addDesc ix d).manifests ∧
      ∀ e ∈ (addDesc ix d).manifests, e = d ∨ e ∈ (addUntagLoop d t 0 ix.manifests.length ix).manifests := by
    rw [addDesc_tagged ix d t ht hd]
    simp only [dropChild_manifests]
    rcases placeDesc_shape (addUntagLoop d t 0 ix.manifests.length ix).manifests d t 0 with ⟨mi, hlt, heq⟩ | heq
    · rw [heq]
      constructor
      · exact List.mem_set hlt d
      · intro e he
        rcases List.mem_or_eq_of_mem_set he with h | h
        · exact Or.inr h
        · exact Or.inl h
    · rw [heq]
      constructor
      · simp
      · intro e he
        simp only [List.mem_append, List.mem_singleton] at he
        rcases he with h | h
        · exact Or.inr h
        · exact Or.inl h
  obtain ⟨hdmem, hall⟩ := hshape
  have h1 : ∀ e ∈ (addDesc ix d).manifests, hasTag t e → e.dig = d.dig := by
    intro e he hte
    rcases hall e he with rfl | h
    · rfl
    · apply Classical.byContradiction
      intro hne
      exact hnt e h ⟨hne, hte⟩
  refine ⟨h1, ⟨d, hdmem, hdt, rfl⟩, ?_, ?_⟩
  · intro t' ht' e1 he1 e2 he2 h1t h2t
    by_cases htt : t' = t
    · subst htt
      rw [h1 e1 he1 h1t, h1 e2 he2 h2t]
    · have orig : ∀ e ∈ (addDesc ix d).manifests, hasTag t' e → e ∈ ix.manifests := by
        intro e he hte
        rcases hall e he with rfl | h
        · exfalso
          have := hte.2
          rw [hd] at this
          exact htt this.symm
        · obtain ⟨o, ho, hcase⟩ := hor e h
          rcases hcase with rfl | ⟨rfl, _⟩
          · exact ho
          · exfalso; exact ht' hte.2.symm
      exact hJ t' ht' e1 (orig e1 he1 h1t) e2 (orig e2 he2 h2t) h1t h2t
  · intro e he
    rcases hall e he with rfl | h
    · exact hd0
    · obtain ⟨o, ho, hcase⟩ := hor e h
      rcases hcase with rfl | ⟨rfl, _⟩
      · exact hD _ ho
      · exact hD o ho
end Ixd
