import Ixd.Basic
/-! scratch: transcription of repoGarbageCollect (internal/store/store.go:391-528) -/
namespace Ixd

inductive Node
  | raw
  | img (cfg : Nat) (layers : List Nat)
  | idx (children : List (Nat × Nat))      -- (mt, dig)
  deriving Repr

structure Blob where
  dig : Nat
  node : Node
  recent : Bool
  deriving Repr

structure Policy where
  untagged : Bool
  dangling : Bool
  withSubj : Bool
  grace : Bool          -- GracePeriod >= 0
  deriving Repr

def getBlob (bs : List Blob) (d : Nat) : Option Blob := if d = 0 then none else bs.find? (·.dig = d)
def isIndexMT (mt : Nat) : Bool := mt = 2
def isImageMT (mt : Nat) : Bool := mt = 1

def decodeIndex : Node → Option (List (Nat × Nat))
  | .idx cs => some cs
  | .img _ _ => some []
  | .raw => none
def decodeImage : Node → Option (Nat × List Nat)
  | .img c ls => some (c, ls)
  | .idx _ => some (0, [])
  | .raw => none

/-- phase 1: which top-level entries start the walk, and the subject table -/
def phase1 (p : Policy) (bs : List Blob) : List Desc → List Desc → List (Nat × Desc) → List Nat → List Desc × List (Nat × Desc) × List Nat
  | [], keepL, subj, inIdx => (keepL, subj, inIdx)
  | d :: rest, keepL, subj, inIdx =>
    let inIdx := d.dig :: inIdx
    let recent := fun (g : Nat) => match getBlob bs g with | some b => p.grace && b.recent | none => false
    let keep0 := !p.untagged || (!d.ann.isNil && d.ann.tag ≠ 0)
    let keep1 := keep0 || (p.grace && recent d.dig)
    let (keep, subj) :=
      if !d.ann.isNil && d.ann.subj ≠ 0 then
        let s := d.ann.subj
        let subjExists := (getBlob bs s).isSome
        if p.withSubj && subjExists then (false, (s, d) :: subj)
        else if !p.dangling then (true, subj)
        else if subjExists then
          if recent d.dig then (true, subj) else (false, (s, d) :: subj)
        else (keep1, subj)
      else (keep1, subj)
    phase1 p bs rest (if keep then keepL ++ [d] else keepL) subj inIdx

/-- phase 2: the walk; work list is a stack whose *last* element is popped -/
def walk (bs : List Blob) (subj : List (Nat × Desc)) : Nat → List Desc → List Nat → List Nat → List Nat × List Nat
  | 0, _, seen, inIdx => (seen, inIdx)
  | fuel+1, work, seen, inIdx =>
    match work.getLast? with
    | none => (seen, inIdx)
    | some d =>
      let work := work.dropLast
      let inIdx := d.dig :: inIdx
      if seen.contains d.dig then walk bs subj fuel work seen inIdx
      else match getBlob bs d.dig with
        | none => walk bs subj fuel work seen inIdx
        | some b =>
          let seen := d.dig :: seen
          let pushSubj := fun (w : List Desc) => match subj.find? (·.1 = d.dig) with
            | some (_, r) => w ++ [r]
            | none => w
          if isIndexMT d.mt then
            match decodeIndex b.node with
            | none => walk bs subj fuel work seen inIdx
            | some cs => walk bs subj fuel (pushSubj (work ++ cs.map fun (mt, g) => { mt := mt, dig := g })) seen inIdx
          else if isImageMT d.mt then
            match decodeImage b.node with
            | none => walk bs subj fuel work seen inIdx
            | some (c, ls) => walk bs subj fuel (pushSubj work) (ls.reverse ++ c :: seen) inIdx
          else walk bs subj fuel (pushSubj work) seen inIdx

structure GCOut where
  index : Index
  blobs : List Nat
  deriving Repr

def gc (p : Policy) (ix : Index) (bs : List Blob) : GCOut :=
  let (keepL, subj, inIdx) := phase1 p bs ix.manifests [] [] []
  -- the Go map keeps the *last* response registered for a subject; `find?` on a list built by consing does too
  let fuel := 4 * (bs.length + ix.manifests.length + 1) * (bs.length + 2)
  let (seen, inIdx) := walk bs subj fuel keepL [] inIdx
  -- phase 3: sweep
  let sweep := bs.foldl (fun (acc : Index × List Nat) b =>
      let (ix, kept) := acc
      if seen.contains b.dig then (ix, kept ++ [b.dig])
      else if p.grace && b.recent && !inIdx.contains b.dig then (ix, kept ++ [b.dig])
      else
        let ix := if (getDescDig ix b.dig).isSome then rmDesc ix { mt := 0, dig := b.dig } else ix
        (ix, kept)) (ix, [])
  let (ix1, kept) := sweep
  -- phase 4: entries without a backing blob (as listed before the sweep)
  let ix2 := inIdx.foldl (fun ix g => if (getBlob bs g).isNone ∧ g ≠ 0 then rmDesc ix { mt := 0, dig := g } else ix) ix1
  { index := ix2, blobs := kept }
end Ixd
