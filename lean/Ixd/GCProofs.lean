import Ixd.GC2
/-! scratch: the mark phase of the unchanged collector keeps everything reachable — provided no digest is both a
    manifest and a config/layer (C05, `gc_keeps_retained_partial`; the excluded case is F4) -/
namespace Ixd

/-- the walk with a ghost record of the descriptors that were actually opened -/
def walkG (bs : List Blob) (subj : List (Nat × Desc)) : List Desc → List Nat → List Nat → List Desc → List Nat × List Nat × List Desc
  | [], seen, inIdx, w => (seen, inIdx, w)
  | d :: work, seen, inIdx, w =>
    if hs : d.dig ∈ seen then walkG bs subj work seen (d.dig :: inIdx) w
    else
      match hg : getBlob bs d.dig with
      | none => walkG bs subj work seen (d.dig :: inIdx) w
      | some b => walkG bs subj (pushed subj d b ++ work) (marked d b ++ d.dig :: seen) (d.dig :: inIdx) (d :: w)
termination_by work seen _ _ => (unseen bs seen, work.length)
decreasing_by
  · apply Prod.Lex.right; simp
  · apply Prod.Lex.right; simp
  · apply Prod.Lex.left
    exact unseen_lt bs d.dig b _ seen hg hs

/-- the ghost does not change what is computed -/
theorem walkG_eq (bs : List Blob) (subj : List (Nat × Desc)) :
    ∀ work seen inIdx w, ((walkG bs subj work seen inIdx w).1, (walkG bs subj work seen inIdx w).2.1) = walk bs subj work seen inIdx := by
  intro work seen inIdx w
  fun_induction walkG bs subj work seen inIdx w with
  | case1 seen inIdx w => simp [walk]
  | case2 d work seen inIdx w hs ih => rw [walk]; simp only [hs, dite_true]; exact ih
  | case3 d work seen inIdx w hs hg ih => rw [walk]; simp only [hs, dite_false]; split <;> simp_all
  | case4 d work seen inIdx w hs b hg ih => rw [walk]; simp only [hs, dite_false]; split <;> simp_all

/-- digests that some image blob names as config or layer (an index blob opened as an image names the empty digest 0) -/
def Marks (bs : List Blob) (g : Nat) : Prop := g = 0 ∨ ∃ b ∈ bs, ∃ c ls, b.node = Node.img c ls ∧ (g = c ∨ g ∈ ls)

/-- descriptors that can ever be on the work list -/
def MD (bs : List Blob) (subj : List (Nat × Desc)) (roots : List Desc) (d : Desc) : Prop :=
  d ∈ roots ∨ (∃ b ∈ bs, ∃ cs, b.node = Node.idx cs ∧ ∃ p ∈ cs, d = { mt := p.1, dig := p.2 }) ∨ (∃ p ∈ subj, d = p.2)

/-- the hypothesis that excludes F4 -/
def NoAlias (bs : List Blob) (subj : List (Nat × Desc)) (roots : List Desc) : Prop :=
  ∀ d, MD bs subj roots d → ¬ Marks bs d.dig

theorem getBlob_mem_bs {bs : List Blob} {g : Nat} {b : Blob} (h : getBlob bs g = some b) : b ∈ bs ∧ b.dig = g := by
  unfold getBlob at h
  split at h
  · cases h
  · exact ⟨List.mem_of_find?_eq_some h, by simpa using List.find?_some h⟩

theorem marked_marks {bs : List Blob} {d : Desc} {b : Blob} (hb : b ∈ bs) : ∀ g ∈ marked d b, Marks bs g := by
  intro g hg
  unfold marked at hg
  split at hg
  · simp at hg
  · split at hg
    · cases hn : b.node with
      | raw => simp [hn, decodeImage] at hg
      | idx cs => simp [hn, decodeImage] at hg; exact Or.inl hg
      | img c ls =>
        simp only [hn, decodeImage] at hg
        simp only [List.mem_append, List.mem_reverse, List.mem_singleton] at hg
        exact Or.inr ⟨b, hb, c, ls, hn, by rcases hg with h | h <;> simp [h]⟩
    · simp at hg
end Ixd

namespace Ixd

theorem pushed_MD {bs : List Blob} {subj : List (Nat × Desc)} {roots : List Desc} {d : Desc} {b : Blob} (hb : b ∈ bs) :
    ∀ c ∈ pushed subj d b, MD bs subj roots c := by
  intro c hc
  have viaSubj_MD : ∀ c, c ∈ (match subj.find? (·.1 = d.dig) with | some (_, r) => [r] | none => []) → MD bs subj roots c := by
    intro c hc
    split at hc
    · rename_i s r hf
      simp only [List.mem_singleton] at hc
      subst hc
      exact Or.inr (Or.inr ⟨(s, c), List.mem_of_find?_eq_some hf, rfl⟩)
    · simp at hc
  unfold pushed at hc
  simp only [] at hc
  split at hc
  · cases hn : b.node with
    | raw => simp [hn, decodeIndex] at hc
    | img c' ls =>
      simp only [hn, decodeIndex, List.map_nil, List.reverse_nil, List.append_nil] at hc
      exact viaSubj_MD c hc
    | idx cs =>
      simp only [hn, decodeIndex, List.mem_append, List.mem_reverse, List.mem_map] at hc
      rcases hc with h | ⟨p, hp, rfl⟩
      · exact viaSubj_MD c h
      · exact Or.inr (Or.inl ⟨b, hb, cs, hn, p, hp, rfl⟩)
  · split at hc
    · split at hc
      · simp at hc
      · exact viaSubj_MD c hc
    · exact viaSubj_MD c hc

structure InvW (bs : List Blob) (subj : List (Nat × Desc)) (roots work : List Desc) (seen : List Nat) (w : List Desc) : Prop where
  closed : ∀ d ∈ w, ∀ b, getBlob bs d.dig = some b →
      (∀ c ∈ pushed subj d b, getBlob bs c.dig ≠ none → c.dig ∈ w.map (·.dig) ∨ c ∈ work) ∧ (∀ g ∈ marked d b, g ∈ seen)
  wseen : ∀ d ∈ w, d.dig ∈ seen
  seenSplit : ∀ g ∈ seen, g ∈ w.map (·.dig) ∨ Marks bs g
  workMD : ∀ d ∈ work, MD bs subj roots d
  rootsCov : ∀ r ∈ roots, getBlob bs r.dig ≠ none → r.dig ∈ w.map (·.dig) ∨ r ∈ work

theorem walkG_inv (bs : List Blob) (subj : List (Nat × Desc)) (roots : List Desc) (hNA : NoAlias bs subj roots) :
    ∀ work seen inIdx w, InvW bs subj roots work seen w →
      InvW bs subj roots [] (walkG bs subj work seen inIdx w).1 (walkG bs subj work seen inIdx w).2.2 := by
  intro work seen inIdx w
  fun_induction walkG bs subj work seen inIdx w with
  | case1 seen inIdx w => intro h; exact h
  | case2 d work seen inIdx w hs ih =>
    intro h
    apply ih
    have hdw : d.dig ∈ w.map (·.dig) := by
      rcases h.seenSplit d.dig hs with h1 | h1
      · exact h1
      · exact absurd h1 (hNA d (h.workMD d List.mem_cons_self))
    refine ⟨?_, h.wseen, h.seenSplit, fun e he => h.workMD e (List.mem_cons_of_mem _ he), ?_⟩
    · intro e he b hb
      obtain ⟨h1, h2⟩ := h.closed e he b hb
      refine ⟨?_, h2⟩
      intro c hc hex
      rcases h1 c hc hex with h3 | h3
      · exact Or.inl h3
      · rcases List.mem_cons.mp h3 with rfl | h4
        · exact Or.inl hdw
        · exact Or.inr h4
    · intro r hr hex
      rcases h.rootsCov r hr hex with h3 | h3
      · exact Or.inl h3
      · rcases List.mem_cons.mp h3 with rfl | h4
        · exact Or.inl hdw
        · exact Or.inr h4
  | case3 d work seen inIdx w hs hg ih =>
    intro h
    apply ih
    refine ⟨?_, h.wseen, h.seenSplit, fun e he => h.workMD e (List.mem_cons_of_mem _ he), ?_⟩
    · intro e he b hb
      obtain ⟨h1, h2⟩ := h.closed e he b hb
      refine ⟨?_, h2⟩
      intro c hc hex
      rcases h1 c hc hex with h3 | h3
      · exact Or.inl h3
      · rcases List.mem_cons.mp h3 with rfl | h4
        · exact absurd hg hex
        · exact Or.inr h4
    · intro r hr hex
      rcases h.rootsCov r hr hex with h3 | h3
      · exact Or.inl h3
      · rcases List.mem_cons.mp h3 with rfl | h4
        · exact absurd hg hex
        · exact Or.inr h4
  | case4 d work seen inIdx w hs b hg ih =>
    intro h
    apply ih
    have hbmem := (getBlob_mem_bs hg).1
    refine ⟨?_, ?_, ?_, ?_, ?_⟩
    · intro e he b' hb'
      rcases List.mem_cons.mp he with rfl | he'
      · have : b' = b := by rw [hg] at hb'; exact (Option.some.inj hb').symm
        subst this
        refine ⟨?_, ?_⟩
        · intro c hc _
          exact Or.inr (List.mem_append_left _ hc)
        · intro g hgm
          exact List.mem_append_left _ hgm
      · obtain ⟨h1, h2⟩ := h.closed e he' b' hb'
        refine ⟨?_, fun g hgm => List.mem_append_right _ (List.mem_cons_of_mem _ (h2 g hgm))⟩
        intro c hc hex
        rcases h1 c hc hex with h3 | h3
        · left; simp only [List.map_cons, List.mem_cons]; exact Or.inr h3
        · rcases List.mem_cons.mp h3 with rfl | h4
          · left; simp
          · exact Or.inr (List.mem_append_right _ h4)
    · intro e he
      rcases List.mem_cons.mp he with rfl | he'
      · exact List.mem_append_right _ List.mem_cons_self
      · exact List.mem_append_right _ (List.mem_cons_of_mem _ (h.wseen e he'))
    · intro g hgs
      rcases List.mem_append.mp hgs with h1 | h1
      · exact Or.inr (marked_marks hbmem g h1)
      · rcases List.mem_cons.mp h1 with rfl | h2
        · left; simp
        · rcases h.seenSplit g h2 with h3 | h3
          · left; simp only [List.map_cons, List.mem_cons]; exact Or.inr h3
          · exact Or.inr h3
    · intro e he
      rcases List.mem_append.mp he with h1 | h1
      · exact pushed_MD hbmem e h1
      · exact h.workMD e (List.mem_cons_of_mem _ h1)
    · intro r hr hex
      rcases h.rootsCov r hr hex with h3 | h3
      · left; simp only [List.map_cons, List.mem_cons]; exact Or.inr h3
      · rcases List.mem_cons.mp h3 with rfl | h4
        · left; simp
        · exact Or.inr (List.mem_append_right _ h4)

/-- C05 core, for the unchanged code, under `NoAlias`: after the walk every root with a blob has been opened, and what
    an opened manifest references — children, the referrers response registered for it, config and layers — is in `seen`
    (children and responses even opened themselves) -/
theorem walk_keeps (bs : List Blob) (subj : List (Nat × Desc)) (roots : List Desc) (inIdx : List Nat)
    (hNA : NoAlias bs subj roots) :
    let r := walkG bs subj roots [] inIdx []
    (∀ x ∈ roots, getBlob bs x.dig ≠ none → x.dig ∈ r.2.2.map (·.dig)) ∧
    (∀ d ∈ r.2.2, d.dig ∈ r.1) ∧
    (∀ d ∈ r.2.2, ∀ b, getBlob bs d.dig = some b →
        (∀ c ∈ pushed subj d b, getBlob bs c.dig ≠ none → c.dig ∈ r.2.2.map (·.dig)) ∧ (∀ g ∈ marked d b, g ∈ r.1)) := by
  intro r
  have h0 : InvW bs subj roots roots [] [] :=
    ⟨by intro d hd; simp at hd, by intro d hd; simp at hd, by intro g hg; simp at hg,
     fun d hd => Or.inl hd, fun x hx _ => Or.inr hx⟩
  have h := walkG_inv bs subj roots hNA roots [] inIdx [] h0
  refine ⟨?_, h.wseen, ?_⟩
  · intro x hx hex
    rcases h.rootsCov x hx hex with h1 | h1
    · exact h1
    · simp at h1
  · intro d hd b hb
    obtain ⟨h1, h2⟩ := h.closed d hd b hb
    refine ⟨?_, h2⟩
    intro c hc hex
    rcases h1 c hc hex with h3 | h3
    · exact h3
    · simp at h3
end Ixd

namespace Ixd

theorem sweep_mono (p : Policy) (seen inIdx : List Nat) :
    ∀ (bs : List Blob) (acc : Index × List Nat) (g : Nat), g ∈ acc.2 → g ∈ (bs.foldl (sweepStep p seen inIdx) acc).2 := by
  intro bs
  induction bs with
  | nil => intro acc g h; exact h
  | cons b rest ih =>
    intro acc g h
    simp only [List.foldl_cons]
    apply ih
    unfold sweepStep
    split
    · exact List.mem_append_left _ h
    · split
      · exact List.mem_append_left _ h
      · exact h

/-- the sweep never drops a blob whose digest is in `seen` -/
theorem sweep_keeps_seen (p : Policy) (seen inIdx : List Nat) :
    ∀ (bs : List Blob) (acc : Index × List Nat) (b : Blob), b ∈ bs → b.dig ∈ seen →
      b.dig ∈ (bs.foldl (sweepStep p seen inIdx) acc).2 := by
  intro bs
  induction bs with
  | nil => intro acc b hb; simp at hb
  | cons x rest ih =>
    intro acc b hb hs
    simp only [List.foldl_cons]
    rcases List.mem_cons.mp hb with rfl | hb'
    · apply sweep_mono
      unfold sweepStep
      simp [hs]
    · exact ih _ b hb' hs

/-- … nor a recent blob that no index entry or walked descriptor names -/
theorem sweep_keeps_recent (p : Policy) (seen inIdx : List Nat) :
    ∀ (bs : List Blob) (acc : Index × List Nat) (b : Blob), b ∈ bs → p.grace = true → b.recent = true → b.dig ∉ inIdx →
      b.dig ∈ (bs.foldl (sweepStep p seen inIdx) acc).2 := by
  intro bs
  induction bs with
  | nil => intro acc b hb; simp at hb
  | cons x rest ih =>
    intro acc b hb hg hr hi
    simp only [List.foldl_cons]
    rcases List.mem_cons.mp hb with rfl | hb'
    · apply sweep_mono
      unfold sweepStep
      split
      · simp
      · simp [hg, hr, hi]
    · exact ih _ b hb' hg hr hi

/-- C05 for the unchanged collector, partial: under `NoAlias`, every blob the mark phase reaches survives the collection:
    roots that phase 1 keeps, children of opened indexes, the referrers response registered for an opened subject,
    config and layers of opened images -/
theorem gc_keeps_reached (p : Policy) (ix : Index) (bs : List Blob)
    (hNA : NoAlias bs (phase1 p bs ix.manifests [] [] []).2.1 (phase1 p bs ix.manifests [] [] []).1.reverse) :
    let roots := (phase1 p bs ix.manifests [] [] []).1.reverse
    let subj := (phase1 p bs ix.manifests [] [] []).2.1
    let r := walkG bs subj roots [] (phase1 p bs ix.manifests [] [] []).2.2 []
    let kept := (gc p ix bs).blobs
    (∀ x ∈ roots, ∀ b, getBlob bs x.dig = some b → x.dig ∈ kept) ∧
    (∀ d ∈ r.2.2, ∀ b, getBlob bs d.dig = some b →
        (∀ c ∈ pushed subj d b, ∀ b', getBlob bs c.dig = some b' → c.dig ∈ kept) ∧
        (∀ g ∈ marked d b, ∀ b', getBlob bs g = some b' → g ∈ kept)) := by
  intro roots subj r kept
  have hk := walk_keeps bs subj roots (phase1 p bs ix.manifests [] [] []).2.2 hNA
  obtain ⟨h1, h2, h3⟩ := hk
  -- `seen` of the executable walk is the first component of the ghost walk
  have hseen : (marks p ix bs).1 = r.1 := by
    have := walkG_eq bs subj roots [] (phase1 p bs ix.manifests [] [] []).2.2 []
    unfold marks
    simp only []
    rw [← this]
  have keep : ∀ g b', getBlob bs g = some b' → g ∈ r.1 → g ∈ kept := by
    intro g b' hb' hg
    have hm := getBlob_mem_bs hb'
    have := sweep_keeps_seen p (marks p ix bs).1 (marks p ix bs).2 bs (ix, []) b' hm.1 (by rw [hm.2, hseen]; exact hg)
    rw [hm.2] at this
    exact this
  refine ⟨?_, ?_⟩
  · intro x hx b hb
    have hw := h1 x hx (by rw [hb]; simp)
    obtain ⟨d, hd, hdx⟩ := List.mem_map.mp hw
    exact keep x.dig b hb (by rw [← hdx]; exact h2 d hd)
  · intro d hd b hb
    obtain ⟨hc, hm⟩ := h3 d hd b hb
    refine ⟨?_, ?_⟩
    · intro c hcm b' hb'
      have hw := hc c hcm (by rw [hb']; simp)
      obtain ⟨e, he, hec⟩ := List.mem_map.mp hw
      exact keep c.dig b' hb' (by rw [← hec]; exact h2 e he)
    · intro g hgm b' hb'
      exact keep g b' hb' (hm g hgm)
end Ixd
