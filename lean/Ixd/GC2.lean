import Ixd.Basic
/-! scratch: repoGarbageCollect with the walk defined by well-founded recursion (no fuel), same behaviour as GC.lean -/
namespace Ixd

inductive Node
  | raw
  | img (cfg : Nat) (layers : List Nat)
  | idx (children : List (Nat × Nat))      -- (mt, dig)
  deriving Repr

structure Blob where
  dig : Nat
  node : Node
  recent : Bool
  deriving Repr

structure Policy where
  untagged : Bool
  dangling : Bool
  withSubj : Bool
  grace : Bool
  deriving Repr

def getBlob (bs : List Blob) (d : Nat) : Option Blob := if d = 0 then none else bs.find? (·.dig = d)
def isIndexMT (mt : Nat) : Bool := mt = 2
def isImageMT (mt : Nat) : Bool := mt = 1

def decodeIndex : Node → Option (List (Nat × Nat))
  | .idx cs => some cs
  | .img _ _ => some []
  | .raw => none
def decodeImage : Node → Option (Nat × List Nat)
  | .img c ls => some (c, ls)
  | .idx _ => some (0, [])
  | .raw => none

def phase1 (p : Policy) (bs : List Blob) : List Desc → List Desc → List (Nat × Desc) → List Nat → List Desc × List (Nat × Desc) × List Nat
  | [], keepL, subj, inIdx => (keepL, subj, inIdx)
  | d :: rest, keepL, subj, inIdx =>
    let inIdx := d.dig :: inIdx
    let recent := fun (g : Nat) => match getBlob bs g with | some b => p.grace && b.recent | none => false
    let keep0 := !p.untagged || (!d.ann.isNil && d.ann.tag ≠ 0)
    let keep1 := keep0 || (p.grace && recent d.dig)
    let (keep, subj) :=
      if !d.ann.isNil && d.ann.subj ≠ 0 then
        let s := d.ann.subj
        let subjExists := (getBlob bs s).isSome
        if p.withSubj && subjExists then (false, (s, d) :: subj)
        else if !p.dangling then (true, subj)
        else if subjExists then
          if recent d.dig then (true, subj) else (false, (s, d) :: subj)
        else (keep1, subj)
      else (keep1, subj)
    phase1 p bs rest (if keep then keepL ++ [d] else keepL) subj inIdx

def keysOf (bs : List Blob) : List Nat := bs.map (·.dig)
def unseen (bs : List Blob) (seen : List Nat) : Nat := ((keysOf bs).filter (fun k => k ∉ seen)).length

theorem getBlob_mem {bs : List Blob} {g : Nat} {b : Blob} (h : getBlob bs g = some b) : g ∈ keysOf bs := by
  unfold getBlob at h
  split at h
  · cases h
  · have hp := List.mem_of_find?_eq_some h
    have hk := List.find?_some h
    simp at hk
    unfold keysOf; rw [← hk]; exact List.mem_map_of_mem hp

theorem filter_notin_le' (ks : List Nat) (a : Nat) (w : List Nat) :
    (ks.filter (fun k => k ∉ a :: w)).length ≤ (ks.filter (fun k => k ∉ w)).length := by
  induction ks with
  | nil => simp
  | cons k ks ih =>
    simp only [List.filter_cons]
    by_cases h1 : k ∈ w
    · have h2 : k ∈ a :: w := List.mem_cons_of_mem _ h1
      simp [h1, h2]; simpa using ih
    · by_cases h2 : k = a
      · subst h2; simp [h1]
        have := ih; simp at this; omega
      · have h3 : k ∉ a :: w := by simp [h1, h2]
        simp [h1, h3]; simpa using ih

theorem filter_notin_lt' (ks : List Nat) (a : Nat) (w : List Nat) (ha : a ∈ ks) (hw : a ∉ w) :
    (ks.filter (fun k => k ∉ a :: w)).length < (ks.filter (fun k => k ∉ w)).length := by
  induction ks with
  | nil => simp at ha
  | cons k ks ih =>
    simp only [List.filter_cons]
    by_cases hka : k = a
    · subst hka
      have := filter_notin_le' ks k w
      simp at this
      simp [hw]; omega
    · have ha' : a ∈ ks := by
        rcases List.mem_cons.mp ha with h | h
        · exact absurd h.symm hka
        · exact h
      have := ih ha'
      simp at this
      by_cases hkw : k ∈ w
      · have h2 : k ∈ a :: w := List.mem_cons_of_mem _ hkw
        simp [hkw]; omega
      · have h3 : k ∉ a :: w := by simp [hkw, hka]
        simp [hkw, hka]; omega

/-- adding more digests to `seen` never increases the count -/
theorem unseen_append_le (bs : List Blob) (extra seen : List Nat) : unseen bs (extra ++ seen) ≤ unseen bs seen := by
  induction extra with
  | nil => simp
  | cons a rest ih =>
    have := filter_notin_le' (keysOf bs) a (rest ++ seen)
    unfold unseen at *
    simp only [List.cons_append]
    omega

theorem unseen_lt (bs : List Blob) (g : Nat) (b : Blob) (extra seen : List Nat) (h : getBlob bs g = some b) (hs : g ∉ seen) :
    unseen bs (extra ++ g :: seen) < unseen bs seen := by
  have h1 := unseen_append_le bs extra (g :: seen)
  have h2 := filter_notin_lt' (keysOf bs) g seen (getBlob_mem h) hs
  unfold unseen at *
  omega

/-- what is pushed when `d` (blob `b`) is walked, in pop order: referrers response first, then children last-to-first -/
def pushed (subj : List (Nat × Desc)) (d : Desc) (b : Blob) : List Desc :=
  let viaSubj := match subj.find? (·.1 = d.dig) with | some (_, r) => [r] | none => []
  if isIndexMT d.mt then
    match decodeIndex b.node with
    | none => []
    | some cs => viaSubj ++ (cs.map fun (mt, g) => ({ mt := mt, dig := g } : Desc)).reverse
  else if isImageMT d.mt then
    match decodeImage b.node with
    | none => []
    | some _ => viaSubj
  else viaSubj

def marked (d : Desc) (b : Blob) : List Nat :=
  if isIndexMT d.mt then []
  else if isImageMT d.mt then
    match decodeImage b.node with
    | none => []
    | some (c, ls) => ls.reverse ++ [c]
  else []

/-- the walk; `work` is a stack whose head is popped; `seen` is shared between walked and marked digests (as in the code) -/
def walk (bs : List Blob) (subj : List (Nat × Desc)) : List Desc → List Nat → List Nat → List Nat × List Nat
  | [], seen, inIdx => (seen, inIdx)
  | d :: work, seen, inIdx =>
    if hs : d.dig ∈ seen then walk bs subj work seen (d.dig :: inIdx)
    else
      match hg : getBlob bs d.dig with
      | none => walk bs subj work seen (d.dig :: inIdx)
      | some b => walk bs subj (pushed subj d b ++ work) (marked d b ++ d.dig :: seen) (d.dig :: inIdx)
termination_by work seen _ => (unseen bs seen, work.length)
decreasing_by
  · apply Prod.Lex.right; simp
  · apply Prod.Lex.right; simp
  · apply Prod.Lex.left
    exact unseen_lt bs d.dig b _ seen hg hs

structure GCOut where
  index : Index
  blobs : List Nat
  deriving Repr

/-- one step of the sweep over the blob list -/
def sweepStep (p : Policy) (seen inIdx : List Nat) (acc : Index × List Nat) (b : Blob) : Index × List Nat :=
  if seen.contains b.dig then (acc.1, acc.2 ++ [b.dig])
  else if p.grace && b.recent && !inIdx.contains b.dig then (acc.1, acc.2 ++ [b.dig])
  else ((if (getDescDig acc.1 b.dig).isSome then rmDesc acc.1 { mt := 0, dig := b.dig } else acc.1), acc.2)

/-- roots, subject table and index digests of phase 1; then the walk -/
def marks (p : Policy) (ix : Index) (bs : List Blob) : List Nat × List Nat :=
  let r := phase1 p bs ix.manifests [] [] []
  walk bs r.2.1 r.1.reverse [] r.2.2

def gc (p : Policy) (ix : Index) (bs : List Blob) : GCOut :=
  let m := marks p ix bs
  let sw := bs.foldl (sweepStep p m.1 m.2) (ix, [])
  let ix2 := m.2.foldl (fun ix g => if (getBlob bs g).isNone ∧ g ≠ 0 then rmDesc ix { mt := 0, dig := g } else ix) sw.1
  { index := ix2, blobs := sw.2 }
end Ixd
