import Ixd.GCComplete
/-!
# A second pass changes nothing (C06)

What the policy retains before a collection it retains after it (`retained_mono`: the keep table only looks at blobs
that survive, or at the absence of blobs, which a collection cannot undo); so, by the exactness theorems, a second
collection deletes no blob (`gc_idem_blobs`), prunes no top-level entry (`gc_idem_manifests`) and no child record
(`gc_idem_children`; since F41 the first pass leaves no child record without a blob).
-/
namespace Ixd

/-- `bs'` is what a collection left of `bs`: blobs only disappear, and only whole digests -/
structure SubBlobs (bs' bs : List Blob) : Prop where
  sub : ∀ g b, getBlob bs' g = some b → getBlob bs g = some b

theorem recentB_eq {p : Policy} {bs' bs : List Blob} {g : Nat} (h : getBlob bs' g = getBlob bs g) :
    recentB p bs' g = recentB p bs g := by
  unfold recentB; rw [h]

theorem general_eq {p : Policy} {bs' bs : List Blob} {d : Desc} (h : getBlob bs' d.dig = getBlob bs d.dig) :
    general p bs' d = general p bs d := by
  unfold general; rw [recentB_eq h]

/-- a root stays a root when blobs disappear but its own blob stays -/
theorem classify_root_mono {p : Policy} {bs' bs : List Blob} {d : Desc} (hs : SubBlobs bs' bs)
    (hd : getBlob bs' d.dig = getBlob bs d.dig) (h : classify p bs d = .root) : classify p bs' d = .root := by
  unfold classify at h ⊢
  rw [general_eq hd, recentB_eq hd]
  split at h
  · rename_i hc
    simp only [hc, if_true]
    simp only [] at h ⊢
    have hex : (getBlob bs' d.ann.subj).isSome = true → (getBlob bs d.ann.subj).isSome = true := by
      intro hx
      cases hb : getBlob bs' d.ann.subj with
      | none => simp [hb] at hx
      | some b => rw [hs.sub _ _ hb]; rfl
    cases hw : p.withSubj <;> cases hdg : p.dangling <;> cases he : (getBlob bs d.ann.subj).isSome <;>
      cases he' : (getBlob bs' d.ann.subj).isSome <;> simp_all [general]
  · rename_i hc
    simp only [hc, if_false]
    exact h

/-- an entry bound to a subject stays bound to it when blobs disappear but the subject's and its own blob stay -/
theorem classify_bound_mono {p : Policy} {bs' bs : List Blob} {d : Desc} {s : Nat}
    (hd : getBlob bs' d.dig = getBlob bs d.dig) (hsb : getBlob bs' s = getBlob bs s)
    (h : classify p bs d = .bound s) : classify p bs' d = .bound s := by
  obtain ⟨_, hsubj, _, _⟩ := classify_bound h
  unfold classify at h ⊢
  rw [general_eq hd, recentB_eq hd]
  rw [hsubj] at h ⊢
  simp only [] at h ⊢
  rw [hsb]
  exact h

/-- the state after a collection -/
theorem gc_subBlobs (p : Policy) (ix : Index) (bs : List Blob) : SubBlobs (gcBlobs p ix bs) bs :=
  ⟨fun _ _ h => (getBlob_gcBlobs_sub h).1⟩

theorem subjUnique_of_sub {ms' ms : List Desc} (h : ∀ e ∈ ms', e ∈ ms) (hU : SubjUnique ms) : SubjUnique ms' :=
  fun e1 h1 e2 h2 => hU e1 (h e1 h1) e2 (h e2 h2)

theorem gc_manifests_sub {p : Policy} {ix : Index} {bs : List Blob} (hz : ∀ b ∈ bs, b.dig ≠ 0) :
    ∀ e ∈ (gc p ix bs).index.manifests, e ∈ ix.manifests := by
  intro e he
  exact (List.mem_filter.mp ((gc_manifests p ix bs hz).mem_iff.mp he)).1

theorem gcBlobs_mem {p : Policy} {ix : Index} {bs : List Blob} {b : Blob} :
    b ∈ gcBlobs p ix bs ↔ b ∈ bs ∧ b.dig ∈ (gc p ix bs).blobs := by
  unfold gcBlobs
  simp [List.mem_filter]

/-- every retained descriptor is still a retained descriptor of the repository the collection leaves -/
theorem retD_mono {p : Policy} {ix : Index} {bs : List Blob} (hU : SubjUnique ix.manifests) (hz : ∀ b ∈ bs, b.dig ≠ 0)
    {g c : Nat} (h : RetD p bs ix.manifests g c) : RetD p (gcBlobs p ix bs) (gc p ix bs).index.manifests g c := by
  have inv := marks_inv p ix bs
  have keepBlob : ∀ {g c : Nat} {b : Blob}, RetD p bs ix.manifests g c → getBlob bs g = some b →
      getBlob (gcBlobs p ix bs) g = some b := by
    intro g c b hd hb
    exact seen_getBlob (inv.wseen _ _ (retD_walked hU hd)) hb
  induction h with
  | @root e b hm hc hb =>
    have hd : RetD p bs ix.manifests e.dig (cls e.mt) := RetD.root hm hc hb
    have hb' := keepBlob hd hb
    have hm' : e ∈ (gc p ix bs).index.manifests :=
      gc_index_keeps hz hm (inv.wseen _ _ (retD_walked hU hd)) (by rw [hb]; simp)
    exact RetD.root hm' (classify_root_mono (gc_subBlobs p ix bs) (by rw [hb', hb]) hc) hb'
  | @child g b b' k hd hb hj hk hb' ih =>
    exact RetD.child ih (keepBlob hd hb) hj hk (keepBlob (RetD.child hd hb hj hk hb') hb')
  | @resp g c b b' e hd hb ho hm hc hb' ih =>
    have hde : RetD p bs ix.manifests e.dig (cls e.mt) := RetD.resp hd hb ho hm hc hb'
    have hm' : e ∈ (gc p ix bs).index.manifests :=
      gc_index_keeps hz hm (inv.wseen _ _ (retD_walked hU hde)) (by rw [hb']; simp)
    have hbe := keepBlob hde hb'
    have hbg := keepBlob hd hb
    exact RetD.resp ih hbg ho hm' (classify_bound_mono (by rw [hbe, hb']) (by rw [hbg, hb]) hc) hbe

/-- what the policy retains before a collection it retains after it -/
theorem retained_mono {p : Policy} {ix : Index} {bs : List Blob} (hU : SubjUnique ix.manifests) (hz : ∀ b ∈ bs, b.dig ≠ 0)
    {g : Nat} (h : Retained p bs ix.manifests g) : Retained p (gcBlobs p ix bs) (gc p ix bs).index.manifests g := by
  have inv := marks_inv p ix bs
  cases h with
  | desc hd => exact Retained.desc (retD_mono hU hz hd)
  | @cfg h b hd hb hj =>
    exact Retained.cfg (retD_mono hU hz hd) (seen_getBlob (inv.wseen _ _ (retD_walked hU hd)) hb) hj
  | @layer h _ b hd hb hj hl =>
    exact Retained.layer (retD_mono hU hz hd) (seen_getBlob (inv.wseen _ _ (retD_walked hU hd)) hb) hj hl
  | @recent b hb hnz hg hr hne =>
    have hk : b.dig ∈ (gc p ix bs).blobs := gc_keeps_retained' hU (Retained.recent hb hnz hg hr hne) b hb rfl
    exact Retained.recent (gcBlobs_mem.mpr ⟨hb, hk⟩) hnz hg hr (fun e he => hne e (gc_manifests_sub hz e he))

/-- C06: a second pass deletes no blob -/
theorem gc_idem_blobs {p : Policy} {ix : Index} {bs : List Blob} (hU : SubjUnique ix.manifests) (hz : ∀ b ∈ bs, b.dig ≠ 0) :
    ∀ b ∈ gcBlobs p ix bs, b.dig ∈ (gc p (gc p ix bs).index (gcBlobs p ix bs)).blobs := by
  intro b hb
  obtain ⟨hb1, hk1⟩ := gcBlobs_mem.mp hb
  have hr := retained_mono hU hz (gc_keeps_only hz hk1)
  exact gc_keeps_retained' (subjUnique_of_sub (gc_manifests_sub hz) hU) hr b hb rfl

theorem gc_idem_blobs_eq {p : Policy} {ix : Index} {bs : List Blob} (hU : SubjUnique ix.manifests) (hz : ∀ b ∈ bs, b.dig ≠ 0) :
    gcBlobs p (gc p ix bs).index (gcBlobs p ix bs) = gcBlobs p ix bs := by
  have : gcBlobs p (gc p ix bs).index (gcBlobs p ix bs) =
      (gcBlobs p ix bs).filter (fun b => (gc p (gc p ix bs).index (gcBlobs p ix bs)).blobs.contains b.dig) := rfl
  rw [this]
  apply List.filter_eq_self.mpr
  intro b hb
  simpa using gc_idem_blobs hU hz b hb

theorem gcBlobs_nz {p : Policy} {ix : Index} {bs : List Blob} (hz : ∀ b ∈ bs, b.dig ≠ 0) : ∀ b ∈ gcBlobs p ix bs, b.dig ≠ 0 :=
  fun b hb => hz b (gcBlobs_mem.mp hb).1

theorem eq_of_dig : ∀ {bs : List Blob}, (keysOf bs).Nodup → ∀ {b b2 : Blob}, b ∈ bs → b2 ∈ bs → b.dig = b2.dig → b = b2 := by
  intro bs
  induction bs with
  | nil => intro _ b b2 h; simp at h
  | cons x xs ih =>
    intro hn b b2 h1 h2 hd
    unfold keysOf at hn
    simp only [List.map_cons, List.nodup_cons] at hn
    rcases List.mem_cons.mp h1 with rfl | h1'
    · rcases List.mem_cons.mp h2 with rfl | h2'
      · rfl
      · exact absurd (by rw [hd]; exact List.mem_map_of_mem h2') hn.1
    · rcases List.mem_cons.mp h2 with rfl | h2'
      · exact absurd (by rw [← hd]; exact List.mem_map_of_mem h1') hn.1
      · exact ih hn.2 h1' h2' hd

/-- in the second pass every blob is kept -/
theorem second_keepB {p : Policy} {ix : Index} {bs : List Blob} (hU : SubjUnique ix.manifests) (hz : ∀ b ∈ bs, b.dig ≠ 0)
    (hn : (keysOf bs).Nodup) :
    ∀ b ∈ gcBlobs p ix bs, keepB p (marks p (gc p ix bs).index (gcBlobs p ix bs)).seen
      (marks p (gc p ix bs).index (gcBlobs p ix bs)).inIdx b = true := by
  intro b hb
  have h := gc_idem_blobs hU hz b hb
  obtain ⟨b2, hb2, hd, hk⟩ := mem_gc_blobs.mp h
  have : b2 = b := eq_of_dig hn (gcBlobs_mem.mp hb2).1 (gcBlobs_mem.mp hb).1 hd
  rw [← this]; exact hk

/-- C06: a second pass prunes no top-level entry -/
theorem gc_idem_manifests {p : Policy} {ix : Index} {bs : List Blob} (hU : SubjUnique ix.manifests) (hz : ∀ b ∈ bs, b.dig ≠ 0)
    (hn : (keysOf bs).Nodup) :
    (gc p (gc p ix bs).index (gcBlobs p ix bs)).index.manifests.Perm (gc p ix bs).index.manifests := by
  refine (gc_manifests p _ _ (gcBlobs_nz hz)).trans ?_
  apply List.Perm.of_eq
  apply List.filter_eq_self.mpr
  intro e he
  apply survives_of_kept
  · intro b hb _
    exact second_keepB hU hz hn b hb
  · by_cases hnz : e.dig = 0
    · exact Or.inr hnz
    · left
      obtain ⟨_, hk⟩ := gc_index_backed' hz he hnz
      rw [getBlob_gcBlobs hk]
      obtain ⟨b, hb, hd, _⟩ := mem_gc_blobs.mp hk
      rw [← hd]
      exact getBlob_of_mem hb (hz b hb)

/-- C06: … and no child record (after F41 every child record left by the first pass has a blob, or the empty digest) -/
theorem gc_idem_children {p : Policy} {ix : Index} {bs : List Blob} (hU : SubjUnique ix.manifests) (hz : ∀ b ∈ bs, b.dig ≠ 0)
    (hn : (keysOf bs).Nodup) :
    (gc p (gc p ix bs).index (gcBlobs p ix bs)).index.children.Perm (gc p ix bs).index.children := by
  refine (gc_children p _ _ (gcBlobs_nz hz)).trans ?_
  apply List.Perm.of_eq
  apply List.filter_eq_self.mpr
  intro c hc
  have hbk : backedB (gcBlobs p ix bs) c = true := by
    unfold backedB
    by_cases hnz : c.dig = 0
    · simp [hnz]
    · obtain ⟨_, hk⟩ := gc_children_backed' hz hc hnz
      rw [getBlob_gcBlobs hk]
      obtain ⟨b, hb, hd, _⟩ := mem_gc_blobs.mp hk
      cases hx : getBlob bs c.dig with
      | none => rw [← hd] at hx; exact absurd hx (getBlob_of_mem hb (hz b hb))
      | some b' => simp
  have hsv : survives p (gc p ix bs).index (gcBlobs p ix bs) c = true := by
    apply survives_of_kept
    · intro b hbm _
      exact second_keepB hU hz hn b hbm
    · unfold backedB at hbk
      by_cases hnz : c.dig = 0
      · exact Or.inr hnz
      · left
        intro hnone
        simp [hnone, hnz] at hbk
  simp [hsv, hbk]
end Ixd
