import Ixd.GCProofs
/-! scratch: the other half (C06): the collector keeps nothing but what the mark phase reached, plus recent blobs that no
    index entry or walked descriptor names -/
namespace Ixd

/-- digests the mark phase can justify: digests of descriptors reachable from the roots through existing blobs
    (`pushed`), and what reachable images mark -/
inductive Reach (bs : List Blob) (subj : List (Nat × Desc)) (roots : List Desc) : Desc → Prop
  | root {d} : d ∈ roots → Reach bs subj roots d
  | step {d c b} : Reach bs subj roots d → getBlob bs d.dig = some b → c ∈ pushed subj d b → Reach bs subj roots c

def Justified (bs : List Blob) (subj : List (Nat × Desc)) (roots : List Desc) (g : Nat) : Prop :=
  (∃ d, Reach bs subj roots d ∧ d.dig = g) ∨ (∃ d b, Reach bs subj roots d ∧ getBlob bs d.dig = some b ∧ g ∈ marked d b)

/-- soundness of the walk: whatever ends up in `seen` is justified, provided what was there before is -/
theorem walk_sound (bs : List Blob) (subj : List (Nat × Desc)) (roots : List Desc) :
    ∀ work seen inIdx, (∀ d ∈ work, Reach bs subj roots d) → (∀ g ∈ seen, Justified bs subj roots g) →
      ∀ g ∈ (walk bs subj work seen inIdx).1, Justified bs subj roots g := by
  intro work seen inIdx
  fun_induction walk bs subj work seen inIdx with
  | case1 seen inIdx => intro _ hs; exact hs
  | case2 d work seen inIdx hs ih => intro hw hse; exact ih (fun e he => hw e (List.mem_cons_of_mem _ he)) hse
  | case3 d work seen inIdx hs hg ih => intro hw hse; exact ih (fun e he => hw e (List.mem_cons_of_mem _ he)) hse
  | case4 d work seen inIdx hs b hg ih =>
    intro hw hse
    have hd := hw d List.mem_cons_self
    apply ih
    · intro e he
      rcases List.mem_append.mp he with h | h
      · exact Reach.step hd hg h
      · exact hw e (List.mem_cons_of_mem _ h)
    · intro g hgs
      rcases List.mem_append.mp hgs with h | h
      · exact Or.inr ⟨d, b, hd, hg, h⟩
      · rcases List.mem_cons.mp h with rfl | h2
        · exact Or.inl ⟨d, hd, rfl⟩
        · exact hse g h2

/-- the sweep keeps a blob only for one of its two reasons -/
theorem sweep_kept_only (p : Policy) (seen inIdx : List Nat) :
    ∀ (bs : List Blob) (acc : Index × List Nat),
      (∀ g ∈ acc.2, g ∈ seen ∨ (p.grace = true ∧ g ∉ inIdx)) →
      ∀ g ∈ (bs.foldl (sweepStep p seen inIdx) acc).2, g ∈ seen ∨ (p.grace = true ∧ g ∉ inIdx) := by
  intro bs
  induction bs with
  | nil => intro acc h; exact h
  | cons b rest ih =>
    intro acc h
    simp only [List.foldl_cons]
    apply ih
    intro g hg
    unfold sweepStep at hg
    split at hg
    · rename_i hc
      rcases List.mem_append.mp hg with h1 | h1
      · exact h g h1
      · simp only [List.mem_singleton] at h1; subst h1
        exact Or.inl (by simpa using hc)
    · split at hg
      · rename_i hc
        rcases List.mem_append.mp hg with h1 | h1
        · exact h g h1
        · simp only [List.mem_singleton] at h1; subst h1
          simp only [Bool.and_eq_true, Bool.not_eq_true', List.contains_eq_mem, decide_eq_false_iff_not] at hc
          exact Or.inr ⟨hc.1.1, hc.2⟩
      · exact h g hg

/-- C06, upper bound, for the unchanged collector: every blob that survives was reached by the mark phase from a root that
    phase 1 keeps (as a descriptor or as config/layer of a reached image), or the grace period is on and no index entry
    or walked descriptor names it (the sweep's recent-blob rule) -/
theorem gc_keeps_only (p : Policy) (ix : Index) (bs : List Blob) :
    let roots := (phase1 p bs ix.manifests [] [] []).1.reverse
    let subj := (phase1 p bs ix.manifests [] [] []).2.1
    ∀ g ∈ (gc p ix bs).blobs, Justified bs subj roots g ∨ (p.grace = true ∧ g ∉ (marks p ix bs).2) := by
  intro roots subj g hg
  have hs := sweep_kept_only p (marks p ix bs).1 (marks p ix bs).2 bs (ix, []) (by intro g hg; simp at hg) g hg
  rcases hs with h | h
  · left
    have := walk_sound bs subj roots roots [] (phase1 p bs ix.manifests [] [] []).2.2 (fun d hd => Reach.root hd) (by intro g hg; simp at hg)
    exact this g h
  · exact Or.inr h
end Ixd
