import Ixd.GCModel
/-!
# What the collector keeps (C05)

`Retained p bs ms` is the order-free specification: which digests the policy `p` retains in a repository with blobs
`bs` and top-level entries `ms`.  `gc_keeps_retained`: the collector (as repaired, F4) keeps every retained blob — for
every object graph (cycles, missing blobs, digests with several roles, lying media types) and every policy.
-/
namespace Ixd

theorem getBlob_of_mem {bs : List Blob} {b : Blob} (hb : b ∈ bs) (hnz : b.dig ≠ 0) : getBlob bs b.dig ≠ none := by
  unfold getBlob
  simp only [hnz, if_false]
  intro h
  have := List.find?_eq_none.mp h b hb
  simp at this

/-! ## phase 1 -/

theorem mem_roots {p : Policy} {bs : List Blob} {ms : List Desc} {d : Desc} :
    d ∈ roots p bs ms ↔ d ∈ ms ∧ classify p bs d = .root := by
  unfold roots; simp

theorem mem_bounds {p : Policy} {bs : List Blob} {ms : List Desc} {s : Nat} {d : Desc} :
    (s, d) ∈ bounds p bs ms ↔ d ∈ ms ∧ classify p bs d = .bound s := by
  unfold bounds
  rw [List.mem_filterMap]
  constructor
  · rintro ⟨a, ha, h⟩
    split at h
    · rename_i s' hs
      simp only [Option.some.injEq, Prod.mk.injEq] at h
      obtain ⟨rfl, rfl⟩ := h
      exact ⟨ha, hs⟩
    · cases h
  · rintro ⟨hd, hc⟩
    exact ⟨d, hd, by rw [hc]⟩

/-- an entry is bound to `s` only if it carries the subject annotation `s`, and the blob `s` exists -/
theorem classify_bound {p : Policy} {bs : List Blob} {d : Desc} {s : Nat} (h : classify p bs d = .bound s) :
    d.ann.isNil = false ∧ d.ann.subj = s ∧ s ≠ 0 ∧ (getBlob bs s).isSome = true := by
  unfold classify at h
  split at h
  · rename_i hc
    simp only [Bool.and_eq_true, Bool.not_eq_true', decide_eq_true_eq] at hc
    simp only [] at h
    split at h
    · rename_i h1
      simp only [Bool.and_eq_true] at h1
      cases h; exact ⟨hc.1, rfl, hc.2, h1.2⟩
    · split at h
      · cases h
      · split at h
        · rename_i h3
          split at h
          · cases h
          · cases h; exact ⟨hc.1, rfl, hc.2, h3⟩
        · split at h <;> cases h
  · split at h <;> cases h

/-- at most one top-level entry carries a given subject annotation (invariant of `types.Index`, C18 `subject-unique`) -/
def SubjUnique (ms : List Desc) : Prop :=
  ∀ e1 ∈ ms, ∀ e2 ∈ ms, e1.ann.isNil = false → e2.ann.isNil = false → e1.ann.subj ≠ 0 → e1.ann.subj = e2.ann.subj → e1 = e2

theorem bounds_unique {p : Policy} {bs : List Blob} {ms : List Desc} (hU : SubjUnique ms) {s : Nat} {e1 e2 : Desc}
    (h1 : (s, e1) ∈ bounds p bs ms) (h2 : (s, e2) ∈ bounds p bs ms) : e1 = e2 := by
  obtain ⟨m1, c1⟩ := mem_bounds.mp h1
  obtain ⟨m2, c2⟩ := mem_bounds.mp h2
  obtain ⟨n1, s1, z1, _⟩ := classify_bound c1
  obtain ⟨n2, s2, _, _⟩ := classify_bound c2
  exact hU e1 m1 e2 m2 n1 n2 (by rw [s1]; exact z1) (by rw [s1, s2])

theorem subjOf_mem {subj : List (Nat × Desc)} {g : Nat} {e : Desc} (h : subjOf subj g = some e) : (g, e) ∈ subj := by
  unfold subjOf at h
  cases hf : subj.reverse.find? (·.1 = g) with
  | none => simp [hf] at h
  | some x =>
    simp only [hf, Option.map_some, Option.some.injEq] at h
    have hm := List.mem_of_find?_eq_some hf
    have hp := List.find?_some hf
    simp only [decide_eq_true_eq] at hp
    have : x = (g, e) := by cases x; simp_all
    rw [← this]; exact List.mem_reverse.mp hm

theorem subjOf_of_mem {subj : List (Nat × Desc)} {g : Nat} {e : Desc}
    (hU : ∀ e1 e2, (g, e1) ∈ subj → (g, e2) ∈ subj → e1 = e2) (h : (g, e) ∈ subj) : subjOf subj g = some e := by
  cases hf : subjOf subj g with
  | none =>
    unfold subjOf at hf
    simp only [Option.map_eq_none_iff] at hf
    have := List.find?_eq_none.mp hf (g, e) (List.mem_reverse.mpr h)
    simp at this
  | some e' =>
    have := subjOf_mem hf
    rw [hU e' e this h]

/-! ## phase 2: the walk reaches everything -/

/-- a descriptor opened under class `c` pushes the response registered for it, unless its decoder failed -/
def opens (c : Nat) (b : Blob) : Prop := (c ≠ 1 ∧ c ≠ 2) ∨ b.json = true

theorem resp_mem_pushed {subj : List (Nat × Desc)} {g c : Nat} {b : Blob} {e : Desc}
    (ho : opens c b) (h : subjOf subj g = some e) : e ∈ pushed subj g c b := by
  unfold pushed
  simp only [h]
  rcases ho with ⟨h1, h2⟩ | hj
  · simp [h1, h2]
  · by_cases h2 : c = 2
    · simp [h2, hj]
    · by_cases h1 : c = 1
      · simp [h1, hj]
      · simp [h1, h2]

theorem kid_mem_pushed {subj : List (Nat × Desc)} {g : Nat} {b : Blob} {k : Nat × Nat}
    (hj : b.json = true) (hk : k ∈ b.kids) : ({ mt := k.1, dig := k.2 } : Desc) ∈ pushed subj g 2 b := by
  unfold pushed
  simp only [hj, if_true]
  apply List.mem_append_right
  rw [List.mem_reverse]
  exact List.mem_map_of_mem hk

structure InvW (bs : List Blob) (subj : List (Nat × Desc)) (rts work : List Desc) (I0 : List Nat)
    (walked : List (Nat × Nat)) (seen inIdx : List Nat) : Prop where
  closed : ∀ g c, (g, c) ∈ walked → ∀ b, getBlob bs g = some b →
      (∀ x ∈ pushed subj g c b, getBlob bs x.dig ≠ none → (x.dig, cls x.mt) ∈ walked ∨ x ∈ work) ∧ (∀ m ∈ marked c b, m ∈ seen)
  wseen : ∀ g c, (g, c) ∈ walked → g ∈ seen
  rootsCov : ∀ r ∈ rts, getBlob bs r.dig ≠ none → (r.dig, cls r.mt) ∈ walked ∨ r ∈ work
  idx : ∀ g ∈ inIdx, g ∈ I0 ∨ getBlob bs g = none ∨ g ∈ seen
  idx0 : ∀ g ∈ I0, g ∈ inIdx

theorem walk_inv (bs : List Blob) (subj : List (Nat × Desc)) (rts : List Desc) (I0 : List Nat) :
    ∀ work walked seen inIdx, InvW bs subj rts work I0 walked seen inIdx →
      InvW bs subj rts [] I0 (walk bs subj work walked seen inIdx).walked (walk bs subj work walked seen inIdx).seen
        (walk bs subj work walked seen inIdx).inIdx := by
  intro work walked seen inIdx
  fun_induction walk bs subj work walked seen inIdx with
  | case1 walked seen inIdx => intro h; exact h
  | case2 d work walked seen inIdx hs ih =>
    intro h
    apply ih
    refine ⟨?_, h.wseen, ?_, ?_, fun g hg => List.mem_cons_of_mem _ (h.idx0 g hg)⟩
    · intro g c hw b hb
      obtain ⟨h1, h2⟩ := h.closed g c hw b hb
      refine ⟨?_, h2⟩
      intro x hx hex
      rcases h1 x hx hex with h3 | h3
      · exact Or.inl h3
      · rcases List.mem_cons.mp h3 with rfl | h4
        · exact Or.inl hs
        · exact Or.inr h4
    · intro r hr hex
      rcases h.rootsCov r hr hex with h3 | h3
      · exact Or.inl h3
      · rcases List.mem_cons.mp h3 with rfl | h4
        · exact Or.inl hs
        · exact Or.inr h4
    · intro g hg
      rcases List.mem_cons.mp hg with rfl | hg'
      · exact Or.inr (Or.inr (h.wseen _ _ hs))
      · exact h.idx g hg'
  | case3 d work walked seen inIdx hs hg ih =>
    intro h
    apply ih
    refine ⟨?_, h.wseen, ?_, ?_, fun g hg => List.mem_cons_of_mem _ (h.idx0 g hg)⟩
    · intro g c hw b hb
      obtain ⟨h1, h2⟩ := h.closed g c hw b hb
      refine ⟨?_, h2⟩
      intro x hx hex
      rcases h1 x hx hex with h3 | h3
      · exact Or.inl h3
      · rcases List.mem_cons.mp h3 with rfl | h4
        · exact absurd hg hex
        · exact Or.inr h4
    · intro r hr hex
      rcases h.rootsCov r hr hex with h3 | h3
      · exact Or.inl h3
      · rcases List.mem_cons.mp h3 with rfl | h4
        · exact absurd hg hex
        · exact Or.inr h4
    · intro g hg'
      rcases List.mem_cons.mp hg' with rfl | hg''
      · exact Or.inr (Or.inl hg)
      · exact h.idx g hg''
  | case4 d work walked seen inIdx hs b hg ih =>
    intro h
    apply ih
    refine ⟨?_, ?_, ?_, ?_, fun g hg => List.mem_cons_of_mem _ (h.idx0 g hg)⟩
    · intro g c hw b' hb'
      rcases List.mem_cons.mp hw with heq | hw'
      · have hg1 : g = d.dig := (Prod.mk.inj heq).1
        have hc1 : c = cls d.mt := (Prod.mk.inj heq).2
        subst hg1; subst hc1
        have : b' = b := by rw [hg] at hb'; exact (Option.some.inj hb').symm
        subst this
        exact ⟨fun x hx _ => Or.inr (List.mem_append_left _ hx), fun m hm => List.mem_append_left _ hm⟩
      · obtain ⟨h1, h2⟩ := h.closed g c hw' b' hb'
        refine ⟨?_, fun m hm => List.mem_append_right _ (List.mem_cons_of_mem _ (h2 m hm))⟩
        intro x hx hex
        rcases h1 x hx hex with h3 | h3
        · exact Or.inl (List.mem_cons_of_mem _ h3)
        · rcases List.mem_cons.mp h3 with rfl | h4
          · exact Or.inl List.mem_cons_self
          · exact Or.inr (List.mem_append_right _ h4)
    · intro g c hw
      rcases List.mem_cons.mp hw with heq | hw'
      · have hg1 : g = d.dig := (Prod.mk.inj heq).1
        subst hg1
        exact List.mem_append_right _ List.mem_cons_self
      · exact List.mem_append_right _ (List.mem_cons_of_mem _ (h.wseen g c hw'))
    · intro r hr hex
      rcases h.rootsCov r hr hex with h3 | h3
      · exact Or.inl (List.mem_cons_of_mem _ h3)
      · rcases List.mem_cons.mp h3 with rfl | h4
        · exact Or.inl List.mem_cons_self
        · exact Or.inr (List.mem_append_right _ h4)
    · intro g hg'
      rcases List.mem_cons.mp hg' with rfl | hg''
      · exact Or.inr (Or.inr (List.mem_append_right _ List.mem_cons_self))
      · rcases h.idx g hg'' with h1 | h1 | h1
        · exact Or.inl h1
        · exact Or.inr (Or.inl h1)
        · exact Or.inr (Or.inr (List.mem_append_right _ (List.mem_cons_of_mem _ h1)))

/-- the invariant holds at the start of the walk -/
theorem marks_inv (p : Policy) (ix : Index) (bs : List Blob) :
    InvW bs (bounds p bs ix.manifests) (roots p bs ix.manifests).reverse [] (ix.manifests.map (·.dig)).reverse
      (marks p ix bs).walked (marks p ix bs).seen (marks p ix bs).inIdx := by
  unfold marks
  apply walk_inv
  exact ⟨by intro g c h; simp at h, by intro g c h; simp at h, fun r hr _ => Or.inr hr,
    fun g hg => Or.inl hg, fun g hg => hg⟩

/-! ## the specification -/

/-- `RetD p bs ms g c`: the policy retains the descriptor with digest `g`, opened under class `c`, and its blob exists.
    Roots by the keep table of phase 1; closed under the children of an index and under the response registered for
    a retained subject (so under its referrers, and theirs). -/
inductive RetD (p : Policy) (bs : List Blob) (ms : List Desc) : Nat → Nat → Prop
  | root {e : Desc} {b : Blob} : e ∈ ms → classify p bs e = .root → getBlob bs e.dig = some b → RetD p bs ms e.dig (cls e.mt)
  | child {g : Nat} {b b' : Blob} {k : Nat × Nat} : RetD p bs ms g 2 → getBlob bs g = some b → b.json = true → k ∈ b.kids →
      getBlob bs k.2 = some b' → RetD p bs ms k.2 (cls k.1)
  | resp {g c : Nat} {b b' : Blob} {e : Desc} : RetD p bs ms g c → getBlob bs g = some b → opens c b → e ∈ ms →
      classify p bs e = .bound g → getBlob bs e.dig = some b' → RetD p bs ms e.dig (cls e.mt)

theorem RetD.exists {p : Policy} {bs : List Blob} {ms : List Desc} {g c : Nat} (h : RetD p bs ms g c) :
    ∃ b, getBlob bs g = some b := by
  induction h with
  | root _ _ hb => exact ⟨_, hb⟩
  | child _ _ _ _ hb _ => exact ⟨_, hb⟩
  | resp _ _ _ _ _ hb _ => exact ⟨_, hb⟩

/-- the digests the policy retains: retained descriptors, config and layers of retained images, and — while the grace
    period runs — recent blobs that no top-level entry names -/
inductive Retained (p : Policy) (bs : List Blob) (ms : List Desc) : Nat → Prop
  | desc {g c : Nat} : RetD p bs ms g c → Retained p bs ms g
  | cfg {g : Nat} {b : Blob} : RetD p bs ms g 1 → getBlob bs g = some b → b.json = true → Retained p bs ms b.cfg
  | layer {g l : Nat} {b : Blob} : RetD p bs ms g 1 → getBlob bs g = some b → b.json = true → l ∈ b.layers → Retained p bs ms l
  | recent {b : Blob} : b ∈ bs → b.dig ≠ 0 → p.grace = true → b.recent = true → (∀ e ∈ ms, e.dig ≠ b.dig) → Retained p bs ms b.dig

/-- every retained descriptor is opened by the walk -/
theorem retD_walked {p : Policy} {ix : Index} {bs : List Blob} (hU : SubjUnique ix.manifests) {g c : Nat}
    (h : RetD p bs ix.manifests g c) : (g, c) ∈ (marks p ix bs).walked := by
  have inv := marks_inv p ix bs
  induction h with
  | @root e b hm hc hb =>
    have hr : e ∈ (roots p bs ix.manifests).reverse := List.mem_reverse.mpr (mem_roots.mpr ⟨hm, hc⟩)
    rcases inv.rootsCov e hr (by rw [hb]; simp) with h1 | h1
    · exact h1
    · simp at h1
  | @child g b b' k _ hb hj hk hb' ih =>
    have := (inv.closed g 2 ih b hb).1 _ (kid_mem_pushed (subj := bounds p bs ix.manifests) (g := g) hj hk) (by simp [hb'])
    rcases this with h1 | h1
    · exact h1
    · simp at h1
  | @resp g c b b' e _ hb ho hm hc hb' ih =>
    have hs : subjOf (bounds p bs ix.manifests) g = some e :=
      subjOf_of_mem (fun e1 e2 h1 h2 => bounds_unique hU h1 h2) (mem_bounds.mpr ⟨hm, hc⟩)
    have := (inv.closed g c ih b hb).1 e (resp_mem_pushed ho hs) (by simp [hb'])
    rcases this with h1 | h1
    · exact h1
    · simp at h1

/-! ## phase 3: the sweep -/

/-- the sweep's keep condition for one blob -/
def keepB (p : Policy) (seen inIdx : List Nat) (b : Blob) : Bool :=
  seen.contains b.dig || (p.grace && b.recent && !inIdx.contains b.dig)

theorem sweepStep_snd (p : Policy) (seen inIdx : List Nat) (acc : Index × List Nat) (b : Blob) :
    (sweepStep p seen inIdx acc b).2 = if keepB p seen inIdx b then acc.2 ++ [b.dig] else acc.2 := by
  unfold sweepStep keepB
  cases h1 : seen.contains b.dig <;> cases h2 : (p.grace && b.recent && !inIdx.contains b.dig) <;> simp [h1, h2]

theorem sweep_blobs (p : Policy) (seen inIdx : List Nat) :
    ∀ (bs : List Blob) (acc : Index × List Nat),
      (bs.foldl (sweepStep p seen inIdx) acc).2 = acc.2 ++ (bs.filter (keepB p seen inIdx)).map (·.dig) := by
  intro bs
  induction bs with
  | nil => intro acc; simp
  | cons b rest ih =>
    intro acc
    simp only [List.foldl_cons]
    rw [ih, sweepStep_snd]
    by_cases hk : keepB p seen inIdx b = true
    · simp [hk, List.filter_cons]
    · simp [hk, List.filter_cons]

/-- the blobs that survive the collection -/
theorem gc_blobs (p : Policy) (ix : Index) (bs : List Blob) :
    (gc p ix bs).blobs = (bs.filter (keepB p (marks p ix bs).seen (marks p ix bs).inIdx)).map (·.dig) := by
  unfold gc
  simp only [sweep_blobs]
  simp

theorem mem_gc_blobs {p : Policy} {ix : Index} {bs : List Blob} {g : Nat} :
    g ∈ (gc p ix bs).blobs ↔ ∃ b ∈ bs, b.dig = g ∧ keepB p (marks p ix bs).seen (marks p ix bs).inIdx b = true := by
  rw [gc_blobs, List.mem_map]
  constructor
  · rintro ⟨b, hb, rfl⟩
    obtain ⟨h1, h2⟩ := List.mem_filter.mp hb
    exact ⟨b, h1, rfl, h2⟩
  · rintro ⟨b, h1, rfl, h2⟩
    exact ⟨b, List.mem_filter.mpr ⟨h1, h2⟩, rfl⟩

theorem seen_kept {p : Policy} {ix : Index} {bs : List Blob} {b : Blob} (hb : b ∈ bs)
    (hs : b.dig ∈ (marks p ix bs).seen) : b.dig ∈ (gc p ix bs).blobs :=
  mem_gc_blobs.mpr ⟨b, hb, rfl, by unfold keepB; simp [hs]⟩

/-- C05: whatever the policy retains survives the collection -/
theorem gc_keeps_retained' {p : Policy} {ix : Index} {bs : List Blob} (hU : SubjUnique ix.manifests) {g : Nat}
    (h : Retained p bs ix.manifests g) : ∀ b ∈ bs, b.dig = g → g ∈ (gc p ix bs).blobs := by
  have inv := marks_inv p ix bs
  intro b hb hg
  cases h with
  | desc hd =>
    subst hg
    exact seen_kept hb (inv.wseen _ _ (retD_walked hU hd))
  | @cfg h bh hd hbg hj =>
    have := (inv.closed h 1 (retD_walked hU hd) bh hbg).2 bh.cfg (by unfold marked; simp [hj])
    rw [← hg] at this ⊢
    exact seen_kept hb this
  | @layer h _ bh hd hbg hj hl =>
    have := (inv.closed h 1 (retD_walked hU hd) bh hbg).2 g (by unfold marked; simp [hj, hl])
    rw [← hg] at this ⊢
    exact seen_kept hb this
  | @recent b' hb' hnz hgr hr hne =>
    by_cases hs : b'.dig ∈ (marks p ix bs).seen
    · rw [← hg] at hs ⊢; exact seen_kept hb hs
    · refine mem_gc_blobs.mpr ⟨b', hb', rfl, ?_⟩
      unfold keepB
      have hni : b'.dig ∉ (marks p ix bs).inIdx := by
        intro hi
        rcases inv.idx _ hi with h1 | h1 | h1
        · rw [List.mem_reverse, List.mem_map] at h1
          obtain ⟨e, he, hed⟩ := h1
          exact hne e he hed
        · exact getBlob_of_mem hb' hnz h1
        · exact hs h1
      simp [hgr, hr, hni]
end Ixd
