import Ixd.Loop
/-! scratch: executable transcription of types.Index (types/manifest.go) for a differential run -/
namespace Ixd

/-- Go `map[string]string` annotations as far as the code can observe them -/
structure Ann where
  isNil : Bool := true
  tag   : Nat := 0      -- 0 = key absent
  subj  : Nat := 0
  other : Nat := 0      -- number of other keys
  deriving DecidableEq, Repr

def Ann.len (a : Ann) : Nat := (if a.tag ≠ 0 then 1 else 0) + (if a.subj ≠ 0 then 1 else 0) + a.other

structure Desc where
  mt  : Nat
  dig : Nat             -- 0 = empty digest
  size : Nat := 0
  ann : Ann := {}
  deriving DecidableEq, Repr

structure Index where
  manifests : List Desc := []
  children  : List Desc := []
  deriving DecidableEq, Repr

/-- RmDesc, children loop: drop every child with the digest -/
def rmChildStep (dig : Nat) (_ : Unit) (c : Desc) : Unit × Act Desc :=
  if c.dig = dig then ((), .drop) else ((), .keep)

/-- RmDesc, main loop body; the threaded state is Go's `found` -/
def rmMainStep (d : Desc) (tag subj : Nat) (found : Bool) (e : Desc) : Bool × Act Desc :=
  if d.dig ≠ 0 ∧ e.dig = d.dig then
    if tag ≠ 0 then
      if found ∧ (e.ann.len = 0 ∨ e.ann.tag = tag) then (true, .drop)
      else if ¬ e.ann.isNil ∧ e.ann.tag = tag then (true, .set { e with ann := { e.ann with tag := 0 } })
      else (true, .keep)
    else (found, .drop)
  else if d.dig = 0 ∧ ¬ e.ann.isNil ∧ ((tag ≠ 0 ∧ e.ann.tag = tag) ∨ (subj ≠ 0 ∧ e.ann.subj = subj)) then (found, .drop)
  else (found, .keep)

def rmDesc (ix : Index) (d : Desc) : Index :=
  let tag := if d.ann.isNil then 0 else d.ann.tag
  let subj := if d.ann.isNil then 0 else d.ann.subj
  let ch := if tag = 0 ∧ d.dig ≠ 0 then (descLoop (rmChildStep d.dig) ix.children.length () ix.children).2 else ix.children
  { manifests := (descLoop (rmMainStep d tag subj) ix.manifests.length false ix.manifests).2, children := ch }

/-- first loop of AddDesc; `mi` is the Go loop variable + 1 -/
def addUntagLoop (d : Desc) (tag subj : Nat) : Nat → Index → Index
  | 0, ix => ix
  | mi+1, ix =>
    match ix.manifests[mi]? with
    | none => addUntagLoop d tag subj mi ix      -- unreachable in Go thanks to the clamp; see below
    | some e =>
      if e.dig ≠ d.dig ∧ ¬ e.ann.isNil then
        if tag ≠ 0 ∧ e.ann.tag = tag then
          let ix' := rmDesc ix { mt := e.mt, dig := e.dig, size := e.size, ann := { isNil := false, tag := tag } }
          -- Go: `if mi > len { mi = len }` then `mi--`
          let miGo := if mi > ix'.manifests.length then ix'.manifests.length else mi
          addUntagLoop d tag subj miGo ix'
        else if subj ≠ 0 ∧ e.ann.subj = subj then
          addUntagLoop d tag subj mi { ix with manifests := swapRemove ix.manifests mi }
        else addUntagLoop d tag subj mi ix
      else addUntagLoop d tag subj mi ix
termination_by mi _ => mi
decreasing_by
  all_goals simp_wf
  all_goals (try split)
  all_goals omega

def findIdx (p : Desc → Bool) : List Desc → Nat → Option Nat
  | [], _ => none
  | x :: xs, i => if p x then some i else findIdx p xs (i+1)

def moveChildren : List Desc → Index → Index
  | [], ix => ix
  | cd :: cs, ix =>
    match findIdx (fun m => m.dig = cd.dig ∧ m.ann.len = 0) ix.manifests 0 with
    | some mi => moveChildren cs { manifests := swapRemove ix.manifests mi, children := ix.children ++ [cd] }
    | none =>
      -- children that were never top-level entries are recorded too (unless the digest is known already)
      if ix.manifests.any (·.dig = cd.dig) ∨ ix.children.any (·.dig = cd.dig) then moveChildren cs ix
      else moveChildren cs { ix with children := ix.children ++ [cd] }

def compatible (md : Desc) (tag subj : Nat) : Bool :=
  md.ann.isNil ∨ ((md.ann.tag = 0 ∨ md.ann.tag = tag) ∧ (md.ann.subj = 0 ∨ md.ann.subj = subj))

/-- last part of AddDesc for a descriptor with a tag or referrer annotation: an entry of the digest that already
    carries the same tag and referrer is overwritten, else the first compatible entry, else `d` is appended -/
def placeDesc (l : List Desc) (d : Desc) (tag subj : Nat) : List Desc :=
  match findIdx (fun md => md.dig = d.dig ∧ ¬ md.ann.isNil ∧ md.ann.tag = tag ∧ md.ann.subj = subj) l 0 with
  | some mi => l.set mi d
  | none =>
    match findIdx (fun md => md.dig = d.dig ∧ compatible md tag subj) l 0 with
    | some mi => l.set mi d
    | none => l ++ [d]

def addDesc (ix : Index) (d : Desc) (children : List Desc := []) : Index :=
  let tag := if d.ann.isNil then 0 else d.ann.tag
  let subj := if d.ann.isNil then 0 else d.ann.subj
  let ix1 := if tag ≠ 0 ∨ subj ≠ 0 then addUntagLoop d tag subj ix.manifests.length ix else ix
  let ix2 := match findIdx (fun c => c.dig = d.dig) ix1.children 0 with
    | some ci => { ix1 with children := swapRemove ix1.children ci }
    | none => ix1
  let ix3 := moveChildren children ix2
  if tag = 0 ∧ subj = 0 then
    if ix3.manifests.any (·.dig = d.dig) then ix3 else { ix3 with manifests := ix3.manifests ++ [d] }
  else
    { ix3 with manifests := placeDesc ix3.manifests d tag subj }

/-- GetDesc: 1 = found (prints mt,dig,size,tag), 0 = not found -/
def getDescTag (ix : Index) (t : Nat) : Option Desc :=
  if ix.manifests.isEmpty then none else ix.manifests.find? (fun d => ¬ d.ann.isNil ∧ d.ann.tag = t)
def getDescDig (ix : Index) (g : Nat) : Option Desc :=
  if ix.manifests.isEmpty ∧ ix.children.isEmpty then none else
  match ix.manifests.find? (·.dig = g) with
  | some d => some { mt := d.mt, dig := d.dig, size := d.size }
  | none => (ix.children.find? (·.dig = g)).map fun d => { mt := d.mt, dig := d.dig, size := d.size }
def getBySubj (ix : Index) (s : Nat) : Option Desc :=
  ix.manifests.find? (fun d => ¬ d.ann.isNil ∧ d.ann.subj = s)

/-- JSON round trip: empty map is omitted and comes back nil; children are not persisted -/
def roundTrip (ix : Index) : Index :=
  { manifests := ix.manifests.map fun d => if d.ann.len = 0 then { d with ann := {} } else d, children := [] }
end Ixd
