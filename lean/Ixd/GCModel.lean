import Ixd.Basic
/-!
# The collector: `repoGarbageCollect` (internal/store/store.go)

Transcription of the function as repaired by `patches/F4-gc-digest-roles.diff`: the mark phase remembers which
descriptors it has *opened* per (digest, parse class) in `walked`, separately from the set `seen` of digests that
must survive.  (Before the repair one map `seen` served both purposes, so a digest that was marked as a layer/config,
or opened under another media type, was never opened as the manifest it also is — finding F4.)

* phase 1 (`classify`, `roots`, `bounds`): the keep decision for every top-level entry, including the
  referrers/subject table;
* phase 2 (`walk`): the work-list walk, defined by well-founded recursion on
  (number of (blob, class) pairs not yet opened, length of the work list) — no fuel;
* phase 3 (`sweepStep`): the sweep with the grace / `inIndex` condition and the pruning of index entries;
* phase 4: entries named in `inIndex` without a blob, then (F41, `patches/F41-gc-child-records-without-content.diff`)
  child records without a blob.

Digests, media types, tags are numerals (0 = empty); a blob is what the two JSON decoders of the walk can see of it.
-/
namespace Ixd

/-- a blob as the collector sees it: does it decode as a JSON object, and if so which config, layers (`types.Manifest`)
    and which child descriptors (`types.Index`, (media type, digest)) it names; `recent` = younger than the grace period -/
structure Blob where
  dig : Nat
  json : Bool := true
  cfg : Nat := 0
  layers : List Nat := []
  kids : List (Nat × Nat) := []
  recent : Bool := false
  deriving Repr, DecidableEq

/-- `config.ConfigGC`: Untagged, ReferrersDangling, ReferrersWithSubj, `GracePeriod >= 0` -/
structure Policy where
  untagged : Bool
  dangling : Bool
  withSubj : Bool
  grace : Bool
  deriving Repr, DecidableEq

def getBlob (bs : List Blob) (d : Nat) : Option Blob := if d = 0 then none else bs.find? (·.dig = d)
/-- `types.MediaTypeIndex`: 2 = OCI index, 4 = Docker manifest list -/
def isIndexMT (mt : Nat) : Bool := mt = 2 || mt = 4
/-- `types.MediaTypeImage`: 1 = OCI manifest, 5 = Docker manifest v2 -/
def isImageMT (mt : Nat) : Bool := mt = 1 || mt = 5
/-- how the walk opens a descriptor: 2 as an index, 1 as an image, 0 as a plain blob -/
def cls (mt : Nat) : Nat := if isIndexMT mt then 2 else if isImageMT mt then 1 else 0

theorem cls_lt (mt : Nat) : cls mt < 3 := by unfold cls; split <;> (try split) <;> omega

/-! ## phase 1 -/

/-- `meta.mod.After(cutoff)` for an existing blob, with the grace period enabled -/
def recentB (p : Policy) (bs : List Blob) (g : Nat) : Bool :=
  match getBlob bs g with | some b => p.grace && b.recent | none => false

/-- keep tagged entries, every entry if untagged entries are not collected, and new entries -/
def general (p : Policy) (bs : List Blob) (d : Desc) : Bool :=
  !p.untagged || (!d.ann.isNil && d.ann.tag ≠ 0) || recentB p bs d.dig

inductive Cell
  | root                -- `keep = true`: the entry starts the walk
  | bound (s : Nat)     -- `subjects[s] = d; keep = false`: preserved only if the subject is opened by the walk
  | drop                -- `keep = false`
  deriving Repr, DecidableEq

/-- the keep decision of the first loop for one entry (it does not depend on the other entries) -/
def classify (p : Policy) (bs : List Blob) (d : Desc) : Cell :=
  if !d.ann.isNil && d.ann.subj ≠ 0 then
    let s := d.ann.subj
    let ex := (getBlob bs s).isSome
    if p.withSubj && ex then .bound s
    else if !p.dangling then .root
    else if ex then (if recentB p bs d.dig then .root else .bound s)
    else if general p bs d then .root else .drop
  else if general p bs d then .root else .drop

/-- `manifests`: the kept entries in index order (the walk pops from the tail) -/
def roots (p : Policy) (bs : List Blob) (ms : List Desc) : List Desc := ms.filter (fun d => classify p bs d = .root)
/-- `subjects`, as the list of registrations in index order (the Go map keeps the last one per subject) -/
def bounds (p : Policy) (bs : List Blob) (ms : List Desc) : List (Nat × Desc) :=
  ms.filterMap (fun d => match classify p bs d with | .bound s => some (s, d) | _ => none)
/-- `subjects[g]` -/
def subjOf (subj : List (Nat × Desc)) (g : Nat) : Option Desc := (subj.reverse.find? (·.1 = g)).map (·.2)

/-! ## phase 2 -/

def keysOf (bs : List Blob) : List Nat := bs.map (·.dig)
def pairsOf (bs : List Blob) : List (Nat × Nat) := (keysOf bs).flatMap (fun k => [(k, 0), (k, 1), (k, 2)])
def unwalked (bs : List Blob) (walked : List (Nat × Nat)) : Nat := ((pairsOf bs).filter (fun k => k ∉ walked)).length

theorem getBlob_mem {bs : List Blob} {g : Nat} {b : Blob} (h : getBlob bs g = some b) : g ∈ keysOf bs := by
  unfold getBlob at h
  split at h
  · cases h
  · have hp := List.mem_of_find?_eq_some h
    have hk := List.find?_some h
    simp at hk
    unfold keysOf; rw [← hk]; exact List.mem_map_of_mem hp

theorem getBlob_mem_bs {bs : List Blob} {g : Nat} {b : Blob} (h : getBlob bs g = some b) : b ∈ bs ∧ b.dig = g := by
  unfold getBlob at h
  split at h
  · cases h
  · exact ⟨List.mem_of_find?_eq_some h, by simpa using List.find?_some h⟩

theorem getBlob_ne_zero {bs : List Blob} {g : Nat} {b : Blob} (h : getBlob bs g = some b) : g ≠ 0 := by
  unfold getBlob at h
  split at h
  · cases h
  · assumption

theorem filter_notin_le {α : Type} [BEq α] [LawfulBEq α] (ks : List α) (a : α) (w : List α) :
    (ks.filter (fun k => k ∉ a :: w)).length ≤ (ks.filter (fun k => k ∉ w)).length := by
  induction ks with
  | nil => simp
  | cons k ks ih =>
    simp only [List.filter_cons]
    by_cases h1 : k ∈ w
    · have h2 : k ∈ a :: w := List.mem_cons_of_mem _ h1
      simp [h1, h2]; simpa using ih
    · by_cases h2 : k = a
      · subst h2; simp [h1]
        have := ih; simp at this; omega
      · have h3 : k ∉ a :: w := by simp [h1, h2]
        simp [h1, h3]; simpa using ih

theorem filter_notin_lt {α : Type} [BEq α] [LawfulBEq α] (ks : List α) (a : α) (w : List α) (ha : a ∈ ks) (hw : a ∉ w) :
    (ks.filter (fun k => k ∉ a :: w)).length < (ks.filter (fun k => k ∉ w)).length := by
  induction ks with
  | nil => simp at ha
  | cons k ks ih =>
    simp only [List.filter_cons]
    by_cases hka : k = a
    · subst hka
      have := filter_notin_le ks k w
      simp at this
      simp [hw]; omega
    · have ha' : a ∈ ks := by
        rcases List.mem_cons.mp ha with h | h
        · exact absurd h.symm hka
        · exact h
      have := ih ha'
      simp at this
      by_cases hkw : k ∈ w
      · have h2 : k ∈ a :: w := List.mem_cons_of_mem _ hkw
        simp [hkw]; omega
      · have h3 : k ∉ a :: w := by simp [hkw, hka]
        simp [hkw, hka]; omega

theorem pair_mem {bs : List Blob} {g c : Nat} {b : Blob} (h : getBlob bs g = some b) (hc : c < 3) : (g, c) ∈ pairsOf bs := by
  unfold pairsOf
  refine List.mem_flatMap.mpr ⟨g, getBlob_mem h, ?_⟩
  have : c = 0 ∨ c = 1 ∨ c = 2 := by omega
  rcases this with rfl | rfl | rfl <;> simp

theorem unwalked_lt (bs : List Blob) (g c : Nat) (b : Blob) (walked : List (Nat × Nat))
    (h : getBlob bs g = some b) (hc : c < 3) (hs : (g, c) ∉ walked) :
    unwalked bs ((g, c) :: walked) < unwalked bs walked := by
  have := filter_notin_lt (pairsOf bs) (g, c) walked (pair_mem h hc) hs
  unfold unwalked
  exact this

/-- what opening the descriptor (digest `g`, class `c`, blob `b`) pushes on the work list, in pop order: the referrers
    response registered for `g` first, then the children last-to-first; nothing if the decoder fails -/
def pushed (subj : List (Nat × Desc)) (g c : Nat) (b : Blob) : List Desc :=
  let viaSubj := match subjOf subj g with | some r => [r] | none => []
  if c = 2 then (if b.json then viaSubj ++ (b.kids.map fun k => ({ mt := k.1, dig := k.2 } : Desc)).reverse else [])
  else if c = 1 then (if b.json then viaSubj else [])
  else viaSubj

/-- what opening it adds to `seen` besides its own digest: config and layers of an image -/
def marked (c : Nat) (b : Blob) : List Nat := if c = 1 ∧ b.json = true then b.layers.reverse ++ [b.cfg] else []

structure Marks where
  walked : List (Nat × Nat)
  seen : List Nat
  inIdx : List Nat
  deriving Repr

/-- the walk; `work` is a stack whose head is popped -/
def walk (bs : List Blob) (subj : List (Nat × Desc)) : List Desc → List (Nat × Nat) → List Nat → List Nat → Marks
  | [], walked, seen, inIdx => ⟨walked, seen, inIdx⟩
  | d :: work, walked, seen, inIdx =>
    if hs : (d.dig, cls d.mt) ∈ walked then walk bs subj work walked seen (d.dig :: inIdx)
    else
      match hg : getBlob bs d.dig with
      | none => walk bs subj work walked seen (d.dig :: inIdx)
      | some b => walk bs subj (pushed subj d.dig (cls d.mt) b ++ work) ((d.dig, cls d.mt) :: walked)
                    (marked (cls d.mt) b ++ d.dig :: seen) (d.dig :: inIdx)
termination_by work walked _ _ => (unwalked bs walked, work.length)
decreasing_by
  · apply Prod.Lex.right; simp
  · apply Prod.Lex.right; simp
  · apply Prod.Lex.left
    exact unwalked_lt bs d.dig (cls d.mt) b walked hg (cls_lt _) hs

/-! ## phases 3 and 4 -/

structure GCOut where
  index : Index
  blobs : List Nat
  deriving Repr

/-- one step of the sweep over the blob list: keep what was seen, keep recent blobs that no index entry or walked
    descriptor names, otherwise prune from the index (if `GetDesc` finds the digest) and delete -/
def sweepStep (p : Policy) (seen inIdx : List Nat) (acc : Index × List Nat) (b : Blob) : Index × List Nat :=
  if seen.contains b.dig then (acc.1, acc.2 ++ [b.dig])
  else if p.grace && b.recent && !inIdx.contains b.dig then (acc.1, acc.2 ++ [b.dig])
  else ((if (getDescDig acc.1 b.dig).isSome then rmDesc acc.1 { mt := 0, dig := b.dig } else acc.1), acc.2)

/-- phases 1 and 2 -/
def marks (p : Policy) (ix : Index) (bs : List Blob) : Marks :=
  walk bs (bounds p bs ix.manifests) (roots p bs ix.manifests).reverse [] [] (ix.manifests.map (·.dig)).reverse

/-- `cleanup index entries without a backing blob` -/
def pruneStep (bs : List Blob) (ix : Index) (g : Nat) : Index :=
  if (getBlob bs g).isNone ∧ g ≠ 0 then rmDesc ix { mt := 0, dig := g } else ix

/-- `the same for child records` (F41): every child record, as listed after the two loops before, whose digest has no blob
    in the blob list taken before the sweep is removed — its parent may not have been walked -/
def pruneChildren (bs : List Blob) (ix : Index) : Index := (ix.children.map (·.dig)).foldl (pruneStep bs) ix

def gc (p : Policy) (ix : Index) (bs : List Blob) : GCOut :=
  let m := marks p ix bs
  let sw := bs.foldl (sweepStep p m.seen m.inIdx) (ix, [])
  { index := pruneChildren bs (m.inIdx.foldl (pruneStep bs) sw.1), blobs := sw.2 }

/-- the blobs of the repository after the collection -/
def gcBlobs (p : Policy) (ix : Index) (bs : List Blob) : List Blob := bs.filter (fun b => (gc p ix bs).blobs.contains b.dig)
end Ixd
