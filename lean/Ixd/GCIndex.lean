import Ixd.GCOnly
import Ixd.RmProofs
/-!
# The index after a collection

The sweep prunes the entries of every deleted blob (`index.GetDesc` / `index.RmDesc` by digest), the last loop those
of every digest in `inIndex` that has no blob.  Up to the order swap-removes leave behind, the resulting top-level
list (and child list) is the old one filtered by digest: `gc_manifests`, `gc_children`; after F41 a last step drops
every child record whose digest has no blob (`pruneChildren`, `gc_children_backed'`).  Consequences:
`gc_index_backed` (no entry without a blob), `gc_index_keeps` (entries of kept digests stay, tags included).
-/
namespace Ixd

theorem getDescDig_isSome (ix : Index) (g : Nat) :
    (getDescDig ix g).isSome = true ↔ (∃ e ∈ ix.manifests, e.dig = g) ∨ (∃ e ∈ ix.children, e.dig = g) := by
  unfold getDescDig
  split
  · rename_i h
    simp only [List.isEmpty_iff] at h
    simp [h.1, h.2]
  · cases hf : ix.manifests.find? (·.dig = g) with
    | some d =>
      simp only [Option.isSome_some, true_iff]
      left
      exact ⟨d, List.mem_of_find?_eq_some hf, by simpa using List.find?_some hf⟩
    | none =>
      simp only [Option.isSome_map]
      have hn := List.find?_eq_none.mp hf
      constructor
      · intro h
        right
        cases hc : ix.children.find? (·.dig = g) with
        | none => simp [hc] at h
        | some d => exact ⟨d, List.mem_of_find?_eq_some hc, by simpa using List.find?_some hc⟩
      · rintro (⟨e, he, hg⟩ | ⟨e, he, hg⟩)
        · have := hn e he; simp [hg] at this
        · rw [List.find?_isSome]
          exact ⟨e, he, by simp [hg]⟩

/-- `if _, err := index.GetDesc(d); err == nil { index.RmDesc(Descriptor{Digest: d}) }` -/
def rmGuard (ix : Index) (g : Nat) : Index := if (getDescDig ix g).isSome then rmDesc ix { mt := 0, dig := g } else ix

theorem rmGuard_manifests (ix : Index) {g : Nat} (hg : g ≠ 0) :
    (rmGuard ix g).manifests.Perm (ix.manifests.filter (fun e => e.dig ≠ g)) := by
  unfold rmGuard
  split
  · exact rmDesc_digest_manifests ix { mt := 0, dig := g } rfl hg
  · rename_i h
    have hn : ¬ ((∃ e ∈ ix.manifests, e.dig = g) ∨ (∃ e ∈ ix.children, e.dig = g)) := fun hx => h ((getDescDig_isSome ix g).mpr hx)
    rw [List.filter_eq_self.mpr]
    intro e he
    simp only [ne_eq, decide_eq_true_eq]
    intro heq
    exact hn (Or.inl ⟨e, he, heq⟩)

theorem rmGuard_children (ix : Index) {g : Nat} (hg : g ≠ 0) :
    (rmGuard ix g).children.Perm (ix.children.filter (fun e => e.dig ≠ g)) := by
  unfold rmGuard
  split
  · exact rmDesc_digest_children ix { mt := 0, dig := g } rfl hg
  · rename_i h
    have hn : ¬ ((∃ e ∈ ix.manifests, e.dig = g) ∨ (∃ e ∈ ix.children, e.dig = g)) := fun hx => h ((getDescDig_isSome ix g).mpr hx)
    rw [List.filter_eq_self.mpr]
    intro e he
    simp only [ne_eq, decide_eq_true_eq]
    intro heq
    exact hn (Or.inr ⟨e, he, heq⟩)

theorem filter_ne_some (l : List Desc) (g : Nat) :
    l.filter (fun e => e.dig ≠ g) = l.filter (fun e => (some g : Option Nat) != some e.dig) := by
  apply List.filter_congr
  intro e _
  by_cases he : e.dig = g
  · subst he; simp
  · have : g ≠ e.dig := fun h => he h.symm
    simp [he, this]

theorem filter_none (l : List Desc) : l.filter (fun e => (none : Option Nat) != some e.dig) = l := by
  apply List.filter_eq_self.mpr
  intro e _
  simp

/-- a fold of steps each of which removes (up to order) the entries of at most one digest removes the entries of all
    those digests; `sel` is the top-level list or the child list -/
theorem fold_perm {α : Type} (sel : Index → List Desc) (f : Index → α → Index) (dg : α → Option Nat) :
    ∀ (l : List α), (∀ a ∈ l, ∀ jx, (sel (f jx a)).Perm ((sel jx).filter (fun e => dg a != some e.dig))) →
      ∀ (jx : Index), (sel (l.foldl f jx)).Perm ((sel jx).filter (fun e => l.all (fun a => dg a != some e.dig))) := by
  intro l
  induction l with
  | nil =>
    intro _ jx
    have : (sel jx).filter (fun e => ([] : List α).all (fun a => dg a != some e.dig)) = sel jx :=
      List.filter_eq_self.mpr (by intro e _; simp)
    rw [this]
    exact List.Perm.refl _
  | cons a rest ih =>
    intro hf jx
    simp only [List.foldl_cons]
    refine (ih (fun b hb => hf b (List.mem_cons_of_mem _ hb)) (f jx a)).trans ?_
    refine ((hf a List.mem_cons_self jx).filter _).trans ?_
    rw [List.filter_filter]
    apply List.Perm.of_eq
    apply List.filter_congr
    intro e _
    simp only [List.all_cons]
    exact Bool.and_comm _ _

/-- the digest the sweep prunes for blob `b` -/
def dgS (p : Policy) (seen inIdx : List Nat) (b : Blob) : Option Nat := if keepB p seen inIdx b then none else some b.dig
/-- the digest the last loop prunes for `g ∈ inIndex` -/
def dgP (bs : List Blob) (g : Nat) : Option Nat := if (getBlob bs g).isNone ∧ g ≠ 0 then some g else none

theorem sweepStep_fst (p : Policy) (seen inIdx : List Nat) (acc : Index × List Nat) (b : Blob) :
    (sweepStep p seen inIdx acc b).1 = if keepB p seen inIdx b then acc.1 else rmGuard acc.1 b.dig := by
  unfold sweepStep keepB rmGuard
  cases h1 : seen.contains b.dig <;> cases h2 : (p.grace && b.recent && !inIdx.contains b.dig) <;> simp [h1, h2]

theorem sweep_fst (p : Policy) (seen inIdx : List Nat) :
    ∀ (bs : List Blob) (acc : Index × List Nat),
      (bs.foldl (sweepStep p seen inIdx) acc).1 =
        bs.foldl (fun ix b => if keepB p seen inIdx b then ix else rmGuard ix b.dig) acc.1 := by
  intro bs
  induction bs with
  | nil => intro acc; rfl
  | cons b rest ih => intro acc; simp only [List.foldl_cons]; rw [ih, sweepStep_fst]

/-- which entries survive: no deleted blob and no blob-less digest of `inIndex` has their digest -/
def survives (p : Policy) (ix : Index) (bs : List Blob) (e : Desc) : Bool :=
  bs.all (fun b => dgS p (marks p ix bs).seen (marks p ix bs).inIdx b != some e.dig) &&
  (marks p ix bs).inIdx.all (fun g => dgP bs g != some e.dig)

/-- the index after the sweep and the loop over `inIndex`, before the child records are looked at -/
def gcPre (p : Policy) (ix : Index) (bs : List Blob) : Index :=
  (marks p ix bs).inIdx.foldl (pruneStep bs) (bs.foldl (sweepStep p (marks p ix bs).seen (marks p ix bs).inIdx) (ix, [])).1

theorem gc_index_eq (p : Policy) (ix : Index) (bs : List Blob) : (gc p ix bs).index = pruneChildren bs (gcPre p ix bs) := rfl

theorem gcPre_sel (sel : Index → List Desc)
    (h1 : ∀ (jx : Index) (g : Nat), g ≠ 0 → (sel (rmGuard jx g)).Perm ((sel jx).filter (fun e => e.dig ≠ g)))
    (h2 : ∀ (jx : Index) (g : Nat), g ≠ 0 → (sel (rmDesc jx { mt := 0, dig := g })).Perm ((sel jx).filter (fun e => e.dig ≠ g)))
    (p : Policy) (ix : Index) (bs : List Blob) (hz : ∀ b ∈ bs, b.dig ≠ 0) :
    (sel (gcPre p ix bs)).Perm ((sel ix).filter (survives p ix bs)) := by
  unfold gcPre
  rw [sweep_fst]
  -- the sweep
  have hs := fold_perm sel (fun jx b => if keepB p (marks p ix bs).seen (marks p ix bs).inIdx b then jx else rmGuard jx b.dig)
    (dgS p (marks p ix bs).seen (marks p ix bs).inIdx) bs (by
      intro a ha jx
      unfold dgS
      by_cases hk : keepB p (marks p ix bs).seen (marks p ix bs).inIdx a = true
      · simp only [hk, if_true]
        rw [filter_none]
      · have hk' : keepB p (marks p ix bs).seen (marks p ix bs).inIdx a = false := by simpa using hk
        simp only [hk', Bool.false_eq_true, if_false]
        rw [← filter_ne_some]
        exact h1 jx a.dig (hz a ha)) ix
  -- the last loop
  have hp := fold_perm sel (pruneStep bs) (dgP bs) (marks p ix bs).inIdx (by
    intro g _ jx
    unfold pruneStep dgP
    by_cases hc : (getBlob bs g).isNone = true ∧ g ≠ 0
    · rw [if_pos hc, if_pos hc, ← filter_ne_some]
      exact h2 jx g hc.2
    · rw [if_neg hc, if_neg hc, filter_none])
  refine (hp _).trans ?_
  refine (hs.filter _).trans ?_
  rw [List.filter_filter]
  apply List.Perm.of_eq
  apply List.filter_congr
  intro e _
  unfold survives
  exact Bool.and_comm _ _

/-- a record is backed: its digest has a blob in the blob list taken before the sweep (or it is the empty digest, which
    `RmDesc` cannot address) -/
def backedB (bs : List Blob) (e : Desc) : Bool := (getBlob bs e.dig).isSome || e.dig == 0

theorem dgP_eq_some {bs : List Blob} {g d : Nat} : dgP bs g = some d ↔ (getBlob bs g).isNone = true ∧ g ≠ 0 ∧ g = d := by
  unfold dgP
  split
  · rename_i hc
    simp only [Option.some.injEq]
    exact ⟨fun h => ⟨hc.1, hc.2, h⟩, fun h => h.2.2⟩
  · rename_i hc
    constructor
    · intro h; cases h
    · intro h; exact absurd ⟨h.1, h.2.1⟩ hc

/-- the child-record step does not touch a backed record … -/
theorem kall_of_backed {bs : List Blob} {e : Desc} (K : List Nat) (hb : backedB bs e = true) :
    K.all (fun g => dgP bs g != some e.dig) = true := by
  rw [List.all_eq_true]
  intro g _
  rw [bne_iff_ne]
  intro h
  obtain ⟨h1, h2, h3⟩ := dgP_eq_some.mp h
  subst h3
  unfold backedB at hb
  cases hg : getBlob bs e.dig with
  | none => simp [hg, h2] at hb
  | some b => simp [hg] at h1

/-- … and removes every record among the listed digests that is not -/
theorem kall_eq_backed {bs : List Blob} {e : Desc} (K : List Nat) (hm : e.dig ∈ K) :
    K.all (fun g => dgP bs g != some e.dig) = backedB bs e := by
  cases hb : backedB bs e with
  | true => exact kall_of_backed K hb
  | false =>
    rw [List.all_eq_false]
    refine ⟨e.dig, hm, ?_⟩
    unfold backedB at hb
    simp only [Bool.or_eq_false_iff, beq_eq_false_iff_ne] at hb
    have : dgP bs e.dig = some e.dig := dgP_eq_some.mpr ⟨by simpa using hb.1, hb.2, rfl⟩
    simp [this]

theorem pruneChildren_sel (sel : Index → List Desc)
    (h2 : ∀ (jx : Index) (g : Nat), g ≠ 0 → (sel (rmDesc jx { mt := 0, dig := g })).Perm ((sel jx).filter (fun e => e.dig ≠ g)))
    (bs : List Blob) (jx : Index) :
    (sel (pruneChildren bs jx)).Perm ((sel jx).filter (fun e => (jx.children.map (·.dig)).all (fun g => dgP bs g != some e.dig))) := by
  unfold pruneChildren
  exact fold_perm sel (pruneStep bs) (dgP bs) _ (by
    intro g _ kx
    unfold pruneStep dgP
    by_cases hc : (getBlob bs g).isNone = true ∧ g ≠ 0
    · rw [if_pos hc, if_pos hc, ← filter_ne_some]
      exact h2 kx g hc.2
    · rw [if_neg hc, if_neg hc, filter_none]) jx

/-- a surviving top-level entry is backed: `inIndex` names its digest -/
theorem survives_entry_backed {p : Policy} {ix : Index} {bs : List Blob} {e : Desc} (he : e ∈ ix.manifests)
    (hs : survives p ix bs e = true) : backedB bs e = true := by
  unfold survives at hs
  simp only [Bool.and_eq_true, List.all_eq_true, bne_iff_ne, ne_eq] at hs
  have hi : e.dig ∈ (marks p ix bs).inIdx := by
    apply (marks_inv p ix bs).idx0
    rw [List.mem_reverse, List.mem_map]
    exact ⟨e, he, rfl⟩
  have h2 := hs.2 e.dig hi
  unfold backedB
  cases hg : getBlob bs e.dig with
  | some b => simp
  | none =>
    by_cases hz : e.dig = 0
    · simp [hz]
    · exact absurd (dgP_eq_some.mpr ⟨by simp [hg], hz, rfl⟩) h2

/-- the top-level entries after the collection (the child-record step removes none of them) -/
theorem gc_manifests (p : Policy) (ix : Index) (bs : List Blob) (hz : ∀ b ∈ bs, b.dig ≠ 0) :
    (gc p ix bs).index.manifests.Perm (ix.manifests.filter (survives p ix bs)) := by
  have hpre := gcPre_sel (·.manifests) (fun ix g hg => rmGuard_manifests ix hg)
    (fun ix g hg => rmDesc_digest_manifests ix { mt := 0, dig := g } rfl hg) p ix bs hz
  rw [gc_index_eq]
  refine (pruneChildren_sel (·.manifests) (fun ix g hg => rmDesc_digest_manifests ix { mt := 0, dig := g } rfl hg) bs _).trans ?_
  rw [List.filter_eq_self.mpr]
  · exact hpre
  · intro e he
    obtain ⟨h1, h2⟩ := List.mem_filter.mp (hpre.mem_iff.mp he)
    exact kall_of_backed _ (survives_entry_backed h1 h2)

/-- the child records after the collection: those that survive the sweep and the `inIndex` loop and are backed -/
theorem gc_children (p : Policy) (ix : Index) (bs : List Blob) (hz : ∀ b ∈ bs, b.dig ≠ 0) :
    (gc p ix bs).index.children.Perm (ix.children.filter (fun c => survives p ix bs c && backedB bs c)) := by
  have hpre := gcPre_sel (·.children) (fun ix g hg => rmGuard_children ix hg)
    (fun ix g hg => rmDesc_digest_children ix { mt := 0, dig := g } rfl hg) p ix bs hz
  rw [gc_index_eq]
  refine (pruneChildren_sel (·.children) (fun ix g hg => rmDesc_digest_children ix { mt := 0, dig := g } rfl hg) bs _).trans ?_
  have hcongr : (gcPre p ix bs).children.filter (fun e => ((gcPre p ix bs).children.map (·.dig)).all (fun g => dgP bs g != some e.dig)) =
      (gcPre p ix bs).children.filter (backedB bs) := by
    apply List.filter_congr
    intro e he
    exact kall_eq_backed _ (List.mem_map_of_mem he)
  rw [hcongr]
  refine (hpre.filter _).trans ?_
  rw [List.filter_filter]
  apply List.Perm.of_eq
  apply List.filter_congr
  intro e _
  exact Bool.and_comm _ _

/-- an entry whose blobs are all kept, and which has a blob (or the empty digest), survives -/
theorem survives_of_kept {p : Policy} {ix : Index} {bs : List Blob} {e : Desc}
    (hk : ∀ b ∈ bs, b.dig = e.dig → keepB p (marks p ix bs).seen (marks p ix bs).inIdx b = true)
    (hb : getBlob bs e.dig ≠ none ∨ e.dig = 0) : survives p ix bs e = true := by
  unfold survives
  simp only [Bool.and_eq_true, List.all_eq_true, bne_iff_ne, ne_eq]
  constructor
  · intro b hbm
    unfold dgS
    by_cases hkb : keepB p (marks p ix bs).seen (marks p ix bs).inIdx b = true
    · simp [hkb]
    · rw [if_neg hkb]
      simp only [Option.some.injEq]
      intro heq
      exact hkb (hk b hbm heq)
  · intro g _
    unfold dgP
    split
    · rename_i hc
      simp only [Option.some.injEq]
      intro heq
      subst heq
      rcases hb with h | h
      · exact h (by simpa using hc.1)
      · exact hc.2 h
    · simp

/-- a surviving, backed record with a non-empty digest: its blob is kept by this pass -/
theorem survives_backed {p : Policy} {ix : Index} {bs : List Blob} {e : Desc} (hs : survives p ix bs e = true)
    (hbk : backedB bs e = true) (hnz : e.dig ≠ 0) : e.dig ∈ (gc p ix bs).blobs := by
  unfold survives at hs
  simp only [Bool.and_eq_true, List.all_eq_true, bne_iff_ne, ne_eq] at hs
  unfold backedB at hbk
  cases hb : getBlob bs e.dig with
  | none => simp [hb, hnz] at hbk
  | some b =>
    obtain ⟨hbm, hbd⟩ := getBlob_mem_bs hb
    have h1 := hs.1 b hbm
    unfold dgS at h1
    by_cases hk : keepB p (marks p ix bs).seen (marks p ix bs).inIdx b = true
    · exact mem_gc_blobs.mpr ⟨b, hbm, hbd, hk⟩
    · simp [hk, hbd] at h1

/-- C06 (F41): after the collection no child record is left without a blob either -/
theorem gc_children_backed' {p : Policy} {ix : Index} {bs : List Blob} (hz : ∀ b ∈ bs, b.dig ≠ 0) {c : Desc}
    (hc : c ∈ (gc p ix bs).index.children) (hnz : c.dig ≠ 0) : c ∈ ix.children ∧ c.dig ∈ (gc p ix bs).blobs := by
  have hm := (gc_children p ix bs hz).mem_iff.mp hc
  obtain ⟨h1, h2⟩ := List.mem_filter.mp hm
  simp only [Bool.and_eq_true] at h2
  exact ⟨h1, survives_backed h2.1 h2.2 hnz⟩

/-- C06: after the collection no top-level entry is left without a blob -/
theorem gc_index_backed' {p : Policy} {ix : Index} {bs : List Blob} (hz : ∀ b ∈ bs, b.dig ≠ 0) {e : Desc}
    (he : e ∈ (gc p ix bs).index.manifests) (hnz : e.dig ≠ 0) : e ∈ ix.manifests ∧ e.dig ∈ (gc p ix bs).blobs := by
  have hm := (gc_manifests p ix bs hz).mem_iff.mp he
  obtain ⟨h1, h2⟩ := List.mem_filter.mp hm
  exact ⟨h1, survives_backed h2 (survives_entry_backed h1 h2) hnz⟩

/-- C05: an entry whose digest the mark phase has seen stays in the index, annotations (tag) included -/
theorem gc_index_keeps {p : Policy} {ix : Index} {bs : List Blob} (hz : ∀ b ∈ bs, b.dig ≠ 0) {e : Desc}
    (he : e ∈ ix.manifests) (hs : e.dig ∈ (marks p ix bs).seen) (hb : getBlob bs e.dig ≠ none) :
    e ∈ (gc p ix bs).index.manifests := by
  apply (gc_manifests p ix bs hz).mem_iff.mpr
  refine List.mem_filter.mpr ⟨he, survives_of_kept ?_ (Or.inl hb)⟩
  intro b _ hbd
  unfold keepB
  simp [hbd, hs]
end Ixd
