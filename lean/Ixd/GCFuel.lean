import Ixd.GCModel
/-!
# The collector before the repair of F4, with fuel (for `decide` witnesses)

`walkOld` is the mark phase of `repoGarbageCollect` as it was before `patches/F4-gc-digest-roles.diff`: one set `seen`
both for "this digest must survive" and for "this descriptor has been opened".  It is structurally recursive on a fuel
argument so that the kernel can evaluate it; it is used only to exhibit the F4 witnesses (`Properties/C05.lean`), the
theorems are about `Ixd.walk` / `Ixd.gc`.
-/
namespace Ixd

def walkOld (bs : List Blob) (subj : List (Nat × Desc)) : Nat → List Desc → List Nat → List Nat → List Nat × List Nat
  | 0, _, seen, inIdx => (seen, inIdx)
  | _, [], seen, inIdx => (seen, inIdx)
  | fuel+1, d :: work, seen, inIdx =>
    if seen.contains d.dig then walkOld bs subj fuel work seen (d.dig :: inIdx)
    else
      match getBlob bs d.dig with
      | none => walkOld bs subj fuel work seen (d.dig :: inIdx)
      | some b => walkOld bs subj fuel (pushed subj d.dig (cls d.mt) b ++ work) (marked (cls d.mt) b ++ d.dig :: seen) (d.dig :: inIdx)

/-- the blobs the unrepaired collector keeps -/
def gcOldBlobs (p : Policy) (ix : Index) (bs : List Blob) : List Nat :=
  let fuel := 4 * (bs.length + ix.manifests.length + 1) * (bs.length + 2)
  let m := walkOld bs (bounds p bs ix.manifests) fuel (roots p bs ix.manifests).reverse [] (ix.manifests.map (·.dig)).reverse
  (bs.filter (fun b => m.1.contains b.dig || (p.grace && b.recent && !m.2.contains b.dig))).map (·.dig)
end Ixd
