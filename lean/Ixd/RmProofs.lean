import Ixd.Basic
/-! scratch: what RmDesc does, derived through `descLoop_perm` (C18 / C03) -/
namespace Ixd

/-- a stateless dropping step is a filter -/
theorem revSpec_filter {α σ : Type} (f : σ → α → σ × Act α) (p : α → Bool)
    (hf : ∀ s x, f s x = (s, if p x then Act.drop else Act.keep)) :
    ∀ (l : List α) (s : σ), (revSpec f l s).2 = l.filter (fun x => !p x) := by
  intro l
  induction l with
  | nil => intro s; simp [revSpec]
  | cons x xs ih =>
    intro s
    unfold revSpec
    rw [hf s x]
    by_cases hp : p x
    · simp [hp, ih]
    · simp [hp, ih]

/-- removing by digest (no tag): exactly the entries with that digest go, at top level -/
theorem rmDesc_digest_manifests (ix : Index) (d : Desc) (hnil : d.ann.isNil = true) (hd : d.dig ≠ 0) :
    (rmDesc ix d).manifests.Perm (ix.manifests.filter (fun e => e.dig ≠ d.dig)) := by
  unfold rmDesc
  simp only [hnil, if_true]
  have hstep : ∀ (s : Bool) (e : Desc), rmMainStep d 0 0 s e = (s, if (decide (e.dig = d.dig)) then Act.drop else Act.keep) := by
    intro s e
    unfold rmMainStep
    by_cases he : e.dig = d.dig
    · simp [he, hd]
    · simp [he, hd]
  have h1 := (descLoop_perm (rmMainStep d 0 0) false ix.manifests).2
  rw [revSpec_filter _ (fun e => decide (e.dig = d.dig)) hstep] at h1
  refine h1.trans ?_
  have : (ix.manifests.reverse.filter fun x => !decide (x.dig = d.dig)) = (ix.manifests.filter fun e => decide (e.dig ≠ d.dig)).reverse := by
    rw [List.filter_reverse]; congr 1
    apply List.filter_congr; intro x _; simp
  rw [this]
  exact List.reverse_perm _

/-- … and among the children -/
theorem rmDesc_digest_children (ix : Index) (d : Desc) (hnil : d.ann.isNil = true) (hd : d.dig ≠ 0) :
    (rmDesc ix d).children.Perm (ix.children.filter (fun e => e.dig ≠ d.dig)) := by
  unfold rmDesc
  simp only [hnil, if_true, hd, ne_eq, not_false_eq_true, and_self]
  have hstep : ∀ (s : Unit) (e : Desc), rmChildStep d.dig s e = (s, if (decide (e.dig = d.dig)) then Act.drop else Act.keep) := by
    intro s e
    unfold rmChildStep
    by_cases he : e.dig = d.dig <;> simp [he]
  have h1 := (descLoop_perm (rmChildStep d.dig) () ix.children).2
  rw [revSpec_filter _ (fun e => decide (e.dig = d.dig)) hstep] at h1
  refine h1.trans ?_
  have : (ix.children.reverse.filter fun x => !decide (x.dig = d.dig)) = (ix.children.filter fun e => decide (e.dig ≠ d.dig)).reverse := by
    rw [List.filter_reverse]; congr 1
    apply List.filter_congr; intro x _; simp
  rw [this]
  exact List.reverse_perm _

/-- C03/C18: deleting by digest removes every reference to it … -/
theorem rm_digest_all (ix : Index) (d : Desc) (hnil : d.ann.isNil = true) (hd : d.dig ≠ 0) :
    (∀ e ∈ (rmDesc ix d).manifests, e.dig ≠ d.dig) ∧ (∀ e ∈ (rmDesc ix d).children, e.dig ≠ d.dig) := by
  constructor
  · intro e he
    have := (rmDesc_digest_manifests ix d hnil hd).mem_iff.mp he
    simpa using (List.mem_filter.mp this).2
  · intro e he
    have := (rmDesc_digest_children ix d hnil hd).mem_iff.mp he
    simpa using (List.mem_filter.mp this).2

/-- … and nothing else: every entry with another digest is still there -/
theorem rm_digest_frame (ix : Index) (d : Desc) (hnil : d.ann.isNil = true) (hd : d.dig ≠ 0) (e : Desc)
    (he : e ∈ ix.manifests) (hne : e.dig ≠ d.dig) : e ∈ (rmDesc ix d).manifests := by
  apply (rmDesc_digest_manifests ix d hnil hd).mem_iff.mpr
  exact List.mem_filter.mpr ⟨he, by simpa using hne⟩
end Ixd

namespace Ixd
/-! deleting a tag: `RmDesc` with digest and tag -/

section conslemmas
variable {α σ : Type} (f : σ → α → σ × Act α)
theorem revSpec_cons_keep {s s' : σ} {x : α} (xs : List α) (h : f s x = (s', Act.keep)) :
    revSpec f (x :: xs) s = ((revSpec f xs s').1, x :: (revSpec f xs s').2) := by simp only [revSpec, h]
theorem revSpec_cons_set {s s' : σ} {x y : α} (xs : List α) (h : f s x = (s', Act.set y)) :
    revSpec f (x :: xs) s = ((revSpec f xs s').1, y :: (revSpec f xs s').2) := by simp only [revSpec, h]
theorem revSpec_cons_drop {s s' : σ} {x : α} (xs : List α) (h : f s x = (s', Act.drop)) :
    revSpec f (x :: xs) s = revSpec f xs s' := by simp only [revSpec, h]
end conslemmas

section tagdelete
variable (d : Desc) (t subj : Nat)

theorem step_other (hd : d.dig ≠ 0) (found : Bool) (x : Desc) (hx : x.dig ≠ d.dig) :
    rmMainStep d t subj found x = (found, Act.keep) := by
  unfold rmMainStep; simp [hx, hd]

theorem step_drop (hd : d.dig ≠ 0) (ht : t ≠ 0) (x : Desc) (hx : x.dig = d.dig)
    (h : x.ann.len = 0 ∨ x.ann.tag = t) : rmMainStep d t subj true x = (true, Act.drop) := by
  unfold rmMainStep; simp [hx, hd, ht, h]

theorem step_set (hd : d.dig ≠ 0) (ht : t ≠ 0) (found : Bool) (x : Desc) (hx : x.dig = d.dig)
    (h1 : ¬ (found = true ∧ (x.ann.len = 0 ∨ x.ann.tag = t))) (h2 : ¬ x.ann.isNil = true ∧ x.ann.tag = t) :
    rmMainStep d t subj found x = (true, Act.set { x with ann := { x.ann with tag := 0 } }) := by
  unfold rmMainStep
  rw [if_pos ⟨hd, hx⟩, if_pos ht, if_neg h1, if_pos h2]

theorem step_keep (hd : d.dig ≠ 0) (ht : t ≠ 0) (found : Bool) (x : Desc) (hx : x.dig = d.dig)
    (h1 : ¬ (found = true ∧ (x.ann.len = 0 ∨ x.ann.tag = t))) (h2 : ¬ (¬ x.ann.isNil = true ∧ x.ann.tag = t)) :
    rmMainStep d t subj found x = (true, Act.keep) := by
  unfold rmMainStep
  rw [if_pos ⟨hd, hx⟩, if_pos ht, if_neg h1, if_neg h2]

/-- in the visiting order, with any value of `found`: no surviving entry carries tag `t` on digest `d.dig` -/
theorem revSpec_tag_gone (hd : d.dig ≠ 0) (ht : t ≠ 0) :
    ∀ (l : List Desc) (found : Bool), ∀ e ∈ (revSpec (rmMainStep d t subj) l found).2,
      ¬ (e.dig = d.dig ∧ e.ann.isNil = false ∧ e.ann.tag = t) := by
  intro l
  induction l with
  | nil => intro found e he; simp [revSpec] at he
  | cons x xs ih =>
    intro found e he
    by_cases hx : x.dig = d.dig
    · by_cases h1 : found = true ∧ (x.ann.len = 0 ∨ x.ann.tag = t)
      · obtain ⟨hf, h1'⟩ := h1
        subst hf
        rw [revSpec_cons_drop _ xs (step_drop d t subj hd ht x hx h1')] at he
        exact ih _ e he
      · by_cases h2 : ¬ x.ann.isNil = true ∧ x.ann.tag = t
        · rw [revSpec_cons_set _ xs (step_set d t subj hd ht found x hx h1 h2)] at he
          rcases List.mem_cons.mp he with rfl | he'
          · intro ⟨_, _, htag⟩; exact ht htag.symm
          · exact ih _ e he'
        · rw [revSpec_cons_keep _ xs (step_keep d t subj hd ht found x hx h1 h2)] at he
          rcases List.mem_cons.mp he with rfl | he'
          · intro ⟨_, hn, htag⟩
            exact h2 ⟨by simp [hn], htag⟩
          · exact ih _ e he'
    · rw [revSpec_cons_keep _ xs (step_other d t subj hd found x hx)] at he
      rcases List.mem_cons.mp he with rfl | he'
      · intro ⟨h, _⟩; exact hx h
      · exact ih _ e he'

/-- entries of other digests are untouched -/
theorem revSpec_tag_frame (hd : d.dig ≠ 0) (ht : t ≠ 0) :
    ∀ (l : List Desc) (found : Bool) (e : Desc), e ∈ l → e.dig ≠ d.dig → e ∈ (revSpec (rmMainStep d t subj) l found).2 := by
  intro l
  induction l with
  | nil => intro _ e he; simp at he
  | cons x xs ih =>
    intro found e he hne
    by_cases hx : x.dig = d.dig
    · have he' : e ∈ xs := by
        rcases List.mem_cons.mp he with h | h
        · rw [h] at hne; exact absurd hx hne
        · exact h
      by_cases h1 : found = true ∧ (x.ann.len = 0 ∨ x.ann.tag = t)
      · obtain ⟨hf, h1'⟩ := h1
        subst hf
        rw [revSpec_cons_drop _ xs (step_drop d t subj hd ht x hx h1')]
        exact ih _ e he' hne
      · by_cases h2 : ¬ x.ann.isNil = true ∧ x.ann.tag = t
        · rw [revSpec_cons_set _ xs (step_set d t subj hd ht found x hx h1 h2)]
          exact List.mem_cons_of_mem _ (ih _ e he' hne)
        · rw [revSpec_cons_keep _ xs (step_keep d t subj hd ht found x hx h1 h2)]
          exact List.mem_cons_of_mem _ (ih _ e he' hne)
    · rw [revSpec_cons_keep _ xs (step_other d t subj hd found x hx)]
      rcases List.mem_cons.mp he with rfl | he'
      · exact List.mem_cons_self
      · exact List.mem_cons_of_mem _ (ih _ e he' hne)

/-- starting with `found = false`, the first entry of the digest that is visited survives (possibly untagged) -/
theorem revSpec_tag_keeps (hd : d.dig ≠ 0) (ht : t ≠ 0) :
    ∀ (l : List Desc), (∃ x ∈ l, x.dig = d.dig) → ∃ e ∈ (revSpec (rmMainStep d t subj) l false).2, e.dig = d.dig := by
  intro l
  induction l with
  | nil => intro ⟨x, hx, _⟩; simp at hx
  | cons x xs ih =>
    intro hex
    by_cases hx : x.dig = d.dig
    · have h1 : ¬ (false = true ∧ (x.ann.len = 0 ∨ x.ann.tag = t)) := by simp
      by_cases h2 : ¬ x.ann.isNil = true ∧ x.ann.tag = t
      · rw [revSpec_cons_set _ xs (step_set d t subj hd ht false x hx h1 h2)]
        exact ⟨_, List.mem_cons_self, hx⟩
      · rw [revSpec_cons_keep _ xs (step_keep d t subj hd ht false x hx h1 h2)]
        exact ⟨x, List.mem_cons_self, hx⟩
    · rw [revSpec_cons_keep _ xs (step_other d t subj hd false x hx)]
      obtain ⟨y, hy, hyd⟩ := hex
      have hy' : y ∈ xs := by
        rcases List.mem_cons.mp hy with h | h
        · rw [h] at hyd; exact absurd hyd hx
        · exact h
      obtain ⟨e, he, hed⟩ := ih ⟨y, hy', hyd⟩
      exact ⟨e, List.mem_cons_of_mem _ he, hed⟩
end tagdelete

/-- C03/C18: deleting tag `t` of digest `g` — the tag no longer names `g`, `g` stays listed, other digests are untouched -/
theorem rm_tag (ix : Index) (d : Desc) (hd : d.dig ≠ 0) (hn : d.ann.isNil = false) (ht : d.ann.tag ≠ 0) :
    (∀ e ∈ (rmDesc ix d).manifests, ¬ (e.dig = d.dig ∧ e.ann.isNil = false ∧ e.ann.tag = d.ann.tag)) ∧
    ((∃ x ∈ ix.manifests, x.dig = d.dig) → ∃ e ∈ (rmDesc ix d).manifests, e.dig = d.dig) ∧
    (∀ e ∈ ix.manifests, e.dig ≠ d.dig → e ∈ (rmDesc ix d).manifests) := by
  have hperm : (rmDesc ix d).manifests.Perm (revSpec (rmMainStep d d.ann.tag d.ann.subj) ix.manifests.reverse false).2 := by
    unfold rmDesc
    simp only [hn, Bool.false_eq_true, if_false]
    exact (descLoop_perm _ false ix.manifests).2
  refine ⟨?_, ?_, ?_⟩
  · intro e he
    exact revSpec_tag_gone d d.ann.tag d.ann.subj hd ht _ false e (hperm.mem_iff.mp he)
  · intro ⟨x, hx, hxd⟩
    obtain ⟨e, he, hed⟩ := revSpec_tag_keeps d d.ann.tag d.ann.subj hd ht ix.manifests.reverse ⟨x, by simpa using hx, hxd⟩
    exact ⟨e, hperm.mem_iff.mpr he, hed⟩
  · intro e he hne
    exact hperm.mem_iff.mpr (revSpec_tag_frame d d.ann.tag d.ann.subj hd ht _ false e (by simpa using he) hne)
end Ixd
