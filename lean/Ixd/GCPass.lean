import Ixd.GCModel
/-!
# Collection of one repository on each store, and the store-wide pass

`memGC` = `memRepo.gc` (internal/store/mem.go), `dirGC` = `dirRepo.gc` (internal/store/dir.go) including the removal of
an empty repository, `gcPass` = `mem.gc` / `dir.gc`, as repaired by

* `patches/F5-gc-empty-repo-stops-at-first-failure.diff` — the bottom-up removal of an empty repository stops at the
  first entry it cannot remove (before: it went on and removed `index.json` and `oci-layout` of a repository that still
  holds blobs);
* `patches/F5-gc-pruned-layout-clears-exists.diff` — a repository whose `oci-layout` has been removed is marked as not
  existing even if a foreign file keeps its directory (before: `exists` stayed true and the next push wrote
  `index.json` without `oci-layout`);
* `patches/F7-gc-empty-repo-any-algorithm.diff` — every algorithm directory under `blobs/` is removed, not only
  `sha256` and `sha512`;
* `patches/F6-gc-pass-continues-after-error.diff` — the pass goes on after a repository whose collection fails.

The file system is modelled as far as these functions look at it: which of the fixed entries of a repository directory
exist, which algorithm directories, whether foreign files are present; `os.Remove` of a directory succeeds iff it is
empty, of a missing entry it is ignored (`fs.ErrNotExist`).
-/
namespace Ixd

/-- algorithm under which the harness stores digest `g` (256, 384, 512) -/
def algoOf (g : Nat) : Nat := if g % 10 = 7 then 512 else if g % 10 = 8 then 384 else 256

structure MemRepo where
  index : Index := {}
  blobs : List Blob := []
  deriving Repr

/-- `memRepo.gc`; `repoGarbageCollect` fails only when the blob list cannot be read, which the memory store never does -/
def memGC (p : Policy) (r : MemRepo) : MemRepo × Bool :=
  ({ index := (gc p r.index r.blobs).index, blobs := gcBlobs p r.index r.blobs }, false)

structure DirRepo where
  live : Bool := false          -- `dr.exists`
  repoDir : Bool := false       -- the repository directory
  indexFile : Bool := false     -- index.json
  corrupt : Bool := false       -- index.json does not decode
  layoutFile : Bool := false    -- oci-layout
  uploadsDir : Bool := false    -- _uploads
  upLeft : Bool := false        -- a file in _uploads that belongs to no session
  sessions : Nat := 0           -- open upload sessions (each has a file in _uploads)
  blobsDir : Bool := false
  algos : List Nat := []        -- algorithm directories under blobs/
  strayBlobs : Bool := false    -- a file in blobs/sha256 whose name is not a digest
  strayRoot : Bool := false     -- a foreign file in the repository directory
  index : Index := {}           -- `dr.index`
  blobs : List Blob := []
  deriving Repr

/-- `repoInit` (first `BlobCreate` on a repository that does not exist) -/
def DirRepo.init (r : DirRepo) : DirRepo :=
  if r.live then r else { r with live := true, repoDir := true, layoutFile := true, indexFile := true }

/-- the algorithm directories in the order `os.ReadDir` lists them (sorted) -/
def insertAlgo (a : Nat) : List Nat → List Nat
  | [] => [a]
  | x :: xs => if a = x then x :: xs else if a < x then a :: x :: xs else x :: insertAlgo a xs

/-- `os.Remove(_uploads)` -/
def rmUploads (r : DirRepo) : Bool × DirRepo :=
  if !r.uploadsDir then (true, r)
  else if r.sessions = 0 ∧ !r.upLeft then (true, { r with uploadsDir := false })
  else (false, r)

def algoEmpty (r : DirRepo) (a : Nat) : Bool := r.blobs.all (fun b => algoOf b.dig ≠ a) && !(a = 256 && r.strayBlobs)

/-- `os.Remove(blobs/<algorithm>)` -/
def rmAlgo (a : Nat) (r : DirRepo) : Bool × DirRepo :=
  if a ∉ r.algos then (true, r)
  else if algoEmpty r a then (true, { r with algos := r.algos.erase a })
  else (false, r)

/-- `os.Remove(blobs)` -/
def rmBlobs (r : DirRepo) : Bool × DirRepo :=
  if !r.blobsDir then (true, r)
  else if r.algos.isEmpty then (true, { r with blobsDir := false })
  else (false, r)

def rmIndexFile (r : DirRepo) : Bool × DirRepo := (true, { r with indexFile := false, corrupt := false })
def rmLayoutFile (r : DirRepo) : Bool × DirRepo := (true, { r with layoutFile := false })

/-- `os.Remove(<repository directory>)` -/
def rmRepoDir (r : DirRepo) : Bool × DirRepo :=
  if !r.repoDir then (true, r)
  else if !r.uploadsDir && !r.blobsDir && !r.indexFile && !r.layoutFile && !r.strayRoot then (true, { r with repoDir := false })
  else (false, r)

/-- run the removals in order, stopping at the first one that fails -/
def rmSeq : List (DirRepo → Bool × DirRepo) → DirRepo → Bool × DirRepo
  | [], r => (true, r)
  | f :: fs, r => match f r with
    | (true, r') => rmSeq fs r'
    | (false, r') => (false, r')

/-- `prune an empty repo dir and mark the repo as empty`: if everything could be removed, or if at least `oci-layout` is
    gone (something foreign keeps the directory), the repository does not exist any more — the next push initialises it -/
def pruneEmpty (r : DirRepo) : DirRepo :=
  if !r.repoDir then { r with live := false }   -- every removal reports `fs.ErrNotExist`
  else
    let res := rmSeq ([rmUploads] ++ r.algos.map rmAlgo ++ [rmBlobs, rmIndexFile, rmLayoutFile, rmRepoDir]) r
    if res.1 || !res.2.layoutFile then { res.2 with live := false } else res.2

/-- `attempt to remove an empty upload folder` -/
def dirStep1 (r : DirRepo) : DirRepo := if r.sessions = 0 then (rmUploads r).2 else r

/-- `indexLoad` fails when index.json is missing or does not decode -/
def loadFails (r : DirRepo) : Bool := !r.repoDir || !r.indexFile || r.corrupt

/-- the collection proper (skipped when the index cannot be loaded) -/
def dirCollect (p : Policy) (r : DirRepo) : DirRepo :=
  if loadFails r then r else { r with index := (gc p r.index r.blobs).index, blobs := gcBlobs p r.index r.blobs }

def dirPrune (e : Bool) (r : DirRepo) : DirRepo :=
  if e && r.index.manifests.isEmpty && r.sessions = 0 then pruneEmpty r else r

/-- `dirRepo.gc` with `EmptyRepo = e`; the flag is the error it returns -/
def dirGC (p : Policy) (e : Bool) (r : DirRepo) : DirRepo × Bool :=
  (dirPrune e (dirCollect p (dirStep1 r)), loadFails (dirStep1 r))

/-! ## the store-wide pass -/

/-- `dir.gc` / `mem.gc`: `start := prev − slack − grace`, a repository is skipped iff `timeMod.Before(start)`.
    Times in milliseconds: `age` = tick − last modification, `gap` = tick − previous tick, `slack` = 250 for the
    directory store and 0 for the memory store, `grace` = 0 when no grace period is configured. -/
def dueOf (slack grace gap age : Nat) : Bool := decide (age ≤ gap + slack + grace)

/-- a repository as the pass sees it: `due` = modified since the previous tick (minus the grace period) -/
structure Entry (R : Type) where
  due : Bool
  repo : R

def lookup {R : Type} (n : Nat) : List (Nat × Entry R) → Option (Entry R)
  | [] => none
  | (m, e) :: rest => if m = n then some e else lookup n rest

def update {R : Type} (n : Nat) (e : Entry R) : List (Nat × Entry R) → List (Nat × Entry R)
  | [] => []
  | (m, x) :: rest => if m = n then (m, e) :: rest else (m, x) :: update n e rest

/-- `mem.gc` / `dir.gc`: visit the repositories in `order` (Go: the iteration order of a map); a repository that is not
    known any more or not due is skipped; errors are collected, the pass goes on; the flag says whether any was met -/
def gcPass {R : Type} (visit : R → R × Bool) : List Nat → List (Nat × Entry R) → List (Nat × Entry R) × Bool
  | [], s => (s, false)
  | n :: order, s =>
    match lookup n s with
    | none => gcPass visit order s
    | some e =>
      if !e.due then gcPass visit order s
      else
        let v := visit e.repo
        let rest := gcPass visit order (update n { e with repo := v.1 } s)
        (rest.1, v.2 || rest.2)
end Ixd
