import Ixd.GCPass
/-!
# The store-wide pass and the removal of empty repositories (C06)

* `pass_lookup` / `pass_independent`: whatever the visiting order, every repository that is due is collected, and its
  result is the result of its own collection — failing, removed or corrupt repositories elsewhere in the order do not
  matter (F6 repaired);
* `empty_removed`: a repository that the collection leaves without entries and blobs (no upload session, no foreign
  file) is removed from the disk entirely, whatever algorithm directories exist (F7 repaired);
* `blobs_keep_layout`: a repository that still holds a blob keeps `index.json` and `oci-layout` (F5 repaired);
* `pruned_live_has_layout`: after the pruning the store believes in a repository only if its `oci-layout` is there
  (F5, second half, repaired).
-/
namespace Ixd

section pass
variable {R : Type}

theorem lookup_update_same (n : Nat) (e e' : Entry R) :
    ∀ s : List (Nat × Entry R), lookup n s = some e → lookup n (update n e' s) = some e' := by
  intro s
  induction s with
  | nil => intro h; simp [lookup] at h
  | cons x rest ih =>
    intro h
    obtain ⟨m, y⟩ := x
    unfold lookup at h
    unfold update
    by_cases hm : m = n
    · simp [hm, lookup]
    · simp only [hm, if_false] at h ⊢
      unfold lookup
      simp only [hm, if_false]
      exact ih h

theorem lookup_update_other (n m : Nat) (e' : Entry R) (hne : m ≠ n) :
    ∀ s : List (Nat × Entry R), lookup n (update m e' s) = lookup n s := by
  intro s
  induction s with
  | nil => simp [update]
  | cons x rest ih =>
    obtain ⟨k, y⟩ := x
    unfold update
    by_cases hk : k = m
    · have hkn : k ≠ n := by rw [hk]; exact hne
      simp [hk, lookup, hne]
    · simp only [hk, if_false]
      unfold lookup
      by_cases hkn : k = n
      · simp [hkn]
      · simp only [hkn, if_false]; exact ih

/-- what one visit does to an entry -/
def visited (visit : R → R × Bool) (e : Entry R) : Entry R := if e.due then { e with repo := (visit e.repo).1 } else e

/-- the result of a pass, repository by repository: exactly the repositories named in `order` are visited, each once,
    independently of each other and of the order -/
theorem pass_lookup (visit : R → R × Bool) :
    ∀ (order : List Nat), order.Nodup → ∀ (s : List (Nat × Entry R)) (n : Nat),
      lookup n (gcPass visit order s).1 = if n ∈ order then (lookup n s).map (visited visit) else lookup n s := by
  intro order
  induction order with
  | nil => intro _ s n; simp [gcPass]
  | cons m rest ih =>
    intro hn s n
    have hn' := (List.nodup_cons.mp hn)
    unfold gcPass
    cases hl : lookup m s with
    | none =>
      simp only []
      rw [ih hn'.2]
      by_cases hnm : n = m
      · subst hnm; simp [hn'.1, hl]
      · simp [hnm]
    | some e =>
      simp only []
      by_cases hd : e.due = true
      · simp only [hd, Bool.not_true, Bool.false_eq_true, if_false]
        rw [ih hn'.2]
        by_cases hnm : n = m
        · subst hnm
          simp only [hn'.1, if_false, List.mem_cons, true_or, if_true]
          rw [lookup_update_same n e _ s hl, hl]
          simp [visited, hd]
        · have hmn : m ≠ n := fun h => hnm h.symm
          rw [lookup_update_other n m _ hmn]
          simp [hnm]
      · have hd' : e.due = false := by simpa using hd
        simp only [hd', Bool.not_false, if_true]
        rw [ih hn'.2]
        by_cases hnm : n = m
        · subst hnm; simp [hn'.1, hl, visited, hd']
        · simp [hnm]

/-- C06: in every visiting order a repository that is due is collected in the pass — its state afterwards is the result
    of its own collection — whatever happens to the other repositories -/
theorem pass_independent' (visit : R → R × Bool) (order : List Nat) (hn : order.Nodup) (s : List (Nat × Entry R))
    (n : Nat) (hmem : n ∈ order) (e : Entry R) (he : lookup n s = some e) (hd : e.due = true) :
    lookup n (gcPass visit order s).1 = some { e with repo := (visit e.repo).1 } := by
  rw [pass_lookup visit order hn, if_pos hmem, he]
  simp [visited, hd]

/-- the pass reports an error iff some visited repository failed -/
theorem pass_error (visit : R → R × Bool) :
    ∀ (order : List Nat), order.Nodup → ∀ (s : List (Nat × Entry R)),
      (gcPass visit order s).2 = true ↔ ∃ n ∈ order, ∃ e, lookup n s = some e ∧ e.due = true ∧ (visit e.repo).2 = true := by
  intro order
  induction order with
  | nil => intro _ s; simp [gcPass]
  | cons m rest ih =>
    intro hn s
    have hn' := (List.nodup_cons.mp hn)
    unfold gcPass
    cases hl : lookup m s with
    | none =>
      simp only []
      rw [ih hn'.2]
      constructor
      · rintro ⟨n, hnr, e, h1, h2, h3⟩
        exact ⟨n, List.mem_cons_of_mem _ hnr, e, h1, h2, h3⟩
      · rintro ⟨n, hnr, e, h1, h2, h3⟩
        rcases List.mem_cons.mp hnr with rfl | hnr'
        · rw [hl] at h1; cases h1
        · exact ⟨n, hnr', e, h1, h2, h3⟩
    | some e =>
      simp only []
      by_cases hd : e.due = true
      · simp only [hd, Bool.not_true, Bool.false_eq_true, if_false, Bool.or_eq_true]
        rw [ih hn'.2]
        constructor
        · rintro (hv | ⟨n, hnr, e2, h1, h2, h3⟩)
          · exact ⟨m, List.mem_cons_self, e, hl, hd, hv⟩
          · have hmn : m ≠ n := fun h => hn'.1 (h ▸ hnr)
            rw [lookup_update_other n m _ hmn] at h1
            exact ⟨n, List.mem_cons_of_mem _ hnr, e2, h1, h2, h3⟩
        · rintro ⟨n, hnr, e2, h1, h2, h3⟩
          rcases List.mem_cons.mp hnr with rfl | hnr'
          · rw [hl] at h1; cases h1; exact Or.inl h3
          · right
            have hmn : m ≠ n := fun h => hn'.1 (h ▸ hnr')
            exact ⟨n, hnr', e2, by rw [lookup_update_other n m _ hmn]; exact h1, h2, h3⟩
      · have hd' : e.due = false := by simpa using hd
        simp only [hd', Bool.not_false, if_true]
        rw [ih hn'.2]
        constructor
        · rintro ⟨n, hnr, e2, h1, h2, h3⟩
          exact ⟨n, List.mem_cons_of_mem _ hnr, e2, h1, h2, h3⟩
        · rintro ⟨n, hnr, e2, h1, h2, h3⟩
          rcases List.mem_cons.mp hnr with rfl | hnr'
          · rw [hl] at h1; cases h1; rw [hd'] at h2; cases h2
          · exact ⟨n, hnr', e2, h1, h2, h3⟩
end pass

/-! ## removal of an empty repository -/

theorem rmSeq_cons_true {f : DirRepo → Bool × DirRepo} {fs : List (DirRepo → Bool × DirRepo)} {r r' : DirRepo}
    (h : f r = (true, r')) : rmSeq (f :: fs) r = rmSeq fs r' := by
  rw [rmSeq]; simp only [h]

theorem rmSeq_cons_false {f : DirRepo → Bool × DirRepo} {fs : List (DirRepo → Bool × DirRepo)} {r r' : DirRepo}
    (h : f r = (false, r')) : rmSeq (f :: fs) r = (false, r') := by
  rw [rmSeq]; simp only [h]

/-- removing the algorithm directories of a repository without blobs (and without a foreign file among them) succeeds
    for every algorithm, whatever it is called -/
theorem rmSeq_algos_empty (rest : List (DirRepo → Bool × DirRepo)) :
    ∀ (t : List Nat) (r : DirRepo), r.algos = t → r.blobs = [] → r.strayBlobs = false →
      rmSeq (t.map rmAlgo ++ rest) r = rmSeq rest { r with algos := [] } := by
  intro t
  induction t with
  | nil => intro r h _ _; simp only [List.map_nil, List.nil_append]; rw [← h]
  | cons a t' ih =>
    intro r h hb hs
    simp only [List.map_cons, List.cons_append]
    have hmem : a ∈ r.algos := by rw [h]; exact List.mem_cons_self
    have hemp : algoEmpty r a = true := by unfold algoEmpty; simp [hb, hs]
    have hstep : rmAlgo a r = (true, { r with algos := t' }) := by
      unfold rmAlgo
      simp only [hmem, not_true_eq_false, if_false, hemp, if_true]
      rw [h]; simp
    rw [rmSeq_cons_true hstep, ih { r with algos := t' } rfl hb hs]

theorem rmUploads_ok (r : DirRepo) (hs : r.sessions = 0) (c1 : r.upLeft = false) :
    rmUploads r = (true, { r with uploadsDir := false }) := by
  unfold rmUploads
  cases hu : r.uploadsDir
  · simp only [Bool.not_false, if_true]
    cases r; simp_all
  · simp [hs, c1]

theorem pruneEmpty_clean (r : DirRepo) (hd : r.repoDir = true) (hs : r.sessions = 0) (c1 : r.upLeft = false)
    (c2 : r.strayBlobs = false) (c3 : r.strayRoot = false) (hb : r.blobs = []) :
    (pruneEmpty r).repoDir = false ∧ (pruneEmpty r).live = false := by
  unfold pruneEmpty
  rw [if_neg (by simp [hd])]
  simp only [List.singleton_append, List.append_assoc, List.cons_append, List.nil_append]
  rw [rmSeq_cons_true (rmUploads_ok r hs c1), rmSeq_algos_empty _ r.algos { r with uploadsDir := false } rfl hb c2]
  cases hbd : r.blobsDir <;> simp [rmSeq, rmBlobs, rmIndexFile, rmLayoutFile, rmRepoDir, c3, hbd, hd]

/-- C06 (F7 repaired): with `EmptyRepo`, a repository whose collection leaves no entry and no blob — no upload session,
    no foreign file — is removed entirely: no directory, no leftover file, whatever algorithm directories it had -/
theorem empty_removed' (p : Policy) (r : DirRepo)
    (hload : r.repoDir = true ∧ r.indexFile = true ∧ r.corrupt = false) (hs : r.sessions = 0)
    (hclean : r.upLeft = false ∧ r.strayBlobs = false ∧ r.strayRoot = false)
    (hidx : (gc p r.index r.blobs).index.manifests = []) (hbl : gcBlobs p r.index r.blobs = []) :
    (dirGC p true r).1.repoDir = false ∧ (dirGC p true r).1.live = false ∧ (dirGC p true r).2 = false := by
  obtain ⟨h1, h2, h3⟩ := hload
  obtain ⟨c1, c2, c3⟩ := hclean
  have e1 : dirStep1 r = { r with uploadsDir := false } := by
    unfold dirStep1; rw [if_pos hs, rmUploads_ok r hs c1]
  have hlf : loadFails (dirStep1 r) = false := by
    rw [e1]; unfold loadFails; simp [h1, h2, h3]
  have e2 : dirCollect p (dirStep1 r) =
      { r with uploadsDir := false, index := (gc p r.index r.blobs).index, blobs := gcBlobs p r.index r.blobs } := by
    unfold dirCollect; rw [hlf, e1]; rfl
  have e3 : dirPrune true (dirCollect p (dirStep1 r)) = pruneEmpty (dirCollect p (dirStep1 r)) := by
    unfold dirPrune
    rw [e2]
    simp [hidx, hs]
  unfold dirGC
  simp only [hlf, and_true]
  rw [e3, e2]
  exact pruneEmpty_clean _ h1 hs c1 c2 c3 hbl

/-- F5 (second half) repaired: after the pruning the store believes in the repository only if its `oci-layout` is there —
    a repository whose layout files went while something foreign kept the directory is initialised again by the next push -/
theorem pruned_live_has_layout' (r : DirRepo) : (pruneEmpty r).live = true → (pruneEmpty r).layoutFile = true := by
  unfold pruneEmpty
  split
  · intro h; simp at h
  · simp only []
    split
    · intro h; simp at h
    · rename_i hc
      intro _
      simp only [Bool.or_eq_true, Bool.not_eq_true', not_or] at hc
      simpa using hc.2

/-! ## a repository that holds blobs is not taken apart -/

/-- if an invariant survives every step before `g`, and `g` fails under it without changing anything, the sequence
    stops at `g` (or earlier) with the invariant intact -/
theorem rmSeq_stop (P : DirRepo → Prop) (g : DirRepo → Bool × DirRepo) (post : List (DirRepo → Bool × DirRepo))
    (hg : ∀ x, P x → g x = (false, x)) :
    ∀ (pre : List (DirRepo → Bool × DirRepo)), (∀ f ∈ pre, ∀ x, P x → P (f x).2) →
      ∀ r, P r → (rmSeq (pre ++ g :: post) r).1 = false ∧ P (rmSeq (pre ++ g :: post) r).2 := by
  intro pre
  induction pre with
  | nil =>
    intro _ r hr
    simp only [List.nil_append]
    rw [rmSeq_cons_false (hg r hr)]
    exact ⟨rfl, hr⟩
  | cons f pre' ih =>
    intro hpre r hr
    simp only [List.cons_append]
    have hp := hpre f List.mem_cons_self r hr
    cases hf : f r with
    | mk ok r' =>
      rw [hf] at hp
      cases ok with
      | true =>
        rw [rmSeq_cons_true hf]
        exact ih (fun f' hf' => hpre f' (List.mem_cons_of_mem _ hf')) r' hp
      | false =>
        rw [rmSeq_cons_false hf]
        exact ⟨rfl, hp⟩

/-- the invariant: the layout files are there, blob `b` is there, and so is the directory of its algorithm -/
def HoldsBlob (b : Blob) (lay : Bool) (x : DirRepo) : Prop :=
  x.repoDir = true ∧ x.indexFile = true ∧ x.layoutFile = lay ∧ x.blobsDir = true ∧ b ∈ x.blobs ∧ algoOf b.dig ∈ x.algos

theorem rmUploads_holds {b : Blob} {lay : Bool} (x : DirRepo) (h : HoldsBlob b lay x) : HoldsBlob b lay (rmUploads x).2 := by
  unfold rmUploads
  split
  · exact h
  · split
    · exact h
    · exact h

theorem rmAlgo_holds {b : Blob} {lay : Bool} (a : Nat) (x : DirRepo) (h : HoldsBlob b lay x) : HoldsBlob b lay (rmAlgo a x).2 := by
  obtain ⟨h1, h2, h3, h4, h5, h6⟩ := h
  unfold rmAlgo
  split
  · exact ⟨h1, h2, h3, h4, h5, h6⟩
  · split
    · rename_i he
      refine ⟨h1, h2, h3, h4, h5, ?_⟩
      have hne : algoOf b.dig ≠ a := by
        intro heq
        unfold algoEmpty at he
        simp only [Bool.and_eq_true, List.all_eq_true, decide_eq_true_eq] at he
        exact he.1 b h5 heq
      exact (List.mem_erase_of_ne hne).mpr h6
    · exact ⟨h1, h2, h3, h4, h5, h6⟩

theorem rmBlobs_fails {b : Blob} {lay : Bool} (x : DirRepo) (h : HoldsBlob b lay x) : rmBlobs x = (false, x) := by
  obtain ⟨_, _, _, h4, _, h6⟩ := h
  unfold rmBlobs
  have : x.algos.isEmpty = false := by
    cases ha : x.algos with
    | nil => rw [ha] at h6; simp at h6
    | cons _ _ => rfl
  simp [h4, this]

theorem dirStep1_holds {b : Blob} {lay : Bool} (x : DirRepo) (h : HoldsBlob b lay x) : HoldsBlob b lay (dirStep1 x) := by
  unfold dirStep1
  split
  · exact rmUploads_holds x h
  · exact h

theorem dirStep1_frame (x : DirRepo) : (dirStep1 x).corrupt = x.corrupt ∧ (dirStep1 x).index = x.index ∧ (dirStep1 x).blobs = x.blobs := by
  unfold dirStep1 rmUploads
  split
  · split
    · exact ⟨rfl, rfl, rfl⟩
    · split <;> exact ⟨rfl, rfl, rfl⟩
  · exact ⟨rfl, rfl, rfl⟩

theorem pruneEmpty_holds {b : Blob} {lay : Bool} (x : DirRepo) (h : HoldsBlob b lay x) : HoldsBlob b lay (pruneEmpty x) := by
  unfold pruneEmpty
  rw [if_neg (by simp [h.1])]
  have hstop := rmSeq_stop (HoldsBlob b lay) rmBlobs [rmIndexFile, rmLayoutFile, rmRepoDir]
    (fun y hy => rmBlobs_fails y hy) ([rmUploads] ++ x.algos.map rmAlgo) (by
      intro f hf y hy
      rcases List.mem_append.mp hf with hf1 | hf1
      · simp only [List.mem_singleton] at hf1; subst hf1; exact rmUploads_holds y hy
      · obtain ⟨a, _, rfl⟩ := List.mem_map.mp hf1; exact rmAlgo_holds a y hy) x h
  have hlist : [rmUploads] ++ List.map rmAlgo x.algos ++ [rmBlobs, rmIndexFile, rmLayoutFile, rmRepoDir] =
      ([rmUploads] ++ List.map rmAlgo x.algos) ++ rmBlobs :: [rmIndexFile, rmLayoutFile, rmRepoDir] := rfl
  rw [hlist]
  obtain ⟨s1, s2⟩ := hstop
  cases hres : rmSeq (([rmUploads] ++ List.map rmAlgo x.algos) ++ rmBlobs :: [rmIndexFile, rmLayoutFile, rmRepoDir]) x with
  | mk ok r' =>
    rw [hres] at s1 s2
    simp only [] at s1 s2
    subst s1
    simp only []
    split
    · exact s2
    · exact s2

/-- C06/C05 (F5 repaired): a repository in which the collection leaves a blob keeps its `index.json` and `oci-layout`
    (and the blob), even when `EmptyRepo` is set and the index has no entry -/
theorem blobs_keep_layout' (p : Policy) (e : Bool) (r : DirRepo)
    (hload : r.repoDir = true ∧ r.indexFile = true ∧ r.corrupt = false) (hbd : r.blobsDir = true)
    (halg : ∀ b ∈ r.blobs, algoOf b.dig ∈ r.algos) (b : Blob) (hb : b ∈ gcBlobs p r.index r.blobs) :
    HoldsBlob b r.layoutFile (dirGC p e r).1 := by
  obtain ⟨h1, h2, h3⟩ := hload
  have hbs : b ∈ r.blobs := (List.mem_filter.mp hb).1
  have h0 : HoldsBlob b r.layoutFile r := ⟨h1, h2, rfl, hbd, hbs, halg b hbs⟩
  have hs1 := dirStep1_holds r h0
  obtain ⟨f1, f2, f3⟩ := dirStep1_frame r
  have hlf : loadFails (dirStep1 r) = false := by
    unfold loadFails; simp [hs1.1, hs1.2.1, f1, h3]
  have hc : HoldsBlob b r.layoutFile (dirCollect p (dirStep1 r)) := by
    unfold dirCollect
    rw [hlf]
    obtain ⟨q1, q2, q3, q4, _, q6⟩ := hs1
    refine ⟨q1, q2, q3, q4, ?_, q6⟩
    show b ∈ gcBlobs p (dirStep1 r).index (dirStep1 r).blobs
    rw [f2, f3]; exact hb
  unfold dirGC dirPrune
  simp only []
  split
  · exact pruneEmpty_holds _ hc
  · exact hc
end Ixd
