import Ixd.GCKeep
/-!
# The collector keeps nothing else (C06, upper bound) — and so exactly the retained blobs

`walk_sound`: whatever the walk opens is a retained descriptor, whatever it puts into `seen` is a retained digest;
`gc_keeps_only`: every surviving blob is retained; with `gc_keeps_retained'` this is `gc_exact'`.
No hypothesis on the object graph or the index is needed for the upper bound.
-/
namespace Ixd

/-- digests justified by the mark phase -/
def Just (p : Policy) (bs : List Blob) (ms : List Desc) (g : Nat) : Prop :=
  (∃ c, RetD p bs ms g c) ∨
  (∃ h b, RetD p bs ms h 1 ∧ getBlob bs h = some b ∧ b.json = true ∧ (g = b.cfg ∨ g ∈ b.layers))

theorem Just.retained {p : Policy} {bs : List Blob} {ms : List Desc} {g : Nat} (h : Just p bs ms g) : Retained p bs ms g := by
  rcases h with ⟨c, hc⟩ | ⟨h, b, hd, hb, hj, hg⟩
  · exact Retained.desc hc
  · rcases hg with rfl | hl
    · exact Retained.cfg hd hb hj
    · exact Retained.layer hd hb hj hl

/-- what opening a retained descriptor pushes is retained (if its blob exists) -/
theorem pushed_ret {p : Policy} {bs : List Blob} {ms : List Desc} {g c : Nat} {b : Blob} {x : Desc}
    (hd : RetD p bs ms g c) (hb : getBlob bs g = some b) (hx : x ∈ pushed (bounds p bs ms) g c b) :
    ∀ b', getBlob bs x.dig = some b' → RetD p bs ms x.dig (cls x.mt) := by
  intro b' hb'
  have via : ∀ (ho : opens c b), x ∈ (match subjOf (bounds p bs ms) g with | some r => [r] | none => []) →
      RetD p bs ms x.dig (cls x.mt) := by
    intro ho hx
    split at hx
    · rename_i r hr
      simp only [List.mem_singleton] at hx
      subst hx
      obtain ⟨hm, hc⟩ := mem_bounds.mp (subjOf_mem hr)
      exact RetD.resp hd hb ho hm hc hb'
    · simp at hx
  unfold pushed at hx
  simp only [] at hx
  split at hx
  · rename_i h2
    subst h2
    split at hx
    · rename_i hj
      rcases List.mem_append.mp hx with h | h
      · exact via (Or.inr hj) h
      · rw [List.mem_reverse, List.mem_map] at h
        obtain ⟨k, hk, rfl⟩ := h
        exact RetD.child hd hb hj hk hb'
    · simp at hx
  · split at hx
    · split at hx
      · rename_i hj
        exact via (Or.inr hj) hx
      · simp at hx
    · rename_i h2 h1
      exact via (Or.inl ⟨h1, h2⟩) hx

theorem walk_sound (p : Policy) (bs : List Blob) (ms : List Desc) :
    ∀ work walked seen inIdx,
      (∀ d ∈ work, ∀ b, getBlob bs d.dig = some b → RetD p bs ms d.dig (cls d.mt)) →
      (∀ g c, (g, c) ∈ walked → RetD p bs ms g c) →
      (∀ g ∈ seen, Just p bs ms g) →
      (∀ g c, (g, c) ∈ (walk bs (bounds p bs ms) work walked seen inIdx).walked → RetD p bs ms g c) ∧
      (∀ g ∈ (walk bs (bounds p bs ms) work walked seen inIdx).seen, Just p bs ms g) := by
  intro work walked seen inIdx
  fun_induction walk bs (bounds p bs ms) work walked seen inIdx with
  | case1 walked seen inIdx => intro _ hw hs; exact ⟨hw, hs⟩
  | case2 d work walked seen inIdx hs ih => intro hwk hw hse; exact ih (fun e he => hwk e (List.mem_cons_of_mem _ he)) hw hse
  | case3 d work walked seen inIdx hs hg ih => intro hwk hw hse; exact ih (fun e he => hwk e (List.mem_cons_of_mem _ he)) hw hse
  | case4 d work walked seen inIdx hs b hg ih =>
    intro hwk hw hse
    have hd := hwk d List.mem_cons_self b hg
    apply ih
    · intro e he
      rcases List.mem_append.mp he with h | h
      · exact pushed_ret hd hg h
      · exact hwk e (List.mem_cons_of_mem _ h)
    · intro g c hm
      rcases List.mem_cons.mp hm with heq | h
      · rw [(Prod.mk.inj heq).1, (Prod.mk.inj heq).2]; exact hd
      · exact hw g c h
    · intro g hm
      rcases List.mem_append.mp hm with h | h
      · unfold marked at h
        split at h
        · rename_i hc
          rw [hc.1] at hd
          refine Or.inr ⟨d.dig, b, hd, hg, hc.2, ?_⟩
          simp only [List.mem_append, List.mem_reverse, List.mem_singleton] at h
          rcases h with h | h
          · exact Or.inr h
          · exact Or.inl h
        · simp at h
      · rcases List.mem_cons.mp h with rfl | h2
        · exact Or.inl ⟨_, hd⟩
        · exact hse g h2

theorem marks_sound (p : Policy) (ix : Index) (bs : List Blob) :
    (∀ g c, (g, c) ∈ (marks p ix bs).walked → RetD p bs ix.manifests g c) ∧
    (∀ g ∈ (marks p ix bs).seen, Just p bs ix.manifests g) := by
  unfold marks
  apply walk_sound
  · intro d hd b hb
    obtain ⟨hm, hc⟩ := mem_roots.mp (List.mem_reverse.mp hd)
    exact RetD.root hm hc hb
  · intro g c h; simp at h
  · intro g h; simp at h

/-- C06, upper bound: every blob that survives the collection is retained by the policy -/
theorem gc_keeps_only {p : Policy} {ix : Index} {bs : List Blob} (hz : ∀ b ∈ bs, b.dig ≠ 0) {g : Nat}
    (h : g ∈ (gc p ix bs).blobs) : Retained p bs ix.manifests g := by
  obtain ⟨b, hb, rfl, hk⟩ := mem_gc_blobs.mp h
  unfold keepB at hk
  simp only [Bool.or_eq_true, Bool.and_eq_true, List.contains_eq_mem, decide_eq_true_eq, Bool.not_eq_true',
    decide_eq_false_iff_not] at hk
  rcases hk with hs | ⟨⟨hg, hr⟩, hi⟩
  · exact ((marks_sound p ix bs).2 _ hs).retained
  · refine Retained.recent hb (hz b hb) hg hr ?_
    intro e he hed
    apply hi
    apply (marks_inv p ix bs).idx0
    rw [List.mem_reverse, List.mem_map]
    exact ⟨e, he, hed⟩

/-- C05 + C06: the surviving blobs are exactly the retained ones -/
theorem gc_exact' {p : Policy} {ix : Index} {bs : List Blob} (hU : SubjUnique ix.manifests) (hz : ∀ b ∈ bs, b.dig ≠ 0) (g : Nat) :
    g ∈ (gc p ix bs).blobs ↔ (∃ b ∈ bs, b.dig = g) ∧ Retained p bs ix.manifests g := by
  constructor
  · intro h
    obtain ⟨b, hb, hg, _⟩ := mem_gc_blobs.mp h
    exact ⟨⟨b, hb, hg⟩, gc_keeps_only hz h⟩
  · rintro ⟨⟨b, hb, hg⟩, hr⟩
    exact gc_keeps_retained' hU hr b hb hg
end Ixd
