import Ixd.GCIndex
/-!
# Complete images stay complete (C05, last sentence)

`Complete ix bs g c`: the descriptor with digest `g`, read under class `c`, can be pulled completely from a repository
with index `ix` and blobs `bs` — its blob is there and decodes; for an image, config and layers are there; for an index,
every child is there, complete itself and (if it is a manifest) resolvable by digest through the index.
`complete_preserved`: a retained descriptor that was complete before the collection is complete after it.
-/
namespace Ixd

theorem getBlob_filter (q : Nat → Bool) (bs : List Blob) (g : Nat) :
    getBlob (bs.filter (fun b => q b.dig)) g = if q g then getBlob bs g else none := by
  unfold getBlob
  by_cases hg : g = 0
  · simp [hg]
  · simp only [hg, if_false]
    induction bs with
    | nil => simp
    | cons b rest ih =>
      simp only [List.filter_cons]
      by_cases hb : b.dig = g
      · by_cases hq : q b.dig = true
        · have hq' : q g = true := by rw [← hb]; exact hq
          simp [hq, hb, hq']
        · have hq' : ¬ q g = true := by rw [← hb]; exact hq
          simp only [hq, hq', if_false, Bool.false_eq_true]
          simp only [hq', if_false, Bool.false_eq_true] at ih
          exact ih
      · by_cases hq : q b.dig = true
        · simp only [hq, if_true, List.find?_cons, hb, decide_false]
          exact ih
        · simp only [hq, if_false, Bool.false_eq_true, List.find?_cons, hb, decide_false]
          exact ih

/-- a blob whose digest the collection keeps is still there, unchanged -/
theorem getBlob_gcBlobs {p : Policy} {ix : Index} {bs : List Blob} {g : Nat} (h : g ∈ (gc p ix bs).blobs) :
    getBlob (gcBlobs p ix bs) g = getBlob bs g := by
  unfold gcBlobs
  rw [getBlob_filter (fun d => (gc p ix bs).blobs.contains d)]
  simp [h]

theorem getBlob_gcBlobs_sub {p : Policy} {ix : Index} {bs : List Blob} {g : Nat} {b : Blob}
    (h : getBlob (gcBlobs p ix bs) g = some b) : getBlob bs g = some b ∧ g ∈ (gc p ix bs).blobs := by
  unfold gcBlobs at h
  rw [getBlob_filter (fun d => (gc p ix bs).blobs.contains d)] at h
  split at h
  · rename_i hq
    exact ⟨h, by simpa using hq⟩
  · cases h

theorem seen_getBlob {p : Policy} {ix : Index} {bs : List Blob} {g : Nat} {b : Blob}
    (hs : g ∈ (marks p ix bs).seen) (hb : getBlob bs g = some b) : getBlob (gcBlobs p ix bs) g = some b := by
  obtain ⟨hm, hd⟩ := getBlob_mem_bs hb
  rw [getBlob_gcBlobs (by rw [← hd]; exact seen_kept hm (by rw [hd]; exact hs)), hb]

inductive Complete (ix : Index) (bs : List Blob) : Nat → Nat → Prop
  | blob {g : Nat} {b : Blob} : getBlob bs g = some b → Complete ix bs g 0
  | image {g : Nat} {b : Blob} : getBlob bs g = some b → b.json = true → getBlob bs b.cfg ≠ none →
      (∀ l ∈ b.layers, getBlob bs l ≠ none) → Complete ix bs g 1
  | index {g : Nat} {b : Blob} : getBlob bs g = some b → b.json = true →
      (∀ k ∈ b.kids, cls k.1 ≠ 0 → (getDescDig ix k.2).isSome = true) →
      (∀ k ∈ b.kids, Complete ix bs k.2 (cls k.1)) → Complete ix bs g 2

theorem Complete.exists {ix : Index} {bs : List Blob} {g c : Nat} (h : Complete ix bs g c) : ∃ b, getBlob bs g = some b := by
  cases h with
  | blob hb => exact ⟨_, hb⟩
  | image hb _ _ _ => exact ⟨_, hb⟩
  | index hb _ _ _ => exact ⟨_, hb⟩

/-- a digest the mark phase has seen and that was resolvable through the index stays resolvable -/
theorem resolvable_kept {p : Policy} {ix : Index} {bs : List Blob} (hz : ∀ b ∈ bs, b.dig ≠ 0) {g : Nat}
    (hs : g ∈ (marks p ix bs).seen) (hb : getBlob bs g ≠ none) (hr : (getDescDig ix g).isSome = true) :
    (getDescDig (gc p ix bs).index g).isSome = true := by
  rw [getDescDig_isSome] at hr ⊢
  have hsv : ∀ e : Desc, e.dig = g → survives p ix bs e = true := by
    intro e he
    apply survives_of_kept
    · intro b _ hbd
      unfold keepB
      simp [hbd, he, hs]
    · left; rw [he]; exact hb
  rcases hr with ⟨e, he, hg⟩ | ⟨e, he, hg⟩
  · exact Or.inl ⟨e, (gc_manifests p ix bs hz).mem_iff.mpr (List.mem_filter.mpr ⟨he, hsv e hg⟩), hg⟩
  · have hbk : backedB bs e = true := by
      unfold backedB
      cases hx : getBlob bs e.dig with
      | none => rw [hg] at hx; exact absurd hx hb
      | some b => simp
    exact Or.inr ⟨e, (gc_children p ix bs hz).mem_iff.mpr (List.mem_filter.mpr ⟨he, by simp [hsv e hg, hbk]⟩), hg⟩

/-- C05: a retained descriptor that could be pulled completely before the collection can be pulled completely after it -/
theorem complete_preserved {p : Policy} {ix : Index} {bs : List Blob} (hU : SubjUnique ix.manifests) (hz : ∀ b ∈ bs, b.dig ≠ 0)
    {g c : Nat} (hc : Complete ix bs g c) :
    RetD p bs ix.manifests g c → Complete (gc p ix bs).index (gcBlobs p ix bs) g c := by
  have inv := marks_inv p ix bs
  induction hc with
  | @blob g b hb =>
    intro hd
    exact Complete.blob (seen_getBlob (inv.wseen _ _ (retD_walked hU hd)) hb)
  | @image g b hb hj hcfg hl =>
    intro hd
    have hw := retD_walked hU hd
    have hm := (inv.closed g 1 hw b hb).2
    refine Complete.image (seen_getBlob (inv.wseen _ _ hw) hb) hj ?_ ?_
    · cases hx : getBlob bs b.cfg with
      | none => exact absurd hx hcfg
      | some bc => rw [seen_getBlob (hm b.cfg (by unfold marked; simp [hj])) hx]; simp
    · intro l hlm
      cases hx : getBlob bs l with
      | none => exact absurd hx (hl l hlm)
      | some bl => rw [seen_getBlob (hm l (by unfold marked; simp [hj, hlm])) hx]; simp
  | @index g b hb hj hres _ ih =>
    intro hd
    have hw := retD_walked hU hd
    refine Complete.index (seen_getBlob (inv.wseen _ _ hw) hb) hj ?_ ?_
    · intro k hk hcl
      rename_i hkids
      obtain ⟨bk, hbk⟩ := (hkids k hk).exists
      have hdk : RetD p bs ix.manifests k.2 (cls k.1) := RetD.child hd hb hj hk hbk
      exact resolvable_kept hz (inv.wseen _ _ (retD_walked hU hdk)) (by rw [hbk]; simp) (hres k hk hcl)
    · intro k hk
      rename_i hkids
      obtain ⟨bk, hbk⟩ := (hkids k hk).exists
      exact ih k hk (RetD.child hd hb hj hk hbk)
end Ixd
