import Conc.Basic
import Conc.Handlers
import Conc.UpdInst
import Conc.Lines
import Conc.Toy
import Conc.Alone
