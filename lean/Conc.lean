import Conc.Basic
import Conc.Handlers
import Conc.UpdInst
