import Ccd.Basic
/-! scratch: first C20 theorems on the cache pilot model -/
namespace Ccd

/-- Delete: an entry disappears only after its cleanup was called and succeeded; a failing cleanup keeps it -/
theorem delete_spec (c : Cache) (k : Nat) (e : Entry) (he : c.find k = some e) (hfn : c.hasFn = true) :
    (fails e.val = true → (delete c k).1 = c ∧ (delete c k).2.1 = [(k, e.val)] ∧ (delete c k).2.2 = true) ∧
    (fails e.val = false → (delete c k).1 = c.erase k ∧ (delete c k).2.1 = [(k, e.val)] ∧ (delete c k).2.2 = false) := by
  unfold delete
  simp only [he, hfn, if_true]
  constructor
  · intro hf; simp [hf]
  · intro hf; simp [hf]

theorem erase_mem (c : Cache) (k : Nat) (x : Entry) : x ∈ (c.erase k).entries ↔ x ∈ c.entries ∧ x.key ≠ k := by
  unfold Cache.erase
  simp [List.mem_filter]

theorem put_mem_other (c : Cache) (e x : Entry) (hx : x.key ≠ e.key) : x ∈ (c.put e).entries ↔ x ∈ c.entries := by
  unfold Cache.put
  split
  · simp only [List.mem_map]
    constructor
    · rintro ⟨y, hy, rfl⟩
      by_cases hk : y.key = e.key
      · simp only [hk, if_true] at hx ⊢
        exact absurd rfl hx
      · simp only [hk, if_false]
        exact hy
    · intro h
      exact ⟨x, h, by simp [hx]⟩
  · simp only [List.mem_append, List.mem_singleton]
    constructor
    · rintro (h | rfl)
      · exact h
      · exact absurd rfl hx
    · intro h; exact Or.inl h

/-- the step of the age prune on one entry -/
def ageStep (now : Nat) (acc : Out) (e : Entry) : Out :=
  let (c, calls, err) := acc
  if e.used + c.minAge < now then
    if c.hasFn then
      if fails e.val then (c.put { e with used := now }, calls ++ [(e.key, e.val)], err)
      else (c.erase e.key, calls ++ [(e.key, e.val)], err)
    else (c.erase e.key, calls, err)
  else acc

theorem pruneAge_eq (c : Cache) (now : Nat) (h : c.minAge ≠ 0) :
    pruneAge c now = c.entries.foldl (ageStep now) (c, [], false) := by
  unfold pruneAge
  simp only [h, if_false]
  rfl

/-- an entry that is not the one being processed survives a step unchanged -/
theorem ageStep_keeps (now : Nat) (acc : Out) (e x : Entry) (hx : x.key ≠ e.key) (hm : x ∈ acc.1.entries) :
    x ∈ (ageStep now acc e).1.entries := by
  obtain ⟨c, calls, err⟩ := acc
  unfold ageStep
  simp only []
  split
  · split
    · split
      · exact (put_mem_other c { e with used := now } x hx).mpr hm
      · exact (erase_mem c e.key x).mpr ⟨hm, hx⟩
    · exact (erase_mem c e.key x).mpr ⟨hm, hx⟩
  · exact hm

theorem ageStep_minAge (now : Nat) (acc : Out) (e : Entry) : (ageStep now acc e).1.minAge = acc.1.minAge := by
  obtain ⟨c, calls, err⟩ := acc
  unfold ageStep
  simp only []
  split
  · split
    · split
      · unfold Cache.put; split <;> rfl
      · rfl
    · rfl
  · rfl

/-- C20: the age prune never removes an entry that was used within the configured age
    (keys are distinct in a cache; the entry is identified by its key) -/
theorem pruneAge_not_early (c : Cache) (now : Nat) (x : Entry) (hx : x ∈ c.entries)
    (huniq : ∀ y ∈ c.entries, y.key = x.key → y = x) (hfresh : ¬ (x.used + c.minAge < now)) :
    x ∈ (pruneAge c now).1.entries := by
  by_cases h0 : c.minAge = 0
  · unfold pruneAge; simp [h0, hx]
  · rw [pruneAge_eq c now h0]
    -- generalise over the fold: process a sublist `l` of the original entries
    have gen : ∀ (l : List Entry) (acc : Out), (∀ y ∈ l, y ∈ c.entries) → acc.1.minAge = c.minAge → x ∈ acc.1.entries →
        x ∈ (l.foldl (ageStep now) acc).1.entries := by
      intro l
      induction l with
      | nil => intro acc _ _ h; exact h
      | cons e rest ih =>
        intro acc hsub hmin hmem
        simp only [List.foldl_cons]
        apply ih
        · intro y hy; exact hsub y (List.mem_cons_of_mem _ hy)
        · rw [ageStep_minAge]; exact hmin
        · by_cases hk : e.key = x.key
          · -- the entry itself: it is fresh, so the step leaves everything as it is
            have hex : e = x := huniq e (hsub e List.mem_cons_self) hk
            subst hex
            obtain ⟨c', calls, err⟩ := acc
            unfold ageStep
            simp only [] at hmin ⊢
            rw [hmin]
            simp only [hfresh, if_false]
            exact hmem
          · exact ageStep_keeps now acc e x (fun h => hk h.symm) hmem
    exact gen c.entries (c, [], false) (fun y hy => hy) rfl hx
end Ccd
