import Ccd.Basic
/-! Lemmas about the sequential cache model (`Ccd/Basic.lean`); the property theorems are in `Properties/C20.lean`. -/
namespace Ccd

/-- two entries are the same incarnation: same key, value and creating `Set` -/
def Same (a b : Entry) : Prop := a.key = b.key ∧ a.val = b.val ∧ a.id = b.id

theorem Same.rfl' (a : Entry) : Same a a := ⟨rfl, rfl, rfl⟩

/-- distinct entries of the map differ in key and in incarnation -/
def Apart (a b : Entry) : Prop := a.key ≠ b.key ∧ a.id ≠ b.id

/-- the list stands for a map: keys are unique; incarnation ids are unique and below the counter -/
structure Cache.WF (c : Cache) : Prop where
  keys : c.entries.Pairwise Apart
  ids : ∀ e ∈ c.entries, e.id < c.nextId

theorem apart_symm {a b : Entry} (h : Apart a b) : Apart b a := ⟨fun e => h.1 e.symm, fun e => h.2 e.symm⟩

theorem pairwise_key_inj {l : List Entry} (h : l.Pairwise Apart) {a b : Entry} (ha : a ∈ l) (hb : b ∈ l)
    (hk : a.key = b.key) : a = b := by
  induction l with
  | nil => cases ha
  | cons x xs ih =>
    rw [List.pairwise_cons] at h
    rcases List.mem_cons.mp ha with rfl | ha'
    · rcases List.mem_cons.mp hb with rfl | hb'
      · rfl
      · exact absurd hk (h.1 b hb').1
    · rcases List.mem_cons.mp hb with rfl | hb'
      · exact absurd hk.symm (h.1 a ha').1
      · exact ih h.2 ha' hb'

theorem Cache.WF.key_inj {c : Cache} (h : c.WF) {a b : Entry} (ha : a ∈ c.entries) (hb : b ∈ c.entries)
    (hk : a.key = b.key) : a = b := pairwise_key_inj h.keys ha hb hk

theorem find_some {c : Cache} {k : Nat} {e : Entry} (h : c.find k = some e) : e ∈ c.entries ∧ e.key = k := by
  unfold Cache.find at h
  exact ⟨List.mem_of_find?_eq_some h, by simpa using List.find?_some h⟩

theorem find_none {c : Cache} {k : Nat} (h : c.find k = none) : ∀ e ∈ c.entries, e.key ≠ k := by
  unfold Cache.find at h
  intro e he
  have := List.find?_eq_none.mp h e he
  simpa using this

/-! ### `mkCache`, configuration -/

theorem mkCache_wf (age count : Nat) (hasFn : Bool) : (mkCache age count hasFn).WF :=
  ⟨List.Pairwise.nil, fun _ h => by cases h⟩

theorem ninety_le (count : Nat) : ninety count ≤ count := by unfold ninety; omega

theorem mkCache_limits (age count : Nat) (hasFn : Bool) (h : 0 < count) :
    0 < (mkCache age count hasFn).minCount ∧ (mkCache age count hasFn).minCount ≤ (mkCache age count hasFn).maxCount := by
  have := ninety_le count
  simp only [mkCache, h, if_true]
  split <;> omega

/-! ### `put` -/

theorem put_wf {c : Cache} (h : c.WF) (k v now : Nat) : (c.put k v now).WF := by
  constructor
  · simp only [Cache.put]
    rw [List.pairwise_append]
    refine ⟨h.keys.filter _, List.pairwise_singleton _ _, ?_⟩
    intro a ha b hb
    rw [List.mem_filter] at ha
    rw [List.mem_singleton] at hb
    subst hb
    have := h.ids a ha.1
    exact ⟨by simpa using ha.2, by simp only []; omega⟩
  · intro e he
    simp only [Cache.put, List.mem_append, List.mem_filter, List.mem_singleton] at he ⊢
    rcases he with he | rfl
    · have := h.ids e he.1; omega
    · simp

theorem put_mem {c : Cache} {k v now : Nat} {e : Entry} (he : e ∈ (c.put k v now).entries) :
    (e ∈ c.entries ∧ e.key ≠ k) ∨ e = ⟨k, v, now, c.nextId⟩ := by
  simp only [Cache.put, List.mem_append, List.mem_filter, List.mem_singleton] at he
  rcases he with he | he
  · exact Or.inl ⟨he.1, by simpa using he.2⟩
  · exact Or.inr he

/-! ### sorting by last use -/

theorem insertByUsed_perm (e : Entry) (l : List Entry) : (insertByUsed e l).Perm (e :: l) := by
  induction l with
  | nil => exact List.Perm.refl _
  | cons x xs ih =>
    simp only [insertByUsed]
    split
    · exact List.Perm.refl _
    · exact (List.Perm.cons x ih).trans (List.Perm.swap e x xs)

theorem sortByUsed_perm (l : List Entry) : (sortByUsed l).Perm l := by
  induction l with
  | nil => exact List.Perm.refl _
  | cons x xs ih => exact (insertByUsed_perm x _).trans (List.Perm.cons x ih)

theorem olderEq_iff (a b : Entry) :
    olderEq a b = true ↔ (a.used < b.used ∨ (a.used = b.used ∧ a.key ≤ b.key)) := by
  simp [olderEq]

theorem olderEq_total (a b : Entry) (h : olderEq a b = false) : olderEq b a = true := by
  rw [olderEq_iff]
  have h' : ¬ (a.used < b.used ∨ (a.used = b.used ∧ a.key ≤ b.key)) := by
    rw [← olderEq_iff]; simp [h]
  omega

theorem olderEq_trans {a b c : Entry} : olderEq a b = true → olderEq b c = true → olderEq a c = true := by
  simp only [olderEq, Bool.or_eq_true, Bool.and_eq_true, decide_eq_true_eq]
  intro h1 h2
  rcases h1 with h1 | ⟨h1, h1'⟩ <;> rcases h2 with h2 | ⟨h2, h2'⟩
  · exact Or.inl (by omega)
  · exact Or.inl (by omega)
  · exact Or.inl (by omega)
  · exact Or.inr ⟨by omega, by omega⟩

theorem olderEq_used {a b : Entry} (h : olderEq a b = true) : a.used ≤ b.used := by
  simp only [olderEq, Bool.or_eq_true, Bool.and_eq_true, decide_eq_true_eq] at h
  omega

theorem insertByUsed_sorted (e : Entry) (l : List Entry) (h : l.Pairwise (fun a b => olderEq a b = true)) :
    (insertByUsed e l).Pairwise (fun a b => olderEq a b = true) := by
  induction l with
  | nil => exact List.pairwise_singleton _ _
  | cons x xs ih =>
    rw [List.pairwise_cons] at h
    simp only [insertByUsed]
    split
    · rename_i hex
      rw [List.pairwise_cons]
      refine ⟨?_, List.pairwise_cons.mpr h⟩
      intro y hy
      rcases List.mem_cons.mp hy with rfl | hy'
      · exact hex
      · exact olderEq_trans hex (h.1 y hy')
    · rename_i hex
      rw [List.pairwise_cons]
      refine ⟨?_, ih h.2⟩
      intro y hy
      have hy' := (insertByUsed_perm e xs).mem_iff.mp hy
      rcases List.mem_cons.mp hy' with rfl | hy''
      · exact olderEq_total _ _ (by simpa using hex)
      · exact h.1 y hy''

theorem sortByUsed_sorted (l : List Entry) : (sortByUsed l).Pairwise (fun a b => olderEq a b = true) := by
  induction l with
  | nil => exact List.Pairwise.nil
  | cons x xs ih => exact insertByUsed_sorted x _ ih

/-! ### the eviction loop -/

/-- the entry after a failed cleanup in a prune at `now` -/
def redate (now : Nat) (e : Entry) : Entry := { e with used := now }

/-- the loop of `pruneCount` handles a prefix `p` of the sorted list and leaves the rest `q` alone: the entries
    of `p` whose cleanup fails are re-dated, the others are removed; it stops after `n` removals -/
theorem evict_prefix (hasFn : Bool) (fl : Nat → Bool) (now : Nat) (n : Nat) (s : List Entry) :
    ∃ p q, s = p ++ q ∧
      (evict hasFn fl now n s).1 = (p.filter (failing hasFn fl)).map (redate now) ++ q ∧
      (evict hasFn fl now n s).2 = p.flatMap (callOf hasFn fl) ∧
      (p.filter (fun e => !failing hasFn fl e)).length ≤ n ∧
      (q ≠ [] → (p.filter (fun e => !failing hasFn fl e)).length = n) := by
  induction s generalizing n with
  | nil =>
    refine ⟨[], [], rfl, ?_, ?_, by simp, by simp⟩ <;> cases n <;> simp [evict]
  | cons e rest ih =>
    cases n with
    | zero => exact ⟨[], e :: rest, rfl, by simp [evict], by simp [evict], by simp, by simp⟩
    | succ n =>
      by_cases hf : failing hasFn fl e = true
      · obtain ⟨p, q, hs, h1, h2, h3, h4⟩ := ih (n + 1)
        refine ⟨e :: p, q, by rw [hs]; rfl, ?_, ?_, ?_, ?_⟩
        · simp only [evict, hf, if_true, h1, List.filter_cons_of_pos hf, List.map_cons, redate, List.cons_append]
        · simp only [evict, hf, if_true, h2, List.flatMap_cons]
        · simpa [List.filter_cons, hf] using h3
        · simpa [List.filter_cons, hf] using h4
      · have hf' : failing hasFn fl e = false := by simpa using hf
        obtain ⟨p, q, hs, h1, h2, h3, h4⟩ := ih n
        refine ⟨e :: p, q, by rw [hs]; rfl, ?_, ?_, ?_, ?_⟩
        · simp only [evict, hf', Bool.false_eq_true, if_false, h1, List.filter_cons]
        · simp only [evict, hf', Bool.false_eq_true, if_false, h2, List.flatMap_cons]
        · simp only [List.filter_cons, hf', Bool.not_false, if_true, List.length_cons]; omega
        · intro hq; have := h4 hq
          simp only [List.filter_cons, hf', Bool.not_false, if_true, List.length_cons]; omega

/-- when no cleanup fails the loop removes exactly `n` entries (all of them if there are fewer) -/
theorem evict_all_ok (hasFn : Bool) (fl : Nat → Bool) (now : Nat) (n : Nat) (s : List Entry)
    (hok : ∀ e ∈ s, failing hasFn fl e = false) : (evict hasFn fl now n s).1.length = s.length - n := by
  induction s generalizing n with
  | nil => cases n <;> simp [evict]
  | cons e rest ih =>
    cases n with
    | zero => simp [evict]
    | succ n =>
      have he := hok e List.mem_cons_self
      simp only [evict, he, Bool.false_eq_true, if_false, List.length_cons]
      rw [ih n (fun x hx => hok x (List.mem_cons_of_mem _ hx))]
      omega

/-- a successful callback invocation for `e` -/
def okCall (e : Entry) : Call := ⟨e.key, e.val, true⟩

theorem callOf_ok {hasFn : Bool} {fl : Nat → Bool} {e : Entry} (hfn : hasFn = true) (hf : failing hasFn fl e = false) :
    okCall e ∈ callOf hasFn fl e := by
  simp only [failing, hfn, Bool.true_and] at hf
  simp [callOf, hfn, hf, okCall]

theorem callOf_failed {hasFn : Bool} {fl : Nat → Bool} {e : Entry} {x : Call} (hx : x ∈ callOf hasFn fl e)
    (hbad : x.ok = false) : failing hasFn fl e = true ∧ x.key = e.key ∧ x.val = e.val := by
  unfold callOf at hx
  split at hx
  · rename_i hfn
    rw [List.mem_singleton] at hx
    subst hx
    simp only [Bool.not_eq_false'] at hbad
    simp [failing, hfn, hbad]
  · cases hx

/-! ### origin of the entries after an operation: nothing is invented, nothing changes key, value or incarnation -/

theorem get_entries (c : Cache) (k now : Nat) :
    (get c k now).1.entries = c.entries ∨
    (get c k now).1.entries = c.entries.map (fun x => if x.key = k then { x with used := now } else x) := by
  unfold get; split
  · exact Or.inr rfl
  · exact Or.inl rfl

theorem get_origin {c : Cache} {k now : Nat} {e' : Entry} (h : e' ∈ (get c k now).1.entries) :
    ∃ e ∈ c.entries, Same e' e := by
  rcases get_entries c k now with h0 | h0 <;> rw [h0] at h
  · exact ⟨e', h, Same.rfl' _⟩
  · obtain ⟨x, hx, rfl⟩ := List.mem_map.mp h
    refine ⟨x, hx, ?_⟩
    split <;> exact ⟨rfl, rfl, rfl⟩

theorem get_keeps {c : Cache} {k now : Nat} {e : Entry} (h : e ∈ c.entries) :
    ∃ e' ∈ (get c k now).1.entries, Same e' e := by
  rcases get_entries c k now with h0 | h0 <;> rw [h0]
  · exact ⟨e, h, Same.rfl' _⟩
  · refine ⟨_, List.mem_map.mpr ⟨e, h, rfl⟩, ?_⟩
    split <;> exact ⟨rfl, rfl, rfl⟩

theorem ageEntry_same {c : Cache} {now : Nat} {fl : Nat → Bool} {e e' : Entry} (h : ageEntry c now fl e = some e') :
    Same e' e := by
  unfold ageEntry at h
  split at h
  · split at h
    · cases h; exact ⟨rfl, rfl, rfl⟩
    · cases h
  · cases h; exact Same.rfl' _

theorem evict_origin {hasFn : Bool} {fl : Nat → Bool} {now n : Nat} {s : List Entry} {e' : Entry}
    (h : e' ∈ (evict hasFn fl now n s).1) : ∃ e ∈ s, Same e' e := by
  obtain ⟨p, q, hs, h1, -, -, -⟩ := evict_prefix hasFn fl now n s
  rw [h1, List.mem_append] at h
  rcases h with h | h
  · obtain ⟨x, hx, rfl⟩ := List.mem_map.mp h
    exact ⟨x, by rw [hs]; exact List.mem_append_left _ (List.mem_filter.mp hx).1, ⟨rfl, rfl, rfl⟩⟩
  · exact ⟨e', by rw [hs]; exact List.mem_append_right _ h, Same.rfl' _⟩

/-- a list obtained from a map by dropping entries and changing last-use stamps is still a map -/
theorem pairwise_of_origin {l l' : List Entry} (hl : l.Pairwise Apart)
    (hsub : ∃ f : Entry → Option Entry, l' = l.filterMap f ∧ ∀ a b, f a = some b → Same b a) : l'.Pairwise Apart := by
  obtain ⟨f, rfl, hf⟩ := hsub
  rw [List.pairwise_filterMap]
  refine hl.imp ?_
  intro a a' haa b hb b' hb'
  obtain ⟨k1, -, i1⟩ := hf a b hb
  obtain ⟨k2, -, i2⟩ := hf a' b' hb'
  exact ⟨by rw [k1, k2]; exact haa.1, by rw [i1, i2]; exact haa.2⟩

theorem evict_pairwise {hasFn : Bool} {fl : Nat → Bool} {now n : Nat} {s : List Entry} (hs : s.Pairwise Apart) :
    (evict hasFn fl now n s).1.Pairwise Apart := by
  induction s generalizing n with
  | nil => cases n <;> simp [evict]
  | cons e rest ih =>
    rw [List.pairwise_cons] at hs
    cases n with
    | zero => simpa [evict] using List.pairwise_cons.mpr hs
    | succ n =>
      simp only [evict]
      split
      · rw [List.pairwise_cons]
        refine ⟨?_, ih hs.2⟩
        intro x hx
        obtain ⟨y, hy, k, -, i⟩ := evict_origin hx
        have := hs.1 y hy
        exact ⟨by rw [k]; exact this.1, by rw [i]; exact this.2⟩
      · exact ih hs.2

/-! ### every operation keeps the list a map and the configuration fixed -/

theorem pruneCount_wf {c : Cache} (h : c.WF) (now : Nat) (fl : Nat → Bool) : (pruneCount c now fl).1.WF := by
  unfold pruneCount
  split
  · exact h
  · constructor
    · exact evict_pairwise (((sortByUsed_perm c.entries).pairwise_iff (fun h => apart_symm h)).mpr h.keys)
    · intro e he
      obtain ⟨y, hy, -, -, i⟩ := evict_origin he
      have := h.ids y ((sortByUsed_perm c.entries).mem_iff.mp hy)
      simp only []; omega

theorem step_wf {c : Cache} (h : c.WF) (op : Op) : (step c op).1.WF := by
  cases op with
  | set k v now fl =>
    simp only [step, set]
    split
    · exact pruneCount_wf (put_wf h k v now) now fl
    · exact put_wf h k v now
  | get k now =>
    simp only [step]
    unfold get; split
    · constructor
      · simp only []
        rw [List.pairwise_map]
        refine h.keys.imp ?_
        intro a b hab
        constructor
        · split <;> split <;> exact hab.1
        · split <;> split <;> exact hab.2
      · intro e he
        obtain ⟨x, hx, rfl⟩ := List.mem_map.mp he
        have := h.ids x hx
        split <;> simpa using this
    · exact h
  | delete k fl =>
    simp only [step]
    unfold delete; split
    · split
      · exact h
      · exact ⟨h.keys.filter _, fun e he => h.ids e (List.mem_filter.mp he).1⟩
    · exact h
  | deleteAll fl =>
    exact ⟨h.keys.filter _, fun e he => h.ids e (List.mem_filter.mp he).1⟩
  | pruneAge now fl =>
    simp only [step]
    unfold pruneAge; split
    · exact h
    · constructor
      · exact pairwise_of_origin h.keys ⟨ageEntry c now fl, rfl, fun a b hab => ageEntry_same hab⟩
      · intro e he
        obtain ⟨x, hx, hxe⟩ := List.mem_filterMap.mp he
        have := h.ids x hx
        rw [(ageEntry_same hxe).2.2]; exact this
  | pruneCount now fl => exact pruneCount_wf h now fl

theorem pruneCount_cfg (c : Cache) (now : Nat) (fl : Nat → Bool) :
    (pruneCount c now fl).1.minAge = c.minAge ∧ (pruneCount c now fl).1.maxCount = c.maxCount ∧
    (pruneCount c now fl).1.minCount = c.minCount ∧ (pruneCount c now fl).1.hasFn = c.hasFn ∧
    (pruneCount c now fl).1.nextId = c.nextId := by
  unfold pruneCount; split <;> exact ⟨rfl, rfl, rfl, rfl, rfl⟩

/-- no operation changes the configuration; only `Set` advances the incarnation counter -/
theorem step_cfg (c : Cache) (op : Op) :
    (step c op).1.minAge = c.minAge ∧ (step c op).1.maxCount = c.maxCount ∧
    (step c op).1.minCount = c.minCount ∧ (step c op).1.hasFn = c.hasFn ∧ c.nextId ≤ (step c op).1.nextId := by
  cases op with
  | set k v now fl =>
    simp only [step, set]
    split
    · obtain ⟨a, b, d, e, f⟩ := pruneCount_cfg (c.put k v now) now fl
      exact ⟨a, b, d, e, by rw [f]; simp [Cache.put]⟩
    · exact ⟨rfl, rfl, rfl, rfl, by simp [Cache.put]⟩
  | get k now => simp only [step]; unfold get; split <;> exact ⟨rfl, rfl, rfl, rfl, Nat.le_refl _⟩
  | delete k fl =>
    simp only [step]; unfold delete
    split
    · split <;> exact ⟨rfl, rfl, rfl, rfl, Nat.le_refl _⟩
    · exact ⟨rfl, rfl, rfl, rfl, Nat.le_refl _⟩
  | deleteAll fl => exact ⟨rfl, rfl, rfl, rfl, Nat.le_refl _⟩
  | pruneAge now fl => simp only [step]; unfold pruneAge; split <;> exact ⟨rfl, rfl, rfl, rfl, Nat.le_refl _⟩
  | pruneCount now fl =>
    obtain ⟨a, b, d, e, f⟩ := pruneCount_cfg c now fl
    exact ⟨a, b, d, e, by simp only [step]; omega⟩

theorem run_wf {c : Cache} (h : c.WF) (ops : List Op) : (after c ops).WF := by
  induction ops generalizing c with
  | nil => exact h
  | cons op ops ih => exact ih (step_wf h op)

theorem run_cfg (c : Cache) (ops : List Op) :
    (after c ops).minAge = c.minAge ∧ (after c ops).maxCount = c.maxCount ∧
    (after c ops).minCount = c.minCount ∧ (after c ops).hasFn = c.hasFn := by
  induction ops generalizing c with
  | nil => exact ⟨rfl, rfl, rfl, rfl⟩
  | cons op ops ih =>
    obtain ⟨a, b, d, e, -⟩ := step_cfg c op
    obtain ⟨a', b', d', e'⟩ := ih (c := (step c op).1)
    exact ⟨a'.trans a, b'.trans b, d'.trans d, e'.trans e⟩

theorem pre_wf {c : Cache} (h : c.WF) (op : Op) : (pre c op).WF := by
  cases op <;> first | exact h | exact put_wf h _ _ _

/-! ### origin: what is in the map after an operation was in the map it started from -/

theorem pruneCount_origin {c : Cache} {now : Nat} {fl : Nat → Bool} {e' : Entry}
    (h : e' ∈ (pruneCount c now fl).1.entries) : ∃ e ∈ c.entries, Same e' e := by
  unfold pruneCount at h
  split at h
  · exact ⟨e', h, Same.rfl' _⟩
  · obtain ⟨y, hy, hs⟩ := evict_origin h
    exact ⟨y, (sortByUsed_perm c.entries).mem_iff.mp hy, hs⟩

theorem step_origin {c : Cache} {op : Op} {e' : Entry} (h : e' ∈ (step c op).1.entries) :
    ∃ e ∈ (pre c op).entries, Same e' e := by
  cases op with
  | set k v now fl =>
    simp only [step, set] at h
    split at h
    · exact pruneCount_origin h
    · exact ⟨e', h, Same.rfl' _⟩
  | get k now => exact get_origin h
  | delete k fl =>
    simp only [step] at h
    unfold delete at h
    split at h
    · split at h
      · exact ⟨e', h, Same.rfl' _⟩
      · exact ⟨e', (List.mem_filter.mp h).1, Same.rfl' _⟩
    · exact ⟨e', h, Same.rfl' _⟩
  | deleteAll fl => exact ⟨e', (List.mem_filter.mp h).1, Same.rfl' _⟩
  | pruneAge now fl =>
    simp only [step] at h
    unfold pruneAge at h
    split at h
    · exact ⟨e', h, Same.rfl' _⟩
    · obtain ⟨x, hx, hxe⟩ := List.mem_filterMap.mp h
      exact ⟨x, hx, ageEntry_same hxe⟩
  | pruneCount now fl => exact pruneCount_origin h

/-! ### removed ⇒ cleaned up -/

/-- what `pruneCount` does to one entry of the map: kept as it is, kept re-dated after a failed cleanup, or
    removed after a successful one -/
theorem pruneCount_cases {c : Cache} (now : Nat) (fl : Nat → Bool) {e : Entry} (he : e ∈ c.entries) :
    e ∈ (pruneCount c now fl).1.entries ∨
    (failing c.hasFn fl e = true ∧ redate now e ∈ (pruneCount c now fl).1.entries) ∨
    (failing c.hasFn fl e = false ∧ ∀ x ∈ callOf c.hasFn fl e, x ∈ (pruneCount c now fl).2.1) := by
  unfold pruneCount
  split
  · exact Or.inl he
  · obtain ⟨p, q, hs, h1, h2, -, -⟩ := evict_prefix c.hasFn fl now (c.entries.length - c.minCount) (sortByUsed c.entries)
    have hmem : e ∈ p ++ q := by rw [← hs]; exact (sortByUsed_perm c.entries).mem_iff.mpr he
    simp only [h1, h2]
    rcases List.mem_append.mp hmem with hp | hq
    · by_cases hf : failing c.hasFn fl e = true
      · exact Or.inr (Or.inl ⟨hf, List.mem_append_left _ (List.mem_map.mpr ⟨e, List.mem_filter.mpr ⟨hp, hf⟩, rfl⟩)⟩)
      · exact Or.inr (Or.inr ⟨by simpa using hf, fun x hx => List.mem_flatMap.mpr ⟨e, hp, hx⟩⟩)
    · exact Or.inl (List.mem_append_right _ hq)

theorem pruneCount_removed_cleaned {c : Cache} (hfn : c.hasFn = true) (now : Nat) (fl : Nat → Bool) {e : Entry}
    (he : e ∈ c.entries) (gone : ∀ e' ∈ (pruneCount c now fl).1.entries, e'.key ≠ e.key) :
    okCall e ∈ (pruneCount c now fl).2.1 := by
  rcases pruneCount_cases now fl he with h | ⟨-, h⟩ | ⟨hf, h⟩
  · exact absurd rfl (gone e h)
  · exact absurd rfl (gone (redate now e) h)
  · exact h _ (callOf_ok hfn hf)

/-- **removed ⇒ cleaned up**, one operation: an entry of the map the operation started from whose key is no
    longer in the map had its cleanup called, for exactly this key and value, and the call succeeded -/
theorem step_removed_cleaned {c : Cache} (hwf : c.WF) (hfn : c.hasFn = true) (op : Op) {e : Entry}
    (he : e ∈ (pre c op).entries) (gone : ∀ e' ∈ (step c op).1.entries, e'.key ≠ e.key) :
    okCall e ∈ (step c op).2 := by
  cases op with
  | set k v now fl =>
    simp only [step, set, pre] at he gone ⊢
    split at gone
    · rename_i hc; simp only [hc]
      exact pruneCount_removed_cleaned (by simpa [Cache.put] using hfn) now fl he gone
    · exact absurd rfl (gone e he)
  | get k now =>
    obtain ⟨e', he', hs⟩ := get_keeps (k := k) (now := now) he
    exact absurd hs.1 (gone e' he')
  | delete k fl =>
    simp only [step, pre] at he gone ⊢
    unfold delete at gone ⊢
    split at gone
    · rename_i e0 hfind
      obtain ⟨hm, hk⟩ := find_some hfind
      split at gone
      · exact absurd rfl (gone e he)
      · rename_i hf
        by_cases hek : e.key = k
        · have : e = e0 := hwf.key_inj he hm (hek.trans hk.symm)
          subst this
          simp only [hf, Bool.false_eq_true, if_false]
          exact callOf_ok hfn (by simpa using hf)
        · exact absurd rfl (gone e (by simp only [Cache.erase]; exact List.mem_filter.mpr ⟨he, by simpa using hek⟩))
    · exact absurd rfl (gone e he)
  | deleteAll fl =>
    simp only [step, pre, deleteAll] at he gone ⊢
    by_cases hf : failing c.hasFn fl e = true
    · exact absurd rfl (gone e (List.mem_filter.mpr ⟨he, hf⟩))
    · exact List.mem_flatMap.mpr ⟨e, he, callOf_ok hfn (by simpa using hf)⟩
  | pruneAge now fl =>
    simp only [step, pre] at he gone ⊢
    unfold pruneAge at gone ⊢
    split at gone
    · exact absurd rfl (gone e he)
    · rename_i h0
      simp only [h0, if_false]
      by_cases hx : expired c.minAge now e = true
      · by_cases hf : failing c.hasFn fl e = true
        · exact absurd rfl (gone (redate now e) (List.mem_filterMap.mpr ⟨e, he, by simp [ageEntry, hx, hf, redate]⟩))
        · exact List.mem_flatMap.mpr ⟨e, List.mem_filter.mpr ⟨he, hx⟩, callOf_ok hfn (by simpa using hf)⟩
      · exact absurd rfl (gone e (List.mem_filterMap.mpr ⟨e, he, by simp [ageEntry, hx]⟩))
  | pruneCount now fl => exact pruneCount_removed_cleaned hfn now fl he gone

/-! ### failed cleanup ⇒ kept -/

theorem pruneCount_failed_kept {c : Cache} (now : Nat) (fl : Nat → Bool) {x : Call}
    (hx : x ∈ (pruneCount c now fl).2.1) (hbad : x.ok = false) :
    ∃ e ∈ (pruneCount c now fl).1.entries, e.key = x.key ∧ e.val = x.val ∧ e.used = now := by
  unfold pruneCount at hx ⊢
  split at hx
  · cases hx
  · rename_i hc
    simp only [hc, if_false]
    obtain ⟨p, q, -, h1, h2, -, -⟩ := evict_prefix c.hasFn fl now (c.entries.length - c.minCount) (sortByUsed c.entries)
    simp only [h2] at hx
    obtain ⟨y, hy, hxy⟩ := List.mem_flatMap.mp hx
    obtain ⟨hf, hk, hv⟩ := callOf_failed hxy hbad
    refine ⟨redate now y, ?_, hk.symm, hv.symm, rfl⟩
    simp only [h1]
    exact List.mem_append_left _ (List.mem_map.mpr ⟨y, List.mem_filter.mpr ⟨hy, hf⟩, rfl⟩)

/-- **failed cleanup ⇒ kept**, one operation: if a callback invocation of the operation reported an error, an
    entry with this key and value is in the map afterwards -/
theorem step_failed_kept (c : Cache) (op : Op) {x : Call} (hx : x ∈ (step c op).2) (hbad : x.ok = false) :
    ∃ e ∈ (step c op).1.entries, e.key = x.key ∧ e.val = x.val := by
  cases op with
  | set k v now fl =>
    simp only [step, set] at hx ⊢
    split at hx
    · rename_i hc; simp only [hc]
      obtain ⟨e, he, h1, h2, -⟩ := pruneCount_failed_kept now fl hx hbad
      exact ⟨e, he, h1, h2⟩
    · cases hx
  | get k now => cases hx
  | delete k fl =>
    simp only [step] at hx ⊢
    unfold delete at hx ⊢
    split at hx
    · rename_i e0 hfind
      have hcall : x ∈ callOf c.hasFn fl e0 := by split at hx <;> exact hx
      obtain ⟨hf, hk, hv⟩ := callOf_failed hcall hbad
      simp only [hf, if_true]
      exact ⟨e0, (find_some hfind).1, hk.symm, hv.symm⟩
    · cases hx
  | deleteAll fl =>
    simp only [step, deleteAll] at hx ⊢
    obtain ⟨y, hy, hxy⟩ := List.mem_flatMap.mp hx
    obtain ⟨hf, hk, hv⟩ := callOf_failed hxy hbad
    exact ⟨y, List.mem_filter.mpr ⟨hy, hf⟩, hk.symm, hv.symm⟩
  | pruneAge now fl =>
    simp only [step] at hx ⊢
    unfold pruneAge at hx ⊢
    split at hx
    · cases hx
    · rename_i h0
      simp only [h0, if_false]
      obtain ⟨y, hy, hxy⟩ := List.mem_flatMap.mp hx
      obtain ⟨hm, hexp⟩ := List.mem_filter.mp hy
      obtain ⟨hf, hk, hv⟩ := callOf_failed hxy hbad
      exact ⟨redate now y, List.mem_filterMap.mpr ⟨y, hm, by simp [ageEntry, hexp, hf, redate]⟩, hk.symm, hv.symm⟩
  | pruneCount now fl =>
    obtain ⟨e, he, h1, h2, -⟩ := pruneCount_failed_kept now fl hx hbad
    exact ⟨e, he, h1, h2⟩

end Ccd
