import Ccd.Proofs
/-! Age cut-off, eviction order and prune-to-limit of the sequential cache model. -/
namespace Ccd

/-! ### the age prune -/

/-- an entry used within the configured age survives `pruneAge` untouched -/
theorem pruneAge_keeps_fresh (c : Cache) (now : Nat) (fl : Nat → Bool) {e : Entry} (he : e ∈ c.entries)
    (fresh : now ≤ e.used + c.minAge) : e ∈ (pruneAge c now fl).1.entries := by
  unfold pruneAge
  split
  · exact he
  · refine List.mem_filterMap.mpr ⟨e, he, ?_⟩
    have : expired c.minAge now e = false := by simp only [expired, decide_eq_false_iff_not]; omega
    simp [ageEntry, this]

/-- … and its cleanup is not called -/
theorem pruneAge_fresh_not_called (c : Cache) (now : Nat) (fl : Nat → Bool) (hwf : c.WF) {e : Entry} (he : e ∈ c.entries)
    (fresh : now ≤ e.used + c.minAge) : ∀ x ∈ (pruneAge c now fl).2.1, x.key ≠ e.key := by
  unfold pruneAge
  split
  · intro x hx; cases hx
  · intro x hx
    obtain ⟨y, hy, hxy⟩ := List.mem_flatMap.mp hx
    obtain ⟨hm, hexp⟩ := List.mem_filter.mp hy
    unfold callOf at hxy
    split at hxy
    · rw [List.mem_singleton] at hxy
      subst hxy
      intro hk
      have : y = e := hwf.key_inj hm he hk
      subst this
      simp only [expired, decide_eq_true_eq] at hexp
      omega
    · cases hxy

/-! ### eviction order -/

/-- **LRU, structural form**: `pruneCount` either does nothing (no limit or not above `minCount`) or handles a
    prefix `p` of the entries ordered by last use and leaves the rest `q` alone; in `p` the entries whose cleanup
    fails are re-dated and stay, every other one is removed; it stops as soon as the map is down to `minCount`
    entries (`q ≠ []` ⇒ exactly `len − minCount` removals) -/
theorem pruneCount_prefix (c : Cache) (now : Nat) (fl : Nat → Bool)
    (hgo : ¬ (c.minCount = 0 ∨ c.entries.length ≤ c.minCount)) :
    ∃ p q, sortByUsed c.entries = p ++ q ∧
      (pruneCount c now fl).1.entries = (p.filter (failing c.hasFn fl)).map (redate now) ++ q ∧
      (pruneCount c now fl).2.1 = p.flatMap (callOf c.hasFn fl) ∧
      (p.filter (fun e => !failing c.hasFn fl e)).length ≤ c.entries.length - c.minCount ∧
      (q ≠ [] → (p.filter (fun e => !failing c.hasFn fl e)).length = c.entries.length - c.minCount) := by
  obtain ⟨p, q, hs, h1, h2, h3, h4⟩ :=
    evict_prefix c.hasFn fl now (c.entries.length - c.minCount) (sortByUsed c.entries)
  refine ⟨p, q, hs, ?_, ?_, h3, h4⟩
  · unfold pruneCount; simp only [hgo, if_false]; exact h1
  · unfold pruneCount; simp only [hgo, if_false]; exact h2

theorem pairwise_append_left_right {R : Entry → Entry → Prop} {p q : List Entry} (h : (p ++ q).Pairwise R) :
    ∀ a ∈ p, ∀ b ∈ q, R a b := (List.pairwise_append.mp h).2.2

/-- **LRU, by last use**: if `pruneCount` evicts `x` then every entry that was used strictly earlier is evicted
    too, unless its cleanup failed -/
theorem pruneCount_lru (c : Cache) (hwf : c.WF) (now : Nat) (fl : Nat → Bool) {x y : Entry}
    (hx : x ∈ c.entries) (hy : y ∈ c.entries) (older : y.used < x.used)
    (gone : ∀ e' ∈ (pruneCount c now fl).1.entries, e'.key ≠ x.key) :
    (∀ e' ∈ (pruneCount c now fl).1.entries, e'.key ≠ y.key) ∨ failing c.hasFn fl y = true := by
  by_cases hgo : c.minCount = 0 ∨ c.entries.length ≤ c.minCount
  · have : (pruneCount c now fl).1 = c := by unfold pruneCount; simp only [hgo, if_true]
    rw [this] at gone
    exact absurd rfl (gone x hx)
  · obtain ⟨p, q, hs, h1, -, -, -⟩ := pruneCount_prefix c now fl hgo
    have hperm := sortByUsed_perm c.entries
    have hsorted := sortByUsed_sorted c.entries
    have hapart : (p ++ q).Pairwise Apart := by
      rw [← hs]; exact (hperm.pairwise_iff (fun h => apart_symm h)).mpr hwf.keys
    rw [hs] at hsorted
    have hxs : x ∈ p ++ q := by rw [← hs]; exact hperm.mem_iff.mpr hx
    have hys : y ∈ p ++ q := by rw [← hs]; exact hperm.mem_iff.mpr hy
    rw [h1] at gone ⊢
    -- x is in the handled prefix
    have hxp : x ∈ p := by
      rcases List.mem_append.mp hxs with h | h
      · exact h
      · exact absurd rfl (gone x (List.mem_append_right _ h))
    -- so y is, too (the list is sorted)
    have hyp : y ∈ p := by
      rcases List.mem_append.mp hys with h | h
      · exact h
      · have := olderEq_used (pairwise_append_left_right hsorted x hxp y h); omega
    by_cases hf : failing c.hasFn fl y = true
    · exact Or.inr hf
    · left
      intro e' he' hk
      rcases List.mem_append.mp he' with h | h
      · obtain ⟨w, hw, rfl⟩ := List.mem_map.mp h
        obtain ⟨hwp, hwf'⟩ := List.mem_filter.mp hw
        have : w = y := pairwise_key_inj hapart (List.mem_append_left _ hwp) hys hk
        subst this
        exact hf hwf'
      · exact (pairwise_append_left_right hapart y hyp e' h).1 hk.symm

/-! ### prune to the limit -/

/-- when no cleanup fails, `pruneCount` leaves at most `minCount` entries (if `minCount > 0`) -/
theorem pruneCount_to_min (c : Cache) (now : Nat) (fl : Nat → Bool) (hmin : 0 < c.minCount)
    (hok : ∀ e ∈ c.entries, failing c.hasFn fl e = false) :
    (pruneCount c now fl).1.entries.length ≤ c.minCount := by
  unfold pruneCount
  split
  · rename_i h; rcases h with h | h
    · omega
    · exact h
  · rename_i hgo
    simp only []
    rw [evict_all_ok _ _ _ _ _ (fun e he => hok e ((sortByUsed_perm c.entries).mem_iff.mp he)),
      (sortByUsed_perm c.entries).length_eq]
    omega

/-- **prune to limit**: when no cleanup fails, the map after a `Set` (with the count prune it triggers) holds at
    most `maxCount` entries — provided `0 < minCount ≤ maxCount`, which `New` guarantees since the F12 repair -/
theorem set_within_limit (c : Cache) (k v now : Nat) (fl : Nat → Bool) (hmin : 0 < c.minCount)
    (hle : c.minCount ≤ c.maxCount) (hok : ∀ e, failing c.hasFn fl e = false) :
    (set c k v now fl).1.entries.length ≤ c.maxCount := by
  unfold set
  simp only []
  split
  · have := pruneCount_to_min (c.put k v now) now fl (by simpa [Cache.put] using hmin)
      (fun e _ => by simpa [Cache.put] using hok e)
    have h2 : (c.put k v now).minCount = c.minCount := rfl
    omega
  · rename_i h
    show (c.put k v now).entries.length ≤ c.maxCount
    have h2 : (c.put k v now).maxCount = c.maxCount := rfl
    rw [h2] at h
    omega

end Ccd

namespace Ccd
/-- a failed cleanup in `pruneAge` keeps the entry and re-dates it to the time of the prune -/
theorem pruneAge_failed_kept {c : Cache} (now : Nat) (fl : Nat → Bool) {x : Call}
    (hx : x ∈ (pruneAge c now fl).2.1) (hbad : x.ok = false) :
    ∃ e ∈ (pruneAge c now fl).1.entries, e.key = x.key ∧ e.val = x.val ∧ e.used = now := by
  unfold pruneAge at hx ⊢
  split at hx
  · cases hx
  · rename_i h0
    simp only [h0, if_false]
    obtain ⟨y, hy, hxy⟩ := List.mem_flatMap.mp hx
    obtain ⟨hm, hexp⟩ := List.mem_filter.mp hy
    obtain ⟨hf, hk, hv⟩ := callOf_failed hxy hbad
    exact ⟨redate now y, List.mem_filterMap.mpr ⟨y, hm, by simp [ageEntry, hexp, hf, redate]⟩, hk.symm, hv.symm, rfl⟩
end Ccd
