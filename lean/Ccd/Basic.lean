/-!
# Ccd — model of `internal/cache/cache.go`, sequential semantics

The cache is a map `key ↦ (value, last use)` with two limits.  Everything the code takes from its
environment is an input of the model:

* time: every operation that reads the clock gets `now : Nat` (logical ticks);
* the cleanup callback (`Opts.PruneFn`): each operation gets `fl : Nat → Bool`, "the cleanup of the entry
  under this key reports an error during this operation".  Theorems quantify over every `fl`.
* the goroutine started by `Set` when the limit is exceeded (`go c.pruneCount()`) and the timer that calls
  `pruneAge` are explicit operations; `set` takes the count prune at quiescence.

`entries` stands for a Go map: its order carries no meaning (drivers sort before printing) and keys are
unique (`Cache.WF`, preserved by every operation, `Ccd/Proofs.lean`).

The model mirrors the code **as repaired by F12** (`minCount ≥ 1` whenever `Count > 0`); `mkCacheF12` is the
code as it was, kept for the recorded counterexample.
-/
namespace Ccd

structure Entry where
  key : Nat
  val : Nat
  used : Nat
  /-- which `Set` created the entry (stands for the identity of the `*Entry` pointer; only the interleaved
      model `Ccd/Small.lean` reads it) -/
  id : Nat := 0
  deriving Repr, DecidableEq

/-- one invocation of the cleanup callback and its outcome -/
structure Call where
  key : Nat
  val : Nat
  ok : Bool
  deriving Repr, DecidableEq

structure Cache where
  minAge : Nat          -- 0 = no age pruning
  maxCount : Nat        -- 0 = no count pruning
  minCount : Nat
  hasFn : Bool
  entries : List Entry := []
  nextId : Nat := 0
  deriving Repr

/-- `int(float64(Count) * 0.9)` in integer arithmetic (the harness validates the float expression against
    this for every `Count ≤ 10⁶`, thorough tier `10⁷`) -/
def ninety (count : Nat) : Nat := count * 9 / 10

/-- `New` as it was before the F12 repair: `Count = 1` gives `minCount = 0`, which turns `pruneCount` off -/
def mkCacheF12 (age count : Nat) (hasFn : Bool) : Cache :=
  { minAge := age, maxCount := count, minCount := if count > 0 then ninety count else 0, hasFn := hasFn }

/-- `New` (repaired): `minCount = max 1 ⌊0.9·Count⌋` when `Count > 0` -/
def mkCache (age count : Nat) (hasFn : Bool) : Cache :=
  { minAge := age, maxCount := count,
    minCount := if count > 0 then (if ninety count < 1 then 1 else ninety count) else 0, hasFn := hasFn }

def Cache.find (c : Cache) (k : Nat) : Option Entry := c.entries.find? (·.key = k)
def Cache.erase (c : Cache) (k : Nat) : Cache := { c with entries := c.entries.filter (·.key ≠ k) }
/-- `c.entries[key] = &Entry{…}` -/
def Cache.put (c : Cache) (k v now : Nat) : Cache :=
  { c with entries := c.entries.filter (·.key ≠ k) ++ [⟨k, v, now, c.nextId⟩], nextId := c.nextId + 1 }
def Cache.has (c : Cache) (k : Nat) : Bool := c.entries.any (·.key = k)

/-- result: cache, cleanup calls made in order, error flag -/
abbrev Out := Cache × List Call × Bool

/-- does the cleanup of `e` run and fail? -/
def failing (hasFn : Bool) (fl : Nat → Bool) (e : Entry) : Bool := hasFn && fl e.key
/-- the callback invocation for `e` (none when no `PruneFn` is configured) -/
def callOf (hasFn : Bool) (fl : Nat → Bool) (e : Entry) : List Call :=
  if hasFn then [⟨e.key, e.val, !fl e.key⟩] else []

def get (c : Cache) (k now : Nat) : Cache × Option Nat :=
  match c.find k with
  | some e => ({ c with entries := c.entries.map fun x => if x.key = k then { x with used := now } else x }, some e.val)
  | none => (c, none)

/-- `Delete`, callback and removal without anything in between (the interleaved version is `Ccd/Small.lean`) -/
def delete (c : Cache) (k : Nat) (fl : Nat → Bool) : Out :=
  match c.find k with
  | some e =>
    if failing c.hasFn fl e then (c, callOf c.hasFn fl e, true)
    else (c.erase k, callOf c.hasFn fl e, false)
  | none => (c, [], false)

/-- `DeleteAll`: every entry gets its cleanup; the ones whose cleanup fails stay -/
def deleteAll (c : Cache) (fl : Nat → Bool) : Out :=
  ({ c with entries := c.entries.filter (failing c.hasFn fl) },
   c.entries.flatMap (callOf c.hasFn fl),
   c.entries.any (failing c.hasFn fl))

/-- is the entry older than the configured age at `now`?  (`used.Before(now.Add(-minAge))`) -/
def expired (minAge now : Nat) (e : Entry) : Bool := e.used + minAge < now

/-- the body of the loop in `pruneAge` for one entry -/
def ageEntry (c : Cache) (now : Nat) (fl : Nat → Bool) (e : Entry) : Option Entry :=
  if expired c.minAge now e then
    if failing c.hasFn fl e then some { e with used := now } else none
  else some e

/-- `pruneAge` at time `now` -/
def pruneAge (c : Cache) (now : Nat) (fl : Nat → Bool) : Out :=
  if c.minAge = 0 then (c, [], false) else
  ({ c with entries := c.entries.filterMap (ageEntry c now fl) },
   (c.entries.filter (expired c.minAge now)).flatMap (callOf c.hasFn fl), false)

/-- order of eviction: last use, ties by key (the code's order on ties is that of an unstable sort over a map
    iteration, i.e. unspecified; the harness stamps ties so that they are broken by key) -/
def olderEq (a b : Entry) : Bool := a.used < b.used || (a.used = b.used && a.key ≤ b.key)

def insertByUsed (e : Entry) : List Entry → List Entry
  | [] => [e]
  | x :: xs => if olderEq e x then e :: x :: xs else x :: insertByUsed e xs
def sortByUsed : List Entry → List Entry
  | [] => []
  | e :: l => insertByUsed e (sortByUsed l)

/-- the loop of `pruneCount` over the sorted key list: `n` deletions are still to be made
    (`delLen - delCount`); a failing cleanup re-dates the entry and moves on -/
def evict (hasFn : Bool) (fl : Nat → Bool) (now : Nat) : Nat → List Entry → List Entry × List Call
  | 0, l => (l, [])
  | _ + 1, [] => ([], [])
  | n + 1, e :: rest =>
    if failing hasFn fl e then
      let r := evict hasFn fl now (n + 1) rest
      ({ e with used := now } :: r.1, callOf hasFn fl e ++ r.2)
    else
      let r := evict hasFn fl now n rest
      (r.1, callOf hasFn fl e ++ r.2)

/-- `pruneCount` at time `now` -/
def pruneCount (c : Cache) (now : Nat) (fl : Nat → Bool) : Out :=
  if c.minCount = 0 ∨ c.entries.length ≤ c.minCount then (c, [], false) else
  let r := evict c.hasFn fl now (c.entries.length - c.minCount) (sortByUsed c.entries)
  ({ c with entries := r.1 }, r.2, false)

/-- `Set`; when the count limit is exceeded the count prune (a goroutine in the code) is taken at quiescence -/
def set (c : Cache) (k v now : Nat) (fl : Nat → Bool) : Out :=
  let c1 := c.put k v now
  if c1.maxCount > 0 ∧ c1.entries.length > c1.maxCount then pruneCount c1 now fl else (c1, [], false)

/-- the operations of the cache, with everything they read from outside -/
inductive Op where
  | set (k v now : Nat) (fl : Nat → Bool)
  | get (k now : Nat)
  | delete (k : Nat) (fl : Nat → Bool)
  | deleteAll (fl : Nat → Bool)
  | pruneAge (now : Nat) (fl : Nat → Bool)
  | pruneCount (now : Nat) (fl : Nat → Bool)

/-- the cache an operation starts to remove from: for `Set` the map after the assignment (overwriting a key
    is an update of that entry, not a removal) -/
def pre (c : Cache) : Op → Cache
  | .set k v now _ => c.put k v now
  | _ => c

def step (c : Cache) : Op → Cache × List Call
  | .set k v now fl => let r := set c k v now fl; (r.1, r.2.1)
  | .get k now => ((get c k now).1, [])
  | .delete k fl => let r := delete c k fl; (r.1, r.2.1)
  | .deleteAll fl => let r := deleteAll c fl; (r.1, r.2.1)
  | .pruneAge now fl => let r := pruneAge c now fl; (r.1, r.2.1)
  | .pruneCount now fl => let r := pruneCount c now fl; (r.1, r.2.1)

/-- a history: final cache and the log of all callback invocations -/
def run (c : Cache) : List Op → Cache × List Call
  | [] => (c, [])
  | op :: ops => let r := step c op; let r' := run r.1 ops; (r'.1, r.2 ++ r'.2)

/-- the cache after a history -/
def after (c : Cache) (ops : List Op) : Cache := (run c ops).1

end Ccd
