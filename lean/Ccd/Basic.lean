/-! scratch pilot: internal/cache/cache.go, sequential semantics; callback outcomes and time are inputs -/
namespace Ccd

structure Entry where
  key : Nat
  val : Nat
  used : Nat
  deriving Repr

structure Cache where
  minAge : Nat          -- 0 = no age pruning
  maxCount : Nat        -- 0 = no count pruning
  minCount : Nat
  hasFn : Bool
  entries : List Entry := []
  deriving Repr

def mkCache (age count : Nat) (hasFn : Bool) : Cache :=
  { minAge := age, maxCount := count, minCount := if count > 0 then count * 9 / 10 else 0, hasFn := hasFn }

/-- cleanup fails for odd values ≥ 100 (the test's scripted callback) -/
def fails (v : Nat) : Bool := v ≥ 100 ∧ v % 2 = 1

def Cache.find (c : Cache) (k : Nat) : Option Entry := c.entries.find? (·.key = k)
def Cache.erase (c : Cache) (k : Nat) : Cache := { c with entries := c.entries.filter (·.key ≠ k) }
def Cache.put (c : Cache) (e : Entry) : Cache :=
  if c.entries.any (·.key = e.key) then { c with entries := c.entries.map fun x => if x.key = e.key then e else x }
  else { c with entries := c.entries ++ [e] }

/-- result: cache, cleanup calls made (key, value) in order, error flag -/
abbrev Out := Cache × List (Nat × Nat) × Bool


def get (c : Cache) (k now : Nat) : Cache × Option Nat :=
  match c.find k with
  | some e => (c.put { e with used := now }, some e.val)
  | none => (c, none)

def delete (c : Cache) (k : Nat) : Out :=
  match c.find k with
  | some e =>
    if c.hasFn then
      if fails e.val then (c, [(k, e.val)], true) else (c.erase k, [(k, e.val)], false)
    else (c.erase k, [], false)
  | none => (c, [], false)

def deleteAll (c : Cache) : Out :=
  c.entries.foldl (fun (acc : Out) e =>
    let (c, calls, err) := acc
    if c.hasFn then
      if fails e.val then (c, calls ++ [(e.key, e.val)], true) else (c.erase e.key, calls ++ [(e.key, e.val)], err)
    else (c.erase e.key, calls, err)) (c, [], false)

/-- pruneAge at time `now`: entries used before now - minAge are cleaned up and removed; a failing cleanup re-dates the entry -/
def pruneAge (c : Cache) (now : Nat) : Out :=
  if c.minAge = 0 then (c, [], false) else
  c.entries.foldl (fun (acc : Out) e =>
    let (c, calls, err) := acc
    if e.used + c.minAge < now then
      if c.hasFn then
        if fails e.val then (c.put { e with used := now }, calls ++ [(e.key, e.val)], err)
        else (c.erase e.key, calls ++ [(e.key, e.val)], err)
      else (c.erase e.key, calls, err)
    else acc) (c, [], false)

def insertByUsed (e : Entry) : List Entry → List Entry
  | [] => [e]
  | x :: xs => if e.used < x.used ∨ (e.used = x.used ∧ e.key ≤ x.key) then e :: x :: xs else x :: insertByUsed e xs   -- ties broken by key (the harness stamps them so)
def sortByUsed (l : List Entry) : List Entry := l.foldl (fun acc e => insertByUsed e acc) []

/-- pruneCount at time `now` -/
def pruneCount (c : Cache) (now : Nat) : Out :=
  if c.minCount = 0 ∨ c.entries.length ≤ c.minCount then (c, [], false) else
  let delLen := c.entries.length - c.minCount
  let rec go (todo : List Entry) (c : Cache) (calls : List (Nat × Nat)) (delCount : Nat) : Out :=
    match todo with
    | [] => (c, calls, false)
    | e :: rest =>
      if delCount ≥ delLen then (c, calls, false) else
      if c.hasFn then
        if fails e.val then go rest (c.put { e with used := now }) (calls ++ [(e.key, e.val)]) delCount
        else go rest (c.erase e.key) (calls ++ [(e.key, e.val)]) (delCount + 1)
      else go rest (c.erase e.key) calls (delCount + 1)
  go (sortByUsed c.entries) c [] 0
/-- Set; when the count limit is exceeded the count prune (a goroutine in the code) is taken at quiescence -/
def set (c : Cache) (k v now : Nat) : Out :=
  let c1 := c.put ⟨k, v, now⟩
  if c1.maxCount > 0 ∧ c1.entries.length > c1.maxCount then pruneCount c1 now else (c1, [], false)
end Ccd
