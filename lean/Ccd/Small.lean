import Ccd.Basic
/-!
# Ccd.Small — the cache with the unlock window of `Delete` / `DeleteAll`

`Delete(k)` and every iteration of `DeleteAll` are two critical sections with the callback in between:

    lock; v := entries[k].value; unlock          -- `begin t k`
    err := pruneFn(k, v)                         -- outside the mutex, may block for any length of time
    lock; if err == nil { delete … }; unlock     -- `finish t ok`

Everything else (`Set`, `Get`, `pruneAge`, `pruneCount` — the prunes call the callback *under* the mutex, so a
blocking callback there blocks every other operation and nothing can interleave) is one atomic event.  A
`DeleteAll` is a sequence of `begin t k` / `finish t ok` pairs of one thread `t` over keys of its choosing
(Go's map iteration order, and whether keys inserted meanwhile are visited, is not specified; the model
allows every choice).  An event sequence therefore is an arbitrary interleaving at the granularity at which
the mutex allows one.

`fix = true` is the code as repaired by F27 (the second section removes the entry only if it is still the one
whose value was handed to the callback); `fix = false` is the code as it was (removes whatever is stored under
the key by then).
-/
namespace Ccd

/-- a `Delete` (or `DeleteAll` iteration) of thread `tid` that is inside its callback -/
structure Pending where
  tid : Nat
  key : Nat
  val : Nat
  id : Nat
  deriving Repr, DecidableEq

structure SCache where
  c : Cache
  pend : List Pending := []
  /-- completed callback invocations, in order of completion -/
  log : List Call := []
  deriving Repr

inductive Ev where
  | atomic (op : Op)
  | begin (t k : Nat)
  | finish (t : Nat) (ok : Bool)

def sinit (age count : Nat) (hasFn : Bool) : SCache := { c := mkCache age count hasFn }

def SCache.pending (s : SCache) (t : Nat) : Option Pending := s.pend.find? (·.tid = t)

/-- is the entry stored under the pending key still the one the callback was called for? -/
def stillThere (c : Cache) (p : Pending) : Bool :=
  match c.find p.key with
  | some e => e.id = p.id
  | none => false

/-- the callback invocations that complete during an event -/
def scalls (s : SCache) : Ev → List Call
  | .atomic op => (step s.c op).2
  | .begin _ _ => []
  | .finish t ok =>
    match s.pending t with
    | some p => [⟨p.key, p.val, ok⟩]
    | none => []

/-- the map after an event -/
def snext (fix : Bool) (s : SCache) : Ev → Cache
  | .atomic op => (step s.c op).1
  | .begin t k =>
    match s.pending t with
    | some _ => s.c        -- the thread is inside a callback: it cannot start anything
    | none =>
      match s.c.find k with
      | none => s.c
      | some _ => if s.c.hasFn then s.c else s.c.erase k
  | .finish t ok =>
    match s.pending t with
    | none => s.c
    | some p =>
      if !ok then s.c                                  -- `if err != nil { return err }`
      else if fix && !stillThere s.c p then s.c        -- F27 repair: `if c.entries[key] != e { return nil }`
      else s.c.erase p.key                             -- `delete(c.entries, key)`

/-- the callbacks in progress after an event -/
def spend (s : SCache) : Ev → List Pending
  | .atomic _ => s.pend
  | .begin t k =>
    match s.pending t with
    | some _ => s.pend
    | none =>
      match s.c.find k with
      | none => s.pend
      | some e => if s.c.hasFn then s.pend ++ [⟨t, k, e.val, e.id⟩] else s.pend
  | .finish t _ => s.pend.filter (·.tid ≠ t)

def sstep (fix : Bool) (s : SCache) (ev : Ev) : SCache :=
  { c := snext fix s ev, pend := spend s ev, log := s.log ++ scalls s ev }

/-- the map an event starts to remove from (as `pre`) -/
def spre (s : SCache) : Ev → Cache
  | .atomic op => pre s.c op
  | _ => s.c

def srun (fix : Bool) (s : SCache) : List Ev → SCache
  | [] => s
  | ev :: evs => srun fix (sstep fix s ev) evs

end Ccd
