import Ccd.Small
import Ccd.Lru
/-! Invariant and lemmas of the interleaved cache model (`Ccd/Small.lean`). -/
namespace Ccd

theorem pairwise_id_inj {l : List Entry} (h : l.Pairwise Apart) {a b : Entry} (ha : a ∈ l) (hb : b ∈ l)
    (hi : a.id = b.id) : a = b := by
  induction l with
  | nil => cases ha
  | cons x xs ih =>
    rw [List.pairwise_cons] at h
    rcases List.mem_cons.mp ha with rfl | ha'
    · rcases List.mem_cons.mp hb with rfl | hb'
      · rfl
      · exact absurd hi (h.1 b hb').2
    · rcases List.mem_cons.mp hb with rfl | hb'
      · exact absurd hi.symm (h.1 a ha').2
      · exact ih h.2 ha' hb'

/-- what is in the map an operation starts from is in the cache or was just created -/
theorem pre_mem {c : Cache} {op : Op} {e : Entry} (h : e ∈ (pre c op).entries) : e ∈ c.entries ∨ e.id = c.nextId := by
  cases op with
  | set k v now fl =>
    rcases put_mem h with h | h
    · exact Or.inl h.1
    · exact Or.inr (by rw [h])
  | _ => exact Or.inl h

/-- the invariant of the interleaved model: the list is a map, and a callback in progress was called with the
    key and value of the incarnation it remembers -/
structure SInv (s : SCache) : Prop where
  wf : s.c.WF
  pids : ∀ p ∈ s.pend, p.id < s.c.nextId
  pmatch : ∀ p ∈ s.pend, ∀ e ∈ s.c.entries, e.id = p.id → e.key = p.key ∧ e.val = p.val

theorem sinit_inv (age count : Nat) (hasFn : Bool) : SInv (sinit age count hasFn) :=
  ⟨mkCache_wf age count hasFn, (fun _ h => by cases h), (fun _ h => by cases h)⟩

theorem pending_mem {s : SCache} {t : Nat} {p : Pending} (h : s.pending t = some p) : p ∈ s.pend ∧ p.tid = t := by
  unfold SCache.pending at h
  exact ⟨List.mem_of_find?_eq_some h, by simpa using List.find?_some h⟩

theorem erase_wf {c : Cache} (h : c.WF) (k : Nat) : (c.erase k).WF :=
  ⟨h.keys.filter _, fun e he => h.ids e (List.mem_filter.mp he).1⟩

theorem sstep_inv (fix : Bool) {s : SCache} (h : SInv s) (ev : Ev) : SInv (sstep fix s ev) := by
  cases ev with
  | atomic op =>
    refine ⟨step_wf h.wf op, ?_, ?_⟩
    · intro p hp
      have := h.pids p hp
      have := (step_cfg s.c op).2.2.2.2
      simp only [sstep, snext]; omega
    · intro p hp e' he' hid
      obtain ⟨e, he, hk, hv, hi⟩ := step_origin he'
      rcases pre_mem he with hm | hnew
      · have := h.pmatch p hp e hm (hi.symm.trans hid)
        exact ⟨hk.trans this.1, hv.trans this.2⟩
      · have := h.pids p hp
        omega
  | begin t k =>
    simp only [sstep, snext, spend]
    split
    · exact ⟨h.wf, h.pids, h.pmatch⟩
    · split
      · exact ⟨h.wf, h.pids, h.pmatch⟩
      · rename_i e hfind
        obtain ⟨hm, hk⟩ := find_some hfind
        split
        · refine ⟨h.wf, ?_, ?_⟩
          · intro p hp
            rcases List.mem_append.mp hp with hp | hp
            · exact h.pids p hp
            · rw [List.mem_singleton] at hp; subst hp; exact h.wf.ids e hm
          · intro p hp e' he' hid
            rcases List.mem_append.mp hp with hp | hp
            · exact h.pmatch p hp e' he' hid
            · rw [List.mem_singleton] at hp; subst hp
              have : e' = e := pairwise_id_inj h.wf.keys he' hm hid
              subst this
              exact ⟨hk, rfl⟩
        · exact ⟨erase_wf h.wf k, h.pids, fun p hp e' he' => h.pmatch p hp e' (List.mem_filter.mp he').1⟩
  | finish t ok =>
    simp only [sstep, snext, spend]
    have hsub : ∀ p ∈ s.pend.filter (·.tid ≠ t), p ∈ s.pend := fun p hp => (List.mem_filter.mp hp).1
    split
    · exact ⟨h.wf, fun p hp => h.pids p (hsub p hp), fun p hp => h.pmatch p (hsub p hp)⟩
    · split
      · exact ⟨h.wf, fun p hp => h.pids p (hsub p hp), fun p hp => h.pmatch p (hsub p hp)⟩
      · split
        · exact ⟨h.wf, fun p hp => h.pids p (hsub p hp), fun p hp => h.pmatch p (hsub p hp)⟩
        · exact ⟨erase_wf h.wf _, fun p hp => h.pids p (hsub p hp),
            fun p hp e' he' => h.pmatch p (hsub p hp) e' (List.mem_filter.mp he').1⟩

theorem srun_inv (fix : Bool) {s : SCache} (h : SInv s) (evs : List Ev) : SInv (srun fix s evs) := by
  induction evs generalizing s with
  | nil => exact h
  | cons ev evs ih => exact ih (sstep_inv fix h ev)

theorem snext_hasFn (fix : Bool) (s : SCache) (ev : Ev) : (snext fix s ev).hasFn = s.c.hasFn := by
  cases ev with
  | atomic op => exact (step_cfg s.c op).2.2.2.1
  | begin t k =>
    simp only [snext]
    split
    · rfl
    · split
      · rfl
      · split <;> rfl
  | finish t ok =>
    simp only [snext]
    split
    · rfl
    · split
      · rfl
      · split <;> rfl

theorem srun_hasFn (fix : Bool) (s : SCache) (evs : List Ev) : (srun fix s evs).c.hasFn = s.c.hasFn := by
  induction evs generalizing s with
  | nil => rfl
  | cons ev evs ih => exact (ih (sstep fix s ev)).trans (snext_hasFn fix s ev)

/-- **removed ⇒ cleaned up**, one event of the interleaved model (repaired code): an incarnation that is in the
    map the event starts from and not in the map it leaves had its cleanup completed successfully *during this
    event*, called with exactly its key and value -/
theorem sstep_removed_cleaned {s : SCache} (h : SInv s) (hfn : s.c.hasFn = true) (ev : Ev) {e : Entry}
    (he : e ∈ (spre s ev).entries)
    (gone : ∀ e' ∈ (snext true s ev).entries, ¬ (e'.key = e.key ∧ e'.id = e.id)) :
    okCall e ∈ scalls s ev := by
  cases ev with
  | atomic op =>
    simp only [spre, snext, scalls] at he gone ⊢
    apply step_removed_cleaned h.wf hfn op he
    intro e' he' hk
    obtain ⟨e0, he0, hk0, -, hi0⟩ := step_origin he'
    have : e0 = e := (pre_wf h.wf op).key_inj he0 he (hk0.symm.trans hk)
    subst this
    exact gone e' he' ⟨hk, hi0⟩
  | begin t k =>
    simp only [spre, snext] at he gone
    exfalso
    split at gone
    · exact gone e he ⟨rfl, rfl⟩
    · split at gone
      · exact gone e he ⟨rfl, rfl⟩
      · simp only [hfn, if_true] at gone
        exact gone e he ⟨rfl, rfl⟩
  | finish t ok =>
    simp only [spre, snext, scalls] at he gone ⊢
    split at gone
    · exact absurd ⟨rfl, rfl⟩ (gone e he)
    · rename_i p hp
      obtain ⟨hpm, -⟩ := pending_mem hp
      split at gone
      · exact absurd ⟨rfl, rfl⟩ (gone e he)
      · rename_i hok
        have hok' : ok = true := by simpa using hok
        split at gone
        · exact absurd ⟨rfl, rfl⟩ (gone e he)
        · rename_i hst
          have hst' : stillThere s.c p = true := by simpa using hst
          unfold stillThere at hst'
          split at hst'
          · rename_i e0 hfind
            obtain ⟨hm0, hk0⟩ := find_some hfind
            have hid : e0.id = p.id := by simpa using hst'
            by_cases hek : e.key = p.key
            · have : e = e0 := h.wf.key_inj he hm0 (hek.trans hk0.symm)
              subst this
              obtain ⟨-, hv⟩ := h.pmatch p hpm e he hid
              rw [hp]; simp [okCall, hek, hv, hok']
            · exact absurd ⟨rfl, rfl⟩ (gone e (List.mem_filter.mpr ⟨he, by simpa using hek⟩))
          · cases hst'

/-- a callback that reports an error leaves the map as it is (either version of the code) -/
theorem finish_failed_unchanged (fix : Bool) (s : SCache) (t : Nat) : snext fix s (.finish t false) = s.c := by
  simp only [snext]
  split
  · rfl
  · rfl

end Ccd
