/-!
# File-system model of the directory store (property C09)

`Disk` is what a restarted server can read: the *files* under the store root, as a finite-support map from structured
paths to their bytes.  Directories carry no recoverable content (the recovery reads `oci-layout`, `index.json` and
blob files only), so `mkdirAll`, the removal of a directory and `close` are operations without an effect on `Disk`;
they are kept in `FsOp` because the correspondence with the code is the equality of the *operation traces*.

Process-crash model: a crash happens between two operations, or inside a `write` / `writeFile` after a prefix of
the bytes has reached the file.  What is on `Disk` at that instant is what the restarted server finds.  Kernel
behaviour is assumed, not modelled: `rename` is atomic, a write appends a prefix-closed sequence of bytes, a
temporary name returned by `CreateTemp` is not in use.
-/
namespace Fs

abbrev Bytes := List Nat

/-- Paths the directory store works on, relative to the store root.  `r` repository, `n` the random suffix of a
temporary file, `a` digest algorithm, `h` encoded digest. -/
inductive Path where
  | repo (r : Nat)                 -- <r>/
  | layout (r : Nat)               -- <r>/oci-layout
  | index (r : Nat)                -- <r>/index.json
  | indexTmp (r n : Nat)           -- <r>/index.json.<n>
  | uploads (r : Nat)              -- <r>/_uploads/
  | upload (r n : Nat)             -- <r>/_uploads/upload.<n>
  | blobs (r : Nat)                -- <r>/blobs/
  | algDir (r a : Nat)             -- <r>/blobs/<a>/
  | blob (r a h : Nat)             -- <r>/blobs/<a>/<h>
  deriving DecidableEq, Repr

/-- temporary files: never read by a recovery -/
def Path.isTemp : Path → Bool
  | .indexTmp _ _ => true
  | .upload _ _ => true
  | _ => false

abbrev Disk := Path → Option Bytes

def Disk.set (d : Disk) (p : Path) (v : Option Bytes) : Disk := fun q => if q = p then v else d q

@[simp] theorem Disk.set_same (d : Disk) (p v) : (d.set p v) p = v := by simp [Disk.set]
theorem Disk.set_other (d : Disk) {p q : Path} (v) (h : q ≠ p) : (d.set p v) q = d q := by simp [Disk.set, h]

def empty : Disk := fun _ => none

/-- The mutating calls `internal/store/dir.go` issues (through package `os`). -/
inductive FsOp where
  | mkdirAll (p : Path)
  | createTemp (p : Path)              -- os.CreateTemp: a new, empty file under a fresh name
  | write (p : Path) (b : Bytes)       -- Write on the handle of `p`: appends
  | close (p : Path)
  | rename (a b : Path)
  | remove (p : Path)
  | writeFile (p : Path) (b : Bytes)   -- os.WriteFile: create-or-truncate, then write; *not* atomic
  | chtimes (p : Path)                 -- os.Chtimes: metadata only, no name and no content changes
  deriving DecidableEq, Repr

/-- complete execution of one call -/
def FsOp.apply : FsOp → Disk → Disk
  | .mkdirAll _, d => d
  | .createTemp p, d => d.set p (some [])
  | .write p b, d => match d p with
      | some c => d.set p (some (c ++ b))
      | none => d
  | .close _, d => d
  | .rename a b, d => match d a with
      | some c => (d.set b (some c)).set a none
      | none => d
  | .remove p, d => d.set p none
  | .writeFile p b, d => d.set p (some b)
  | .chtimes _, d => d

/-- the call is interrupted after `cut` bytes (only writes have intermediate states; for every other call the state
"inside" it is the state before it) -/
def FsOp.cutAt (cut : Nat) : FsOp → Disk → Disk
  | .write p b, d => match d p with
      | some c => d.set p (some (c ++ b.take cut))
      | none => d
  | .writeFile p b, d => d.set p (some (b.take cut))
  | _, d => d

def run (ops : List FsOp) (d : Disk) : Disk := ops.foldl (fun d o => o.apply d) d

@[simp] theorem run_nil (d : Disk) : run [] d = d := rfl
@[simp] theorem run_cons (o : FsOp) (os : List FsOp) (d : Disk) : run (o :: os) d = run os (o.apply d) := rfl
theorem run_append (a b : List FsOp) (d : Disk) : run (a ++ b) d = run b (run a d) := by
  simp [run, List.foldl_append]

/-- The disk a restarted server finds when the process dies at crash point `k`: the first `k` calls have been
executed; with `cut = some c` the process dies inside call `k` after `c` bytes, with `none` right before it
(`k = ops.length`: after the last call). -/
def crashAt (k : Nat) (cut : Option Nat) (ops : List FsOp) (d : Disk) : Disk :=
  let d' := run (ops.take k) d
  match cut, ops[k]? with
  | some c, some o => o.cutAt c d'
  | _, _ => d'

/-- The same set of disks as an inductive relation (convenient for proofs). -/
inductive Crash : List FsOp → Disk → Disk → Prop where
  | here (ops d) : Crash ops d d
  | mid (o os d c) : Crash (o :: os) d (o.cutAt c d)
  | step (o os d c) : Crash os (o.apply d) c → Crash (o :: os) d c

theorem crashAt_zero_none (ops : List FsOp) (d : Disk) : crashAt 0 none ops d = d := by
  simp [crashAt]

theorem crashAt_succ (k : Nat) (cut) (o : FsOp) (os : List FsOp) (d : Disk) :
    crashAt (k + 1) cut (o :: os) d = crashAt k cut os (o.apply d) := by
  simp [crashAt]

theorem crash_of_crashAt (k : Nat) (cut : Option Nat) (ops : List FsOp) (d : Disk) :
    Crash ops d (crashAt k cut ops d) := by
  induction ops generalizing k d with
  | nil => simp [crashAt]; exact Crash.here _ _
  | cons o os ih =>
    cases k with
    | zero =>
      cases cut with
      | none => simp [crashAt]; exact Crash.here _ _
      | some c => simp [crashAt]; exact Crash.mid _ _ _ _
    | succ k => rw [crashAt_succ]; exact Crash.step _ _ _ _ (ih k _)

theorem crashAt_of_crash {ops : List FsOp} {d c : Disk} (h : Crash ops d c) : ∃ k cut, c = crashAt k cut ops d := by
  induction h with
  | here ops d => exact ⟨0, none, by simp [crashAt]⟩
  | mid o os d c => exact ⟨0, some c, by simp [crashAt]⟩
  | step o os d c _ ih =>
    obtain ⟨k, cut, hk⟩ := ih
    exact ⟨k + 1, cut, by rw [crashAt_succ]; exact hk⟩

theorem crash_run (ops : List FsOp) (d : Disk) : Crash ops d (run ops d) := by
  induction ops generalizing d with
  | nil => exact Crash.here _ _
  | cons o os ih => exact Crash.step _ _ _ _ (ih _)

/-- crash states of a concatenation: inside the first part, or inside the second after the first has completed -/
theorem crash_append {a b : List FsOp} {d c : Disk} (h : Crash (a ++ b) d c) :
    Crash a d c ∨ Crash b (run a d) c := by
  induction a generalizing d with
  | nil => exact Or.inr h
  | cons o os ih =>
    cases h with
    | here => exact Or.inl (Crash.here _ _)
    | mid => exact Or.inl (Crash.mid _ _ _ _)
    | step _ _ _ _ h' =>
      rcases ih h' with h1 | h2
      · exact Or.inl (Crash.step _ _ _ _ h1)
      · exact Or.inr h2

theorem crash_append_left {a : List FsOp} (b : List FsOp) {d c : Disk} (h : Crash a d c) : Crash (a ++ b) d c := by
  induction h with
  | here => exact Crash.here _ _
  | mid => exact Crash.mid _ _ _ _
  | step _ _ _ _ _ ih => exact Crash.step _ _ _ _ ih

theorem crash_append_right (a : List FsOp) {b : List FsOp} {d c : Disk} (h : Crash b (run a d) c) : Crash (a ++ b) d c := by
  induction a generalizing d with
  | nil => exact h
  | cons o os ih => exact Crash.step _ _ _ _ (ih h)

end Fs
