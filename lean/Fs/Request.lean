import Fs.Store
/-!
# The steps a request issues on the directory store

For each request kind, the list of store-level steps (hence the exact list of `os` calls) as a function of the facts
the code branches on: what exists on disk before the request (`D L I U`: repository directory, valid `oci-layout`,
`index.json`, `_uploads`), what the store holds in memory (`mex`: `dirRepo.exists`; `mconv`: the cached index carries
the referrers-converted annotation), and the outcome of the handler.  `Drivers/FsMain.lean` prints these lists for
the request lines annotated by the crash harness; `vlib/p_crash.py` compares them with the recorded FS-shim traces.

Temporary-file suffixes (`n…`) and contents are parameters: the trace comparison does not see them, the theorems
quantify over them.
-/
namespace Fs

/-- state before a request, as far as the op sequences depend on it -/
structure Pre where
  r : Nat
  mex : Bool := true         -- dirRepo.exists (memory)
  mconv : Bool := true       -- cached index carries AnnotReferrerConvert (memory)
  D : Bool := true           -- repository directory exists
  L : Bool := true           -- oci-layout exists and verifies
  I : Bool := true           -- index.json exists
  U : Bool := true           -- _uploads exists
  ann : Option Bool := some true  -- index.json on disk: carries the converted annotation (none: absent / unparsable)
  refen : Bool := true       -- referrers API enabled
  ro : Bool := false         -- read-only store

/-- contents written by a request (parameters of the model) -/
structure Contents where
  layoutBytes : Bytes := []
  initIndex : Bytes := []      -- index.json written by repoInit
  convIndex : Bytes := []      -- the loaded index with the converted annotation added
  index1 : Bytes := []         -- first save of the request
  index2 : Bytes := []         -- second save of the request (referrers response entry / entry removed)
  body : Bytes := []           -- blob / manifest bytes of the request
  resp : Bytes := []           -- referrers response document

/-- `repoInit`: directory, `oci-layout` *in place*, first `index.json` -/
def repoInit (p : Pre) (n : Nat) (k : Contents) : List Step :=
  (if p.D then [] else [Step.mkdir (.repo p.r)]) ++
  (if p.L then [] else [Step.layout p.r k.layoutBytes]) ++
  (if p.I then [] else [Step.isave p.r n k.initIndex])

/-- the part of `BlobCreate` before the session exists: `repoInit` when the store does not know the repository -/
def ensureRepo (p : Pre) (n : Nat) (k : Contents) : List Step := if p.mex then [] else repoInit p n k

/-- `BlobCreate` after `repoInit`: `_uploads` if missing, the temporary file -/
def openUpload (r : Nat) (haveUploads : Bool) (nu : Nat) : List Step :=
  (if haveUploads then [] else [Step.mkdir (.uploads r)]) ++ [Step.create r nu]

def writeBody (r nu : Nat) (b : Bytes) : List Step := if b = [] then [] else [Step.wr r nu b]

/-- a complete blob push through one session: create, write, close+rename -/
def blobPush (r : Nat) (haveUploads haveAlgDir : Bool) (nu a h : Nat) (b : Bytes) : List Step :=
  openUpload r haveUploads nu ++ writeBody r nu b ++ [Step.commit r nu a h (!haveAlgDir)]

/-- the index load at the start of an index operation saves the index once when the file lacks the
referrers-converted annotation (`indexIngest` returns `mod`).  `inits`: the request has just run `repoInit`. -/
def needConv (p : Pre) (inits : Bool) : Bool :=
  p.refen && !p.ro && (if p.I then p.ann == some false else (inits && !p.mex && !p.mconv))

def convSave (p : Pre) (inits : Bool) (n : Nat) (k : Contents) : List Step :=
  if needConv p inits then [Step.isave p.r n k.convIndex] else []

/-- blob upload `POST` (not a mount).  `reached`: the handler got as far as `BlobCreate`; `mono`: a digest was given
(monolithic upload); `had`: a blob of that digest existed (then `blobCreate` only refreshes its age: `touch`);
`ok`: the digest verified -/
def uploadPost (p : Pre) (k : Contents) (reached mono had haveAlgDir ok : Bool) (a h : Nat) : List Step :=
  if !reached then [] else
  ensureRepo p 0 k ++
  (if mono && had then [Step.touch p.r a h] else
    openUpload p.r p.U 1 ++
    (if mono then writeBody p.r 1 k.body ++ (if ok then [Step.commit p.r 1 a h (!haveAlgDir)] else [Step.cancel p.r 1]) else []))

/-- `PATCH` on an open session -/
def uploadPatch (p : Pre) (k : Contents) (accepted : Bool) (nu : Nat) : List Step :=
  if accepted then writeBody p.r nu k.body else []

/-- `PUT` completing a session: `wrote`: the body was copied (range and state accepted, digest parsed) -/
def uploadPut (p : Pre) (k : Contents) (wrote ok haveAlgDir : Bool) (nu a h : Nat) : List Step :=
  if !wrote then [] else
  writeBody p.r nu k.body ++ (if ok then [Step.commit p.r nu a h (!haveAlgDir)] else [Step.cancel p.r nu])

def uploadCancel (p : Pre) (accepted : Bool) (nu : Nat) : List Step := if accepted then [Step.cancel p.r nu] else []

def blobDelete (p : Pre) (accepted : Bool) (a h : Nat) : List Step := if accepted then [Step.rm (.blob p.r a h)] else []

/-- the referrers response of a subject: its blob (a blob of that digest that exists is only touched: `blobCreate`
refreshes its age), then the index entry -/
def respSave (p : Pre) (k : Contents) (haveUploads rhad haveAlgDir : Bool) (nu n ra rh : Nat) (idx : Bytes) : List Step :=
  (if rhad then [Step.touch p.r ra rh] else blobPush p.r haveUploads haveAlgDir nu ra rh k.resp) ++ [Step.isave p.r n idx]

/-- manifest `PUT` (accepted): the manifest blob (content first), the index load (converted annotation), the index
entry; with a subject: the referrers response blob and a *second* index save -/
def manifestPut (p : Pre) (k : Contents) (mhad mAlgDir : Bool) (ma mh : Nat) (subj rhad rAlgDir : Bool) (ra rh : Nat) : List Step :=
  let haveUp := p.U
  ensureRepo p 0 k ++
  (if mhad then [Step.touch p.r ma mh] else blobPush p.r haveUp mAlgDir 1 ma mh k.body) ++
  convSave p true 2 k ++
  [Step.isave p.r 3 k.index1] ++
  (if subj then respSave p k (haveUp || !mhad) rhad (rAlgDir || (!mhad && ma == ra)) 4 5 ra rh k.index2 else [])

/-- manifest `DELETE` (accepted): by tag one index save; by digest of a manifest whose subject has a response in the
index: the shortened response (blob, index save) *before* the entry is removed (second index save) -/
def manifestDelete (p : Pre) (k : Contents) (found accepted refdel rhad rAlgDir : Bool) (ra rh : Nat) : List Step :=
  if !found then [] else
  convSave p false 2 k ++
  (if !accepted then [] else
    (if refdel then respSave p k p.U rhad rAlgDir 4 3 ra rh k.index1 else []) ++ [Step.isave p.r 5 k.index2])

/-- requests that only read the index (`tags/list`, manifest `GET`/`HEAD`, `referrers`, a refused delete): the load
may still save the converted annotation once -/
def indexRead (p : Pre) (k : Contents) (loads : Bool) : List Step := if loads then convSave p false 2 k else []

/-- one candidate of the empty-repository removal: the path and whether its removal fails with something other
than "does not exist" (a directory that is not empty) -/
abbrev Cand := Path × Bool

/-- removal of an empty repository, bottom up.  `stop`: the variant of the code that gives up at the first entry it
cannot remove (patch F5); otherwise every entry is tried -/
def emptyRemoval (cands : List Cand) (stop : Bool) : List Step :=
  match cands with
  | [] => []
  | (p, fails) :: rest => Step.rm p :: (if stop && fails then [] else emptyRemoval rest stop)

/-- one collection of a repository: `_uploads` when no session is open, the forced index load (converted
annotation), the unreferenced blobs, the index if it changed, the empty repository -/
def collect (p : Pre) (k : Contents) (noSession : Bool) (garbage : List (Nat × Nat)) (idxChanged : Bool)
    (empties : Bool) (cands : List Cand) (stop : Bool) : List Step :=
  (if noSession && p.U then [Step.rm (.uploads p.r)] else []) ++
  (if p.I then
    convSave p false 2 k ++ garbage.map (fun g => Step.rm (.blob p.r g.1 g.2)) ++
    (if idxChanged then [Step.isave p.r 3 k.index1] else [])
   else []) ++
  (if empties then emptyRemoval cands stop else [])

end Fs
