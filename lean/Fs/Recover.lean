import Fs.Store
/-!
# What a restarted server computes from the disk, and the invariant `DiskOK`

`recover` mirrors a fresh `RepoGet` / `indexLoad`: a repository exists iff `oci-layout` verifies and `index.json`
is there; its index is `index.json` parsed; a blob is present iff the file exists under its final name
`blobs/<alg>/<hex>`.  The JSON codec and the digest function are parameters (`Params`): nothing is assumed about
them in the theorems, the witnesses instantiate them with a toy codec.
-/
namespace Fs

/-- an entry of `index.json` as far as the recovery looks at it: the digest it names and whether it carries a tag -/
structure Ref where
  alg : Nat
  hex : Nat
  tagged : Bool
  deriving DecidableEq, Repr

structure Params where
  H : Nat → Bytes → Nat                  -- H a b: the encoded digest of b under algorithm a
  layoutOK : Bytes → Bool                -- layoutVerify
  parse : Bytes → Option (List Ref)      -- decoding of index.json; none: does not parse

/-- `RepoGet`: the directory is a repository iff the layout file verifies and index.json exists -/
def repoExists (P : Params) (d : Disk) (r : Nat) : Bool :=
  (match d (.layout r) with | some b => P.layoutOK b | none => false) && (d (.index r)).isSome

/-- what a fresh load computes for repository `r`: its parsed index (none: the repository does not exist) and, for
a digest, the bytes served -/
structure Recovered where
  index : Option (Option (List Ref))     -- none: no repository; some none: index.json does not parse (load error)
  blob : Nat → Nat → Option Bytes

def recover (P : Params) (d : Disk) (r : Nat) : Recovered :=
  { index := if repoExists P d r then some ((d (.index r)).bind P.parse) else none,
    blob := fun a h => if repoExists P d r then d (.blob r a h) else none }

/-- every repository loads, every blob file hashes to its name, every tag resolves to a present manifest blob -/
structure DiskOK (P : Params) (d : Disk) : Prop where
  loads : ∀ r b, d (.index r) = some b → (P.parse b).isSome
  blobs : ∀ r a h b, d (.blob r a h) = some b → P.H a b = h
  tags : ∀ r b es, d (.index r) = some b → P.parse b = some es →
    ∀ e ∈ es, e.tagged = true → (d (.blob r e.alg e.hex)).isSome

theorem DiskOK.congr {P : Params} {c d : Disk} (h : Agree c d) (hd : DiskOK P d) : DiskOK P c := by
  constructor
  · intro r b hb; rw [h _ rfl] at hb; exact hd.loads r b hb
  · intro r a x b hb; rw [h _ rfl] at hb; exact hd.blobs r a x b hb
  · intro r b es hb hp e he ht
    rw [h _ rfl] at hb; rw [h _ rfl]; exact hd.tags r b es hb hp e he ht

theorem DiskOK.set_layout {P : Params} {d : Disk} (hd : DiskOK P d) (r : Nat) (v : Option Bytes) :
    DiskOK P (d.set (.layout r) v) := by
  constructor
  · intro r' b hb; rw [Disk.set_other _ _ (by simp)] at hb; exact hd.loads r' b hb
  · intro r' a x b hb; rw [Disk.set_other _ _ (by simp)] at hb; exact hd.blobs r' a x b hb
  · intro r' b es hb hp e he ht
    rw [Disk.set_other _ _ (by simp)] at hb; rw [Disk.set_other _ _ (by simp)]
    exact hd.tags r' b es hb hp e he ht

/-- what the code establishes before it issues a step (the side conditions under which `DiskOK` is preserved):
* `isave`: the bytes are the encoding of an index, and every tagged entry of it names a blob that is on disk -
  `manifestPut` has committed the manifest blob before `IndexInsert`, every other tagged entry was there before;
* `commit`: the final name is the digest of what was written (`Close` renames to `dru.d.Digest()`, computed over
  every byte that went through `Write`);
* `rm` of a blob: no tagged entry of the repository's index names it (the collector only removes blobs it has not
  marked; an API blob delete of a tagged manifest is a request that itself breaks the tag - not a crash effect). -/
def StepOK (P : Params) : Step → Disk → Prop
  | .isave r _ b, d => ∃ es, P.parse b = some es ∧ ∀ e ∈ es, e.tagged = true → (d (.blob r e.alg e.hex)).isSome
  | .commit r n a h _, d => ∀ c, d (.upload r n) = some c → P.H a c = h
  | .rm (.blob r a h), d => ∀ b es, d (.index r) = some b → P.parse b = some es → ∀ e ∈ es, e.tagged = true → ¬ (e.alg = a ∧ e.hex = h)
  | _, _ => True

def StepsOK (P : Params) : List Step → Disk → Prop
  | [], _ => True
  | s :: ss, d => StepOK P s d ∧ StepsOK P ss (run s.ops d)

theorem eff_diskok {P : Params} (s : Step) {d : Disk} (hd : DiskOK P d) (hs : StepOK P s d) : DiskOK P (s.eff d) := by
  cases s with
  | layout r b => exact hd.set_layout r _
  | isave r n b =>
    obtain ⟨es, hp, ht⟩ := hs
    constructor
    · intro r' b' hb
      by_cases hr : r' = r
      · subst hr; simp [Step.eff] at hb; subst hb; simp [hp]
      · rw [Step.eff, Disk.set_other _ _ (by simp [hr])] at hb; exact hd.loads r' b' hb
    · intro r' a x b' hb
      rw [Step.eff, Disk.set_other _ _ (by simp)] at hb; exact hd.blobs r' a x b' hb
    · intro r' b' es' hb hp' e he hte
      rw [Step.eff, Disk.set_other _ _ (by simp)]
      by_cases hr : r' = r
      · subst hr; simp [Step.eff] at hb; subst hb
        rw [hp] at hp'; cases hp'; exact ht e he hte
      · rw [Step.eff, Disk.set_other _ _ (by simp [hr])] at hb; exact hd.tags r' b' es' hb hp' e he hte
  | commit r n a h mk =>
    cases hu : d (.upload r n) with
    | none => simpa [Step.eff, hu] using hd
    | some c =>
      have hh := hs c hu
      have heff : (Step.commit r n a h mk).eff d = d.set (.blob r a h) (some c) := by simp [Step.eff, hu]
      rw [heff]
      constructor
      · intro r' b hb; rw [Disk.set_other _ _ (by simp)] at hb; exact hd.loads r' b hb
      · intro r' a' x b hb
        by_cases hq : Path.blob r' a' x = Path.blob r a h
        · cases hq; simp at hb; subst hb; exact hh
        · rw [Disk.set_other _ _ hq] at hb; exact hd.blobs r' a' x b hb
      · intro r' b es hb hp e he hte
        rw [Disk.set_other _ _ (by simp)] at hb
        have := hd.tags r' b es hb hp e he hte
        by_cases hq : Path.blob r' e.alg e.hex = Path.blob r a h
        · rw [hq]; simp
        · rw [Disk.set_other _ _ hq]; exact this
  | rm p =>
    simp only [Step.eff]
    cases p with
    | blob r a h =>
      constructor
      · intro r' b hb; rw [Disk.set_other _ _ (by simp)] at hb; exact hd.loads r' b hb
      · intro r' a' x b hb
        by_cases hq : Path.blob r' a' x = Path.blob r a h
        · rw [hq] at hb; simp at hb
        · rw [Disk.set_other _ _ hq] at hb; exact hd.blobs r' a' x b hb
      · intro r' b es hb hp e he hte
        rw [Disk.set_other _ _ (by simp)] at hb
        have hpres := hd.tags r' b es hb hp e he hte
        by_cases hq : Path.blob r' e.alg e.hex = Path.blob r a h
        · exfalso
          cases hq
          exact hs b es hb hp e he hte ⟨rfl, rfl⟩
        · rw [Disk.set_other _ _ hq]; exact hpres
    | index r =>
      constructor
      · intro r' b hb
        by_cases hr : r' = r
        · subst hr; simp at hb
        · rw [Disk.set_other _ _ (by simp [hr])] at hb; exact hd.loads r' b hb
      · intro r' a' x b hb; rw [Disk.set_other _ _ (by simp)] at hb; exact hd.blobs r' a' x b hb
      · intro r' b es hb hp e he hte
        by_cases hr : r' = r
        · subst hr; simp at hb
        · rw [Disk.set_other _ _ (by simp [hr])] at hb; rw [Disk.set_other _ _ (by simp)]
          exact hd.tags r' b es hb hp e he hte
    | layout r => exact hd.set_layout r _
    | repo r | indexTmp r n | uploads r | upload r n | blobs r | algDir r a =>
      constructor
      · intro r' b hb; rw [Disk.set_other _ _ (by simp)] at hb; exact hd.loads r' b hb
      · intro r' a' x b hb; rw [Disk.set_other _ _ (by simp)] at hb; exact hd.blobs r' a' x b hb
      · intro r' b es hb hp e he hte
        rw [Disk.set_other _ _ (by simp)] at hb; rw [Disk.set_other _ _ (by simp)]
        exact hd.tags r' b es hb hp e he hte
  | mkdir p | create r n | wr r n b | cancel r n | touch r a h => exact hd

theorem run_step_diskok {P : Params} (s : Step) {d : Disk} (hd : DiskOK P d) (hs : StepOK P s d) :
    DiskOK P (run s.ops d) :=
  DiskOK.congr (run_step_agree s d) (eff_diskok s hd hs)

theorem runSteps_take_diskok {P : Params} (ss : List Step) (j : Nat) {d : Disk} (hd : DiskOK P d) (hs : StepsOK P ss d) :
    DiskOK P (runSteps (ss.take j) d) := by
  induction ss generalizing d j with
  | nil => simpa using hd
  | cons s rest ih =>
    cases j with
    | zero => simpa using hd
    | succ j =>
      rw [List.take_succ_cons, runSteps_cons]
      exact ih j (run_step_diskok s hd hs.1) hs.2

/-- `DiskOK` holds at every crash point of a request whose steps satisfy their side conditions -/
theorem crash_steps_diskok {P : Params} (ss : List Step) {d c : Disk} (hd : DiskOK P d) (hs : StepsOK P ss d)
    (h : Crash (stepsOps ss) d c) : DiskOK P c := by
  obtain ⟨j, _, hc⟩ := crash_boundary ss h
  rcases hc with ha | ⟨r, b, k, _, ha⟩
  · exact DiskOK.congr ha (runSteps_take_diskok ss j hd hs)
  · exact DiskOK.congr ha ((runSteps_take_diskok ss j hd hs).set_layout r _)

end Fs
