import Fs.Recover
import Fs.Request
/-!
# Crash states of the request-level sequences

Lemmas about the values `index.json` and a blob file can take at the crash points of the sequences of
`Fs/Request.lean`.  Everything is derived from `step_crash` / `crash_boundary` / `crash_frame`.
-/
namespace Fs

/-- value of `index.json` of `r` after a completed step -/
theorem eff_index (s : Step) (d : Disk) (r : Nat) :
    s.eff d (.index r) = d (.index r) ∨ (∃ n b, s = .isave r n b ∧ s.eff d (.index r) = some b) ∨
      (s = .rm (.index r) ∧ s.eff d (.index r) = none) := by
  cases s with
  | isave r' n b =>
    by_cases h : r' = r
    · subst h; exact Or.inr (Or.inl ⟨n, b, rfl, by simp [Step.eff]⟩)
    · left; simp [Step.eff]; exact Disk.set_other _ _ (by simp; exact fun e => h e.symm)
  | rm p =>
    by_cases h : p = .index r
    · subst h; exact Or.inr (Or.inr ⟨rfl, by simp [Step.eff]⟩)
    · left; simp [Step.eff]; exact Disk.set_other _ _ (fun e => h e.symm)
  | layout r' b => left; simp [Step.eff]; exact Disk.set_other _ _ (by simp)
  | commit r' n a h mk =>
    left; simp only [Step.eff]
    cases d (.upload r' n) with
    | none => rfl
    | some c => exact Disk.set_other _ _ (by simp)
  | mkdir p => exact Or.inl rfl
  | create r' n => exact Or.inl rfl
  | wr r' n b => exact Or.inl rfl
  | cancel r' n => exact Or.inl rfl
  | touch r' a h => exact Or.inl rfl

/-- **Values of index.json at crash points.**  Whatever the request, at every crash point `index.json` holds
what it held before, or the complete bytes of one of the request's index saves, or (empty-repository removal) is gone.
It is never a prefix of anything: the bytes go to a temporary name and are renamed. -/
theorem crash_index_values (ss : List Step) (r : Nat) {d c : Disk} (h : Crash (stepsOps ss) d c) :
    c (.index r) = d (.index r) ∨ (∃ n b, Step.isave r n b ∈ ss ∧ c (.index r) = some b) ∨
      (Step.rm (.index r) ∈ ss ∧ c (.index r) = none) := by
  induction ss generalizing d with
  | nil => have := crash_nil_inv h; subst this; exact Or.inl rfl
  | cons s rest ih =>
    rw [stepsOps_cons] at h
    have hs : (run s.ops d) (.index r) = s.eff d (.index r) := run_step_agree s d _ rfl
    rcases crash_append h with h1 | h2
    · rcases step_crash s h1 with ha | ha | ⟨r', b, k, _, ha⟩
      · exact Or.inl (ha _ rfl)
      · rw [ha _ rfl, hs]
        rcases eff_index s d r with e | ⟨n, b, e1, e2⟩ | ⟨e1, e2⟩
        · exact Or.inl e
        · exact Or.inr (Or.inl ⟨n, b, by simp [e1], e2⟩)
        · exact Or.inr (Or.inr ⟨by simp [e1], e2⟩)
      · left; rw [ha _ rfl]; exact Disk.set_other _ _ (by simp)
    · rcases ih h2 with e | ⟨n, b, hm, e⟩ | ⟨hm, e⟩
      · rw [e, hs]
        rcases eff_index s d r with e | ⟨n, b, e1, e2⟩ | ⟨e1, e2⟩
        · exact Or.inl e
        · exact Or.inr (Or.inl ⟨n, b, by simp [e1], e2⟩)
        · exact Or.inr (Or.inr ⟨by simp [e1], e2⟩)
      · exact Or.inr (Or.inl ⟨n, b, List.mem_cons_of_mem _ hm, e⟩)
      · exact Or.inr (Or.inr ⟨List.mem_cons_of_mem _ hm, e⟩)

/-- a blob file at a crash point: what it held before, gone (a removal of exactly this file), or - only if a
session is committed to exactly this name - something else -/
theorem crash_blob_values (ss : List Step) (r a x : Nat) {d c : Disk} (h : Crash (stepsOps ss) d c)
    (hn : ∀ n mk, Step.commit r n a x mk ∉ ss) :
    c (.blob r a x) = d (.blob r a x) ∨ (Step.rm (.blob r a x) ∈ ss ∧ c (.blob r a x) = none) := by
  induction ss generalizing d with
  | nil => have := crash_nil_inv h; subst this; exact Or.inl rfl
  | cons s rest ih =>
    rw [stepsOps_cons] at h
    have hs : (run s.ops d) (.blob r a x) = s.eff d (.blob r a x) := run_step_agree s d _ rfl
    have heff : s.eff d (.blob r a x) = d (.blob r a x) ∨ (s = .rm (.blob r a x) ∧ s.eff d (.blob r a x) = none) := by
      cases s with
      | rm p =>
        by_cases hp : p = .blob r a x
        · subst hp; exact Or.inr ⟨rfl, by simp [Step.eff]⟩
        · left; simp [Step.eff]; exact Disk.set_other _ _ (fun e => hp e.symm)
      | commit r' n a' h' mk =>
        left; simp only [Step.eff]
        cases d (.upload r' n) with
        | none => rfl
        | some c' =>
          apply Disk.set_other
          intro e; cases e
          exact hn n mk List.mem_cons_self
      | isave r' n b => left; simp [Step.eff]; exact Disk.set_other _ _ (by simp)
      | layout r' b => left; simp [Step.eff]; exact Disk.set_other _ _ (by simp)
      | mkdir p => exact Or.inl rfl
      | create r' n => exact Or.inl rfl
      | wr r' n b => exact Or.inl rfl
      | cancel r' n => exact Or.inl rfl
      | touch r' a' h' => exact Or.inl rfl
    have hn' : ∀ n mk, Step.commit r n a x mk ∉ rest := fun n mk hm => hn n mk (List.mem_cons_of_mem _ hm)
    rcases crash_append h with h1 | h2
    · rcases step_crash s h1 with ha | ha | ⟨r', b, k, _, ha⟩
      · exact Or.inl (ha _ rfl)
      · rw [ha _ rfl, hs]
        rcases heff with e | ⟨e1, e2⟩
        · exact Or.inl e
        · exact Or.inr ⟨by simp [e1], e2⟩
      · left; rw [ha _ rfl]; exact Disk.set_other _ _ (by simp)
    · rcases ih h2 hn' with e | ⟨hm, e⟩
      · rw [e, hs]
        rcases heff with e | ⟨e1, e2⟩
        · exact Or.inl e
        · exact Or.inr ⟨by simp [e1], e2⟩
      · exact Or.inr ⟨List.mem_cons_of_mem _ hm, e⟩

theorem touches_iff (ss : List Step) (q : Path) : touches ss q ↔ q ∈ ss.filterMap Step.target := by
  simp only [touches, List.mem_filterMap]

/-! ### one blob pushed through its own session -/

theorem blobPush_upload (r : Nat) (hu : Bool) (nu : Nat) (b : Bytes) (d : Disk) :
    runSteps (openUpload r hu nu ++ writeBody r nu b) d (.upload r nu) = some b := by
  cases hu <;> by_cases hb : b = [] <;>
    simp [openUpload, writeBody, hb, runSteps, stepsOps, Step.ops, FsOp.apply, Disk.set]

theorem blobPush_pre_agree (r : Nat) (hu : Bool) (nu : Nat) (b : Bytes) (d : Disk) :
    Agree (runSteps (openUpload r hu nu ++ writeBody r nu b) d) d := by
  intro q hq
  apply runSteps_frame _ _ _ hq
  rw [touches_iff]
  cases hu <;> by_cases hb : b = [] <;> simp [openUpload, writeBody, hb, Step.target]

/-- the disk after a complete `blobPush`, on everything a recovery reads -/
theorem blobPush_run (r : Nat) (hu ha : Bool) (nu a x : Nat) (b : Bytes) (d : Disk) :
    Agree (runSteps (blobPush r hu ha nu a x b) d) (d.set (.blob r a x) (some b)) := by
  intro q hq
  have h1 : blobPush r hu ha nu a x b = (openUpload r hu nu ++ writeBody r nu b) ++ [Step.commit r nu a x (!ha)] := by
    simp [blobPush]
  rw [h1, runSteps_append]
  have hc := run_step_agree (Step.commit r nu a x (!ha)) (runSteps (openUpload r hu nu ++ writeBody r nu b) d) q hq
  have : runSteps [Step.commit r nu a x (!ha)] (runSteps (openUpload r hu nu ++ writeBody r nu b) d) =
      run (Step.commit r nu a x (!ha)).ops (runSteps (openUpload r hu nu ++ writeBody r nu b) d) := by
    simp [runSteps, stepsOps]
  rw [this, hc]
  simp only [Step.eff, blobPush_upload]
  by_cases hqb : q = .blob r a x
  · subst hqb; simp
  · rw [Disk.set_other _ _ hqb, Disk.set_other _ _ hqb]
    exact blobPush_pre_agree r hu nu b d q hq

/-- **A blob push is atomic**: at every crash point the final name holds what it held before or the complete
bytes, and nothing else a recovery reads has changed -/
theorem blobPush_crash (r : Nat) (hu ha : Bool) (nu a x : Nat) (b : Bytes) {d c : Disk}
    (h : Crash (stepsOps (blobPush r hu ha nu a x b)) d c) :
    Agree c d ∨ Agree c (d.set (.blob r a x) (some b)) := by
  have h1 : blobPush r hu ha nu a x b = (openUpload r hu nu ++ writeBody r nu b) ++ [Step.commit r nu a x (!ha)] := by
    simp [blobPush]
  rw [h1, stepsOps_append] at h
  rcases crash_append h with hA | hB
  · left
    intro q hq
    apply crash_frame _ hA q hq
    rw [touches_iff]
    cases hu <;> by_cases hb : b = [] <;> simp [openUpload, writeBody, hb, Step.target]
  · have hpre := blobPush_pre_agree r hu nu b d
    have hB' : Crash (Step.commit r nu a x (!ha)).ops (runSteps (openUpload r hu nu ++ writeBody r nu b) d) c := by
      simpa [stepsOps, runSteps] using hB
    rcases step_crash _ hB' with hc | hc | ⟨_, _, _, he, _⟩
    · exact Or.inl (hc.trans hpre)
    · right
      have := blobPush_run r hu ha nu a x b d
      rw [h1, runSteps_append] at this
      have e : runSteps [Step.commit r nu a x (!ha)] (runSteps (openUpload r hu nu ++ writeBody r nu b) d) =
          run (Step.commit r nu a x (!ha)).ops (runSteps (openUpload r hu nu ++ writeBody r nu b) d) := by
        simp [runSteps, stepsOps]
      rw [e] at this
      exact hc.trans this
    · cases he

/-- no step of a blob push targets anything but its blob -/
theorem blobPush_touches (r : Nat) (hu ha : Bool) (nu a x : Nat) (b : Bytes) (q : Path)
    (h : touches (blobPush r hu ha nu a x b) q) : q = .blob r a x := by
  rw [touches_iff] at h
  cases hu <;> by_cases hb : b = [] <;> simp [blobPush, openUpload, writeBody, hb, Step.target] at h <;> exact h.symm

theorem repoInit_targets (p : Pre) (n : Nat) (k : Contents) :
    (repoInit p n k).filterMap Step.target =
      (if p.L then [] else [Path.layout p.r]) ++ (if p.I then [] else [Path.index p.r]) := by
  cases hD : p.D <;> cases hL : p.L <;> cases hI : p.I <;>
    simp [repoInit, hD, hL, hI, Step.target, List.filterMap_cons]

theorem repoInit_touches (p : Pre) (n : Nat) (k : Contents) (q : Path) (h : touches (repoInit p n k) q) :
    (q = .layout p.r ∧ p.L = false) ∨ (q = .index p.r ∧ p.I = false) := by
  rw [touches_iff, repoInit_targets] at h
  rcases List.mem_append.mp h with h | h
  · cases hL : p.L <;> simp [hL] at h
    exact Or.inl ⟨h, rfl⟩
  · cases hI : p.I <;> simp [hI] at h
    exact Or.inr ⟨h, rfl⟩

theorem touches_append {a b : List Step} {q : Path} (h : touches (a ++ b) q) : touches a q ∨ touches b q := by
  obtain ⟨s, hs, ht⟩ := h
  rcases List.mem_append.mp hs with hs | hs
  · exact Or.inl ⟨s, hs, ht⟩
  · exact Or.inr ⟨s, hs, ht⟩

theorem touches_singleton {s : Step} {q : Path} (h : touches [s] q) : s.target = some q := by
  obtain ⟨s', hs, ht⟩ := h
  simp at hs; subst hs; exact ht

theorem touches_nil {q : Path} : ¬ touches [] q := fun ⟨_, hs, _⟩ => by simp at hs

theorem crashSteps_append {a b : List Step} {d c : Disk} (h : Crash (stepsOps (a ++ b)) d c) :
    Crash (stepsOps a) d c ∨ Crash (stepsOps b) (runSteps a d) c := by
  rw [stepsOps_append] at h
  exact crash_append h

/-! ### membership facts about the request builders -/

theorem convSave_mem (p : Pre) (inits : Bool) (n : Nat) (k : Contents) (n' : Nat) (b : Bytes)
    (h : Step.isave p.r n' b ∈ convSave p inits n k) : b = k.convIndex := by
  unfold convSave at h
  split at h
  · simp at h; exact h.2
  · simp at h

theorem ensureRepo_mem (p : Pre) (n : Nat) (k : Contents) (n' : Nat) (b : Bytes)
    (h : Step.isave p.r n' b ∈ ensureRepo p n k) : b = k.initIndex := by
  unfold ensureRepo repoInit at h
  cases hm : p.mex <;> cases hD : p.D <;> cases hL : p.L <;> cases hI : p.I <;> simp_all

theorem ensureRepo_no_rm (p : Pre) (n : Nat) (k : Contents) (q : Path) : Step.rm q ∉ ensureRepo p n k := by
  unfold ensureRepo repoInit
  cases p.mex <;> cases p.D <;> cases p.L <;> cases p.I <;> simp

theorem ensureRepo_blob (p : Pre) (n : Nat) (k : Contents) (r a x : Nat) : ¬ touches (ensureRepo p n k) (.blob r a x) := by
  unfold ensureRepo
  cases hm : p.mex
  · simp only [Bool.false_eq_true, if_false]
    intro h
    rcases repoInit_touches p n k _ h with ⟨e, _⟩ | ⟨e, _⟩ <;> cases e
  · simpa using touches_nil

theorem respSave_touches (p : Pre) (k : Contents) (haveUp rhad rAlgDir : Bool) (nu n ra rh : Nat) (idx : Bytes) (q : Path)
    (h : touches (respSave p k haveUp rhad rAlgDir nu n ra rh idx) q) : q = .blob p.r ra rh ∨ q = .index p.r := by
  unfold respSave at h
  rcases touches_append h with h | h
  · cases rhad
    · simp only [Bool.false_eq_true, if_false] at h
      exact Or.inl (blobPush_touches _ _ _ _ _ _ _ _ h)
    · rw [touches_iff] at h; simp [Step.target] at h
  · have := touches_singleton h; simp [Step.target] at this
    exact Or.inr this.symm

theorem convSave_touches (p : Pre) (inits : Bool) (n : Nat) (k : Contents) (q : Path) (h : touches (convSave p inits n k) q) :
    q = .index p.r := by
  rw [touches_iff] at h
  unfold convSave at h
  split at h <;> simp [Step.target] at h
  exact h

theorem tail_blob (p : Pre) (k : Contents) (inits : Bool) (subj haveUp rhad rAlgDir : Bool) (ra rh ma mh : Nat)
    (hne : ¬ (ra = ma ∧ rh = mh)) :
    ¬ touches (convSave p inits 2 k ++ [Step.isave p.r 3 k.index1] ++
      (if subj then respSave p k haveUp rhad rAlgDir 4 5 ra rh k.index2 else [])) (.blob p.r ma mh) := by
  intro h
  rcases touches_append h with h | h
  · rcases touches_append h with h | h
    · cases convSave_touches _ _ _ _ _ h
    · have := touches_singleton h; simp [Step.target] at this
  · cases subj
    · simp at h; exact touches_nil h
    · simp only [if_true] at h
      rcases respSave_touches _ _ _ _ _ _ _ _ _ _ _ h with e | e
      · cases e; exact hne ⟨rfl, rfl⟩
      · cases e

theorem emptyRemoval_mem (cands : List Cand) (stop : Bool) (s : Step) (h : s ∈ emptyRemoval cands stop) :
    ∃ q, s = .rm q ∧ q ∈ cands.map Prod.fst := by
  induction cands with
  | nil => simp [emptyRemoval] at h
  | cons cd rest ih =>
    obtain ⟨q, f⟩ := cd
    simp only [emptyRemoval, List.mem_cons] at h
    rcases h with h | h
    · exact ⟨q, h, by simp⟩
    · split at h
      · simp at h
      · obtain ⟨q', e, hm⟩ := ih h
        exact ⟨q', e, by simp [hm]⟩


end Fs
