import Fs.Basic
/-!
# Store-level steps of the directory store and their crash states

Every mutating path through `internal/store/dir.go` is a sequence of the steps below; `Step.ops` is the exact list of
`os` calls a step issues (this is what the FS-shim trace of the real code is compared with).

* `isave`   `indexSave`: `CreateTemp(index.json.*)`, `Encode` (one write), `Rename` onto `index.json`, and only then
            the deferred `Close` of the handle - the order of the code, rename before close;
* `create`  `BlobCreate`: `CreateTemp(_uploads/upload.*)`;
* `wr`      `dirRepoUpload.Write`;
* `commit`  `dirRepoUpload.Close`: `Close`, (`MkdirAll blobs/<alg>`), `Rename` into `blobs/<alg>/<hex>`, then the
            session clean-up `uploads.Delete` -> `delete()`, which closes the handle again and removes the (already
            renamed) temporary name - two calls without effect that the trace shows;
* `cancel`  `Cancel` / a failed `Verify`: `Close`, `Remove` of the temporary file;
* `layout`  `repoInit`: `os.WriteFile(oci-layout)` *in place*;
* `mkdir`, `rm`: `MkdirAll` and `Remove` (blob delete, `_uploads`, the empty-repository removal);
* `touch`   `blobCreate` with an expected digest whose blob exists (repair F38): `Chtimes` of the blob file - the age
            the collector looks at is refreshed, no name and no content changes.
-/
namespace Fs

inductive Step where
  | mkdir (p : Path)
  | layout (r : Nat) (b : Bytes)
  | isave (r n : Nat) (b : Bytes)
  | create (r n : Nat)
  | wr (r n : Nat) (b : Bytes)
  | commit (r n a h : Nat) (mkAlg : Bool)
  | cancel (r n : Nat)
  | rm (p : Path)
  | touch (r a h : Nat)
  deriving DecidableEq, Repr

def Step.ops : Step → List FsOp
  | .mkdir p => [.mkdirAll p]
  | .layout r b => [.writeFile (.layout r) b]
  | .isave r n b => [.createTemp (.indexTmp r n), .write (.indexTmp r n) b, .rename (.indexTmp r n) (.index r), .close (.indexTmp r n)]
  | .create r n => [.createTemp (.upload r n)]
  | .wr r n b => [.write (.upload r n) b]
  | .commit r n a h mk =>
      .close (.upload r n) :: ((if mk then [FsOp.mkdirAll (.algDir r a)] else []) ++
        [.rename (.upload r n) (.blob r a h), .close (.upload r n), .remove (.upload r n)])
  | .cancel r n => [.close (.upload r n), .remove (.upload r n)]
  | .rm p => [.remove p]
  | .touch r a h => [.chtimes (.blob r a h)]

/-- the one non-temporary file a step may change -/
def Step.target : Step → Option Path
  | .layout r _ => some (.layout r)
  | .isave r _ _ => some (.index r)
  | .commit r _ a h _ => some (.blob r a h)
  | .rm p => some p
  | _ => none

def stepsOps (ss : List Step) : List FsOp := ss.flatMap Step.ops
def runSteps (ss : List Step) (d : Disk) : Disk := run (stepsOps ss) d

@[simp] theorem stepsOps_nil : stepsOps [] = [] := rfl
@[simp] theorem stepsOps_cons (s : Step) (ss : List Step) : stepsOps (s :: ss) = s.ops ++ stepsOps ss := by
  simp [stepsOps]
theorem stepsOps_append (a b : List Step) : stepsOps (a ++ b) = stepsOps a ++ stepsOps b := by
  simp [stepsOps]
@[simp] theorem runSteps_nil (d : Disk) : runSteps [] d = d := rfl
theorem runSteps_cons (s : Step) (ss : List Step) (d : Disk) : runSteps (s :: ss) d = runSteps ss (run s.ops d) := by
  simp [runSteps, run_append]
theorem runSteps_append (a b : List Step) (d : Disk) : runSteps (a ++ b) d = runSteps b (runSteps a d) := by
  simp [runSteps, stepsOps_append, run_append]

/-- agreement on everything a recovery can read -/
def Agree (c d : Disk) : Prop := ∀ q : Path, q.isTemp = false → c q = d q

theorem Agree.refl (d : Disk) : Agree d d := fun _ _ => rfl
theorem Agree.trans {a b c : Disk} (h1 : Agree a b) (h2 : Agree b c) : Agree a c := fun q hq => (h1 q hq).trans (h2 q hq)
theorem Agree.symm {a b : Disk} (h : Agree a b) : Agree b a := fun q hq => (h q hq).symm

theorem crash_nil_inv {d c : Disk} (h : Crash [] d c) : c = d := by
  cases h; rfl

theorem crash_cons_inv {o : FsOp} {os : List FsOp} {d c : Disk} (h : Crash (o :: os) d c) :
    c = d ∨ (∃ k, c = o.cutAt k d) ∨ Crash os (o.apply d) c := by
  cases h with
  | here => exact Or.inl rfl
  | mid => exact Or.inr (Or.inl ⟨_, rfl⟩)
  | step _ _ _ _ h' => exact Or.inr (Or.inr h')

/-- what a completed step does to the non-temporary files -/
def Step.eff : Step → Disk → Disk
  | .layout r b, d => d.set (.layout r) (some b)
  | .isave r _ b, d => d.set (.index r) (some b)
  | .commit r n a h _, d => match d (.upload r n) with
      | some c => d.set (.blob r a h) (some c)
      | none => d
  | .rm p, d => d.set p none
  | _, d => d

theorem run_step_agree (s : Step) (d : Disk) : Agree (run s.ops d) (s.eff d) := by
  intro q hq
  cases s with
  | mkdir p => simp [Step.ops, Step.eff, FsOp.apply]
  | layout r b => simp [Step.ops, Step.eff, FsOp.apply]
  | isave r n b =>
    simp only [Step.ops, Step.eff, run_cons, run_nil, FsOp.apply, Disk.set_same]
    cases q <;> simp_all [Disk.set, Path.isTemp]
  | create r n =>
    simp only [Step.ops, Step.eff, run_cons, run_nil, FsOp.apply]
    cases q <;> simp_all [Disk.set, Path.isTemp]
  | wr r n b =>
    simp only [Step.ops, Step.eff, run_cons, run_nil, FsOp.apply]
    cases hu : d (.upload r n) <;> cases q <;> simp_all [Disk.set, Path.isTemp]
  | commit r n a h mk =>
    cases mk <;> simp only [Step.ops, Step.eff, run_cons, run_nil, FsOp.apply, List.cons_append, List.nil_append, if_true, if_false, Bool.false_eq_true] <;>
      cases hu : d (.upload r n) <;> cases q <;> simp_all [Disk.set, Path.isTemp]
  | cancel r n =>
    simp only [Step.ops, Step.eff, run_cons, run_nil, FsOp.apply]
    cases q <;> simp_all [Disk.set, Path.isTemp]
  | rm p => simp [Step.ops, Step.eff, FsOp.apply]
  | touch r a h => simp [Step.ops, Step.eff, FsOp.apply]

/-- **Crash states of one step.**  On every file a recovery can read, a crash inside a step leaves the state before
the step or the state after it - except for the in-place write of `oci-layout`, which may be cut short. -/
theorem step_crash (s : Step) {d c : Disk} (h : Crash s.ops d c) :
    Agree c d ∨ Agree c (run s.ops d) ∨ (∃ r b k, s = .layout r b ∧ Agree c (d.set (.layout r) (some (b.take k)))) := by
  cases s with
  | mkdir p =>
    rcases crash_cons_inv h with h | ⟨k, h⟩ | h
    · subst h; exact Or.inl (Agree.refl _)
    · subst h; exact Or.inl (Agree.refl _)
    · have := crash_nil_inv h; subst this; exact Or.inl (Agree.refl _)
  | layout r b =>
    rcases crash_cons_inv h with h | ⟨k, h⟩ | h
    · subst h; exact Or.inl (Agree.refl _)
    · subst h; exact Or.inr (Or.inr ⟨r, b, k, rfl, Agree.refl _⟩)
    · have := crash_nil_inv h; subst this; exact Or.inr (Or.inl (Agree.refl _))
  | isave r n b =>
    simp only [Step.ops] at h
    rcases crash_cons_inv h with h | ⟨k, h⟩ | h
    · subst h; exact Or.inl (Agree.refl _)
    · subst h; exact Or.inl (Agree.refl _)
    rcases crash_cons_inv h with h | ⟨k, h⟩ | h
    · subst h; left; intro q hq; cases q <;> simp_all [Disk.set, Path.isTemp, FsOp.apply]
    · subst h; left; intro q hq; cases q <;> simp_all [Disk.set, Path.isTemp, FsOp.apply, FsOp.cutAt]
    rcases crash_cons_inv h with h | ⟨k, h⟩ | h
    · subst h; left; intro q hq; cases q <;> simp_all [Disk.set, Path.isTemp, FsOp.apply]
    · subst h; left; intro q hq; cases q <;> simp_all [Disk.set, Path.isTemp, FsOp.apply, FsOp.cutAt]
    rcases crash_cons_inv h with h | ⟨k, h⟩ | h
    · subst h; right; left; intro q hq; simp [Step.ops, FsOp.apply]
    · subst h; right; left; intro q hq; simp [Step.ops, FsOp.apply, FsOp.cutAt]
    · have := crash_nil_inv h; subst this; right; left; intro q hq; simp [Step.ops, FsOp.apply]
  | create r n =>
    simp only [Step.ops] at h
    rcases crash_cons_inv h with h | ⟨k, h⟩ | h
    · subst h; exact Or.inl (Agree.refl _)
    · subst h; exact Or.inl (Agree.refl _)
    · have := crash_nil_inv h; subst this; left; intro q hq; cases q <;> simp_all [Disk.set, Path.isTemp, FsOp.apply]
  | wr r n b =>
    simp only [Step.ops] at h
    rcases crash_cons_inv h with h | ⟨k, h⟩ | h
    · subst h; exact Or.inl (Agree.refl _)
    · subst h; left; intro q hq
      cases hu : d (.upload r n) <;> cases q <;> simp_all [Disk.set, Path.isTemp, FsOp.cutAt]
    · have := crash_nil_inv h; subst this; left; intro q hq
      cases hu : d (.upload r n) <;> cases q <;> simp_all [Disk.set, Path.isTemp, FsOp.apply]
  | commit r n a h' mk =>
    cases mk
    · simp only [Step.ops, if_false, Bool.false_eq_true, List.nil_append] at h
      rcases crash_cons_inv h with h | ⟨k, h⟩ | h
      · subst h; exact Or.inl (Agree.refl _)
      · subst h; exact Or.inl (Agree.refl _)
      rcases crash_cons_inv h with h | ⟨k, h⟩ | h
      · subst h; exact Or.inl (Agree.refl _)
      · subst h; exact Or.inl (Agree.refl _)
      rcases crash_cons_inv h with h | ⟨k, h⟩ | h
      · subst h; right; left; intro q hq
        cases hu : d (.upload r n) <;> cases q <;> simp_all [Step.ops, Disk.set, Path.isTemp, FsOp.apply]
      · subst h; right; left; intro q hq
        cases hu : d (.upload r n) <;> cases q <;> simp_all [Step.ops, Disk.set, Path.isTemp, FsOp.apply, FsOp.cutAt]
      rcases crash_cons_inv h with h | ⟨k, h⟩ | h
      · subst h; right; left; intro q hq
        cases hu : d (.upload r n) <;> cases q <;> simp_all [Step.ops, Disk.set, Path.isTemp, FsOp.apply]
      · subst h; right; left; intro q hq
        cases hu : d (.upload r n) <;> cases q <;> simp_all [Step.ops, Disk.set, Path.isTemp, FsOp.apply, FsOp.cutAt]
      · have := crash_nil_inv h; subst this; right; left; intro q hq
        cases hu : d (.upload r n) <;> cases q <;> simp_all [Step.ops, Disk.set, Path.isTemp, FsOp.apply]
    · simp only [Step.ops, if_true, List.cons_append, List.nil_append] at h
      rcases crash_cons_inv h with h | ⟨k, h⟩ | h
      · subst h; exact Or.inl (Agree.refl _)
      · subst h; exact Or.inl (Agree.refl _)
      rcases crash_cons_inv h with h | ⟨k, h⟩ | h
      · subst h; exact Or.inl (Agree.refl _)
      · subst h; exact Or.inl (Agree.refl _)
      rcases crash_cons_inv h with h | ⟨k, h⟩ | h
      · subst h; exact Or.inl (Agree.refl _)
      · subst h; exact Or.inl (Agree.refl _)
      rcases crash_cons_inv h with h | ⟨k, h⟩ | h
      · subst h; right; left; intro q hq
        cases hu : d (.upload r n) <;> cases q <;> simp_all [Step.ops, Disk.set, Path.isTemp, FsOp.apply]
      · subst h; right; left; intro q hq
        cases hu : d (.upload r n) <;> cases q <;> simp_all [Step.ops, Disk.set, Path.isTemp, FsOp.apply, FsOp.cutAt]
      rcases crash_cons_inv h with h | ⟨k, h⟩ | h
      · subst h; right; left; intro q hq
        cases hu : d (.upload r n) <;> cases q <;> simp_all [Step.ops, Disk.set, Path.isTemp, FsOp.apply]
      · subst h; right; left; intro q hq
        cases hu : d (.upload r n) <;> cases q <;> simp_all [Step.ops, Disk.set, Path.isTemp, FsOp.apply, FsOp.cutAt]
      · have := crash_nil_inv h; subst this; right; left; intro q hq
        cases hu : d (.upload r n) <;> cases q <;> simp_all [Step.ops, Disk.set, Path.isTemp, FsOp.apply]
  | cancel r n =>
    simp only [Step.ops] at h
    rcases crash_cons_inv h with h | ⟨k, h⟩ | h
    · subst h; exact Or.inl (Agree.refl _)
    · subst h; exact Or.inl (Agree.refl _)
    rcases crash_cons_inv h with h | ⟨k, h⟩ | h
    · subst h; exact Or.inl (Agree.refl _)
    · subst h; exact Or.inl (Agree.refl _)
    · have := crash_nil_inv h; subst this; left; intro q hq; cases q <;> simp_all [Disk.set, Path.isTemp, FsOp.apply]
  | rm p =>
    simp only [Step.ops] at h
    rcases crash_cons_inv h with h | ⟨k, h⟩ | h
    · subst h; exact Or.inl (Agree.refl _)
    · subst h; exact Or.inl (Agree.refl _)
    · have := crash_nil_inv h; subst this; exact Or.inr (Or.inl (Agree.refl _))
  | touch r a x =>
    rcases crash_cons_inv h with h | ⟨k, h⟩ | h
    · subst h; exact Or.inl (Agree.refl _)
    · subst h; exact Or.inl (Agree.refl _)
    · have := crash_nil_inv h; subst this; exact Or.inl (Agree.refl _)

/-- **Crash states of a request.**  A crash anywhere inside a sequence of steps leaves, on every file a recovery can
read, the state at a *step boundary* - or a boundary state in which the `oci-layout` being written in place by the
next step is cut short. -/
theorem crash_boundary (ss : List Step) {d c : Disk} (h : Crash (stepsOps ss) d c) :
    ∃ j, j ≤ ss.length ∧
      (Agree c (runSteps (ss.take j) d) ∨
        ∃ r b k, ss[j]? = some (.layout r b) ∧ Agree c ((runSteps (ss.take j) d).set (.layout r) (some (b.take k)))) := by
  induction ss generalizing d with
  | nil =>
    have := crash_nil_inv h; subst this
    exact ⟨0, Nat.le_refl _, Or.inl (Agree.refl _)⟩
  | cons s rest ih =>
    rw [stepsOps_cons] at h
    rcases crash_append h with h1 | h2
    · rcases step_crash s h1 with ha | ha | ⟨r, b, k, hs, ha⟩
      · exact ⟨0, Nat.zero_le _, Or.inl (by simpa using ha)⟩
      · refine ⟨1, by simp, Or.inl ?_⟩
        simpa [runSteps_cons] using ha
      · exact ⟨0, Nat.zero_le _, Or.inr ⟨r, b, k, by simp [hs], by simpa using ha⟩⟩
    · obtain ⟨j, hj, hc⟩ := ih h2
      refine ⟨j + 1, by simpa using hj, ?_⟩
      simpa [runSteps_cons] using hc

/-- the steps of a list that may change file `q` -/
def touches (ss : List Step) (q : Path) : Prop := ∃ s ∈ ss, s.target = some q

theorem step_eff_frame (s : Step) (d : Disk) (q : Path) (hq : s.target ≠ some q) : s.eff d q = d q := by
  cases s with
  | layout r b => simp [Step.eff, Step.target] at *; exact Disk.set_other _ _ (fun e => hq e.symm)
  | isave r n b => simp [Step.eff, Step.target] at *; exact Disk.set_other _ _ (fun e => hq e.symm)
  | commit r n a h mk =>
    simp [Step.eff, Step.target] at *
    cases d (.upload r n) with
    | none => rfl
    | some c => exact Disk.set_other _ _ (fun e => hq e.symm)
  | rm p => simp [Step.eff, Step.target] at *; exact Disk.set_other _ _ (fun e => hq e.symm)
  | _ => rfl

theorem runSteps_frame (ss : List Step) (d : Disk) (q : Path) (hq : q.isTemp = false) (hn : ¬ touches ss q) :
    runSteps ss d q = d q := by
  induction ss generalizing d with
  | nil => rfl
  | cons s rest ih =>
    rw [runSteps_cons, ih _ (fun ⟨s', hs', ht⟩ => hn ⟨s', List.mem_cons_of_mem _ hs', ht⟩)]
    rw [run_step_agree s d q hq]
    exact step_eff_frame s d q (fun ht => hn ⟨s, List.mem_cons_self, ht⟩)

theorem touches_take {ss : List Step} {q : Path} (j : Nat) (hn : ¬ touches ss q) : ¬ touches (ss.take j) q :=
  fun ⟨s, hs, ht⟩ => hn ⟨s, List.mem_of_mem_take hs, ht⟩

/-- **Frame.**  A file that is not the target of any step of the request is, at every crash point, exactly what it
was before the request. -/
theorem crash_frame (ss : List Step) {d c : Disk} (h : Crash (stepsOps ss) d c) (q : Path) (hq : q.isTemp = false)
    (hn : ¬ touches ss q) : c q = d q := by
  obtain ⟨j, _, hc⟩ := crash_boundary ss h
  rcases hc with ha | ⟨r, b, k, hs, ha⟩
  · rw [ha q hq]; exact runSteps_frame _ d q hq (touches_take j hn)
  · rw [ha q hq]
    have hne : q ≠ .layout r := by
      intro e; subst e
      exact hn ⟨.layout r b, List.mem_of_getElem? hs, rfl⟩
    rw [Disk.set_other _ _ hne]
    exact runSteps_frame _ d q hq (touches_take j hn)

end Fs
