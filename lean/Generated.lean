-- generated
import Generated.Flags
import Generated.Routes
import Generated.Defaults
