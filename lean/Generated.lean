-- generated
import Generated.Flags
import Generated.Routes
import Generated.Defaults
import Generated.LockFacts
import Generated.FieldAccess
