-- This module serves as the root of the `Cfg` library.
-- Import modules here that should be built as part of the library.
import Cfg.Basic
