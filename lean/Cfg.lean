-- This module serves as the root of the `Cfg` library.
import Cfg.Basic
import Cfg.Router
import Cfg.RateLimit
import Cfg.Lifecycle
import Cfg.Documented
