/-!
# The upload session object of the stores (internal/store/mem.go memRepoUpload, dir.go dirRepoUpload)

Handlers fetch the object of a session with `BlobSession` and call `Write`, `Verify`, `Close`, `Cancel` on it without
a lock of their own, so two requests that address one session work on the same object and *every* call sequence on one
object is reachable.  The model is the object as those methods define it: accepted chunks (ids), whether the session
has ended (removed from the repository's session set), and what has been published into the blob store under the
digest of its bytes.  `dir = true` is the directory store (its `Close` renames the temporary file, which is gone once
the session has ended), `false` the memory store (its `Close` publishes the buffer whatever the state of the session).
-/
namespace Sess

inductive Op
  | w (c : Nat)      -- Write of a chunk
  | vbad             -- Verify against a digest the content does not have
  | close            -- Verify against the digest of the accepted bytes, then Close
  | cancel
  deriving DecidableEq, Repr

inductive Out | ok | err
  deriving DecidableEq, Repr

structure S where
  ended : Bool := false
  written : List Nat := []             -- chunks accepted, in order
  published : List (List Nat) := []    -- contents published by this object (each under the digest of its bytes)
  deriving DecidableEq, Repr

def publish (s : S) : S := if s.published.contains s.written then s else { s with published := s.published ++ [s.written] }

def step (dir : Bool) (s : S) : Op → S × Out
  | .w c => if s.ended then (s, .err) else ({ s with written := s.written ++ [c] }, .ok)
  | .vbad => (s, .err)
  | .close =>
    if s.ended then (if dir then (s, .err) else (publish s, .ok))
    else (publish { s with ended := true }, .ok)
  | .cancel => ({ s with ended := true }, .ok)

def run (dir : Bool) (s : S) : List Op → S × List Out
  | [] => (s, [])
  | o :: os => let (s1, r) := step dir s o; let (s2, rs) := run dir s1 os; (s2, r :: rs)

end Sess
