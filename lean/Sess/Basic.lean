/-!
# The upload session object of the stores (internal/store/mem.go memRepoUpload, dir.go dirRepoUpload)

Handlers fetch the object of a session with `BlobSession` and call `Write`, `Verify`, `Close`, `Cancel` on it without
a lock of their own, so two requests that address one session work on the same object and *every* call sequence on one
object is reachable.  The model is the object as those methods define it: accepted chunks (ids), whether the session
has ended (removed from the repository's session set), whether the temporary file has been closed (directory store),
the digest the session was pinned to when it was opened (`BlobWithDigest`, here: the content whose digest it is), and
what has been published into the blob store under the digest of its bytes.  `dir = true` is the directory store (its
`Close` closes and renames the temporary file, which a cancelled or once-closed session no longer has), `false` the
memory store (its `Close` publishes the buffer whatever the state of the session).
-/
namespace Sess

inductive Op
  | w (c : Nat)      -- Write of a chunk
  | vbad             -- Verify against a digest the content does not have
  | vbadAlt          -- the same with a digest of the other algorithm (refused after the switch and the rescan)
  | vgood            -- Verify against the digest of the accepted bytes
  | vgoodAlt         -- the same under another digest algorithm (the object rescans its content and switches its digester)
  | close            -- Verify against the digest of the accepted bytes, then (if that passed) Close: what the handler does
  | closeRaw         -- Close without a Verify before it
  | cancel
  deriving DecidableEq, Repr

inductive Out | ok | err
  deriving DecidableEq, Repr

structure S where
  pin : Option (List Nat) := none      -- the content whose digest the session is pinned to
  ended : Bool := false
  fclosed : Bool := false              -- directory store: the temporary file is closed (and gone unless it was renamed)
  written : List Nat := []             -- chunks accepted, in order
  published : List (List Nat) := []    -- contents published by this object (each under the digest of its bytes)
  alt : Bool := false                  -- the running digester is of the other algorithm (a Verify under it switched)
  broken : Bool := false               -- directory store: a switch was attempted after the file was closed: the new
                                       -- digester has seen nothing (the rescan could not seek)
  deriving DecidableEq, Repr

def publish (s : S) : S := if s.published.contains s.written then s else { s with published := s.published ++ [s.written] }

/-- the pinned-digest check of `Verify` and `Close` -/
def pinOk (s : S) : Bool := match s.pin with | none => true | some p => p == s.written

def closeRaw (dir : Bool) (s : S) : S × Out :=
  if dir then
    if s.fclosed then (s, .err)                                        -- the file handle is closed already
    else if !pinOk s then ({ s with fclosed := true }, .err)           -- file closed and removed, the session stays in the set
    else (publish { s with fclosed := true, ended := true }, .ok)
  else
    if !pinOk s then (s, .err) else (publish { s with ended := true }, .ok)

/-- `Verify(expect)` where `expect` is the digest of the accepted bytes under the first (`wantAlt = false`) or the other
    algorithm: the pinned digest string must be the expected one; the running digest answers when it is of that algorithm;
    otherwise the object switches its digester and rescans what it holds - which the directory store cannot do once its file
    is closed: the switch has happened by then, the new digester has seen nothing (`broken`) -/
def verifyCore (dir : Bool) (s : S) (wantAlt : Bool) : Bool × Bool × Out :=
  let pinned := match s.pin with | none => true | some p => !wantAlt && p == s.written
  if !pinned then (s.alt, s.broken, .err)
  else if s.alt = wantAlt then (s.alt, s.broken, if !s.broken ∨ s.written = [] then .ok else .err)
  else if dir ∧ s.fclosed then (wantAlt, true, .err)
  else (wantAlt, false, .ok)

def verify (dir : Bool) (s : S) (wantAlt : Bool) : S × Out :=
  let r := verifyCore dir s wantAlt
  ({ s with alt := r.1, broken := r.2.1 }, r.2.2)

/-- `Verify` against a digest (of the first algorithm) that the content does not have: always refused; an unpinned object
    whose digester is of the other algorithm switches back on the way -/
def verifyBadCore (dir : Bool) (s : S) (wantAlt : Bool) : Bool × Bool :=
  if s.pin.isSome ∨ s.alt = wantAlt then (s.alt, s.broken)
  else if dir ∧ s.fclosed then (wantAlt, true)
  else (wantAlt, false)

def verifyBad (dir : Bool) (s : S) (wantAlt : Bool := false) : S :=
  let r := verifyBadCore dir s wantAlt
  { s with alt := r.1, broken := r.2 }

def step (dir : Bool) (s : S) : Op → S × Out
  | .w c => if s.ended ∨ (dir ∧ s.fclosed) then (s, .err) else ({ s with written := s.written ++ [c] }, .ok)
  | .vbad => (verifyBad dir s, .err)
  | .vbadAlt => (verifyBad dir s true, .err)
  | .vgood => verify dir s false
  | .vgoodAlt => verify dir s true
  | .close => match verify dir s false with
    | (s1, .ok) => closeRaw dir s1
    | (s1, .err) => (s1, .err)
  | .closeRaw => closeRaw dir s
  | .cancel => ({ s with ended := true, fclosed := s.fclosed || dir }, .ok)

def run (dir : Bool) (s : S) : List Op → S × List Out
  | [] => (s, [])
  | o :: os => let (s1, r) := step dir s o; let (s2, rs) := run dir s1 os; (s2, r :: rs)

end Sess
