import Sess.Basic
namespace Sess

/-- what a session object may have published: nothing while it is open; once it has ended at most the bytes it had
    accepted when it ended (which no later call changes), and for a pinned session only the pinned content -/
def Inv (s : S) : Prop :=
  (s.ended = false → s.published = []) ∧ (∀ p ∈ s.published, p = s.written ∧ (s.pin = none ∨ s.pin = some p))

theorem inv_init (pin : Option (List Nat)) : Inv { pin := pin } := by simp [Inv]

theorem pinOk_spec (s : S) (h : pinOk s = true) : s.pin = none ∨ s.pin = some s.written := by
  unfold pinOk at h
  cases hp : s.pin with
  | none => exact Or.inl rfl
  | some p => rw [hp] at h; simp at h; exact Or.inr (by rw [h])

theorem publish_inv (s : S) (he : s.ended = true) (hp : pinOk s = true) (h : Inv s) : Inv (publish s) := by
  unfold publish
  split
  · exact h
  · refine ⟨fun h0 => by simp [he] at h0, ?_⟩
    intro p hpm
    simp only [List.mem_append, List.mem_singleton] at hpm
    rcases hpm with hpm | hpm
    · exact h.2 p hpm
    · subst hpm; exact ⟨rfl, pinOk_spec s hp⟩

/-- changing the flags of a state that has published nothing keeps the invariant when the result has ended or published nothing -/
theorem inv_of_nil (s t : S) (hpub : t.published = []) : Inv t := by
  refine ⟨fun _ => hpub, ?_⟩
  intro p hp; rw [hpub] at hp; simp at hp

theorem closeRaw_inv (dir : Bool) (s : S) (h : Inv s) : Inv (closeRaw dir s).1 := by
  unfold closeRaw
  cases dir
  · -- memory store
    simp only [Bool.false_eq_true, ↓reduceIte]
    by_cases hp : pinOk s = true
    · simp only [hp, Bool.not_true, Bool.false_eq_true, ↓reduceIte]
      apply publish_inv _ rfl (by simpa [pinOk] using hp)
      refine ⟨fun h0 => by simp at h0, ?_⟩
      intro p hpm; exact h.2 p hpm
    · simp only [hp, Bool.not_false, ↓reduceIte]; exact h
  · -- directory store
    simp only [↓reduceIte]
    by_cases hf : s.fclosed = true
    · simp only [hf, ↓reduceIte]; exact h
    · simp only [hf, Bool.false_eq_true, ↓reduceIte]
      by_cases hp : pinOk s = true
      · simp only [hp, Bool.not_true, Bool.false_eq_true, ↓reduceIte]
        apply publish_inv _ rfl (by simpa [pinOk] using hp)
        refine ⟨fun h0 => by simp at h0, ?_⟩
        intro p hpm; exact h.2 p hpm
      · simp only [hp, Bool.not_false, ↓reduceIte]
        exact ⟨fun h0 => h.1 h0, fun p hpm => h.2 p hpm⟩

theorem step_inv (dir : Bool) (s : S) (o : Op) (h : Inv s) : Inv (step dir s o).1 := by
  cases o with
  | w c =>
    simp only [step]
    split
    · exact h
    · rename_i hc
      have he' : s.ended = false := by
        cases hE : s.ended with
        | false => rfl
        | true => exact absurd (Or.inl hE) hc
      exact inv_of_nil s _ (h.1 he')
  | vbad => exact h
  | vgood => exact h
  | close =>
    simp only [step]
    split
    · exact closeRaw_inv dir s h
    · exact h
  | closeRaw => exact closeRaw_inv dir s h
  | cancel =>
    simp only [step]
    refine ⟨fun h0 => by simp at h0, ?_⟩
    intro p hpm; exact h.2 p hpm

theorem run_fst_cons (dir : Bool) (s : S) (o : Op) (os : List Op) :
    (run dir s (o :: os)).1 = (run dir (step dir s o).1 os).1 := by
  simp [run]

theorem run_inv (dir : Bool) (os : List Op) : ∀ s, Inv s → Inv (run dir s os).1 := by
  induction os with
  | nil => intro s h; simpa [run] using h
  | cons o os ih => intro s h; rw [run_fst_cons]; exact ih _ (step_inv dir s o h)

theorem publish_fields (s : S) :
    (publish s).ended = s.ended ∧ (publish s).written = s.written ∧ (publish s).pin = s.pin ∧ (publish s).fclosed = s.fclosed := by
  unfold publish; split <;> simp

/-- an ended session accepts nothing more and stays ended: the accepted bytes are final -/
theorem step_ended (dir : Bool) (s : S) (o : Op) (he : s.ended = true) :
    (step dir s o).1.ended = true ∧ (step dir s o).1.written = s.written := by
  have hcr : (closeRaw dir s).1.ended = true ∧ (closeRaw dir s).1.written = s.written := by
    unfold closeRaw
    cases dir <;> simp only [Bool.false_eq_true, ↓reduceIte]
    · split
      · exact ⟨he, rfl⟩
      · have := publish_fields { s with ended := true }; exact ⟨this.1, this.2.1⟩
    · split
      · exact ⟨he, rfl⟩
      · split
        · exact ⟨he, rfl⟩
        · have := publish_fields { s with fclosed := true, ended := true }; exact ⟨this.1, this.2.1⟩
  cases o with
  | w c => simp [step, he]
  | vbad => simp [step, he]
  | vgood => simp [step, he]
  | close => simp only [step]; split
             · exact hcr
             · exact ⟨he, rfl⟩
  | closeRaw => exact hcr
  | cancel => simp [step]

theorem run_ended (dir : Bool) (os : List Op) : ∀ s, s.ended = true →
    (run dir s os).1.ended = true ∧ (run dir s os).1.written = s.written := by
  induction os with
  | nil => intro s h; simp [run, h]
  | cons o os ih =>
    intro s h
    rw [run_fst_cons]
    have h1 := step_ended dir s o h
    have h2 := ih _ h1.1
    exact ⟨h2.1, h2.2.trans h1.2⟩

theorem publish_mono (t : S) (p : List Nat) (ht : p ∈ t.published) : p ∈ (publish t).published := by
  unfold publish; split
  · exact ht
  · exact List.mem_append_left _ ht

theorem closeRaw_mono (dir : Bool) (s : S) (p : List Nat) (hp : p ∈ s.published) : p ∈ (closeRaw dir s).1.published := by
  unfold closeRaw
  cases dir <;> simp only [Bool.false_eq_true, ↓reduceIte]
  · split
    · exact hp
    · exact publish_mono _ p hp
  · split
    · exact hp
    · split
      · exact hp
      · exact publish_mono _ p hp

/-- published contents are never withdrawn by the object -/
theorem step_published_mono (dir : Bool) (s : S) (o : Op) (p : List Nat) (hp : p ∈ s.published) :
    p ∈ (step dir s o).1.published := by
  cases o <;> simp only [step]
  · split <;> exact hp
  · exact hp
  · exact hp
  · split
    · exact closeRaw_mono dir s p hp
    · exact hp
  · exact closeRaw_mono dir s p hp
  · exact hp

/-- a write is refused exactly when the session has ended or (directory store) its temporary file is closed -/
theorem write_refused_iff (dir : Bool) (s : S) (c : Nat) :
    (step dir s (.w c)).2 = .err ↔ (s.ended = true ∨ (dir = true ∧ s.fclosed = true)) := by
  simp only [step]; split <;> simp_all

/-- the pin of a session never changes -/
theorem step_pin (dir : Bool) (s : S) (o : Op) : (step dir s o).1.pin = s.pin := by
  have hcr : (closeRaw dir s).1.pin = s.pin := by
    unfold closeRaw
    cases dir <;> simp only [Bool.false_eq_true, ↓reduceIte]
    · split
      · rfl
      · exact (publish_fields _).2.2.1
    · split
      · rfl
      · split
        · rfl
        · exact (publish_fields _).2.2.1
  cases o <;> simp only [step]
  · split <;> rfl
  · split
    · exact hcr
    · rfl
  · exact hcr

theorem run_pin (dir : Bool) (os : List Op) : ∀ s, (run dir s os).1.pin = s.pin := by
  induction os with
  | nil => intro s; simp [run]
  | cons o os ih => intro s; rw [run_fst_cons, ih, step_pin]

end Sess
