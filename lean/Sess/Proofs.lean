import Sess.Basic
namespace Sess

/-- what a session object may have published: nothing while it is open; once it has ended at most the bytes it had
    accepted when it ended (which no later call changes), and for a pinned session only the pinned content -/
def Inv (s : S) : Prop :=
  (s.ended = false → s.published = []) ∧ (∀ p ∈ s.published, p = s.written ∧ (s.pin = none ∨ s.pin = some p))

theorem inv_init (pin : Option (List Nat)) : Inv { pin := pin } := by simp [Inv]

/-- a verification changes nothing but the digester's state -/
theorem verify_fields (dir : Bool) (s : S) (a : Bool) :
    (verify dir s a).1.ended = s.ended ∧ (verify dir s a).1.written = s.written ∧ (verify dir s a).1.published = s.published ∧
    (verify dir s a).1.pin = s.pin ∧ (verify dir s a).1.fclosed = s.fclosed := by
  simp [verify]

theorem verifyBad_fields (dir : Bool) (s : S) (a : Bool := false) :
    (verifyBad dir s a).ended = s.ended ∧ (verifyBad dir s a).written = s.written ∧ (verifyBad dir s a).published = s.published ∧
    (verifyBad dir s a).pin = s.pin ∧ (verifyBad dir s a).fclosed = s.fclosed := by
  simp [verifyBad]

theorem inv_congr (s t : S) (he : t.ended = s.ended) (hw : t.written = s.written) (hp : t.published = s.published)
    (hpin : t.pin = s.pin) (h : Inv s) : Inv t := by
  unfold Inv at *
  rw [he, hw, hp, hpin]; exact h

/-- a successful verification against the digest of the accepted bytes (first algorithm) implies the pin check -/
theorem verify_ok_pinOk (dir : Bool) (s : S) (h : (verify dir s false).2 = .ok) : pinOk (verify dir s false).1 = true := by
  have hf := verify_fields dir s false
  unfold pinOk
  rw [hf.2.2.2.1, hf.2.1]
  simp only [verify, verifyCore] at h
  cases hp : s.pin with
  | none => rfl
  | some p =>
    simp only [hp, Bool.not_false, Bool.true_and] at h ⊢
    by_cases hq : (p == s.written) = true
    · exact hq
    · simp [hq] at h

theorem pinOk_spec (s : S) (h : pinOk s = true) : s.pin = none ∨ s.pin = some s.written := by
  unfold pinOk at h
  cases hp : s.pin with
  | none => exact Or.inl rfl
  | some p => rw [hp] at h; simp at h; exact Or.inr (by rw [h])

theorem publish_inv (s : S) (he : s.ended = true) (hp : pinOk s = true) (h : Inv s) : Inv (publish s) := by
  unfold publish
  split
  · exact h
  · refine ⟨fun h0 => by simp [he] at h0, ?_⟩
    intro p hpm
    simp only [List.mem_append, List.mem_singleton] at hpm
    rcases hpm with hpm | hpm
    · exact h.2 p hpm
    · subst hpm; exact ⟨rfl, pinOk_spec s hp⟩

/-- changing the flags of a state that has published nothing keeps the invariant when the result has ended or published nothing -/
theorem inv_of_nil (s t : S) (hpub : t.published = []) : Inv t := by
  refine ⟨fun _ => hpub, ?_⟩
  intro p hp; rw [hpub] at hp; simp at hp

theorem closeRaw_inv (dir : Bool) (s : S) (h : Inv s) : Inv (closeRaw dir s).1 := by
  unfold closeRaw
  cases dir
  · -- memory store
    simp only [Bool.false_eq_true, ↓reduceIte]
    by_cases hp : pinOk s = true
    · simp only [hp, Bool.not_true, Bool.false_eq_true, ↓reduceIte]
      apply publish_inv _ rfl (by simpa [pinOk] using hp)
      refine ⟨fun h0 => by simp at h0, ?_⟩
      intro p hpm; exact h.2 p hpm
    · simp only [hp, Bool.not_false, ↓reduceIte]; exact h
  · -- directory store
    simp only [↓reduceIte]
    by_cases hf : s.fclosed = true
    · simp only [hf, ↓reduceIte]; exact h
    · simp only [hf, Bool.false_eq_true, ↓reduceIte]
      by_cases hp : pinOk s = true
      · simp only [hp, Bool.not_true, Bool.false_eq_true, ↓reduceIte]
        apply publish_inv _ rfl (by simpa [pinOk] using hp)
        refine ⟨fun h0 => by simp at h0, ?_⟩
        intro p hpm; exact h.2 p hpm
      · simp only [hp, Bool.not_false, ↓reduceIte]
        exact ⟨fun h0 => h.1 h0, fun p hpm => h.2 p hpm⟩

theorem step_inv (dir : Bool) (s : S) (o : Op) (h : Inv s) : Inv (step dir s o).1 := by
  cases o with
  | w c =>
    simp only [step]
    split
    · exact h
    · rename_i hc
      have he' : s.ended = false := by
        cases hE : s.ended with
        | false => rfl
        | true => exact absurd (Or.inl hE) hc
      exact inv_of_nil s _ (h.1 he')
  | vbad =>
    have hf := verifyBad_fields dir s
    exact inv_congr s _ hf.1 hf.2.1 hf.2.2.1 hf.2.2.2.1 h
  | vbadAlt =>
    have hf := verifyBad_fields dir s true
    exact inv_congr s _ hf.1 hf.2.1 hf.2.2.1 hf.2.2.2.1 h
  | vgood =>
    have hf := verify_fields dir s false
    exact inv_congr s _ hf.1 hf.2.1 hf.2.2.1 hf.2.2.2.1 h
  | vgoodAlt =>
    have hf := verify_fields dir s true
    exact inv_congr s _ hf.1 hf.2.1 hf.2.2.1 hf.2.2.2.1 h
  | close =>
    have hf := verify_fields dir s false
    have hv : Inv (verify dir s false).1 := inv_congr s _ hf.1 hf.2.1 hf.2.2.1 hf.2.2.2.1 h
    simp only [step]
    split
    · rename_i s1 heq
      have : s1 = (verify dir s false).1 := by rw [heq]
      rw [this]; exact closeRaw_inv dir _ hv
    · rename_i s1 heq
      have : s1 = (verify dir s false).1 := by rw [heq]
      rw [this]; exact hv
  | closeRaw => exact closeRaw_inv dir s h
  | cancel =>
    simp only [step]
    refine ⟨fun h0 => by simp at h0, ?_⟩
    intro p hpm; exact h.2 p hpm

theorem run_fst_cons (dir : Bool) (s : S) (o : Op) (os : List Op) :
    (run dir s (o :: os)).1 = (run dir (step dir s o).1 os).1 := by
  simp [run]

theorem run_inv (dir : Bool) (os : List Op) : ∀ s, Inv s → Inv (run dir s os).1 := by
  induction os with
  | nil => intro s h; simpa [run] using h
  | cons o os ih => intro s h; rw [run_fst_cons]; exact ih _ (step_inv dir s o h)

theorem publish_fields (s : S) :
    (publish s).ended = s.ended ∧ (publish s).written = s.written ∧ (publish s).pin = s.pin ∧ (publish s).fclosed = s.fclosed := by
  unfold publish; split <;> simp

/-- an ended session accepts nothing more and stays ended: the accepted bytes are final -/
theorem step_ended (dir : Bool) (s : S) (o : Op) (he : s.ended = true) :
    (step dir s o).1.ended = true ∧ (step dir s o).1.written = s.written := by
  have hcr : (closeRaw dir s).1.ended = true ∧ (closeRaw dir s).1.written = s.written := by
    unfold closeRaw
    cases dir <;> simp only [Bool.false_eq_true, ↓reduceIte]
    · split
      · exact ⟨he, rfl⟩
      · have := publish_fields { s with ended := true }; exact ⟨this.1, this.2.1⟩
    · split
      · exact ⟨he, rfl⟩
      · split
        · exact ⟨he, rfl⟩
        · have := publish_fields { s with fclosed := true, ended := true }; exact ⟨this.1, this.2.1⟩
  have hcr' : ∀ t : S, t.ended = true → (closeRaw dir t).1.ended = true ∧ (closeRaw dir t).1.written = t.written := by
    intro t ht
    unfold closeRaw
    cases dir <;> simp only [Bool.false_eq_true, ↓reduceIte]
    · split
      · exact ⟨ht, rfl⟩
      · have := publish_fields { t with ended := true }; exact ⟨this.1, this.2.1⟩
    · split
      · exact ⟨ht, rfl⟩
      · split
        · exact ⟨ht, rfl⟩
        · have := publish_fields { t with fclosed := true, ended := true }; exact ⟨this.1, this.2.1⟩
  cases o with
  | w c => simp [step, he]
  | vbad => have hf := verifyBad_fields dir s; exact ⟨hf.1.trans he, hf.2.1⟩
  | vbadAlt => have hf := verifyBad_fields dir s true; exact ⟨hf.1.trans he, hf.2.1⟩
  | vgood => have hf := verify_fields dir s false; exact ⟨hf.1.trans he, hf.2.1⟩
  | vgoodAlt => have hf := verify_fields dir s true; exact ⟨hf.1.trans he, hf.2.1⟩
  | close =>
    have hf := verify_fields dir s false
    simp only [step]
    split
    · rename_i s1 heq
      have e1 : s1 = (verify dir s false).1 := by rw [heq]
      have := hcr' s1 (by rw [e1]; exact hf.1.trans he)
      exact ⟨this.1, this.2.trans (by rw [e1]; exact hf.2.1)⟩
    · rename_i s1 heq
      have e1 : s1 = (verify dir s false).1 := by rw [heq]
      rw [e1]; exact ⟨hf.1.trans he, hf.2.1⟩
  | closeRaw => exact hcr
  | cancel => simp [step]

theorem run_ended (dir : Bool) (os : List Op) : ∀ s, s.ended = true →
    (run dir s os).1.ended = true ∧ (run dir s os).1.written = s.written := by
  induction os with
  | nil => intro s h; simp [run, h]
  | cons o os ih =>
    intro s h
    rw [run_fst_cons]
    have h1 := step_ended dir s o h
    have h2 := ih _ h1.1
    exact ⟨h2.1, h2.2.trans h1.2⟩

theorem publish_mono (t : S) (p : List Nat) (ht : p ∈ t.published) : p ∈ (publish t).published := by
  unfold publish; split
  · exact ht
  · exact List.mem_append_left _ ht

theorem closeRaw_mono (dir : Bool) (s : S) (p : List Nat) (hp : p ∈ s.published) : p ∈ (closeRaw dir s).1.published := by
  unfold closeRaw
  cases dir <;> simp only [Bool.false_eq_true, ↓reduceIte]
  · split
    · exact hp
    · exact publish_mono _ p hp
  · split
    · exact hp
    · split
      · exact hp
      · exact publish_mono _ p hp

/-- published contents are never withdrawn by the object -/
theorem step_published_mono (dir : Bool) (s : S) (o : Op) (p : List Nat) (hp : p ∈ s.published) :
    p ∈ (step dir s o).1.published := by
  cases o with
  | w c => simp only [step]; split <;> exact hp
  | vbad => simp only [step]; rw [(verifyBad_fields dir s).2.2.1]; exact hp
  | vbadAlt => simp only [step]; rw [(verifyBad_fields dir s true).2.2.1]; exact hp
  | vgood => simp only [step]; rw [(verify_fields dir s false).2.2.1]; exact hp
  | vgoodAlt => simp only [step]; rw [(verify_fields dir s true).2.2.1]; exact hp
  | close =>
    have hf := verify_fields dir s false
    simp only [step]
    split
    · rename_i s1 heq
      have e1 : s1 = (verify dir s false).1 := by rw [heq]
      exact closeRaw_mono dir s1 p (by rw [e1, hf.2.2.1]; exact hp)
    · rename_i s1 heq
      have e1 : s1 = (verify dir s false).1 := by rw [heq]
      rw [e1, hf.2.2.1]; exact hp
  | closeRaw => exact closeRaw_mono dir s p hp
  | cancel => exact hp

/-- a write is refused exactly when the session has ended or (directory store) its temporary file is closed -/
theorem write_refused_iff (dir : Bool) (s : S) (c : Nat) :
    (step dir s (.w c)).2 = .err ↔ (s.ended = true ∨ (dir = true ∧ s.fclosed = true)) := by
  simp only [step]; split <;> simp_all

/-- the pin of a session never changes -/
theorem step_pin (dir : Bool) (s : S) (o : Op) : (step dir s o).1.pin = s.pin := by
  have hcr : (closeRaw dir s).1.pin = s.pin := by
    unfold closeRaw
    cases dir <;> simp only [Bool.false_eq_true, ↓reduceIte]
    · split
      · rfl
      · exact (publish_fields _).2.2.1
    · split
      · rfl
      · split
        · rfl
        · exact (publish_fields _).2.2.1
  have hcr' : ∀ t : S, (closeRaw dir t).1.pin = t.pin := by
    intro t
    unfold closeRaw
    cases dir <;> simp only [Bool.false_eq_true, ↓reduceIte]
    · split
      · rfl
      · exact (publish_fields _).2.2.1
    · split
      · rfl
      · split
        · rfl
        · exact (publish_fields _).2.2.1
  cases o with
  | w c => simp only [step]; split <;> rfl
  | vbad => exact (verifyBad_fields dir s).2.2.2.1
  | vbadAlt => exact (verifyBad_fields dir s true).2.2.2.1
  | vgood => exact (verify_fields dir s false).2.2.2.1
  | vgoodAlt => exact (verify_fields dir s true).2.2.2.1
  | close =>
    have hf := verify_fields dir s false
    simp only [step]
    split
    · rename_i s1 heq
      have e1 : s1 = (verify dir s false).1 := by rw [heq]
      rw [hcr' s1, e1]; exact hf.2.2.2.1
    · rename_i s1 heq
      have e1 : s1 = (verify dir s false).1 := by rw [heq]
      rw [e1]; exact hf.2.2.2.1
  | closeRaw => exact hcr
  | cancel => rfl

theorem run_pin (dir : Bool) (os : List Op) : ∀ s, (run dir s os).1.pin = s.pin := by
  induction os with
  | nil => intro s; simp [run]
  | cons o os ih => intro s; rw [run_fst_cons, ih, step_pin]

end Sess
