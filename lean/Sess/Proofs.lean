import Sess.Basic
namespace Sess

/-- what a session object may have published: nothing while it is open, and once it has ended at most the bytes it
    had accepted when it ended (which no later call changes) -/
def Inv (s : S) : Prop := (s.ended = false → s.published = []) ∧ (∀ p ∈ s.published, p = s.written)

theorem inv_init : Inv {} := by simp [Inv]

theorem publish_inv (s : S) (he : s.ended = true) (h : Inv s) : Inv (publish s) := by
  unfold publish
  split
  · exact h
  · refine ⟨fun h0 => by simp [he] at h0, ?_⟩
    intro p hp
    simp only [List.mem_append, List.mem_singleton] at hp
    rcases hp with hp | hp
    · exact h.2 p hp
    · exact hp

theorem step_inv (dir : Bool) (s : S) (o : Op) (h : Inv s) : Inv (step dir s o).1 := by
  cases o with
  | w c =>
    simp only [step]
    by_cases he : s.ended = true
    · simp [he]; exact h
    · have he' : s.ended = false := by simpa using he
      simp only [he', Bool.false_eq_true, ↓reduceIte]
      refine ⟨fun _ => h.1 he', ?_⟩
      intro p hp
      rw [h.1 he'] at hp; simp at hp
  | vbad => exact h
  | close =>
    simp only [step]
    by_cases he : s.ended = true
    · simp only [he, ↓reduceIte]
      cases dir
      · exact publish_inv s he h
      · exact h
    · have he' : s.ended = false := by simpa using he
      simp only [he', Bool.false_eq_true, ↓reduceIte]
      apply publish_inv _ rfl
      refine ⟨fun h0 => by simp at h0, ?_⟩
      intro p hp
      simp only [h.1 he'] at hp; simp at hp
  | cancel =>
    simp only [step]
    by_cases he : s.ended = true
    · have : ({ s with ended := true } : S) = s := by cases s; simp_all
      rw [this]; exact h
    · have he' : s.ended = false := by simpa using he
      refine ⟨fun h0 => by simp at h0, ?_⟩
      intro p hp
      simp only [h.1 he'] at hp; simp at hp

theorem run_fst_cons (dir : Bool) (s : S) (o : Op) (os : List Op) :
    (run dir s (o :: os)).1 = (run dir (step dir s o).1 os).1 := by
  simp [run]

theorem run_inv (dir : Bool) (os : List Op) : ∀ s, Inv s → Inv (run dir s os).1 := by
  induction os with
  | nil => intro s h; simpa [run] using h
  | cons o os ih => intro s h; rw [run_fst_cons]; exact ih _ (step_inv dir s o h)

/-- an ended session accepts nothing more: the accepted bytes are final -/
theorem step_ended (dir : Bool) (s : S) (o : Op) (he : s.ended = true) :
    (step dir s o).1.ended = true ∧ (step dir s o).1.written = s.written := by
  have hpub : (publish s).ended = true ∧ (publish s).written = s.written := by
    unfold publish; split <;> simp [he]
  cases o with
  | w c => simp [step, he]
  | vbad => simp [step, he]
  | close =>
    simp only [step, he, ↓reduceIte]
    cases dir
    · exact hpub
    · simp [he]
  | cancel => simp [step]

theorem run_ended (dir : Bool) (os : List Op) : ∀ s, s.ended = true →
    (run dir s os).1.ended = true ∧ (run dir s os).1.written = s.written := by
  induction os with
  | nil => intro s h; simp [run, h]
  | cons o os ih =>
    intro s h
    rw [run_fst_cons]
    have h1 := step_ended dir s o h
    have h2 := ih _ h1.1
    exact ⟨h2.1, h2.2.trans h1.2⟩

/-- published contents are never withdrawn by the object -/
theorem step_published_mono (dir : Bool) (s : S) (o : Op) (p : List Nat) (hp : p ∈ s.published) :
    p ∈ (step dir s o).1.published := by
  cases o <;> simp only [step]
  · split <;> exact hp
  · exact hp
  · have hpub : ∀ t : S, p ∈ t.published → p ∈ (publish t).published := by
      intro t ht; unfold publish; split
      · exact ht
      · exact List.mem_append_left _ ht
    split
    · cases dir
      · exact hpub s hp
      · exact hp
    · exact hpub _ hp
  · exact hp

/-- a write is refused exactly when the session has ended -/
theorem write_refused_iff (dir : Bool) (s : S) (c : Nat) : (step dir s (.w c)).2 = .err ↔ s.ended = true := by
  simp only [step]; split <;> simp_all

end Sess
