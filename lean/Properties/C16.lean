import Upd.Frame
/-!
# C16 — repositories are isolated and storage access stays inside the root

Request level (this file): whatever a request is, only the repository it addresses can change; a cross-repository
mount succeeds without an upload only if the target already holds the blob or the source does; a mount source is
only opened if it is a valid repository name; valid names have no empty, `.` or `..` component.
Storage level (decided on the real directory store): every file-system call recorded by the FS shim stays under
the addressed repository's directory inside the root, and a sentinel tree around the root never changes.
-/
namespace C16
open Upd

/-- frame: a request changes at most the repository it addresses — nested names (`a`, `a/b`), mount sources and
    upload sessions of other repositories included -/
theorem frame (s : State) (q : Req) (r' : String) (h : r' ≠ q.target) : (step s q).1.repo r' = s.repo r' :=
  (step_frame s q).1 r' h

/-- … for whole histories: a repository no request addresses is never changed -/
theorem frame_history (reqs : List Req) (s : State) (r' : String) (h : ∀ q ∈ reqs, r' ≠ q.target) :
    (run s reqs).repo r' = s.repo r' := by
  induction reqs generalizing s with
  | nil => rfl
  | cons q rest ih =>
    show (run (step s q).1 rest).repo r' = s.repo r'
    rw [ih _ (fun q' hq' => h q' (List.mem_cons_of_mem _ hq'))]
    exact frame s q r' (h q List.mem_cons_self)

/-- a mount answered without an upload found the blob in the target already or in the source repository -/
theorem mount_needs_source (s : State) (src tgt dstr : String) (resp : Resp)
    (h : (mount s src tgt dstr).2 = some resp) :
    ∃ d, DigArg.parse dstr = .ok d ∧
      (((s.repo tgt).blob d).isSome ∨
       ∃ u, (create s tgt d.alg (some d)).2 = .session u ∧
         ((((create s tgt d.alg (some d)).1.setRepo ((create s tgt d.alg (some d)).1.repo src)).repo src).blob d).isSome) := by
  unfold mount at h
  split at h
  · simp at h
  · rename_i d hd
    refine ⟨d, hd, ?_⟩
    cases hc : (create s tgt d.alg (some d)).2 with
    | exists_ =>
      left
      unfold create at hc
      simp only [] at hc
      split at hc
      · assumption
      · simp at hc
    | session u =>
      right
      refine ⟨u, rfl, ?_⟩
      simp only [hc] at h
      split at h
      · simp at h
      · rename_i bytes hb
        simp [hb]

/-- the source of a mount is only ever opened when it is a valid repository name -/
theorem mount_source_validated (s : State) (r : String) (q : Q) (h : validRepo q.fromR = false) :
    uPost s r q = uPost s r { q with fromR := "" } := by
  unfold uPost
  simp [h]

/-- a valid repository name has no empty, "." or ".." component, so `filepath.Join(root, name)` stays below root -/
theorem valid_name_components (r : List Char) (h : validRepoL r = true) :
    ∀ p ∈ splitSlash r, p ≠ [] ∧ p ≠ ['.'] ∧ p ≠ ['.', '.'] := by
  intro p hp
  exact validPartL_ne p (List.all_eq_true.mp h p hp)

example : validRepoL ['a', '/', 'b'] = true := by decide
end C16
