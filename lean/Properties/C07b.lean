import Upd.RefEx
/-!
# C07 (second part) — the referrers response of a subject lists exactly the manifests that have the subject

Model (`Upd/Reg.lean`): the response of subject `S` in repository `r` is the descriptor list `s.resp content` of the
blob whose digest is registered in the index of `r` under the subject annotation (`getBySubj`); `currentResp` is the
read, `storeResp` the write, `referrerAdd` / `referrerDelete` the read-modify-write of referrer.go, `mCommit` / `mDel`
the manifest handlers that call them.  Proofs: `Upd/RefIx.lean` (index level), `Upd/RefOK.lean` (one call),
`Upd/RefQuiet.lean`, `Upd/RefHist.lean` (histories), `Upd/RefNames.lean` (names), all in namespace `Upd.Rf`.

Two facts about `String` functions appear as *hypotheses*, because content names are symbolic strings in the model
while the real server stores bytes:
* `DigRT dg` — `DigArg.parse dg.str = .ok dg`, the digest string parses back (`String.splitOn` is a well-founded
  recursion over byte positions without lemmas in core; concrete instances are proved by unrolling, see
  `Upd.Rf.digRT_nil`, `Upd.Rf.digRT_g`);
* `RespFits s ds` — the table that decodes response documents does not hold another list under the canonical name
  of `ds`.  `names_injective` shows that canonical names are injective on token-like descriptors, so this holds
  whenever the table is canonical (it is in every reachable state, `RK.table`).
-/
namespace C07b
open Upd Upd.Rf

/-- What is registered after `referrerAdd s r S d`: the index entry found for `S` carries the digest of the new
    response document, the document is stored, and it decodes to the list read before with `d` appended unless an
    entry with digest `d.dig` was listed.  (No parsing of digest strings involved.) -/
theorem add_registers (s : State) (r S : String) (d : Desc) (hS : S ≠ "") (hcas : RepoCAS (s.repo r))
    (hfit : RespFits s (addTo (respList s r S) d)) :
    Registered (referrerAdd s r S d) r S (addTo (respList s r S) d) :=
  referrerAdd_registered s r S d hS hcas hfit

example : Registered (referrerAdd {} "r" "s" dG) "r" "s" [dG] := by
  have h := add_registers {} "r" "s" dG (by decide) (by intro p hp; simp [State.repo] at hp)
    (by intro ds' h; simp [State.resp] at h)
  rw [respList_init] at h
  simpa [addTo] using h

/-- 1. After `referrerAdd s r S d` the handlers read for `S` the old list with `d` appended unless an entry with
    `d.dig` was already listed: every old entry is still listed, `d.dig` is listed, nothing else was added, and no
    digest is listed twice if none was before.  Hypotheses: `S` is a subject, the repository is content addressed
    (C01), the canonical name of the new list is free or taken by the same list, its digest string parses back. -/
theorem referrerAdd_lists (s : State) (r S : String) (d : Desc) (hS : S ≠ "") (hcas : RepoCAS (s.repo r))
    (hfit : RespFits s (addTo (respList s r S) d)) (hrt : DigRT (respDig (addTo (respList s r S) d))) :
    ∃ e ds, currentResp (referrerAdd s r S d) r S = some (e, ds) ∧
      ds = (if (respList s r S).any (·.dig = d.dig) then respList s r S else respList s r S ++ [d]) ∧
      (∀ x ∈ respList s r S, x ∈ ds) ∧ (∃ x ∈ ds, x.dig = d.dig) ∧ (∀ x ∈ ds, x ∈ respList s r S ∨ x = d) ∧
      (((respList s r S).map (·.dig)).Nodup → (ds.map (·.dig)).Nodup) :=
  Upd.Rf.referrerAdd_lists s r S d hS hcas hfit hrt

/-- the first referrer of a subject in an empty registry: the response lists exactly it (all hypotheses discharged on
    a concrete state, `Upd.Rf.example_add`) -/
example : ∃ e, currentResp (referrerAdd {} "r" "s" dG) "r" "s" = some (e, [dG]) := example_add

/-- The list `referrerDelete` writes back is the old list without the entries of the digest, up to order (the
    removal moves the last entry into the hole). -/
theorem removed_is_filter (old : List Desc) (g : String) (hg : g ≠ "") :
    (rmFrom old g).Perm (old.filter (fun e => e.dig ≠ g)) := rmFrom_perm old g hg

example : rmFrom [dG] "g" = [] := by
  have := removed_is_filter [dG] "g" (by decide)
  simpa [dG] using this

/-- What is registered after `referrerDelete s r S d` when `S` had a response: the list read before without the
    entries of digest `d.dig` (`removed_is_filter`).  When `S` had no response nothing changes
    (`Upd.Rf.referrerDelete_nothing`). -/
theorem delete_registers (s : State) (r S : String) (d : Desc) (hS : S ≠ "") (hcas : RepoCAS (s.repo r))
    (hsome : currentResp s r S ≠ none) (hfit : RespFits s (rmFrom (respList s r S) d.dig)) :
    Registered (referrerDelete s r S d) r S (rmFrom (respList s r S) d.dig) :=
  referrerDelete_registered s r S d hS hcas hsome hfit

/-- 2. After `referrerDelete s r S d`, when a response `old` was read for `S`, the handlers read the old list without
    the entries of digest `d.dig`, the other entries kept, up to order. -/
theorem referrerDelete_lists (s : State) (r S : String) (d : Desc) (hS : S ≠ "") (hcas : RepoCAS (s.repo r))
    (e0 : Desc) (old : List Desc) (hcur : currentResp s r S = some (e0, old)) (hd : d.dig ≠ "")
    (hfit : RespFits s (rmFrom old d.dig)) (hrt : DigRT (respDig (rmFrom old d.dig))) :
    ∃ e ds, currentResp (referrerDelete s r S d) r S = some (e, ds) ∧ ds.Perm (old.filter (fun x => x.dig ≠ d.dig)) :=
  Upd.Rf.referrerDelete_lists s r S d hS hcas e0 old hcur hd hfit hrt

/-- add a referrer, delete it again: the subject keeps a response, and it is empty (all hypotheses of
    `delete_registers` and `referrerDelete_lists` discharged on a concrete state, `Upd.Rf.example_add_delete`) -/
example : ∃ e, currentResp (referrerDelete (referrerAdd {} "r" "s" dG) "r" "s" dG) "r" "s" = some (e, []) :=
  example_add_delete

/-- 3. `referrerAdd` and `referrerDelete` for subject `S` leave every other subject `S'` alone: the index entries
    annotated with `S'` are the same entries before and after; a subject without a response still has none; and
    whatever list the handlers could read for `S'` they read afterwards, through an index entry of the same digest.
    (`SubjFun`: all entries annotated with one subject carry one digest — an invariant, `RK.subjFun`; it is needed
    because the write may reorder the index.) -/
theorem referrers_other_subject_untouched (s : State) (r S S' : String) (d : Desc) (hS : S ≠ "") (hS' : S' ≠ "")
    (hne : S' ≠ S) (hfun : SubjFun (s.repo r).index.manifests) (s' : State)
    (hs' : s' = referrerAdd s r S d ∨ s' = referrerDelete s r S d) :
    (∀ e, Upd.Rf.Sub e → e.ann.subj = S' → (e ∈ (s'.repo r).index.manifests ↔ e ∈ (s.repo r).index.manifests)) ∧
    (currentResp s r S' = none → currentResp s' r S' = none) ∧
    (∀ e l, Readable s r S' e l → ∃ e', Readable s' r S' e' l ∧ e'.dig = e.dig) :=
  Upd.Rf.referrers_other_subject_untouched s r S S' d hS hS' hne hfun s' hs'

example : currentResp (referrerAdd {} "r" "s" dG) "r" "t" = none :=
  (referrers_other_subject_untouched {} "r" "s" "t" dG (by decide) (by decide) (by decide)
    (by intro e he; simp [State.repo] at he) _ (Or.inl rfl)).2.1
    ((currentResp_none _ _ _).mpr (by simp [State.repo, getBySubj]))

/-- The canonical name of a response document determines the list, among lists of token-like descriptors (no
    annotation; no `,` in any field; no `/` in digest, media type, artifact type): the table of response documents
    cannot confuse two such lists. -/
theorem names_injective (ds ds' : List Desc) (h1 : ∀ d ∈ ds, Tok d) (h2 : ∀ d ∈ ds', Tok d)
    (h : respName ds = respName ds') : ds = ds' := respName_inj ds ds' h1 h2 h

example : Tok dG := ⟨rfl, by decide, by decide, by decide, by decide⟩

/-! ## the invariant

`RefOK T r s G` (`Upd.Rf.RefOK`) = `RK T r s ∧ RJ r s G`:
* `RK` — structure: the state is content addressed (C01), the referrers API is on, every name in the response table
  is the canonical name of its list and the list is over `T`, no index entry of `r` carries both a tag and a subject,
  all entries annotated with one subject carry one digest, and every subject-annotated entry registers a stored,
  decodable response document;
* `RJ` — content: for every subject `S ≠ ""` the digests listed in the response read for `S` are pairwise different,
  each is the digest of a stored manifest whose body names `S` as its subject, they are exactly the digests the
  specification `G S` holds, and no body with a subject is defined under the name of a response document.
`specStep` updates the specification from what a client observes: a push into `r` answered 201 with an `OCI-Subject`
header adds the answered digest to that subject; a delete by digest in `r` answered 202 removes the digest from every
subject; nothing else changes it.  `Names T`: `respName` is injective on lists over `T` and the digests of response
documents over `T` parse back. -/

/-- Preserved by a manifest push into `r` — tagged or by digest, with or without subject, accepted or refused — if an
    accepted push has a referrer descriptor in `T` and a digest string that parses back.  (For a push with subject `S`
    the new specification has the pushed digest under `S`; for any other push it is unchanged.) -/
theorem refok_push {T : Desc → Prop} {r : String} {s : State} {G : Spec} (h : RefOK T r s G) (hN : Names T)
    (ref ct qd b : String) (lk : Bool)
    (hadm : ∀ a, mValidate (s.setRepo (s.repo r)) r ref ct qd b lk = .ok a → T a.refd ∧ DigRT a.d) :
    RefOK T r (mPut s r ref ct qd b lk).1 (specStep r G (.mPut r ref ct qd b lk) (mPut s r ref ct qd b lk).2) :=
  Upd.Rf.refok_push h hN ref ct qd b lk hadm

/-- the invariant holds in the empty registry, the hypotheses about names are satisfiable, and a push with an
    unsupported content type satisfies the condition (it is refused) -/
example : RefOK (fun _ => False) "r" (mPut {} "r" "t" "bogus" "" "@m" true).1
    (specStep "r" (fun _ _ => False) (.mPut "r" "t" "bogus" "" "@m" true) (mPut {} "r" "t" "bogus" "" "@m" true).2) := by
  apply refok_push ⟨RK.init {} rfl, RJ.init {}⟩ names_empty
  intro a ha
  simp [mValidate, checkCt, isImageMT, isIndexMT, refuse, bind, Except.bind] at ha

/-- The repaired delete handler: a delete by digest that resolves to a digest carried by a response entry of the index
    (`Sub e`), and by no entry of another kind (`¬ Twinned`), is refused with 404 MANIFEST_UNKNOWN; nothing changes
    but that the repository entry exists. -/
theorem delete_of_response_refused (s : State) (r arg : String) (desc e : Desc) (ht : isTag arg = false)
    (hg : getDesc (s.repo r).index arg = some desc) (he : e ∈ (s.repo r).index.manifests) (hsub : Upd.Rf.Sub e)
    (hed : e.dig = desc.dig) (hnt : ¬ Twinned (s.repo r).index desc.dig) :
    mDel s r arg = (s.setRepo (s.repo r), { status := 404, code := "MANIFEST_UNKNOWN" }) :=
  mDel_response_refused s r arg desc e ht hg he hsub hed hnt

/-- register a response, then try to delete the response document by its digest through the manifest API: 404, and
    the response is still read (`Upd.Rf.example_delete_response`, all hypotheses discharged on a concrete state) -/
example : (mDel (referrerAdd {} "r" "s" dG) "r" "sha256:R(g//0//)").2.status = 404 ∧
    ∃ e, currentResp (mDel (referrerAdd {} "r" "s" dG) "r" "sha256:R(g//0//)").1 "r" "s" = some (e, [dG]) :=
  example_delete_response

/-- Preserved by a manifest delete in `r`, by tag or by digest.  A digest that only response entries carry is refused
    by the handler (`delete_of_response_refused`), so the only exclusion left is `Twinned`: the digest is carried by
    a response entry *and* by an entry of another kind — a client has pushed a manifest byte-identical to a referrers
    response document; deleting that manifest by digest takes the registration of the response with it.  After a
    delete by digest the specification no longer holds that digest under any subject. -/
theorem refok_delete {T : Desc → Prop} {r : String} {s : State} {G : Spec} (h : RefOK T r s G) (hN : Names T)
    (arg : String) (hadm : isTag arg = false → ∀ d, DigArg.parse arg = .ok d → ¬ Twinned (s.repo r).index d.str) :
    RefOK T r (mDel s r arg).1 (specStep r G (.mDel r arg) (mDel s r arg).2) :=
  Upd.Rf.refok_delete h hN arg hadm

/-- any delete, by tag or by digest, on the empty registry -/
example (arg : String) :
    RefOK (fun _ => False) "r" (mDel {} "r" arg).1 (specStep "r" (fun _ _ => False) (.mDel "r" arg) (mDel {} "r" arg).2) :=
  refok_delete ⟨RK.init {} rfl, RJ.init {}⟩ names_empty arg
    (fun _ _ _ ⟨e1, h1, _⟩ => by simp [State.repo] at h1)

/-- A delete by tag changes no response at all: the list read for every subject is the same afterwards, and so is
    the specification. -/
theorem refok_delete_tag {T : Desc → Prop} {r : String} {s : State} {G : Spec} (h : RefOK T r s G) (hN : Names T)
    (arg : String) (ht : isTag arg = true) :
    RefOK T r (mDel s r arg).1 G ∧ ∀ S, S ≠ "" → respList (mDel s r arg).1 r S = respList s r S :=
  Upd.Rf.refok_delete_tag h hN arg ht

example (arg : String) (ht : isTag arg = true) : RefOK (fun _ => False) "r" (mDel {} "r" arg).1 (fun _ _ => False) :=
  (refok_delete_tag ⟨RK.init {} rfl, RJ.init {}⟩ names_empty arg ht).1

/-- Preserved, with the same specification, by every request addressed to another repository (C16 frame) — a push
    there must still have its referrer descriptor in `T`, because the table of response documents is shared. -/
theorem refok_other_repo {T : Desc → Prop} {r : String} {s : State} {G : Spec} (h : RefOK T r s G) (hN : Names T)
    (q : Req) (hne : q.target ≠ r) (hadm : Adm T r s (.req q)) : RefOK T r (step s q).1 G :=
  Upd.Rf.refok_other_repo h hN q hne hadm

example : RefOK (fun _ => False) "r" (step {} (.bDel "q" "x")).1 (fun _ _ => False) :=
  refok_other_repo ⟨RK.init {} rfl, RJ.init {}⟩ names_empty (.bDel "q" "x") (by decide) (by show "q" ≠ "r"; decide)

/-- C07 over histories (partial).  Start from the empty registry with the referrers API on and run any history of
    requests (blob uploads, mounts, blob and manifest reads, tag listings, referrers requests, manifest pushes and
    deletes, in any repository) and body definitions in which every event is admissible (`Adm`) in the state in
    which it is executed.  Then for every subject `S`: the digests listed in the response read for `S` in `r` are
    exactly the digests that were pushed into `r` with subject `S` (answered 201 with that `OCI-Subject`) and not
    deleted by digest since (`specAfter`), and no digest is listed twice — whatever the push order, the tags, the
    tag deletions, and whether `S` itself exists.

    Excluded (`Adm`), and nothing else:
    * blob deletes addressed to `r` — deleting the blob of a manifest makes the delete handler unable to read its
      subject (the entry then stays listed after the manifest is gone), deleting the blob of a response document
      makes the response read as empty;
    * a manifest delete by digest in `r` of a digest that a response entry and an entry of another kind share
      (`Twinned`, see `refok_delete`; a digest that only response entries carry is refused by the handler);
    * an accepted push (in any repository) whose referrer descriptor is outside `T`, and an accepted push into `r`
      whose digest string does not parse back;
    * a body definition with a subject under the canonical name of a response document (an artefact of symbolic
      content names: the bytes of a response document have no subject field).
    Not in the request alphabet at all: garbage collection, restart/ingest.  `Names T` is the hypothesis about content
    names (`names_injective` proves its first half for `T = Tok`). -/
theorem refok_reach_partial {T : Desc → Prop} {r : String} (hN : Names T) (conf : Conf) (href : conf.ref = true)
    (hist : List Ev) (hadm : AdmHist T r { conf := conf } hist) (S : String) (hS : S ≠ "") :
    (∀ g, g ∈ (respList (hist.foldl stepEv { conf := conf }) r S).map (·.dig) ↔
        specAfter r { conf := conf } (fun _ _ => False) hist S g) ∧
    ((respList (hist.foldl stepEv { conf := conf }) r S).map (·.dig)).Nodup :=
  Upd.Rf.refok_reach_partial hN conf href hist hadm S hS

/-- a history with a body definition, a tag listing, a blob delete and a manifest delete in another repository is
    admissible (`Upd.Rf.hist0_adm`), and the hypotheses about names are satisfiable (`Upd.Rf.names_empty`) -/
example (S : String) (hS : S ≠ "") :
    ∀ g, g ∈ (respList (hist0.foldl stepEv { conf := {} }) "r" S).map (·.dig) ↔
      specAfter "r" { conf := {} } (fun _ _ => False) hist0 S g :=
  (refok_reach_partial names_empty {} rfl hist0 hist0_adm S hS).1
end C07b
