import Upd.C01
import Upd.C04
/-!
# C01 — served content always hashes to the digest it is served under

Model: `Upd` (HTTP level).  Digests are pairs `(algorithm, content)`: the hash is an injective function of the
bytes (`Upd.H a b = ⟨a, b⟩`), nothing rests on SHA-2 itself.  `Upd.Inv s` says: every blob of every repository is
stored under the hash of its bytes, and the running digester of every open upload session has seen exactly the
bytes written (so algorithm changes and rescans are covered, not assumed).
Tie: correspondence profiles `mix`, `upload`, `limits`, `switches` on the memory, directory and
memory-over-directory stores; monitors `C01.served-hash`, `C01.wrong-digest-accepted`.
-/
namespace C01
open Upd

/-- every reachable state — any configuration, any history of blob, upload (monolithic, chunked, mounted), manifest,
    tag and referrers requests, sessions interleaved in any order — satisfies the content-addressing invariant -/
theorem cas_reach (conf : Conf) (hist : List Ev) : Inv (hist.foldl stepEv { conf := conf }) :=
  reach_inv conf hist

/-- a blob GET answered 200 serves the stored bytes under the requested digest, and those bytes hash to it -/
theorem blob_served_hashes (conf : Conf) (hist : List Ev) (r arg : String) (d : Dig) (bytes : String)
    (hd : DigArg.parse arg = .ok d)
    (hb : (((hist.foldl stepEv { conf := conf }).setRepo ((hist.foldl stepEv { conf := conf }).repo r)).repo r).blob d = some bytes) :
    (bGet (hist.foldl stepEv { conf := conf }) r arg false).2.status = 200 ∧
    (bGet (hist.foldl stepEv { conf := conf }) r arg false).2.dcd = d.str ∧
    (bGet (hist.foldl stepEv { conf := conf }) r arg false).2.body = "=" ++ cname bytes ∧ d = H d.alg bytes :=
  bGet_served _ r arg (reach_inv conf hist) d bytes hd hb

/-- an acknowledged manifest push is stored under the digest of exactly the bytes received, and a declared digest
    (the reference, or `?digest=` on a tag push) that does not match those bytes is never acknowledged -/
theorem manifest_digest_checked (s : State) (r ref ct qd b : String) (lk : Bool)
    (h : (mPut s r ref ct qd b lk).2.status = 201) :
    ∃ a, mValidate (s.setRepo (s.repo r)) r ref ct qd b lk = .ok a ∧ a.d.content = b ∧
      (∀ d, DigArg.parse ref = .ok d → isTag ref = false → d = a.d) ∧
      (∀ d, isTag ref = true → qd ≠ "" → DigArg.parse qd = .ok d → d = a.d) := by
  obtain ⟨a, ha⟩ := mPut_ack_validated s r ref ct qd b lk h
  exact ⟨a, ha, mValidate_digest _ r ref ct qd b lk a ha, mValidate_declared _ r ref ct qd b lk a ha⟩

/-- the digest check of an upload: `Verify` succeeds only for the digest of the bytes the digester has seen
    (after any rescan), and only for the digest the session was created for -/
theorem upload_verify_sound (u : Upload) (d : Dig) (hu : u.hashed = u.buf) (hok : (u.verify d).2 = true) :
    d = H (u.verify d).1.alg u.buf ∧ (∀ e, u.expect = some e → d = e) := by
  have h1 := verify_ok_digest u d hok
  have h2 := verify_hashed u d hu
  have hb : (u.verify d).1.buf = u.buf := by
    unfold Upload.verify; repeat' split
    all_goals rfl
  refine ⟨?_, fun e he => verify_ok_expect u d e he hok⟩
  have h3 : (u.verify d).1.digest = H (u.verify d).1.alg u.buf := by
    simp only [Upload.digest, H, h2, hb]
  exact h1.symm.trans h3

-- the hypotheses are satisfiable: a session that has received "ab" verifies against sha256 of "ab"
example : ((({ key := 1, alg := .sha256, expect := none, buf := "", hashed := "" } : Upload).write "ab").verify ⟨.sha256, "ab"⟩).2 = true := by
  simp [Upload.write, Upload.verify, Upload.digest, H]
end C01
