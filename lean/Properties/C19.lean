import Cfg
import Generated
/-!
# C19 — every setting has its documented effect, for every combination

Models (library `Cfg`): `Cfg.setDefaults` (config.SetDefaults), `Cfg.route` (an interpreter of the regenerated route
table of `ServeHTTP`), `Cfg.RL` (the rate limiter), `Cfg.LC` (the Run / Shutdown / signal handshake).
Tables regenerated from the tree under test on every run (library `Generated`): flags and wiring of `olareg serve`,
the route table, the steps of `SetDefaults`, and the source text of the limiter, `New`, `Run`, `Shutdown`, `serve.run`.

The theorems whose proof is `decide` range over a regenerated finite table: they are re-checked by the kernel whenever
the table changes, so a flag wired to another field, a changed default, a dropped route guard or an edited limiter
makes the corresponding obligation fail.  The other theorems are unbounded (all configurations, all arrival sequences,
all interleavings).
-/
namespace C19
open Cfg Generated

/-! ## (a) flags -/

/-- every `serve` flag has the documented kind and default and reaches exactly the documented configuration field;
no configuration field is set from anything else, none twice -/
theorem flags_wired :
    flagTable flags wiring = documentedFlags ∧ wiringExact flags wiring = true := by decide +kernel

example : (documentedFlags.map (·.name)).contains "api-push" = true := by decide

/-! ## (b) defaults -/

/-- the steps of `SetDefaults` in the tree are the ones the model `Cfg.setDefaults` was written for (same fields, same
guards `nil` / `== 0` / `<= 0` / `== ""`, same values — the values are the model's own constants), `boolDefault` keeps a
non-nil pointer, and `New` applies `SetDefaults` before anything else -/
theorem defaults_table :
    defaults = modelledDefaults ∧ boolDefaultBody = modelledBoolDefault ∧ newBody = newModelled := by decide +kernel

/-- the documented defaults are the ones filled in, and a flag left out gives the same value as a field left unset -/
theorem defaults_documented :
    documentedDefaultsHold defaults = true ∧ flagDefaultsAgree flags wiring defaults = true := by decide +kernel

/-- an unset field takes its default (all seventeen defaulted fields) -/
theorem defaults_unset (c : Config) :
    (c.deleteEnabled = none → (setDefaults c).deleteEnabled = some dDeleteEnabled) ∧
    (c.pushEnabled = none → (setDefaults c).pushEnabled = some dPushEnabled) ∧
    (c.blobDelete = none → (setDefaults c).blobDelete = some dBlobDelete) ∧
    (c.referrerEnabled = none → (setDefaults c).referrerEnabled = some dReferrerEnabled) ∧
    (c.readOnly = none → (setDefaults c).readOnly = some dReadOnly) ∧
    (c.gcUntagged = none → (setDefaults c).gcUntagged = some dGcUntagged) ∧
    (c.gcEmptyRepo = none → (setDefaults c).gcEmptyRepo = some dGcEmptyRepo) ∧
    (c.gcDangling = none → (setDefaults c).gcDangling = some dGcDangling) ∧
    (c.gcWithSubj = none → (setDefaults c).gcWithSubj = some dGcWithSubj) ∧
    (c.manifestLimit ≤ 0 → (setDefaults c).manifestLimit = dManifestLimit) ∧
    (c.pageCacheExpire = 0 → (setDefaults c).pageCacheExpire = dPageCacheExpire) ∧
    (c.pageCacheLimit = 0 → (setDefaults c).pageCacheLimit = dPageCacheLimit) ∧
    (c.referrerLimit = 0 → (setDefaults c).referrerLimit = dReferrerLimit) ∧
    (c.gcFrequency = 0 → (setDefaults c).gcFrequency = dGcFrequency) ∧
    (c.gcGrace = 0 → (setDefaults c).gcGrace = dGcGrace) ∧
    (c.repoUploadMax = 0 → (setDefaults c).repoUploadMax = dRepoUploadMax) ∧
    (c.storeType = storeDir → c.rootDir = "" → (setDefaults c).rootDir = dRootDir) :=
  unset_default c

example : (setDefaults {}).pushEnabled = some true ∧ (setDefaults {}).deleteEnabled = some false := by decide

/-- defaulting twice is defaulting once -/
theorem defaults_idem (c : Config) : setDefaults (setDefaults c) = setDefaults c := setDefaults_idem c

/-- an explicitly set value in the documented domain is never replaced: every switch (either value), every number
(non-zero; positive for the manifest limit), a non-empty directory; the store type is never touched -/
theorem explicit_kept (c : Config) (b : Bool) :
    ((c.deleteEnabled = some b → (setDefaults c).deleteEnabled = some b) ∧
     (c.pushEnabled = some b → (setDefaults c).pushEnabled = some b) ∧
     (c.blobDelete = some b → (setDefaults c).blobDelete = some b) ∧
     (c.referrerEnabled = some b → (setDefaults c).referrerEnabled = some b) ∧
     (c.readOnly = some b → (setDefaults c).readOnly = some b) ∧
     (c.gcUntagged = some b → (setDefaults c).gcUntagged = some b) ∧
     (c.gcEmptyRepo = some b → (setDefaults c).gcEmptyRepo = some b) ∧
     (c.gcDangling = some b → (setDefaults c).gcDangling = some b) ∧
     (c.gcWithSubj = some b → (setDefaults c).gcWithSubj = some b)) ∧
    ((0 < c.manifestLimit → (setDefaults c).manifestLimit = c.manifestLimit) ∧
     (c.referrerLimit ≠ 0 → (setDefaults c).referrerLimit = c.referrerLimit) ∧
     (c.gcFrequency ≠ 0 → (setDefaults c).gcFrequency = c.gcFrequency) ∧
     (c.gcGrace ≠ 0 → (setDefaults c).gcGrace = c.gcGrace) ∧
     (c.repoUploadMax ≠ 0 → (setDefaults c).repoUploadMax = c.repoUploadMax)) ∧
    ((c.pageCacheExpire ≠ 0 → (setDefaults c).pageCacheExpire = c.pageCacheExpire) ∧
     (c.pageCacheLimit ≠ 0 → (setDefaults c).pageCacheLimit = c.pageCacheLimit) ∧
     (c.rootDir ≠ "" → (setDefaults c).rootDir = c.rootDir) ∧
     (c.storeType ≠ storeDir → (setDefaults c).rootDir = c.rootDir) ∧
     (setDefaults c).storeType = c.storeType) :=
  ⟨explicit_switch_kept c b, explicit_number_kept c, explicit_other_kept c⟩

example : (setDefaults { pushEnabled := some false, gcFrequency := -1 }).pushEnabled = some false ∧
    (setDefaults { pushEnabled := some false, gcFrequency := -1 }).gcFrequency = -1 := by decide

/-! ## (c) switches -/

/-- **toggling one switch changes the routing outcome exactly for the routes guarded by it**: for every combination
of the four switches, every method and every path class, and every switch `x`: the router (the interpreter of the
regenerated table) hands the request to a handler or answers 4xx directly; the outcomes with `x` on and with `x` off
differ if and only if the (branch, arm) selected with `x` on is guarded by `x`; and when they differ the outcome with
`x` off is a direct 4xx answer (405 or 404). -/
theorem switch_effect (sw : Switches) (m : String) (p : List String) (x : String)
    (hm : m ∈ methods) (hp : p ∈ pathClasses) (hx : x ∈ switchNames) :
    ((route (sw.set x true) m p).isHandler = true ∨ (route (sw.set x true) m p).refused = true) ∧
    ((route (sw.set x false) m p).isHandler = true ∨ (route (sw.set x false) m p).refused = true) ∧
    (route (sw.set x true) m p ≠ route (sw.set x false) m p ↔ guardedBy x routes (sw.set x true) m p = true) ∧
    (guardedBy x routes (sw.set x true) m p = true → (route (sw.set x false) m p).refused = true) := by
  have h : switchEffectHolds routes = true := by decide +kernel
  simp only [switchEffectHolds, List.all_eq_true] at h
  have h' := h sw (mem_allSwitches sw) m hm p hp x hx
  simp only [Bool.and_eq_true, Bool.or_eq_true, beq_iff_eq, Bool.not_eq_true'] at h'
  obtain ⟨⟨⟨h1, h2⟩, h3⟩, h4⟩ := h'
  refine ⟨h1, h2, ?_, ?_⟩
  · unfold route
    constructor
    · intro hne; rw [← h3]; exact decide_eq_true hne
    · intro hg; rw [← h3] at hg; exact of_decide_eq_true hg
  · intro hg
    cases h4 with
    | inl h => rw [hg] at h; cases h
    | inr h => exact h

example : route ⟨true, false, false, true⟩ "Put" ["v2", "r", "manifests", "t"] = .handler "manifestPut(matches[0], matches[1])" ∧
    route ⟨false, false, false, true⟩ "Put" ["v2", "r", "manifests", "t"] = .status "MethodNotAllowed" := by decide +kernel

/-- **each switch has the documented effect and no other** (on routing): for every combination of the switches, every
method and every path class the router's answer is the documented one — the documented handler iff the endpoint
exists and all the switches documented for it are on, and a direct 4xx answer otherwise -/
theorem routes_documented (sw : Switches) (m : String) (p : List String) (hm : m ∈ methods) (hp : p ∈ pathClasses) :
    documentedOutcomeOk sw m p (route sw m p) = true := by
  have h : routesDocumented routes = true := by decide +kernel
  simp only [routesDocumented, List.all_eq_true] at h
  exact h sw (mem_allSwitches sw) m hm p hp

/-- nothing is decided before the routing chain except the nil-store check, the API-version header, the warning
headers and the rate limit block (so no other setting can influence which route is taken) -/
theorem serve_preamble : servePreamble = servePreambleModelled := by decide +kernel

/-! ## (d) rate limit -/

/-! The text of the limiter block is compared with the text `Cfg.RL.step` was written for in `Properties/C19Pins.lean`
(`limiter_shape`): a difference there is not an obligation of the property but the trigger for the deep run of the limiter
correspondence (a rewrite that keeps the behaviour keeps the agreement, whatever it does to the text). -/

/-- **per accounting window**: take any arrival sequence, any start state, any address `a`, and any run `w` of
consecutive requests of `a` in which no request after the first opens a new window (so `w` lies inside one window of
the implementation, possibly all of it): at most `limit` requests of `w` are served.  No assumption on the times. -/
theorem rate_limit_window (limit : Nat) (s : RL.State) (reqs : List (Nat × Int)) (a : Nat) (pre w post : List RL.Ev)
    (h : (RL.run limit s reqs).filter (fun e => e.addr == a) = pre ++ w ++ post)
    (hno : ∀ x ∈ w.tail, x.opened = false) : RL.servedCount w ≤ limit := by
  rw [RL.run_proj] at h
  exact RL.run1_window limit a _ _ pre w post h hno

example : (RL.run 2 RL.init [(1, 0), (1, 5), (2, 6), (1, 7)]).map (·.served) = [true, true, true, false] := by decide +kernel

/-- **what a window is** (times non-decreasing): if `o` opens a window for `a`, `mid` are the following requests of
`a` that stay in it, and `e` is `a`'s next request, then `e` comes no earlier than `o`, `e` is still in the window iff
it comes at most one second after `o` (`now.Sub(first) > time.Second` is strict: exactly one second later is still
inside), and otherwise opens the next window.  Hence all requests of a window lie in the closed second
`[first, first + 1s]` and the windows of one address are disjoint in time. -/
theorem rate_limit_span (limit : Nat) (s : RL.State) (reqs : List (Nat × Int)) (a : Nat) (pre mid post : List RL.Ev)
    (o e : RL.Ev) (hsorted : reqs.Pairwise (fun x y => x.2 ≤ y.2))
    (h : (RL.run limit s reqs).filter (fun e => e.addr == a) = pre ++ o :: (mid ++ e :: post))
    (ho : o.opened = true) (hno : ∀ x ∈ mid, x.opened = false) :
    o.time ≤ e.time ∧ (e.opened = false → e.time - o.time ≤ RL.second) ∧ (e.opened = true → e.time - o.time > RL.second) := by
  rw [RL.run_proj] at h
  have hs := RL.run1_span limit a _ _ pre mid post o e h ho hno
  refine ⟨?_, hs.1, hs.2⟩
  have ht := congrArg (List.map (·.time)) h
  rw [RL.run1_times] at ht
  have hp : ((reqs.filter (fun r => r.1 == a)).map (·.2)).Pairwise (· ≤ ·) := by
    rw [List.pairwise_map]
    exact hsorted.sublist List.filter_sublist
  rw [ht] at hp
  simp only [List.map_append, List.map_cons] at hp
  have hp2 := (List.pairwise_append.mp hp).2.1
  exact List.rel_of_pairwise_cons hp2 (by simp)

/-- **isolation**: two arrival sequences that contain the same requests of address `a` (in the same order) give `a`
the same decisions, whatever the other addresses send and whenever -/
theorem rate_limit_isolated (limit : Nat) (s : RL.State) (reqs reqs' : List (Nat × Int)) (a : Nat)
    (h : reqs.filter (fun r => r.1 == a) = reqs'.filter (fun r => r.1 == a)) :
    (RL.run limit s reqs).filter (fun e => e.addr == a) = (RL.run limit s reqs').filter (fun e => e.addr == a) := by
  rw [RL.run_proj, RL.run_proj, h]

example : (RL.run 1 RL.init [(1, 0), (2, 0), (2, 1), (2, 2), (1, 3)]).filter (fun e => e.addr == 1)
    = (RL.run 1 RL.init [(1, 0), (1, 3)]).filter (fun e => e.addr == 1) := by decide +kernel

/-- **any real second**: a run `seg` of consecutive requests of one address whose time stamps are all within one
second of each other meets at most two accounting windows, so at most `2 * limit` of them are served.  (A fixed
window counter cannot do better than `2 * limit - 1`: see the example — the bound `limit` holds per accounting window,
not per arbitrary real second.) -/
theorem rate_limit_sliding (limit : Nat) (s : RL.State) (reqs : List (Nat × Int)) (a : Nat) (pre seg post : List RL.Ev)
    (h : (RL.run limit s reqs).filter (fun e => e.addr == a) = pre ++ seg ++ post)
    (hspan : ∀ x ∈ seg, ∀ y ∈ seg, y.time - x.time ≤ RL.second) : RL.servedCount seg ≤ 2 * limit := by
  rw [RL.run_proj] at h
  exact RL.run1_sliding limit a _ _ pre seg post h hspan

/-- limit 2: served at 0.0 s and 0.9 s (first window), blocked at 1.0 s (still the first window), served at
1.000000001 s and 1.1 s (second window): three served requests within 0.2 s -/
example : (RL.trace 2 [(1, 0), (1, 900000000), (1, 1000000000), (1, 1000000001), (1, 1100000000)]).map
    (fun e => (e.served, e.opened)) = [(true, true), (true, false), (false, false), (true, true), (true, false)] := by
  decide +kernel

/-- a limit of zero switches the limiter off: everything is served -/
theorem rate_limit_off (reqs : List (Nat × Int)) : ∀ e ∈ RL.trace 0 reqs, e.served = true := by
  intro e he
  simp only [RL.trace, if_true, List.mem_map] at he
  obtain ⟨r, _, hr⟩ := he
  rw [← hr]

/-! ## (e) termination signal -/

/-- `Run`, `Shutdown` and the signal handling of `serve` are the text the transition system `Cfg.LC` was written for -/
theorem lifecycle_shape :
    runBody = runModelled ∧ shutdownBody = shutdownModelled ∧ serveRun = serveRunModelled := by decide +kernel

/-- the parameters of the tree under test: the limiter shares the mutex that `Shutdown` holds iff the names agree;
`Shutdown` leaves `s.stopped` and `Run` honours it (`lifecycle_shape`) -/
def codeParams (limiterOn handler : Bool) : LC.Params :=
  ⟨decide (limiterMutex = shutdownMutex), limiterOn, handler, true⟩

/-- **every interleaving** of {the signal arrives, Run publishes the server, Shutdown, a request} of the handshake as
it is in the tree (`p.remembers`) ends in one of four ways, for every parameter set: (1) clean — `run` returned, the
listener is closed, `s.httpServer` is nil, the store was closed exactly once, the mutex is free; (2) the signal came
before `signal.Notify` was installed and the default disposition killed the process (nothing closed; outside the code's
reach); (3) the signal came during start-up, before `Run` had published its listener: `Shutdown` answered "server is
not running" and left `s.stopped`, `Run` saw it and returned nil, `run` returned — no listener was ever opened, no
request was served, the mutex is free and the store is **still open** (`Shutdown` closes the store only after stopping a
listener; the process ends); this outcome is its own disjunct because `clean` requires the store to be closed once;
(4) **F26b** — only when the limiter is on and shares `Server.mu` (not the case in the tree: `limiterMutex` is
`s.rateMu`): `Shutdown` holds the mutex waiting for a handler that waits for the mutex.
The ending of F26a (server keeps serving, nobody listens for signals) is no longer reachable.
Partial: the statement is about the handshake logic; signal delivery, process exit, the listener and `net/http` are
outside the model. -/
theorem shutdown_ts_partial (p : LC.Params) (hrem : p.remembers = true) (s : LC.St) (hr : LC.Reach p s)
    (ht : LC.terminal p s = true) :
    LC.clean s = true ∨ LC.killedEarly s = true ∨ LC.stoppedBeforeStart s = true ∨
    (LC.deadlocked s = true ∧ p.sharedMu = true ∧ p.limiterOn = true ∧ p.handler = true) := by
  have hall : ∀ p ∈ LC.allParams, LC.certified p = true := by decide +kernel
  have hc := hall p (LC.mem_allParams p hrem)
  simp only [LC.certified, Bool.and_eq_true] at hc
  have hmem := LC.reach_mem p _ hc.1 hr
  have hv := hc.2
  simp only [LC.classifiedOn, List.all_eq_true] at hv
  have := hv s hmem
  simp only [ht, hrem, Bool.not_true, Bool.false_or, Bool.false_and, Bool.and_false, Bool.or_false, Bool.and_true, LC.verdict,
    Bool.or_eq_true, Bool.and_eq_true] at this
  rcases this with ((h | h) | h) | h
  · exact Or.inl h
  · exact Or.inr (Or.inl h)
  · exact Or.inr (Or.inr (Or.inl h))
  · exact Or.inr (Or.inr (Or.inr ⟨h.1.1.1, h.1.1.2, h.1.2, h.2⟩))

/-- **the good case**: if the signal arrives after `Run` has published the server (and after `signal.Notify`), and
the limiter is off or has its own mutex or no request is in flight, every interleaving ends clean -/
theorem shutdown_clean (p : LC.Params) (hrem : p.remembers = true) (s : LC.St) (hr : LC.Reach p s)
    (ht : LC.terminal p s = true) (hsig : LC.get LC.sigAfterPublish s = 1)
    (hp : (p.sharedMu && p.limiterOn && p.handler) = false) : LC.clean s = true := by
  rcases shutdown_ts_partial p hrem s hr ht with h | h | h | h
  · exact h
  · simp only [LC.killedEarly, Bool.and_eq_true, decide_eq_true_eq] at h
    omega
  · simp only [LC.stoppedBeforeStart, Bool.and_eq_true, decide_eq_true_eq] at h
    omega
  · obtain ⟨_, h1, h2, h3⟩ := h
    simp [h1, h2, h3] at hp

/-- **the tree under test never hangs on a termination signal** (handshake level): with the limiter on its own mutex
every interleaving ends clean, stopped before start, or killed before `signal.Notify` -/
theorem shutdown_no_hang (limiterOn handler : Bool) (hmu : limiterMutex ≠ shutdownMutex) (s : LC.St)
    (hr : LC.Reach (codeParams limiterOn handler) s) (ht : LC.terminal (codeParams limiterOn handler) s = true) :
    LC.clean s = true ∨ LC.killedEarly s = true ∨ LC.stoppedBeforeStart s = true := by
  rcases shutdown_ts_partial _ rfl s hr ht with h | h | h | h
  · exact Or.inl h
  · exact Or.inr (Or.inl h)
  · exact Or.inr (Or.inr h)
  · obtain ⟨_, h1, _, _⟩ := h
    simp [codeParams, hmu] at h1

example : limiterMutex ≠ shutdownMutex := by decide +kernel

/-- a clean run exists (signal after publication, request served, limiter sharing the mutex) -/
example : ∃ s, LC.Reach ⟨true, true, true, true⟩ s ∧ LC.terminal ⟨true, true, true, true⟩ s = true ∧ LC.clean s = true ∧
    LC.get LC.sigAfterPublish s = 1 := by
  refine ⟨_, LC.exec_reach _ [0, 0, 0, 0, 0, 0, 0, 0, 0, 0, 0, 0, 0, 0, 0, 0, 0, 0, 0, 0, 0] _ _ LC.Reach.init rfl, ?_, ?_, ?_⟩ <;>
    decide +kernel

/-- **the schedule of F26a now ends benignly**: Notify, signal, Shutdown (not running, leaves `s.stopped`), cancel,
close — then Run takes the mutex, sees `s.stopped`, returns nil and `run` returns: the process ends, no listener was
opened, the store is still open -/
theorem f26a_witness : ∃ s, LC.Reach ⟨true, false, false, true⟩ s ∧ LC.terminal ⟨true, false, false, true⟩ s = true ∧
    LC.stoppedBeforeStart s = true ∧ LC.stuckServing s = false := by
  refine ⟨_, LC.exec_reach _ [1, 1, 1, 1, 0, 0, 0, 0, 0] _ _ LC.Reach.init rfl, ?_, ?_, ?_⟩ <;> decide +kernel

/-- the handshake **before** `s.stopped` (`remembers = false`) was stuck on that schedule: after the failed Shutdown,
Run published, listened, and nothing could stop it (F26a as it was found) -/
theorem f26a_old_handshake_stuck : ∃ s, LC.Reach ⟨true, false, false, false⟩ s ∧
    LC.terminal ⟨true, false, false, false⟩ s = true ∧ LC.stuckServing s = true := by
  refine ⟨_, LC.exec_reach _ [1, 1, 1, 1, 0, 0, 0, 0, 0, 0] _ _ LC.Reach.init rfl, ?_, ?_⟩ <;> decide +kernel

/-- **F26b is reachable** when the limiter shares `Server.mu`: a request is accepted, the signal's `Shutdown` takes the
mutex and waits for the request, the request waits for the mutex -/
theorem f26b_witness : ∃ s, LC.Reach ⟨true, true, true, true⟩ s ∧ LC.terminal ⟨true, true, true, true⟩ s = true ∧
    LC.deadlocked s = true := by
  refine ⟨_, LC.exec_reach _ [0, 0, 0, 0, 0, 0, 1, 0, 0, 0, 0] _ _ LC.Reach.init rfl, ?_, ?_⟩ <;> decide +kernel

end C19
