import Upd.IngestProofs
/-!
# C17 — fallback-tag referrers are converted without loss, repeatably

Model: `Upd.ingest nm order x` (Upd/Ingest.lean) — `indexIngest` of internal/store/store.go with `indexValidReferrer`,
`referrerListDedup`, `repoGetIndex`, over the `types.Index` model `Upd.Index`, as called by `memRepo.repoInit` and
`dirRepo.indexLoad`; it mirrors the code with the repairs F21 (lock, invisible here), F23 (an adopted fallback index is
remembered), F30 (an existing response blob is not an error) and F34 (the child scan starts from the converted list).  `nm` is the digest of a regenerated response
document, `order` the order in which Go iterates over the map `addResp`.  The model is tied to the code by the
`ingest` correspondence profile (harness/inpkg/store/ingest_harness_test.go, lean/Drivers/IngestMain.lean).

What the statements talk about (Upd/IngestLemmas.lean, Upd/IngestProofs.lean):
* `HasTag ix t g` — tag `t` names digest `g`; `HasResp ix S g` — the referrers API answers subject `S` from blob `g`
  (an entry with the annotation `org.olareg.referrer.subject = S`); `Listed ix g` — `g` is listed at top level;
* `content bs g` — the manifests of index blob `g`; `subjOf bs m` — the subject that the present manifest `m` names;
* `ObsEq a b` — equal converted flag, tags, responses, listed digests and blob look-ups;
* `persist` — what `indexSave` followed by a load keeps (children are not stored, an emptied annotation map is nil).

Domain.  A layout `x` as `indexIngest` receives it: freshly parsed (`x.index.children = []`), the empty string is not
the digest of a blob.  `NoBoth`: no index.json entry is a tag and a referrers response at once — every index that
`types.Index.AddDesc` builds satisfies it (C18) and fallback-tag clients do not write the response annotation at all.
-/
namespace C17
open Upd

/-! ## the conversion keeps everything else, and marks the layout -/

/-- **convert_keeps.** For every map order and every layout that is not yet marked as converted: the result is
    marked as converted; every entry that carries a tag which is not a fallback tag is still there, unchanged;
    the digest of every entry that is not itself a referrers response (untagged manifests, tagged manifests, the
    fallback indexes themselves) is still listed; every blob is still there with its content. -/
theorem convert_keeps (nm : List Desc → String) (order : List (String × List Desc) → List (String × List Desc))
    (horder : ∀ l, (order l).Perm l) (x : IState) (hc : x.converted = false)
    (hnb : NoBoth x.index.manifests) (hch : x.index.children = []) (hne : lookup x.blobs "" = none) :
    (ingest nm order x).converted = true ∧
    (∀ e ∈ x.index.manifests, e.ann.isNil = false → e.ann.tag ≠ "" → isFallbackTag e.ann.tag = false →
        e ∈ (ingest nm order x).index.manifests) ∧
    (∀ e ∈ x.index.manifests, (e.ann.isNil = true ∨ e.ann.subj = "") → Listed (ingest nm order x).index e.dig) ∧
    (∀ g n, lookup x.blobs g = some n → lookup (ingest nm order x).blobs g = some n) :=
  convert_keeps_main nm order horder x hc hnb hch hne

/-- a layout with an untagged artifact `m1` of subject `S1`, a tagged image `m2`, and a fallback tag whose index
    lists `m1` with a stale size -/
def sample : IState :=
  { index := { manifests := [ { mt := "ocim", dig := "m1" },
                              { mt := "ocim", dig := "m2", ann := { isNil := false, tag := "v1" } },
                              { mt := "ocii", dig := "T", ann := { isNil := false, tag := "fbS1" } } ] },
    blobs := [ ("m1", .man "S1" "ocim" (some "cfg") "" "" 10 none),
               ("m2", .man "" "ocim" (some "cfg") "" "" 11 none),
               ("T", .idx [ { mt := "ocim", dig := "m1", size := 9, atype := "cfg" } ]) ] }

/-- the hypotheses of `convert_keeps` are satisfiable, and on `sample` the conversion has work to do: one fallback
    tag is examined, its index is stale, one response is regenerated and the tag is removed -/
example : sample.converted = false ∧ NoBoth sample.index.manifests ∧ sample.index.children = [] ∧
    lookup sample.blobs "" = none ∧ (pass1 sample.index.manifests).digestTags.length = 1 ∧
    (phase1 sample).addResp.length = 1 ∧ (phase1 sample).rm.length = 1 := by
  refine ⟨rfl, ?_, rfl, rfl, by decide, by decide, by decide⟩
  unfold NoBoth; decide

/-! ## exactly the referrers of the fallback indexes -/

/-- **convert_exact_partial.** After the conversion the referrers API lists manifest `m` for subject `S` iff
    the response that index.json recorded for `S` before listed `m`, or some fallback-tagged index lists `m` and
    `m` is a present manifest whose subject is `S` — whatever the name of the fallback tag says, whatever else the
    index lists, however stale its descriptors are.

    Excluded (hence `_partial`): layouts in which an entry is a tag and a response at once (`NoBoth`); in which a
    response entry has another media type than the OCI index or one subject has two responses with different
    digests (`RespWF`) — no writer produces these, `AddDesc` keeps both invariants; and layouts in which the blob of
    a recorded response is missing (`hrp`).  `hcas` and `hnm` are the content-addressing assumptions: a blob whose
    digest is that of an index document is that document, and the digest function does not collide on the
    documents this conversion writes (`Function.Injective nm` suffices). -/
theorem convert_exact_partial (nm : List Desc → String) (order : List (String × List Desc) → List (String × List Desc))
    (horder : ∀ l, (order l).Perm l) (x : IState) (hc : x.converted = false)
    (hnb : NoBoth x.index.manifests) (hch : x.index.children = []) (hne : lookup x.blobs "" = none)
    (hwf : RespWF x.index.manifests)
    (hrp : ∀ e ∈ x.index.manifests, e.ann.isNil = false → e.ann.subj ≠ "" → (lookup x.blobs e.dig).isSome = true)
    (hcas : ∀ ds n, lookup x.blobs (nm ds) = some n → n = .idx ds) (hnm : NoCollision nm x)
    (S m : String) (hS : S ≠ "") :
    (∃ g, HasResp (ingest nm order x).index S g ∧ ∃ d ∈ content (ingest nm order x).blobs g, d.dig = m) ↔
      ((∃ r ∈ x.index.manifests, r.ann.isNil = false ∧ r.ann.subj = S ∧ ∃ d ∈ content x.blobs r.dig, d.dig = m) ∨
       (∃ T ∈ x.index.manifests, T.mt = "ocii" ∧ T.ann.isNil = false ∧ isFallbackTag T.ann.tag = true ∧
          ∃ d ∈ content x.blobs T.dig, d.dig = m ∧ subjOf x.blobs m = some S)) := by
  have hrp' : RespPresent x.blobs (pass1 x.index.manifests).respOf := by
    intro S' r hr
    obtain ⟨hrm, _, hrn, hrs, hS'⟩ := (pass1_respOf x.index.manifests S').1 r hr
    exact hrp r hrm hrn (by rw [hrs]; exact hS')
  rw [convert_exact_main nm order horder x hc hnb hch hne hrp' hwf hcas hnm S m hS]
  have hold : (∃ d ∈ oldContent x.blobs (pass1 x.index.manifests).respOf S, d.dig = m) ↔
      (∃ r ∈ x.index.manifests, r.ann.isNil = false ∧ r.ann.subj = S ∧ ∃ d ∈ content x.blobs r.dig, d.dig = m) := by
    obtain ⟨p1, p2⟩ := pass1_respOf x.index.manifests S
    rw [oldContent_eq]
    constructor
    · rintro ⟨d, hd, hm⟩
      cases hr : lookupResp (pass1 x.index.manifests).respOf S with
      | none => rw [hr] at hd; cases hd
      | some r =>
        rw [hr] at hd
        obtain ⟨hrm, _, hrn, hrs, _⟩ := p1 r hr
        exact ⟨r, hrm, hrn, hrs, d, hd, hm⟩
    · rintro ⟨r, hrm, hrn, hrs, d, hd, hm⟩
      have hresp : isResp r S := ⟨hwf.1 r hrm hrn (by rw [hrs]; exact hS), hrn, hrs, hS⟩
      obtain ⟨r', hr'⟩ := p2 ⟨r, hrm, hresp⟩
      obtain ⟨hrm', _, hrn', hrs', _⟩ := p1 r' hr'
      have hdig : r'.dig = r.dig := hwf.2 r' hrm' r hrm hrn' hrn (by rw [hrs']; exact hS) (by rw [hrs', hrs])
      rw [hr']
      exact ⟨d, by simp only; rw [hdig]; exact hd, hm⟩
  have hcon : Contrib x.blobs (pass1 x.index.manifests).digestTags S m ↔
      (∃ T ∈ x.index.manifests, T.mt = "ocii" ∧ T.ann.isNil = false ∧ isFallbackTag T.ann.tag = true ∧
          ∃ d ∈ content x.blobs T.dig, d.dig = m ∧ subjOf x.blobs m = some S) := by
    unfold Contrib
    constructor
    · rintro ⟨T, hT, h⟩
      obtain ⟨h1, h2, h3, h4⟩ := (pass1_digestTags _ T).mp hT
      exact ⟨T, h1, h2, h3, h4, h⟩
    · rintro ⟨T, h1, h2, h3, h4, h⟩
      exact ⟨T, (pass1_digestTags _ T).mpr ⟨h1, h2, h3, h4⟩, h⟩
  rw [hold, hcon]

/-- the hypotheses of `convert_exact_partial` are satisfiable (with the structural digest function of the
    driver), and for `sample` the right-hand side holds for `S1`, `m1`: the theorem says `m1` is listed -/
example : RespWF sample.index.manifests ∧
    (∀ e ∈ sample.index.manifests, e.ann.isNil = false → e.ann.subj ≠ "" → (lookup sample.blobs e.dig).isSome = true) ∧
    NoCollision idxName sample ∧
    (∃ T ∈ sample.index.manifests, T.mt = "ocii" ∧ T.ann.isNil = false ∧ isFallbackTag T.ann.tag = true ∧
        ∃ d ∈ content sample.blobs T.dig, d.dig = "m1" ∧ subjOf sample.blobs "m1" = some "S1") := by
  refine ⟨by unfold RespWF; decide, by decide, ?_, ?_⟩
  · -- one document is written, so there is nothing to collide with
    rintro l l' ⟨kv, hkv, rfl⟩ ⟨kv', hkv', rfl⟩ _
    have h1 : (phase1 sample).addResp.length = 1 := by decide
    match hl : (phase1 sample).addResp, h1 with
    | [a], _ =>
      rw [hl] at hkv hkv'
      simp only [List.mem_singleton] at hkv hkv'
      rw [hkv, hkv']
  · exact ⟨{ mt := "ocii", dig := "T", ann := { isNil := false, tag := "fbS1" } }, by decide, rfl, rfl, by decide,
      { mt := "ocim", dig := "m1", size := 9, atype := "cfg" }, by decide, rfl, by decide⟩

/-! ## repeating the conversion -/

/-- **convert_idem.** Saving the converted index, loading it again and running `indexIngest` on it — with any
    digest function and any map order, for every layout — changes nothing observable: the same tags, the same
    responses, the same listed digests, the same blobs, still marked as converted. -/
theorem convert_idem (nm nm' : List Desc → String) (order order' : List (String × List Desc) → List (String × List Desc))
    (x : IState) : ObsEq (ingest nm' order' (persist (ingest nm order x))) (ingest nm order x) :=
  convert_idem_main nm nm' order order' x

/-- **convert_idem_children.** … and the same child records: what `GetDesc` finds among the children of listed
    indexes right after the conversion is what it finds after the saved index has been loaded again (the repaired
    `indexIngest` scans the manifests as listed after the conversion, patches/F34-*; before that repair children of
    a regenerated response could be missing until the next restart). -/
theorem convert_idem_children (nm nm' : List Desc → String)
    (order order' : List (String × List Desc) → List (String × List Desc)) (horder : ∀ l, (order l).Perm l)
    (x : IState) (hnb : NoBoth x.index.manifests) (hch : x.index.children = []) (hne : lookup x.blobs "" = none) :
    (ingest nm' order' (persist (ingest nm order x))).index.children = (ingest nm order x).index.children :=
  convert_idem_children_main nm nm' order order' horder x hnb hch hne

/-- the second run sees a layout that is marked as converted, whatever the first one started from -/
example (x : IState) : (persist (ingest idxName id x)).converted = true := ingest_converted_true idxName id x

/-- **convert_interrupted_partial.** A conversion that is interrupted after it has written some of its response
    blobs (`pre`) and before it has saved index.json leaves the old index.json next to the blobs `x.blobs ++ pre`.
    Converting that layout — with any map order — gives exactly what the uninterrupted conversion of `x` gives.
    (After index.json has been saved the layout is marked as converted: that case is `convert_idem`.  Temporary
    files of the interrupted run are not blobs and not part of the model; the harness leaves some behind.)

    Excluded (hence `_partial`): as for `convert_order_indep_partial`, and layouts that mention — at top level or
    inside an index blob — the digest of a response the conversion is going to write although no such blob exists
    yet (`hfresh`): for such a layout the blob written before the interruption would be read by the second run
    but was not there for the first. -/
theorem convert_interrupted_partial (nm : List Desc → String)
    (order order' : List (String × List Desc) → List (String × List Desc))
    (horder : ∀ l, (order l).Perm l) (horder' : ∀ l, (order' l).Perm l) (x : IState) (hc : x.converted = false)
    (hnb : NoBoth x.index.manifests) (hch : x.index.children = []) (hne : lookup x.blobs "" = none)
    (hrp : ∀ e ∈ x.index.manifests, e.ann.isNil = false → e.ann.subj ≠ "" → (lookup x.blobs e.dig).isSome = true)
    (hcas : ∀ ds n, lookup x.blobs (nm ds) = some n → n = .idx ds) (hnm : NoCollision nm x)
    (pre : List (String × INode))
    (hpre : ∀ kv ∈ pre, ∃ l, Written x l ∧ kv = (nm l, INode.idx l))
    (hfresh : ∀ kv ∈ pre, Mentioned x kv.1 → (lookup x.blobs kv.1).isSome = true) :
    ObsEq (ingest nm order' { x with blobs := x.blobs ++ pre }) (ingest nm order x) := by
  have hrp' : RespPresent x.blobs (pass1 x.index.manifests).respOf := by
    intro S' r hr
    obtain ⟨hrm, _, hrn, hrs, hS'⟩ := (pass1_respOf x.index.manifests S').1 r hr
    exact hrp r hrm hrn (by rw [hrs]; exact hS')
  exact convert_interrupted_main nm order order' horder horder' x hc hnb hch hne hrp' hnm hcas pre hpre hfresh

/-- the hypotheses are satisfiable with a non-empty `pre`: the one response that the conversion of `sample` writes,
    under a digest "N" that the layout does not mention -/
example : ∃ pre : List (String × INode), pre ≠ [] ∧
    (∀ kv ∈ pre, ∃ l, Written sample l ∧ kv = ((fun _ => "N") l, INode.idx l)) ∧
    (∀ kv ∈ pre, Mentioned sample kv.1 → (lookup sample.blobs kv.1).isSome = true) ∧
    (∀ ds n, lookup sample.blobs ((fun _ => "N") ds) = some n → n = .idx ds) := by
  have h1 : (phase1 sample).addResp.length = 1 := by decide
  match hl : (phase1 sample).addResp, h1 with
  | [a], _ =>
    refine ⟨[("N", .idx (regenList sample.blobs (phase1 sample).respOf a))], by simp, ?_, ?_, ?_⟩
    · intro kv hkv
      simp only [List.mem_singleton] at hkv
      exact ⟨_, ⟨a, by rw [hl]; simp, rfl⟩, hkv⟩
    · intro kv hkv hm
      simp only [List.mem_singleton] at hkv
      subst hkv
      exfalso
      have hN1 : ∀ e ∈ sample.index.manifests, e.dig ≠ "N" := by decide
      have hN2 : "N" ∉ listed sample.blobs := by decide
      rcases hm with ⟨e, he, hd⟩ | hm
      · exact hN1 e he hd
      · exact hN2 hm
    · intro ds n h
      have hN3 : lookup sample.blobs "N" = none := by rfl
      simp only at h
      rw [hN3] at h; cases h

/-! ## the iteration order of the Go map does not matter -/

/-- **convert_order_indep_partial.** For any two orders in which Go may iterate over `addResp` the results agree
    on everything observable: converted flag, tags, responses, listed digests, blobs.  (The raw entry lists do
    differ: the order decides which entry a swap-remove moves and thereby whether an additional untagged entry of
    a digest that is listed anyway survives.  The child records are not part of `ObsEq`: the child scan follows
    the order of the entries, and when index blobs list one digest both with an index and with a non-index media
    type that order decides which descriptor is recorded and whether its children are.)

    Excluded (hence `_partial`): layouts violating `NoBoth`, and layouts in which the blob of a recorded response
    is missing (`hrp`) — if that digest happened to be the digest of a response regenerated for another subject,
    its content would be merged or not depending on the order. `hnm` as in `convert_exact_partial`. -/
theorem convert_order_indep_partial (nm : List Desc → String)
    (order order' : List (String × List Desc) → List (String × List Desc))
    (horder : ∀ l, (order l).Perm l) (horder' : ∀ l, (order' l).Perm l) (x : IState)
    (hnb : NoBoth x.index.manifests) (hch : x.index.children = []) (hne : lookup x.blobs "" = none)
    (hrp : ∀ e ∈ x.index.manifests, e.ann.isNil = false → e.ann.subj ≠ "" → (lookup x.blobs e.dig).isSome = true)
    (hnm : NoCollision nm x) :
    ObsEq (ingest nm order x) (ingest nm order' x) := by
  have hrp' : RespPresent x.blobs (pass1 x.index.manifests).respOf := by
    intro S' r hr
    obtain ⟨hrm, _, hrn, hrs, hS'⟩ := (pass1_respOf x.index.manifests S').1 r hr
    exact hrp r hrm hrn (by rw [hrs]; exact hS')
  exact convert_order_indep_main nm order order' horder horder' x hnb hch hne hrp' hnm

/-- two different orders exist -/
example : (∀ l : List (String × List Desc), (id l).Perm l) ∧ (∀ l : List (String × List Desc), (List.reverse l).Perm l) ∧
    (List.reverse [("S1", ([] : List Desc)), ("S2", [])] ≠ id [("S1", ([] : List Desc)), ("S2", [])]) :=
  ⟨fun _ => List.Perm.refl _, fun l => List.reverse_perm l, by decide⟩

/-! ## termination -/

/-- **ingest_terminates.** The child scan `for len(scanChildren) > 0 { … }` terminates on every repository: the
    relation "one iteration leads from `a` to `a'`" is well-founded, because every iteration decreases
    `scanMeasure = 2 · #(digests listed by index blobs and not yet seen) + len(scanChildren)`
    (`Upd.scanIter_decreases`).  `Upd.childScan` is defined by recursion on that measure, without fuel; the other
    loops of `indexIngest` range over finite slices and maps, and `referrerListDedup` is `Upd.dedupGo`, defined by
    recursion on `len(rl) - i`.  (The locks are not part of this model: the self-deadlock F21 is found by the
    `ingest-hangs` monitor.) -/
theorem ingest_terminates (bs : List (String × INode)) :
    WellFounded (fun (a' a : Scan) => scanIter bs a = some a') := by
  apply Subrelation.wf (r := InvImage (· < ·) (scanMeasure bs))
  · intro a' a h; exact scanIter_decreases bs a a' h
  · exact InvImage.wf _ Nat.lt_wfRel.wf

/-- … and `childScan` is that loop run to its end: the scan list of its result is empty -/
theorem childScan_ends (bs : List (String × INode)) (a : Scan) : scanIter bs (childScan bs a) = none := by
  fun_induction childScan bs a with
  | case1 a h => exact h
  | case2 a a' _ ih => exact ih

/-- the loop does run: scanning an index with one unseen child takes an iteration and records the child -/
example : scanIter [("I", .idx [{ mt := "ocim", dig := "c" }])] { queue := [{ mt := "ocii", dig := "I" }], seen := ["I"] } =
    some { queue := [], seen := ["c", "I"], children := [{ mt := "ocim", dig := "c" }] } := by rfl
end C17
