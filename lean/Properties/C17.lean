import Upd.Ingest
/-!
# C17 — fallback-tag referrers are converted without loss, repeatably
(work in progress)
-/
namespace C17
open Upd

/-- the child scan terminates: every iteration of `for len(scanChildren) > 0` decreases
    `2 · #(listed digests not yet seen) + len(scanChildren)` -/
theorem ingest_terminates (bs : List (String × INode)) :
    WellFounded (fun (a' a : Scan) => scanIter bs a = some a') := by
  apply Subrelation.wf (r := InvImage (· < ·) (scanMeasure bs))
  · intro a' a h; exact scanIter_decreases bs a a' h
  · exact InvImage.wf _ Nat.lt_wfRel.wf
end C17
