import Upd.StatusProofs
import Upd.ReadOKHist
/-!
# C15 (continued) — the closed table of status codes, unreachable 500 branches, error codes only on errors

Model: `Upd.step` (every handler behind the dispatch of `ServeHTTP`) and `Upd.stepRaw` (the raw request line).
`Upd.Good allowed x` = the status of answer `x` is one of `allowed`, and `x` carries an error code only with a
status ≥ 400.  The only handler with a 500 in its table is the manifest GET; `manifest_get_500_iff` says exactly
when, and `manifest_get_no_5xx_partial` excludes it for every repository that satisfies `Upd.ReadOK`.
Tie: monitors `C15.5xx`, `C15.error-code`, `C15.code-for-condition` on all HTTP profiles and `raw`.
-/
namespace C15b
open Upd

/-- completing an upload by PUT answers 201, 400 or 416 in every state: the 500 branch (a `Close` that fails after a
    successful `Verify`) cannot be reached, because the verified digest is the one `Close` compares -/
theorem upload_put_no_5xx (s : State) (r : String) (pub : Nat) (q : Q) :
    Good [201, 400, 416] (uPut s r pub q).2 ∧ (uPut s r pub q).2.status ≠ 500 :=
  ⟨uPut_good s r pub q, uPut_no_5xx s r pub q⟩

/-- starting an upload (mount, monolithic or session) answers 201, 202 or 400 in every state: none of its three 500
    branches can be reached -/
theorem upload_post_no_5xx (s : State) (r : String) (q : Q) :
    Good [201, 202, 400] (uPost s r q).2 ∧ (uPost s r q).2.status ≠ 500 :=
  ⟨uPost_good s r q, uPost_no_5xx s r q⟩

example : Good [201, 202, 400] (uPost {} "r" {}).2 := uPost_good _ _ _

/-- the fact behind both: after `Verify` succeeded for a digest, `Close` succeeds -/
theorem close_after_verify (s : State) (r : String) (u : Upload) (d : Dig) (hok : (u.verify d).2 = true) :
    (closeUpload s r (u.verify d).1).2 = true := closeUpload_verified s r u d hok

example : (({ key := 1, alg := .sha256, expect := none, buf := "ab", hashed := "ab" } : Upload).verify ⟨.sha256, "ab"⟩).2 = true := by
  decide

/-- the table per handler -/
theorem handler_tables (s : State) (r : String) :
    (∀ pub q, Good [202, 400, 416] (uPatch s r pub q).2) ∧
    (∀ pub, Good [204, 400] (uGet s r pub).2) ∧
    (∀ pub, Good [202, 400] (uDel s r pub).2) ∧
    (∀ arg hd rng, Good [200, 206, 400, 404, 416] (bGet s r arg hd rng).2) ∧
    (∀ arg, Good [202, 400, 404] (bDel s r arg).2) ∧
    (∀ ref ct qd b lk, Good [201, 400, 413] (mPut s r ref ct qd b lk).2) ∧
    (∀ arg acc hd rng, Good [200, 206, 404, 416, 500] (mGet s r arg acc hd rng).2) ∧
    (∀ arg, Good [202, 404] (mDel s r arg).2) ∧
    (∀ n last, Good [200] (tags s r n last).2) ∧
    (∀ arg f c p, Good [200, 400] (refs s r arg f c p).2) :=
  ⟨uPatch_good s r, uGet_good s r, uDel_good s r, bGet_good s r, bDel_good s r, mPut_good s r, mGet_good s r,
   mDel_good s r, tags_good s r, refs_good s r⟩

/-- every request, in every state and configuration, is answered with a status of the closed table, and an error
    code appears only with a status ≥ 400 -/
theorem step_status_table (s : State) (q : Req) :
    (step s q).2.status ∈ [200, 201, 202, 204, 206, 400, 403, 404, 405, 413, 416, 500] ∧
    ((step s q).2.code ≠ "" → 400 ≤ (step s q).2.status) := step_good s q

/-- … likewise for a raw request line: the router itself only answers 200 (the API root), 404 or 405 -/
theorem raw_status_table (s : State) (method path : String) :
    (stepRaw s method path).2.status ∈ [200, 201, 202, 204, 206, 400, 403, 404, 405, 413, 416, 500] ∧
    ((stepRaw s method path).2.code ≠ "" → 400 ≤ (stepRaw s method path).2.status) ∧
    (∀ st, routeRaw s.conf method path = .inr st → st = 200 ∨ st = 404 ∨ st = 405) :=
  ⟨(stepRaw_good s method path).1, (stepRaw_good s method path).2, fun st h => routeRaw_status _ _ _ st h⟩

/-- a manifest GET answers 500 exactly when the descriptor it settles on (the one looked up, or the acceptable child
    of a tagged index) has a digest that does not parse, or the tagged index it has to open does not parse -/
theorem manifest_get_500_iff (s : State) (r arg : String) (accept : List String) (head : Bool) (rng : String) :
    (mGet s r arg accept head rng).2.status = 500 ↔
      ∃ desc, getDesc (s.repo r).index arg = some desc ∧
        (pickOf s (s.repo r) arg accept desc = .serverError ∨
         ∃ d, pickOf s (s.repo r) arg accept desc = .found d ∧ parses d.dig = false) :=
  mGet_500_iff s r arg accept head rng

/-- the server-error choice: only for a tag that names an index whose media type is not accepted, when the digest of
    the index does not parse or its stored content does not parse as an index -/
theorem server_error_iff (s : State) (rp : Repo) (arg : String) (accept : List String) (desc : Desc) :
    pickOf s rp arg accept desc = .serverError ↔
      accept.contains desc.mt = false ∧ accept.isEmpty = false ∧ isIndexMT desc.mt = true ∧ isTag arg = true ∧
      (parses desc.dig = false ∨
       ∃ dg content, DigArg.parse desc.dig = .ok dg ∧ rp.blob dg = some content ∧ (s.body content).asIndex = none) :=
  pickOf_serverError_iff s rp arg accept desc

/-- partial: no 500 from a manifest GET on a repository in which every listed digest parses and every tagged index
    whose blob is present parses as an index with parsable child digests (`Upd.ReadOK`). -/
theorem manifest_get_no_5xx_partial (s : State) (r arg : String) (accept : List String) (head : Bool) (rng : String)
    (hok : ReadOK s (s.repo r)) : (mGet s r arg accept head rng).2.status ≠ 500 :=
  mGet_no_5xx_of_readOK s r arg accept head rng hok

-- the empty repository satisfies the hypothesis
example : ReadOK {} (({} : State).repo "r") where
  digs := fun e he => by cases he
  opens := fun e he => by cases he

/-- partial: in every state reached by any history of requests and body definitions, under any configuration, no
    manifest GET answers 500 — provided every pushed manifest body name `b` satisfies `RT ⟨alg, b⟩` (its digest string
    parses back to the digest: `Upd.Rb.AdmEv`) and so do the names of referrers responses (`hresp`).  These two are
    facts about `String.splitOn ":"` / `":".intercalate` on the symbolic content names of the model (`@…`, `R(…)`);
    core has no lemmas about `String.splitOn` and the kernel cannot evaluate it, so they stay hypotheses.
    What is proved: the invariant `Upd.Rb.RI` (every listed digest parses; every tagged index entry names a defined
    body that opens as an index with parsable children; every registered referrers descriptor parses) is established
    by every push (`validateIndex` checked exactly this) and kept by `AddDesc`/`RmDesc`, the referrers bookkeeping and
    every other handler. -/
theorem manifest_get_no_5xx_reachable_partial (conf : Conf) (hist : List Ev)
    (hadm : ∀ e ∈ hist, Upd.Rb.AdmEv e) (hresp : ∀ ds, Upd.Rb.RT ⟨.sha256, respName ds⟩)
    (r arg : String) (accept : List String) (head : Bool) (rng : String) :
    (mGet (hist.foldl stepEv { conf := conf }) r arg accept head rng).2.status ≠ 500 :=
  Upd.Rb.mGet_no_5xx_reachable conf hist hadm hresp r arg accept head rng

-- histories without manifest pushes are admissible whatever else they contain
example : ∀ e ∈ [Ev.req (.tags "r" "" ""), Ev.defBody "@i" {}, Ev.req (.bDel "r" "sha256:x")], Upd.Rb.AdmEv e := by
  intro e he
  simp only [List.mem_cons, List.mem_nil_iff, or_false] at he
  rcases he with rfl | rfl | rfl <;> exact True.intro
end C15b
