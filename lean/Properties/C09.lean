import Fs
/-!
# C09 - a crash at any file-system step loses nothing acknowledged and tears nothing

Model: `Fs/Basic.lean` (files under the store root, the seven `os` calls of `internal/store/dir.go`, the state a
restarted server finds when the process dies before call `k` or inside it after `cut` bytes: `crashAt k cut ops d`),
`Fs/Store.lean` (the store-level steps and the exact call list of each), `Fs/Request.lean` (the steps of every request
kind as a function of the facts the code branches on), `Fs/Recover.lean` (`recover`, `DiskOK`).

Tie to the code: for every request of the crash histories the recorded FS-shim trace must equal the call list
`Drivers/FsMain.lean` prints from the same builders (`bin/check C09`).

All theorems quantify over *every* crash point `k` and *every* cut.  Assumed, not modelled: atomic `rename`,
prefix-closed `write`, fresh names from `CreateTemp`; loss of un-synced pages (power failure) is outside the claim.
-/
namespace C09
open Fs

/-- **index.json is saved atomically.**  At every crash point of an index save, `index.json` holds either its old
bytes or the complete new bytes - never a torn file: the bytes go to a temporary name that is renamed (the code
renames before it closes the handle; all bytes have been written by then).  Nothing else a recovery reads changes. -/
theorem indexSave_atomic (r n : Nat) (b : Bytes) (d : Disk) (k : Nat) (cut : Option Nat) :
    (crashAt k cut (Step.isave r n b).ops d (.index r) = d (.index r) ∨
      crashAt k cut (Step.isave r n b).ops d (.index r) = some b) ∧
    ∀ q : Path, q.isTemp = false → q ≠ .index r → crashAt k cut (Step.isave r n b).ops d q = d q := by
  have h := crash_of_crashAt k cut (Step.isave r n b).ops d
  rcases step_crash _ h with ha | ha | ⟨_, _, _, he, _⟩
  · exact ⟨Or.inl (ha _ rfl), fun q hq _ => ha q hq⟩
  · have hr := run_step_agree (Step.isave r n b) d
    refine ⟨Or.inr ?_, fun q hq hne => ?_⟩
    · rw [ha _ rfl, hr _ rfl]; simp [Step.eff]
    · rw [ha q hq, hr q hq]; simp only [Step.eff]; exact Disk.set_other _ _ hne
  · cases he

example : crashAt 3 none (Step.isave 0 7 [1, 2]).ops empty (.index 0) = some [1, 2] := by decide
example : crashAt 1 (some 1) (Step.isave 0 7 [1, 2]).ops empty (.index 0) = none := by decide

/-- **A blob is committed atomically.**  `dirRepoUpload.Close` at every crash point: the final name
`blobs/<alg>/<hex>` holds what it held before (normally: does not exist) or the complete bytes of the session -
the upload is written under `_uploads/` and renamed after `Verify`.  Nothing else a recovery reads changes. -/
theorem blobCommit_atomic (r n a x : Nat) (mk : Bool) (content : Bytes) (d : Disk)
    (hu : d (.upload r n) = some content) (k : Nat) (cut : Option Nat) :
    (crashAt k cut (Step.commit r n a x mk).ops d (.blob r a x) = d (.blob r a x) ∨
      crashAt k cut (Step.commit r n a x mk).ops d (.blob r a x) = some content) ∧
    ∀ q : Path, q.isTemp = false → q ≠ .blob r a x → crashAt k cut (Step.commit r n a x mk).ops d q = d q := by
  have h := crash_of_crashAt k cut (Step.commit r n a x mk).ops d
  rcases step_crash _ h with ha | ha | ⟨_, _, _, he, _⟩
  · exact ⟨Or.inl (ha _ rfl), fun q hq _ => ha q hq⟩
  · have hr := run_step_agree (Step.commit r n a x mk) d
    refine ⟨Or.inr ?_, fun q hq hne => ?_⟩
    · rw [ha _ rfl, hr _ rfl]; simp [Step.eff, hu]
    · rw [ha q hq, hr q hq]; simp only [Step.eff, hu]; exact Disk.set_other _ _ hne
  · cases he

example : crashAt 2 none (Step.commit 0 1 0 5 true).ops (empty.set (.upload 0 1) (some [9])) (.blob 0 0 5) = none := by decide
example : crashAt 3 none (Step.commit 0 1 0 5 true).ops (empty.set (.upload 0 1) (some [9])) (.blob 0 0 5) = some [9] := by decide

/-- the same for a blob pushed through a session of its own (manifest bodies, referrers responses, monolithic
uploads): create, write (possibly cut short), close, rename -/
theorem blobPush_atomic (r : Nat) (haveUploads haveAlgDir : Bool) (nu a x : Nat) (b : Bytes) (d : Disk)
    (k : Nat) (cut : Option Nat) :
    (crashAt k cut (stepsOps (blobPush r haveUploads haveAlgDir nu a x b)) d (.blob r a x) = d (.blob r a x) ∨
      crashAt k cut (stepsOps (blobPush r haveUploads haveAlgDir nu a x b)) d (.blob r a x) = some b) ∧
    ∀ q : Path, q.isTemp = false → q ≠ .blob r a x →
      crashAt k cut (stepsOps (blobPush r haveUploads haveAlgDir nu a x b)) d q = d q := by
  have h := crash_of_crashAt k cut (stepsOps (blobPush r haveUploads haveAlgDir nu a x b)) d
  rcases blobPush_crash _ _ _ _ _ _ _ h with ha | ha
  · exact ⟨Or.inl (ha _ rfl), fun q hq _ => ha q hq⟩
  · refine ⟨Or.inr (by rw [ha _ rfl]; simp), fun q hq hne => ?_⟩
    rw [ha q hq]; exact Disk.set_other _ _ hne

/-- a blob file that hashes to its name before still does at every crash point of a commit whose name is the
digest of the bytes written (`Close` renames to `dru.d.Digest()`) -/
theorem blobCommit_hash (P : Params) (r n a x : Nat) (mk : Bool) (content : Bytes) (d : Disk)
    (hu : d (.upload r n) = some content) (hx : P.H a content = x)
    (hd : ∀ b, d (.blob r a x) = some b → P.H a b = x) (k : Nat) (cut : Option Nat) :
    ∀ b, crashAt k cut (Step.commit r n a x mk).ops d (.blob r a x) = some b → P.H a b = x := by
  intro b hb
  rcases (blobCommit_atomic r n a x mk content d hu k cut).1 with e | e
  · rw [e] at hb; exact hd b hb
  · rw [e] at hb; cases hb; exact hx

/-! ### content before index -/

/-- **Content before index** (manifest `PUT`, with or without a subject, including the first push into a new
repository and the save of the converted annotation).  Let `lists` be any property of index bytes that does not
hold of the initial index a new repository gets ("the index lists the manifest").  If the index on disk lists the manifest only when its blob is complete before the request,
then so it does at every crash point: the manifest blob is committed before the first index save that names it. -/
theorem manifestPut_order (p : Pre) (k : Contents) (mhad mAlgDir subj rhad rAlgDir : Bool) (ma mh ra rh : Nat)
    (d : Disk) (lists : Bytes → Prop)
    (hinit : ¬ lists k.initIndex)
    (hd : ∀ b, d (.index p.r) = some b → lists b → d (.blob p.r ma mh) = some k.body)
    (hhad : mhad = true → d (.blob p.r ma mh) = some k.body)
    (hresp : ¬ (ra = ma ∧ rh = mh))
    (kk : Nat) (cut : Option Nat) :
    ∀ b, crashAt kk cut (stepsOps (manifestPut p k mhad mAlgDir ma mh subj rhad rAlgDir ra rh)) d (.index p.r) = some b →
      lists b →
      crashAt kk cut (stepsOps (manifestPut p k mhad mAlgDir ma mh subj rhad rAlgDir ra rh)) d (.blob p.r ma mh) = some k.body := by
  have h := crash_of_crashAt kk cut (stepsOps (manifestPut p k mhad mAlgDir ma mh subj rhad rAlgDir ra rh)) d
  generalize crashAt kk cut (stepsOps (manifestPut p k mhad mAlgDir ma mh subj rhad rAlgDir ra rh)) d = c at h
  intro b hb hl
  -- the crash states of the repository initialisation keep the invariant and do not touch the blob
  have hE : ∀ c, Crash (stepsOps (ensureRepo p 0 k)) d c →
      (∀ b, c (.index p.r) = some b → lists b → c (.blob p.r ma mh) = some k.body) ∧ c (.blob p.r ma mh) = d (.blob p.r ma mh) := by
    intro c hc
    have hbl : c (.blob p.r ma mh) = d (.blob p.r ma mh) := crash_frame _ hc _ rfl (ensureRepo_blob p 0 k _ _ _)
    refine ⟨fun b hb hl => ?_, hbl⟩
    rcases crash_index_values _ p.r hc with e | ⟨n, b', hm, e⟩ | ⟨hm, _⟩
    · rw [hbl]; exact hd b (e ▸ hb) hl
    · have := ensureRepo_mem p 0 k n b' hm; subst this
      rw [e] at hb; cases hb; exact absurd hl hinit
    · exact absurd hm (ensureRepo_no_rm p 0 k _)
  have hsplit : manifestPut p k mhad mAlgDir ma mh subj rhad rAlgDir ra rh =
      ensureRepo p 0 k ++ ((if mhad then [Step.touch p.r ma mh] else blobPush p.r p.U mAlgDir 1 ma mh k.body) ++
        (convSave p true 2 k ++ [Step.isave p.r 3 k.index1] ++
          (if subj then respSave p k (p.U || !mhad) rhad (rAlgDir || (!mhad && ma == ra)) 4 5 ra rh k.index2 else []))) := by
    simp [manifestPut, List.append_assoc]
  rw [hsplit] at h
  rcases crashSteps_append h with h1 | h2
  · exact (hE c h1).1 b hb hl
  · have hd1 : (∀ b, runSteps (ensureRepo p 0 k) d (.index p.r) = some b → lists b →
          runSteps (ensureRepo p 0 k) d (.blob p.r ma mh) = some k.body) ∧
        runSteps (ensureRepo p 0 k) d (.blob p.r ma mh) = d (.blob p.r ma mh) :=
      hE _ (crash_run (stepsOps (ensureRepo p 0 k)) d)
    generalize runSteps (ensureRepo p 0 k) d = d1 at hd1 h2
    rcases crashSteps_append h2 with h3 | h4
    · -- inside the push of the manifest blob
      cases mhad
      · simp only [Bool.false_eq_true, if_false] at h3
        rcases blobPush_crash _ _ _ _ _ _ _ h3 with ha | ha
        · rw [ha _ rfl] at hb ⊢; exact hd1.1 b hb hl
        · rw [ha _ rfl]; simp
      · simp only [if_true] at h3
        have hag : ∀ q : Path, q.isTemp = false → c q = d1 q :=
          fun q hq => crash_frame _ h3 q hq (by rw [touches_iff]; simp [Step.target])
        rw [hag _ rfl] at hb ⊢; exact hd1.1 b hb hl
    · -- after it: the blob is complete and nothing later touches it
      have hd2 : runSteps (if mhad then [Step.touch p.r ma mh] else blobPush p.r p.U mAlgDir 1 ma mh k.body) d1 (.blob p.r ma mh) = some k.body := by
        cases mhad
        · simp only [Bool.false_eq_true, if_false]
          rw [blobPush_run _ _ _ _ _ _ _ _ _ rfl]; simp
        · simp only [if_true]
          rw [runSteps_frame _ _ _ rfl (by rw [touches_iff]; simp [Step.target]), hd1.2]; exact hhad rfl
      rw [crash_frame _ h4 _ rfl (tail_blob p k true subj _ rhad _ ra rh ma mh hresp)]
      exact hd2

/-- the hypotheses of `manifestPut_order` are satisfiable, and the conclusion has content: in this instance the
index does list the manifest at crash point 10 (and the blob is there) -/
example :
    let p : Pre := { r := 0 }
    let k : Contents := { index1 := [1], index2 := [2], body := [7], resp := [8], convIndex := [0], initIndex := [0] }
    crashAt 10 none (stepsOps (manifestPut p k false true 0 5 true false true 0 6)) empty (.index 0) = some [1] ∧
    crashAt 10 none (stepsOps (manifestPut p k false true 0 5 true false true 0 6)) empty (.blob 0 0 5) = some [7] := by
  decide

/-! ### the invariant, durability -/

/-- **DiskOK is preserved by every prefix (and every cut) of every operation list.**  `ss` is any sequence of
store-level steps - in particular each list of `Fs/Request.lean` - whose steps satisfy the side conditions the code
establishes (`StepsOK`: a saved index parses and its tagged entries name blobs that are on disk *at that point of
the sequence*; a session is renamed to the digest of its bytes; a removed blob is not named by a tagged entry).
Then after a crash anywhere: every repository loads, every blob file hashes to its name, every tag resolves to a
present manifest blob.  The in-place write of `oci-layout` is the one call that can leave a short file; it is not
part of `DiskOK` (see `repoInit_crash`). -/
theorem crash_diskok (P : Params) (ss : List Step) (d : Disk) (hd : DiskOK P d) (hs : StepsOK P ss d)
    (k : Nat) (cut : Option Nat) : DiskOK P (crashAt k cut (stepsOps ss) d) :=
  crash_steps_diskok ss hd hs (crash_of_crashAt k cut _ d)

/-- the hypotheses of `crash_diskok` are satisfiable: toy codec (every number of index.json is a tagged entry, the
digest of a blob is the sum of its bytes), the push of manifest `[7]` followed by the index save that names it -/
def toyParams : Params :=
  { H := fun _ b => b.sum, layoutOK := fun b => b == [1], parse := fun b => some (b.map fun h => ⟨0, h, true⟩) }

example : DiskOK toyParams empty ∧
    StepsOK toyParams (blobPush 0 true true 1 0 7 [7] ++ [Step.isave 0 2 [7]]) empty := by
  refine ⟨by constructor <;> intros <;> simp_all [empty], ?_⟩
  simp [StepsOK, StepOK, blobPush, openUpload, writeBody, Step.ops, FsOp.apply, Disk.set, empty, toyParams]

/-- … and they are *not* satisfiable for the wrong order (index entry before the blob): the side condition of the
index save fails because the blob it names is not on disk at that point -/
example : ¬ StepsOK toyParams ([Step.isave 0 2 [7]] ++ blobPush 0 true true 1 0 7 [7]) empty := by
  simp [StepsOK, StepOK, empty, toyParams]

/-- **Nothing acknowledged earlier is touched.**  A file that is not the target of a step of the interrupted
request - every blob, index and layout of every other repository, and every blob of the same repository other than
the ones the request itself commits or removes - is at every crash point exactly what it was. -/
theorem crash_durable (ss : List Step) (d : Disk) (k : Nat) (cut : Option Nat) (q : Path) (hq : q.isTemp = false)
    (hn : ¬ touches ss q) : crashAt k cut (stepsOps ss) d q = d q :=
  crash_frame ss (crash_of_crashAt k cut _ d) q hq hn

/-- the repository a path belongs to -/
def repoOf : Path → Nat
  | .repo r | .layout r | .index r | .indexTmp r _ | .uploads r | .upload r _ | .blobs r | .algDir r _ | .blob r _ _ => r

/-- what a restarted server computes for a repository that the interrupted request does not address is what it
computed before: its index, every blob -/
theorem crash_durable_repo (P : Params) (ss : List Step) (d : Disk) (k : Nat) (cut : Option Nat) (r' : Nat)
    (hn : ∀ q, touches ss q → repoOf q ≠ r') :
    recover P (crashAt k cut (stepsOps ss) d) r' = recover P d r' := by
  have hq : ∀ q : Path, q.isTemp = false → repoOf q = r' → crashAt k cut (stepsOps ss) d q = d q :=
    fun q hq hr => crash_durable ss d k cut q hq (fun ht => hn q ht hr)
  have hl := hq (.layout r') rfl rfl
  have hi := hq (.index r') rfl rfl
  have hex : repoExists P (crashAt k cut (stepsOps ss) d) r' = repoExists P d r' := by simp [repoExists, hl, hi]
  simp only [recover, hex, hi]
  congr 1
  funext a h
  rw [hq (.blob r' a h) rfl rfl]

/-- the files a manifest `PUT` may change: the repository's layout and index, the manifest blob, the response blob -/
theorem manifestPut_touches (p : Pre) (k : Contents) (mhad mAlgDir subj rhad rAlgDir : Bool) (ma mh ra rh : Nat) (q : Path)
    (h : touches (manifestPut p k mhad mAlgDir ma mh subj rhad rAlgDir ra rh) q) :
    q = .layout p.r ∨ q = .index p.r ∨ q = .blob p.r ma mh ∨ q = .blob p.r ra rh := by
  have hsplit : manifestPut p k mhad mAlgDir ma mh subj rhad rAlgDir ra rh =
      ensureRepo p 0 k ++ ((if mhad then [Step.touch p.r ma mh] else blobPush p.r p.U mAlgDir 1 ma mh k.body) ++
        (convSave p true 2 k ++ [Step.isave p.r 3 k.index1] ++
          (if subj then respSave p k (p.U || !mhad) rhad (rAlgDir || (!mhad && ma == ra)) 4 5 ra rh k.index2 else []))) := by
    simp [manifestPut, List.append_assoc]
  rw [hsplit] at h
  rcases touches_append h with h | h
  · unfold ensureRepo at h
    cases hm : p.mex
    · simp only [hm, Bool.false_eq_true, if_false] at h
      rcases repoInit_touches p 0 k _ h with ⟨e, _⟩ | ⟨e, _⟩
      · exact Or.inl e
      · exact Or.inr (Or.inl e)
    · simp [hm] at h; exact absurd h touches_nil
  rcases touches_append h with h | h
  · cases mhad
    · simp only [Bool.false_eq_true, if_false] at h
      exact Or.inr (Or.inr (Or.inl (blobPush_touches _ _ _ _ _ _ _ _ h)))
    · rw [touches_iff] at h; simp [Step.target] at h
  rcases touches_append h with h | h
  · rcases touches_append h with h | h
    · exact Or.inr (Or.inl (convSave_touches _ _ _ _ _ h))
    · have := touches_singleton h; simp [Step.target] at this
      exact Or.inr (Or.inl this.symm)
  · cases subj
    · simp at h; exact absurd h touches_nil
    · simp only [if_true] at h
      rcases respSave_touches _ _ _ _ _ _ _ _ _ _ _ h with e | e
      · exact Or.inr (Or.inr (Or.inr e))
      · exact Or.inr (Or.inl e)

example : ¬ touches (manifestPut { r := 0 } {} false true 0 6 true false true 0 7) (.blob 0 0 5) := by
  intro h
  rcases manifestPut_touches _ _ _ _ _ _ _ _ _ _ _ _ h with e | e | e | e <;> cases e

/-- an interrupted manifest `PUT` leaves every other blob of the repository and every other repository intact -/
theorem manifestPut_durable (p : Pre) (k : Contents) (mhad mAlgDir subj rhad rAlgDir : Bool) (ma mh ra rh : Nat)
    (d : Disk) (kk : Nat) (cut : Option Nat) (q : Path) (hq : q.isTemp = false)
    (h1 : q ≠ .layout p.r) (h2 : q ≠ .index p.r) (h3 : q ≠ .blob p.r ma mh) (h4 : q ≠ .blob p.r ra rh) :
    crashAt kk cut (stepsOps (manifestPut p k mhad mAlgDir ma mh subj rhad rAlgDir ra rh)) d q = d q := by
  apply crash_durable _ _ _ _ _ hq
  intro ht
  rcases manifestPut_touches _ _ _ _ _ _ _ _ _ _ _ _ ht with e | e | e | e
  · exact h1 e
  · exact h2 e
  · exact h3 e
  · exact h4 e

/-! ### whole requests -/

/-- **A request whose last step is its only observable index save is atomic.**  `pre` is everything the request
does before that save (blob pushes, the repository initialisation, the save of the converted annotation), `obs` any
observation of `index.json` under which the earlier saves of the request are invisible.  At every crash point
either the index is observably the old one and every file the earlier steps do not create is untouched (the state
*before*, plus possibly blobs that no index names yet and temporary files), or the disk is exactly the state *after*
the request on everything a recovery reads.  Instances: manifest `PUT` without a subject, tag move, tag delete,
manifest delete without a referrers response, the first push into a new repository. -/
theorem request_atomic {α : Type} (pre : List Step) (r n : Nat) (b : Bytes) (d : Disk) (obs : Option Bytes → α)
    (hpre : ∀ n' b', Step.isave r n' b' ∈ pre → obs (some b') = obs (d (.index r)))
    (hrm : Step.rm (.index r) ∉ pre) (k : Nat) (cut : Option Nat) :
    (obs (crashAt k cut (stepsOps (pre ++ [Step.isave r n b])) d (.index r)) = obs (d (.index r)) ∧
      ∀ q : Path, q.isTemp = false → ¬ touches pre q → q ≠ .index r →
        crashAt k cut (stepsOps (pre ++ [Step.isave r n b])) d q = d q) ∨
    Agree (crashAt k cut (stepsOps (pre ++ [Step.isave r n b])) d) (runSteps (pre ++ [Step.isave r n b]) d) := by
  have h := crash_of_crashAt k cut (stepsOps (pre ++ [Step.isave r n b])) d
  generalize crashAt k cut (stepsOps (pre ++ [Step.isave r n b])) d = c at h
  have hidx : ∀ c, Crash (stepsOps pre) d c → obs (c (.index r)) = obs (d (.index r)) := by
    intro c hc
    rcases crash_index_values _ r hc with e | ⟨n', b', hm, e⟩ | ⟨hm, _⟩
    · rw [e]
    · rw [e]; exact hpre n' b' hm
    · exact absurd hm hrm
  rcases crashSteps_append h with h1 | h2
  · exact Or.inl ⟨hidx c h1, fun q hq hn _ => crash_frame _ h1 q hq hn⟩
  · have h2' : Crash (Step.isave r n b).ops (runSteps pre d) c := by simpa [stepsOps] using h2
    rcases step_crash _ h2' with ha | ha | ⟨_, _, _, he, _⟩
    · left
      refine ⟨?_, fun q hq hn _ => ?_⟩
      · rw [ha _ rfl]; exact hidx _ (crash_run _ d)
      · rw [ha q hq]; exact runSteps_frame _ d q hq hn
    · right
      have : runSteps (pre ++ [Step.isave r n b]) d = run (Step.isave r n b).ops (runSteps pre d) := by
        rw [runSteps_append]; simp [runSteps, stepsOps]
      rw [this]; exact ha
    · cases he

/-- `request_atomic` applies to a manifest `PUT` without a subject as the model builds it (existing repository) -/
example (p : Pre) (k : Contents) (mhad mAlgDir : Bool) (ma mh : Nat) (hm : p.mex = true) :
    manifestPut p k mhad mAlgDir ma mh false false false 0 0 =
      ((if mhad then [Step.touch p.r ma mh] else blobPush p.r p.U mAlgDir 1 ma mh k.body) ++ convSave p true 2 k) ++ [Step.isave p.r 3 k.index1] := by
  simp [manifestPut, ensureRepo, hm]

/-- **Manifest with a subject: what can be proved** (`_partial`: the statement "before or after" is *false* for this
request, see `request_atomic_subject_fails`; excluded is exactly the window between the two index saves).  The
request is `pre ++ [save i1] ++ mid ++ [save i2]`: at every crash point the index is observably the old one, or
observably the *intermediate* one `i1` (manifest entry saved, referrers response of its subject not yet), or the
disk is exactly the state after the request.  The same shape, with the roles exchanged, is the delete of a tagged
artifact by digest (`manifestDelete` with `refdel`). -/
theorem request_atomic_subject_partial {α : Type} (pre mid : List Step) (r n1 n2 : Nat) (i1 i2 : Bytes) (d : Disk)
    (obs : Option Bytes → α)
    (hpre : ∀ n' b', Step.isave r n' b' ∈ pre → obs (some b') = obs (d (.index r)))
    (hmid : ∀ n' b', Step.isave r n' b' ∈ mid → obs (some b') = obs (some i1))
    (hrm : Step.rm (.index r) ∉ pre ++ [Step.isave r n1 i1] ++ mid) (k : Nat) (cut : Option Nat) :
    obs (crashAt k cut (stepsOps ((pre ++ [Step.isave r n1 i1] ++ mid) ++ [Step.isave r n2 i2])) d (.index r)) = obs (d (.index r)) ∨
    obs (crashAt k cut (stepsOps ((pre ++ [Step.isave r n1 i1] ++ mid) ++ [Step.isave r n2 i2])) d (.index r)) = obs (some i1) ∨
    Agree (crashAt k cut (stepsOps ((pre ++ [Step.isave r n1 i1] ++ mid) ++ [Step.isave r n2 i2])) d)
      (runSteps ((pre ++ [Step.isave r n1 i1] ++ mid) ++ [Step.isave r n2 i2]) d) := by
  have h := crash_of_crashAt k cut (stepsOps ((pre ++ [Step.isave r n1 i1] ++ mid) ++ [Step.isave r n2 i2])) d
  generalize crashAt k cut (stepsOps ((pre ++ [Step.isave r n1 i1] ++ mid) ++ [Step.isave r n2 i2])) d = c at h
  have hidx : ∀ c, Crash (stepsOps (pre ++ [Step.isave r n1 i1] ++ mid)) d c →
      obs (c (.index r)) = obs (d (.index r)) ∨ obs (c (.index r)) = obs (some i1) := by
    intro c hc
    rcases crash_index_values _ r hc with e | ⟨n', b', hm, e⟩ | ⟨hm, _⟩
    · left; rw [e]
    · rw [e]
      simp only [List.mem_append, List.mem_singleton] at hm
      rcases hm with (hm | hm) | hm
      · exact Or.inl (hpre n' b' hm)
      · cases hm; exact Or.inr rfl
      · exact Or.inr (hmid n' b' hm)
    · exact absurd hm hrm
  rcases crashSteps_append h with h1 | h2
  · rcases hidx c h1 with e | e
    · exact Or.inl e
    · exact Or.inr (Or.inl e)
  · have h2' : Crash (Step.isave r n2 i2).ops (runSteps (pre ++ [Step.isave r n1 i1] ++ mid) d) c := by
      simpa [stepsOps] using h2
    rcases step_crash _ h2' with ha | ha | ⟨_, _, _, he, _⟩
    · rw [ha _ rfl]
      rcases hidx _ (crash_run _ d) with e | e
      · exact Or.inl e
      · exact Or.inr (Or.inl e)
    · right; right
      have : runSteps ((pre ++ [Step.isave r n1 i1] ++ mid) ++ [Step.isave r n2 i2]) d =
          run (Step.isave r n2 i2).ops (runSteps (pre ++ [Step.isave r n1 i1] ++ mid) d) := by
        rw [runSteps_append]; simp [runSteps, stepsOps]
      rw [this]; exact ha
    · cases he

/-! ### the witness of F16 on a toy instance -/
namespace Witness

/-- toy codec: an entry of index.json is four numbers `[hex, tag+1 | 0, subject+1 | 0, 0]` (algorithm 0 only) -/
def entries : Bytes → List (Nat × Nat × Nat)
  | h :: t :: s :: _ :: rest => (h, t, s) :: entries rest
  | _ => []

/-- what a client can read of repository 0 after a restart: tags with their digests, manifests present, the
referrers listed for subject `subj` (the content of the response blob the index names for it) -/
def observe (d : Disk) (subj : Nat) : List (Nat × Nat) × List Nat × List Nat :=
  match d (.layout 0), d (.index 0) with
  | some _, some ib =>
    let es := entries ib
    let present := fun (h : Nat) => (d (.blob 0 0 h)).isSome
    (es.filterMap (fun e => if e.2.1 ≠ 0 ∧ present e.1 then some (e.2.1 - 1, e.1) else none),
     es.filterMap (fun e => if e.2.2 = 0 ∧ present e.1 then some e.1 else none),
     match es.find? (fun e => e.2.2 = subj + 1) with
     | some e => (d (.blob 0 0 e.1)).getD []
     | none => [])
  | _, _ => ([], [], [])

/-- before: subject 5 pushed under tag 0 -/
def before : Disk := ((empty.set (.layout 0) (some [1])).set (.index 0) (some [5, 1, 0, 0])).set (.blob 0 0 5) (some [50])

/-- the request: push manifest 6 (untagged) whose subject is 5; the response blob 7 lists `[6]` -/
def req : List Step :=
  manifestPut { r := 0 } { body := [60], index1 := [5, 1, 0, 0, 6, 0, 0, 0], resp := [6], index2 := [5, 1, 0, 0, 6, 0, 0, 0, 7, 0, 6, 0] }
    false true 0 6 true false true 0 7

end Witness

/-- **F16, on the model.**  For a manifest with a subject the statement "the recovered state is the state before or
the state after the request" is false: at crash point 10 (the first index save has been renamed and closed, the
referrers response not yet written; any of the points 9 … 18 would do) a restarted server lists manifest 6 as
present while the referrers of its subject 5 do not list it - neither the state before (6 absent) nor the state after
(6 listed as a referrer of 5).  The same prefix is replayed on the real code by `corpus/C09/f16.ops`. -/
theorem request_atomic_subject_fails :
    Witness.observe (crashAt 10 none (stepsOps Witness.req) Witness.before) 5 ≠ Witness.observe Witness.before 5 ∧
    Witness.observe (crashAt 10 none (stepsOps Witness.req) Witness.before) 5 ≠
      Witness.observe (runSteps Witness.req Witness.before) 5 := by
  decide

example : Witness.observe Witness.before 5 = ([(0, 5)], [5], []) := by decide
example : Witness.observe (crashAt 10 none (stepsOps Witness.req) Witness.before) 5 = ([(0, 5)], [5, 6], []) := by decide
example : Witness.observe (runSteps Witness.req Witness.before) 5 = ([(0, 5)], [5, 6], [6]) := by decide
example : Witness.observe (crashAt 18 none (stepsOps Witness.req) Witness.before) 5 = ([(0, 5)], [5, 6], []) := by decide
example : Witness.observe (crashAt 19 none (stepsOps Witness.req) Witness.before) 5 = ([(0, 5)], [5, 6], [6]) := by decide
example : Witness.observe (crashAt 8 none (stepsOps Witness.req) Witness.before) 5 = ([(0, 5)], [5], []) := by decide

/-! ### repository initialisation, removal of an empty repository, collection -/

/-- **`repoInit` and its in-place `WriteFile(oci-layout)`.**  The layout file is only written when there is no
valid one (`L = false`): a valid layout is never replaced, so a short `oci-layout` can only appear where the
repository did not load before either.  At every crash point: no blob and no other repository is touched;
`index.json` is what it was or the complete initial index. -/
theorem repoInit_crash (p : Pre) (n : Nat) (c : Contents) (d : Disk) (k : Nat) (cut : Option Nat) :
    (p.L = true → crashAt k cut (stepsOps (repoInit p n c)) d (.layout p.r) = d (.layout p.r)) ∧
    (crashAt k cut (stepsOps (repoInit p n c)) d (.index p.r) = d (.index p.r) ∨
      crashAt k cut (stepsOps (repoInit p n c)) d (.index p.r) = some c.initIndex) ∧
    (p.I = true → crashAt k cut (stepsOps (repoInit p n c)) d (.index p.r) = d (.index p.r)) ∧
    ∀ q : Path, q.isTemp = false → q ≠ .layout p.r → q ≠ .index p.r → crashAt k cut (stepsOps (repoInit p n c)) d q = d q := by
  have h := crash_of_crashAt k cut (stepsOps (repoInit p n c)) d
  refine ⟨fun hL => ?_, ?_, fun hI => ?_, fun q hq h1 h2 => ?_⟩
  · apply crash_frame _ h _ rfl
    intro ht
    rcases repoInit_touches p n c _ ht with ⟨_, e⟩ | ⟨e, _⟩
    · rw [hL] at e; cases e
    · cases e
  · rcases crash_index_values _ p.r h with e | ⟨n', b', hm, e⟩ | ⟨hm, _⟩
    · exact Or.inl e
    · right; rw [e]
      have : b' = c.initIndex := ensureRepo_mem { p with mex := false } n c n' b' (by simpa [ensureRepo, repoInit] using hm)
      rw [this]
    · exfalso; exact ensureRepo_no_rm { p with mex := false } n c (.index p.r) (by simp [repoInit] at hm)
  · apply crash_frame _ h _ rfl
    intro ht
    rcases repoInit_touches p n c _ ht with ⟨e, _⟩ | ⟨_, e⟩
    · cases e
    · rw [hI] at e; cases e
  · apply crash_frame _ h q hq
    intro ht
    rcases repoInit_touches p n c _ ht with ⟨e, _⟩ | ⟨e, _⟩
    · exact h1 e
    · exact h2 e

/-- a repository whose directory does not load before `repoInit` (no valid layout or no index) has nothing
acknowledged that a crash inside `repoInit` could lose: whatever a restarted server computes for it at a crash
point, its blobs on disk are untouched and its index, if any, is the old or the initial one (previous theorem);
and a repository that *does* load is not written at all -/
theorem repoInit_loaded_untouched (p : Pre) (n : Nat) (c : Contents) (hD : p.D = true) (hL : p.L = true) (hI : p.I = true) :
    repoInit p n c = [] := by
  simp [repoInit, hD, hL, hI]

/-- **`repoInit` repairs whatever a crash inside `repoInit` left.**  Let `c` be *any* disk - in particular the disk at any
crash point of an earlier `repoInit`, with `oci-layout` missing, empty or cut short - and let the facts `L`, `I` be what
the code computes on `c` (`L`: the layout file exists **and verifies**, `I`: index.json exists).  Then after a complete
`repoInit` the repository loads: the layout file verifies and index.json is there.  This is what a `repoInit` that only
tests the *existence* of `oci-layout` breaks (a torn file is kept, pushes are acknowledged, the next restart does not
find the repository); on the code it is the monitor `C09.ack-lost-after-recovery` of the continuation probe. -/
theorem repoInit_repairs (P : Params) (p : Pre) (n : Nat) (k : Contents) (c : Disk)
    (hk : P.layoutOK k.layoutBytes = true)
    (hL : p.L = (match c (.layout p.r) with | some b => P.layoutOK b | none => false))
    (hI : p.I = (c (.index p.r)).isSome) :
    repoExists P (runSteps (repoInit p n k) c) p.r = true := by
  cases hD : p.D <;> cases hL' : p.L <;> cases hI' : p.I <;>
    simp [repoInit, hD, hL', hI', runSteps, stepsOps, Step.ops, FsOp.apply, Disk.set, repoExists, hk] <;>
    simp_all [Option.isSome_iff_exists] <;> try assumption

/-- at every crash point of `repoInit`, a restart followed by a complete `repoInit` (what the next write does) yields a
repository that loads -/
theorem repoInit_crash_then_repoInit (P : Params) (p p' : Pre) (n n' : Nat) (k : Contents) (d : Disk) (kk : Nat) (cut : Option Nat)
    (hk : P.layoutOK k.layoutBytes = true) (hr : p'.r = p.r)
    (hL : p'.L = (match crashAt kk cut (stepsOps (repoInit p n k)) d (.layout p.r) with | some b => P.layoutOK b | none => false))
    (hI : p'.I = (crashAt kk cut (stepsOps (repoInit p n k)) d (.index p.r)).isSome) :
    repoExists P (runSteps (repoInit p' n' k) (crashAt kk cut (stepsOps (repoInit p n k)) d)) p.r = true := by
  rw [← hr] at hL hI ⊢
  exact repoInit_repairs P p' n' k _ hk hL hI

/-- the hypotheses are satisfiable and the statement has content: a layout cut after 1 of 3 bytes does not verify, the
second `repoInit` rewrites it -/
example :
    let P : Params := { H := fun _ b => b.sum, layoutOK := fun b => b == [1, 2, 3], parse := fun _ => some [] }
    let k : Contents := { layoutBytes := [1, 2, 3], initIndex := [9] }
    let p : Pre := { r := 0, mex := false, D := false, L := false, I := false, U := false }
    crashAt 1 (some 1) (stepsOps (repoInit p 0 k)) empty (.layout 0) = some [1] ∧
    repoExists P (runSteps (repoInit { p with D := true } 1 k) (crashAt 1 (some 1) (stepsOps (repoInit p 0 k)) empty)) 0 = true := by
  decide

/-- **Removal of an empty repository** (either variant: trying every entry, or stopping at the first that cannot be
removed; any list of candidates).  At every crash point no file outside the candidate list is touched - in particular
no blob - and `index.json` is what it was or gone: the sequence can only make a repository *without any index entry*
disappear, which a client cannot tell from the empty repository. -/
theorem emptyRemoval_crash (cands : List Cand) (stop : Bool) (r : Nat) (d : Disk) (k : Nat) (cut : Option Nat) :
    (crashAt k cut (stepsOps (emptyRemoval cands stop)) d (.index r) = d (.index r) ∨
      crashAt k cut (stepsOps (emptyRemoval cands stop)) d (.index r) = none) ∧
    ∀ q : Path, q.isTemp = false → q ∉ cands.map Prod.fst → crashAt k cut (stepsOps (emptyRemoval cands stop)) d q = d q := by
  have h := crash_of_crashAt k cut (stepsOps (emptyRemoval cands stop)) d
  refine ⟨?_, fun q hq hn => ?_⟩
  · rcases crash_index_values _ r h with e | ⟨n', b', hm, _⟩ | ⟨_, e⟩
    · exact Or.inl e
    · obtain ⟨_, e, _⟩ := emptyRemoval_mem _ _ _ hm; cases e
    · exact Or.inr e
  · apply crash_frame _ h q hq
    rintro ⟨s, hs, ht⟩
    obtain ⟨q', e, hm⟩ := emptyRemoval_mem _ _ _ hs
    subst e; simp [Step.target] at ht; subst ht; exact hn hm

/-- **A collection interrupted anywhere removes only garbage.**  At every crash point of the removal phase of a
collection (`garbage`: the blobs it decided to remove), every other blob of the repository is untouched and a blob
of the list is either still there, unchanged, or gone; `index.json` is the old one or the complete new one.  So every
item the collection retains is intact whatever the crash point - the reading of "present as a whole" for a
collection, which is a sequence of independent removals rather than one request. -/
theorem collect_crash (p : Pre) (c : Contents) (garbage : List (Nat × Nat)) (idxChanged : Bool) (d : Disk)
    (k : Nat) (cut : Option Nat) :
    let ss := garbage.map (fun g => Step.rm (.blob p.r g.1 g.2)) ++ (if idxChanged then [Step.isave p.r 3 c.index1] else [])
    (∀ a x, (a, x) ∉ garbage → crashAt k cut (stepsOps ss) d (.blob p.r a x) = d (.blob p.r a x)) ∧
    (∀ a x, crashAt k cut (stepsOps ss) d (.blob p.r a x) = d (.blob p.r a x) ∨ crashAt k cut (stepsOps ss) d (.blob p.r a x) = none) ∧
    (crashAt k cut (stepsOps ss) d (.index p.r) = d (.index p.r) ∨ crashAt k cut (stepsOps ss) d (.index p.r) = some c.index1) := by
  intro ss
  have h := crash_of_crashAt k cut (stepsOps ss) d
  have hnc : ∀ a x n mk, Step.commit p.r n a x mk ∉ ss := by
    intro a x n mk hm
    simp only [ss, List.mem_append, List.mem_map] at hm
    rcases hm with ⟨g, _, e⟩ | hm
    · cases e
    · cases idxChanged <;> simp at hm
  refine ⟨fun a x hg => ?_, fun a x => ?_, ?_⟩
  · rcases crash_blob_values ss p.r a x h (hnc a x) with e | ⟨hm, _⟩
    · exact e
    · exfalso
      simp only [ss, List.mem_append, List.mem_map] at hm
      rcases hm with ⟨g, hg', e⟩ | hm
      · cases e; exact hg hg'
      · cases idxChanged <;> simp at hm
  · rcases crash_blob_values ss p.r a x h (hnc a x) with e | ⟨_, e⟩
    · exact Or.inl e
    · exact Or.inr e
  · rcases crash_index_values ss p.r h with e | ⟨n', b', hm, e⟩ | ⟨hm, _⟩
    · exact Or.inl e
    · right; rw [e]
      simp only [ss, List.mem_append, List.mem_map] at hm
      rcases hm with ⟨g, _, e'⟩ | hm
      · cases e'
      · cases idxChanged <;> simp at hm
        rw [hm.2]
    · exfalso
      simp only [ss, List.mem_append, List.mem_map] at hm
      rcases hm with ⟨g, _, e'⟩ | hm
      · cases e'
      · cases idxChanged <;> simp at hm

end C09
