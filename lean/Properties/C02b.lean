import Upd.ReadbackProofs
/-!
# C02 (continued) — an acknowledged manifest push reads back: index entry, blob, and the GET answer

Model: `Upd.mPut` / `Upd.mGet` on the memory store.  For a push answered 201, `a` is what validation accepted
(`a.d` the digest of the bytes received, `a.mt` the media type, `a.len` the length, `a.tag` the tag).
What has to hold in the state *before* the push for the read-back to return the pushed media type
(`Upd.Rb.Consistent s r a`): nothing already recorded under the pushed digest — an index entry or child, a child the
manifest lists, and, when the manifest has a subject, a descriptor in a referrers response — carries another media
type or size, and the pushed digest is not that of a referrers response.  This is needed because lookups by digest
return the *first* entry of the digest (`Upd.getDescDig`): see the note at `readback_by_digest`.
For the tag: no tag names two digests and no entry has an empty digest before the push (`Upd.Rb.TagFunS`,
`Upd.Rb.NoEmptyDigS`; the C18 invariants, proved for the index data structure in `Ixd`).
`hrt : DigArg.parse a.d.str = .ok a.d` — the printed digest parses back — is a fact about the symbolic content
names of the model (true for every body name the harness uses, `@…`; core has no `String.splitOn` lemmas to prove it).
Tie: monitor `C02.readback` on profiles `mix`, `limits`.
-/
namespace C02b
open Upd Upd.Rb

/-- an acknowledged push (201) went through validation, answers with the digest of the bytes received, and afterwards
    the blob of that digest holds exactly those bytes — in every state that satisfies the C01 invariant -/
theorem mPut_ack_stored (s : State) (r ref ct qd b : String) (lk : Bool) (hinv : Inv s)
    (h201 : (mPut s r ref ct qd b lk).2.status = 201) :
    ∃ a, mValidate (s.setRepo (s.repo r)) r ref ct qd b lk = .ok a ∧ a.d.content = b ∧
      (mPut s r ref ct qd b lk).2.dcd = a.d.str ∧ ((mPut s r ref ct qd b lk).1.repo r).blob a.d = some b := by
  obtain ⟨a, hv⟩ := mPut_ack_validated s r ref ct qd b lk h201
  refine ⟨a, hv, mValidate_digest _ r ref ct qd b lk a hv, ?_, readback_blob s r ref ct qd b lk a hinv hv⟩
  rw [mPut_eq_commit s r ref ct qd b lk a hv]; rfl

/-- read-back by digest: after an acknowledged push, looking up any reference that parses to the pushed digest
    returns the pushed media type and length.
    Without `Consistent` this is false: an entry of the same digest pushed earlier under another media type and
    another tag stays first in the index, and a GET by digest that accepts only the new media type answers 404. -/
theorem readback_by_digest (s : State) (r ref ct qd b : String) (lk : Bool) (a : Accepted)
    (hv : mValidate (s.setRepo (s.repo r)) r ref ct qd b lk = .ok a) (hc : Consistent s r a)
    (arg : String) (harg : isTag arg = false) (hp : DigArg.parse arg = .ok a.d) :
    getDesc ((mPut s r ref ct qd b lk).1.repo r).index arg = some { mt := a.mt, dig := a.d.str, size := a.len } :=
  readback_digest s r ref ct qd b lk a hv hc arg harg hp

/-- read-back by tag: after an acknowledged tag push the tag resolves to an entry of the pushed digest, media type
    and length -/
theorem readback_by_tag (s : State) (r ref ct qd b : String) (lk : Bool) (a : Accepted)
    (hv : mValidate (s.setRepo (s.repo r)) r ref ct qd b lk = .ok a) (hc : Consistent s r a)
    (htag : isTag ref = true)
    (hJ : TagFunS (s.repo r).index.manifests) (hD : NoEmptyDigS (s.repo r).index.manifests) :
    ∃ e, getDesc ((mPut s r ref ct qd b lk).1.repo r).index ref = some e ∧
      e.mt = a.mt ∧ e.dig = a.d.str ∧ e.size = a.len :=
  readback_tag s r ref ct qd b lk a hv hc htag hJ hD

/-- the GET answers: by digest, and by the tag for a tag push, a GET that accepts the pushed media type answers 200
    with the bytes received, their digest, the pushed media type and the Content-Length of that content -/
theorem mPut_ack_readback (s : State) (r ref ct qd b : String) (lk : Bool) (a : Accepted) (hinv : Inv s)
    (hv : mValidate (s.setRepo (s.repo r)) r ref ct qd b lk = .ok a) (hc : Consistent s r a)
    (hrt : DigArg.parse a.d.str = .ok a.d) (accept : List String) (hacc : accept.contains a.mt = true) (head : Bool) :
    (∀ arg, isTag arg = false → DigArg.parse arg = .ok a.d →
      (mGet (mPut s r ref ct qd b lk).1 r arg accept head).2 =
        { status := 200, dcd := a.d.str, ct := a.mt, cl := toString (contentLen (mPut s r ref ct qd b lk).1 b),
          body := if head then "-" else "=" ++ cname b }) ∧
    (isTag ref = true → TagFunS (s.repo r).index.manifests → NoEmptyDigS (s.repo r).index.manifests →
      (mGet (mPut s r ref ct qd b lk).1 r ref accept head).2 =
        { status := 200, dcd := a.d.str, ct := a.mt, cl := toString (contentLen (mPut s r ref ct qd b lk).1 b),
          body := if head then "-" else "=" ++ cname b }) := by
  have hb := readback_blob s r ref ct qd b lk a hinv hv
  constructor
  · intro arg harg hp
    have hg := readback_digest s r ref ct qd b lk a hv hc arg harg hp
    exact mGet_serves _ r arg accept head _ a.d b hg hacc hrt hb
  · intro htag hJ hD
    obtain ⟨e, hg, hm, hd, _⟩ := readback_tag s r ref ct qd b lk a hv hc htag hJ hD
    have := mGet_serves _ r ref accept head e a.d b hg (by rw [hm]; exact hacc) (by rw [hd]; exact hrt) hb
    rw [this, hm]

/-- … and for a manifest body (content names `@…`) that Content-Length is the length that was pushed -/
theorem readback_length (s : State) (r ref ct qd b : String) (lk : Bool) (a : Accepted)
    (hv : mValidate (s.setRepo (s.repo r)) r ref ct qd b lk = .ok a) (hb : b.startsWith "@" = true) :
    contentLen (mPut s r ref ct qd b lk).1 b = a.len := contentLen_accepted s r ref ct qd b lk a hv hb

-- non-vacuity: in the empty repository every accepted push is consistent when it has no subject, and the tag
-- invariants hold
example (a : Accepted) (h : a.subject = "") (hch : a.children = []) : Consistent {} "r" a where
  idx := fun e he => by cases he
  chi := fun c hc => by rw [hch] at hc; cases hc
  notResp := fun hs => absurd h hs
  resps := fun hs => absurd h hs
example : TagFunS (({} : State).repo "r").index.manifests ∧ NoEmptyDigS (({} : State).repo "r").index.manifests := by
  constructor
  · intro _ _ e he; cases he
  · intro e he; cases he
example : Inv {} := fun rp h => by cases h
-- a concrete acknowledged push (an empty index pushed under tag `t1`), so `h201` and with it `hv` are satisfiable
example : (mPut { defs := [("@i", { kind := "index", len := 7 })] } "r" "t1" "ocii" "" "@i").2.status = 201 := by decide
end C02b
