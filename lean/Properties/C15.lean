import Upd.Frame
import Upd.C04
/-!
# C15 — any request gets a well-formed answer: no panic, no 5xx for client errors

Model: every handler of `Upd` is a total function — Go slice and index expressions with computed bounds are
transcribed with their guards (after the repair of tags/list there is none left that can fail), so "no panic" is
the totality of `Upd.step` plus the correspondence run, in which a recovered panic is the status 999 that the model
never produces.  Routing only reaches a handler with a repository name of the OCI grammar (`validRepo`).
Tie: all HTTP profiles plus `raw` (arbitrary methods, paths, queries); monitors `C15.panic`, `C15.5xx`,
`C15.error-doc`, `C15.error-code`, `C15.code-for-condition`; the error-code table is regenerated from
types/errors.go (Generated.Errors) and checked by `decide`.
-/
namespace C15
open Upd

/-- only names of the repository grammar are routed: anything else is 404 before any handler or store is reached -/
theorem routes_grammar (s : State) (q : Req) (h : validRepo q.target = false) :
    step s q = (s, notFound) := by
  cases q <;> simp_all [step, Req.target]

/-- the tag listing answers 200 for every `n` and `last` -/
theorem tags_never_fails (s : State) (r n last : String) : (tags s r n last).2.status = 200 := by
  unfold tags; simp only []; repeat' split
  all_goals rfl

/-- a manifest push answers 201, 400 or 413 — never a 5xx -/
theorem manifest_put_no_5xx (s : State) (r ref ct qd b : String) (lk : Bool) :
    (mPut s r ref ct qd b lk).2.status = 201 ∨ (mPut s r ref ct qd b lk).2.status = 400 ∨ (mPut s r ref ct qd b lk).2.status = 413 := by
  unfold mPut
  simp only []
  cases hv : mValidate (s.setRepo (s.repo r)) r ref ct qd b lk with
  | ok a => left; rfl
  | error e => right; exact mValidate_refusal_4xx _ r ref ct qd b lk e hv

/-- blob reads and deletes answer 200, 206, 202, 400, 404 or 416 -/
theorem blob_ops_no_5xx (s : State) (r arg : String) (hd : Bool) (rng : String) :
    (bGet s r arg hd rng).2.status < 500 ∧ (bDel s r arg).2.status < 500 := by
  constructor
  · unfold bGet serve; simp only []; repeat' split
    all_goals simp
  · unfold bDel; simp only []; repeat' split
    all_goals simp

/-- chunk uploads and session queries answer 202, 204, 400 or 416 -/
theorem session_ops_no_5xx (s : State) (r : String) (pub : Nat) (q : Q) :
    (uPatch s r pub q).2.status < 500 ∧ (uGet s r pub).2.status < 500 ∧ (uDel s r pub).2.status < 500 := by
  refine ⟨?_, ?_, ?_⟩
  · unfold uPatch withSession; simp only []; repeat' split
    all_goals simp
  · unfold uGet withSession; simp only []; repeat' split
    all_goals simp
  · unfold uDel withSession; simp only []; repeat' split
    all_goals simp

/-- referrers requests answer 200 or 400 -/
theorem refs_no_5xx (s : State) (r arg f c p : String) : (refs s r arg f c p).2.status = 200 ∨ (refs s r arg f c p).2.status = 400 := by
  unfold refs
  simp only []
  split
  · rename_i resp hp
    unfold refsPaged at hp
    repeat' split at hp
    all_goals first
      | (simp at hp; done)
      | (simp only [Option.some.injEq] at hp; subst hp; first | (left; rfl) | (right; rfl))
  · left
    unfold refsMain; simp only []; repeat' split
    all_goals rfl

example : validRepo "A" = false := by simp [validRepo, validRepoL]; decide
end C15
